//! Public-API-only executor: the protocol of /verif/harness (`gen`, `exec`) restricted to what a user of the crate can call
//! and read.  Built twice by `check` in fallback mode — against the tree under test and against the pinned, verified commit —
//! and run on the same operation streams; the outputs must agree line for line.
#[path = "../../harness/src/gen.rs"]
mod gen;
#[path = "../../harness/src/rng.rs"]
mod rng;
mod exec;

fn main() {
    let args: Vec<String> = std::env::args().collect();
    match args.get(1).map(|s| s.as_str()) {
        Some("gen") => {
            let seed: u64 = args[3].parse().unwrap();
            let n: usize = args[4].parse().unwrap();
            use std::io::Write;
            let out = std::io::stdout();
            let mut w = std::io::BufWriter::new(out.lock());
            for l in gen::stream(&args[2], seed, n) {
                writeln!(w, "{}", l).unwrap();
            }
        }
        Some("exec") => exec::run_stdin(),
        _ => {
            eprintln!("usage: verif-harness-pub gen <stream> <seed> <n> | exec");
            std::process::exit(2);
        }
    }
}
