//! Executes protocol lines on the real `synth-utils` code through its public API only.
use crate::rng::{canon, fb};
use std::panic::{catch_unwind, AssertUnwindSafe};
use synth_utils::adsr::{self, Adsr};
use synth_utils::glide_processor::GlideProcessor;
use synth_utils::lfo::{Lfo, Waveshape};
use synth_utils::mono_midi_receiver::{MonoMidiReceiver, NotePriority, RetriggerMode};
use synth_utils::quantizer::{Note, Quantizer};
use synth_utils::ribbon_controller::{self, RibbonController};

pub trait RibbonDyn {
    fn poll(&mut self, x: f32);
    fn jp(&mut self) -> bool;
    fn jr(&mut self) -> bool;
    fn obs(&self) -> String;
}

impl<const N: usize> RibbonDyn for RibbonController<N> {
    fn poll(&mut self, x: f32) {
        RibbonController::poll(self, x)
    }
    fn jp(&mut self) -> bool {
        self.finger_just_pressed()
    }
    fn jr(&mut self) -> bool {
        self.finger_just_released()
    }
    fn obs(&self) -> String {
        format!("{} {}", self.finger_is_pressing() as u8, fb(RibbonController::value(self)))
    }
}

macro_rules! ribbon_caps {
    ($cap:expr, $a:expr, $b:expr, $c:expr, $d:expr; $($n:literal),*) => {
        match $cap {
            $( $n => Some(Box::new(RibbonController::<$n>::new($a, $b, $c, $d)) as Box<dyn RibbonDyn>), )*
            _ => None,
        }
    };
}

/// capacities for which a monomorphised instance exists
pub const RIBBON_CAPS: [usize; 129] = [1, 2, 3, 4, 5, 9, 13, 16, 18, 26, 35, 43, 50, 52, 60, 69, 77, 86, 94, 103, 111, 120, 125, 128, 137, 145, 154, 162, 171, 179, 188, 196, 205, 213, 222, 230, 239, 247, 256, 264, 266, 273, 281, 290, 298, 307, 315, 324, 332, 341, 349, 358, 366, 375, 383, 392, 400, 409, 417, 426, 434, 443, 451, 460, 468, 477, 485, 494, 502, 511, 519, 528, 536, 545, 553, 562, 570, 579, 587, 596, 604, 613, 621, 630, 638, 647, 655, 664, 672, 681, 689, 698, 706, 715, 723, 732, 740, 749, 750, 757, 766, 774, 783, 791, 800, 808, 817, 825, 834, 842, 851, 953, 1000, 1089, 1500, 1531, 1633, 1718, 1769, 1905, 2177, 2999, 3061, 3265, 3435, 3537, 3809, 4268, 4302];

pub fn make_ribbon(cap: usize, sr: f32, sp: f32, dr: f32, pu: f32) -> Option<Box<dyn RibbonDyn>> {
    ribbon_caps!(cap, sr, sp, dr, pu; 1, 2, 3, 4, 5, 9, 13, 16, 18, 26, 35, 43, 50, 52, 60, 69, 77, 86, 94, 103, 111, 120, 125, 128, 137, 145, 154, 162, 171, 179, 188, 196, 205, 213, 222, 230, 239, 247, 256, 264, 266, 273, 281, 290, 298, 307, 315, 324, 332, 341, 349, 358, 366, 375, 383, 392, 400, 409, 417, 426, 434, 443, 451, 460, 468, 477, 485, 494, 502, 511, 519, 528, 536, 545, 553, 562, 570, 579, 587, 596, 604, 613, 621, 630, 638, 647, 655, 664, 672, 681, 689, 698, 706, 715, 723, 732, 740, 749, 750, 757, 766, 774, 783, 791, 800, 808, 817, 825, 834, 842, 851, 953, 1000, 1089, 1500, 1531, 1633, 1718, 1769, 1905, 2177, 2999, 3061, 3265, 3435, 3537, 3809, 4268, 4302)
}

pub enum Obj {
    None,
    Adsr(Adsr),
    Lfo(Lfo),
    Quant(Quantizer),
    Midi(MonoMidiReceiver),
    Glide(GlideProcessor),
    Ribbon(Box<dyn RibbonDyn>),
}

fn f(s: &str) -> f32 {
    f32::from_bits(s.parse::<u32>().expect("float bits"))
}
fn n(s: &str) -> u64 {
    s.parse::<u64>().expect("integer")
}

fn adsr_obs(a: &Adsr) -> String {
    fb(a.value())
}

fn lfo_obs(l: &Lfo) -> String {
    let g = |w: Waveshape| fb(catch_unwind(AssertUnwindSafe(|| l.get(w))).unwrap_or(f32::NAN));
    format!("{} {} {} {} {}", g(Waveshape::Sine), g(Waveshape::Triangle), g(Waveshape::UpSaw), g(Waveshape::DownSaw), g(Waveshape::Square))
}

fn quant_obs(q: &Quantizer) -> String {
    let mut m = 0u32;
    for k in 0..12u8 {
        if q.is_allowed(Note::new(k)) {
            m |= 1 << k;
        }
    }
    m.to_string()
}

fn midi_obs(m: &MonoMidiReceiver) -> String {
    format!(
        "{} {} {} {} {} {} {} {} {} {} {}",
        m.note_num(),
        fb(m.velocity()),
        fb(m.pitch_bend()),
        fb(m.mod_wheel()),
        fb(m.volume()),
        fb(m.vcf_cutoff()),
        fb(m.vcf_resonance()),
        fb(m.portamento_time()),
        m.portamento_enabled() as u8,
        m.sustain_enabled() as u8,
        m.gate() as u8
    )
}

pub fn step(o: &mut Obj, ws: &[&str]) -> String {
    let r = catch_unwind(AssertUnwindSafe(|| step_inner(o, ws)));
    match r {
        Ok(s) => s,
        Err(_) => {
            *o = Obj::None;
            "PANIC".to_string()
        }
    }
}

fn step_inner(o: &mut Obj, ws: &[&str]) -> String {
    match ws {
        ["fop", ..] | ["fop1", ..] => return "NA".to_string(),
        ["adsr", "new", sr] => {
            let a = Adsr::new(f(sr));
            let s = adsr_obs(&a);
            *o = Obj::Adsr(a);
            return s;
        }
        ["lfo", "new", sr] => {
            let l = Lfo::new(f(sr));
            let s = lfo_obs(&l);
            *o = Obj::Lfo(l);
            return s;
        }
        ["quant", "new"] => {
            let q = Quantizer::new();
            let s = quant_obs(&q);
            *o = Obj::Quant(q);
            return s;
        }
        ["midi", "new", ch] => {
            let m = MonoMidiReceiver::new(n(ch) as u8);
            let s = midi_obs(&m);
            *o = Obj::Midi(m);
            return s;
        }
        ["glide", "new", sr] => {
            *o = Obj::None;
            let g = GlideProcessor::new(f(sr));
            *o = Obj::Glide(g);
            return "ok".to_string();
        }
        ["ribbon", "new", cap, sr, sp, dr, pu] => {
            *o = Obj::None;
            let r = make_ribbon(n(cap) as usize, f(sr), f(sp), f(dr), f(pu)).expect("unsupported ribbon capacity");
            let s = r.obs();
            *o = Obj::Ribbon(r);
            return s;
        }
        ["tp", x] => return fb(f32::from(adsr::TimePeriod::from(f(x)))),
        ["sl", x] => return fb(f32::from(adsr::SustainLevel::from(f(x)))),
        ["notenew", x] => return u8::from(Note::new(n(x) as u8)).to_string(),
        ["notefrom", x] => return u8::from(Note::from(std::hint::black_box(n(x) as u8))).to_string(),
        ["cap", sr] => {
            return ribbon_controller::sample_rate_to_capacity(std::hint::black_box(n(sr) as u32)).to_string()
        }
        _ => {}
    }
    match (o, ws) {
        (Obj::None, _) => "GONE".to_string(),
        (Obj::Adsr(a), ["gate_on"]) => {
            a.gate_on();
            adsr_obs(a)
        }
        (Obj::Adsr(a), ["gate_off"]) => {
            a.gate_off();
            adsr_obs(a)
        }
        (Obj::Adsr(a), ["tick"]) => {
            a.tick();
            adsr_obs(a)
        }
        // `ticks N` stops at a phase change in the hooks-enabled executor; without the state the run is capped instead
        (Obj::Adsr(a), ["ticks", x]) => {
            let lim = n(x).min(200_000);
            let mut acc = 0u64;
            for _ in 0..lim {
                a.tick();
                acc = acc.wrapping_mul(1099511628211).wrapping_add(a.value().to_bits() as u64);
            }
            format!("{} {}", adsr_obs(a), acc)
        }
        (Obj::Adsr(a), ["set", k, x]) => {
            let v = f(x);
            a.set_input(match *k {
                "a" => adsr::Input::Attack(v.into()),
                "d" => adsr::Input::Decay(v.into()),
                "s" => adsr::Input::Sustain(v.into()),
                _ => adsr::Input::Release(v.into()),
            });
            adsr_obs(a)
        }
        // the accumulator setter is a hook: not available
        (Obj::Adsr(_), ["setacc", _]) | (Obj::Lfo(_), ["setacc", _]) => "NA".to_string(),
        (Obj::Lfo(l), ["tick"]) => {
            l.tick();
            lfo_obs(l)
        }
        (Obj::Lfo(l), ["freq", x]) => {
            l.set_frequency(f(x));
            lfo_obs(l)
        }
        (Obj::Lfo(l), ["reset"]) => {
            l.reset();
            lfo_obs(l)
        }
        (Obj::Lfo(l), ["phase", x]) => {
            l.set_phase(f(x));
            lfo_obs(l)
        }
        (Obj::Quant(q), ["convert", x]) => {
            let c = q.convert(f(x));
            format!("{} {} {} {}", quant_obs(q), c.note_num, fb(c.stairstep), fb(c.fraction))
        }
        (Obj::Quant(q), [op @ ("allow" | "forbid"), rest @ ..]) => {
            let notes: Vec<Note> =
                rest.iter().enumerate().map(|(i, s)| if i % 2 == 0 { Note::new(n(s) as u8) } else { Note::from(n(s) as u8) }).collect();
            if *op == "allow" {
                q.allow(&notes)
            } else {
                q.forbid(&notes)
            }
            quant_obs(q)
        }
        (Obj::Midi(m), ["byte", b]) => {
            m.parse(n(b) as u8);
            midi_obs(m)
        }
        (Obj::Midi(m), ["rising"]) => {
            let r = m.rising_gate();
            format!("{} {}", r as u8, midi_obs(m))
        }
        (Obj::Midi(m), ["falling"]) => {
            let r = m.falling_gate();
            format!("{} {}", r as u8, midi_obs(m))
        }
        (Obj::Midi(m), ["retrig", x]) => {
            m.set_retrigger_mode(if n(x) == 1 { RetriggerMode::AllowRetrigger } else { RetriggerMode::NoRetrigger });
            midi_obs(m)
        }
        (Obj::Midi(m), ["prio", x]) => {
            m.set_note_priority(match n(x) {
                0 => NotePriority::Last,
                1 => NotePriority::High,
                _ => NotePriority::Low,
            });
            midi_obs(m)
        }
        (Obj::Glide(g), ["time", x]) => {
            g.set_time(f(x));
            "ok".to_string()
        }
        (Obj::Glide(g), ["proc", x]) => fb(g.process(f(x))),
        (Obj::Ribbon(r), ["poll", x]) => {
            r.poll(f(x));
            r.obs()
        }
        (Obj::Ribbon(r), ["jp"]) => {
            let b = r.jp();
            format!("{} {}", b as u8, r.obs())
        }
        (Obj::Ribbon(r), ["jr"]) => {
            let b = r.jr();
            format!("{} {}", b as u8, r.obs())
        }
        _ => "bad-op".to_string(),
    }
}

pub fn run_stdin() {
    use std::io::{BufRead, Write};
    std::panic::set_hook(Box::new(|_| {}));
    let stdin = std::io::stdin();
    let stdout = std::io::stdout();
    let mut out = std::io::BufWriter::new(stdout.lock());
    let mut o = Obj::None;
    for line in stdin.lock().lines() {
        let line = line.unwrap();
        let ws: Vec<&str> = line.split_whitespace().collect();
        if ws.is_empty() {
            writeln!(out, "bad-op").unwrap();
            continue;
        }
        let s = step(&mut o, &ws);
        writeln!(out, "{}", s).unwrap();
    }
    let _ = canon(0);
}
