//! Oracles for the glide properties C13, C14.
//! obs layout: [y] cached a1 a2 b0 b1 b2 x1 x2 y1 y2   (proc lines carry the output y first)
use crate::oracle::*;
use synth_utils::glide_processor::GlideProcessor;

struct G {
    cached: f32,
    a1: f32,
    b0: f32,
}

fn parse(o: &[&str]) -> Option<G> {
    if o.len() < 10 {
        return None;
    }
    Some(G { cached: fbits(o[0]), a1: fbits(o[1]), b0: fbits(o[3]) })
}

fn coeffs_of(g: &GlideProcessor) -> (u32, u32) {
    let s = crate::exec::glide_obs(g);
    let w: Vec<&str> = s.split_whitespace().collect();
    (w[1].parse().unwrap(), w[3].parse().unwrap())
}

fn sane_rate(sr: f32) -> bool {
    sr.is_finite() && (100.0..=48000.0).contains(&sr)
}

/// f32 resolution of the filter for inputs bounded by `amp`: DC-gain error of the rounded coefficients
fn rho(amp: f64, alpha_min: f64) -> f64 {
    // relative part (rounding of products and sums of magnitude `amp`) plus the absolute granularity of binary32 near
    // zero: below 2^-126 the spacing is 2^-149 whatever the magnitude, so signals of a few subnormal units cannot be
    // resolved at all (the theorems carry the same floor: `C13.range_tight` needs `M >= 2^-100`)
    amp * ((0.5f64).powi(22) / alpha_min.max(1e-9) + (0.5f64).powi(20)) + (0.5f64).powi(120) / alpha_min.max(1e-9)
}

pub fn c13(t: &Trace, r: &mut Report) {
    let mut start = 0;
    let mut active = false;
    let (mut lo, mut hi, mut amp) = (0.0f64, 0.0f64, 0.0f64);
    let mut alpha_min = 1.0f64;
    let mut alpha_cur = 1.0f64; // coefficient in effect
    // constant-input run bookkeeping
    let mut run_x: Option<f32> = None;
    let mut run_len = 0u64;
    let mut last_y: Option<f64> = None;
    let mut dir = 0i32; // direction of travel inside the run
    let mut sr = 0.0f32;
    let mut retimed = false; // a set_time call since the previous sample
    for i in 0..t.ops.len() {
        let op = &t.ops[i];
        if op.is_empty() {
            continue;
        }
        if op[0] == "glide" {
            start = i;
            sr = fbits(op[2]);
            active = sane_rate(sr) && t.obs[i].first() != Some(&"PANIC");
            lo = 0.0;
            hi = 0.0;
            amp = 0.0;
            alpha_min = parse(&t.obs[i]).map(|g| g.b0 as f64).unwrap_or(1.0);
            alpha_cur = alpha_min;
            run_x = None;
            last_y = Some(0.0);
            continue;
        } else if op.len() >= 2 && op[1] == "new" {
            active = false;
        }
        if !active {
            continue;
        }
        match op[0] {
            "time" => {
                let tt = fbits(op[1]);
                if !(tt >= 0.0 && tt <= 10.0) || tt.is_sign_negative() {
                    active = false; // outside the property's quantifier
                    continue;
                }
                if t.obs[i].first() == Some(&"PANIC") {
                    r.eval();
                    r.fail(i, start, "panic", format!("set_time({}) panicked at sample rate {}", tt, sr));
                    active = false;
                    continue;
                }
                if let Some(g) = parse(&t.obs[i]) {
                    alpha_min = alpha_min.min(g.b0 as f64);
                    alpha_cur = g.b0 as f64;
                }
                retimed = true;
                // no reset here: with the input held, the output must keep moving toward it (never away, never
                // back and forth) whatever the coefficient schedule is
            }
            "proc" => {
                let x = fbits(op[1]);
                if !x.is_finite() || x.abs() > 1e6 {
                    active = false;
                    continue;
                }
                let y = fbits(t.obs[i][0]) as f64;
                lo = lo.min(x as f64);
                hi = hi.max(x as f64);
                amp = amp.max(x.abs() as f64);
                let rh = rho(amp, alpha_min);
                r.eval();
                if !(y >= lo - rh && y <= hi + rh) {
                    r.fail_d(
                        i,
                        start,
                        "overshoot",
                        format!("output {} left the range [{}, {}] of the inputs seen so far (resolution {:.3e})", y, lo, hi, rh),
                        vec![("y".into(), y), ("lo".into(), lo), ("hi".into(), hi)],
                    );
                }
                // constant input: monotone travel, no oscillation
                if run_x.map(|p| p.to_bits()) == Some(x.to_bits()) {
                    run_len += 1;
                    if let Some(py) = last_y {
                        let d = y - py;
                        let s = if d > 0.0 { 1 } else if d < 0.0 { -1 } else { 0 };
                        r.nt(h2((sr as u64) / 100, h2(run_len.min(40), (s + 1) as u64)));
                        // a reversal counts only beyond the f32 resolution of the filter (a coefficient change may move
                        // the fixed point of the rounded recurrence by an ulp)
                        if s != 0 && d.abs() > rh {
                            if dir != 0 && s != dir {
                                r.fail_d(
                                    i,
                                    start,
                                    "ringing",
                                    format!("with the input held at {} the output reversed direction: {} -> {}", x, py, y),
                                    vec![("x".into(), x as f64), ("y".into(), y)],
                                );
                            }
                            dir = s;
                        }
                        // moving toward the target, never away from it
                        if (y - x as f64).abs() > (py - x as f64).abs() + rh {
                            r.fail(i, start, "diverge", format!("with the input held at {} the output moved away: {} -> {}", x, py, y));
                        }
                        // settles on it: a sample that leaves the output where it was, with the same input and the same
                        // coefficients, is a fixed point of the (deterministic, one-pole) recurrence -- the output
                        // stays there for ever.  That is only acceptable within the resolution of the filter.
                        // (the resolution that counts here is that of the coefficients in effect: after a switch to a short
                        // time "while output != input" the output has to go the rest of the way)
                        let rh_cur = rho((x.abs() as f64).max(y.abs()), alpha_cur);
                        if !retimed && run_len >= 2 && y == py && (y - x as f64).abs() > rh_cur {
                            r.fail_d(
                                i,
                                start,
                                "stuck",
                                format!("with the input held at {} the output stopped at {} and can never settle on the input (resolution {:.3e})", x, y, rh_cur),
                                vec![("x".into(), x as f64), ("y".into(), y)],
                            );
                        }
                    }
                } else {
                    run_x = Some(x);
                    run_len = 0;
                    dir = 0;
                }
                if r.samples.len() < 3 && run_len == 3 {
                    r.samples.push(format!("line {}: fs {} input {} output {} range [{}, {}]", i, sr, x, y, lo, hi));
                }
                last_y = Some(y);
                retimed = false;
            }
            _ => {}
        }
    }
}

pub fn c14(t: &Trace, r: &mut Report) {
    let mut start = 0;
    let mut active = false;
    let mut sr = 0.0f32;
    let mut eff: f32 = -1.0; // time in effect (reference reading of "honoured unless within 0.05 s")
    let mut coeffs: (u32, u32) = (0, 0);
    // step-response bookkeeping
    let mut run_x: Option<f32> = None;
    let mut run_from: f64 = 0.0; // settled level before the step
    let mut run_n = 0u64;
    let mut settled = true;
    let mut clean = true; // no set_time during this run
    let mut last_y = 0.0f64;
    // "times shorter than two samples select the fastest response (settled within 8 samples)" from *any* state, also in the
    // middle of a glide (theorem C14.fastest_settles): armed by an honoured fastest set_time, counts samples of a held input
    let mut fast: Option<(Option<u32>, u32, f64)> = None; // (held input bits, samples so far, output when armed)
    for i in 0..t.ops.len() {
        let op = &t.ops[i];
        if op.is_empty() {
            continue;
        }
        if op[0] == "glide" {
            start = i;
            sr = fbits(op[2]);
            active = sane_rate(sr) && t.obs[i].first() != Some(&"PANIC");
            eff = -1.0;
            fast = None;
            if let Some(g) = parse(&t.obs[i]) {
                coeffs = (g.a1.to_bits(), g.b0.to_bits());
            }
            run_x = None;
            settled = true;
            last_y = 0.0;
            continue;
        } else if op.len() >= 2 && op[1] == "new" {
            active = false;
        }
        if !active {
            continue;
        }
        match op[0] {
            "time" => {
                let tt = fbits(op[1]);
                // -0.0 is not treated as the "glide off" setting by the crate (1/-0 = -inf selects the slowest
                // glide); the property's range is read as +0 or positive times, see DESIGN.md §2
                if !(tt >= 0.0) || tt.is_sign_negative() {
                    active = false;
                    continue;
                }
                let g = match parse(&t.obs[i]) {
                    Some(g) => g,
                    None => {
                        if t.obs[i].first() == Some(&"PANIC") {
                            r.eval();
                            r.fail(i, start, "panic", format!("set_time({}) panicked at sample rate {}", tt, sr));
                        }
                        active = false;
                        continue;
                    }
                };
                r.eval();
                let now = (g.a1.to_bits(), g.b0.to_bits());
                let d = (tt as f64 - eff as f64).abs();
                r.nt(h2((tt * 100.0) as u64, h2((sr / 100.0) as u64, (d > 0.05) as u64)));
                if d > 0.05 + 1e-6 {
                    // must be honoured: same coefficients as a fresh processor given this time
                    let mut f = GlideProcessor::new(sr);
                    f.set_time(tt);
                    let want = coeffs_of(&f);
                    if now != want {
                        r.fail(i, start, "not-honoured", format!("set_time({}) while {} s was in effect was not honoured", tt, eff));
                    }
                    // times above 10 s behave like 10 s; times below two samples select the fastest response
                    if tt >= 10.0 {
                        let mut f10 = GlideProcessor::new(sr);
                        f10.set_time(10.0);
                        if now != coeffs_of(&f10) {
                            r.fail(i, start, "above-10", format!("set_time({}) does not behave like 10 s", tt));
                        }
                    }
                    if (tt as f64) * (sr as f64) <= 2.0 * (1.0 - 1e-6) {
                        let mut f0 = GlideProcessor::new(sr);
                        f0.set_time(0.0);
                        if now != coeffs_of(&f0) {
                            r.fail(i, start, "fastest", format!("set_time({}) (under two samples) is not the fastest response", tt));
                        }
                    }
                    eff = tt;
                    fast = if (tt as f64) * (sr as f64) <= 2.0 * (1.0 - 1e-6) { Some((None, 0, last_y)) } else { None };
                } else if d < 0.05 - 1e-6 {
                    if now != coeffs {
                        r.fail(i, start, "dead-band", format!("set_time({}) within 0.05 s of the time in effect ({}) changed the filter", tt, eff));
                    }
                } else {
                    // on the edge of the dead band: either reading is acceptable; follow the implementation
                    if g.cached.to_bits() == tt.to_bits() {
                        eff = tt;
                    }
                    fast = None;
                }
                coeffs = now;
                clean = false;
            }
            "proc" => {
                let x = fbits(op[1]);
                if !x.is_finite() || x.abs() > 1e6 {
                    active = false;
                    continue;
                }
                let y = fbits(t.obs[i][0]) as f64;
                if let Some((hx, k, y0)) = fast {
                    if hx.is_none() || hx == Some(x.to_bits()) {
                        let k = k + 1;
                        fast = Some((Some(x.to_bits()), k, y0));
                        if k == 8 {
                            r.eval();
                            r.nt(h2(sr as u64, 4));
                            let alpha = f32::from_bits(coeffs.1) as f64;
                            let tol = 1e-3 * (y0 - x as f64).abs() + rho((x.abs() as f64).max(y0.abs()), alpha);
                            if !((y - x as f64).abs() <= tol) {
                                r.fail(i, start, "fastest-settle", format!("fastest response, input held at {} for 8 samples from output {}: output is {} (not settled, tolerance {:.3e})", x, y0, y, tol));
                            }
                            fast = None;
                        }
                    } else {
                        fast = None;
                    }
                }
                if run_x.map(|p| p.to_bits()) == Some(x.to_bits()) {
                    run_n += 1;
                } else {
                    // a step: was the previous run settled?
                    let px = run_x.map(|p| p as f64).unwrap_or(0.0);
                    settled = (last_y - px).abs() <= 1e-4 * (x as f64 - px).abs().max(1e-30) && run_x.is_some() || (run_x.is_none() && last_y == 0.0);
                    run_from = if run_x.is_some() { px } else { 0.0 };
                    run_x = Some(x);
                    run_n = 1;
                    clean = true;
                }
                let step = x as f64 - run_from;
                if settled && clean && step.abs() > 1e-5 && eff >= 0.0 {
                    let te = (eff as f64).min(10.0);
                    let n = te * sr as f64;
                    let cov = (y - run_from) / step;
                    let alpha = f32::from_bits(coeffs.1) as f64;
                    let rh = rho(x.abs().max(run_from.abs() as f32) as f64, alpha) / step.abs();
                    // small steps are judged too, as long as the f32 resolution of the filter leaves something to judge
                    if step.abs() <= 1e-3 && rh > 0.3 {
                        last_y = y;
                        continue;
                    }
                    if n >= 100.0 {
                        if run_n == n.ceil() as u64 {
                            r.eval();
                            r.nt(h2((n.log2() * 8.0) as u64, 1));
                            if cov < 0.995 - rh {
                                r.fail_d(i, start, "coverage-t", format!("after t = {} s ({} samples) only {:.4} of the step is covered", te, run_n, cov), vec![("coverage".into(), cov)]);
                            }
                            if r.samples.len() < 3 {
                                r.samples.push(format!("line {}: fs {} t {} step {} -> {}: coverage at t {:.5}", i, sr, te, run_from, x, cov));
                            }
                        }
                        let n10 = n / 10.0;
                        if run_n == n10.round().max(1.0) as u64 {
                            r.eval();
                            r.nt(h2((n.log2() * 8.0) as u64, 2));
                            if cov < 0.40 - rh || cov > 0.55 + rh {
                                r.fail_d(i, start, "coverage-t10", format!("after t/10 ({} samples of t = {} s) {:.4} of the step is covered, expected 0.40 .. 0.55", run_n, te, cov), vec![("coverage".into(), cov)]);
                            }
                        }
                    } else if n <= 2.0 * (1.0 - 1e-6) && run_n == 8 {
                        r.eval();
                        r.nt(h2(sr as u64, 3));
                        if (1.0 - cov).abs() > 1e-3 + rh {
                            r.fail(i, start, "fastest-settle", format!("fastest response covered only {:.6} of the step after 8 samples", cov));
                        }
                    }
                }
                last_y = y;
            }
            _ => {}
        }
    }
}
