//! Oracles for the ADSR properties C01, C02, C03.
//! obs layout: state acc inc value on off a d s r ; states 0 rest 1 attack 2 decay 3 sustain 4 release
use crate::oracle::*;

const P24: f64 = 16777216.0;

fn ca(p: f64) -> f64 {
    (1.0 - (-4.0 * p / 3.0).exp()) / (1.0 - (-4.0f64 / 3.0).exp())
}
fn cd(p: f64) -> f64 {
    ((-4.0 * p).exp() - (-4.0f64).exp()) / (1.0 - (-4.0f64).exp())
}

struct Obs {
    st: u64,
    acc: u64,
    inc: u64,
    value: f32,
    on: f32,
    off: f32,
    a: f32,
    d: f32,
    s: f32,
    r: f32,
}

fn parse(o: &[&str]) -> Option<Obs> {
    if o.len() < 10 {
        return None;
    }
    Some(Obs {
        st: num(o[0]),
        acc: num(o[1]),
        inc: num(o[2]),
        value: fbits(o[3]),
        on: fbits(o[4]),
        off: fbits(o[5]),
        a: fbits(o[6]),
        d: fbits(o[7]),
        s: fbits(o[8]),
        r: fbits(o[9]),
    })
}

pub fn c01(t: &Trace, r: &mut Report) {
    let mut start = 0;
    let mut last_tick: Option<(u64, f32)> = None; // (state after, value)
    let mut prev_state = 0u64;
    // the level each segment started from, taken from the *output* at the gate event (not from the
    // implementation's own bookkeeping): an attack starts from the value being output when the gate-on arrived,
    // a release from the value being output when the gate-off arrived
    let mut on_lvl: Option<f64> = Some(0.0);
    let mut off_lvl: Option<f64> = Some(0.0);
    // the gate as the caller drove it: while it is held the envelope is in attack, decay or sustain, otherwise in
    // release or at rest (the phase the implementation reports is checked against this, not trusted)
    let mut gate_high = false;
    for i in 0..t.ops.len() {
        let op = &t.ops[i];
        if op.is_empty() {
            continue;
        }
        if op[0] == "adsr" {
            start = i;
            last_tick = None;
            on_lvl = Some(0.0);
            off_lvl = Some(0.0);
            prev_state = 0;
            gate_high = false;
        }
        if op[0] != "adsr" && !matches!(op[0], "tick" | "gate_on" | "gate_off" | "set" | "setacc") {
            continue;
        }
        let o = match parse(&t.obs[i]) {
            Some(o) => o,
            None => {
                last_tick = None;
                continue;
            }
        };
        r.eval();
        if !(o.value >= 0.0 && o.value <= 1.0) {
            r.fail(i, start, "range", format!("envelope value {} outside [0,1]", o.value));
        }
        match op[0] {
            "gate_on" => gate_high = true,
            "gate_off" => gate_high = false,
            _ => {}
        }
        if gate_high != matches!(o.st, 1 | 2 | 3) {
            r.fail(
                i,
                start,
                "phase",
                format!(
                    "gate {} but the envelope is in phase {} (value {}, sustain level {})",
                    if gate_high { "held" } else { "released" },
                    o.st,
                    o.value,
                    o.s
                ),
            );
        }
        match op[0] {
            "gate_on" => {
                last_tick = None;
                if prev_state != 1 {
                    on_lvl = Some(o.value as f64);
                }
            }
            "gate_off" => {
                last_tick = None;
                if matches!(prev_state, 1 | 2 | 3) {
                    off_lvl = Some(o.value as f64);
                }
            }
            "setacc" => last_tick = None,
            "set" if op.get(1) == Some(&"s") => last_tick = None,
            "tick" => {
                r.nt(h2(o.st, h2(o.acc >> 14, (o.value * 64.0) as u64)));
                if r.samples.len() < 3 && o.st != 0 {
                    r.samples.push(format!("line {}: tick -> state {} acc {} value {}", i, o.st, o.acc, o.value));
                }
                if let Some((ps, pv)) = last_tick {
                    if ps == o.st {
                        match o.st {
                            1 if o.value < pv => r.fail(i, start, "monotone", format!("attack decreased {} -> {}", pv, o.value)),
                            2 | 4 if o.value > pv => {
                                r.fail(i, start, "monotone", format!("decay/release increased {} -> {}", pv, o.value))
                            }
                            _ => {}
                        }
                    }
                }
                match o.st {
                    3 => {
                        if o.value != o.s {
                            r.fail(i, start, "sustain", format!("sustaining at {} but sustain level is {}", o.value, o.s));
                        }
                    }
                    0 => {
                        if o.value != 0.0 {
                            r.fail(i, start, "rest", format!("at rest but value {}", o.value));
                        }
                    }
                    2 => {
                        if prev_state == 1 && o.value != 1.0 {
                            r.fail(i, start, "peak", format!("attack ended at {} instead of exactly 1.0", o.value));
                        }
                        if o.value < o.s {
                            r.fail(i, start, "decay-floor", format!("decay value {} below sustain {}", o.value, o.s));
                        }
                    }
                    _ => {}
                }
                // curve fidelity in timed phases
                let p = o.acc as f64 / P24;
                let reference = match o.st {
                    1 => on_lvl.map(|l| l + (1.0 - l) * ca(p)),
                    2 => Some(o.s as f64 + (1.0 - o.s as f64) * cd(p)),
                    4 => off_lvl.map(|l| l * cd(p)),
                    _ => None,
                };
                if let Some(x) = reference {
                    if (o.value as f64 - x).abs() > 0.005 {
                        r.fail(i, start, "fidelity", format!("state {} phase {:.6}: value {} vs RC curve {:.6}", o.st, p, o.value, x));
                    }
                }
                last_tick = Some((o.st, o.value));
            }
            _ => {}
        }
        prev_state = o.st;
    }
}

pub fn c02(t: &Trace, r: &mut Report) {
    let mut start = 0;
    let mut sr = 1000.0f64;
    let mut prev: Option<Obs> = None;
    // duration bookkeeping of the current timed phase
    let mut ticks = 0u64;
    let mut sum = 0.0f64; // Σ 1/N_j over the ticks spent in the phase
    let mut valid = false;
    for i in 0..t.ops.len() {
        let op = &t.ops[i];
        if op.is_empty() {
            continue;
        }
        if op[0] == "adsr" {
            start = i;
            sr = fbits(op[2]) as f64;
            prev = parse(&t.obs[i]);
            valid = false;
            continue;
        }
        if !matches!(op[0], "tick" | "ticks" | "gate_on" | "gate_off" | "set" | "setacc") {
            continue;
        }
        let o = match parse(&t.obs[i]) {
            Some(o) => o,
            None => {
                prev = None;
                continue;
            }
        };
        let p = match &prev {
            Some(p) => p,
            None => {
                prev = Some(o);
                continue;
            }
        };
        r.eval();
        match op[0] {
            "gate_on" => {
                let want = 1;
                if o.st != want {
                    r.fail(i, start, "transition", format!("gate_on from state {} gave state {}", p.st, o.st));
                }
                if p.st != 1 {
                    if o.acc != 0 {
                        r.fail(i, start, "transition", "gate_on did not restart the phase".to_string());
                    }
                    ticks = 0;
                    sum = 0.0;
                    valid = true;
                } else if o.acc != p.acc {
                    r.fail(i, start, "transition", "gate_on during attack was not ignored".to_string());
                }
            }
            "gate_off" => {
                if matches!(p.st, 1 | 2 | 3) {
                    if o.st != 4 || o.acc != 0 {
                        r.fail(i, start, "transition", format!("gate_off from state {} gave state {} acc {}", p.st, o.st, o.acc));
                    }
                    ticks = 0;
                    sum = 0.0;
                    valid = true;
                } else if o.st != p.st || o.acc != p.acc {
                    r.fail(i, start, "transition", format!("gate_off in state {} was not ignored", p.st));
                }
            }
            "set" => {
                if o.st != p.st || o.acc != p.acc {
                    r.fail(i, start, "transition", "set_input changed the phase".to_string());
                }
                // the time now in effect is the one just written (clamped to [1 ms, 20 s]); the duration rule below is
                // applied with the times the envelope reports, so a write that is dropped or altered shows here
                if op.len() >= 3 && matches!(op[1], "a" | "d" | "r") {
                    let x = fbits(op[2]);
                    if x.is_finite() {
                        let want = x.max(0.001).min(20.0);
                        let got = match op[1] {
                            "a" => o.a,
                            "d" => o.d,
                            _ => o.r,
                        };
                        r.eval();
                        if got.to_bits() != want.to_bits() {
                            r.fail(i, start, "time-not-set", format!("set {} {} left the time at {} instead of {}", op[1], x, got, want));
                        }
                    }
                }
            }
            "setacc" => valid = false,
            "ticks" => {
                // a run of k ticks without any other call in between, ending with the tick on which the phase changed
                // (or after the requested number): the same duration rule, applied to the whole run at once
                let k = t.obs[i].last().map(|x| num(x)).unwrap_or(0);
                r.eval();
                let ok = match p.st {
                    1 => matches!(o.st, 1 | 2),
                    2 => matches!(o.st, 2 | 3),
                    3 => o.st == 3,
                    4 => matches!(o.st, 4 | 0),
                    _ => o.st == 0,
                };
                if !ok {
                    r.fail(i, start, "transition", format!("ticks moved state {} -> {}", p.st, o.st));
                }
                if matches!(p.st, 1 | 2 | 4) && k > 0 {
                    let tsec = match p.st {
                        1 => o.a,
                        2 => o.d,
                        _ => o.r,
                    } as f64;
                    let n = (tsec * sr).max(1e-9);
                    ticks += k;
                    sum += k as f64 / n;
                    r.nt(h2(p.st, h2((n.log2() * 4.0) as u64, 65)));
                    if valid {
                        let late_limit = (1.0 + (ticks - 1) as f64 / P24) * (1.0 + 1e-6) + 1e-9;
                        if o.st != p.st {
                            if r.samples.len() < 3 {
                                r.samples.push(format!("line {}: phase {} of {:.3} ticks ended after {} ticks", i, p.st, n, ticks));
                            }
                            if sum < 1.0 - 1e-6 {
                                r.fail_d(
                                    i,
                                    start,
                                    "early",
                                    format!("phase {} ended after {} ticks, only {:.6} of its duration", p.st, ticks, sum),
                                    vec![("ticks".into(), ticks as f64), ("covered".into(), sum)],
                                );
                            }
                            if sum - 1.0 / n > late_limit {
                                r.fail(i, start, "late", format!("phase {} ended after {} ticks, {:.6} of its duration", p.st, ticks, sum - 1.0 / n));
                            }
                        } else if sum > late_limit + 2.0 / n.max(1.0) {
                            r.fail_d(
                                i,
                                start,
                                "overdue",
                                format!("phase {} still running after {} ticks = {:.6} of its duration", p.st, ticks, sum),
                                vec![("ticks".into(), ticks as f64), ("covered".into(), sum)],
                            );
                            valid = false;
                        }
                    }
                    if o.st != p.st {
                        ticks = 0;
                        sum = 0.0;
                        valid = true;
                    }
                }
            }
            "tick" => {
                let ok = match p.st {
                    1 => matches!(o.st, 1 | 2),
                    2 => matches!(o.st, 2 | 3),
                    3 => o.st == 3,
                    4 => matches!(o.st, 4 | 0),
                    _ => o.st == 0,
                };
                if !ok {
                    r.fail(i, start, "transition", format!("tick moved state {} -> {}", p.st, o.st));
                }
                if matches!(p.st, 1 | 2 | 4) {
                    let tsec = match p.st {
                        1 => o.a,
                        2 => o.d,
                        _ => o.r,
                    } as f64;
                    let n = (tsec * sr).max(1e-9);
                    // the counter advance this tick used: floor(2^24/N) up to the binary32 roundings of the
                    // increment (theorem C02.inc_window): anything else makes the phase end early or late
                    if (100.0..=192000.0).contains(&sr) && (0.000999..=20.0001).contains(&tsec) {
                        let ideal = P24 / n;
                        let inc = o.inc as f64;
                        if inc > ideal * (1.0 + 1e-6) + 1e-9 || inc < ideal * (1.0 - 1e-6) - 1.0 - 1e-9 {
                            r.fail_d(
                                i,
                                start,
                                "increment",
                                format!("phase {} of {:.3} ticks advances {} counts per tick instead of about {:.3}: it cannot last the configured time", p.st, n, o.inc, ideal),
                                vec![("inc".into(), inc), ("ideal".into(), ideal)],
                            );
                        }
                    }
                    ticks += 1;
                    let before = sum;
                    sum += 1.0 / n;
                    r.nt(h2(p.st, h2((n.log2() * 4.0) as u64, ticks.min(64))));
                    if valid {
                        let late_limit = (1.0 + (ticks - 1) as f64 / P24) * (1.0 + 1e-6) + 1e-9;
                        if o.st != p.st {
                            // the phase ended on this tick
                            if r.samples.len() < 3 {
                                r.samples.push(format!("line {}: phase {} of {:.3} ticks ended after {} ticks", i, p.st, n, ticks));
                            }
                            if sum < 1.0 - 1e-6 {
                                r.fail_d(
                                    i,
                                    start,
                                    "early",
                                    format!("phase {} ended after {} ticks, only {:.6} of its duration", p.st, ticks, sum),
                                    vec![("ticks".into(), ticks as f64), ("covered".into(), sum)],
                                );
                            }
                            if before > late_limit {
                                r.fail(i, start, "late", format!("phase {} ended after {} ticks, {:.6} of its duration", p.st, ticks, before));
                            }
                        } else if sum > late_limit + 2.0 / n.max(1.0) {
                            // not ended although overdue by more than two ticks: report once
                            r.fail_d(
                                i,
                                start,
                                "overdue",
                                format!("phase {} still running after {} ticks = {:.6} of its duration", p.st, ticks, sum),
                                vec![("ticks".into(), ticks as f64), ("covered".into(), sum)],
                            );
                            valid = false;
                        }
                    }
                    if o.st != p.st {
                        ticks = 0;
                        sum = 0.0;
                        valid = true;
                        if o.acc != 0 {
                            r.fail(i, start, "transition", format!("phase {} did not start from position 0 (acc {})", o.st, o.acc));
                        }
                    }
                } else if o.acc != p.acc {
                    r.fail(i, start, "transition", "phase counter moved in a non-timed state".to_string());
                }
            }
            _ => {}
        }
        prev = Some(o);
    }
}

pub fn c03(t: &Trace, r: &mut Report) {
    let mut start = 0;
    let mut last: Option<(f32, f32)> = None; // (value, sustain) at the previous tick
    let mut state_before = 0u64;
    let u4 = 4.0 * (0.5f64).powi(24);
    for i in 0..t.ops.len() {
        let op = &t.ops[i];
        if op.is_empty() {
            continue;
        }
        if op[0] == "adsr" {
            start = i;
            last = parse(&t.obs[i]).map(|o| (o.value, o.s));
            state_before = 0;
            continue;
        }
        if !matches!(op[0], "tick" | "gate_on" | "gate_off" | "set" | "setacc") {
            continue;
        }
        let o = match parse(&t.obs[i]) {
            Some(o) => o,
            None => {
                last = None;
                continue;
            }
        };
        match op[0] {
            "setacc" => last = None,
            "tick" => {
                if !o.value.is_finite() {
                    r.eval();
                    r.fail(i, start, "not-a-number", format!("tick produced the output {} (no bound on the step can hold)", o.value));
                }
                if let Some((pv, ps)) = last {
                    r.eval();
                    let slope = match state_before {
                        1 => 1.8125,
                        2 | 4 => 4.0752,
                        _ => 0.0,
                    };
                    let frac = (o.inc as f64 / P24).min(1.0);
                    let bound = slope * frac + (o.s as f64 - ps as f64).abs() + u4;
                    let step = (o.value as f64 - pv as f64).abs();
                    r.nt(h2(state_before, h2(o.acc >> 14, (o.inc as f64).log2() as u64)));
                    if r.samples.len() < 3 && slope > 0.0 {
                        r.samples.push(format!("line {}: step {:.3e} bound {:.3e} (state {} inc {})", i, step, bound, state_before, o.inc));
                    }
                    if step > bound {
                        r.fail_d(
                            i,
                            start,
                            "step",
                            format!("tick changed the output by {:.6e}, more than the bound {:.6e} (state {}, inc {})", step, bound, state_before, o.inc),
                            vec![("step".into(), step), ("bound".into(), bound)],
                        );
                    }
                }
                last = Some((o.value, o.s));
            }
            _ => {}
        }
        state_before = o.st;
    }
}
