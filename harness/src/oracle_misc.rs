//! Oracles for C17 (no panic / no hang, over in-range streams) and C20 (parameter clamps).
use crate::oracle::*;

/// C17: every line of an in-range stream must produce observables, never `PANIC`.
/// (Whether a stream is in range is the generator's contract: the `*_inrange` streams.)
pub fn c17(t: &Trace, r: &mut Report) {
    let mut start = 0;
    for i in 0..t.ops.len() {
        let op = &t.ops[i];
        if op.is_empty() {
            continue;
        }
        if op.len() >= 2 && op[1] == "new" {
            start = i;
        }
        r.eval();
        r.nt(h2(op[0].len() as u64 * 131 + op[0].bytes().map(|b| b as u64).sum::<u64>(), (i % 997) as u64));
        if t.obs[i].first() == Some(&"PANIC") {
            r.fail(i, start, "panic", format!("'{}' panicked", op.join(" ")));
        }
        if r.samples.len() < 3 && i % 1000 == 500 {
            r.samples.push(format!("line {}: {} -> {}", i, op.join(" "), t.obs[i].join(" ")));
        }
    }
}

pub fn c20(t: &Trace, r: &mut Report) {
    for i in 0..t.ops.len() {
        let op = &t.ops[i];
        if op.is_empty() {
            continue;
        }
        match op[0] {
            "tp" | "sl" => {
                let x = fbits(op[1]);
                let got = fbits(t.obs[i][0]);
                let (lo, hi) = if op[0] == "tp" { (0.001f32, 20.0f32) } else { (0.0f32, 1.0f32) };
                r.eval();
                r.nt(h2(x.to_bits() as u64, (op[0] == "tp") as u64));
                let what = if op[0] == "tp" { "time" } else { "sustain level" };
                if !(got >= lo && got <= hi) {
                    r.fail(i, i, "range", format!("{} {} converted to {} outside [{}, {}]", what, x, got, lo, hi));
                } else if x.is_nan() {
                    if got != lo && got != hi {
                        r.fail(i, i, "nan", format!("NaN {} converted to {} which is not a bound", what, got));
                    }
                } else if x < lo {
                    if got != lo {
                        r.fail(i, i, "low", format!("{} {} converted to {} instead of {}", what, x, got, lo));
                    }
                } else if x > hi {
                    if got != hi {
                        r.fail(i, i, "high", format!("{} {} converted to {} instead of {}", what, x, got, hi));
                    }
                } else if got != x {
                    r.fail(i, i, "inside", format!("in-range {} {} changed to {}", what, x, got));
                }
                if r.samples.len() < 3 {
                    r.samples.push(format!("{} {} -> {}", what, x, got));
                }
            }
            "notenew" => {
                r.eval();
                let n = num(op[1]);
                r.nt(h2(n, 5));
                if num(t.obs[i][0]) != n.min(11) {
                    r.fail(i, i, "note", format!("scale note number {} acts as {}", n, t.obs[i][0]));
                }
            }
            "midi" => {
                r.eval();
                let c = num(op[2]);
                r.nt(h2(c, 6));
                if num(t.obs[i][0]) != c.min(15) {
                    r.fail(i, i, "channel", format!("MIDI channel {} acts as {}", c, t.obs[i][0]));
                }
            }
            // a scale edit with a note number above 11 behaves as 11
            "allow" | "forbid" => {}
            _ => {}
        }
    }
}
