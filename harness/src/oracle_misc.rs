//! Oracles for C17 (no panic / no hang, over in-range streams) and C20 (parameter clamps).
use crate::oracle::*;

/// C17: every line of an in-range stream must produce observables, never `PANIC`.
/// (Whether a stream is in range is the generator's contract: the `*_inrange` streams.)
pub fn c17(t: &Trace, r: &mut Report) {
    let mut start = 0;
    for i in 0..t.ops.len() {
        let op = &t.ops[i];
        if op.is_empty() {
            continue;
        }
        if op.len() >= 2 && op[1] == "new" {
            start = i;
        }
        r.eval();
        r.nt(h2(op[0].len() as u64 * 131 + op[0].bytes().map(|b| b as u64).sum::<u64>(), (i % 997) as u64));
        if t.obs[i].first() == Some(&"PANIC") {
            r.fail(i, start, "panic", format!("'{}' panicked", op.join(" ")));
        }
        if r.samples.len() < 3 && i % 1000 == 500 {
            r.samples.push(format!("line {}: {} -> {}", i, op.join(" "), t.obs[i].join(" ")));
        }
    }
}

pub fn c20(t: &Trace, r: &mut Report) {
    // "an envelope configured with an out-of-range value behaves identically to one configured with the
    // corresponding bound": a twin envelope (the real implementation) receives, instead of each raw parameter, the
    // converted value the first one reports for it, and must then produce the same state and output for ever.
    let mut twin: Option<(synth_utils::adsr::Adsr, usize)> = None;
    for i in 0..t.ops.len() {
        let op = &t.ops[i];
        if op.is_empty() {
            continue;
        }
        if op[0] == "adsr" && op.len() == 3 {
            twin = Some((synth_utils::adsr::Adsr::new(fbits(op[2])), i));
            continue;
        } else if op.len() >= 2 && op[1] == "new" {
            twin = None;
        }
        if let Some((tw, start)) = twin.as_mut() {
            let obs = &t.obs[i];
            let known = matches!(op[0], "tick" | "gate_on" | "gate_off" | "set" | "setacc");
            if known && obs.len() >= 10 && obs[0] != "PANIC" {
                use synth_utils::adsr::Input;
                let res = std::panic::catch_unwind(std::panic::AssertUnwindSafe(|| {
                    match op[0] {
                        "tick" => tw.tick(),
                        "gate_on" => tw.gate_on(),
                        "gate_off" => tw.gate_off(),
                        "setacc" => tw.verif_set_accumulator(num(op[1]) as u32),
                        _ => {
                            // the converted value the envelope under test reports for this parameter
                            let (col, mk): (usize, fn(f32) -> Input) = match op[1] {
                                "a" => (6, |v| Input::Attack(v.into())),
                                "d" => (7, |v| Input::Decay(v.into())),
                                "s" => (8, |v| Input::Sustain(v.into())),
                                _ => (9, |v| Input::Release(v.into())),
                            };
                            tw.set_input(mk(fbits(obs[col])));
                        }
                    }
                    crate::exec::adsr_obs(tw)
                }));
                match res {
                    Ok(s) => {
                        let w: Vec<&str> = s.split_whitespace().collect();
                        r.eval();
                        if op[0] == "set" {
                            r.nt(h2(num(op[2]), 9));
                        }
                        if w[0] != obs[0] || w[3] != obs[3] || w[1] != obs[1] {
                            let st = *start;
                            r.fail(
                                i,
                                st,
                                "twin",
                                format!(
                                    "after '{}' the envelope configured with raw parameters is in state {} at {} with value {}, the one configured with the converted values in state {} at {} with value {}",
                                    op.join(" "), obs[0], obs[1], fbits(obs[3]), w[0], w[1], fbits(w[3])
                                ),
                            );
                            twin = None;
                        }
                    }
                    Err(_) => twin = None,
                }
            } else if known {
                twin = None;
            }
            continue;
        }
        match op[0] {
            "tp" | "sl" => {
                let x = fbits(op[1]);
                let got = fbits(t.obs[i][0]);
                let (lo, hi) = if op[0] == "tp" { (0.001f32, 20.0f32) } else { (0.0f32, 1.0f32) };
                r.eval();
                r.nt(h2(x.to_bits() as u64, (op[0] == "tp") as u64));
                let what = if op[0] == "tp" { "time" } else { "sustain level" };
                if !(got >= lo && got <= hi) {
                    r.fail(i, i, "range", format!("{} {} converted to {} outside [{}, {}]", what, x, got, lo, hi));
                } else if x.is_nan() {
                    if got != lo && got != hi {
                        r.fail(i, i, "nan", format!("NaN {} converted to {} which is not a bound", what, got));
                    }
                } else if x < lo {
                    if got != lo {
                        r.fail(i, i, "low", format!("{} {} converted to {} instead of {}", what, x, got, lo));
                    }
                } else if x > hi {
                    if got != hi {
                        r.fail(i, i, "high", format!("{} {} converted to {} instead of {}", what, x, got, hi));
                    }
                } else if got != x {
                    r.fail(i, i, "inside", format!("in-range {} {} changed to {}", what, x, got));
                }
                if r.samples.len() < 3 {
                    r.samples.push(format!("{} {} -> {}", what, x, got));
                }
            }
            "notenew" | "notefrom" => {
                r.eval();
                let n = num(op[1]);
                r.nt(h2(n, 5));
                if num(t.obs[i][0]) != n.min(11) {
                    r.fail(i, i, "note", format!("scale note number {} acts as {}", n, t.obs[i][0]));
                }
            }
            "midi" => {
                r.eval();
                let c = num(op[2]);
                r.nt(h2(c, 6));
                if num(t.obs[i][0]) != c.min(15) {
                    r.fail(i, i, "channel", format!("MIDI channel {} acts as {}", c, t.obs[i][0]));
                }
            }
            // a scale edit with a note number above 11 behaves as 11
            "allow" | "forbid" => {}
            _ => {}
        }
    }
}
