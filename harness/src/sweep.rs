//! Exhaustive sweeps of finite domains on the implementation (thorough tier): every f32 bit pattern through the two
//! parameter conversions, every phase-counter value of the LFO and of each ADSR phase, every f32 in [0, 10] V through a
//! fresh quantizer.  The sweeps *find candidates*; the judge is the ordinary property oracle, run on a small protocol
//! trace that the sweep writes out for each hit (so a hit is confirmed, minimised and replayed like any other).
use crate::exec;
use crate::oracle;
use std::io::Write;

fn run_trace(prop: &str, ops: &[String]) -> oracle::Report {
    let mut o = exec::Obj::None;
    let obs: Vec<String> = ops
        .iter()
        .map(|l| {
            let ws: Vec<&str> = l.split_whitespace().collect();
            exec::step(&mut o, &ws)
        })
        .collect();
    oracle::run(prop, ops, &obs)
}

struct Out {
    evaluations: u64,
    hits: Vec<String>, // paths of trace files that the oracle should look at
    dir: String,
    tag: String,
}

impl Out {
    fn hit(&mut self, ops: &[String]) {
        if self.hits.len() >= 5 {
            return;
        }
        let p = format!("{}/sweep_{}_{}.ops", self.dir, self.tag, self.hits.len());
        let mut f = std::fs::File::create(&p).unwrap();
        for l in ops {
            writeln!(f, "{}", l).unwrap();
        }
        self.hits.push(p);
    }
    fn print(&self, what: &str) {
        let h: Vec<String> = self.hits.iter().map(|p| format!("\"{}\"", p)).collect();
        println!("{{\"sweep\": \"{}\", \"evaluations\": {}, \"hits\": [{}]}}", what, self.evaluations, h.join(", "))
    }
}

fn b(x: f32) -> u32 {
    x.to_bits()
}

/// all 2^32 bit patterns through TimePeriod / SustainLevel, against the clamp written out from the property text
fn conv(part: u64, parts: u64, out: &mut Out) {
    use synth_utils::adsr::{SustainLevel, TimePeriod};
    let lo = (1u64 << 32) * part / parts;
    let hi = (1u64 << 32) * (part + 1) / parts;
    let clamp = |x: f32, a: f32, z: f32| -> Option<f32> {
        if x.is_nan() {
            None // either bound is acceptable
        } else if x < a {
            Some(a)
        } else if x > z {
            Some(z)
        } else {
            Some(x)
        }
    };
    for bits in lo..hi {
        let x = f32::from_bits(bits as u32);
        let t = f32::from(TimePeriod::from(x));
        let s = f32::from(SustainLevel::from(x));
        out.evaluations += 2;
        let tok = match clamp(x, 0.001, 20.0) {
            Some(w) => t == w,
            None => t == 0.001 || t == 20.0,
        };
        let sok = match clamp(x, 0.0, 1.0) {
            Some(w) => s == w,
            None => s == 0.0 || s == 1.0,
        };
        if !tok {
            out.hit(&[format!("tp {}", bits)]);
        }
        if !sok {
            out.hit(&[format!("sl {}", bits)]);
        }
    }
}

/// every phase-counter value of the LFO: all shapes at the position, and the step to the next position (increment 1)
fn lfo(props: &[&str], part: u64, parts: u64, out: &mut Out) {
    let total = 1u64 << 24;
    let lo = total * part / parts;
    let hi = total * (part + 1) / parts;
    let sr = 1000.0f32;
    let f = sr / 16777216.0; // one count per tick
    let chunk = 8192u64;
    let mut a = lo;
    while a < hi {
        let end = (a + chunk).min(hi);
        let mut ops = vec![format!("lfo new {}", b(sr)), format!("freq {}", b(f))];
        for x in a..end {
            ops.push(format!("setacc {}", x));
            ops.push("tick".to_string());
        }
        for p in props {
            let r = run_trace(p, &ops);
            out.evaluations += r.evaluations;
            if !r.violations.is_empty() {
                let v = &r.violations[0];
                let mut t = vec![ops[0].clone(), ops[1].clone()];
                let l = v.line.max(3);
                t.extend(ops[l - 1..=l.min(ops.len() - 1)].iter().cloned());
                out.hit(&t);
            }
        }
        a = end;
    }
}

/// every position of the attack, decay and release phases with the slowest increment; two ticks from each position
fn adsr(props: &[&str], part: u64, parts: u64, out: &mut Out) {
    let total = 1u64 << 24;
    let lo = total * part / parts;
    let hi = total * (part + 1) / parts;
    let sr = 192000.0f32;
    let chunk = 4096u64;
    for phase in 0..3 {
        let mut a = lo;
        while a < hi {
            let end = (a + chunk).min(hi);
            let mut ops = vec![
                format!("adsr new {}", b(sr)),
                format!("set a {}", b(20.0)),
                format!("set d {}", b(20.0)),
                format!("set r {}", b(20.0)),
                format!("set s {}", b(0.3)),
            ];
            match phase {
                0 => ops.push("gate_on".into()),
                1 => {
                    ops.push("gate_on".into());
                    ops.push(format!("setacc {}", total - 1));
                    ops.push("tick".into()); // now in decay at position 0
                }
                _ => {
                    ops.push("gate_on".into());
                    ops.push(format!("setacc {}", total / 3));
                    ops.push("tick".into());
                    ops.push("gate_off".into());
                }
            }
            let head = ops.len();
            for x in a..end {
                if x + 8 >= total {
                    continue; // the roll-over changes the phase; phase boundaries are covered by the random streams
                }
                ops.push(format!("setacc {}", x));
                ops.push("tick".to_string());
                ops.push("tick".to_string());
            }
            for p in props {
                let r = run_trace(p, &ops);
                out.evaluations += r.evaluations;
                if !r.violations.is_empty() {
                    let v = &r.violations[0];
                    let mut t: Vec<String> = ops[..head].to_vec();
                    let l = v.line.max(head + 2).min(ops.len() - 1);
                    t.extend(ops[l - 2..=l].iter().cloned());
                    out.hit(&t);
                }
            }
            a = end;
        }
    }
}

/// whole timed phases at the slow end of the range, tick by tick on the implementation (millions of ticks per phase, no
/// counter shortcut): each must end, neither early nor late, and no call may panic on the way.  The configurations of
/// part k are drawn from a generator seeded with k, plus the common audio rates in part 0.
fn adsrlong(props: &[&str], part: u64, _parts: u64, out: &mut Out) {
    let mut rng = crate::rng::Rng::new(0xAD5A_0000 + part);
    let mut cfgs: Vec<(f32, f32)> = vec![];
    let audio = [44100.0f32, 48000.0, 88200.0, 96000.0, 144000.0, 176400.0, 180000.0, 192000.0, 100.0, 32000.0];
    cfgs.push((audio[(part % audio.len() as u64) as usize], [20.0f32, 30.0, 19.9][(part / 10 % 3) as usize]));
    for _ in 0..8 {
        let sr = match rng.below(3) {
            0 => (rng.range(8, 384) * 500) as f32,
            1 => rng.range(8000, 192000) as f32,
            _ => 192000.0 - (rng.below(30000) as f32) * 0.37,
        };
        let t = match rng.below(4) {
            0 => 20.0,
            1 => 19.0 + rng.below(1000) as f32 / 1000.0,
            2 => 5.0 + rng.below(15000) as f32 / 1000.0,
            _ => 25.0,
        };
        cfgs.push((sr, t));
    }
    for (sr, tm) in cfgs {
        for phase in 0..3 {
            let mut ops = vec![
                format!("adsr new {}", b(sr)),
                format!("set a {}", b(if phase == 0 { tm } else { 0.001 })),
                format!("set d {}", b(if phase == 1 { tm } else { 0.001 })),
                format!("set r {}", b(if phase == 2 { tm } else { 0.001 })),
                format!("set s {}", b(0.5)),
                "gate_on".to_string(),
            ];
            let budget = 2 * (tm.min(20.0) as f64 * sr as f64) as u64 + 1000;
            match phase {
                0 => {}
                1 => ops.push(format!("ticks {}", budget)), // the 1 ms attack
                _ => {
                    ops.push(format!("ticks {}", budget));
                    ops.push(format!("ticks {}", budget));
                    ops.push("gate_off".to_string());
                }
            }
            ops.push(format!("ticks {}", budget));
            ops.push("tick".to_string());
            for p in props {
                let r = run_trace(p, &ops);
                out.evaluations += r.evaluations;
                if !r.violations.is_empty() {
                    out.hit(&ops);
                }
            }
        }
    }
}

/// every f32 in [0, 10] V through a quantizer without history, for the chromatic scale and a few sparse ones:
/// stairstep = note/12, reconstruction, allowed pitch class, notes non-decreasing along the sweep
fn quant(part: u64, parts: u64, out: &mut Out) {
    use synth_utils::quantizer::{Note, Quantizer};
    let top = b(10.0f32) as u64 + 1;
    let lo = top * part / parts;
    let hi = top * (part + 1) / parts;
    for mask in [0xfffu16, 0b1, 0b1000_0000_0001, 0b0101_0110_1011] {
        let forb: Vec<u8> = (0..12u8).filter(|n| mask >> n & 1 == 0).collect();
        let mut last_note = 0u8;
        let mut hits_here = 0;
        for bits in lo..hi {
            let v = f32::from_bits(bits as u32);
            let mut q = Quantizer::new();
            if !forb.is_empty() {
                let ns: Vec<Note> = forb.iter().map(|n| Note::new(*n)).collect();
                q.forbid(&ns);
            }
            let c = q.convert(v);
            out.evaluations += 1;
            let ss_ok = c.stairstep.to_bits() == (c.note_num as f32 / 12.0).to_bits();
            let allowed = mask >> (c.note_num % 12) & 1 == 1;
            let sum = c.stairstep + c.fraction;
            let ulp = |x: f32| -> f64 {
                let a = x.abs();
                if a == 0.0 {
                    return f32::from_bits(1) as f64;
                }
                (f32::from_bits(a.to_bits() + 1) - a) as f64
            };
            let rec_ok = ((sum as f64) - (v as f64)).abs() <= 2.0 * ulp(v.max(c.stairstep));
            let mono_ok = c.note_num >= last_note;
            last_note = c.note_num;
            // chromatic fraction: below zero only inside the known 4.1 uV seams (the judge applies the known-findings file)
            let frac_bad = mask == 0xfff && (c.fraction < 0.0 || (c.fraction as f64 >= 1.0 / 12.0 && c.note_num < 120));
            if (!ss_ok || !allowed || !rec_ok || !mono_ok || (frac_bad && c.fraction < -4.1e-6)) && hits_here < 2 {
                hits_here += 1;
                let mut t = vec!["quant new".to_string()];
                if !forb.is_empty() {
                    t.push(format!("forbid {}", forb.iter().map(|x| x.to_string()).collect::<Vec<_>>().join(" ")));
                }
                if !mono_ok && bits > 0 {
                    t.push(format!("convert {}", bits - 1));
                    t.push("quant new".to_string());
                    if !forb.is_empty() {
                        t.push(format!("forbid {}", forb.iter().map(|x| x.to_string()).collect::<Vec<_>>().join(" ")));
                    }
                }
                t.push(format!("convert {}", bits));
                out.hit(&t);
            }
        }
    }
}

pub fn main(args: &[String]) {
    let what = args[2].as_str();
    let part: u64 = args[3].parse().unwrap();
    let parts: u64 = args[4].parse().unwrap();
    let dir = args[5].clone();
    let mut out = Out { evaluations: 0, hits: vec![], dir, tag: format!("{}_{}", what, part) };
    std::panic::set_hook(Box::new(|_| {}));
    match what {
        "conv" => conv(part, parts, &mut out),
        "lfo" => lfo(&["C10", "C11", "C12"], part, parts, &mut out),
        "adsr" => adsr(&["C01", "C03"], part, parts, &mut out),
        "adsrlong" => adsrlong(&["C02", "C17"], part, parts, &mut out),
        "quant" => quant(part, parts, &mut out),
        _ => {
            eprintln!("unknown sweep");
            std::process::exit(2);
        }
    }
    out.print(what);
}
