//! `dump-consts`: print what rustc made of the crate's private tables and constants (JSON).
use std::hint::black_box;
use synth_utils::verif_hooks as vh;
use synth_utils::{adsr, lfo, mono_midi_receiver as midi, quantizer, ribbon_controller as ribbon};

fn bits(v: &[f32]) -> String {
    let s: Vec<String> = v.iter().map(|x| x.to_bits().to_string()).collect();
    format!("[{}]", s.join(","))
}

pub const RIBBON_RATES: [u32; 8] = [100, 1000, 4000, 10000, 22050, 44100, 48000, 192000];

pub fn dump() {
    println!("{{");
    println!("\"sine_table\": {},", bits(&vh::SINE_TABLE));
    println!("\"attack_table\": {},", bits(&vh::ADSR_ATTACK_TABLE));
    println!("\"decay_table\": {},", bits(&vh::ADSR_DECAY_TABLE));
    println!("\"sine_lut_size\": {},", vh::SINE_LUT_SIZE);
    println!("\"adsr_lut_size\": {},", vh::ADSR_CURVE_LUT_SIZE);
    println!("\"adsr_total_bits\": {},", adsr::Adsr::VERIF_TOT_NUM_ACCUM_BITS);
    println!("\"adsr_index_bits\": {},", adsr::Adsr::VERIF_NUM_LUT_INDEX_BITS);
    println!("\"lfo_total_bits\": {},", lfo::Lfo::VERIF_TOT_NUM_ACCUM_BITS);
    println!("\"lfo_index_bits\": {},", lfo::Lfo::VERIF_NUM_LUT_INDEX_BITS);
    println!("\"min_time\": {},", adsr::MIN_TIME_PERIOD_SEC.to_bits());
    println!("\"max_time\": {},", adsr::MAX_TIME_PERIOD_SEC.to_bits());
    println!("\"hysteresis\": {},", quantizer::Quantizer::VERIF_HYSTERESIS.to_bits());
    println!("\"semitone_width\": {},", quantizer::SEMITONE_WIDTH.to_bits());
    println!("\"notes_per_octave\": {},", quantizer::NUM_NOTES_PER_OCTAVE.to_bits());
    println!("\"v_max\": {},", quantizer::Quantizer::VERIF_V_MAX.to_bits());
    println!("\"one_octave_uv\": {},", quantizer::Quantizer::VERIF_ONE_OCTAVE_IN_MICROVOLTS);
    println!("\"half_step_uv\": {},", quantizer::Quantizer::VERIF_HALF_STEP_IN_MICROVOLTS);
    println!("\"max_octave\": {},", quantizer::Quantizer::VERIF_MAX_OCTAVE);
    let cc: Vec<String> = midi::MonoMidiReceiver::VERIF_CC.iter().map(|c| c.to_string()).collect();
    println!("\"cc\": [{}],", cc.join(","));
    println!("\"u7_half_scale\": {},", midi::MonoMidiReceiver::VERIF_U7_HALF_SCALE);
    println!("\"held_len\": {},", midi::MonoMidiReceiver::VERIF_HELD_DOWN_NOTE_BUFFER_LEN);
    let rt = ribbon::VERIF_RIBBON_TIMES_USEC;
    println!("\"ribbon_times_usec\": [{},{},{}],", rt[0], rt[1], rt[2]);
    let caps: Vec<String> = RIBBON_RATES
        .iter()
        .map(|&r| format!("[{},{}]", r, ribbon::sample_rate_to_capacity(black_box(r))))
        .collect();
    println!("\"ribbon_caps\": [{}],", caps.join(","));
    println!("\"pi\": {},", core::f32::consts::PI.to_bits());
    // host / rustc conventions the model has to follow (probed, not assumed)
    let empty: [f32; 0] = [];
    println!("\"sum_init\": {},", black_box(&empty).iter().sum::<f32>().to_bits());
    let pz = black_box(0.0f32);
    let nz = black_box(-0.0f32);
    println!(
        "\"zero_conventions\": [{},{},{},{}]",
        pz.max(nz).to_bits(),
        nz.max(pz).to_bits(),
        pz.min(nz).to_bits(),
        nz.min(pz).to_bits()
    );
    println!("}}");
}
