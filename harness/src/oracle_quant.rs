//! Oracles for the quantizer properties C07, C08, C09, C19.
//! obs layout: allowed note stairstep fraction [returned note stairstep fraction]
use crate::oracle::*;
use synth_utils::quantizer::{Note, Quantizer};

/// the scale as the property text defines it (note numbers above 11 act as 11; a forbid that would empty the
/// scale leaves the last note of its argument allowed)
fn edit_mask(mask: u16, op: &[&str]) -> u16 {
    let notes: Vec<u16> = op[1..].iter().map(|s| (num(s) as u16).min(11)).collect();
    let mut m = mask;
    if op[0] == "allow" {
        for n in &notes {
            m |= 1 << n;
        }
    } else {
        for n in &notes {
            m &= !(1 << n);
        }
        if m == 0 {
            if let Some(n) = notes.last() {
                m = 1 << n;
            }
        }
    }
    m
}

struct Conv {
    note: u64,
    ss: f32,
    frac: f32,
}

fn parse_conv(o: &[&str]) -> Option<Conv> {
    if o.len() < 7 {
        return None;
    }
    Some(Conv { note: num(o[4]), ss: fbits(o[5]), frac: fbits(o[6]) })
}

fn is_q_op(op: &[&str]) -> bool {
    !op.is_empty() && (op[0] == "quant" || matches!(op[0], "convert" | "allow" | "forbid"))
}

/// iterate the quantizer segments of a trace
fn walk<F: FnMut(usize, usize, &[&str], &[&str], &mut Report)>(t: &Trace, r: &mut Report, mut f: F) {
    let mut start = 0;
    let mut inq = false;
    for i in 0..t.ops.len() {
        let op = &t.ops[i];
        if op.is_empty() {
            continue;
        }
        if op[0] == "quant" {
            start = i;
            inq = true;
        } else if op.len() >= 2 && op[1] == "new" {
            inq = false;
        }
        if inq && is_q_op(op) {
            if t.obs[i].first() == Some(&"PANIC") || t.obs[i].first() == Some(&"GONE") {
                inq = false;
                continue;
            }
            f(i, start, op, &t.obs[i], r);
        }
    }
}

pub fn c07(t: &Trace, r: &mut Report) {
    let mut mask: u16 = 0xfff;
    walk(t, r, |i, start, op, obs, r| match op[0] {
        "quant" => mask = 0xfff,
        "allow" | "forbid" => {
            mask = edit_mask(mask, op);
            r.eval();
            if mask == 0 {
                r.fail(i, start, "empty-scale", "reference scale became empty".to_string());
            }
        }
        "convert" => {
            if let Some(c) = parse_conv(obs) {
                r.eval();
                r.nt(h2(mask as u64, c.note));
                if mask >> (c.note % 12) & 1 == 0 {
                    r.fail(
                        i,
                        start,
                        "forbidden",
                        format!("convert({}) returned note {} (pitch class {}) which is forbidden in scale {:012b}", fbits(op[1]), c.note, c.note % 12, mask),
                    );
                }
                if r.samples.len() < 3 {
                    r.samples.push(format!("line {}: scale {:012b} convert({}) -> note {}", i, mask, fbits(op[1]), c.note));
                }
            }
        }
        _ => {}
    });
}

/// nearest-note rule of C08 on ideal note voltages k/12; returns the set of acceptable notes
fn acceptable(mask: u16, v: f64) -> Vec<u64> {
    let tol = 1e-5;
    let st = 1.0 / 12.0;
    let allowed: Vec<u64> = (0..132u64).filter(|k| mask >> (k % 12) & 1 == 1).collect();
    // an allowed note at or less than one semitone below v always wins
    let bucket_strict: Vec<u64> = allowed.iter().copied().filter(|&k| { let d = v - k as f64 * st; d >= tol && d < st - tol }).collect();
    let bucket_loose: Vec<u64> = allowed.iter().copied().filter(|&k| { let d = v - k as f64 * st; d >= -tol && d < st + tol }).collect();
    if !bucket_strict.is_empty() {
        return bucket_loose;
    }
    let dmin = allowed.iter().map(|&k| (k as f64 * st - v).abs()).fold(f64::MAX, f64::min);
    let mut acc: Vec<u64> = allowed.iter().copied().filter(|&k| (k as f64 * st - v).abs() <= dmin + tol).collect();
    for k in bucket_loose {
        if !acc.contains(&k) {
            acc.push(k);
        }
    }
    acc
}

pub fn c08(t: &Trace, r: &mut Report) {
    let mut mask: u16 = 0xfff;
    let mut fresh = true;
    // fresh results per scale for the monotonicity check
    let mut seen: std::collections::HashMap<u16, Vec<(f32, u64, usize, usize)>> = std::collections::HashMap::new();
    walk(t, r, |i, start, op, obs, r| match op[0] {
        "quant" => {
            mask = 0xfff;
            fresh = true;
        }
        "allow" | "forbid" => mask = edit_mask(mask, op),
        "convert" => {
            if let (true, Some(c)) = (fresh, parse_conv(obs)) {
                let v = fbits(op[1]);
                if !v.is_nan() {
                    let vc = (v as f64).clamp(0.0, 10.0);
                    r.eval();
                    r.nt(h2(mask as u64, (vc * 1200.0) as u64));
                    let acc = acceptable(mask, vc);
                    if !acc.contains(&c.note) {
                        r.fail_d(
                            i,
                            start,
                            "nearest",
                            format!("fresh convert({}) in scale {:012b} returned note {}; the nearest-note rule allows {:?}", v, mask, c.note, acc),
                            vec![("v".into(), v as f64), ("note".into(), c.note as f64)],
                        );
                    }
                    seen.entry(mask).or_default().push((vc as f32, c.note, i, start));
                    if r.samples.len() < 3 {
                        r.samples.push(format!("line {}: fresh scale {:012b} convert({}) -> {} (acceptable {:?})", i, mask, v, c.note, acc));
                    }
                }
            }
            fresh = false;
        }
        _ => {}
    });
    for (mask, mut v) in seen {
        v.sort_by(|a, b| a.0.partial_cmp(&b.0).unwrap().then(a.1.cmp(&b.1)));
        for w in v.windows(2) {
            r.eval();
            if w[1].0 > w[0].0 && w[1].1 < w[0].1 {
                r.fail(w[1].2, w[1].3, "monotone", format!("scale {:012b}: input {} gives note {} but the larger input {} gives {}", mask, w[0].0, w[0].1, w[1].0, w[1].1));
            }
        }
    }
}

fn fresh_quantizer(mask: u16) -> Quantizer {
    let mut q = Quantizer::new();
    let forb: Vec<Note> = (0..12u8).filter(|n| mask >> n & 1 == 0).map(Note::new).collect();
    if !forb.is_empty() {
        q.forbid(&forb);
    }
    q
}

pub fn c09(t: &Trace, r: &mut Report) {
    let mut mask: u16 = 0xfff;
    let mut prev: Option<(u64, f32)> = None; // previous reported note and input
    let mut edited = false;
    // the previous note was found under an earlier scale and has only been *kept* by the hysteresis since.  The
    // ramp clause is stated "for a fixed scale" as a consequence ("hence") of the two hysteresis clauses plus the
    // monotonicity of the history-free conversion; that consequence is valid for every input in the documented
    // range [0, V_MAX] whatever the cached note is, but for raw inputs above V_MAX (hysteresis sees the raw input,
    // the history-free search its clamped value) only when the cached note was produced under the current scale.
    // So a pair is exempt from the ramp check only if the note is stale in this sense AND an input is above V_MAX.
    let mut stale = false;
    let st = 1.0f64 / 12.0;
    let margin = 2e-5; // f32 resolution of the window edges near 10 V
    walk(t, r, |i, start, op, obs, r| match op[0] {
        "quant" => {
            mask = 0xfff;
            prev = None;
            edited = false;
            stale = false;
        }
        "allow" | "forbid" => {
            mask = edit_mask(mask, op);
            edited = true;
            stale = prev.is_some();
        }
        "convert" => {
            let c = match parse_conv(obs) {
                Some(c) => c,
                None => return,
            };
            let v = fbits(op[1]);
            let vd = v as f64;
            r.eval();
            // what a quantizer without history reports (same scale), from the real implementation
            let mut fq = fresh_quantizer(mask);
            let f = fq.convert(v);
            let same_as_fresh = f.note_num as u64 == c.note && f.stairstep.to_bits() == c.ss.to_bits() && (f.fraction.to_bits() == c.frac.to_bits() || (f.fraction.is_nan() && c.frac.is_nan()));
            let mut decided = false;
            if let Some((p, pv)) = prev {
                let still = mask >> (p % 12) & 1 == 1;
                let lo = p as f64 * st - st / 10.0;
                let hi = (p + 1) as f64 * st + st / 10.0;
                let inside = vd > lo + margin && vd < hi - margin;
                let outside = !(vd > lo - margin && vd < hi + margin); // also true for NaN
                if still && inside {
                    decided = true;
                    r.nt(h2(p, h2(mask as u64, 1)));
                    if c.note != p {
                        r.fail(i, start, "hysteresis", format!("input {} is inside the widened bucket of the previous note {} (still allowed) but note {} was reported", v, p, c.note));
                    }
                } else if !still || outside {
                    decided = true;
                    r.nt(h2(p, h2(mask as u64, 2 + still as u64)));
                    if !same_as_fresh {
                        r.fail(
                            i,
                            start,
                            "history-free",
                            format!("input {} (previous note {}, allowed={}) gave ({}, {}, {}) but a quantizer without history gives ({}, {}, {})", v, p, still, c.note, c.ss, c.frac, f.note_num, f.stairstep, f.fraction),
                        );
                    }
                }
                // monotone for a fixed scale
                let exempt = stale && (v > 10.0 || pv > 10.0);
                if !edited && !exempt && v >= pv && c.note < p {
                    r.fail(i, start, "monotone", format!("input rose {} -> {} but the note fell {} -> {}", pv, v, p, c.note));
                }
                if !still || outside {
                    stale = false; // decided by the history-free search under the current scale
                }
            } else {
                decided = true;
                r.nt(h2(mask as u64, 7));
                if !same_as_fresh {
                    r.fail(i, start, "history-free", format!("first conversion of {} differs from a fresh quantizer", v));
                }
            }
            let _ = decided;
            if r.samples.len() < 3 && prev.is_some() {
                r.samples.push(format!("line {}: prev {:?} convert({}) -> {} (fresh would give {})", i, prev, v, c.note, f.note_num));
            }
            prev = Some((c.note, v));
            edited = false;
        }
        _ => {}
    });
}

fn ulp(x: f32) -> f64 {
    let a = x.abs();
    if a == 0.0 {
        return f32::from_bits(1) as f64;
    }
    let b = a.to_bits();
    (f32::from_bits(b + 1) as f64) - (a as f64)
}

pub fn c19(t: &Trace, r: &mut Report) {
    let mut mask: u16 = 0xfff;
    let mut prev: Option<u64> = None;
    let mut fresh = true;
    let st = 1.0f64 / 12.0;
    walk(t, r, |i, start, op, obs, r| match op[0] {
        "quant" => {
            mask = 0xfff;
            prev = None;
            fresh = true;
        }
        "allow" | "forbid" => mask = edit_mask(mask, op),
        "convert" => {
            let c = match parse_conv(obs) {
                Some(c) => c,
                None => return,
            };
            let v = fbits(op[1]);
            r.eval();
            r.nt(h2(c.note, h2(fresh as u64, (v as f64 * 240.0) as i64 as u64)));
            let want_ss = c.note as f32 / 12.0;
            if c.ss.to_bits() != want_ss.to_bits() {
                r.fail(i, start, "stairstep", format!("note {} reported with stairstep {} instead of {}", c.note, c.ss, want_ss));
            }
            if !c.ss.is_finite() || !c.frac.is_finite() {
                // whatever the input was (NaN included): a record with a non-finite member reproduces nothing and its
                // fraction lies in no interval
                r.fail(i, start, "not-a-number", format!("convert({}) reported stairstep {} and fraction {}", v, c.ss, c.frac));
            }
            if !v.is_nan() {
                let sum = c.ss + c.frac;
                let vc = v.max(0.0).min(10.0);
                if (0.0..=10.0).contains(&v) {
                    if ((sum as f64) - (v as f64)).abs() > 2.0 * ulp(v.max(c.ss)) {
                        r.fail(i, start, "reconstruct", format!("stairstep {} + fraction {} = {} does not reproduce the input {}", c.ss, c.frac, sum, v));
                    }
                } else if v.is_finite() {
                    let e1 = ((sum as f64) - (v as f64)).abs() <= 2.0 * ulp(v.max(c.ss));
                    let e2 = ((sum as f64) - (vc as f64)).abs() <= 2.0 * ulp(vc.max(c.ss));
                    if !e1 && !e2 {
                        r.fail(i, start, "reconstruct", format!("stairstep {} + fraction {} reproduces neither the input {} nor its clamped value", c.ss, c.frac, v));
                    }
                }
                // chromatic scale without history: fraction in [0, 1) semitone -- for every input value (inputs outside
                // [0, 10] V are clamped first, so their fraction is 0)
                if fresh && mask == 0xfff {
                    let fr = c.frac as f64;
                    if fr < 0.0 {
                        r.fail_d(
                            i,
                            start,
                            "chromatic-fraction-negative",
                            format!("fresh chromatic convert({}) reports fraction {} < 0", v, c.frac),
                            vec![("v".into(), v as f64), ("fraction".into(), fr), ("note".into(), c.note as f64)],
                        );
                    } else if fr >= st && c.note < 120 {
                        r.fail_d(
                            i,
                            start,
                            "chromatic-fraction-high",
                            format!("fresh chromatic convert({}) reports fraction {} >= one semitone", v, c.frac),
                            vec![("v".into(), v as f64), ("fraction".into(), fr), ("note".into(), c.note as f64)],
                        );
                    }
                }
                // hysteresis kept the previous note: fraction within [-0.1, 1.1] semitones
                if let Some(p) = prev {
                    let still = mask >> (p % 12) & 1 == 1;
                    let lo = p as f64 * st - st / 10.0;
                    let hi = (p + 1) as f64 * st + st / 10.0;
                    let vd = v as f64;
                    // "kept by the hysteresis window" = the previous note is reported again although a quantizer
                    // without history (same scale) would report another one; also every input strictly inside the window
                    let kept_by_history = c.note == p && still && {
                        let mut fq = fresh_quantizer(mask);
                        fq.convert(v).note_num as u64 != c.note
                    };
                    if (still && vd > lo + 2e-5 && vd < hi - 2e-5 && c.note == p) || kept_by_history {
                        let fr = c.frac as f64;
                        let slack = (0.5f64).powi(19);
                        if fr < -0.1 * st - slack || fr > 1.1 * st + slack {
                            r.fail(i, start, "hysteresis-fraction", format!("previous note {} kept for input {} but fraction {} is outside [-0.1, 1.1] semitones", p, v, c.frac));
                        }
                    }
                }
            }
            if r.samples.len() < 3 {
                r.samples.push(format!("line {}: convert({}) -> note {} stairstep {} fraction {}", i, v, c.note, c.ss, c.frac));
            }
            prev = Some(c.note);
            fresh = false;
        }
        _ => {}
    });
}
