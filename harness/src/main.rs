//! Verification harness: runs the real `synth-utils` code in-process.
//! Sub-commands are dispatched in `main`; see /verif/DESIGN.md §4.
mod consts;
mod exec;
mod gen;
mod oracle;
mod oracle_adsr;
mod oracle_glide;
mod oracle_lfo;
mod oracle_midi;
mod oracle_misc;
mod oracle_quant;
mod oracle_ribbon;
mod rng;
mod sweep;

fn main() {
    let args: Vec<String> = std::env::args().collect();
    match args.get(1).map(|s| s.as_str()) {
        Some("dump-consts") => consts::dump(),
        // gen <stream> <seed> <n>: print protocol lines
        Some("gen") => {
            let seed: u64 = args[3].parse().unwrap();
            let n: usize = args[4].parse().unwrap();
            use std::io::Write;
            let out = std::io::stdout();
            let mut w = std::io::BufWriter::new(out.lock());
            for l in gen::stream(&args[2], seed, n) {
                writeln!(w, "{}", l).unwrap();
            }
        }
        // exec: protocol lines on stdin -> observables of the implementation on stdout
        Some("exec") => exec::run_stdin(),
        // oracle <prop>: protocol lines on stdin; runs them on the implementation and checks the property
        Some("oracle") => {
            use std::io::BufRead;
            std::panic::set_hook(Box::new(|_| {}));
            let ops: Vec<String> = std::io::stdin().lock().lines().map(|l| l.unwrap()).collect();
            let mut o = exec::Obj::None;
            let obs: Vec<String> = ops
                .iter()
                .map(|l| {
                    let ws: Vec<&str> = l.split_whitespace().collect();
                    if ws.is_empty() { "bad-op".to_string() } else { exec::step(&mut o, &ws) }
                })
                .collect();
            let r = oracle::run(&args[2], &ops, &obs);
            oracle::print_report(&args[2], ops.len(), &r);
        }
        // sweep <conv|lfo|adsr|quant> <part> <parts> <dir>: exhaustive sweeps of finite domains (thorough tier)
        Some("sweep") => sweep::main(&args),
        _ => {
            eprintln!("usage: verif-harness dump-consts | gen <stream> <seed> <n> | exec");
            std::process::exit(2);
        }
    }
}
