//! Verification harness: runs the real `synth-utils` code in-process.
//! Sub-commands are dispatched in `main`; see /verif/DESIGN.md §4.
mod consts;
mod exec;
mod gen;
mod rng;

fn main() {
    let args: Vec<String> = std::env::args().collect();
    match args.get(1).map(|s| s.as_str()) {
        Some("dump-consts") => consts::dump(),
        // gen <stream> <seed> <n>: print protocol lines
        Some("gen") => {
            let seed: u64 = args[3].parse().unwrap();
            let n: usize = args[4].parse().unwrap();
            use std::io::Write;
            let out = std::io::stdout();
            let mut w = std::io::BufWriter::new(out.lock());
            for l in gen::stream(&args[2], seed, n) {
                writeln!(w, "{}", l).unwrap();
            }
        }
        // exec: protocol lines on stdin -> observables of the implementation on stdout
        Some("exec") => exec::run_stdin(),
        _ => {
            eprintln!("usage: verif-harness dump-consts | gen <stream> <seed> <n> | exec");
            std::process::exit(2);
        }
    }
}
