//! Executes protocol lines on the real `synth-utils` code and prints the same observables as the
//! Lean driver (`/verif/lean/Driver.lean`).  Every call is wrapped in `catch_unwind`.
use crate::rng::{canon, fb};
use std::panic::{catch_unwind, AssertUnwindSafe};
use synth_utils::adsr::{self, Adsr};
use synth_utils::glide_processor::GlideProcessor;
use synth_utils::lfo::{Lfo, Waveshape};
use synth_utils::mono_midi_receiver::{MonoMidiReceiver, NotePriority, RetriggerMode};
use synth_utils::quantizer::{Note, Quantizer};
use synth_utils::ribbon_controller::{self, RibbonController};

pub trait RibbonDyn {
    fn poll(&mut self, x: f32);
    fn value(&self) -> f32;
    fn pressing(&self) -> bool;
    fn jp(&mut self) -> bool;
    fn jr(&mut self) -> bool;
    fn obs(&self) -> String;
    fn params(&self) -> String;
    fn window(&self) -> Vec<f32>;
}

impl<const N: usize> RibbonDyn for RibbonController<N> {
    fn poll(&mut self, x: f32) {
        RibbonController::poll(self, x)
    }
    fn value(&self) -> f32 {
        RibbonController::value(self)
    }
    fn pressing(&self) -> bool {
        self.finger_is_pressing()
    }
    fn jp(&mut self) -> bool {
        self.finger_just_pressed()
    }
    fn jr(&mut self) -> bool {
        self.finger_just_released()
    }
    fn obs(&self) -> String {
        let (_b, _e, cur, c, jp, jr) = self.verif_state();
        format!(
            "{} {} {} {} {} {} {} {}",
            self.finger_is_pressing() as u8,
            fb(RibbonController::value(self)),
            fb(cur),
            c[2],
            c[3],
            jp as u8,
            jr as u8,
            self.verif_buffer().len()
        )
    }
    fn params(&self) -> String {
        let (b, e, _cur, c, _, _) = self.verif_state();
        format!("{} {} {} {}", fb(b), fb(e), c[0], c[1])
    }
    fn window(&self) -> Vec<f32> {
        self.verif_buffer().oldest_ordered().copied().collect()
    }
}

macro_rules! ribbon_caps {
    ($cap:expr, $a:expr, $b:expr, $c:expr, $d:expr; $($n:literal),*) => {
        match $cap {
            $( $n => Some(Box::new(RibbonController::<$n>::new($a, $b, $c, $d)) as Box<dyn RibbonDyn>), )*
            _ => None,
        }
    };
}

/// capacities for which a monomorphised instance exists
pub const RIBBON_CAPS: [usize; 129] = [1, 2, 3, 4, 5, 9, 13, 16, 18, 26, 35, 43, 50, 52, 60, 69, 77, 86, 94, 103, 111, 120, 125, 128, 137, 145, 154, 162, 171, 179, 188, 196, 205, 213, 222, 230, 239, 247, 256, 264, 266, 273, 281, 290, 298, 307, 315, 324, 332, 341, 349, 358, 366, 375, 383, 392, 400, 409, 417, 426, 434, 443, 451, 460, 468, 477, 485, 494, 502, 511, 519, 528, 536, 545, 553, 562, 570, 579, 587, 596, 604, 613, 621, 630, 638, 647, 655, 664, 672, 681, 689, 698, 706, 715, 723, 732, 740, 749, 750, 757, 766, 774, 783, 791, 800, 808, 817, 825, 834, 842, 851, 953, 1000, 1089, 1500, 1531, 1633, 1718, 1769, 1905, 2177, 2999, 3061, 3265, 3435, 3537, 3809, 4268, 4302];

pub fn make_ribbon(cap: usize, sr: f32, sp: f32, dr: f32, pu: f32) -> Option<Box<dyn RibbonDyn>> {
    ribbon_caps!(cap, sr, sp, dr, pu; 1, 2, 3, 4, 5, 9, 13, 16, 18, 26, 35, 43, 50, 52, 60, 69, 77, 86, 94, 103, 111, 120, 125, 128, 137, 145, 154, 162, 171, 179, 188, 196, 205, 213, 222, 230, 239, 247, 256, 264, 266, 273, 281, 290, 298, 307, 315, 324, 332, 341, 349, 358, 366, 375, 383, 392, 400, 409, 417, 426, 434, 443, 451, 460, 468, 477, 485, 494, 502, 511, 519, 528, 536, 545, 553, 562, 570, 579, 587, 596, 604, 613, 621, 630, 638, 647, 655, 664, 672, 681, 689, 698, 706, 715, 723, 732, 740, 749, 750, 757, 766, 774, 783, 791, 800, 808, 817, 825, 834, 842, 851, 953, 1000, 1089, 1500, 1531, 1633, 1718, 1769, 1905, 2177, 2999, 3061, 3265, 3435, 3537, 3809, 4268, 4302)
}

pub enum Obj {
    None,
    Adsr(Adsr),
    Lfo(Lfo),
    Quant(Quantizer),
    Midi(MonoMidiReceiver),
    Glide(GlideProcessor),
    Ribbon(Box<dyn RibbonDyn>),
}

fn f(s: &str) -> f32 {
    f32::from_bits(s.parse::<u32>().expect("float bits"))
}
fn n(s: &str) -> u64 {
    s.parse::<u64>().expect("integer")
}

pub fn adsr_obs(a: &Adsr) -> String {
    let (st, pa, on, off, p) = a.verif_state();
    let st = match st {
        adsr::State::AtRest => 0,
        adsr::State::Attack => 1,
        adsr::State::Decay => 2,
        adsr::State::Sustain => 3,
        adsr::State::Release => 4,
    };
    // raw state behind the getters (stored output, last accumulator, roll-over flag, roll-over mask): columns 10..13
    let (rawv, (mask, last, rolled)) = a.verif_raw();
    format!(
        "{} {} {} {} {} {} {} {} {} {} {} {} {} {}",
        st,
        pa.0,
        pa.2,
        fb(a.value()),
        fb(on),
        fb(off),
        fb(p[0]),
        fb(p[1]),
        fb(p[2]),
        fb(p[3]),
        fb(rawv),
        last,
        rolled as u8,
        mask
    )
}

pub fn lfo_obs(l: &Lfo) -> String {
    let pa = l.verif_state();
    // a waveform read that panics is reported as NaN so that the position that caused it stays visible
    let g = |w: Waveshape| fb(catch_unwind(AssertUnwindSafe(|| l.get(w))).unwrap_or(f32::NAN));
    let (mask, last, rolled) = l.verif_raw();
    format!(
        "{} {} {} {} {} {} {} {} {} {}",
        pa.0,
        pa.2,
        g(Waveshape::Sine),
        g(Waveshape::Triangle),
        g(Waveshape::UpSaw),
        g(Waveshape::DownSaw),
        g(Waveshape::Square),
        last,
        rolled as u8,
        mask
    )
}

pub fn quant_obs(q: &Quantizer) -> String {
    let (allowed, c) = q.verif_state();
    format!("{} {} {} {}", allowed, c.note_num, fb(c.stairstep), fb(c.fraction))
}

fn parser_obs(m: &MonoMidiReceiver) -> String {
    let d = format!("{:?}", m.verif_parser());
    // "MidiByteStreamParser { state: NoteOnNoteRecvd(Channel(1), Note(42)) }"
    let after = d.split("state: ").nth(1).unwrap_or("");
    let name: String = after.chars().take_while(|c| c.is_alphanumeric()).collect();
    let idx = match name.as_str() {
        "Idle" => 0,
        "NoteOnRecvd" => 1,
        "NoteOnNoteRecvd" => 2,
        "NoteOffRecvd" => 3,
        "NoteOffNoteRecvd" => 4,
        "KeyPressureRecvd" => 5,
        "KeyPressureNoteRecvd" => 6,
        "ControlChangeRecvd" => 7,
        "ControlChangeControlRecvd" => 8,
        "ProgramChangeRecvd" => 9,
        "ChannelPressureRecvd" => 10,
        "PitchBendRecvd" => 11,
        "PitchBendLsbRecvd" => 12,
        "QuarterFrameRecvd" => 13,
        "SongPositionRecvd" => 14,
        "SongPositionLsbRecvd" => 15,
        "SongSelectRecvd" => 16,
        _ => 99,
    };
    let mut out = vec![idx.to_string()];
    let rest = &after[name.len()..];
    let mut cur = String::new();
    for ch in rest.chars() {
        if ch.is_ascii_digit() {
            cur.push(ch);
        } else if !cur.is_empty() {
            out.push(cur.clone());
            cur.clear();
        }
    }
    if !cur.is_empty() {
        out.push(cur);
    }
    out.join(" ")
}

pub fn midi_obs(m: &MonoMidiReceiver) -> String {
    let (ch, rising, falling, retrig, prio, held) = m.verif_state();
    let raw = m.verif_raw();
    let held: Vec<String> = held.iter().map(|x| x.to_string()).collect();
    let mut s = format!(
        "{} {} {} {} {} {} {} {} {} {} {} {} {} {} {} {} {} {} {} {} p {} h",
        ch,
        m.note_num(),
        fb(m.velocity()),
        fb(m.pitch_bend()),
        fb(m.mod_wheel()),
        fb(m.volume()),
        fb(m.vcf_cutoff()),
        fb(m.vcf_resonance()),
        fb(m.portamento_time()),
        m.portamento_enabled() as u8,
        m.sustain_enabled() as u8,
        m.gate() as u8,
        rising as u8,
        falling as u8,
        retrig as u8,
        prio,
        // raw stored fields behind the getters: columns 16..19
        raw.0,
        fb(raw.1),
        fb(raw.2),
        raw.3 as u8,
        parser_obs(m)
    );
    for h in held {
        s.push(' ');
        s.push_str(&h);
    }
    s
}

fn dbg_field(d: &str, key: &str) -> f32 {
    // finds "key: <float>" in a Debug rendering
    let pat = format!("{}: ", key);
    let i = d.find(&pat).map(|i| i + pat.len()).unwrap_or(0);
    let tok: String = d[i..].chars().take_while(|c| !matches!(c, ',' | ' ' | '}')).collect();
    tok.parse::<f32>().unwrap_or(f32::NAN)
}

pub fn glide_obs(g: &GlideProcessor) -> String {
    let (_minfc, _maxfc, _fs, cached, lpf) = g.verif_state();
    let d = format!("{:?}", lpf);
    format!(
        "{} {} {} {} {} {} {} {} {} {}",
        fb(cached),
        fb(dbg_field(&d, "a1")),
        fb(dbg_field(&d, "a2")),
        fb(dbg_field(&d, "b0")),
        fb(dbg_field(&d, "b1")),
        fb(dbg_field(&d, "b2")),
        fb(dbg_field(&d, "x1")),
        fb(dbg_field(&d, "x2")),
        fb(dbg_field(&d, "y1")),
        fb(dbg_field(&d, "y2"))
    )
}

fn fop(op: &str, a: f32, b: f32) -> String {
    use std::hint::black_box as bb;
    let (a, b) = (bb(a), bb(b));
    match op {
        "add" => fb(a + b),
        "sub" => fb(a - b),
        "mul" => fb(a * b),
        "div" => fb(a / b),
        "rem" => fb(a % b),
        "max" => fb(a.max(b)),
        "min" => fb(a.min(b)),
        "lt" => ((a < b) as u8).to_string(),
        "le" => ((a <= b) as u8).to_string(),
        "eq" => ((a == b) as u8).to_string(),
        "neg" => fb(-a),
        "u32" => (a as u32).to_string(),
        "i16" => (a as i16).to_string(),
        "fromu32" => fb(a.to_bits() as f32),
        "clamp1" => fb(a.clamp(-1.0, 1.0)),
        "fabs" => fb(synth_utils::verif_hooks::fabs(a)),
        _ => "bad-op".to_string(),
    }
}

/// run one protocol line; returns the observable line
pub fn step(o: &mut Obj, ws: &[&str]) -> String {
    let r = catch_unwind(AssertUnwindSafe(|| step_inner(o, ws)));
    match r {
        Ok(s) => s,
        Err(_) => {
            *o = Obj::None;
            "PANIC".to_string()
        }
    }
}

fn step_inner(o: &mut Obj, ws: &[&str]) -> String {
    match ws {
        ["fop", op, a, b] => return fop(op, f(a), f(b)),
        ["fop1", "fromu32", a] => return fb(std::hint::black_box(n(a) as u32) as f32),
        ["adsr", "new", sr] => {
            let a = Adsr::new(f(sr));
            let s = adsr_obs(&a);
            *o = Obj::Adsr(a);
            return s;
        }
        ["lfo", "new", sr] => {
            let l = Lfo::new(f(sr));
            let s = lfo_obs(&l);
            *o = Obj::Lfo(l);
            return s;
        }
        ["quant", "new"] => {
            let q = Quantizer::new();
            let s = quant_obs(&q);
            *o = Obj::Quant(q);
            return s;
        }
        ["midi", "new", ch] => {
            let m = MonoMidiReceiver::new(n(ch) as u8);
            let s = midi_obs(&m);
            *o = Obj::Midi(m);
            return s;
        }
        ["glide", "new", sr] => {
            *o = Obj::None;
            let g = GlideProcessor::new(f(sr));
            let s = glide_obs(&g);
            *o = Obj::Glide(g);
            return s;
        }
        ["ribbon", "new", cap, sr, sp, dr, pu] => {
            *o = Obj::None;
            let r = make_ribbon(n(cap) as usize, f(sr), f(sp), f(dr), f(pu)).expect("unsupported ribbon capacity");
            let s = format!("{} {}", r.obs(), r.params());
            *o = Obj::Ribbon(r);
            return s;
        }
        ["tp", x] => return fb(f32::from(adsr::TimePeriod::from(f(x)))),
        ["sl", x] => return fb(f32::from(adsr::SustainLevel::from(f(x)))),
        ["notenew", x] => return u8::from(Note::new(n(x) as u8)).to_string(),
        ["notefrom", x] => return u8::from(Note::from(std::hint::black_box(n(x) as u8))).to_string(),
        ["cap", sr] => {
            return ribbon_controller::sample_rate_to_capacity(std::hint::black_box(n(sr) as u32)).to_string()
        }
        _ => {}
    }
    match (o, ws) {
        (Obj::None, _) => "GONE".to_string(),
        (Obj::Adsr(a), ["gate_on"]) => {
            a.gate_on();
            adsr_obs(a)
        }
        (Obj::Adsr(a), ["gate_off"]) => {
            a.gate_off();
            adsr_obs(a)
        }
        (Obj::Adsr(a), ["tick"]) => {
            a.tick();
            adsr_obs(a)
        }
        // `ticks N`: up to N ticks, stopping after the tick on which the phase changes; the observable is that of the last
        // tick plus the number of ticks made (implementation-side long runs only: not part of the correspondence streams)
        (Obj::Adsr(a), ["ticks", x]) => {
            let st0 = a.verif_state().0;
            let mut k = 0u64;
            let lim = n(x);
            while k < lim {
                a.tick();
                k += 1;
                if a.verif_state().0 != st0 {
                    break;
                }
            }
            format!("{} {}", adsr_obs(a), k)
        }
        (Obj::Adsr(a), ["set", k, x]) => {
            let v = f(x);
            a.set_input(match *k {
                "a" => adsr::Input::Attack(v.into()),
                "d" => adsr::Input::Decay(v.into()),
                "s" => adsr::Input::Sustain(v.into()),
                _ => adsr::Input::Release(v.into()),
            });
            adsr_obs(a)
        }
        (Obj::Adsr(a), ["setacc", x]) => {
            a.verif_set_accumulator(n(x) as u32);
            adsr_obs(a)
        }
        (Obj::Lfo(l), ["tick"]) => {
            l.tick();
            lfo_obs(l)
        }
        (Obj::Lfo(l), ["freq", x]) => {
            l.set_frequency(f(x));
            lfo_obs(l)
        }
        (Obj::Lfo(l), ["reset"]) => {
            l.reset();
            lfo_obs(l)
        }
        (Obj::Lfo(l), ["phase", x]) => {
            l.set_phase(f(x));
            lfo_obs(l)
        }
        (Obj::Lfo(l), ["setacc", x]) => {
            l.verif_set_accumulator(n(x) as u32);
            lfo_obs(l)
        }
        (Obj::Quant(q), ["convert", x]) => {
            let c = q.convert(f(x));
            format!("{} {} {} {}", quant_obs(q), c.note_num, fb(c.stairstep), fb(c.fraction))
        }
        (Obj::Quant(q), [op @ ("allow" | "forbid"), rest @ ..]) => {
            // both public constructors are exercised: `Note::new` for the even positions of the list, `Note::from` for the odd
            let notes: Vec<Note> =
                rest.iter().enumerate().map(|(i, s)| if i % 2 == 0 { Note::new(n(s) as u8) } else { Note::from(n(s) as u8) }).collect();
            if *op == "allow" {
                q.allow(&notes)
            } else {
                q.forbid(&notes)
            }
            quant_obs(q)
        }
        (Obj::Midi(m), ["byte", b]) => {
            m.parse(n(b) as u8);
            midi_obs(m)
        }
        (Obj::Midi(m), ["rising"]) => {
            let r = m.rising_gate();
            format!("{} {}", r as u8, midi_obs(m))
        }
        (Obj::Midi(m), ["falling"]) => {
            let r = m.falling_gate();
            format!("{} {}", r as u8, midi_obs(m))
        }
        (Obj::Midi(m), ["retrig", x]) => {
            m.set_retrigger_mode(if n(x) == 1 { RetriggerMode::AllowRetrigger } else { RetriggerMode::NoRetrigger });
            midi_obs(m)
        }
        (Obj::Midi(m), ["prio", x]) => {
            m.set_note_priority(match n(x) {
                0 => NotePriority::Last,
                1 => NotePriority::High,
                _ => NotePriority::Low,
            });
            midi_obs(m)
        }
        (Obj::Glide(g), ["time", x]) => {
            g.set_time(f(x));
            glide_obs(g)
        }
        (Obj::Glide(g), ["proc", x]) => {
            let y = g.process(f(x));
            format!("{} {}", fb(y), glide_obs(g))
        }
        (Obj::Ribbon(r), ["poll", x]) => {
            r.poll(f(x));
            r.obs()
        }
        (Obj::Ribbon(r), ["jp"]) => {
            let b = r.jp();
            format!("{} {}", b as u8, r.obs())
        }
        (Obj::Ribbon(r), ["jr"]) => {
            let b = r.jr();
            format!("{} {}", b as u8, r.obs())
        }
        _ => "bad-op".to_string(),
    }
}

/// read protocol lines from stdin, print observables
pub fn run_stdin() {
    use std::io::{BufRead, Write};
    std::panic::set_hook(Box::new(|_| {}));
    let stdin = std::io::stdin();
    let stdout = std::io::stdout();
    let mut out = std::io::BufWriter::new(stdout.lock());
    let mut o = Obj::None;
    // interactive use (feedback streams: the caller reads each answer before writing the next operation)
    let flush = std::env::var("VERIF_EXEC_FLUSH").is_ok();
    for line in stdin.lock().lines() {
        let line = line.unwrap();
        let ws: Vec<&str> = line.split_whitespace().collect();
        if ws.is_empty() {
            writeln!(out, "bad-op").unwrap();
            continue;
        }
        let s = step(&mut o, &ws);
        writeln!(out, "{}", s).unwrap();
        if flush {
            out.flush().unwrap();
        }
    }
    let _ = canon(0);
}
