//! Oracles for the LFO properties C10, C11, C12.
//! obs layout: acc inc sine triangle upsaw downsaw square
use crate::oracle::*;

const P24: f64 = 16777216.0;

struct Obs {
    acc: u64,
    inc: u64,
    sine: f32,
    tri: f32,
    up: f32,
    down: f32,
    sq: f32,
}

fn parse(o: &[&str]) -> Option<Obs> {
    if o.len() < 7 {
        return None;
    }
    Some(Obs {
        acc: num(o[0]),
        inc: num(o[1]),
        sine: fbits(o[2]),
        tri: fbits(o[3]),
        up: fbits(o[4]),
        down: fbits(o[5]),
        sq: fbits(o[6]),
    })
}

fn is_lfo_op(op: &[&str]) -> bool {
    !op.is_empty() && (op[0] == "lfo" || matches!(op[0], "tick" | "freq" | "reset" | "phase" | "setacc"))
}

pub fn c10(t: &Trace, r: &mut Report) {
    let mut start = 0;
    let mut in_lfo = false;
    for i in 0..t.ops.len() {
        let op = &t.ops[i];
        if op.is_empty() {
            continue;
        }
        if op[0] == "lfo" {
            start = i;
            in_lfo = true;
        } else if op.len() >= 2 && op[1] == "new" {
            in_lfo = false;
        }
        if !in_lfo || !is_lfo_op(op) {
            continue;
        }
        let o = match parse(&t.obs[i]) {
            Some(o) => o,
            None => continue,
        };
        r.eval();
        r.nt(h2(o.acc >> 12, 0));
        if o.acc >= 1 << 24 {
            r.fail(i, start, "phase-range", format!("phase counter {} outside 24 bits", o.acc));
            continue;
        }
        let p = o.acc as f64 / P24;
        for (name, v) in [("sine", o.sine), ("triangle", o.tri), ("up-saw", o.up), ("down-saw", o.down), ("square", o.sq)] {
            if !(v >= -1.0 && v <= 1.0) {
                r.fail(i, start, "range", format!("{} = {} outside [-1,1] at phase {:.8}", name, v, p));
            }
        }
        let up = (2.0 * p - 1.0) as f32; // exactly representable
        if o.up.to_bits() != up.to_bits() && !(o.up == 0.0 && up == 0.0) {
            r.fail(i, start, "upsaw", format!("up-saw {} is not 2*phase-1 = {} at phase {:.8}", o.up, up, p));
        }
        if o.down.to_bits() != (-o.up).to_bits() {
            r.fail(i, start, "downsaw", format!("down-saw {} is not the negation of up-saw {}", o.down, o.up));
        }
        let sq = if o.acc < (1 << 23) { 1.0 } else { -1.0 };
        if o.sq != sq {
            r.fail(i, start, "square", format!("square {} at phase {:.8}", o.sq, p));
        }
        let tri = if p < 0.25 {
            4.0 * p
        } else if p < 0.75 {
            2.0 - 4.0 * p
        } else {
            4.0 * p - 4.0
        };
        if o.tri as f64 != tri {
            r.fail(i, start, "triangle", format!("triangle {} is not the exact wave {} at phase {:.8}", o.tri, tri, p));
        }
        let s = (2.0 * std::f64::consts::PI * p).sin();
        if (o.sine as f64 - s).abs() > 0.0125 {
            r.fail(i, start, "sine", format!("sine {} vs sin(2*pi*{:.8}) = {:.6}", o.sine, p, s));
        }
        if r.samples.len() < 3 {
            r.samples.push(format!("line {}: acc {} sine {} tri {} up {} sq {}", i, o.acc, o.sine, o.tri, o.up, o.sq));
        }
    }
}

pub fn c11(t: &Trace, r: &mut Report) {
    let mut start = 0;
    let mut sr = 1000.0f64;
    let mut freq: Option<f64> = None; // last requested frequency, when it is within [0, sr]
    let mut prev: Option<Obs> = None;
    let mut in_lfo = false;
    for i in 0..t.ops.len() {
        let op = &t.ops[i];
        if op.is_empty() {
            continue;
        }
        if op[0] == "lfo" {
            start = i;
            in_lfo = true;
            sr = fbits(op[2]) as f64;
            freq = Some(0.0); // a new oscillator does not advance
            prev = parse(&t.obs[i]);
            continue;
        } else if op.len() >= 2 && op[1] == "new" {
            in_lfo = false;
        }
        if !in_lfo || !is_lfo_op(op) {
            continue;
        }
        let o = match parse(&t.obs[i]) {
            Some(o) => o,
            None => {
                prev = None;
                continue;
            }
        };
        r.eval();
        match op[0] {
            "reset" => {
                if o.acc != 0 {
                    r.fail(i, start, "reset", format!("phase counter {} after reset", o.acc));
                }
            }
            "phase" => {
                let p = fbits(op[1]);
                if p.is_finite() {
                    let a = (p as f64).abs();
                    let fr = a - a.floor();
                    let got = o.acc as f64 / P24;
                    r.nt(h2((fr * 4096.0) as u64, (p < 0.0) as u64));
                    if !(0.0..1.0).contains(&got) {
                        r.fail(i, start, "set_phase", format!("phase {} outside [0,1)", got));
                    }
                    if p >= 0.0 {
                        let d = (got - fr).abs();
                        let d = d.min(1.0 - d);
                        if d > (0.5f64).powi(22) {
                            r.fail(i, start, "set_phase", format!("set_phase({}) gave phase {:.9}, fractional part is {:.9}", p, got, fr));
                        }
                    } else {
                        // depends only on p modulo 1: same result as for the fractional part of |p| negated
                        let mut twin = synth_utils::lfo::Lfo::new(sr as f32);
                        twin.set_phase(-(fr as f32));
                        let want = twin.verif_state().0 as u64;
                        let frf = fr as f32;
                        // the fractional part may not be an f32 when |p| is large; compare only when it is exact
                        if frf as f64 == fr && want != o.acc {
                            r.fail(i, start, "set_phase-neg", format!("set_phase({}) gave {} but set_phase({}) gives {}", p, o.acc, -frf, want));
                        }
                    }
                }
            }
            "freq" => {
                let fq = fbits(op[1]) as f64;
                freq = if fq.is_finite() && fq >= 0.0 && fq <= sr { Some(fq) } else { None };
                if let Some(p) = &prev {
                    if p.acc != o.acc {
                        r.fail(i, start, "freq-jump", format!("set_frequency moved the phase {} -> {}", p.acc, o.acc));
                    }
                }
                if let Some(fq) = freq {
                    let x = P24 * fq / sr;
                    let lo = x * (1.0 - (0.5f64).powi(23)) - 1.0;
                    let hi = x * (1.0 + (0.5f64).powi(23));
                    r.nt(h2(1, (x.max(1.0).log2() * 8.0) as u64));
                    if (o.inc as f64) < lo - 1e-9 || (o.inc as f64) > hi + 1e-9 {
                        r.fail(i, start, "increment", format!("frequency {} Hz at {} Hz gives step {} outside [{:.3}, {:.3}]", fq, sr, o.inc, lo, hi));
                    }
                }
            }
            "tick" => {
                if let Some(p) = &prev {
                    let want = (p.acc + p.inc) % (1 << 24);
                    if freq.is_some() && p.acc < (1 << 24) && o.acc != want {
                        r.fail(i, start, "tick", format!("tick moved phase {} by {} to {}", p.acc, p.inc, o.acc));
                    }
                    if o.inc != p.inc {
                        r.fail(i, start, "tick", "tick changed the step".to_string());
                    }
                }
            }
            _ => {}
        }
        if r.samples.len() < 3 && op[0] != "tick" {
            r.samples.push(format!("line {}: {} -> acc {} inc {}", i, op.join(" "), o.acc, o.inc));
        }
        prev = Some(o);
    }
}

pub fn c12(t: &Trace, r: &mut Report) {
    let mut start = 0;
    let mut prev: Option<Obs> = None;
    let mut in_lfo = false;
    let mut sr = 0.0f64;
    let mut cfg: Option<f64> = None; // frequency / sample rate as last configured (None until set_frequency is called)
    let ulp2 = 2.0 * (0.5f64).powi(23);
    for i in 0..t.ops.len() {
        let op = &t.ops[i];
        if op.is_empty() {
            continue;
        }
        if op[0] == "lfo" {
            start = i;
            in_lfo = true;
            prev = parse(&t.obs[i]);
            sr = fbits(op[2]) as f64;
            cfg = None;
            continue;
        } else if op.len() >= 2 && op[1] == "new" {
            in_lfo = false;
        }
        if !in_lfo || !is_lfo_op(op) {
            continue;
        }
        if op[0] == "freq" {
            let f = fbits(op[1]) as f64;
            cfg = if f.is_finite() && f >= 0.0 && sr > 0.0 && f <= sr { Some(f / sr) } else { None };
        }
        let o = match parse(&t.obs[i]) {
            Some(o) => o,
            None => {
                prev = None;
                continue;
            }
        };
        if op[0] == "tick" {
            if let Some(p) = &prev {
                if p.acc < (1 << 24) {
                    r.eval();
                    // the phase step of this tick is the configured one (frequency / sample rate, i.e. the increment in
                    // effect, C11), measured on the circle; on a tree where the counter itself jumps the outputs jump
                    // with it and that is a discontinuity of the waveform
                    let stepc = (p.inc % (1 << 24)) as f64;
                    let step_inc = stepc.min(P24 - stepc) / P24;
                    // when a frequency in [0, sample rate] has been configured, the phase step is frequency / sample
                    // rate (C11: a tick never advances by more than that, up to f32 rounding), whatever the counter does
                    let step = match cfg {
                        // (above half the sample rate the circular distance 1 - f/sr is realised up to one counter step
                        // longer, so there the counter-derived step is the phase step)
                        Some(c) if c <= 0.5 => c * (1.0 + (0.5f64).powi(22)),
                        _ => step_inc,
                    };
                    let wrapped = o.acc < p.acc;
                    r.nt(h2(p.acc >> 12, h2(wrapped as u64, (stepc.max(1.0).log2()) as u64)));
                    let ds = (o.sine as f64 - p.sine as f64).abs();
                    let bs = 2.0 * std::f64::consts::PI * 1.002 * step + ulp2;
                    if ds > bs {
                        r.fail_d(
                            i,
                            start,
                            "sine-step",
                            format!("sine moved {:.6e} for a phase step of {:.6e} (bound {:.6e}) at counter {} -> {}", ds, step, bs, p.acc, o.acc),
                            vec![("step".into(), ds), ("bound".into(), bs)],
                        );
                    }
                    let dt = (o.tri as f64 - p.tri as f64).abs();
                    let bt = 4.0 * step;
                    if dt > bt {
                        r.fail(i, start, "triangle-step", format!("triangle moved {:.6e} for a phase step of {:.6e} at counter {} -> {}", dt, step, p.acc, o.acc));
                    }
                    if r.samples.len() < 3 && wrapped {
                        r.samples.push(format!("line {}: wrap {} -> {}: dsine {:.3e} dtri {:.3e}", i, p.acc, o.acc, ds, dt));
                    }
                }
            }
        }
        prev = Some(o);
    }
}
