//! Oracles for the MIDI properties C04, C05, C06, C18: an independent reference receiver written from the
//! property texts and the MIDI 1.0 framing rules (not from the Lean model, not from the crate).
//! obs layout: channel note vel pb mod vol cut res ptime pen sen gate rising falling retrig prio p <parser..> h <held..>
use crate::oracle::*;

#[derive(Clone, Debug, PartialEq)]
enum Msg {
    NoteOff(u8, u8),
    NoteOn(u8, u8, u8),
    Cc(u8, u8, u8),
    Bend(u8, u16),
}

/// MIDI 1.0 reference decoder, restricted to the message kinds the receiver supports.
#[derive(Default)]
struct Decoder {
    status: u8, // running status (0 = none)
    data: Vec<u8>,
}

impl Decoder {
    fn feed(&mut self, b: u8) -> Option<Msg> {
        if b >= 0xF8 {
            return None; // system real-time: transparent
        }
        if b >= 0xF0 {
            // system common / exclusive: cancels running status, aborts a partial message
            self.status = 0;
            self.data.clear();
            return None;
        }
        if b >= 0x80 {
            self.status = b;
            self.data.clear();
            return None;
        }
        if self.status == 0 {
            return None; // data without status (or system-exclusive payload): ignored
        }
        self.data.push(b);
        let kind = self.status & 0xF0;
        let ch = self.status & 0x0F;
        let need = if kind == 0xC0 || kind == 0xD0 { 1 } else { 2 };
        if self.data.len() < need {
            return None;
        }
        let d = std::mem::take(&mut self.data);
        match kind {
            0x80 => Some(Msg::NoteOff(ch, d[0])),
            0x90 => Some(Msg::NoteOn(ch, d[0], d[1])),
            0xB0 => Some(Msg::Cc(ch, d[0], d[1])),
            0xE0 => Some(Msg::Bend(ch, d[0] as u16 + 128 * d[1] as u16)),
            _ => None,
        }
    }
}

struct RefRx {
    dec: Decoder,
    channel: u8,
    outstanding: Vec<u8>,
    overflowed: bool, // more than 32 outstanding at some point: note tracking no longer specified
    gate: bool,
    note: u8,
    velocity: f32,
    bend: f32,
    cc: [f32; 5], // mod, volume, cutoff, resonance, portamento time
    port_en: bool,
    sus_en: bool,
    pend_rise: bool,
    pend_fall: bool,
    retrig: bool,
    prio: u8,
    last_note_on: bool, // the byte just fed completed a note-on (velocity > 0) on the listened channel
}

impl RefRx {
    fn new(ch: u8) -> Self {
        RefRx {
            dec: Decoder::default(),
            channel: ch.min(15),
            outstanding: vec![],
            overflowed: false,
            gate: false,
            note: 0,
            velocity: 0.0,
            bend: 0.0,
            cc: [0.0; 5],
            port_en: true,
            sus_en: true,
            pend_rise: false,
            pend_fall: false,
            retrig: false,
            prio: 0,
            last_note_on: false,
        }
    }
    fn select(&mut self) {
        if let Some(n) = match self.prio {
            0 => self.outstanding.last().copied(),
            1 => self.outstanding.iter().max().copied(),
            _ => self.outstanding.iter().min().copied(),
        } {
            self.note = n;
        }
    }
    fn drop_gate(&mut self) {
        if self.gate {
            self.pend_fall = true;
        }
        self.gate = false;
        self.pend_rise = false;
    }
    fn note_off(&mut self, n: u8) {
        self.outstanding.retain(|x| *x != n);
        if self.outstanding.is_empty() {
            self.drop_gate();
        } else {
            self.select();
        }
    }
    fn feed(&mut self, b: u8) {
        self.last_note_on = false;
        let m = match self.dec.feed(b) {
            Some(m) => m,
            None => return,
        };
        match m {
            Msg::NoteOn(ch, n, v) if ch == self.channel => {
                if v == 0 {
                    self.note_off(n);
                } else {
                    self.velocity = v as f32 / 127.0;
                    self.last_note_on = true;
                    if self.outstanding.len() >= 32 {
                        self.overflowed = true;
                    }
                    self.outstanding.push(n);
                    self.select();
                    if !self.gate || self.retrig {
                        self.pend_rise = true;
                    }
                    self.gate = true;
                    self.pend_fall = false;
                }
            }
            Msg::NoteOff(ch, n) if ch == self.channel => self.note_off(n),
            Msg::Bend(ch, v) if ch == self.channel => {
                let s = v as i32 - 8192;
                self.bend = if s > 0 { s as f32 / 8191.0 } else { s as f32 / 8192.0 };
            }
            Msg::Cc(ch, c, v) if ch == self.channel => {
                let x = v as f32 / 127.0;
                match c {
                    1 => self.cc[0] = x,
                    7 => self.cc[1] = x,
                    71 => self.cc[2] = x,
                    74 => self.cc[3] = x,
                    5 => self.cc[4] = x,
                    65 => self.port_en = v >= 64,
                    64 => self.sus_en = v >= 64,
                    121 => {
                        self.cc = [0.0; 5];
                        self.bend = 0.0;
                        self.port_en = true;
                        self.sus_en = true;
                    }
                    123 => {
                        self.outstanding.clear();
                        self.drop_gate();
                    }
                    _ => {}
                }
            }
            _ => {}
        }
    }
}

struct Obs {
    channel: u64,
    note: u64,
    vel: f32,
    bend: f32,
    cc: [f32; 5],
    port_en: bool,
    sus_en: bool,
    gate: bool,
}

fn parse(o: &[&str]) -> Option<Obs> {
    if o.len() < 16 {
        return None;
    }
    Some(Obs {
        channel: num(o[0]),
        note: num(o[1]),
        vel: fbits(o[2]),
        bend: fbits(o[3]),
        cc: [fbits(o[4]), fbits(o[5]), fbits(o[6]), fbits(o[7]), fbits(o[8])],
        port_en: o[9] == "1",
        sus_en: o[10] == "1",
        gate: o[11] == "1",
    })
}

pub fn check(prop: &str, t: &Trace, r: &mut Report) {
    let mut start = 0;
    let mut rx: Option<RefRx> = None;
    // C05 beyond 32 outstanding notes: which notes are held is no longer specified (C04 stops there), but the edge
    // clauses are stated about gate() itself and about note-on messages, so they are followed from the *observed*
    // gate: falling latch = an unread true->false change of gate() with no note-on since; rising latch = an unread
    // note-on that found the gate low or arrived in retrigger mode, with no drop of the gate since.
    let (mut og, mut l_rise, mut l_fall) = (false, false, false);
    for i in 0..t.ops.len() {
        let op = &t.ops[i];
        if op.is_empty() {
            continue;
        }
        if op[0] == "midi" {
            start = i;
            rx = Some(RefRx::new(num(op[2]).min(255) as u8));
            og = false;
            l_rise = false;
            l_fall = false;
        } else if op.len() >= 2 && op[1] == "new" {
            rx = None;
        }
        let x = match rx.as_mut() {
            Some(x) => x,
            None => continue,
        };
        if op[0] != "midi" && !matches!(op[0], "byte" | "rising" | "falling" | "retrig" | "prio") {
            continue;
        }
        if t.obs[i].first() == Some(&"PANIC") {
            if prop == "C06" {
                r.fail(i, start, "panic", format!("'{}' panicked", op.join(" ")));
            }
            rx = None;
            continue;
        }
        // the poll results come first on rising/falling lines
        let (poll, rest) = if matches!(op[0], "rising" | "falling") { (Some(t.obs[i][0] == "1"), &t.obs[i][1..]) } else { (None, &t.obs[i][..]) };
        let o = match parse(rest) {
            Some(o) => o,
            None => {
                rx = None;
                continue;
            }
        };
        let mut want_poll = None;
        let mut want_obs_poll = None;
        match op[0] {
            "byte" => {
                x.feed(num(op[1]) as u8);
                if x.last_note_on {
                    if !og || x.retrig {
                        l_rise = true;
                    }
                    l_fall = false;
                }
                if og && !o.gate {
                    l_fall = true;
                    l_rise = false;
                }
                og = o.gate;
            }
            "retrig" => x.retrig = op[1] == "1",
            "prio" => x.prio = num(op[1]) as u8,
            "rising" => {
                want_poll = Some(x.pend_rise);
                x.pend_rise = false;
                want_obs_poll = Some(l_rise);
                l_rise = false;
            }
            "falling" => {
                want_poll = Some(x.pend_fall);
                x.pend_fall = false;
                want_obs_poll = Some(l_fall);
                l_fall = false;
            }
            _ => {}
        }
        r.eval();
        let what = format!("after '{}'", op.join(" "));
        let notes_ok = !x.overflowed;
        if prop == "C04" || prop == "C06" {
            if notes_ok {
                r.nt(h2(x.outstanding.len() as u64, h2(x.note as u64, x.prio as u64 + 4 * x.gate as u64)));
                if o.gate != x.gate {
                    r.fail(i, start, "gate", format!("{}: gate {} but {} note-ons are outstanding", what, o.gate, x.outstanding.len()));
                }
                if o.note != x.note as u64 {
                    r.fail(i, start, "note", format!("{}: note_num {} but priority {} over {:?} selects {}", what, o.note, x.prio, x.outstanding, x.note));
                }
            }
            if o.vel.to_bits() != x.velocity.to_bits() {
                r.fail(i, start, "velocity", format!("{}: velocity {} expected {}", what, o.vel, x.velocity));
            }
        }
        if prop == "C05" && notes_ok {
            r.nt(h2(x.pend_rise as u64 + 2 * x.pend_fall as u64 + 4 * x.gate as u64, h2(x.outstanding.len() as u64, poll.is_some() as u64)));
            if let (Some(got), Some(want)) = (poll, want_poll) {
                if got != want {
                    r.fail(i, start, "edge", format!("{} returned {} but the edge latch of the gate history says {}", op[0], got, want));
                }
                if got && op[0] == "rising" && !o.gate {
                    r.fail(i, start, "edge", "rising edge reported while the gate is low".to_string());
                }
                if got && op[0] == "falling" && o.gate {
                    r.fail(i, start, "edge", "falling edge reported while the gate is high".to_string());
                }
            }
        }
        if prop == "C05" && !notes_ok {
            r.nt(h2(l_rise as u64 + 2 * l_fall as u64 + 4 * o.gate as u64, h2(77, poll.is_some() as u64)));
            if let (Some(got), Some(want)) = (poll, want_obs_poll) {
                if got != want {
                    r.fail(i, start, "edge", format!("(more than 32 notes held) {} returned {} but the edge latch of the observed gate / note-on history says {}", op[0], got, want));
                }
                if got && op[0] == "rising" && !o.gate {
                    r.fail(i, start, "edge", "rising edge reported while the gate is low".to_string());
                }
                if got && op[0] == "falling" && o.gate {
                    r.fail(i, start, "edge", "falling edge reported while the gate is high".to_string());
                }
            }
        }
        if prop == "C18" || prop == "C06" {
            r.nt(h2(o.bend.to_bits() as u64, h2(o.cc[0].to_bits() as u64 ^ o.cc[1].to_bits() as u64, o.port_en as u64 + 2 * o.sus_en as u64)));
            let names = ["mod wheel", "volume", "vcf cutoff", "vcf resonance", "portamento time"];
            for k in 0..5 {
                if o.cc[k].to_bits() != x.cc[k].to_bits() {
                    r.fail(i, start, "controller", format!("{}: {} = {} expected {}", what, names[k], o.cc[k], x.cc[k]));
                }
            }
            if o.port_en != x.port_en || o.sus_en != x.sus_en {
                r.fail(i, start, "switch", format!("{}: switches (portamento {}, sustain {}) expected ({}, {})", what, o.port_en, o.sus_en, x.port_en, x.sus_en));
            }
            if o.bend.to_bits() != x.bend.to_bits() && !(o.bend == 0.0 && x.bend == 0.0) {
                r.fail(i, start, "pitch-bend", format!("{}: pitch bend {} expected {}", what, o.bend, x.bend));
            }
            if o.channel != x.channel as u64 {
                r.fail(i, start, "channel", format!("listening on channel {} expected {}", o.channel, x.channel));
            }
        }
        if r.samples.len() < 3 && op[0] == "byte" && x.gate {
            r.samples.push(format!("line {}: {} -> gate {} note {} outstanding {:?}", i, what, o.gate, o.note, x.outstanding));
        }
    }
}
