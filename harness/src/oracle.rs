//! Property oracles: independent executable readings of the property texts, evaluated over traces
//! (protocol lines + the observables the *implementation* produced for them).  They are written from
//! the property statements, not from the Lean model.  See DESIGN.md §5.
use std::collections::HashSet;

pub struct Violation {
    pub line: usize,  // index of the op at which the property is seen to fail
    pub start: usize, // index of the `new` line of the object concerned
    pub kind: String,
    pub msg: String,
    pub data: Vec<(String, f64)>,
}

#[derive(Default)]
pub struct Report {
    pub evaluations: u64,
    pub nontrivial: HashSet<u64>,
    pub violations: Vec<Violation>,
    pub samples: Vec<String>,
    pub notes: Vec<String>,
}

impl Report {
    pub fn eval(&mut self) {
        self.evaluations += 1;
    }
    pub fn nt(&mut self, h: u64) {
        self.nontrivial.insert(h);
    }
    pub fn fail(&mut self, line: usize, start: usize, kind: &str, msg: String) {
        if self.violations.len() < 50 {
            self.violations.push(Violation { line, start, kind: kind.to_string(), msg, data: vec![] });
        }
    }
    pub fn fail_d(&mut self, line: usize, start: usize, kind: &str, msg: String, data: Vec<(String, f64)>) {
        if self.violations.len() < 50 {
            self.violations.push(Violation { line, start, kind: kind.to_string(), msg, data });
        }
    }
}

pub fn h2(a: u64, b: u64) -> u64 {
    let mut x = a.wrapping_mul(0x9E37_79B9_7F4A_7C15) ^ b.wrapping_add(0x7F4A_7C15_9E37_79B9);
    x ^= x >> 29;
    x = x.wrapping_mul(0xBF58_476D_1CE4_E5B9);
    x ^ (x >> 32)
}

pub fn fbits(s: &str) -> f32 {
    f32::from_bits(s.parse::<u32>().unwrap_or(0x7fc0_0000))
}
pub fn num(s: &str) -> u64 {
    s.parse::<u64>().unwrap_or(0)
}

pub struct Trace<'a> {
    pub ops: Vec<Vec<&'a str>>,
    pub obs: Vec<Vec<&'a str>>,
}

impl<'a> Trace<'a> {
    pub fn new(ops: &'a [String], obs: &'a [String]) -> Self {
        Trace {
            ops: ops.iter().map(|l| l.split_whitespace().collect()).collect(),
            obs: obs.iter().map(|l| l.split_whitespace().collect()).collect(),
        }
    }
}

pub fn run(prop: &str, ops: &[String], obs: &[String]) -> Report {
    let t = Trace::new(ops, obs);
    let mut r = Report::default();
    match prop {
        "C01" => crate::oracle_adsr::c01(&t, &mut r),
        "C02" => crate::oracle_adsr::c02(&t, &mut r),
        "C03" => crate::oracle_adsr::c03(&t, &mut r),
        "C04" | "C05" | "C06" | "C18" => crate::oracle_midi::check(prop, &t, &mut r),
        "C07" => crate::oracle_quant::c07(&t, &mut r),
        "C08" => crate::oracle_quant::c08(&t, &mut r),
        "C09" => crate::oracle_quant::c09(&t, &mut r),
        "C19" => crate::oracle_quant::c19(&t, &mut r),
        "C10" => crate::oracle_lfo::c10(&t, &mut r),
        "C11" => crate::oracle_lfo::c11(&t, &mut r),
        "C12" => crate::oracle_lfo::c12(&t, &mut r),
        "C13" => crate::oracle_glide::c13(&t, &mut r),
        "C14" => crate::oracle_glide::c14(&t, &mut r),
        "C15" => crate::oracle_ribbon::c15(&t, &mut r),
        "C16" => crate::oracle_ribbon::c16(&t, &mut r),
        "C17" => crate::oracle_misc::c17(&t, &mut r),
        "C20" => crate::oracle_misc::c20(&t, &mut r),
        _ => panic!("no oracle for {}", prop),
    }
    r
}

pub fn json_escape(s: &str) -> String {
    s.replace('\\', "\\\\").replace('"', "\\\"")
}

pub fn print_report(prop: &str, nops: usize, r: &Report) {
    let v: Vec<String> = r
        .violations
        .iter()
        .map(|v| {
            let d: Vec<String> = v.data.iter().map(|(k, x)| format!("\"{}\": {:e}", k, x)).collect();
            format!(
                "{{\"line\": {}, \"start\": {}, \"kind\": \"{}\", \"msg\": \"{}\", \"data\": {{{}}}}}",
                v.line,
                v.start,
                v.kind,
                json_escape(&v.msg),
                d.join(", ")
            )
        })
        .collect();
    let s: Vec<String> = r.samples.iter().take(5).map(|s| format!("\"{}\"", json_escape(s))).collect();
    let n: Vec<String> = r.notes.iter().map(|s| format!("\"{}\"", json_escape(s))).collect();
    println!(
        "{{\"prop\": \"{}\", \"ops\": {}, \"evaluations\": {}, \"distinct_nontrivial\": {}, \"violations\": [{}], \"samples\": [{}], \"notes\": [{}]}}",
        prop,
        nops,
        r.evaluations,
        r.nontrivial.len(),
        v.join(", "),
        s.join(", "),
        n.join(", ")
    );
}
