//! Deterministic PRNG (xorshift64*) — every random choice of a run derives from one seed.
#[derive(Clone)]
pub struct Rng(pub u64);

impl Rng {
    pub fn new(seed: u64) -> Self {
        let mut r = Rng(seed ^ 0x9E37_79B9_7F4A_7C15);
        if r.0 == 0 {
            r.0 = 1;
        }
        for _ in 0..4 {
            r.next();
        }
        r
    }
    pub fn next(&mut self) -> u64 {
        let mut x = self.0;
        x ^= x >> 12;
        x ^= x << 25;
        x ^= x >> 27;
        self.0 = x;
        x.wrapping_mul(0x2545_F491_4F6C_DD1D)
    }
    pub fn below(&mut self, n: u64) -> u64 {
        if n == 0 {
            0
        } else {
            self.next() % n
        }
    }
    pub fn range(&mut self, lo: u64, hi: u64) -> u64 {
        lo + self.below(hi - lo + 1)
    }
    pub fn chance(&mut self, num: u64, den: u64) -> bool {
        self.below(den) < num
    }
    pub fn unit(&mut self) -> f64 {
        (self.next() >> 11) as f64 / (1u64 << 53) as f64
    }
    pub fn pick<T: Copy>(&mut self, xs: &[T]) -> T {
        xs[self.below(xs.len() as u64) as usize]
    }
    /// log-uniform in [lo, hi]
    pub fn log_uniform(&mut self, lo: f64, hi: f64) -> f64 {
        (lo.ln() + self.unit() * (hi.ln() - lo.ln())).exp()
    }
}

pub const SPECIALS: [u32; 24] = [
    0x0000_0000, 0x8000_0000, 0x0000_0001, 0x8000_0001, 0x007f_ffff, 0x0080_0000, 0x3f80_0000, 0xbf80_0000,
    0x3f7f_ffff, 0x3f80_0001, 0x7f7f_ffff, 0xff7f_ffff, 0x7f80_0000, 0xff80_0000, 0x7fc0_0000, 0xffc0_0000,
    0x3f00_0000, 0x4b80_0000, 0x4f80_0000, 0x4f7f_ffff, 0x3a83_126f, 0x41a0_0000, 0x3dcc_cccd, 0x3d4c_cccd,
];

/// an f32 bit pattern from a mix of distributions: uniform bits, specials, short mantissas, near-1 values
pub fn any_f32_bits(r: &mut Rng) -> u32 {
    match r.below(8) {
        0 => r.pick(&SPECIALS),
        1 => r.next() as u32,
        2 => {
            // short mantissa (forces exact results and ties)
            let e = r.range(100, 160) as u32;
            let m = (r.below(16) as u32) << 19;
            ((r.below(2) as u32) << 31) | (e << 23) | m
        }
        3 => {
            // subnormal / tiny
            ((r.below(2) as u32) << 31) | (r.below(1 << 24) as u32)
        }
        4 => ((r.unit() * 2.0 - 1.0) as f32).to_bits(),
        5 => ((r.log_uniform(1e-6, 1e6)) as f32 * if r.chance(1, 2) { 1.0 } else { -1.0 }).to_bits(),
        6 => {
            let base = r.pick(&SPECIALS);
            base.wrapping_add(r.range(0, 6) as u32).wrapping_sub(3)
        }
        _ => ((r.below(1 << 25) as f64) as f32).to_bits(),
    }
}

pub fn canon(bits: u32) -> u32 {
    if (bits >> 23) & 0xff == 0xff && bits & 0x7f_ffff != 0 {
        0x7fc0_0000
    } else {
        bits
    }
}
pub fn fb(x: f32) -> String {
    canon(x.to_bits()).to_string()
}
