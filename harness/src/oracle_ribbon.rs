//! Oracles for the ribbon properties C15, C16.
//! obs layout: [poll result] pressing value current received written jp jr buflen ; `new` lines add boundary errconst ignore discard
use crate::oracle::*;

struct Cfg {
    cap: usize,
    sr: f64,
    boundary: f64, // computed from the resistor values in f64
    k: f64,        // (softpot + dropper) / pullup
    ok: bool,
}

fn cfg(op: &[&str], obs: &[&str]) -> Cfg {
    let cap = num(op[2]) as usize;
    let sr = fbits(op[3]);
    let (sp, dr, pu) = (fbits(op[4]) as f64, fbits(op[5]) as f64, fbits(op[6]) as f64);
    let boundary = 1.0 - dr / (dr + sp);
    let k = (sp + dr) / pu;
    let ok = sr.is_finite()
        && (100.0..=192000.0).contains(&sr)
        && sp > 0.0 && dr > 0.0 && pu.is_finite() && sp.is_finite() && dr.is_finite()
        && pu >= sp + dr
        && boundary > 0.01 && boundary < 1.0
        && cap == synth_utils::ribbon_controller::sample_rate_to_capacity(sr as u32);
    // the in-range threshold itself is the implementation's f32 value when it agrees with the formula
    let reported = obs.get(8).map(|s| fbits(s) as f64).unwrap_or(f64::NAN);
    let (boundary, ok) = if (reported - boundary).abs() <= 1e-6 { (reported, ok) } else { (boundary, false) };
    Cfg { cap, sr: sr as f64, boundary, k, ok }
}

pub fn c15(t: &Trace, r: &mut Report) {
    let mut start = 0;
    let mut c: Option<Cfg> = None;
    let mut run = 0usize; // current unbroken in-range run
    let mut pressing = false;
    let (mut pend_p, mut pend_r) = (false, false);
    for i in 0..t.ops.len() {
        let op = &t.ops[i];
        if op.is_empty() {
            continue;
        }
        if op[0] == "ribbon" {
            start = i;
            let k = cfg(op, &t.obs[i]);
            c = if k.ok && t.obs[i].first() != Some(&"PANIC") { Some(k) } else { None };
            run = 0;
            pressing = false;
            pend_p = false;
            pend_r = false;
            continue;
        } else if op.len() >= 2 && op[1] == "new" {
            c = None;
        }
        let k = match &c {
            Some(k) => k,
            None => continue,
        };
        if t.obs[i].first() == Some(&"PANIC") || t.obs[i].first() == Some(&"GONE") {
            c = None;
            continue;
        }
        // number of settling samples skipped: the text does not pin 9 or 10 at 10 kHz, so both readings are accepted
        let ign = (k.sr * 1e-3).floor() as usize;
        let need_min = k.cap + ign.saturating_sub(1); // earliest a press may be reported
        let need_max = k.cap + ign.max(1);             // latest
        match op[0] {
            "poll" => {
                let x = fbits(op[1]) as f64;
                let o = &t.obs[i];
                let got = o[0] == "1";
                if !(0.0..=1.0).contains(&x) {
                    c = None; // samples are documented to lie in [0, 1]
                    continue;
                }
                r.eval();
                if x < k.boundary {
                    run += 1;
                    r.nt(h2(run.min(need_max + 2) as u64, k.cap as u64));
                    if got && run < need_min {
                        r.fail_d(i, start, "early-press", format!("press reported after an unbroken run of only {} in-range samples (capture needs at least {})", run, need_min), vec![("run".into(), run as f64), ("need".into(), need_min as f64)]);
                    }
                    if !got && run >= need_max {
                        r.fail_d(i, start, "late-press", format!("no press reported after an unbroken run of {} in-range samples (capture needs at most {})", run, need_max), vec![("run".into(), run as f64), ("need".into(), need_max as f64)]);
                    }
                } else {
                    run = 0;
                    r.nt(h2(0, pressing as u64));
                    if got {
                        r.fail(i, start, "stuck-press", "press still reported on an out-of-range sample".to_string());
                    }
                }
                if got && !pressing {
                    pend_p = true;
                }
                if !got && pressing {
                    pend_r = true;
                }
                pressing = got;
                if r.samples.len() < 3 && got {
                    r.samples.push(format!("line {}: fs {} cap {} run {} -> pressing", i, k.sr, k.cap, run));
                }
            }
            "jp" | "jr" => {
                r.eval();
                let got = t.obs[i][0] == "1";
                let pend = if op[0] == "jp" { &mut pend_p } else { &mut pend_r };
                r.nt(h2(17, *pend as u64 + 2 * (op[0] == "jp") as u64));
                if got != *pend {
                    r.fail(i, start, "edge", format!("{} returned {} but {} change(s) of finger_is_pressing() are unreported", op[0], got, *pend as u8));
                }
                *pend = false;
            }
            _ => {}
        }
    }
}

pub fn c16(t: &Trace, r: &mut Report) {
    let mut start = 0;
    let mut c: Option<Cfg> = None;
    let mut cur: Vec<f64> = Vec::new(); // in-range samples of the current run
    let mut last_value: Option<u32> = None;
    for i in 0..t.ops.len() {
        let op = &t.ops[i];
        if op.is_empty() {
            continue;
        }
        if op[0] == "ribbon" {
            start = i;
            let k = cfg(op, &t.obs[i]);
            c = if k.ok && t.obs[i].first() != Some(&"PANIC") { Some(k) } else { None };
            cur.clear();
            last_value = None;
            continue;
        } else if op.len() >= 2 && op[1] == "new" {
            c = None;
        }
        let k = match &c {
            Some(k) => k,
            None => continue,
        };
        if t.obs[i].first() == Some(&"PANIC") || t.obs[i].first() == Some(&"GONE") {
            c = None;
            continue;
        }
        if op[0] != "poll" {
            continue;
        }
        let x = fbits(op[1]) as f64;
        if !(0.0..=1.0).contains(&x) {
            c = None; // samples are documented to lie in [0, 1]
            continue;
        }
        let o = &t.obs[i];
        let pressing = o[0] == "1";
        let value = fbits(o[1]);
        r.eval();
        if x < k.boundary {
            cur.push(x);
        } else {
            cur.clear();
        }
        if !(value >= 0.0 && value <= 1.0) {
            r.fail(i, start, "range", format!("value() = {} outside [0,1]", value));
        }
        if pressing {
            let disc = (k.sr * 2e-3).floor() as usize;
            if cur.len() > disc && k.cap > disc {
                // capture window = the last `cap` samples of this press (all of it if it is shorter, which only a
                // premature press report can cause); the newest `disc` are excluded
                let w = &cur[cur.len().saturating_sub(k.cap)..cur.len() - disc];
                let mean = w.iter().sum::<f64>() / w.len() as f64;
                let corr = |a: f64| a - (a - a * a) * k.k;
                let want = (corr(mean) / k.boundary).min(1.0);
                let (mn, mx) = w.iter().fold((f64::MAX, f64::MIN), |(a, b), v| (a.min(*v), b.max(*v)));
                let tol = 2e-6 * w.len() as f64 * 1.2e-7 / 1e-7 * 0.5 + 4e-6; // f32 summation + three roundings
                r.nt(h2((mean * 1000.0) as u64, h2(k.cap as u64, (mx > mn) as u64)));
                if (value as f64 - want).abs() > tol {
                    r.fail_d(
                        i,
                        start,
                        "mean",
                        format!("value() = {} but the corrected mean of the {} capture-window samples of this press is {:.7}", value, w.len(), want),
                        vec![("value".into(), value as f64), ("want".into(), want)],
                    );
                }
                let lo = (corr(mn) / k.boundary).min(1.0) - tol;
                let hi = (corr(mx) / k.boundary).min(1.0) + tol;
                if (value as f64) < lo || (value as f64) > hi {
                    r.fail(i, start, "bounds", format!("value() = {} outside the corrected [min, max] = [{:.7}, {:.7}] of its window", value, lo, hi));
                }
                if r.samples.len() < 3 {
                    r.samples.push(format!("line {}: fs {} window {} samples mean {:.6} -> value {}", i, k.sr, w.len(), mean, value));
                }
            }
        } else if let Some(lv) = last_value {
            r.nt(h2(3, lv as u64));
            if value.to_bits() != lv {
                r.fail(i, start, "retain", format!("value() changed from {} to {} while no press is reported", f32::from_bits(lv), value));
            }
        }
        last_value = Some(value.to_bits());
    }
}
