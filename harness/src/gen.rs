//! Operation-sequence generators (one PRNG state per run).  `gen <stream> <seed> <n>` prints
//! protocol lines; see DESIGN.md §4.2 for what each stream is meant to reach.
use crate::exec::RIBBON_CAPS;
use crate::rng::{any_f32_bits, Rng, SPECIALS};

fn b(x: f32) -> u32 {
    x.to_bits()
}

pub const SAMPLE_RATES: [f32; 10] = [100.0, 999.0, 1000.0, 8000.0, 22050.0, 44100.0, 48000.0, 96000.0, 192000.0, 12345.678];

fn sample_rate(r: &mut Rng, hi: f64) -> f32 {
    if r.chance(2, 3) {
        loop {
            let s = r.pick(&SAMPLE_RATES);
            if (s as f64) <= hi {
                return s;
            }
        }
    } else {
        r.log_uniform(100.0, hi) as f32
    }
}

/// a time value for ADSR inputs: mostly in range, sometimes at/over the clamps, sometimes special
fn adsr_time(r: &mut Rng, sr: f32) -> u32 {
    match r.below(10) {
        0 => any_f32_bits(r),
        1 => b(0.001),
        2 => b(20.0),
        3 => b((r.range(1, 64) as f32) / sr),          // a few samples per phase
        4 => b((1u32 << r.range(0, 14)) as f32 / sr),  // power-of-two sample counts (exact roll-over)
        5 => b(r.log_uniform(1e-4, 40.0) as f32),
        6 => b(0.5 / sr),                              // less than one sample per phase
        _ => b(r.log_uniform(0.001, 2.0) as f32),
    }
}

fn level(r: &mut Rng) -> u32 {
    match r.below(8) {
        0 => any_f32_bits(r),
        1 => b(0.0),
        2 => b(1.0),
        3 => b(f32::from_bits(b(1.0) - 1)),
        4 => b(f32::from_bits(1)),
        5 => b(0.5),
        _ => b(r.unit() as f32),
    }
}

pub fn adsr(r: &mut Rng, n: usize, out: &mut Vec<String>) {
    let mut left = n;
    while left > 0 {
        let sr = sample_rate(r, 192000.0);
        out.push(format!("adsr new {}", b(sr)));
        let seg = (r.range(20, 400) as usize).min(left);
        left -= seg.min(left);
        for _ in 0..seg {
            let c = r.below(100);
            let line = if c < 55 {
                "tick".to_string()
            } else if c < 63 {
                "gate_on".to_string()
            } else if c < 70 {
                "gate_off".to_string()
            } else if c < 82 {
                let k = r.pick(&["a", "d", "r"]);
                format!("set {} {}", k, adsr_time(r, sr))
            } else if c < 88 {
                format!("set s {}", level(r))
            } else {
                // jump anywhere in the phase: cell boundaries, last cell, random
                let acc = match r.below(6) {
                    0 => (r.below(1024) << 14) as u32,
                    1 => ((r.below(1024) << 14) + 16383) as u32,
                    2 => (1u32 << 24) - 1 - r.below(40) as u32,
                    3 => r.below(40) as u32,
                    4 => (1023u32 << 14) + r.below(16384) as u32,
                    _ => r.below(1 << 24) as u32,
                };
                format!("setacc {}", acc)
            };
            out.push(line);
        }
    }
}

fn lfo_freq(r: &mut Rng, sr: f32) -> u32 {
    match r.below(12) {
        0 => any_f32_bits(r),
        1 => b(0.0),
        2 => b(sr),
        3 => b(sr / 2.0),
        4 => b(sr / (1u32 << 24) as f32),          // one count per tick
        5 => b(sr / (1u32 << r.range(1, 23)) as f32),
        6 => b(r.log_uniform(1e-3, sr as f64) as f32),
        7 => b(sr * 0.999_999),
        _ => b(r.log_uniform(0.01, 50.0) as f32),
    }
}

fn lfo_phase(r: &mut Rng) -> u32 {
    match r.below(10) {
        0 => any_f32_bits(r),
        1 => r.pick(&[b(0.0), b(0.25), b(0.5), b(0.75), b(1.0), b(1.5), b(-0.25), b(1e9), b(-1e9)]),
        2 => b(f32::from_bits(b(1.0) - 1)),
        3 => b((r.unit() * 100.0 - 50.0) as f32),
        4 => b((r.below(1024) as f32 + r.pick(&[0.0f32, 0.5, 0.999_939])) / 1024.0),
        _ => b(r.unit() as f32),
    }
}

pub fn lfo(r: &mut Rng, n: usize, out: &mut Vec<String>) {
    let mut left = n;
    while left > 0 {
        let sr = sample_rate(r, 192000.0);
        out.push(format!("lfo new {}", b(sr)));
        let seg = (r.range(20, 300) as usize).min(left);
        left -= seg.min(left);
        for _ in 0..seg {
            let c = r.below(100);
            let line = if c < 45 {
                "tick".to_string()
            } else if c < 60 {
                format!("freq {}", lfo_freq(r, sr))
            } else if c < 63 {
                "reset".to_string()
            } else if c < 78 {
                format!("phase {}", lfo_phase(r))
            } else {
                let acc = match r.below(7) {
                    0 => (r.below(1024) << 14) as u32,
                    1 => ((r.below(1024) << 14) + 16383) as u32,
                    2 => (1u32 << 24) - 1 - r.below(40) as u32,
                    3 => r.below(40) as u32,
                    4 => (1023u32 << 14) + r.below(16384) as u32,
                    5 => (r.pick(&[1u32 << 22, 1 << 23, 3 << 22]) as i64 + r.range(0, 4) as i64 - 2) as u32,
                    _ => r.below(1 << 24) as u32,
                };
                format!("setacc {}", acc)
            };
            out.push(line);
        }
    }
}

/// a quantizer input: lattice of note boundaries ± small offsets, in all octaves, plus out-of-range and specials
pub fn quant_input(r: &mut Rng) -> u32 {
    match r.below(12) {
        0 => any_f32_bits(r),
        1 => r.pick(&SPECIALS),
        2 => b((r.unit() * 14.0 - 2.0) as f32),
        3 | 4 | 5 | 6 => {
            // around a semitone boundary (µV lattice and exact twelfths), ± ulps / µV
            let k = r.below(133) as f64;
            let base = if r.chance(1, 2) { k / 12.0 } else { (k as u64 % 12) as f64 * 0.083333 + (k as u64 / 12) as f64 };
            let off = r.pick(&[0.0, 1e-6, -1e-6, 2e-6, -2e-6, 5e-6, -5e-6, 1e-5, -1e-5, 4e-6, -4e-6]);
            let v = (base + off) as f32;
            let ulps = r.range(0, 6) as i32 - 3;
            b(f32::from_bits((b(v) as i32 + ulps).max(0) as u32))
        }
        7 | 8 => {
            // around hysteresis edges of some note
            let k = r.below(132) as f64;
            let edge = if r.chance(1, 2) { k / 12.0 - 1.0 / 120.0 } else { (k + 1.0) / 12.0 + 1.0 / 120.0 };
            let v = edge as f32;
            let ulps = r.range(0, 8) as i32 - 4;
            b(f32::from_bits((b(v) as i32 + ulps).max(0) as u32))
        }
        9 => {
            // midpoints between notes far apart (sparse scales)
            let k = r.below(264) as f64;
            b((k / 24.0 + r.pick(&[0.0, 3e-6, -3e-6, 2e-5, -2e-5])) as f32)
        }
        _ => b((r.unit() * 10.0) as f32),
    }
}

fn note_list(r: &mut Rng) -> String {
    let k = match r.below(10) {
        0 => 0,
        1 => 12,
        2 => 11,
        _ => r.range(1, 4),
    };
    let mut v = Vec::new();
    if k >= 11 {
        let mut all: Vec<u64> = (0..12).collect();
        // random order, maybe drop one
        for i in (1..all.len()).rev() {
            let j = r.below(i as u64 + 1) as usize;
            all.swap(i, j);
        }
        all.truncate(k as usize);
        v = all;
    } else {
        for _ in 0..k {
            v.push(if r.chance(1, 12) { r.range(12, 255) } else { r.below(12) });
        }
    }
    v.iter().map(|x| x.to_string()).collect::<Vec<_>>().join(" ")
}

pub fn quant(r: &mut Rng, n: usize, out: &mut Vec<String>) {
    let mut left = n;
    while left > 0 {
        out.push("quant new".to_string());
        let seg = (r.range(5, 120) as usize).min(left);
        left -= seg.min(left);
        // start from a random scale quite often
        if r.chance(2, 3) {
            let mask = r.range(1, 4095);
            let forb: Vec<String> = (0..12).filter(|i| mask >> i & 1 == 0).map(|i| i.to_string()).collect();
            if !forb.is_empty() {
                out.push(format!("forbid {}", forb.join(" ")));
            }
        }
        let mut last = quant_input(r);
        for _ in 0..seg {
            let c = r.below(100);
            let line = if c < 60 {
                last = quant_input(r);
                format!("convert {}", last)
            } else if c < 75 {
                // same or neighbouring input again
                let v = (last as i64 + r.range(0, 4000) as i64 - 2000).max(0) as u32;
                format!("convert {}", v)
            } else if c < 87 {
                format!("forbid {}", note_list(r)).trim_end().to_string()
            } else {
                format!("allow {}", note_list(r)).trim_end().to_string()
            };
            out.push(line);
        }
    }
}

fn midi_message(r: &mut Rng, ch: u64, notes: &mut Vec<u64>, out: &mut Vec<u64>, running: &mut Option<u64>) {
    let chan = if r.chance(4, 5) { ch } else { r.below(16) };
    let kind = r.below(100);
    let (status, data): (u64, Vec<u64>) = if kind < 35 {
        let note = if !notes.is_empty() && r.chance(1, 4) { r.pick(&notes[..]) } else { let x = r.below(128); r.pick(&[60, 61, 62, 64, 0, 127, x]) };
        let vel = if r.chance(1, 6) { 0 } else { r.range(1, 127) };
        notes.push(note);
        (0x90 + chan, vec![note, vel])
    } else if kind < 60 {
        let note = if !notes.is_empty() && r.chance(3, 4) { r.pick(&notes[..]) } else { r.below(128) };
        (0x80 + chan, vec![note, r.below(128)])
    } else if kind < 78 {
        let cc = if r.chance(2, 3) { r.pick(&[1, 7, 71, 74, 5, 65, 64, 121, 123, 120, 122, 0, 127]) } else { r.below(128) };
        let x = r.below(128);
        let v = r.pick(&[0, 1, 63, 64, 65, 126, 127, x]);
        (0xB0 + chan, vec![cc, v])
    } else if kind < 86 {
        {
        let (x, y) = (r.below(128), r.below(128));
        (0xE0 + chan, vec![r.pick(&[0, 127, 1, x]), r.pick(&[0, 64, 63, 127, 65, y])])
        }
    } else if kind < 89 {
        (0xA0 + chan, vec![r.below(128), r.below(128)])
    } else if kind < 92 {
        (0xC0 + chan, vec![r.below(128)])
    } else if kind < 94 {
        (0xD0 + chan, vec![r.below(128)])
    } else if kind < 96 {
        // sysex with payload
        let k = r.range(0, 6);
        let mut d: Vec<u64> = (0..k).map(|_| r.below(128)).collect();
        d.push(0xF7);
        (0xF0, d)
    } else {
        let s = r.pick(&[0xF1, 0xF2, 0xF3, 0xF6, 0xF4, 0xF5]);
        let k = match s {
            0xF1 | 0xF3 => 1,
            0xF2 => 2,
            _ => 0,
        };
        (s, (0..k).map(|_| r.below(128)).collect())
    };
    // running status: omit the status byte sometimes when it repeats
    let omit = status < 0xF0 && *running == Some(status) && r.chance(1, 2);
    let mut bytes = Vec::new();
    if !omit {
        bytes.push(status);
    }
    bytes.extend(data);
    *running = if status < 0xF0 { Some(status) } else if status < 0xF8 { None } else { *running };
    // truncate a message now and then
    if r.chance(1, 25) && bytes.len() > 1 {
        bytes.truncate(bytes.len() - 1);
    }
    // real-time bytes at every split point, with some probability
    for (i, by) in bytes.iter().enumerate() {
        if r.chance(1, 10) {
            out.push(r.pick(&[0xF8, 0xFA, 0xFB, 0xFC, 0xFE, 0xFF, 0xF9, 0xFD]));
        }
        let _ = i;
        out.push(*by);
    }
}

pub fn midi(r: &mut Rng, n: usize, out: &mut Vec<String>) {
    let mut left = n;
    while left > 0 {
        let ch = if r.chance(1, 10) { r.range(16, 255) } else { r.below(16) };
        out.push(format!("midi new {}", ch));
        let chan = ch.min(15);
        let seg = (r.range(10, 400) as usize).min(left);
        left -= seg.min(left);
        let mut notes: Vec<u64> = Vec::new();
        let mut running = None;
        let uniform = r.chance(1, 6); // the "malformed" arm: uniform bytes
        let many_notes = r.chance(1, 8); // fill the held-note buffer
        let mut produced = 0;
        while produced < seg {
            let c = r.below(100);
            if c < 70 {
                let mut bytes = Vec::new();
                if uniform {
                    bytes.push(r.below(256));
                } else if many_notes && r.chance(2, 3) {
                    let note = r.below(128);
                    notes.push(note);
                    bytes.extend([0x90 + chan, note, r.range(1, 127)]);
                    running = Some(0x90 + chan);
                } else {
                    midi_message(r, chan, &mut notes, &mut bytes, &mut running);
                }
                for by in bytes {
                    out.push(format!("byte {}", by));
                    produced += 1;
                }
            } else if c < 80 {
                out.push("rising".to_string());
                produced += 1;
            } else if c < 90 {
                out.push("falling".to_string());
                produced += 1;
            } else if c < 95 {
                out.push(format!("retrig {}", r.below(2)));
                produced += 1;
            } else {
                out.push(format!("prio {}", r.below(3)));
                produced += 1;
            }
        }
    }
}

fn glide_time(r: &mut Rng, sr: f32) -> u32 {
    match r.below(12) {
        0 => any_f32_bits(r),
        1 => b(0.0),
        2 => b(2.0 / sr),
        3 => b(1.0 / sr),
        4 => b(10.0),
        5 => b(r.log_uniform(10.0, 1e6) as f32),
        6 => b((r.unit() * 4.0 / sr as f64) as f32),
        7 => b(r.log_uniform(1e-5, 0.2) as f32),
        8 => b(-0.0),
        _ => b(r.log_uniform(0.01, 10.0) as f32),
    }
}

pub fn glide(r: &mut Rng, n: usize, out: &mut Vec<String>) {
    let mut left = n;
    while left > 0 {
        let sr = if r.chance(1, 20) { f32::from_bits(any_f32_bits(r)) } else { sample_rate(r, 48000.0) };
        out.push(format!("glide new {}", b(sr)));
        let seg = (r.range(10, 300) as usize).min(left);
        left -= seg.min(left);
        let mut x = (r.unit() * 10.0) as f32;
        for _ in 0..seg {
            let c = r.below(100);
            if c < 18 {
                out.push(format!("time {}", glide_time(r, sr)));
            } else {
                match r.below(12) {
                    0 => x = (r.unit() * 10.0) as f32,
                    1 => x = f32::from_bits(any_f32_bits(r)),
                    2 => x = -x,
                    3 => x += (r.unit() - 0.5) as f32,
                    _ => {}
                }
                out.push(format!("proc {}", b(x)));
            }
        }
    }
}

pub fn ribbon(r: &mut Rng, n: usize, out: &mut Vec<String>) {
    let rates: [(f32, usize); 8] =
        [(100.0, 2), (1000.0, 18), (4000.0, 69), (10000.0, 171), (22050.0, 375), (44100.0, 750), (48000.0, 817), (192000.0, 3265)];
    let mut left = n;
    while left > 0 {
        let (sr, cap) = r.pick(&rates[..6]);
        let (sr, cap) = if r.chance(1, 10) { (sr, r.pick(&RIBBON_CAPS)) } else if r.chance(1, 15) { r.pick(&rates) } else { (sr, cap) };
        let (sp, dr, pu) = match r.below(6) {
            0 => (20e3f32, 820.0f32, 1e6f32),
            1 => (10e3, 1.0, 1e12),
            2 => (10e3, 10e3, 20e3),
            3 => (r.log_uniform(1e3, 1e5) as f32, r.log_uniform(1.0, 1e4) as f32, r.log_uniform(1e5, 1e7) as f32),
            4 => (f32::from_bits(any_f32_bits(r)), f32::from_bits(any_f32_bits(r)), f32::from_bits(any_f32_bits(r))),
            _ => (20e3, 820.0, 30e3),
        };
        out.push(format!("ribbon new {} {} {} {} {}", cap, b(sr), b(sp), b(dr), b(pu)));
        let boundary = 1.0 - (dr / (dr + sp));
        let need = cap + (sr as usize) / 1000 + 2;
        let seg = (r.range(need as u64 / 2, need as u64 * 4) as usize).min(left.max(10));
        left -= seg.min(left);
        let mut produced = 0;
        while produced < seg {
            // a run of in-range samples of random length, then a gap
            let run = match r.below(6) {
                0 => r.range(1, 5) as usize,
                1 => need - 1 - r.below(3) as usize,
                2 => need + r.below(3) as usize,
                3 => r.range(1, need as u64) as usize,
                _ => r.range(need as u64, need as u64 * 2) as usize,
            };
            let mut pos = (r.unit() as f32) * boundary;
            for _ in 0..run {
                match r.below(20) {
                    0 => pos = (r.unit() as f32) * boundary,
                    1 => pos = f32::from_bits(b(boundary).wrapping_sub(r.range(1, 3) as u32)),
                    2 => pos = 0.0,
                    3 => pos = -0.0,
                    _ => {}
                }
                let jitter = if r.chance(1, 2) { 0.0 } else { ((r.unit() - 0.5) * 0.01) as f32 };
                let v = (pos + jitter).max(0.0);
                let v = if v < boundary { v } else { pos };
                out.push(format!("poll {}", b(v)));
                produced += 1;
                if r.chance(1, 40) {
                    out.push(r.pick(&["jp", "jr"]).to_string());
                    produced += 1;
                }
            }
            let gap = r.pick(&[1usize, 1, 2, 5, 30]);
            for _ in 0..gap {
                let v = match r.below(5) {
                    0 => boundary,
                    1 => 1.0,
                    2 => f32::from_bits(b(boundary) + 1),
                    3 => f32::from_bits(any_f32_bits(r)),
                    _ => boundary + (1.0 - boundary) * r.unit() as f32,
                };
                out.push(format!("poll {}", b(v)));
                produced += 1;
            }
            if r.chance(1, 2) {
                out.push(r.pick(&["jp", "jr"]).to_string());
                produced += 1;
            }
        }
    }
}

pub fn fop(r: &mut Rng, n: usize, out: &mut Vec<String>) {
    let ops = ["add", "sub", "mul", "div", "rem", "max", "min", "lt", "le", "eq", "neg", "u32", "i16", "clamp1", "fabs"];
    for _ in 0..n {
        let op = r.pick(&ops);
        let a = any_f32_bits(r);
        let mut bb = any_f32_bits(r);
        match r.below(8) {
            0 => bb = a,
            1 => bb = a ^ 0x8000_0000,
            2 => bb = a.wrapping_add(r.range(0, 4) as u32).wrapping_sub(2),
            _ => {}
        }
        if op == "rem" && r.chance(3, 4) {
            bb = b(1.0);
        }
        // unspecified by Rust: max/min of zeros of different sign
        if (op == "max" || op == "min") && (a << 1) == 0 && (bb << 1) == 0 {
            bb = a;
        }
        out.push(format!("fop {} {} {}", op, a, bb));
    }
    for _ in 0..n / 10 {
        let v = match r.below(4) {
            0 => r.next() as u32 as u64,
            1 => r.below(1 << 25),
            2 => (1u64 << r.range(0, 32)).wrapping_sub(r.below(3)) & 0xffff_ffff,
            _ => r.below(256),
        };
        out.push(format!("fop1 fromu32 {}", v));
    }
}

pub fn misc(r: &mut Rng, n: usize, out: &mut Vec<String>) {
    for _ in 0..n {
        match r.below(6) {
            0 | 1 => out.push(format!("tp {}", adsr_time(r, 1000.0))),
            2 => out.push(format!("sl {}", level(r))),
            3 => out.push(format!("tp {}", any_f32_bits(r))),
            4 => out.push(format!("sl {}", any_f32_bits(r))),
            _ => out.push(format!("notenew {}", r.below(256))),
        }
    }
    for sr in [100u64, 999, 1000, 4000, 10000, 22050, 44100, 48000, 96000, 192000, 250000] {
        out.push(format!("cap {}", sr));
    }
}

pub fn stream(name: &str, seed: u64, n: usize) -> Vec<String> {
    let mut r = Rng::new(seed.wrapping_mul(0x100_0000_01B3) ^ name.bytes().fold(0u64, |a, c| a.wrapping_mul(131) + c as u64));
    let mut out = Vec::with_capacity(n + 16);
    match name {
        "adsr" => adsr(&mut r, n, &mut out),
        "lfo" => lfo(&mut r, n, &mut out),
        "quant" => quant(&mut r, n, &mut out),
        "midi" => midi(&mut r, n, &mut out),
        "glide" => glide(&mut r, n, &mut out),
        "ribbon" => ribbon(&mut r, n, &mut out),
        "fop" => fop(&mut r, n, &mut out),
        "misc" => misc(&mut r, n, &mut out),
        _ => panic!("unknown stream {}", name),
    }
    out
}
