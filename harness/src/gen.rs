//! Operation-sequence generators (one PRNG state per run).  `gen <stream> <seed> <n>` prints
//! protocol lines; see DESIGN.md §4.2 for what each stream is meant to reach.
use crate::exec::RIBBON_CAPS;
use crate::rng::{any_f32_bits, Rng, SPECIALS};

fn b(x: f32) -> u32 {
    x.to_bits()
}

pub const SAMPLE_RATES: [f32; 10] = [100.0, 999.0, 1000.0, 8000.0, 22050.0, 44100.0, 48000.0, 96000.0, 192000.0, 12345.678];

fn sample_rate(r: &mut Rng, hi: f64) -> f32 {
    if r.chance(2, 3) {
        loop {
            let s = r.pick(&SAMPLE_RATES);
            if (s as f64) <= hi {
                return s;
            }
        }
    } else {
        r.log_uniform(100.0, hi) as f32
    }
}

/// a time value for ADSR inputs: mostly in range, sometimes at/over the clamps, sometimes special
fn adsr_time(r: &mut Rng, sr: f32) -> u32 {
    match r.below(10) {
        0 => any_f32_bits(r),
        1 => b(0.001),
        2 => b(20.0),
        3 => b((r.range(1, 64) as f32) / sr),          // a few samples per phase
        4 => b((1u32 << r.range(0, 14)) as f32 / sr),  // power-of-two sample counts (exact roll-over)
        5 => b(r.log_uniform(1e-4, 40.0) as f32),
        6 => b(0.5 / sr),                              // less than one sample per phase
        _ => b(r.log_uniform(0.001, 2.0) as f32),
    }
}

fn level(r: &mut Rng) -> u32 {
    match r.below(8) {
        0 => any_f32_bits(r),
        1 => b(0.0),
        2 => b(1.0),
        3 => b(f32::from_bits(b(1.0) - 1)),
        4 => b(f32::from_bits(1)),
        5 => b(0.5),
        _ => b(r.unit() as f32),
    }
}

pub fn adsr(r: &mut Rng, n: usize, out: &mut Vec<String>) {
    let mut left = n;
    while left > 0 {
        let sr = sample_rate(r, 192000.0);
        out.push(format!("adsr new {}", b(sr)));
        let seg = (r.range(20, 400) as usize).min(left);
        left -= seg.min(left);
        for _ in 0..seg {
            let c = r.below(100);
            let line = if c < 55 {
                "tick".to_string()
            } else if c < 63 {
                "gate_on".to_string()
            } else if c < 70 {
                "gate_off".to_string()
            } else if c < 82 {
                let k = r.pick(&["a", "d", "r"]);
                format!("set {} {}", k, adsr_time(r, sr))
            } else if c < 88 {
                format!("set s {}", level(r))
            } else {
                // jump anywhere in the phase: cell boundaries, last cell, random
                let acc = match r.below(6) {
                    0 => (r.below(1024) << 14) as u32,
                    1 => ((r.below(1024) << 14) + 16383) as u32,
                    2 => (1u32 << 24) - 1 - r.below(40) as u32,
                    3 => r.below(40) as u32,
                    4 => (1023u32 << 14) + r.below(16384) as u32,
                    _ => r.below(1 << 24) as u32,
                };
                format!("setacc {}", acc)
            };
            out.push(line);
        }
    }
}

fn lfo_freq(r: &mut Rng, sr: f32) -> u32 {
    match r.below(12) {
        0 => any_f32_bits(r),
        1 => b(0.0),
        2 => b(sr),
        3 => b(sr / 2.0),
        4 => b(sr / (1u32 << 24) as f32),          // one count per tick
        5 => b(sr / (1u32 << r.range(1, 23)) as f32),
        6 => b(r.log_uniform(1e-3, sr as f64) as f32),
        7 => b(sr * 0.999_999),
        _ => b(r.log_uniform(0.01, 50.0) as f32),
    }
}

fn lfo_phase(r: &mut Rng) -> u32 {
    match r.below(10) {
        0 => any_f32_bits(r),
        1 => r.pick(&[b(0.0), b(0.25), b(0.5), b(0.75), b(1.0), b(1.5), b(-0.25), b(1e9), b(-1e9), b(1e10), b(-1e10), b(4.3e9), b(3e38), b(-3e38), b(16777216.0), b(8388608.5)]),
        2 => b(f32::from_bits(b(1.0) - 1)),
        3 => b((r.unit() * 100.0 - 50.0) as f32),
        4 => b((r.below(1024) as f32 + r.pick(&[0.0f32, 0.5, 0.999_939])) / 1024.0),
        _ => b(r.unit() as f32),
    }
}

pub fn lfo(r: &mut Rng, n: usize, out: &mut Vec<String>) {
    let mut left = n;
    while left > 0 {
        let sr = sample_rate(r, 192000.0);
        out.push(format!("lfo new {}", b(sr)));
        let seg = (r.range(20, 300) as usize).min(left);
        left -= seg.min(left);
        for _ in 0..seg {
            let c = r.below(100);
            let line = if c < 45 {
                "tick".to_string()
            } else if c < 60 {
                format!("freq {}", lfo_freq(r, sr))
            } else if c < 63 {
                "reset".to_string()
            } else if c < 78 {
                format!("phase {}", lfo_phase(r))
            } else {
                let acc = match r.below(7) {
                    0 => (r.below(1024) << 14) as u32,
                    1 => ((r.below(1024) << 14) + 16383) as u32,
                    2 => (1u32 << 24) - 1 - r.below(40) as u32,
                    3 => r.below(40) as u32,
                    4 => (1023u32 << 14) + r.below(16384) as u32,
                    5 => (r.pick(&[1u32 << 22, 1 << 23, 3 << 22]) as i64 + r.range(0, 4) as i64 - 2) as u32,
                    _ => r.below(1 << 24) as u32,
                };
                format!("setacc {}", acc)
            };
            out.push(line);
        }
    }
}

/// a quantizer input: lattice of note boundaries ± small offsets, in all octaves, plus out-of-range and specials
pub fn quant_input(r: &mut Rng) -> u32 {
    match r.below(12) {
        0 => any_f32_bits(r),
        1 => r.pick(&SPECIALS),
        2 => b((r.unit() * 14.0 - 2.0) as f32),
        3 | 4 | 5 | 6 => {
            // around a semitone boundary (µV lattice and exact twelfths), ± ulps / µV
            let k = r.below(133) as f64;
            let base = if r.chance(1, 2) { k / 12.0 } else { (k as u64 % 12) as f64 * 0.083333 + (k as u64 / 12) as f64 };
            let off = r.pick(&[0.0, 1e-6, -1e-6, 2e-6, -2e-6, 5e-6, -5e-6, 1e-5, -1e-5, 4e-6, -4e-6]);
            let v = (base + off) as f32;
            let ulps = r.range(0, 6) as i32 - 3;
            b(f32::from_bits((b(v) as i32 + ulps).max(0) as u32))
        }
        7 | 8 => {
            // around hysteresis edges of some note
            let k = r.below(132) as f64;
            let edge = if r.chance(1, 2) { k / 12.0 - 1.0 / 120.0 } else { (k + 1.0) / 12.0 + 1.0 / 120.0 };
            let v = edge as f32;
            let ulps = r.range(0, 8) as i32 - 4;
            b(f32::from_bits((b(v) as i32 + ulps).max(0) as u32))
        }
        9 => {
            // midpoints between notes far apart (sparse scales)
            let k = r.below(264) as f64;
            b((k / 24.0 + r.pick(&[0.0, 3e-6, -3e-6, 2e-5, -2e-5])) as f32)
        }
        _ => b((r.unit() * 10.0) as f32),
    }
}

fn note_list(r: &mut Rng) -> String {
    let k = match r.below(10) {
        0 => 0,
        1 => 12,
        2 => 11,
        _ => r.range(1, 4),
    };
    let mut v = Vec::new();
    if k >= 11 {
        let mut all: Vec<u64> = (0..12).collect();
        // random order, maybe drop one
        for i in (1..all.len()).rev() {
            let j = r.below(i as u64 + 1) as usize;
            all.swap(i, j);
        }
        all.truncate(k as usize);
        v = all;
    } else {
        for _ in 0..k {
            v.push(if r.chance(1, 12) { r.range(12, 255) } else { r.below(12) });
        }
    }
    v.iter().map(|x| x.to_string()).collect::<Vec<_>>().join(" ")
}

pub fn quant(r: &mut Rng, n: usize, out: &mut Vec<String>) {
    let mut left = n;
    while left > 0 {
        out.push("quant new".to_string());
        let seg = (r.range(5, 120) as usize).min(left);
        left -= seg.min(left);
        // start from a random scale quite often
        if r.chance(2, 3) {
            let mask = r.range(1, 4095);
            let forb: Vec<String> = (0..12).filter(|i| mask >> i & 1 == 0).map(|i| i.to_string()).collect();
            if !forb.is_empty() {
                out.push(format!("forbid {}", forb.join(" ")));
            }
        }
        let mut last = quant_input(r);
        for _ in 0..seg {
            let c = r.below(100);
            let line = if c < 60 {
                last = quant_input(r);
                format!("convert {}", last)
            } else if c < 75 {
                // same or neighbouring input again
                let v = (last as i64 + r.range(0, 4000) as i64 - 2000).max(0) as u32;
                format!("convert {}", v)
            } else if c < 87 {
                format!("forbid {}", note_list(r)).trim_end().to_string()
            } else {
                format!("allow {}", note_list(r)).trim_end().to_string()
            };
            out.push(line);
        }
    }
}

fn midi_message(r: &mut Rng, ch: u64, notes: &mut Vec<u64>, out: &mut Vec<u64>, running: &mut Option<u64>) {
    let chan = if r.chance(4, 5) { ch } else { r.below(16) };
    let kind = r.below(100);
    let (status, data): (u64, Vec<u64>) = if kind < 35 {
        let note = if !notes.is_empty() && r.chance(1, 4) { r.pick(&notes[..]) } else { let x = r.below(128); r.pick(&[60, 61, 62, 64, 0, 127, x]) };
        let vel = if r.chance(1, 6) { 0 } else { r.range(1, 127) };
        notes.push(note);
        (0x90 + chan, vec![note, vel])
    } else if kind < 60 {
        let note = if !notes.is_empty() && r.chance(3, 4) { r.pick(&notes[..]) } else { r.below(128) };
        (0x80 + chan, vec![note, r.below(128)])
    } else if kind < 78 {
        let cc = if r.chance(2, 3) { r.pick(&[1, 7, 71, 74, 5, 65, 64, 121, 123, 120, 122, 0, 127]) } else { r.below(128) };
        let x = r.below(128);
        let v = r.pick(&[0, 1, 63, 64, 65, 126, 127, x]);
        (0xB0 + chan, vec![cc, v])
    } else if kind < 86 {
        {
        let (x, y) = (r.below(128), r.below(128));
        (0xE0 + chan, vec![r.pick(&[0, 127, 1, x]), r.pick(&[0, 64, 63, 127, 65, y])])
        }
    } else if kind < 89 {
        (0xA0 + chan, vec![r.below(128), r.below(128)])
    } else if kind < 92 {
        (0xC0 + chan, vec![r.below(128)])
    } else if kind < 94 {
        (0xD0 + chan, vec![r.below(128)])
    } else if kind < 96 {
        // sysex with payload
        let k = r.range(0, 6);
        let mut d: Vec<u64> = (0..k).map(|_| r.below(128)).collect();
        d.push(0xF7);
        (0xF0, d)
    } else {
        let s = r.pick(&[0xF1, 0xF2, 0xF3, 0xF6, 0xF4, 0xF5]);
        let k = match s {
            0xF1 | 0xF3 => 1,
            0xF2 => 2,
            _ => 0,
        };
        (s, (0..k).map(|_| r.below(128)).collect())
    };
    // running status: omit the status byte sometimes when it repeats
    let omit = status < 0xF0 && *running == Some(status) && r.chance(1, 2);
    let mut bytes = Vec::new();
    if !omit {
        bytes.push(status);
    }
    bytes.extend(data);
    *running = if status < 0xF0 { Some(status) } else if status < 0xF8 { None } else { *running };
    // truncate a message now and then
    if r.chance(1, 25) && bytes.len() > 1 {
        bytes.truncate(bytes.len() - 1);
    }
    // real-time bytes at every split point, with some probability
    for (i, by) in bytes.iter().enumerate() {
        if r.chance(1, 10) {
            out.push(r.pick(&[0xF8, 0xFA, 0xFB, 0xFC, 0xFE, 0xFF, 0xF9, 0xFD]));
        }
        let _ = i;
        out.push(*by);
    }
}

pub fn midi(r: &mut Rng, n: usize, out: &mut Vec<String>) {
    let mut left = n;
    while left > 0 {
        let ch = if r.chance(1, 10) { r.range(16, 255) } else { r.below(16) };
        out.push(format!("midi new {}", ch));
        let chan = ch.min(15);
        let seg = (r.range(10, 400) as usize).min(left);
        left -= seg.min(left);
        let mut notes: Vec<u64> = Vec::new();
        let mut running = None;
        let uniform = r.chance(1, 6); // the "malformed" arm: uniform bytes
        let many_notes = r.chance(1, 8); // fill the held-note buffer
        let mut produced = 0;
        while produced < seg {
            let c = r.below(100);
            if c < 70 {
                let mut bytes = Vec::new();
                if uniform {
                    bytes.push(r.below(256));
                } else if many_notes && r.chance(2, 3) {
                    let note = r.below(128);
                    notes.push(note);
                    bytes.extend([0x90 + chan, note, r.range(1, 127)]);
                    running = Some(0x90 + chan);
                } else {
                    midi_message(r, chan, &mut notes, &mut bytes, &mut running);
                }
                for by in bytes {
                    out.push(format!("byte {}", by));
                    produced += 1;
                }
            } else if c < 80 {
                out.push("rising".to_string());
                produced += 1;
            } else if c < 90 {
                out.push("falling".to_string());
                produced += 1;
            } else if c < 95 {
                out.push(format!("retrig {}", r.below(2)));
                produced += 1;
            } else {
                out.push(format!("prio {}", r.below(3)));
                produced += 1;
            }
        }
    }
}

fn glide_time(r: &mut Rng, sr: f32) -> u32 {
    match r.below(12) {
        0 => any_f32_bits(r),
        1 => b(0.0),
        2 => b(2.0 / sr),
        3 => b(1.0 / sr),
        4 => b(10.0),
        5 => b(r.log_uniform(10.0, 1e6) as f32),
        6 => b((r.unit() * 4.0 / sr as f64) as f32),
        7 => b(r.log_uniform(1e-5, 0.2) as f32),
        8 => b(-0.0),
        _ => b(r.log_uniform(0.01, 10.0) as f32),
    }
}

pub fn glide(r: &mut Rng, n: usize, out: &mut Vec<String>) {
    let mut left = n;
    while left > 0 {
        let sr = if r.chance(1, 20) { f32::from_bits(any_f32_bits(r)) } else { sample_rate(r, 48000.0) };
        out.push(format!("glide new {}", b(sr)));
        let seg = (r.range(10, 300) as usize).min(left);
        left -= seg.min(left);
        let mut x = (r.unit() * 10.0) as f32;
        for _ in 0..seg {
            let c = r.below(100);
            if c < 18 {
                out.push(format!("time {}", glide_time(r, sr)));
            } else {
                match r.below(12) {
                    0 => x = (r.unit() * 10.0) as f32,
                    1 => x = f32::from_bits(any_f32_bits(r)),
                    2 => x = -x,
                    3 => x += (r.unit() - 0.5) as f32,
                    _ => {}
                }
                out.push(format!("proc {}", b(x)));
            }
        }
    }
}


/// sample rates for which the harness has a monomorphised controller of exactly the helper's capacity
pub fn ribbon_rates() -> Vec<(f32, usize)> {
    // every multiple of 500 Hz up to 50 kHz, the usual audio and control rates, and the extremes: whichever of them has
    // a monomorphised buffer of the capacity the crate's own helper asks for
    let mut rates: Vec<u32> = (1..=100).map(|k| k * 500).collect();
    rates.extend([
        100u32, 250, 750, 6500, 7350, 11025, 15625, 22050, 37500, 44100, 56000, 64000, 88200, 90000, 96000, 101000, 104000, 112000, 128000,
        176400, 180000, 192000,
    ]);
    rates.sort();
    rates.dedup();
    let mut v = Vec::new();
    for sr in rates {
        let cap = synth_utils::ribbon_controller::sample_rate_to_capacity(std::hint::black_box(sr));
        if RIBBON_CAPS.contains(&cap) {
            v.push((sr as f32, cap));
        }
    }
    v
}

pub fn ribbon(r: &mut Rng, n: usize, out: &mut Vec<String>) {
    let rates = ribbon_rates();
    let small: Vec<(f32, usize)> = rates.iter().copied().filter(|x| x.1 <= 800).collect();
    let mut left = n;
    while left > 0 {
        let (sr, cap) = r.pick(&small);
        let (sr, cap) = if r.chance(1, 10) { (sr, r.pick(&RIBBON_CAPS)) } else if r.chance(1, 15) { r.pick(&rates) } else { (sr, cap) };
        let (sp, dr, pu) = match r.below(6) {
            0 => (20e3f32, 820.0f32, 1e6f32),
            1 => (10e3, 1.0, 1e12),
            2 => (10e3, 10e3, 20e3),
            3 => (r.log_uniform(1e3, 1e5) as f32, r.log_uniform(1.0, 1e4) as f32, r.log_uniform(1e5, 1e7) as f32),
            4 => (f32::from_bits(any_f32_bits(r)), f32::from_bits(any_f32_bits(r)), f32::from_bits(any_f32_bits(r))),
            _ => (20e3, 820.0, 30e3),
        };
        out.push(format!("ribbon new {} {} {} {} {}", cap, b(sr), b(sp), b(dr), b(pu)));
        let boundary = 1.0 - (dr / (dr + sp));
        let need = cap + (sr as usize) / 1000 + 2;
        let seg = (r.range(need as u64 / 2, need as u64 * 4) as usize).min(left.max(10));
        left -= seg.min(left);
        let mut produced = 0;
        while produced < seg {
            // a run of in-range samples of random length, then a gap
            let run = match r.below(6) {
                0 => r.range(1, 5) as usize,
                1 => need - 1 - r.below(3) as usize,
                2 => need + r.below(3) as usize,
                3 => r.range(1, need as u64) as usize,
                _ => r.range(need as u64, need as u64 * 2) as usize,
            };
            let mut pos = (r.unit() as f32) * boundary;
            for _ in 0..run {
                match r.below(20) {
                    0 => pos = (r.unit() as f32) * boundary,
                    1 => pos = f32::from_bits(b(boundary).wrapping_sub(r.range(1, 3) as u32)),
                    2 => pos = 0.0,
                    3 => pos = -0.0,
                    _ => {}
                }
                let jitter = if r.chance(1, 2) { 0.0 } else { ((r.unit() - 0.5) * 0.01) as f32 };
                let v = (pos + jitter).max(0.0);
                let v = if v < boundary { v } else { pos };
                out.push(format!("poll {}", b(v)));
                produced += 1;
                if r.chance(1, 40) {
                    out.push(r.pick(&["jp", "jr"]).to_string());
                    produced += 1;
                }
            }
            let gap = r.pick(&[1usize, 1, 2, 5, 30]);
            for _ in 0..gap {
                let v = match r.below(5) {
                    0 => boundary,
                    1 => 1.0,
                    2 => f32::from_bits(b(boundary).wrapping_add(1)),
                    3 => f32::from_bits(any_f32_bits(r)),
                    _ => boundary + (1.0 - boundary) * r.unit() as f32,
                };
                out.push(format!("poll {}", b(v)));
                produced += 1;
            }
            if r.chance(1, 2) {
                out.push(r.pick(&["jp", "jr"]).to_string());
                produced += 1;
            }
        }
    }
}

pub fn fop(r: &mut Rng, n: usize, out: &mut Vec<String>) {
    let ops = ["add", "sub", "mul", "div", "rem", "max", "min", "lt", "le", "eq", "neg", "u32", "i16", "clamp1", "fabs"];
    for _ in 0..n {
        let op = r.pick(&ops);
        let a = any_f32_bits(r);
        let mut bb = any_f32_bits(r);
        match r.below(8) {
            0 => bb = a,
            1 => bb = a ^ 0x8000_0000,
            2 => bb = a.wrapping_add(r.range(0, 4) as u32).wrapping_sub(2),
            _ => {}
        }
        if op == "rem" && r.chance(3, 4) {
            bb = b(1.0);
        }
        // unspecified by Rust: max/min of zeros of different sign
        if (op == "max" || op == "min") && (a << 1) == 0 && (bb << 1) == 0 {
            bb = a;
        }
        out.push(format!("fop {} {} {}", op, a, bb));
    }
    for _ in 0..n / 10 {
        let v = match r.below(4) {
            0 => r.next() as u32 as u64,
            1 => r.below(1 << 25),
            2 => (1u64 << r.range(0, 32)).wrapping_sub(r.below(3)) & 0xffff_ffff,
            _ => r.below(256),
        };
        out.push(format!("fop1 fromu32 {}", v));
    }
}

pub fn misc(r: &mut Rng, n: usize, out: &mut Vec<String>) {
    for _ in 0..n {
        match r.below(6) {
            0 | 1 => out.push(format!("tp {}", adsr_time(r, 1000.0))),
            2 => out.push(format!("sl {}", level(r))),
            3 => out.push(format!("tp {}", any_f32_bits(r))),
            4 => out.push(format!("sl {}", any_f32_bits(r))),
            _ => out.push(format!("{} {}", r.pick(&["notenew", "notefrom"]), r.below(256))),
        }
    }
    for sr in [100u64, 999, 1000, 4000, 10000, 22050, 44100, 48000, 96000, 192000, 250000] {
        out.push(format!("cap {}", sr));
    }
}


// ------------------------------------------------------------------------------------------------
// targeted streams for the property oracles (in-range arguments only)

fn in_sample_rate(r: &mut Rng, hi: f64) -> f32 {
    sample_rate(r, hi)
}

/// whole envelopes with constant (or once-changed) times, short enough to run to completion
pub fn adsr_phase(r: &mut Rng, n: usize, out: &mut Vec<String>) {
    let mut left = n as i64;
    while left > 0 {
        let sr = in_sample_rate(r, 192000.0);
        out.push(format!("adsr new {}", b(sr)));
        let ticks = |r: &mut Rng| -> f32 {
            match r.below(8) {
                0 => r.range(1, 8) as f32,
                1 => (1u32 << r.range(0, 10)) as f32,
                2 => (r.unit() * 3.0) as f32 + 0.2,
                3 => r.range(1, 2000) as f32 + 0.5,
                _ => r.log_uniform(1.0, 1500.0) as f32,
            }
        };
        let (na, nd, nr) = (ticks(r), ticks(r), ticks(r));
        let clampt = |t: f32| t.max(0.001).min(20.0);
        let (ta, td, tr) = (clampt(na / sr), clampt(nd / sr), clampt(nr / sr));
        out.push(format!("set a {}", b(ta)));
        out.push(format!("set d {}", b(td)));
        out.push(format!("set r {}", b(tr)));
        out.push(format!("set s {}", level_in(r)));
        let budget = |t: f32| ((t * sr) as usize).min(6000) + 4;
        let cycles = r.range(1, 3);
        for _ in 0..cycles {
            out.push("gate_on".to_string());
            let total = budget(ta) + budget(td) + r.range(0, 6) as usize;
            let cut = if r.chance(1, 3) { r.below(total as u64) as usize } else { total };
            let change_at = if r.chance(1, 4) { Some(r.below(cut.max(1) as u64) as usize) } else { None };
            for k in 0..cut {
                if Some(k) == change_at {
                    let key = r.pick(&["a", "d", "s"]);
                    if key == "s" {
                        out.push(format!("set s {}", level_in(r)));
                    } else {
                        out.push(format!("set {} {}", key, b(clampt(ticks(r) / sr))));
                    }
                }
                out.push("tick".to_string());
            }
            if r.chance(1, 5) {
                continue; // retrigger without release
            }
            out.push("gate_off".to_string());
            let total = budget(tr) + r.range(0, 4) as usize;
            let cut = if r.chance(1, 4) { r.below(total as u64) as usize } else { total };
            for _ in 0..cut {
                out.push("tick".to_string());
            }
            left -= 1;
        }
        left -= (budget(ta) + budget(td) + budget(tr)) as i64;
    }
}

fn level_in(r: &mut Rng) -> u32 {
    match r.below(6) {
        0 => b(0.0),
        1 => b(1.0),
        2 => b(f32::from_bits(b(1.0) - 1)),
        3 => b(0.5),
        _ => b(r.unit() as f32),
    }
}

/// slow phases visited through the accumulator setter: every cell, smallest increments
pub fn adsr_slow(r: &mut Rng, n: usize, out: &mut Vec<String>) {
    let mut left = n as i64;
    while left > 0 {
        let sr = r.pick(&[192000.0f32, 48000.0, 96000.0, 44100.0]);
        out.push(format!("adsr new {}", b(sr)));
        let t = r.pick(&[20.0f32, 10.0, 5.0, 1.0]);
        for k in ["a", "d", "r"] {
            out.push(format!("set {} {}", k, b(t)));
        }
        out.push(format!("set s {}", level_in(r)));
        for _ in 0..r.range(2, 5) {
            // choose a phase: attack (gate_on), decay (force through), release
            let which = r.below(3);
            out.push("gate_on".to_string());
            out.push("tick".to_string());
            if which >= 1 {
                out.push(format!("setacc {}", (1u32 << 24) - 1));
                out.push("tick".to_string()); // -> decay
            }
            if which == 2 {
                if r.chance(1, 2) {
                    out.push(format!("setacc {}", r.below(1 << 24)));
                    out.push("tick".to_string());
                }
                out.push("gate_off".to_string());
                out.push("tick".to_string());
            }
            for _ in 0..r.range(3, 10) {
                let acc = match r.below(5) {
                    0 => ((r.range(1, 1023) << 14) - r.below(3)) as u32,
                    1 => ((r.below(1024) << 14) + 16380) as u32,
                    2 => (1u32 << 24) - 200 + r.below(150) as u32,
                    _ => r.below(1 << 24) as u32,
                };
                out.push(format!("setacc {}", acc));
                for _ in 0..r.range(2, 6) {
                    out.push("tick".to_string());
                    left -= 1;
                }
            }
        }
    }
}

/// LFO: smallest increments around every kind of position incl. the wrap, and ordinary runs through the wrap
pub fn lfo_sweep(r: &mut Rng, n: usize, out: &mut Vec<String>) {
    let mut left = n as i64;
    while left > 0 {
        let sr = in_sample_rate(r, 192000.0);
        out.push(format!("lfo new {}", b(sr)));
        for _ in 0..r.range(2, 6) {
            let f = match r.below(6) {
                0 => sr / (1u32 << 24) as f32 * r.range(1, 4) as f32,
                1 => sr / (1u32 << r.range(4, 20)) as f32,
                2 => (r.unit() as f32) * sr,
                3 => sr / 4.0,
                _ => r.log_uniform(0.01, 100.0) as f32,
            };
            out.push(format!("freq {}", b(f.min(sr))));
            let acc = match r.below(6) {
                0 => (1u32 << 24) - 1 - r.below(20) as u32,
                1 => (r.below(1024) << 14) as u32 + r.below(3) as u32,
                2 => ((r.below(1024) << 14) + 16383 - r.below(3)) as u32,
                3 => (r.pick(&[1u32 << 22, 1 << 23, 3 << 22]) as i64 + r.range(0, 6) as i64 - 3) as u32,
                4 => (1023u32 << 14) + r.below(16384) as u32,
                _ => r.below(1 << 24) as u32,
            };
            if r.chance(1, 3) {
                out.push(format!("phase {}", b(acc as f32 / 16777216.0 + r.pick(&[0.0f32, 1.0, 7.0, -3.0]))));
            } else {
                out.push(format!("setacc {}", acc));
            }
            for _ in 0..r.range(4, 40) {
                out.push("tick".to_string());
                left -= 1;
            }
        }
    }
}

/// fresh quantizers: one conversion each, all scales, boundary lattice
pub fn quant_fresh(r: &mut Rng, n: usize, out: &mut Vec<String>) {
    for _ in 0..n / 3 + 1 {
        out.push("quant new".to_string());
        let mask = match r.below(6) {
            0 => 0xfff,
            1 => 1 << r.below(12),
            2 => (1 << r.below(12)) | (1 << r.below(12)),
            _ => r.range(1, 4095),
        };
        let forb: Vec<String> = (0..12).filter(|i| mask >> i & 1 == 0).map(|i| i.to_string()).collect();
        if !forb.is_empty() {
            out.push(format!("forbid {}", forb.join(" ")));
        }
        out.push(format!("convert {}", quant_input(r)));
    }
}

/// conversion sequences on one scale: ramps, noise around boundaries, jumps; scale edits in between
pub fn quant_hyst(r: &mut Rng, n: usize, out: &mut Vec<String>) {
    let mut left = n as i64;
    while left > 0 {
        out.push("quant new".to_string());
        if r.chance(1, 2) {
            let mask = r.range(1, 4095);
            let forb: Vec<String> = (0..12).filter(|i| mask >> i & 1 == 0).map(|i| i.to_string()).collect();
            if !forb.is_empty() {
                out.push(format!("forbid {}", forb.join(" ")));
            }
        }
        for _ in 0..r.range(1, 4) {
            match r.below(4) {
                0 => {
                    // slow ramp up or down
                    let mut v = (r.unit() * 10.0) as f32;
                    let dv = (r.log_uniform(1e-4, 0.05) as f32) * if r.chance(2, 3) { 1.0 } else { -1.0 };
                    for _ in 0..r.range(10, 60) {
                        out.push(format!("convert {}", b(v)));
                        v += dv;
                        left -= 1;
                    }
                }
                1 => {
                    // noise smaller than the hysteresis around a boundary
                    let k = r.range(1, 120) as f32;
                    let amp = (r.unit() as f32) * 0.0082;
                    for _ in 0..r.range(10, 40) {
                        let v = k / 12.0 + ((r.unit() * 2.0 - 1.0) as f32) * amp;
                        out.push(format!("convert {}", b(v)));
                        left -= 1;
                    }
                }
                2 => {
                    // settle, edit the scale, convert the same input again
                    let v = quant_input(r);
                    out.push(format!("convert {}", v));
                    let op = if r.chance(2, 3) { "forbid" } else { "allow" };
                    out.push(format!("{} {}", op, note_list(r)).trim_end().to_string());
                    out.push(format!("convert {}", v));
                    out.push(format!("convert {}", v.wrapping_add(r.below(2000) as u32)));
                    left -= 3;
                }
                _ => {
                    for _ in 0..r.range(3, 12) {
                        out.push(format!("convert {}", quant_input(r)));
                        left -= 1;
                    }
                }
            }
        }
    }
}

/// step responses from a settled state for (fs, t) pairs with a manageable number of samples
pub fn glide_step(r: &mut Rng, n: usize, out: &mut Vec<String>) {
    let mut left = n as i64;
    while left > 0 {
        let sr = in_sample_rate(r, 48000.0);
        out.push(format!("glide new {}", b(sr)));
        let t = match r.below(8) {
            0 => 0.0f32,
            1 => 1.5 / sr,
            2 => r.log_uniform(10.0, 1000.0) as f32,
            3 => 10.0,
            _ => (r.log_uniform(100.0, 4000.0) as f32 / sr).min(10.0),
        };
        let nn = ((t.min(10.0) * sr) as usize).min(120_000);
        if nn > 8000 && !(sr <= 400.0) {
            continue;
        }
        out.push(format!("time {}", b(t)));
        let base = if r.chance(1, 2) { 0.0 } else { (r.unit() * 8.0 - 4.0) as f32 };
        // settle on the base level with the fastest setting, then select t again
        if base != 0.0 {
            out.push(format!("time {}", b(0.0)));
            for _ in 0..12 {
                out.push(format!("proc {}", b(base)));
            }
            out.push(format!("time {}", b(t)));
        } else {
            for _ in 0..3 {
                out.push(format!("proc {}", b(0.0)));
            }
        }
        let target = base + (r.unit() * 8.0 - 4.0) as f32 + 0.5;
        for _ in 0..nn + 12 {
            out.push(format!("proc {}", b(target)));
        }
        left -= nn as i64 + 20;
        // dead-band probes
        for _ in 0..r.range(0, 4) {
            let t2 = t + r.pick(&[0.01f32, 0.049, 0.051, -0.03, 0.2, -0.2, 3.0]);
            if t2 >= 0.0 {
                out.push(format!("time {}", b(t2)));
                out.push(format!("proc {}", b(target)));
            }
        }
        // times above 10 s (must behave like 10 s), then back
        if r.chance(1, 3) {
            let big = r.pick(&[10.06f32, 12.0, 60.0, 1.0e9, f32::MAX, f32::INFINITY]);
            out.push(format!("time {}", b(big)));
            for _ in 0..r.range(1, 6) {
                out.push(format!("proc {}", b(target + 1.0)));
            }
            out.push(format!("time {}", b(r.pick(&[0.0f32, 0.5, 9.99, 10.0, 20.0]))));
            out.push(format!("proc {}", b(target)));
            left -= 8;
        }
    }
}

/// piecewise-constant inputs with set_time switches anywhere (all in [0, 10])
pub fn glide_sched(r: &mut Rng, n: usize, out: &mut Vec<String>) {
    let mut left = n as i64;
    while left > 0 {
        let sr = in_sample_rate(r, 48000.0);
        out.push(format!("glide new {}", b(sr)));
        let mut x = (r.unit() * 10.0 - 5.0) as f32;
        for _ in 0..r.range(3, 12) {
            let t = match r.below(7) {
                0 => 0.0f32,
                1 => 2.0 / sr,
                2 => (r.unit() * 4.0) as f32 / sr,
                3 => 10.0,
                4 => (r.unit() * 10.0) as f32,
                _ => r.log_uniform(0.001, 1.0) as f32,
            };
            out.push(format!("time {}", b(t)));
            for _ in 0..r.range(1, 4) {
                match r.below(4) {
                    0 => x = (r.unit() * 10.0 - 5.0) as f32,
                    1 => x = -x,
                    _ => {}
                }
                for _ in 0..r.range(2, 30) {
                    out.push(format!("proc {}", b(x)));
                    left -= 1;
                }
            }
        }
    }
}

/// ribbon with helper-sized buffers and sensible resistors: taps, glitches, multi-level presses
pub fn ribbon_taps(r: &mut Rng, n: usize, out: &mut Vec<String>) {
    let all = ribbon_rates();
    let small: Vec<(f32, usize)> = all.iter().copied().filter(|x| x.1 <= 300).collect();
    let mid: Vec<(f32, usize)> = all.iter().copied().filter(|x| x.1 <= 800).collect();
    let mut left = n as i64;
    while left > 0 {
        let (sr, cap) = if r.chance(1, 6) { r.pick(&mid) } else { r.pick(&small) };
        let edge_case = r.chance(1, 10);
        let (sr, cap) = if edge_case { (192000.0f32, 3265usize) } else { (sr, cap) };
        let (sp, dr, pu) = match if edge_case { 9 } else { r.below(4) } {
            9 => (10e3f32, 1.0f32, 1e12f32),
            0 => (20e3f32, 820.0f32, 1e6f32),
            1 => (10e3, 100.0, 10.1e3),
            2 => (r.log_uniform(5e3, 1e5) as f32, r.log_uniform(10.0, 2e3) as f32, r.log_uniform(2e5, 1e7) as f32),
            _ => (20e3, 820.0, 30e3),
        };
        out.push(format!("ribbon new {} {} {} {} {}", cap, b(sr), b(sp), b(dr), b(pu)));
        let boundary = 1.0 - (dr / (dr + sp));
        let need = cap + (sr as usize) / 1000;
        if edge_case {
            // a whole press one ulp under the in-range boundary: the rescaled average must still not exceed 1.0
            let x = f32::from_bits(b(boundary) - 1);
            for _ in 0..need + 3 {
                out.push(format!("poll {}", b(x)));
            }
            out.push(format!("poll {}", b(1.0)));
            left -= need as i64;
            continue;
        }
        for _ in 0..r.range(3, 9) {
            let run = match r.below(7) {
                0 => 1,
                1 => r.range(1, 6) as usize,
                2 => need - 1,
                3 => need,
                4 => need + 1,
                5 => r.range(1, need as u64) as usize,
                _ => need + r.range(1, need as u64) as usize,
            };
            let mut pos = (r.unit() as f32) * boundary * 0.98;
            let ramp = if r.chance(1, 3) { ((r.unit() - 0.5) as f32) * 0.5 / need as f32 } else { 0.0 };
            for k in 0..run {
                if r.chance(1, 60) {
                    pos = (r.unit() as f32) * boundary * 0.98;
                }
                pos = (pos + ramp).max(0.0).min(boundary * 0.999);
                let _ = k;
                out.push(format!("poll {}", b(pos)));
                left -= 1;
                if r.chance(1, 50) {
                    out.push(r.pick(&["jp", "jr"]).to_string());
                }
            }
            for _ in 0..r.pick(&[1usize, 1, 1, 2, 3, 25]) {
                out.push(format!("poll {}", b(r.pick(&[1.0f32, 0.99, boundary, boundary + 0.001]))));
                left -= 1;
            }
            if r.chance(2, 3) {
                out.push("jp".to_string());
                out.push("jr".to_string());
                if r.chance(1, 3) {
                    out.push("jr".to_string());
                    out.push("jp".to_string());
                }
            }
        }
    }
}

/// note traffic on the listened channel with polls and mode switches
pub fn midi_notes(r: &mut Rng, n: usize, out: &mut Vec<String>) {
    let mut left = n as i64;
    while left > 0 {
        let ch = r.below(16);
        out.push(format!("midi new {}", ch));
        let mut held: Vec<u64> = Vec::new();
        let few = r.chance(2, 3);
        if r.chance(1, 8) {
            // more than 32 keys down, polled in between, in either retrigger mode
            out.push(format!("retrig {}", r.below(2)));
            let base = r.below(60);
            for k in 0..r.range(30, 44) {
                for by in [0x90 + ch, base + k, r.range(1, 127)] {
                    out.push(format!("byte {}", by));
                }
                if r.chance(1, 2) {
                    out.push("rising".to_string());
                }
                if r.chance(1, 6) {
                    out.push("falling".to_string());
                }
                if r.chance(1, 10) {
                    out.push(format!("retrig {}", r.below(2)));
                }
                held.push(base + k);
                left -= 4;
            }
        }
        for _ in 0..r.range(10, 150) {
            let c = r.below(100);
            let mut bytes: Vec<u64> = Vec::new();
            if c < 35 {
                let note = if few { r.range(58, 66) } else { r.below(128) };
                if held.len() < 30 || r.chance(1, 20) {
                    held.push(note);
                    bytes.extend([0x90 + ch, note, r.range(1, 127)]);
                }
            } else if c < 60 {
                let note = if !held.is_empty() && r.chance(5, 6) { r.pick(&held[..]) } else { r.range(56, 70) };
                held.retain(|x| *x != note);
                if r.chance(1, 2) {
                    bytes.extend([0x80 + ch, note, r.below(128)]);
                } else {
                    bytes.extend([0x90 + ch, note, 0]);
                }
            } else if c < 65 {
                held.clear();
                bytes.extend([0xB0 + ch, 123, 0]);
            } else if c < 70 {
                bytes.extend([0x90 + (ch + 1) % 16, r.below(128), r.below(128)]);
            } else if c < 80 {
                out.push("rising".to_string());
            } else if c < 90 {
                out.push("falling".to_string());
            } else if c < 95 {
                out.push(format!("retrig {}", r.below(2)));
            } else {
                out.push(format!("prio {}", r.below(3)));
            }
            for by in bytes {
                if r.chance(1, 12) {
                    out.push(format!("byte {}", r.pick(&[0xF8u64, 0xFE, 0xFA])));
                }
                out.push(format!("byte {}", by));
                left -= 1;
            }
            left -= 1;
        }
    }
}

/// controllers and pitch bend
pub fn midi_cc(r: &mut Rng, n: usize, out: &mut Vec<String>) {
    let mut left = n as i64;
    while left > 0 {
        let ch = r.below(16);
        out.push(format!("midi new {}", ch));
        for _ in 0..r.range(10, 120) {
            let chan = if r.chance(5, 6) { ch } else { r.below(16) };
            let bytes: Vec<u64> = match r.below(10) {
                0 | 1 | 2 | 3 => {
                    let x = r.below(128);
                    let cc = r.pick(&[1, 7, 71, 74, 5, 65, 64, 121, 123, 0, 2, 6, 8, 63, 66, 70, 72, 73, 75, 120, 122, x]);
                    let y = r.below(128);
                    vec![0xB0 + chan, cc, r.pick(&[0, 1, 63, 64, 65, 126, 127, y])]
                }
                4 | 5 | 6 => {
                    let (x, y) = (r.below(128), r.below(128));
                    vec![0xE0 + chan, r.pick(&[0, 1, 127, x]), r.pick(&[0, 63, 64, 65, 127, y])]
                }
                7 => vec![0x90 + chan, r.below(128), r.below(128)],
                8 => vec![0xB0 + chan, 121, r.below(128)],
                _ => vec![r.below(256)],
            };
            for by in bytes {
                out.push(format!("byte {}", by));
                left -= 1;
            }
        }
    }
}

/// exhaustive finite domains (thorough tier)
pub fn midi_cc_all(ch: u64, out: &mut Vec<String>) {
    out.push(format!("midi new {}", ch));
    out.push(format!("byte {}", 0xB0 + ch));
    for cc in 0..128u64 {
        for v in 0..128u64 {
            // All-Notes-Off / reset interleaved by the sweep itself (cc 121, 123)
            out.push(format!("byte {}", cc));
            out.push(format!("byte {}", v));
        }
    }
    out.push(format!("byte {}", 0xE0 + ch));
    for v in 0..16384u64 {
        out.push(format!("byte {}", v % 128));
        out.push(format!("byte {}", v / 128));
    }
}

pub fn misc_all(out: &mut Vec<String>) {
    for n in 0..256 {
        out.push(format!("notenew {}", n));
        out.push(format!("notefrom {}", n));
    }
    for c in 0..256 {
        out.push(format!("midi new {}", c));
    }
    for s in SPECIALS {
        out.push(format!("tp {}", s));
        out.push(format!("sl {}", s));
    }
    // every binade boundary and the clamp bounds +- a few ulps
    for e in 0..256u32 {
        for m in [0u32, 1, 0x7f_ffff] {
            for sgn in [0u32, 1] {
                let bits = (sgn << 31) | (e << 23) | m;
                out.push(format!("tp {}", bits));
                out.push(format!("sl {}", bits));
            }
        }
    }
    for base in [b(0.001), b(20.0), b(0.0), b(1.0)] {
        for d in 0..8u32 {
            out.push(format!("tp {}", base.wrapping_add(d).wrapping_sub(4)));
            out.push(format!("sl {}", base.wrapping_add(d).wrapping_sub(4)));
        }
    }
}

/// in-range streams for C17 (documented ranges only; any PANIC is a violation)
pub fn adsr_in(r: &mut Rng, n: usize, out: &mut Vec<String>) {
    let mut left = n;
    while left > 0 {
        let sr = match r.below(4) {
            0 => 100.0,
            1 => 192000.0,
            _ => in_sample_rate(r, 192000.0),
        };
        out.push(format!("adsr new {}", b(sr)));
        let seg = (r.range(20, 300) as usize).min(left);
        left -= seg;
        for _ in 0..seg {
            let c = r.below(100);
            let finite = |r: &mut Rng| loop {
                let x = any_f32_bits(r);
                if f32::from_bits(x).is_finite() {
                    return x;
                }
            };
            out.push(if c < 55 {
                "tick".to_string()
            } else if c < 65 {
                "gate_on".to_string()
            } else if c < 72 {
                "gate_off".to_string()
            } else if c < 90 {
                format!("set {} {}", r.pick(&["a", "d", "r", "s"]), finite(r))
            } else {
                format!("set {} {}", r.pick(&["a", "d", "r"]), adsr_time(r, sr))
            });
        }
    }
}

pub fn lfo_in(r: &mut Rng, n: usize, out: &mut Vec<String>) {
    let mut left = n;
    while left > 0 {
        let sr = match r.below(4) {
            0 => 100.0,
            1 => 192000.0,
            _ => in_sample_rate(r, 192000.0),
        };
        out.push(format!("lfo new {}", b(sr)));
        let seg = (r.range(20, 300) as usize).min(left);
        left -= seg;
        for _ in 0..seg {
            let c = r.below(100);
            out.push(if c < 50 {
                "tick".to_string()
            } else if c < 70 {
                let f = match r.below(5) {
                    0 => 0.0,
                    1 => sr,
                    2 => f32::from_bits(r.below(1 << 23) as u32),
                    _ => (r.unit() as f32) * sr,
                };
                format!("freq {}", b(f.min(sr)))
            } else if c < 75 {
                "reset".to_string()
            } else {
                let p = loop {
                    let x = any_f32_bits(r);
                    if f32::from_bits(x).is_finite() {
                        break x;
                    }
                };
                format!("phase {}", p)
            });
        }
    }
}

pub fn glide_in(r: &mut Rng, n: usize, out: &mut Vec<String>) {
    let mut left = n;
    while left > 0 {
        let sr = match r.below(4) {
            0 => 100.0,
            1 => 48000.0,
            _ => in_sample_rate(r, 48000.0),
        };
        out.push(format!("glide new {}", b(sr)));
        let seg = (r.range(10, 200) as usize).min(left);
        left -= seg;
        for _ in 0..seg {
            if r.chance(1, 4) {
                let t = match r.below(6) {
                    0 => 0.0f32,
                    1 => f32::from_bits(r.below(0x7f80_0000) as u32), // any non-negative finite
                    2 => f32::MAX,
                    3 => f32::from_bits(1),
                    _ => r.log_uniform(1e-6, 100.0) as f32,
                };
                out.push(format!("time {}", b(t)));
            } else {
                out.push(format!("proc {}", b((r.unit() * 20.0 - 10.0) as f32)));
            }
        }
    }
}

pub fn ribbon_in(r: &mut Rng, n: usize, out: &mut Vec<String>) {
    let rates = ribbon_rates();
    let mut left = n as i64;
    while left > 0 {
        let (sr, cap) = r.pick(&rates);
        let (sp, dr, pu) = match r.below(3) {
            0 => (20e3f32, 820.0f32, 1e6f32),
            1 => (10e3, 1.0, 1e12),
            _ => (r.log_uniform(1e3, 1e5) as f32, r.log_uniform(1.0, 1e4) as f32, r.log_uniform(1e5, 1e7) as f32),
        };
        out.push(format!("ribbon new {} {} {} {} {}", cap, b(sr), b(sp), b(dr), b(pu)));
        let seg = cap * 3 + 50;
        let mut x = r.unit() as f32;
        for _ in 0..seg {
            match r.below(30) {
                0 => x = r.unit() as f32,
                1 => x = 1.0,
                2 => x = 0.0,
                3 => x = f32::from_bits(r.below(b(1.0) as u64 + 1) as u32),
                _ => {}
            }
            out.push(format!("poll {}", b(x)));
            if r.chance(1, 30) {
                out.push(r.pick(&["jp", "jr"]).to_string());
            }
        }
        left -= seg as i64;
    }
}

pub fn quant_any(r: &mut Rng, n: usize, out: &mut Vec<String>) {
    let mut left = n;
    while left > 0 {
        out.push("quant new".to_string());
        let seg = (r.range(5, 80) as usize).min(left);
        left -= seg;
        for _ in 0..seg {
            let c = r.below(100);
            out.push(if c < 70 {
                format!("convert {}", if r.chance(1, 2) { any_f32_bits(r) } else { quant_input(r) })
            } else if c < 85 {
                let l = note_list(r);
                if l.is_empty() { "convert 0".to_string() } else { format!("forbid {}", l) }
            } else {
                format!("allow {}", note_list(r)).trim_end().to_string()
            });
        }
    }
}

pub fn midi_bytes(r: &mut Rng, n: usize, out: &mut Vec<String>) {
    let mut left = n;
    while left > 0 {
        let listen = r.below(256);
        out.push(format!("midi new {}", listen));
        let seg = (r.range(50, 600) as usize).min(left);
        left -= seg;
        let biased = r.chance(1, 2);
        if r.chance(1, 5) {
            // more note-ons than the held-note buffer takes, in running status on some channel
            let ch = if r.chance(3, 4) { listen.min(15) } else { r.below(16) };
            out.push(format!("byte {}", 0x90 + ch));
            for _ in 0..r.range(33, 60) {
                out.push(format!("byte {}", r.below(128)));
                out.push(format!("byte {}", r.range(1, 127)));
            }
        }
        for _ in 0..seg {
            let by = if biased && r.chance(1, 3) { r.range(0x80, 0xFF) } else { r.below(256) };
            out.push(format!("byte {}", by));
            if r.chance(1, 20) {
                out.push(r.pick(&["rising", "falling"]).to_string());
            }
        }
    }
}

// ---------------------------------------------------------------------------------------------------
// "fine" streams: thin slices of the input space that uniform generation practically never reaches -- exact equalities
// between parameters, exact ratios, values from tiny pools repeated verbatim, state parked next to special positions,
// long runs that make counters wrap, chained small changes.  They exist because seeded changes of the "needle in a
// haystack" kind (DESIGN.md §12.6, round 3) showed what the broad streams miss.

/// LFO: tiny frequencies and frequency changes, frequency == sample rate, exact power-of-two ratios run to the special
/// counter values, slow crossings of the half/quarter points, the peaks and the wrap
/// an in-range LFO frequency (0 ..= sample rate) and a finite phase, for streams that also serve the no-panic property
fn lfo_freq_in(r: &mut Rng, sr: f32) -> u32 {
    let f = match r.below(6) {
        0 => 0.0,
        1 => sr,
        2 => sr / (1u32 << r.range(1, 23)) as f32,
        3 => r.log_uniform(1e-3, sr as f64) as f32,
        _ => r.log_uniform(0.01, 50.0) as f32,
    };
    b(f.min(sr))
}
fn lfo_phase_fin(r: &mut Rng) -> u32 {
    loop {
        let x = lfo_phase(r);
        if f32::from_bits(x).is_finite() {
            return x;
        }
    }
}

pub fn lfo_fine(r: &mut Rng, n: usize, out: &mut Vec<String>) {
    let mut left = n as i64;
    while left > 0 {
        let sr = r.pick(&[100.0f32, 1000.0, 1024.0, 12000.0, 16384.0, 44100.0, 48000.0, 65536.0, 96000.0, 192000.0]);
        out.push(format!("lfo new {}", b(sr)));
        match r.below(9) {
            8 => {
                // the phase loaded to exactly k steps of the current rate (k small), then a re-tune before any tick:
                // the phase counter then equals a multiple of the increment, a coincidence ordinary phases never produce
                let f = r.log_uniform(0.05, sr as f64 / 300.0) as f32;
                out.push(format!("freq {}", b(f)));
                let k = r.pick(&[1.0f32, 1.0, 2.0, 3.0]);
                out.push(format!("phase {}", b(k * f / sr)));
                if r.chance(1, 3) {
                    out.push("tick".into());
                }
                out.push(format!("freq {}", lfo_freq_in(r, sr)));
                for _ in 0..r.range(1, 6) {
                    out.push("tick".into());
                }
                left -= 10;
            }
            0 => {
                // a frequency, then nearly the same frequency
                let f = r.log_uniform(0.01, 50.0) as f32;
                out.push(format!("freq {}", b(f)));
                for _ in 0..r.range(2, 20) {
                    out.push("tick".into());
                }
                let d = r.pick(&[1e-6f32, 1e-5, 5e-5, 1e-4, 2e-4, 1e-3, -1e-5, -1e-4]);
                out.push(format!("freq {}", b(f + d)));
                for _ in 0..r.range(2, 40) {
                    out.push("tick".into());
                }
                left -= 60;
            }
            1 => {
                // stop a running oscillator
                out.push(format!("freq {}", lfo_freq_in(r, sr)));
                for _ in 0..r.range(1, 10) {
                    out.push("tick".into());
                }
                out.push(format!("freq {}", b(r.pick(&[0.0f32, -0.0, f32::from_bits(1), 1e-30]))));
                for _ in 0..r.range(2, 10) {
                    out.push("tick".into());
                }
                left -= 22;
            }
            2 => {
                // frequency exactly the sample rate (and its neighbours), from a non-zero phase
                out.push(format!("phase {}", lfo_phase_fin(r)));
                let f = r.pick(&[sr, f32::from_bits(b(sr) - 1), sr * 0.75, sr / 2.0, sr / 4.0]);
                out.push(format!("freq {}", b(f)));
                for _ in 0..r.range(2, 12) {
                    out.push("tick".into());
                }
                left -= 14;
            }
            3 => {
                // below one count per tick
                let f = (sr as f64 / 16777216.0) * r.pick(&[0.1f64, 0.5, 0.9, 0.999, 1.0, 1.001, 1.5]);
                out.push(format!("freq {}", b(f as f32)));
                if r.chance(1, 2) {
                    out.push(format!("setacc {}", r.pick(&[0u32, 1 << 23, (1 << 24) - 1, 1 << 22])));
                }
                for _ in 0..r.range(2, 10) {
                    out.push("tick".into());
                }
                left -= 12;
            }
            4 | 5 => {
                // park next to a special position, cross it slowly
                let special = r.pick(&[
                    1u32 << 23,
                    1 << 22,
                    3 << 22,
                    0,
                    255 << 14,
                    256 << 14,
                    767 << 14,
                    768 << 14,
                    512 << 14,
                    1023 << 14,
                    511 << 14,
                ]);
                let inc = r.range(1, 40) as u32;
                let back = inc * r.range(1, 6) as u32 + r.below(inc as u64) as u32;
                let start = special.wrapping_sub(back) & 0xFF_FFFF;
                out.push(format!("freq {}", b((sr as f64 * inc as f64 / 16777216.0) as f32)));
                out.push(format!("setacc {}", start));
                for _ in 0..r.range(8, 16) {
                    out.push("tick".into());
                }
                left -= 20;
            }
            6 => {
                // exact power-of-two ratio from reset: lands exactly on 2^23 and on the wrap
                let k = r.range(1, 11) as u32;
                out.push(format!("freq {}", b(sr / (1u32 << k) as f32)));
                if r.chance(1, 2) {
                    out.push("reset".into());
                }
                for _ in 0..((1u32 << k) + 2) {
                    out.push("tick".into());
                }
                left -= (1i64 << k) + 4;
            }
            _ => {
                // the phases next to a whole cycle
                let p = r.pick(&[0.99999994f32, -0.99999994, 0.9999999, 0.50000006, 0.49999997, 0.25, 0.75, 1.0, -1.0, 0.99999988]);
                out.push(format!("phase {}", b(p)));
                out.push(format!("freq {}", lfo_freq_in(r, sr)));
                for _ in 0..r.range(1, 4) {
                    out.push("tick".into());
                }
                left -= 6;
            }
        }
    }
}

/// ADSR: sub-sample phases at low rates with exact products, the longest phases at the highest rates (parked near their
/// end), parameters that are bit-equal to one another, changes of the running phase's time in mid-phase
pub fn adsr_fine(r: &mut Rng, n: usize, out: &mut Vec<String>) {
    let mut left = n as i64;
    // one steady pattern per call: a sequencer repeating the same note (same on/off tick counts) over a slow envelope, long
    // enough for the levels at the gate events to settle into a cycle -- every tick is compared
    if n >= 4000 {
        let sr = r.pick(&[1000.0f32, 1000.0, 8000.0, 48000.0]);
        out.push(format!("adsr new {}", b(sr)));
        let len = r.pick(&[500.0f32, 1000.0, 2000.0, 4000.0]); // ticks per timed phase
        let t = len / sr;
        for key in ["a", "d", "r"] {
            let tt = if r.chance(2, 3) { t } else { t * r.pick(&[0.5f32, 2.0]) };
            out.push(format!("set {} {}", key, b(tt)));
        }
        out.push(format!("set s {}", level(r)));
        let on = r.pick(&[700usize, 400, 311, 97, 250, 650]).min(len as usize);
        let off = r.pick(&[700usize, 650, 97, 311, 120]).min(len as usize);
        let budget = (n / 2).min(16000);
        let reps = (budget / (on + off)).clamp(4, 40);
        for _ in 0..reps {
            out.push("gate_on".into());
            for _ in 0..on {
                out.push("tick".into());
            }
            out.push("gate_off".into());
            for _ in 0..off {
                out.push("tick".into());
            }
        }
        left -= (reps * (on + off + 2)) as i64;
    }
    while left > 0 {
        match r.below(5) {
            0 | 1 => {
                // time * rate = 1/k exactly, or just a bit off; low rates
                let sr = r.pick(&[100.0f32, 125.0, 128.0, 200.0, 240.0, 250.0, 256.0, 400.0, 450.0, 500.0, 512.0, 800.0, 999.0, 1000.0]);
                out.push(format!("adsr new {}", b(sr)));
                let k = r.pick(&[1.0f32, 2.0, 3.0, 4.0, 5.0, 8.0, 10.0]);
                let t = 1.0 / (k * sr);
                let t = r.pick(&[t, t * 0.999, t * 1.001, 0.001, 0.0019, 0.0099]);
                for key in ["a", "d", "r"] {
                    if r.chance(2, 3) {
                        out.push(format!("set {} {}", key, b(t)));
                    }
                }
                out.push(format!("set s {}", level(r)));
                out.push("gate_on".into());
                for _ in 0..r.range(3, 12) {
                    out.push("tick".into());
                }
                out.push("gate_off".into());
                for _ in 0..r.range(3, 12) {
                    out.push("tick".into());
                }
                left -= 30;
            }
            2 => {
                // the slowest phases: increment 4 or 5; parked near the end so the phase end is seen
                let sr = r.pick(&[192000.0f32, 176400.0, 180000.0, 168000.0, 96000.0]);
                out.push(format!("adsr new {}", b(sr)));
                let t = r.pick(&[20.0f32, 19.0, 18.0, 17.5, 17.0, 25.0]);
                for key in ["a", "d", "r"] {
                    out.push(format!("set {} {}", key, b(t)));
                }
                out.push("gate_on".into());
                out.push("tick".into());
                let back = r.range(1, 40) as u32;
                out.push(format!("setacc {}", (1u32 << 24) - back));
                for _ in 0..12 {
                    out.push("tick".into());
                }
                left -= 20;
            }
            _ => {
                // bit-equal parameters, and a time changed in mid-phase to the value of another parameter
                let sr = r.pick(&[1000.0f32, 8000.0, 48000.0]);
                out.push(format!("adsr new {}", b(sr)));
                let pool: Vec<f32> = vec![0.05, 2.0, r.log_uniform(0.002, 0.5) as f32];
                for key in ["a", "d", "r"] {
                    out.push(format!("set {} {}", key, b(r.pick(&pool))));
                }
                out.push(format!("set s {}", b(0.5)));
                out.push("gate_on".into());
                for _ in 0..r.range(1, 30) {
                    out.push("tick".into());
                }
                if r.chance(1, 2) {
                    out.push("gate_off".into());
                    for _ in 0..r.range(1, 10) {
                        out.push("tick".into());
                    }
                }
                let key = r.pick(&["a", "d", "r"]);
                let newv = r.pick(&pool);
                out.push(format!("set {} {}", key, b(newv)));
                for _ in 0..r.range(5, 20) {
                    out.push("tick".into());
                }
                // the same parameter written again with a value next to the one in effect (pot jitter): an ulp, a few ulps,
                // a fraction of a percent
                for _ in 0..r.range(1, 4) {
                    let near = match r.below(5) {
                        0 => f32::from_bits(newv.to_bits() + 1),
                        1 => f32::from_bits(newv.to_bits() - r.range(1, 40) as u32),
                        2 => newv * (1.0 + r.pick(&[9e-5f32, -9e-5, 2e-5, 5e-4, -5e-4])),
                        3 => newv * r.pick(&[1.001f32, 0.999, 1.01]),
                        _ => newv,
                    };
                    for k in ["a", "d", "r"] {
                        if k == key || r.chance(1, 3) {
                            out.push(format!("set {} {}", k, b(near)));
                        }
                    }
                    for _ in 0..r.range(1, 30) {
                        out.push("tick".into());
                    }
                }
                for _ in 0..r.range(20, 120) {
                    out.push("tick".into());
                }
                left -= 220;
            }
        }
    }
}

/// MIDI: tiny value pools with verbatim repeats, controller sandwiches around Reset-All-Controllers, every controller
/// number with value 0, unterminated SysEx before each status byte, foreign-channel echoes of held notes, exactly 32 and
/// 33 keys, long runs of real-time bytes
pub fn midi_fine(r: &mut Rng, n: usize, out: &mut Vec<String>) {
    let mut left = n as i64;
    let mut long_done = false;
    while left > 0 {
        let ch = r.pick(&[0u64, 1, 9, 14, 15, 15, 16, 200]);
        out.push(format!("midi new {}", ch));
        let c = ch.min(15);
        let notes = [0u64, 1, 60, 61, 127];
        let vels = [1u64, 64, 127];
        let bends = [(0u64, 0u64), (0, 64), (127, 127), (82, 9), (1, 64), (127, 63)];
        let mut emit = |out: &mut Vec<String>, bytes: &[u64]| {
            for by in bytes {
                out.push(format!("byte {}", by));
            }
        };
        out.push(format!("retrig {}", r.below(2)));
        out.push(format!("prio {}", r.below(3)));
        match r.below(8) {
            0 => {
                // pools + verbatim repeats of note messages, polled in between
                for _ in 0..r.range(10, 60) {
                    let note = r.pick(&notes);
                    let vel = r.pick(&vels);
                    let msg: Vec<u64> = match r.below(6) {
                        0 | 1 | 2 => vec![0x90 + c, note, vel],
                        3 => vec![0x80 + c, note, 0],
                        4 => vec![0x90 + c, note, 0],
                        _ => vec![0x90 + (c + 1) % 16, note, r.pick(&[0u64, 64])],
                    };
                    emit(out, &msg);
                    if r.chance(1, 3) {
                        emit(out, &msg);
                    }
                    match r.below(6) {
                        0 => out.push("rising".into()),
                        1 => out.push("falling".into()),
                        2 => out.push(format!("prio {}", r.below(3))),
                        3 => out.push(format!("retrig {}", r.below(2))),
                        _ => {}
                    }
                }
                left -= 200;
            }
            1 => {
                // controller / bend sandwiches around CC 121
                for _ in 0..r.range(3, 12) {
                    let (l, m) = r.pick(&bends);
                    let bend = vec![0xE0 + c, l, m];
                    let cc_no = r.pick(&[1u64, 7, 71, 74, 5, 64, 65]);
                    let cc = vec![0xB0 + c, cc_no, r.pick(&[0u64, 63, 64, 127])];
                    let reset = vec![0xB0 + c, 121, r.pick(&[0u64, 0, 1, 127])];
                    let seq: Vec<&Vec<u64>> = match r.below(5) {
                        0 => vec![&bend, &reset, &bend],
                        1 => vec![&reset, &bend, &reset],
                        2 => vec![&bend, &cc, &reset],
                        3 => vec![&cc, &reset, &cc],
                        _ => vec![&cc, &bend, &reset, &bend, &cc],
                    };
                    for m in seq {
                        emit(out, m);
                    }
                }
                left -= 100;
            }
            2 => {
                // every controller number with a few values while a note is held, polled after each
                emit(out, &[0x90 + c, 60, 100]);
                out.push("rising".into());
                for cc in 0..128u64 {
                    let v = r.pick(&[0u64, 0, 1, 64, 127]);
                    emit(out, &[0xB0 + c, cc, v]);
                    if cc >= 120 || r.chance(1, 8) {
                        out.push("falling".into());
                        out.push("rising".into());
                        emit(out, &[0x90 + c, 60, 100]);
                        out.push("rising".into());
                    }
                }
                left -= 600;
            }
            3 => {
                // an unterminated SysEx, then some status byte and its data, in running status too
                for _ in 0..r.range(2, 8) {
                    emit(out, &[0xF0, r.below(128), r.below(128)]);
                    let st = r.pick(&[0x80u64, 0x90, 0xB0, 0xE0]) + r.pick(&[c, 0, 15, (c + 1) % 16]);
                    let (d1, d2) = (r.pick(&[0u64, 60, 64, 127]), r.pick(&[0u64, 1, 64, 127]));
                    emit(out, &[st, d1, d2]);
                    if r.chance(1, 2) {
                        emit(out, &[r.pick(&[0u64, 60, 127]), r.pick(&[0u64, 64, 127])]);
                    }
                    if r.chance(1, 2) {
                        emit(out, &[r.pick(&[0xF7u64, 0xF6, 0xF1, 0xF8])]);
                    }
                }
                left -= 60;
            }
            4 => {
                // exactly 31, 32, 33 keys; the 33rd new or already held; then everything released one by one
                let k = r.pick(&[31u64, 32, 32, 33, 34]);
                let base = r.pick(&[0u64, 20, 60, 90]);
                for i in 0..k {
                    emit(out, &[0x90 + c, (base + i) % 128, r.pick(&vels)]);
                    if r.chance(1, 4) {
                        out.push("rising".into());
                    }
                }
                if r.chance(1, 2) {
                    emit(out, &[0x90 + c, base % 128, 64]);
                }
                let upto = if r.chance(1, 2) { k } else { 32 };
                for i in 0..upto {
                    emit(out, &[0x80 + c, (base + i) % 128, 0]);
                    if r.chance(1, 6) {
                        out.push("falling".into());
                    }
                }
                emit(out, &[0x90 + c, r.pick(&notes), 64]);
                out.push("rising".into());
                out.push("falling".into());
                left -= 250;
            }
            5 if !long_done && n >= 50_000 => {
                // a long run of real-time bytes, also in the middle of a message
                long_done = true;
                emit(out, &[0x90 + c, 60]);
                for _ in 0..65_600 {
                    out.push("byte 248".into());
                }
                emit(out, &[100]);
                out.push("rising".into());
                left -= 65_700;
            }
            _ => {
                // foreign-channel echoes of what is held
                emit(out, &[0x90 + c, 60, 100, 0x90 + c, 64, 100]);
                for _ in 0..r.range(3, 12) {
                    let other = (c + r.range(1, 15)) % 16;
                    let msg = match r.below(4) {
                        0 => vec![0x90 + other, r.pick(&[60u64, 64]), 0],
                        1 => vec![0x80 + other, r.pick(&[60u64, 64]), 64],
                        2 => vec![0xB0 + other, r.pick(&[123u64, 121, 120]), 0],
                        _ => vec![0xE0 + other, 0, 0],
                    };
                    emit(out, &msg);
                    out.push("falling".into());
                }
                left -= 60;
            }
        }
    }
}

/// quantizer: long runs of scale edits between two conversions of the same input, raw note numbers above 11, scales built
/// by allow vs by forbid, inputs next to integer volts, the top of the range, the first conversion after an edit
pub fn quant_fine(r: &mut Rng, n: usize, out: &mut Vec<String>) {
    let mut left = n as i64;
    while left > 0 {
        out.push("quant new".to_string());
        match r.below(10) {
            8 => {
                // full swings inside the widened window of one note: alternately just under its upper edge and just over its
                // lower edge, k times, then a probe a little outside the plain bucket on either side
                let note = r.range(1, 118) as f32;
                let ss = note / 12.0;
                let (w, h) = (1.0f32 / 12.0, 1.0f32 / 120.0);
                out.push(format!("convert {}", b(ss + 0.5 * w)));
                let k = r.pick(&[1u64, 2, 3, 7, 14, 15, 16, 17, 31, 40]);
                for _ in 0..k {
                    out.push(format!("convert {}", b(ss + w + h * r.pick(&[0.2f32, 0.5, 0.9]))));
                    out.push(format!("convert {}", b(ss - h * r.pick(&[0.2f32, 0.5, 0.9]))));
                }
                let d = r.pick(&[1.05f32, 1.15, 1.3, 1.9, -0.05, -0.15, -0.3, -0.9]) * w;
                out.push(format!("convert {}", b(ss + d)));
                out.push(format!("convert {}", b(ss + d)));
                left -= 2 * k as i64 + 4;
            }
            9 => {
                // forbid a whole scale of k notes in one call whose list ends with a note outside the scale (the rescue of
                // the "cannot forbid everything" rule then brings in an outsider), then rebuild a scale around it
                let k = r.range(1, 8) as usize;
                let mut notes: Vec<u64> = (0..12).collect();
                for i in 0..12 {
                    let j = r.range(i as u64, 11) as usize;
                    notes.swap(i, j);
                }
                let scale: Vec<u64> = notes[..k].to_vec();
                let outsider = notes[k];
                let others: Vec<String> = notes[k..].iter().map(|x| x.to_string()).collect();
                out.push(format!("forbid {}", others.join(" ")));
                let mut list: Vec<String> = scale.iter().map(|x| x.to_string()).collect();
                list.push(outsider.to_string());
                out.push(format!("forbid {}", list.join(" ")));
                out.push(format!("convert {}", quant_input(r)));
                let back: Vec<String> = (0..r.range(1, 3)).map(|_| r.below(12).to_string()).collect();
                out.push(format!("allow {}", back.join(" ")));
                if r.chance(1, 2) {
                    out.push(format!("forbid {}", outsider));
                }
                for _ in 0..4 {
                    out.push(format!("convert {}", quant_input(r)));
                }
                left -= 10;
            }
            0 => {
                // k edits between two conversions of the same input
                let v = quant_input(r);
                out.push(format!("convert {}", v));
                let k = r.pick(&[1u64, 2, 3, 254, 255, 256, 257, 512]);
                for i in 0..k {
                    let note = if i + 1 == k { r.below(12) } else { r.below(12) };
                    out.push(format!("{} {}", if i % 2 == 0 { "forbid" } else { "allow" }, note));
                }
                if r.chance(1, 2) {
                    out.push(format!("forbid {}", r.below(12)));
                }
                out.push(format!("convert {}", v));
                out.push(format!("convert {}", v));
                left -= k as i64 + 4;
            }
            1 => {
                // raw note numbers, then empty the scale
                out.push(format!("allow {}", r.pick(&[12u64, 13, 15, 16, 255, 11])));
                let mut all: Vec<u64> = (0..12).collect();
                if r.chance(1, 2) {
                    all.reverse();
                }
                out.push(format!("forbid {}", all.iter().map(|x| x.to_string()).collect::<Vec<_>>().join(" ")));
                for _ in 0..4 {
                    out.push(format!("convert {}", quant_input(r)));
                }
                left -= 8;
            }
            2 => {
                // forbid the held class and bring it back without converting; identical input again after an allow
                let v = quant_input(r);
                out.push(format!("convert {}", v));
                let pc = r.below(12);
                out.push(format!("forbid {}", pc));
                out.push(format!("allow {}", pc));
                out.push(format!("convert {}", v.wrapping_add(r.pick(&[0u32, 1, 500, 3000]))));
                out.push(format!("allow {}", r.below(12)));
                out.push(format!("convert {}", v));
                left -= 7;
            }
            3 => {
                // sparse scales and the octave seams: a few microvolts under an integer voltage, mid-octave, just over it
                let mask = r.pick(&[0b1u64, 0b11, 0b100000000000, 0b100000000001, 0b10, 0b101, 0b1000000]);
                let forb: Vec<String> = (0..12).filter(|i| mask >> i & 1 == 0).map(|i| i.to_string()).collect();
                if r.chance(1, 2) {
                    out.push(format!("forbid {}", forb.join(" ")));
                } else {
                    // the same scale built with allow
                    out.push("forbid 0 1 2 3 4 5 6 7 8 9 10 11".into());
                    let al: Vec<String> = (0..12).filter(|i| mask >> i & 1 == 1).map(|i| i.to_string()).collect();
                    out.push(format!("allow {}", al.join(" ")));
                    if mask & (1 << 11) == 0 {
                        out.push("forbid 11".into());
                    }
                }
                for _ in 0..6 {
                    let o = r.below(11) as f64;
                    let f = r.pick(&[-4e-6f64, -2e-6, -1e-6, 0.0, 1e-6, 0.5, 0.5416, 0.55, 0.58, 0.5833, 0.59, 0.0833, 0.088, 0.0917]);
                    out.push(format!("convert {}", b((o + f) as f32)));
                    if r.chance(1, 3) {
                        out.push("quant new".into());
                        out.push(format!("forbid {}", forb.join(" ")));
                    }
                }
                left -= 12;
            }
            4 => {
                // the top of the range with a note held just under it
                let scale = r.pick(&["", "forbid 0", "forbid 0 1", "forbid 11"]);
                if !scale.is_empty() {
                    out.push(scale.into());
                }
                out.push(format!("convert {}", b(r.pick(&[9.95f32, 9.92, 9.99, 9.9999]))));
                for x in [10.0f32, 10.004, 10.0083, 10.009, 9.9999, 10.5, 11.0] {
                    if r.chance(2, 3) {
                        out.push(format!("convert {}", b(x)));
                    }
                }
                left -= 8;
            }
            5 => {
                // first conversion after an edit, small voltages
                if r.chance(1, 2) {
                    let pc = r.below(12);
                    out.push(format!("forbid {}", pc));
                    out.push(format!("allow {}", pc));
                }
                out.push(format!("convert {}", b(r.pick(&[0.084f32, 0.088, 0.0915, 0.05, 0.0, 0.17]))));
                left -= 3;
            }
            6 => {
                // the mirror image of the range and far-away values, as the first input and later (any value is legal)
                if r.chance(1, 3) {
                    out.push(format!("forbid {}", r.below(12)));
                }
                for _ in 0..r.range(1, 4) {
                    let k = r.below(133) as f64;
                    let v = r.pick(&[-10.0f64, -9.95, -10.005, -9.91, -(k / 12.0), -(k / 12.0) - 0.004, -0.04, -1.0, -100.0, 100.0, 20.0, 1.0e6, -1.0e6, 3.0e38, -3.0e38]);
                    out.push(format!("convert {}", b(v as f32)));
                }
                out.push(format!("convert {}", quant_input(r)));
                left -= 5;
            }
            _ => {
                // chromatic, a few tens of microvolts around every semitone of the upper octaves
                let k = r.range(36, 121) as f64;
                for d in [-3e-5f64, -1e-5, -4e-6, -1e-6, 0.0, 2e-6] {
                    out.push("quant new".into());
                    out.push(format!("convert {}", b((k / 12.0 + d) as f32)));
                }
                left -= 12;
            }
        }
    }
}

/// glide: chains of small time changes, tiny steps, the exact off setting
pub fn glide_fine(r: &mut Rng, n: usize, out: &mut Vec<String>) {
    let mut left = n as i64;
    while left > 0 {
        let sr = r.pick(&[1000.0f32, 2000.0, 8000.0, 15600.0, 31200.0, 44100.0, 48000.0, 850.0, 1900.0]);
        out.push(format!("glide new {}", b(sr)));
        match r.below(3) {
            0 => {
                // a slow knob sweep: every request within 0.05 s of the previous one
                let mut t = r.pick(&[0.2f32, 0.5, 1.0, 0.12]);
                out.push(format!("time {}", b(t)));
                let d = r.pick(&[0.04f32, -0.04, 0.03, 0.049, -0.02]);
                for _ in 0..r.range(3, 25) {
                    t = (t + d).max(0.0);
                    out.push(format!("time {}", b(t)));
                    if r.chance(1, 3) {
                        out.push(format!("proc {}", b(0.0)));
                    }
                }
                // then a step response under whatever is in effect now
                let steps = ((t.max(0.12) * sr) as usize).min(6000);
                for _ in 0..3 {
                    out.push(format!("proc {}", b(0.0)));
                }
                for _ in 0..steps + 4 {
                    out.push(format!("proc {}", b(1.0)));
                }
                left -= steps as i64 + 40;
            }
            1 => {
                // tiny steps with a fast setting, from a settled level
                let t = (r.range(100, 400) as f32) / sr;
                out.push(format!("time {}", b(t)));
                let base = r.pick(&[0.0f32, 1.0, -2.5]);
                if base != 0.0 {
                    out.push(format!("time {}", b(0.0)));
                    for _ in 0..12 {
                        out.push(format!("proc {}", b(base)));
                    }
                    out.push(format!("time {}", b(t)));
                } else {
                    for _ in 0..3 {
                        out.push(format!("proc {}", b(0.0)));
                    }
                }
                let step = r.pick(&[1.5e-4f32, 5e-5, 3e-4, 1e-3, -2e-4, 0.01]);
                let nn = (t * sr) as usize + 8;
                for _ in 0..nn {
                    out.push(format!("proc {}", b(base + step)));
                }
                left -= nn as i64 + 30;
            }
            _ => {
                // off / on / off around a held input
                for t in [0.0f32, 0.3, 0.0, -0.0, 0.3, 0.0] {
                    if r.chance(3, 4) {
                        out.push(format!("time {}", b(t)));
                    }
                    let x = r.pick(&[1.0f32, -1.0, 0.5]);
                    for _ in 0..r.range(2, 12) {
                        out.push(format!("proc {}", b(x)));
                    }
                }
                left -= 50;
            }
        }
    }
}

/// ribbon: many sample rates with the helper's capacity, pull-up exactly equal to the divider, samples exactly on the
/// boundary, patterns whose period is the buffer length, very low rates with gaps
pub fn ribbon_fine(r: &mut Rng, n: usize, out: &mut Vec<String>) {
    let all = ribbon_rates();
    let usable: Vec<(f32, usize)> = all.iter().copied().filter(|x| x.1 <= 900).collect();
    let mut left = n as i64;
    while left > 0 {
        let (sr, cap) = r.pick(&usable);
        let (sp, dr, pu) = match r.below(5) {
            0 => (20e3f32, 820.0f32, 20820.0f32),
            1 => (10e3, 0.0, 10e3),
            2 => (10e3, 10e3, 20e3),
            3 => (15e3, 1e3, 1e6),
            _ => (20e3, 820.0, 30e3),
        };
        out.push(format!("ribbon new {} {} {} {} {}", cap, b(sr), b(sp), b(dr), b(pu)));
        let boundary = 1.0 - (dr / (dr + sp));
        let ignore = (sr as usize) / 1000;
        let need = cap + ignore;
        let lvl = (r.unit() as f32) * boundary * 0.9;
        match r.below(6) {
            5 => {
                // a consumer that reads the edge flags far more slowly than the samples arrive: whole press / release /
                // press cycles without a single flag read, then one flag read at a chosen moment
                let first = r.pick(&["jr", "jp"]);
                for round in 0..r.range(2, 4) {
                    for _ in 0..need + r.range(1, 4) as usize {
                        out.push(format!("poll {}", b(lvl)));
                    }
                    if round == 0 && r.chance(1, 2) {
                        out.push(if first == "jr" { "jp" } else { "jr" }.into());
                    }
                    for _ in 0..r.range(1, 40) {
                        out.push(format!("poll {}", b(1.0)));
                    }
                }
                for _ in 0..need + 2 {
                    out.push(format!("poll {}", b(lvl)));
                }
                // read while the second (or third) press is held
                out.push(first.into());
                out.push(if first == "jr" { "jp" } else { "jr" }.into());
                out.push(format!("poll {}", b(1.0)));
                out.push("jr".into());
                out.push("jp".into());
                out.push("jr".into());
                left -= 5 * need as i64;
            }
            0 => {
                // a press, then samples exactly on the boundary (lifted), then more in-range samples
                for _ in 0..need + 2 {
                    out.push(format!("poll {}", b(lvl)));
                }
                for _ in 0..r.range(1, 3) {
                    out.push(format!("poll {}", b(boundary)));
                }
                out.push("jr".into());
                for _ in 0..need / 2 + 1 {
                    out.push(format!("poll {}", b(lvl)));
                }
                out.push(format!("poll {}", b(boundary)));
                for _ in 0..need / 2 + 2 {
                    out.push(format!("poll {}", b(lvl)));
                }
                out.push("jp".into());
                left -= 2 * need as i64 + 10;
            }
            1 => {
                // runs one short of / exactly / one more than the capture time, after a glitch inside the settling time
                for extra in [-1i64, 0, 1] {
                    if ignore > 1 && r.chance(1, 2) {
                        out.push(format!("poll {}", b(lvl)));
                        out.push(format!("poll {}", b(1.0)));
                    }
                    let run = (need as i64 + extra).max(1) as usize;
                    for _ in 0..run {
                        out.push(format!("poll {}", b(lvl)));
                    }
                    out.push("jp".into());
                    out.push(format!("poll {}", b(1.0)));
                    out.push("jr".into());
                }
                left -= 3 * need as i64 + 12;
            }
            2 => {
                // held, flicked away (in range) and back to the same code; and a wobble with the buffer's period
                let other = (lvl * 0.5).max(0.0);
                for _ in 0..need + 3 {
                    out.push(format!("poll {}", b(lvl)));
                }
                for _ in 0..r.range(5, 40) {
                    out.push(format!("poll {}", b(other)));
                }
                for _ in 0..cap + 5 {
                    out.push(format!("poll {}", b(lvl)));
                }
                for k in 0..2 * cap + 3 {
                    let x = if k % cap < cap / 3 { lvl } else { other };
                    out.push(format!("poll {}", b(x)));
                }
                left -= 5 * need as i64;
            }
            3 => {
                // allowance-many differing samples right after a reported press (which of them leak into the value?)
                for _ in 0..need + 1 {
                    out.push(format!("poll {}", b(lvl)));
                }
                let disc = (sr as usize) * 2 / 1000 + 2;
                for k in 0..disc {
                    out.push(format!("poll {}", b((lvl * 0.3 + 0.001 * k as f32).min(boundary * 0.99))));
                }
                out.push(format!("poll {}", b(1.0)));
                left -= need as i64 + disc as i64 + 3;
            }
            _ => {
                // taps and glitch trains that must never add up
                for _ in 0..r.range(3, 10) {
                    for _ in 0..r.range(1, (need as u64 / 2).max(2)) {
                        out.push(format!("poll {}", b(lvl)));
                    }
                    out.push(format!("poll {}", b(r.pick(&[1.0f32, boundary]))));
                    if r.chance(1, 3) {
                        out.push("jp".into());
                    }
                }
                out.push(format!("poll {}", b(lvl)));
                out.push("jp".into());
                left -= 5 * need as i64;
            }
        }
    }
}

// ------------------------------------------------------------------------------------------------
// long histories of one object: counters of 8, 10, 12 or 16 bits that wrap or saturate, run-length detectors, state that
// only goes wrong after tens of thousands of calls.  Each scenario is emitted once per stream (n is ignored).

fn push_bytes(out: &mut Vec<String>, bytes: &[u64]) {
    for by in bytes {
        out.push(format!("byte {}", by));
    }
}

pub fn midi_long(r: &mut Rng, _n: usize, out: &mut Vec<String>) {
    let bend_probes = |r: &mut Rng, c: u64, out: &mut Vec<String>| {
        for (l, m) in [(0u64, 0u64), (0, 32), (0, 64), (0, 65), (0, 96), (1, 96), (0, 127), (127, 127), (0, 100), (64, 80)] {
            push_bytes(out, &[0xE0 + c, l, m]);
        }
        for _ in 0..6 {
            let m = r.below(128);
            push_bytes(out, &[0xE0 + c, if r.chance(1, 2) { 0 } else { r.below(128) }, m]);
        }
    };
    let head = |r: &mut Rng, out: &mut Vec<String>| -> u64 {
        let ch = r.pick(&[0u64, 3, 9, 15]);
        out.push(format!("midi new {}", ch));
        out.push(format!("retrig {}", r.below(2)));
        out.push(format!("prio {}", r.below(3)));
        ch
    };
    // 1. more than 2^16 note-on messages to one receiver (running status), some of them released again
    {
        let c = head(r, out);
        let pool = [60u64, 62, 64, 65, 67, 1, 127, 0];
        push_bytes(out, &[0x90 + c]);
        for k in 0..66_100u64 {
            let note = pool[(k % 5) as usize];
            push_bytes(out, &[note, 1 + k % 127]);
            if k % 3 == 2 {
                push_bytes(out, &[pool[((k + 3) % 5) as usize], 0]);
            }
            if k % 8191 == 0 {
                out.push("rising".into());
                out.push("falling".into());
            }
        }
        for note in pool {
            push_bytes(out, &[note, 0]);
        }
        push_bytes(out, &[r.pick(&pool), 100]);
    }
    // 2. every controller number written with the same value (any preamble of two or three controller messages with equal
    //    values is a sub-sequence), then the documented maps probed; data-entry style preambles with mixed values
    for v in [0u64, 2, 12, 127] {
        let c = head(r, out);
        for cc in (0..128u64).rev() {
            push_bytes(out, &[0xB0 + c, cc, v]);
        }
        bend_probes(r, c, out);
        for cc in [1u64, 7, 74, 71, 5, 64, 65] {
            push_bytes(out, &[0xB0 + c, cc, 100]);
        }
        push_bytes(out, &[0x90 + c, 60, 100, 0x80 + c, 60, 0]);
    }
    for _ in 0..8 {
        let c = head(r, out);
        for _ in 0..r.range(2, 5) {
            let cc = r.pick(&[101u64, 100, 99, 98, 6, 38, 96, 97, 0, 32, 120, 122, 124, 126, 127]);
            push_bytes(out, &[0xB0 + c, cc, r.pick(&[0u64, 0, 1, 2, 12, 24, 127])]);
        }
        bend_probes(r, c, out);
    }
    // 3. long runs of pitch-bend messages without a fine byte (a 7-bit wheel), then the map probed
    for run in [300u64, 1_100, 4_200, 66_000] {
        let c = head(r, out);
        push_bytes(out, &[0xE0 + c]);
        for k in 0..run {
            push_bytes(out, &[0, (k * 7) % 128]);
        }
        bend_probes(r, c, out);
    }
    // 3b. a system-exclusive dump longer than 2^16 bytes arriving under a running status, real-time bytes inside
    {
        let c = head(r, out);
        push_bytes(out, &[0x90 + c, 60, 100, 0xB0 + c, 7, 90, 0xF0]);
        for k in 0..66_200u64 {
            push_bytes(out, &[(k * 37 + k / 128) % 128]);
            if k % 9001 == 0 {
                push_bytes(out, &[0xF8]);
            }
        }
        push_bytes(out, &[0xF7, 0x90 + c, 62, 100]);
    }
    // 4. long runs of one controller message and of an ignored one
    for (run, cc) in [(1_100u64, 1u64), (66_000, 7), (4_200, 3)] {
        let c = head(r, out);
        push_bytes(out, &[0xB0 + c]);
        for k in 0..run {
            push_bytes(out, &[cc, k % 128]);
        }
        push_bytes(out, &[0xB0 + c, 1, 64, 0xB0 + c, 7, 127, 0xB0 + c, 121, 0]);
        bend_probes(r, c, out);
        push_bytes(out, &[0x90 + c, 61, 100]);
    }
}

fn pc_of(v: f32) -> u64 {
    ((v * 12.0).floor().max(0.0) as u64) % 12
}

pub fn quant_long(r: &mut Rng, _n: usize, out: &mut Vec<String>) {
    let volts = |r: &mut Rng| -> f32 { (r.below(120) as f32 + (20.0 + r.below(60) as f32) / 100.0) / 12.0 };
    // 1. exactly k scale edits between two conversions of one input, the last of them forbidding the held class
    for k in [256u64, 65_536] {
        out.push("quant new".to_string());
        let v = volts(r).max(0.0);
        let pc = pc_of(v);
        let x = (pc + 1 + r.below(10)) % 12;
        out.push(format!("convert {}", b(v)));
        for i in 0..k - 1 {
            out.push(format!("{} {}", if i % 2 == 0 { "forbid" } else { "allow" }, x));
        }
        out.push(format!("forbid {}", pc));
        out.push(format!("convert {}", b(v)));
        out.push(format!("allow {}", pc));
        out.push(format!("convert {}", b(v)));
    }
    // 2. a quantizer that has seen more than 2^16 forbid calls (and as many allow calls)
    for calls in [300u64, 66_000] {
        out.push("quant new".to_string());
        for i in 0..calls {
            out.push(format!("forbid {}", [1u64, 3, 6][(i % 3) as usize]));
            if i % 2 == 1 {
                out.push(format!("allow {}", [1u64, 3, 6][(i % 3) as usize]));
            }
        }
        for _ in 0..6 {
            let v = volts(r).max(0.0);
            out.push(format!("allow {}", (0..12).map(|x| x.to_string()).collect::<Vec<_>>().join(" ")));
            out.push(format!("convert {}", b(v)));
            out.push(format!("forbid {}", pc_of(v)));
            out.push(format!("convert {}", b(v)));
            out.push(format!("convert {}", b(v + 0.01)));
        }
    }
    // 3. emptying the scale with the held class last in the list, a neighbour allowed again, then an input in the
    //    hysteresis margin on the neighbour's side (no conversion in between)
    for _ in 0..40 {
        out.push("quant new".to_string());
        let note = r.range(1, 118);
        let v = (note as f32 + (10.0 + r.below(80) as f32) / 100.0) / 12.0;
        out.push(format!("convert {}", b(v)));
        let pc = note % 12;
        let mut all: Vec<u64> = (0..12).filter(|x| *x != pc).collect();
        if r.chance(1, 2) {
            all.reverse();
        }
        if r.chance(3, 4) {
            all.push(pc);
        } else {
            all.insert(r.below(11) as usize, pc);
        }
        out.push(format!("forbid {}", all.iter().map(|x| x.to_string()).collect::<Vec<_>>().join(" ")));
        let up = r.chance(1, 2);
        out.push(format!("allow {}", if up { (pc + 1) % 12 } else { (pc + 11) % 12 }));
        if r.chance(1, 4) {
            out.push(format!("allow {}", pc));
        }
        let off = r.pick(&[0.02f32, 0.05, 0.09, 0.095, 0.11]);
        let w = if up { (note as f32 + 1.0 + off) / 12.0 } else { (note as f32 - off) / 12.0 };
        out.push(format!("convert {}", b(w)));
        out.push(format!("convert {}", b(w)));
        out.push(format!("convert {}", b(v)));
    }
}

fn next_up(x: f32) -> f32 {
    f32::from_bits(x.to_bits() + 1)
}

pub fn lfo_long(r: &mut Rng, _n: usize, out: &mut Vec<String>) {
    // thousands of consecutive set_frequency calls whose values differ by one ulp, or by the shrinking steps of a
    // one-pole smoother, with a tick now and then (the realised step must follow the configured frequency)
    for (sr, f0) in [(1000.0f32, 0.5f32), (1000.0, 1.0), (48000.0, 1.9), (1000.0, 0.03), (500.0, 0.249), (192000.0, 1.0)] {
        out.push(format!("lfo new {}", b(sr)));
        let mut f = f0;
        out.push(format!("freq {}", b(f)));
        out.push("tick".into());
        let steps = 4_000 + r.below(500);
        for k in 0..steps {
            f = next_up(f);
            out.push(format!("freq {}", b(f)));
            if k % 16 == 15 || k + 1 == steps {
                out.push("tick".into());
            }
        }
        out.push("tick".into());
    }
    for (sr, from, to) in [(1000.0f32, 0.2f32, 1.5f32), (48000.0, 1.5, 0.1), (1000.0, 0.0, 0.7)] {
        out.push(format!("lfo new {}", b(sr)));
        let mut f = from;
        let a = r.pick(&[0.01f32, 0.003, 0.05]);
        for k in 0..5_000u64 {
            f += (to - f) * a;
            out.push(format!("freq {}", b(f)));
            if k % 8 == 7 {
                out.push("tick".into());
            }
        }
        out.push("tick".into());
        out.push("tick".into());
    }
}

/// Exhaustive transition coverage of the byte-stream parser and the receiver's dispatch (thorough tier): every parser
/// state (reached by a status byte, or a status byte and one data byte, after a note has been struck) x every next byte.
/// Shard `seed % 16` takes the status bytes of one channel nibble; shard 0 also probes the idle state.
pub fn midi_exh(seed: u64, out: &mut Vec<String>) {
    let shard = seed % 16;
    if shard == 0 {
        for next in 0..256u64 {
            out.push("midi new 0".into());
            out.push(format!("byte {}", next));
            out.push("byte 64".into());
        }
    }
    for s in 0x80..=0xFFu64 {
        if s % 16 != shard {
            continue;
        }
        for d1 in 0..=128u64 {
            // listened channel = the status byte's channel for even d1, the next channel for odd d1
            let c = if d1 % 2 == 0 { s % 16 } else { (s + 1) % 16 };
            for next in 0..256u64 {
                out.push(format!("midi new {}", c));
                push_bytes(out, &[0x90 + c, 60, 100, s]);
                if d1 < 128 {
                    push_bytes(out, &[d1]);
                }
                push_bytes(out, &[next]);
            }
        }
    }
}

pub fn glide_long(r: &mut Rng, _n: usize, out: &mut Vec<String>) {
    // one processor held on one input for far longer than a second (the filter stalls short of the input at the f32
    // resolution when sample rate x time is large), then the input moves, or the time is changed with the input held
    for (sr, t) in [(2500.0f32, 10.0f32), (4000.0, 10.0), (8000.0, 5.0), (6000.0, 20.0)] {
        for branch in 0..3 {
            out.push(format!("glide new {}", b(sr)));
            out.push(format!("time {}", b(0.0)));
            let base = r.pick(&[1.0f32, 2.5, -1.0, 0.3]);
            for _ in 0..12 {
                out.push(format!("proc {}", b(base)));
            }
            out.push(format!("time {}", b(t)));
            let step = base * (1.0 + r.pick(&[0.001f32, 0.0005, 0.002, 0.01]));
            let hold = sr as u64 + 4_200 + r.below(300);
            for _ in 0..hold {
                out.push(format!("proc {}", b(step)));
            }
            match branch {
                0 => {
                    let next = step + r.pick(&[1.0f32, -1.0, 0.2]);
                    for _ in 0..60 {
                        out.push(format!("proc {}", b(next)));
                    }
                }
                1 => {
                    out.push(format!("time {}", b(0.0)));
                    for _ in 0..40 {
                        out.push(format!("proc {}", b(step)));
                    }
                }
                _ => {
                    out.push(format!("time {}", b(r.pick(&[0.2f32, 1.0, 0.06]))));
                    for _ in 0..(sr as u64 / 2) {
                        out.push(format!("proc {}", b(step)));
                    }
                }
            }
        }
    }
}

pub fn stream(name: &str, seed: u64, n: usize) -> Vec<String> {
    let mut r = Rng::new(seed.wrapping_mul(0x100_0000_01B3) ^ name.bytes().fold(0u64, |a, c| a.wrapping_mul(131) + c as u64));
    let mut out = Vec::with_capacity(n + 16);
    match name {
        "adsr" => adsr(&mut r, n, &mut out),
        "lfo_fine" => lfo_fine(&mut r, n, &mut out),
        "midi_long" => midi_long(&mut r, n, &mut out),
        "quant_long" => quant_long(&mut r, n, &mut out),
        "lfo_long" => lfo_long(&mut r, n, &mut out),
        "glide_long" => glide_long(&mut r, n, &mut out),
        "midi_exh" => midi_exh(seed, &mut out),
        "adsr_fine" => adsr_fine(&mut r, n, &mut out),
        "midi_fine" => midi_fine(&mut r, n, &mut out),
        "quant_fine" => quant_fine(&mut r, n, &mut out),
        "glide_fine" => glide_fine(&mut r, n, &mut out),
        "ribbon_fine" => ribbon_fine(&mut r, n, &mut out),
        "lfo" => lfo(&mut r, n, &mut out),
        "quant" => quant(&mut r, n, &mut out),
        "midi" => midi(&mut r, n, &mut out),
        "glide" => glide(&mut r, n, &mut out),
        "ribbon" => ribbon(&mut r, n, &mut out),
        "fop" => fop(&mut r, n, &mut out),
        "misc" => misc(&mut r, n, &mut out),
        "adsr_phase" => adsr_phase(&mut r, n, &mut out),
        "adsr_slow" => adsr_slow(&mut r, n, &mut out),
        "lfo_sweep" => lfo_sweep(&mut r, n, &mut out),
        "quant_fresh" => quant_fresh(&mut r, n, &mut out),
        "quant_hyst" => quant_hyst(&mut r, n, &mut out),
        "glide_step" => glide_step(&mut r, n, &mut out),
        "glide_sched" => glide_sched(&mut r, n, &mut out),
        "ribbon_taps" => ribbon_taps(&mut r, n, &mut out),
        "midi_notes" => midi_notes(&mut r, n, &mut out),
        "midi_cc" => midi_cc(&mut r, n, &mut out),
        "midi_cc_all" => midi_cc_all(seed % 16, &mut out),
        "misc_all" => misc_all(&mut out),
        "adsr_in" => adsr_in(&mut r, n, &mut out),
        "lfo_in" => lfo_in(&mut r, n, &mut out),
        "glide_in" => glide_in(&mut r, n, &mut out),
        "ribbon_in" => ribbon_in(&mut r, n, &mut out),
        "quant_any" => quant_any(&mut r, n, &mut out),
        "midi_bytes" => midi_bytes(&mut r, n, &mut out),
        _ => panic!("unknown stream {}", name),
    }
    out
}
