#!/bin/bash
# corr.sh <stream> <seed> <n> <workdir>: run one stream through implementation and model, diff
set -e
H=/verif/harness/target/debug/verif-harness
D=/verif/lean/.lake/build/bin/driver
s=$1; seed=$2; n=$3; w=$4
mkdir -p $w
$H gen $s $seed $n > $w/$s.$seed.ops
$H exec < $w/$s.$seed.ops > $w/$s.$seed.impl
$D < $w/$s.$seed.ops > $w/$s.$seed.model
if cmp -s $w/$s.$seed.impl $w/$s.$seed.model; then echo "$s seed=$seed ops=$(wc -l < $w/$s.$seed.ops) OK"; else
  echo "$s seed=$seed DIFF"; paste -d'\n' <(nl -ba $w/$s.$seed.ops) /dev/null >/dev/null
  diff <(paste -d'|' $w/$s.$seed.ops $w/$s.$seed.impl | nl -ba) <(paste -d'|' $w/$s.$seed.ops $w/$s.$seed.model | nl -ba) | head -${5:-12}
fi
