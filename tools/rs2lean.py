#!/usr/bin/env python3
"""rs2lean.py <src-dir> <out-dir>: translate the crate's own logic (src/*.rs, without the table data, the tests and the
verif-hooks items) into Lean 4, one `def` per Rust function, as `do` blocks in the `Option` monad (`none` = panic).

Tie 1d (DESIGN §13).  The output, `lean/SynthVerif/Gen/Src/<module>.lean`, is regenerated on every run; the files
`lean/SynthVerif/Tie/<module>.lean` then *prove* that each translated function refines the hand-written model function
the property theorems are about.  So for the translated part of the crate the model is tied to the source text by the
Lean kernel for every input and state, not by sampling.

The translator is deliberately literal: statements stay statements (`let mut`, reassignment, `if`, `match`, `for`,
early `return` are Lean `do` elements), every integer `+ - * / % <<` becomes a checked primitive of
`SynthVerif/Src/Prelude.lean` chosen by the Rust type of its operands, `as` casts name source and target type,
float literals become exact decimal rationals rounded once (`Rs.lit`).  What it does not understand is an error for that
function (listed in `report.json`, never guessed); the tie of such a function falls back to the sampled correspondence.
"""
import sys, os, re, json
from fractions import Fraction

# ---------------------------------------------------------------------------------------------------------------------
# lexer

class Unsupported(Exception):
    pass

PUNCT = ["<<=", ">>=", "...", "..=", "::", "->", "=>", "==", "!=", "<=", ">=", "&&", "||", "+=", "-=", "*=", "/=", "%=", "^=", "&=",
         "|=", "<<", ">>", "..", "+", "-", "*", "/", "%", "^", "!", "&", "|", "=", "<", ">", "@", ".", ",", ";", ":", "#", "$", "?",
         "(", ")", "[", "]", "{", "}", "_"]

def lex(s):
    toks, i, n = [], 0, len(s)
    while i < n:
        c = s[i]
        if c.isspace():
            i += 1
        elif s.startswith("//", i):
            j = s.find("\n", i)
            i = n if j < 0 else j
        elif s.startswith("/*", i):
            j = s.find("*/", i)
            i = n if j < 0 else j + 2
        elif c == '"':
            j = i + 1
            while s[j] != '"':
                j += 2 if s[j] == "\\" else 1
            toks.append(("str", s[i:j + 1])); i = j + 1
        elif c == "'" and re.match(r"'[A-Za-z_][A-Za-z0-9_]*(?!')", s[i:]):
            m = re.match(r"'[A-Za-z_][A-Za-z0-9_]*", s[i:])
            toks.append(("lifetime", m.group(0))); i += len(m.group(0))
        elif c == "'":
            j = s.index("'", i + 2 if s[i + 1] == "\\" else i + 1)
            toks.append(("char", s[i:j + 1])); i = j + 1
        elif c.isdigit():
            m = re.match(r"0b[01_]+|0x[0-9a-fA-F_]+|0o[0-7_]+|[0-9][0-9_]*(\.[0-9][0-9_]*)?([eE][+-]?[0-9_]+)?", s[i:])
            body = m.group(0)
            j = i + len(body)
            # a trailing '.' that is not a method call or a range: `1.` is a float in Rust
            if re.fullmatch(r"[0-9][0-9_]*", body) and s.startswith(".", j) and not s.startswith("..", j) and not re.match(r"\.[A-Za-z_]", s[j:]):
                body += "."; j += 1
            ms = re.match(r"_?(f32|f64|u8|u16|u32|u64|usize|i8|i16|i32|i64|isize)\b", s[j:])
            suf = None
            if ms:
                suf = ms.group(1); j += len(ms.group(0))
            isf = (not body.startswith("0x") and not body.startswith("0b")) and ("." in body or "e" in body.lower()) or suf in ("f32", "f64")
            toks.append(("float" if isf else "int", (body, suf))); i = j
        elif c.isalpha() or c == "_" and i + 1 < n and (s[i + 1].isalnum() or s[i + 1] == "_"):
            m = re.match(r"[A-Za-z_][A-Za-z0-9_]*", s[i:])
            toks.append(("ident", m.group(0))); i += len(m.group(0))
        else:
            for p in PUNCT:
                if s.startswith(p, i):
                    toks.append(("p", p)); i += len(p)
                    break
            else:
                raise Unsupported(f"lexer: unexpected character {c!r}")
    toks.append(("eof", ""))
    return toks

# ---------------------------------------------------------------------------------------------------------------------
# parser (the subset of Rust this crate is written in)

class P:
    def __init__(self, toks):
        self.t, self.i = toks, 0
    def peek(self, k=0):
        return self.t[self.i + k]
    def at(self, text, k=0):
        tk = self.t[self.i + k]
        return tk[0] in ("p", "ident") and tk[1] == text
    def eat(self, text):
        if self.at(text):
            self.i += 1
            return True
        return False
    def expect(self, text):
        if not self.eat(text):
            raise Unsupported(f"parser: expected {text!r}, found {self.peek()[1]!r} (token {self.i})")
    def ident(self):
        tk = self.peek()
        if tk[0] != "ident":
            raise Unsupported(f"parser: expected identifier, found {tk[1]!r}")
        self.i += 1
        return tk[1]

    # ---- attributes
    def attrs(self):
        out = []
        while self.at("#"):
            self.i += 1
            self.eat("!")
            self.expect("[")
            depth, start = 1, self.i
            while depth:
                if self.at("["): depth += 1
                elif self.at("]"): depth -= 1
                self.i += 1
            out.append(" ".join(str(t[1]) for t in self.t[start:self.i - 1]))
        return out

    def skip_vis(self):
        if self.eat("pub"):
            if self.at("("):
                while not self.eat(")"):
                    self.i += 1

    # ---- types
    def ty(self):
        if self.eat("&"):
            if self.peek()[0] == "lifetime": self.i += 1
            self.eat("mut")
            return self.ty()
        if self.eat("("):
            parts = []
            while not self.eat(")"):
                parts.append(self.ty()); self.eat(",")
            return ("tuple", parts) if parts else "unit"
        if self.eat("["):
            el = self.ty()
            if self.eat(";"):
                n = self.expr()
                self.expect("]")
                return ("array", el, n)
            self.expect("]")
            return ("slice", el)
        path = [self.ident()]
        args = []
        while True:
            if self.at("::") and self.peek(1)[0] == "ident":
                self.i += 1; path.append(self.ident())
            elif self.at("::") and self.at("<", 1):
                self.i += 1
            elif self.at("<"):
                self.i += 1
                while not self.eat(">"):
                    if self.peek()[0] in ("int",) or self.at("{"):
                        args.append(("expr", self.expr_bp(11)))
                    else:
                        args.append(self.ty())
                    self.eat(",")
            else:
                break
        return ("path", path, args)

    # ---- items
    def items(self, until=None):
        out = []
        while self.peek()[0] != "eof" and not (until and self.at(until)):
            out.append(self.item())
        return [x for x in out if x]

    def generics(self):
        gs = []
        if self.eat("<"):
            while not self.eat(">"):
                if self.eat("const"):
                    name = self.ident(); self.expect(":"); t = self.ty()
                    gs.append((name, t))
                else:
                    raise Unsupported("parser: non-const generic parameter")
                self.eat(",")
        return gs

    def item(self):
        attrs = self.attrs()
        if any("verif-hooks" in a or a.replace(" ", "") == "cfg(test)" for a in attrs):
            # items of the verification hooks (and unit tests) are not part of the crate's behaviour: skipped unparsed
            depth = 0
            while True:
                if self.at("{") or self.at("(") or self.at("["): depth += 1
                elif self.at("}") or self.at(")") or self.at("]"):
                    depth -= 1
                    if depth == 0 and self.at("}"):
                        self.i += 1
                        return None
                elif self.at(";") and depth == 0:
                    self.i += 1
                    return None
                self.i += 1
        self.skip_vis()
        if self.eat("use"):
            tree = self.use_tree()
            self.expect(";")
            return ("use", tree)
        if self.eat("mod"):
            name = self.ident()
            if self.eat(";"):
                return None
            self.expect("{"); body = self.skip_block()
            return None
        if self.at("const") and not self.at("fn", 1):
            self.i += 1
            name = self.ident(); self.expect(":"); t = self.ty(); self.expect("="); e = self.expr(); self.expect(";")
            return ("const", name, t, e, attrs)
        if self.eat("static"):
            raise Unsupported("static item")
        if self.eat("struct"):
            name = self.ident(); gs = self.generics()
            if self.eat("("):
                fields = []
                while not self.eat(")"):
                    self.attrs(); self.skip_vis(); fields.append((str(len(fields)), self.ty())); self.eat(",")
                self.expect(";")
                return ("struct", name, gs, fields, True, attrs)
            self.expect("{")
            fields = []
            while not self.eat("}"):
                self.attrs(); self.skip_vis(); f = self.ident(); self.expect(":"); fields.append((f, self.ty())); self.eat(",")
            return ("struct", name, gs, fields, False, attrs)
        if self.eat("enum"):
            name = self.ident(); self.expect("{")
            vs = []
            while not self.eat("}"):
                self.attrs(); v = self.ident(); payload = []
                if self.eat("("):
                    while not self.eat(")"):
                        payload.append(self.ty()); self.eat(",")
                vs.append((v, payload)); self.eat(",")
            return ("enum", name, vs, attrs)
        if self.eat("impl"):
            gs = self.generics()
            t1 = self.ty(); trait = None
            if self.eat("for"):
                trait, t1 = t1, self.ty()
            self.expect("{")
            members = self.items(until="}")
            self.expect("}")
            return ("impl", gs, trait, t1, members, attrs)
        if self.at("fn") or (self.at("const") and self.at("fn", 1)):
            self.eat("const"); self.expect("fn")
            name = self.ident(); gs = self.generics()
            self.expect("(")
            params, selfkind = [], None
            while not self.eat(")"):
                if self.at("&") and (self.at("self", 1) or (self.at("mut", 1) and self.at("self", 2))):
                    self.i += 1
                    selfkind = "mut" if self.eat("mut") else "ref"
                    self.expect("self")
                elif self.at("self") or (self.at("mut") and self.at("self", 1)):
                    self.eat("mut"); self.expect("self"); selfkind = "val"
                else:
                    mut = self.eat("mut")
                    pname = self.ident(); self.expect(":"); params.append((pname, self.ty(), mut))
                self.eat(",")
            ret = "unit"
            if self.eat("->"):
                ret = self.ty()
            body = self.block()
            return ("fn", name, gs, selfkind, params, ret, body, attrs)
        raise Unsupported(f"parser: unknown item starting with {self.peek()[1]!r}")

    def use_tree(self):
        path = []
        while True:
            if self.eat("{"):
                subs = []
                while not self.eat("}"):
                    subs.append(self.use_tree()); self.eat(",")
                return ("group", path, subs)
            if self.eat("*"):
                return ("glob", path)
            path.append(self.ident())
            if not self.eat("::"):
                if self.eat("as"):
                    return ("leaf", path, self.ident())
                return ("leaf", path, path[-1])

    def skip_block(self):
        depth = 1
        while depth:
            if self.at("{"): depth += 1
            elif self.at("}"): depth -= 1
            self.i += 1

    # ---- statements and expressions
    def block(self):
        self.expect("{")
        stmts = []
        tail = None
        while not self.eat("}"):
            self.attrs()
            if self.eat(";"):
                continue
            if self.at("let"):
                self.i += 1
                mut = self.eat("mut")
                pat = self.pattern()
                t = None
                if self.eat(":"): t = self.ty()
                init = None
                if self.eat("="): init = self.expr()
                self.expect(";")
                stmts.append(("let", pat, mut, t, init))
                continue
            if self.at("if") or self.at("match") or self.at("for") or self.at("while") or self.at("{"):
                e = self.primary()          # a block-like expression in statement position ends the statement (as in Rust)
            else:
                e = self.expr(stmt=True)
            if self.eat(";"):
                stmts.append(("expr", e))
            elif self.at("}"):
                tail = e
            elif e[0] in ("if", "match", "for", "while", "block", "loop"):
                stmts.append(("expr", e))
            else:
                raise Unsupported(f"parser: expected ';' after expression, found {self.peek()[1]!r}")
        return ("block", stmts, tail)

    def pattern(self):
        alts = [self.pattern1()]
        while self.eat("|"):
            alts.append(self.pattern1())
        return alts[0] if len(alts) == 1 else ("por", alts)

    def pattern1(self):
        if self.eat("_"):
            return ("pwild",)
        if self.eat("&"):
            return self.pattern1()
        if self.peek()[0] in ("int", "float"):
            return ("plit", self.primary())
        if self.eat("("):
            ps = []
            while not self.eat(")"):
                ps.append(self.pattern()); self.eat(",")
            return ("ptuple", ps)
        self.eat("mut")
        path = [self.ident()]
        while self.eat("::"):
            path.append(self.ident())
        if self.eat("("):
            ps = []
            while not self.eat(")"):
                ps.append(self.pattern()); self.eat(",")
            return ("pctor", path, ps)
        return ("ppath", path)

    BIN = {"*": 10, "/": 10, "%": 10, "+": 9, "-": 9, "<<": 8, ">>": 8, "&": 7, "^": 6, "|": 5,
           "==": 4, "!=": 4, "<": 4, ">": 4, "<=": 4, ">=": 4, "&&": 3, "||": 2, "..": 1}
    ASSIGN = ["=", "+=", "-=", "*=", "/=", "%=", "^=", "&=", "|=", "<<=", ">>="]

    def expr(self, stmt=False, nostruct=False):
        if self.eat("return"):
            if self.at(";") or self.at("}"):
                return ("return", None)
            return ("return", self.expr())
        if self.at("|") or self.at("||"):
            params = []
            if not self.eat("||"):
                self.expect("|")
                while not self.eat("|"):
                    params.append(self.pattern1())
                    if self.eat(":"): self.ty()
                    self.eat(",")
            return ("closure", params, self.expr())
        lhs = self.expr_bp(1, nostruct)
        for op in self.ASSIGN:
            if self.at(op):
                self.i += 1
                rhs = self.expr(nostruct=nostruct)
                return ("assign", op, lhs, rhs)
        return lhs

    def expr_bp(self, minbp, nostruct=False):
        lhs = self.unary(nostruct)
        while True:
            if self.at("as") and 11 >= minbp:
                self.i += 1
                lhs = ("cast", lhs, self.ty())
                continue
            op = self.peek()[1] if self.peek()[0] == "p" else None
            if op in self.BIN and self.BIN[op] >= minbp:
                bp = self.BIN[op]
                self.i += 1
                if op == ".." and (self.at("]") or self.at(")")):
                    lhs = ("range", lhs, None)
                    continue
                rhs = self.expr_bp(bp + 1, nostruct)
                lhs = ("range", lhs, rhs) if op == ".." else ("bin", op, lhs, rhs)
                continue
            return lhs

    def unary(self, nostruct):
        if self.eat("-"): return ("un", "-", self.unary(nostruct))
        if self.eat("!"): return ("un", "!", self.unary(nostruct))
        if self.eat("*"): return ("un", "*", self.unary(nostruct))
        if self.eat("&"):
            self.eat("mut")
            return ("un", "&", self.unary(nostruct))
        return self.postfix(self.primary(nostruct), nostruct)

    def postfix(self, e, nostruct):
        while True:
            if self.eat("."):
                tk = self.peek()
                if tk[0] == "int":
                    self.i += 1
                    e = ("field", e, tk[1][0])
                elif tk[0] == "float":     # `x.0.1` lexed as float: not used in this crate
                    raise Unsupported("tuple-of-tuple field access")
                else:
                    name = self.ident()
                    targs = []
                    if self.at("::") and self.at("<", 1):
                        self.i += 2
                        while not self.eat(">"):
                            targs.append(self.ty()); self.eat(",")
                    if self.eat("("):
                        args = []
                        while not self.eat(")"):
                            args.append(self.expr()); self.eat(",")
                        e = ("mcall", e, name, args, targs)
                    else:
                        e = ("field", e, name)
            elif self.at("("):
                self.i += 1
                args = []
                while not self.eat(")"):
                    args.append(self.expr()); self.eat(",")
                e = ("call", e, args)
            elif self.at("["):
                self.i += 1
                ix = self.expr()
                self.expect("]")
                e = ("index", e, ix)
            elif self.at("?"):
                raise Unsupported("`?` operator")
            else:
                return e

    def primary(self, nostruct=False):
        tk = self.peek()
        if tk[0] == "int":
            self.i += 1
            return ("int", tk[1][0], tk[1][1])
        if tk[0] == "float":
            self.i += 1
            return ("float", tk[1][0], tk[1][1])
        if tk[0] in ("str", "char"):
            raise Unsupported("string/char literal")
        if self.eat("("):
            if self.eat(")"):
                return ("unit",)
            e = self.expr()
            if self.eat(","):
                es = [e]
                while not self.eat(")"):
                    es.append(self.expr()); self.eat(",")
                return ("tuple", es)
            self.expect(")")
            return ("paren", e)
        if self.at("{"):
            return self.block()
        if self.eat("if"):
            if self.at("let"):
                self.i += 1
                pat = self.pattern(); self.expect("="); scrut = self.expr(nostruct=True)
                then = self.block(); els = None
                if self.eat("else"):
                    els = self.primary() if self.at("if") else self.block()
                return ("match", scrut, [(pat, None, then), (("pwild",), None, els or ("block", [], None))])
            c = self.expr(nostruct=True)
            then = self.block(); els = None
            if self.eat("else"):
                els = self.primary() if self.at("if") else self.block()
            return ("if", c, then, els)
        if self.eat("match"):
            scrut = self.expr(nostruct=True)
            self.expect("{")
            arms = []
            while not self.eat("}"):
                self.attrs()
                pat = self.pattern(); guard = None
                if self.eat("if"): guard = self.expr(nostruct=True)
                self.expect("=>")
                body = self.expr(stmt=True)
                self.eat(",")
                arms.append((pat, guard, body))
            return ("match", scrut, arms)
        if self.eat("for"):
            pat = self.pattern(); self.expect("in"); it = self.expr(nostruct=True)
            return ("for", pat, it, self.block())
        if self.eat("while"):
            c = self.expr(nostruct=True)
            return ("while", c, self.block())
        if self.at("loop"):
            raise Unsupported("`loop`")
        if tk[0] == "ident":
            path = [self.ident()]
            targs = []
            while self.at("::"):
                if self.at("<", 1):
                    self.i += 2
                    while not self.eat(">"):
                        if self.peek()[0] == "int":
                            targs.append(("expr", self.primary()))
                        else:
                            targs.append(self.ty())
                        self.eat(",")
                else:
                    self.i += 1
                    path.append(self.ident())
            if self.at("{") and not nostruct and (path[-1][0].isupper() or path[-1] == "Self"):
                self.i += 1
                fields = []
                while not self.eat("}"):
                    f = self.ident()
                    if self.eat(":"):
                        fields.append((f, self.expr()))
                    else:
                        fields.append((f, ("path", [f], [])))
                    self.eat(",")
                return ("structlit", path, fields)
            return ("path", path, targs)
        raise Unsupported(f"parser: unexpected token {tk[1]!r}")

# ---------------------------------------------------------------------------------------------------------------------
# crate model: modules, symbol tables

INT_BITS = {"u8": 8, "u16": 16, "u32": 32, "usize": 64, "u64": 64, "i32": 32}
def is_int(t): return isinstance(t, str) and t in INT_BITS
def tname(t):
    if isinstance(t, str): return t
    if t[0] == "path": return "::".join(t[1])
    return t[0]

# external items the crate uses; each maps to a Lean name of the hand-written dependency model (Src/Deps.lean)
EXTERNAL_TABLES = {   # lookup_tables::<name>  ->  (Gen array, element type)
    "ADSR_ATTACK_TABLE": "Gen.attackBits", "ADSR_DECAY_TABLE": "Gen.decayBits", "SINE_TABLE": "Gen.sineBits",
}
EXTERNAL_CONSTS = {"ADSR_CURVE_LUT_SIZE": ("Gen.adsrLutSize", "usize"), "SINE_LUT_SIZE": ("Gen.sineLutSize", "usize")}

class Crate:
    def __init__(self):
        self.mods = {}          # module -> dict(items..)
    def load(self, srcdir, modules):
        for m in modules:
            txt = open(os.path.join(srcdir, m + ".rs")).read()
            # drop the unit tests: everything from `#[cfg(test)]` on (always the last item of a file in this crate)
            k = txt.find("#[cfg(test)]")
            if k >= 0:
                txt = txt[:k]
            items = P(lex(txt)).items()
            self.mods[m] = self.index(m, items)
    def index(self, m, items):
        d = dict(name=m, structs={}, enums={}, consts={}, fns={}, methods={}, uses={}, globs=[], order=[], generics={})
        for it in items:
            if it[0] == "use":
                self.add_use(d, it[1], [])
            elif it[0] == "const":
                if any("verif-hooks" in a for a in it[4]): continue
                d["consts"][it[1]] = it; d["order"].append(("const", it[1]))
            elif it[0] == "struct":
                d["structs"][it[1]] = it; d["order"].append(("struct", it[1]))
            elif it[0] == "enum":
                d["enums"][it[1]] = it; d["order"].append(("enum", it[1]))
            elif it[0] == "fn":
                d["fns"][it[1]] = it; d["order"].append(("fn", it[1]))
            elif it[0] == "impl":
                gs, trait, t, members, attrs = it[1:]
                if any("verif-hooks" in a for a in attrs): continue
                tn = t[1][-1]
                for mem in members:
                    if mem[0] == "fn":
                        name = mem[1]
                        if trait is not None:
                            # From<X> for T  =>  method `from` keyed by argument type
                            name = tname(trait) + "<" + ",".join(tname(a) for a in trait[2]) + ">::" + mem[1]
                        d["methods"][(tn, name)] = (mem, gs, trait)
                        d["order"].append(("method", (tn, name)))
                    elif mem[0] == "const":
                        if any("verif-hooks" in a for a in mem[4]): continue
                        d["consts"][tn + "::" + mem[1]] = mem; d["order"].append(("const", tn + "::" + mem[1]))
        return d
    def add_use(self, d, tree, prefix):
        kind = tree[0]
        path = prefix + tree[1]
        if kind == "group":
            for s in tree[2]: self.add_use(d, s, path)
        elif kind == "glob":
            d["globs"].append(path)
        else:
            d["uses"][tree[2]] = path

# ---------------------------------------------------------------------------------------------------------------------
# translation

def lean_ident(s):
    return s if s not in ("end", "at", "from", "fun", "show", "have", "open", "in", "then", "local", "meta", "prefix", "infix") else s + "_"

class Tr:
    """translates one module"""
    def __init__(self, crate, m):
        self.crate, self.m, self.d = crate, m, crate.mods[m]
        self.out, self.report = [], []
        self.tmp = 0

    # ---- name resolution -------------------------------------------------------------------------------------------
    def find(self, kind, name):
        """look `name` up as `kind` ('structs','enums','consts','fns'): own module, then imports; returns (module, item)"""
        if name in self.d[kind]:
            return self.m, self.d[kind][name]
        if name in self.d["uses"]:
            p = self.d["uses"][name]
            if p[0] == "crate" and p[1] in self.crate.mods and p[-1] in self.crate.mods[p[1]][kind]:
                return p[1], self.crate.mods[p[1]][kind][p[-1]]
        for g in self.d["globs"]:
            if g[0] == "crate" and g[1] in self.crate.mods and name in self.crate.mods[g[1]][kind]:
                return g[1], self.crate.mods[g[1]][kind][name]
        return None, None

    def qual(self, mod, name):
        return f"Src.{mod}.{lean_ident(name)}"

    def mname(self, mod, tn, name):
        """Lean name (unqualified) of method `name` of type `tn`: a method that shares its name with a field gets a suffix"""
        st = self.crate.mods[mod]["structs"].get(tn)
        if st and any(f == name for f, _ in st[3]):
            return f"{tn}.{lean_ident(name)}_fn"
        return f"{tn}.{lean_ident(name)}"

    # ---- types -----------------------------------------------------------------------------------------------------
    def rtype(self, t, selfty=None):
        """normalise a parsed type: 'f32' | 'u32' | ... | 'bool' | 'unit' | ('adt', module, name, [generic arg exprs]) |
        ('slice', T) | ('array', T, n) | ('tuple', [..]) | ('option', T) | ('hvec', T, cap) | ('ext', name, args)"""
        if isinstance(t, str):
            return t
        if t[0] in ("tuple",):
            return ("tuple", [self.rtype(x, selfty) for x in t[1]])
        if t[0] == "slice":
            return ("slice", self.rtype(t[1], selfty))
        if t[0] == "array":
            return ("array", self.rtype(t[1], selfty), t[2])
        if t[0] == "path":
            name, args = t[1][-1], t[2]
            if name in ("f32", "bool") or name in INT_BITS:
                return name
            if name == "Self":
                if selfty is None: raise Unsupported("Self outside impl")
                return selfty
            if name == "Option":
                return ("option", self.rtype(args[0], selfty))
            mod, it = self.find("structs", name)
            if it is None:
                mod, it = self.find("enums", name)
            if it is not None:
                return ("adt", mod, name, [a[1] if a[0] == "expr" else a for a in args])
            if name == "Vec" and len(args) == 2:
                return ("hvec", self.rtype(args[0], selfty), args[1])
            if name in ("Value7", "Channel", "Control", "Program"):     # midi_types newtypes over u8 (`u8::from(x)` is the value)
                return "u8"
            return ("ext", name, args)
        raise Unsupported(f"type {t}")

    def ltype(self, t):
        """Lean type text"""
        if t == "f32": return "F32"
        if t == "bool": return "Bool"
        if t == "unit": return "Unit"
        if is_int(t): return "Nat"
        if t[0] == "adt":
            args = "".join(" " + self.const_arg(a) for a in t[3])
            s = self.qual(t[1], t[2])
            return f"({s}{args})" if args else s
        if t[0] in ("slice", "hvec"): return f"(List {self.ltype(t[1])})"
        if t[0] == "array": return f"(List {self.ltype(t[1])})"
        if t[0] == "option": return f"(Option {self.ltype(t[1])})"
        if t[0] == "tuple": return "(" + " × ".join(self.ltype(x) for x in t[1]) + ")"
        if t[0] == "ext":
            return EXT_TYPES[t[1]] if t[1] in EXT_TYPES else self.unsupported(f"external type {t[1]}")
        raise Unsupported(f"type {t}")

    def unsupported(self, msg):
        raise Unsupported(msg)

    def const_arg(self, a):
        """generic argument (a const expression or a path type naming a const / const generic) as Lean text"""
        if isinstance(a, tuple) and a[0] == "path" and len(a) == 3 and not a[2]:
            a = ("path", a[1], [])
        ctx = Ctx(self, None, {}, None, "unit")
        ctx.constmode = True
        ctx.generics = getattr(self, "cur_generics", [])
        lines, atom, t = ctx.expr(a, None)
        if lines:
            raise Unsupported("generic argument needs checked arithmetic")
        return atom

    # ---- module emission -------------------------------------------------------------------------------------------
    def emit_module(self):
        o = self.out
        deps = set()
        for p in list(self.d["uses"].values()) + self.d["globs"]:
            if p[0] == "crate" and p[1] in self.crate.mods and p[1] != self.m:
                deps.add(p[1])
        o.append(f"import SynthVerif.Src.Prelude")
        o.append(f"import SynthVerif.Src.Deps")
        for dp in sorted(deps):
            o.append(f"import SynthVerif.Gen.Src.{dp}")
        o.append(f"/-! GENERATED by tools/rs2lean.py from /repo/src/{self.m}.rs on every run.  Do not edit. -/")
        o.append("set_option linter.unusedVariables false")
        o.append("open F32 Rs")
        o.append(f"namespace Src.{self.m}\n")
        # Rust has no declaration order; Lean has.  Types first (a struct after the structs it contains), then constants and
        # functions, each after the items of this module it mentions.
        own = {key for k, key in self.d["order"] if k in ("fn", "struct", "enum")} | {key[1].split("::")[-1] for k, key in self.d["order"] if k == "method"} | {key[0] for k, key in self.d["order"] if k == "method"}
        early = []
        for k, key in self.d["order"]:
            if k == "const" and "::" not in key and not (self.names_in(self.d["consts"][key][3]) & own):
                early.append(key)
        # (early consts may mention each other: source order is kept, and a const is deferred if it mentions a later one)
        emitted_early = set()
        for key in early:
            later = {e for e in early if e not in emitted_early and e != key}
            if self.names_in(self.d["consts"][key][3]) & later:
                continue
            self.guard(f"const {key}", lambda kk=key: self.emit_const(kk))
            emitted_early.add(key)
        tkeys = [(k, key) for k, key in self.d["order"] if k in ("struct", "enum")]
        tnames = {key for _, key in tkeys}
        tdone = set()
        while tkeys:
            for k, key in list(tkeys):
                it = self.d["structs"][key] if k == "struct" else self.d["enums"][key]
                refs = self.names_in(it[3] if k == "struct" else it[2]) & tnames - {key}
                if refs <= tdone:
                    (self.emit_struct if k == "struct" else self.emit_enum)(it)
                    tdone.add(key); tkeys.remove((k, key))
                    break
            else:
                raise Unsupported("recursive type definitions")
        pending = [(k, key) for k, key in self.d["order"] if k in ("fn", "method", "const") and not (k == "const" and key in emitted_early)]
        def short(k, key):
            return key if k != "method" else key[1].split("::")[-1]
        deps = {}
        for k, key in pending:
            body = self.d["consts"][key][3] if k == "const" else (self.d["fns"][key] if k == "fn" else self.d["methods"][key][0])[6]
            names = self.names_in(body)
            ds = set()
            for k2, key2 in pending:
                if (k2, key2) == (k, key): continue
                n2 = short(k2, key2)
                if k2 == "const" and (n2 in names or n2.split("::")[-1] in names and "::" in n2): ds.add((k2, key2))
                elif k2 == "fn" and n2 in names: ds.add((k2, key2))
                elif k2 == "method" and (n2 in names or (n2 == "from" and ("into" in names or "from" in names))): ds.add((k2, key2))
            deps[(k, key)] = ds
        done = set()
        progress = True
        while pending and progress:
            progress = False
            for k, key in list(pending):
                if deps[(k, key)] <= done:
                    if k == "const": self.guard(f"const {key}", lambda kk=key: self.emit_const(kk))
                    else: self.guard(f"fn {key if k == 'fn' else '::'.join(key)}", lambda k_=k, kk=key: self.emit_fn(k_, kk))
                    done.add((k, key)); pending.remove((k, key)); progress = True
        for k, key in pending:
            self.report.append(dict(item=f"{k} {key}", status="untranslated", reason="definition cycle"))
        o.append(f"\nend Src.{self.m}")
        return "\n".join(o) + "\n"

    def guard(self, what, f):
        mark = len(self.out)
        try:
            f()
            self.report.append(dict(item=what, status="translated"))
        except Unsupported as e:
            del self.out[mark:]
            self.out.append(f"-- UNTRANSLATED {what}: {e}")
            self.report.append(dict(item=what, status="untranslated", reason=str(e)))

    def names_in(self, x):
        out = set()
        def walk(y):
            if isinstance(y, str): out.add(y)
            elif isinstance(y, (tuple, list)):
                for z in y: walk(z)
        walk(x)
        return out

    def callees(self, kind, key):
        it = self.d["fns"][key] if kind == "fn" else self.d["methods"][key][0]
        names = set()
        def walk(x):
            if isinstance(x, tuple):
                if x and x[0] == "mcall": names.add(x[2])
                if x and x[0] == "call" and x[1][0] == "path": names.add(x[1][1][-1])
                for y in x: walk(y)
            elif isinstance(x, list):
                for y in x: walk(y)
        walk(it[6])
        out = set()
        for k2, key2 in self.d["order"]:
            if k2 == "fn" and key2 in names: out.add(key2)
            if k2 == "method" and (key2[1] in names or key2[1].split("::")[-1] in names and ("into" in names or "from" in names)): out.add(key2)
        return out

    def emit_struct(self, it):
        _, name, gs, fields, is_tuple, attrs = it
        gtxt = "".join(f" ({g} : Nat)" for g, _ in gs)
        self.out.append(f"structure {lean_ident(name)}{gtxt} where")
        for f, t in fields:
            fn = ("_" + f) if is_tuple else lean_ident(f)
            self.out.append(f"  {fn} : {self.ltype(self.rtype(t))}")
        if not fields:
            self.out.append("  mk ::")
        self.out.append("deriving Inhabited")
        self.out.append("")

    def emit_enum(self, it):
        _, name, vs, attrs = it
        self.out.append(f"inductive {lean_ident(name)} where")
        for v, payload in vs:
            args = "".join(f" (a{i} : {self.ltype(self.rtype(t))})" for i, t in enumerate(payload))
            self.out.append(f"  | {lean_ident(v)}{args}")
        if all(not p for _, p in vs):
            self.out.append("deriving DecidableEq, Repr, Inhabited")
        else:
            self.out.append("deriving Inhabited")
        self.out.append("")

    def emit_const(self, key):
        it = self.d["consts"][key]
        _, name, t, e, attrs = it
        selfty = None
        if "::" in key:
            tn = key.split("::")[0]
            selfty = self.rtype(("path", [tn], []))
        rt = self.rtype(t, selfty)
        ctx = Ctx(self, selfty, {}, None, rt)
        ctx.constmode = True
        lines, atom, at = ctx.expr(e, rt)
        lname = lean_ident(name) if "::" not in key else key.split("::")[0] + "." + lean_ident(name)
        if lines:
            # a const whose initialiser calls a (const) fn: evaluated in the Option monad; rustc rejects a panicking initialiser
            body = "\n".join("  " + l for l in lines + [f"pure {atom}"])
            self.out.append(f"def {lname}? : Option {self.ltype(rt)} := do\n{body}")
            self.out.append(f"def {lname} : {self.ltype(rt)} := ({lname}?).getD default\n")
        else:
            self.out.append(f"def {lname} : {self.ltype(rt)} := {atom}\n")

    def emit_fn(self, kind, key):
        if kind == "fn":
            it, gs, selfty, lname = self.d["fns"][key], [], None, lean_ident(key)
        else:
            it, gs, trait = self.d["methods"][key]
            tn, mname = key
            st = self.d["structs"].get(tn) or self.d["enums"].get(tn)
            selfty = ("adt", self.m, tn, [("path", [g], []) for g, _ in gs]) if st else self.rtype(("path", [tn], []))
            if trait is not None:
                # From<X> for T::from  ->  T.from_X
                lname = f"{tn}.from_{tname(trait[2][0])}" if trait[2] else f"{tn}.{mname}"
            else:
                lname = self.mname(self.m, tn, mname)
        _, name, fgs, selfkind, params, ret, body, attrs = it
        self.cur_generics = [g for g, _ in gs]
        self.cur_generic_types = {g: self.rtype(t) for g, t in gs}
        gtxt = "".join(f" {{{g} : Nat}}" for g, _ in gs)
        rret = self.rtype(ret, selfty)
        env = {}
        ptxt = ""
        if selfkind:
            ptxt += f" (self{'₀' if selfkind == 'mut' else ''} : {self.ltype(selfty)})"
            env["self"] = (selfty, selfkind == "mut")
        for pn, pt, pmut in params:
            rt = self.rtype(pt, selfty)
            ptxt += f" ({lean_ident(pn)}{'₀' if pmut else ''} : {self.ltype(rt)})"
            env[pn] = (rt, pmut)
        if selfkind == "mut":
            lret = self.ltype(selfty) if rret == "unit" else f"({self.ltype(selfty)} × {self.ltype(rret)})"
        else:
            lret = self.ltype(rret)
        ctx = Ctx(self, selfty, env, selfkind, rret)
        ctx.generics = [g for g, _ in gs]
        lines = []
        if selfkind == "mut":
            lines.append("let mut self := self₀")
        for pn, pt, pmut in params:
            if pmut: lines.append(f"let mut {lean_ident(pn)} := {lean_ident(pn)}₀")
        lines += ctx.fn_body(body)
        full = f"Src.{self.m}.{lname}"
        if any(re.search(r"← " + re.escape(full) + r"(\s|$)", l) for l in lines):
            # direct recursion: unrolled with fuel (`recFuel` nested calls, then `none`: no statement made)
            lines = [re.sub(r"← " + re.escape(full) + r"(\s|$)", f"← {full}.go fuel\\1", l) for l in lines]
            self.out.append(f"def {lname}.go{gtxt} (fuel : Nat){ptxt} : Option {lret} :=")
            self.out.append("  match fuel with")
            self.out.append("  | 0 => none")
            self.out.append("  | fuel + 1 => do")
            self.out += ["    " + l for l in lines]
            atxt = (" self₀" if selfkind == "mut" else (" self" if selfkind else "")) + "".join(f" {lean_ident(pn)}{'₀' if pmut else ''}" for pn, pt, pmut in params)
            self.out.append(f"def {lname}{gtxt}{ptxt} : Option {lret} := {lname}.go recFuel{atxt}")
            self.out.append("")
            return
        self.out.append(f"def {lname}{gtxt}{ptxt} : Option {lret} := do")
        self.out += ["  " + l for l in lines]
        self.out.append("")


# midi_types::MidiMessage constructors the crate matches on -> (model constructor, payload kinds)
MIDI_MSG = {"NoteOn": ("noteOn", ["u8", "u8", "u8"]), "NoteOff": ("noteOff", ["u8", "u8", "u8"]),
            "PitchBendChange": ("pitchBend", ["u8", "value14"]), "ControlChange": ("controlChange", ["u8", "u8", "u8"])}

# external (dependency-crate) types -> Lean types of the hand-written dependency models (SynthVerif/Src/Deps.lean)
EXT_TYPES = {"MidiByteStreamParser": "ParserState", "MidiMessage": "MidiMsg", "HistoryBuffer": "HistBuf", "Hertz": "Deps.Hertz", "DirectForm1": "Deps.DirectForm1", "Coefficients": "Deps.Coefficients"}

def frac_of_literal(body):
    b = body.replace("_", "")
    if b.endswith("."): b += "0"
    return Fraction(b)

class Ctx:
    """translation of one function body"""
    def __init__(self, tr, selfty, env, selfkind, ret):
        self.tr, self.selfty, self.selfkind, self.ret = tr, selfty, selfkind, ret
        self.env = [dict(env)]
        self.constmode = False
        self.generics = []
        self.n = 0

    def fresh(self, hint="t"):
        self.n += 1
        return f"{hint}{self.n}"
    def lookup(self, name):
        for sc in reversed(self.env):
            if name in sc: return sc[name]
        return None
    def bind(self, name, t, mut):
        self.env[-1][name] = (t, mut)

    # ---- whole body ------------------------------------------------------------------------------------------------
    def ret_text(self, atom):
        if self.selfkind == "mut":
            return "return self" if self.ret == "unit" else f"return (self, {atom})"
        return f"return {atom}" if self.ret != "unit" else "return ()"

    def fn_body(self, block):
        return self.tail(block)

    def tail(self, e):
        """do-lines for an expression in tail (function result) position"""
        k = e[0]
        if k == "block":
            self.env.append({})
            lines = []
            for s in e[1]:
                lines += self.stmt(s)
            if e[2] is not None:
                lines += self.tail(e[2])
            else:
                lines.append(self.ret_text("()"))
            self.env.pop()
            return lines
        if k == "if":
            cl, ca, _ = self.expr(e[1], "bool")
            out = cl + [f"if {ca} then"] + ["  " + l for l in self.tail(e[2])]
            out += ["else"] + ["  " + l for l in (self.tail(e[3]) if e[3] is not None else [self.ret_text("()")])]
            return out
        if k == "match":
            return self.match(e, tail=True)
        if k == "return":
            return self.stmt(("expr", e))
        if k == "paren":
            return self.tail(e[1])
        if self.ret == "unit":
            # an expression statement whose value is () (e.g. a call of a unit method) in tail position
            lines = self.stmt(("expr", e))
            return lines + [self.ret_text("()")]
        lines, atom, t = self.expr(e, self.ret)
        return lines + [self.ret_text(atom)]

    # ---- statements ------------------------------------------------------------------------------------------------
    def stmt(self, s):
        if s[0] == "let":
            _, pat, mut, t, init = s
            rt = self.tr.rtype(t, self.selfty) if t is not None else None
            if pat[0] == "ppath" and len(pat[1]) == 1:
                name = pat[1][0]
                if init is None:
                    if rt is None: raise Unsupported("let without type and initialiser")
                    self.bind(name, rt, True)
                    return [f"let mut {lean_ident(name)} : {self.tr.ltype(rt)} := default"]
                lines, atom, at = self.expr(init, rt)
                self.bind(name, rt or at, mut)
                return lines + [f"let {'mut ' if mut else ''}{lean_ident(name)} : {self.tr.ltype(rt or at)} := {atom}"]
            raise Unsupported("let with a pattern")
        e = s[1]
        k = e[0]
        if k == "assign":
            return self.assign(e)
        if k == "if":
            cl, ca, _ = self.expr(e[1], "bool")
            out = cl + [f"if {ca} then"] + ["  " + l for l in self.block_stmts(e[2])]
            if e[3] is not None:
                out += ["else"] + ["  " + l for l in (self.block_stmts(e[3]) if e[3][0] == "block" else self.stmt(("expr", e[3])))]
            return out
        if k == "match":
            return self.match(e, tail=False)
        if k == "block":
            return self.block_stmts(e)
        if k == "return":
            if e[1] is None:
                return [self.ret_text("()")]
            lines, atom, t = self.expr(e[1], self.ret)
            return lines + [self.ret_text(atom)]
        if k == "for":
            return self.for_loop(e[1], e[2], e[3])
        if k == "while":
            # bounded unrolling: `whileFuel` iterations, then the condition must be false (otherwise `none`: no claim)
            self.env.append({})
            cl, ca, _ = self.expr(e[1], "bool")
            inner = self.block_stmts(e[2])
            self.env.pop()
            out = ["for _ in List.range whileFuel do"] + ["  " + l for l in cl] + [f"  if !{ca} then break"] + ["  " + l for l in inner]
            return out + cl + [f"if {ca} then failure"]
        if k == "unit":
            return ["pure ()"]
        if k == "mcall":
            r = self.mcall_stmt(e)
            if r is not None:
                return r
        lines, atom, t = self.expr(e, None)
        return lines or ["pure ()"]

    def block_stmts(self, b):
        self.env.append({})
        lines = []
        for s in b[1]:
            lines += self.stmt(s)
        if b[2] is not None:
            lines += self.stmt(("expr", b[2]))
        self.env.pop()
        return lines or ["pure ()"]

    def place(self, e):
        """(root variable, [field path], type) of an assignable place"""
        if e[0] == "path" and len(e[1]) == 1:
            v = self.lookup(e[1][0])
            if v is None: raise Unsupported(f"unknown variable {e[1][0]}")
            return e[1][0], [], v[0]
        if e[0] == "field":
            root, path, t = self.place(e[1])
            ft = self.field_type(t, e[2])
            return root, path + [self.field_name(t, e[2])], ft
        if e[0] == "un" and e[1] == "*":
            return self.place(e[2])
        raise Unsupported("assignment to a non-place expression")

    def store(self, root, path, atom):
        r = lean_ident(root)
        if not path:
            return [f"{r} := {atom}"]
        return [f"{r} := {{ {r} with {'.'.join(path)} := {atom} }}"]

    def assign(self, e):
        _, op, lhs, rhs = e
        root, path, t = self.place(lhs)
        if op == "=":
            lines, atom, _ = self.expr(rhs, t)
            return lines + self.store(root, path, atom)
        lines, atom, _ = self.expr(("bin", op[:-1], lhs, rhs), t)
        return lines + self.store(root, path, atom)

    def for_loop(self, pat, it, body):
        if pat[0] != "ppath" or len(pat[1]) != 1:
            raise Unsupported("for with a pattern")
        v = pat[1][0]
        if it[0] == "range":
            ll, la, lt = self.expr(it[1], None)
            hl, ha, ht = self.expr(it[2], lt if is_int(lt) else None)
            et = ht if is_int(ht) else (lt if is_int(lt) else "i32")
            src = f"List.range {ha}" if la == "0" else f"List.range' {la} ({ha} - {la})"
            lines = ll + hl
        else:
            lines, src, st = self.expr(it, None)
            if st[0] not in ("slice", "hvec", "array"): raise Unsupported("for over a non-list")
            et = st[1]
        self.env.append({v: (et, False)})
        inner = self.block_stmts(body)
        self.env.pop()
        return lines + [f"for {lean_ident(v)} in {src} do"] + ["  " + l for l in inner]

    # ---- match -----------------------------------------------------------------------------------------------------
    def match(self, e, tail, valty=None):
        _, scrut, arms = e
        sl, sa, st = self.expr(scrut, None)
        if is_int(st):
            # match on an integer against constants: an if-chain
            out = list(sl)
            first = True
            ind = ""
            for pat, guard, body in arms:
                if guard is not None: raise Unsupported("guard on integer match")
                alts = pat[1] if pat[0] == "por" else [pat]
                if alts[0][0] == "pwild" or (alts[0][0] == "ppath" and self.is_binding(alts[0])):
                    out.append("else" if not first else "if true then")
                    out += ["  " + l for l in self.arm(body, tail)]
                    break
                conds = []
                for a in alts:
                    if a[0] == "plit": _, ca, _ = self.expr(a[1], st)
                    elif a[0] == "ppath": _, ca, _ = self.expr(("path", a[1], []), st)
                    else: raise Unsupported("integer match pattern")
                    conds.append(f"{sa} == {ca}")
                out.append(f"{'if' if first else 'else if'} {' || '.join(conds)} then")
                out += ["  " + l for l in self.arm(body, tail)]
                first = False
            return out
        out = list(sl)
        wild = None
        if any(g is not None for _, g, _ in arms):
            # guards: supported when every guarded arm has its own head constructor and the match ends in an unguarded `_`
            # arm -- a failing guard then falls through to that arm, exactly as in Rust
            last = arms[-1]
            if last[0][0] != "pwild" or last[1] is not None:
                raise Unsupported("match guard without a final `_` arm")
            heads = [str(a[0]) for a in arms[:-1]]
            def head(p):
                while p[0] == "pctor" and p[1][-1] == "Some": p = p[2][0]
                return p[1][-1] if p[0] in ("pctor", "ppath") else None
            hs = [head(a[0]) for a in arms[:-1]]
            if None in hs or len(set(hs)) != len(hs):
                raise Unsupported("match guards on overlapping patterns")
            wild = last[2]
        out.append(f"match {sa} with")
        for pat, guard, body in arms:
            self.env.append({})
            ptxt = self.pat(pat, st)
            out.append(f"| {ptxt} =>")
            if guard is not None:
                gl, ga, _ = self.expr(guard, "bool")
                out += ["  " + l for l in gl] + [f"  if {ga} then"] + ["    " + l for l in self.arm(body, tail)]
                out += ["  else"] + ["    " + l for l in self.arm(wild, tail)]
            else:
                out += ["  " + l for l in self.arm(body, tail)]
            self.env.pop()
        return out

    def is_binding(self, p):
        if p[0] != "ppath" or len(p[1]) != 1: return False
        n = p[1][0]
        return not n[0].isupper()

    def arm(self, body, tail):
        if tail:
            return self.tail(body)
        if body[0] == "block":
            return self.block_stmts(body)
        return self.stmt(("expr", body))

    def pat(self, p, t):
        if p[0] == "pwild": return "_"
        if p[0] == "por": return " | ".join(self.pat(a, t) for a in p[1])
        if p[0] == "ppath":
            if self.is_binding(p):
                self.bind(p[1][0], t, False)
                return lean_ident(p[1][0])
            if t[0] == "adt": return "." + lean_ident(p[1][-1])
            if t[0] == "option" and p[1][-1] == "None": return "none"
            raise Unsupported(f"pattern {p}")
        if p[0] == "pctor":
            ctor = p[1][-1]
            if t[0] == "option" and ctor == "Some":
                sub = self.pat(p[2][0], t[1])
                return f"some ({sub})" if " " in sub else f"some {sub}"
            if t[0] == "adt":
                mod = t[1]
                en = self.tr.crate.mods[mod]["enums"].get(t[2])
                if en:
                    payload = dict(en[2])[ctor]
                    subs = [self.pat(sp, self.tr.rtype(pt)) for sp, pt in zip(p[2], payload)]
                    return "." + lean_ident(ctor) + "".join(" " + s for s in subs)
            if ext_name(t) == "MidiMessage" and ctor in MIDI_MSG:
                lname, payload = MIDI_MSG[ctor]
                subs = []
                for sp, pt in zip(p[2], payload):
                    if pt == "value14":
                        # the model carries a 14-bit value as its two data bytes (msb, lsb)
                        if sp[0] == "pwild": subs += ["_", "_"]
                        elif sp[0] == "ppath" and self.is_binding(sp):
                            v = sp[1][0]
                            self.bind(v, ("ext", "Value14", []), False)
                            self.alias = getattr(self, "alias", {})
                            self.alias[v] = f"({lean_ident(v)}_msb, {lean_ident(v)}_lsb)"
                            subs += [f"{lean_ident(v)}_msb", f"{lean_ident(v)}_lsb"]
                        else: raise Unsupported("pattern inside Value14")
                    else:
                        subs.append(self.pat(sp, "u8"))
                return "." + lname + "".join(" " + x for x in subs)
            raise Unsupported(f"constructor pattern {ctor}")
        if p[0] == "ptuple":
            return "(" + ", ".join(self.pat(sp, tt) for sp, tt in zip(p[1], t[1])) + ")"
        raise Unsupported(f"pattern {p[0]}")

    # ---- field helpers ---------------------------------------------------------------------------------------------
    def struct_of(self, t):
        if t[0] != "adt": raise Unsupported(f"field access on {tname(t)}")
        st = self.tr.crate.mods[t[1]]["structs"].get(t[2])
        if st is None: raise Unsupported(f"field access on enum {t[2]}")
        return st
    def field_type(self, t, f):
        st = self.struct_of(t)
        for fn, ft in st[3]:
            if fn == f:
                sub = Tr(self.tr.crate, t[1])
                rt = sub.rtype(ft, t)
                # substitute the struct's generic parameters by the arguments of `t`
                return self.subst_generics(rt, st[2], t[3])
        raise Unsupported(f"no field {f} in {t[2]}")
    def subst_generics(self, rt, gs, args):
        if not gs or not isinstance(rt, tuple): return rt
        m = {g: a for (g, _), a in zip(gs, args)}
        def sub(a):
            if isinstance(a, tuple) and a[0] == "path" and len(a[1]) == 1 and a[1][0] in m: return m[a[1][0]]
            return a
        if rt[0] == "adt": return ("adt", rt[1], rt[2], [sub(a) for a in rt[3]])
        return rt
    def field_name(self, t, f):
        st = self.struct_of(t)
        return ("_" + f) if st[4] else lean_ident(f)

    # ---- expressions -----------------------------------------------------------------------------------------------
    # expr(e, expected) -> (do-lines to run first, Lean atom text, Rust type)
    def expr(self, e, exp):
        k = e[0]
        if k == "paren":
            return self.expr(e[1], exp)
        if k == "int":
            body, suf = e[1], e[2]
            t = suf or (exp if (is_int(exp) or exp == "f32") else "i32")
            if t == "f32": raise Unsupported("integer literal in float position")
            b = body.replace("_", "")
            v = int(b, 0)
            return [], str(v), t
        if k == "float":
            q = frac_of_literal(e[1])
            return [], (f"(lit ({q.numerator} / {q.denominator}))" if q.denominator != 1 else f"(lit {q.numerator})"), "f32"
        if k == "unit":
            return [], "()", "unit"
        if k == "path":
            return self.path(e, exp)
        if k == "field":
            lines, atom, t = self.expr(e[1], None)
            if isinstance(t, tuple) and t[0] == "tuple":
                i = int(e[2])
                acc = atom
                # Lean nested pairs: (a, b, c).2.1
                n = len(t[1])
                proj = ".2" * i + (".1" if i < n - 1 else "")
                return lines, f"{atom}{proj}", t[1][i]
            ft = self.field_type(t, e[2])
            return lines, f"{atom}.{self.field_name(t, e[2])}", ft
        if k == "un":
            return self.unary(e, exp)
        if k == "bin":
            return self.binary(e, exp)
        if k == "cast":
            return self.cast(e, exp)
        if k == "call":
            return self.call(e, exp)
        if k == "mcall":
            return self.mcall(e, exp)
        if k == "index":
            return self.index(e, exp)
        if k == "structlit":
            return self.structlit(e, exp)
        if k in ("if", "match", "block"):
            return self.value_block(e, exp)
        if k == "tuple":
            parts = [self.expr(x, (exp[1][i] if isinstance(exp, tuple) and exp[0] == "tuple" else None)) for i, x in enumerate(e[1])]
            return sum([p[0] for p in parts], []), "(" + ", ".join(p[1] for p in parts) + ")", ("tuple", [p[2] for p in parts])
        raise Unsupported(f"expression {k}")

    def value_block(self, e, exp):
        """an if / match / block used for its value: a nested `do` block that yields the value (no outer mutation)"""
        sub = Ctx(self.tr, self.selfty, {}, None, exp if exp is not None else "?")
        sub.env = [dict(sc) for sc in self.env]
        sub.generics = self.generics
        sub.n = self.n + 100
        sub.inner = True
        if exp is None:
            exp = self.guess_type(e)
            sub.ret = exp
        lines = sub.tail(e)
        for l in lines:
            if re.search(r"\bself := |^\s*[a-z_0-9]+ := ", l) and not l.strip().startswith("let"):
                raise Unsupported("assignment inside an expression-position if/match")
        t = self.fresh("v")
        body = [("  " + l).replace("return ", "pure ", 1) if l.strip().startswith("return ") else "  " + l for l in lines]
        return [f"let {t} : {self.tr.ltype(exp)} ← (do"] + body + ["  )"], t, exp

    def guess_type(self, e):
        # type of a value block from its first leaf
        if e[0] == "block":
            if e[2] is None: return "unit"
            return self.guess_type(e[2])
        if e[0] == "if": return self.guess_type(e[2])
        if e[0] == "match": return self.guess_type(e[2][0][2])
        sub = Ctx(self.tr, self.selfty, {}, self.selfkind, self.ret)
        sub.env = [dict(sc) for sc in self.env]
        sub.generics = self.generics
        return sub.expr(e, None)[2]

    def path(self, e, exp):
        p = e[1]
        if len(p) == 1:
            n = p[0]
            if n in ("true", "false"):
                return [], n, "bool"
            v = self.lookup(n)
            if v is not None:
                return [], getattr(self, "alias", {}).get(n, lean_ident(n)), v[0]
            if n in self.generics:
                return [], n, getattr(self.tr, "cur_generic_types", {}).get(n, "u32")
            mod, it = self.tr.find("consts", n)
            if it is not None:
                return [], self.tr.qual(mod, n), Tr(self.tr.crate, mod).rtype(it[2])
            raise Unsupported(f"unknown name {n}")
        # two or more segments
        head, last = p[-2], p[-1]
        if head == "lookup_tables":
            if last in EXTERNAL_CONSTS:
                return [], EXTERNAL_CONSTS[last][0], EXTERNAL_CONSTS[last][1]
            if last in EXTERNAL_TABLES:
                return [], EXTERNAL_TABLES[last], ("table",)
        if head == "f32" and last == "MIN":
            return [], "(F32.ofBits 0xff7fffff)", "f32"
        if head == "f32" and last == "MAX":
            return [], "(F32.ofBits 0x7f7fffff)", "f32"
        if head in INT_BITS and last == "MAX":
            return [], str(2 ** INT_BITS[head] - 1), head
        tn = head
        if tn == "Self" and self.selfty is not None and self.selfty[0] == "adt":
            tn = self.selfty[2]
        mod, it = self.tr.find("enums", tn)
        if it is not None and last in dict(it[2]) and not dict(it[2])[last]:
            return [], f"{self.tr.qual(mod, tn)}.{lean_ident(last)}", ("adt", mod, tn, [])
        mod, _ = self.tr.find("structs", tn)
        if mod is not None and (tn + "::" + last) in self.tr.crate.mods[mod]["consts"]:
            c = self.tr.crate.mods[mod]["consts"][tn + "::" + last]
            return [], f"{self.tr.qual(mod, tn)}.{lean_ident(last)}", Tr(self.tr.crate, mod).rtype(c[2], ("adt", mod, tn, []))
        raise Unsupported(f"path {'::'.join(p)}")

    def unary(self, e, exp):
        op = e[1]
        if op in ("&", "*"):
            return self.expr(e[2], exp)
        lines, atom, t = self.expr(e[2], exp)
        if op == "-":
            if t == "f32": return lines, f"(F32.neg {atom})", t
            raise Unsupported("integer negation")
        if op == "!":
            if t == "bool": return lines, f"(!{atom})", t
            if is_int(t): return lines, f"(unot {INT_BITS[t]} {atom})", t
        raise Unsupported(f"unary {op} on {tname(t)}")

    FOPS = {"+": "F32.add", "-": "F32.sub", "*": "F32.mul", "/": "F32.div", "%": "F32.fmod"}
    FCMP = {"<": "F32.lt {a} {b}", "<=": "F32.le {a} {b}", ">": "F32.lt {b} {a}", ">=": "F32.le {b} {a}", "==": "F32.feq {a} {b}", "!=": "!(F32.feq {a} {b})"}

    def binary(self, e, exp):
        _, op, l, r = e
        if op in ("&&", "||"):
            ll, la, _ = self.expr(l, "bool")
            rl, ra, _ = self.expr(r, "bool")
            if rl:
                # short circuit: the right operand's effects (possible panics) only happen when it is evaluated
                t = self.fresh("b")
                if op == "&&":
                    return ll + [f"let {t} : Bool ← (do", f"  if {la} then"] + ["    " + x for x in rl] + [f"    pure {ra}", "  else pure false)"], t, "bool"
                return ll + [f"let {t} : Bool ← (do", f"  if {la} then pure true else"] + ["    " + x for x in rl] + [f"    pure {ra})"], t, "bool"
            return ll, f"({la} {op} {ra})", "bool"
        cmp_ = op in ("==", "!=", "<", ">", "<=", ">=")
        shift = op in ("<<", ">>")
        # operand types: infer one side, use it as the expectation for the other (integer literals adapt)
        lexp = None if cmp_ else exp
        if l[0] == "int" and l[2] is None and not shift:
            rl, ra, rt = self.expr(r, lexp)
            ll, la, lt = self.expr(l, rt)
        else:
            ll, la, lt = self.expr(l, lexp)
            rl, ra, rt = self.expr(r, None if shift else lt)
        lines = ll + rl
        if cmp_:
            if lt == "f32":
                return lines, "(" + self.FCMP[op].format(a=la, b=ra) + ")", "bool"
            if is_int(lt) or lt == "bool" or (isinstance(lt, tuple) and lt[0] == "adt"):
                lop = {"==": "==", "!=": "!=", "<": "<", ">": ">", "<=": "≤", ">=": "≥"}[op]
                if lop in ("==", "!="):
                    return lines, f"({la} {lop} {ra})", "bool"
                return lines, f"(decide ({la} {lop} {ra}))", "bool"
            raise Unsupported(f"comparison on {tname(lt)}")
        if lt == "bool" and op in ("|", "&", "^"):
            bop = {"|": "||", "&": "&&", "^": "!="}[op]
            return lines, f"({la} {bop} {ra})", "bool"
        if lt == "f32":
            if op not in self.FOPS: raise Unsupported(f"float operator {op}")
            return lines, f"({self.FOPS[op]} {la} {ra})", "f32"
        if is_int(lt):
            bits = INT_BITS[lt]
            total = {"&": "&&&", "|": "|||", "^": "^^^"}
            if op in total:
                return lines, f"({la} {total[op]} {ra})", lt
            if self.constmode:
                # constant expressions: rustc evaluates them at compile time and rejects overflow, so plain arithmetic
                cop = {"+": "+", "-": "-", "*": "*", "/": "/", "%": "%", "<<": "<<<", ">>": ">>>"}[op]
                return lines, f"({la} {cop} {ra})", lt
            bname = {"u8": "U8", "u16": "U16", "u32": "U32", "usize": "Usize", "u64": "Usize", "i32": "U32"}[lt] + ".bound"
            prim = {"+": f"uadd {bname}", "-": "usub", "*": f"umul {bname}", "/": "udiv", "%": "urem",
                    "<<": f"ushl {bits}", ">>": f"ushr {bits}"}[op]
            t = self.fresh()
            return lines + [f"let {t} ← {prim} {la} {ra}"], t, lt
        raise Unsupported(f"operator {op} on {tname(lt)}")

    def cast(self, e, exp):
        tt = self.tr.rtype(e[2], self.selfty)
        lines, atom, st = self.expr(e[1], None if tt == "f32" else (tt if e[1][0] == "int" else None))
        if st == tt:
            return lines, atom, tt
        if is_int(st) and tt == "f32":
            return lines, f"(F32.ofNat {atom})", tt
        if st == "f32" and is_int(tt):
            return lines, (f"(F32.toU32 {atom})" if tt == "u32" else f"(f32ToU {INT_BITS[tt]} {atom})"), tt
        if is_int(st) and is_int(tt):
            if INT_BITS[tt] >= INT_BITS[st] and st != "i32":
                return lines, atom, tt
            return lines, f"(ucast {INT_BITS[tt]} {atom})", tt
        raise Unsupported(f"cast {tname(st)} as {tname(tt)}")

    def index(self, e, exp):
        bl, ba, bt = self.expr(e[1], None)
        if e[2][0] == "range":
            lo = e[2]
            ll, la, _ = self.expr(lo[1], "usize")
            if lo[2] is not None: raise Unsupported("bounded range index")
            t = self.fresh()
            return bl + ll + [f"let {t} ← sliceFrom {ba} {la}"], t, ("slice", bt[1])
        il, ia, it = self.expr(e[2], "usize")
        t = self.fresh()
        if bt == ("table",):
            return bl + il + [f"let {t} ← tbl {ba} {ia}"], t, "f32"
        if bt[0] in ("slice", "array", "hvec"):
            return bl + il + [f"let {t} ← idx {ba} {ia}"], t, bt[1]
        raise Unsupported(f"index into {tname(bt)}")

    def structlit(self, e, exp):
        p, fields = e[1], e[2]
        tn = p[-1]
        if tn == "Self":
            t = self.selfty
        else:
            t = self.tr.rtype(("path", [tn], []), self.selfty)
        if exp is not None and isinstance(exp, tuple) and exp[0] == "adt" and exp[2] == t[2]:
            t = exp
        lines, parts = [], []
        for f, fe in fields:
            ft = self.field_type(t, f)
            fl, fa, _ = self.expr(fe, ft)
            lines += fl
            parts.append(f"{self.field_name(t, f)} := {fa}")
        return lines, "({ " + ", ".join(parts) + " } : " + self.tr.ltype(t) + ")", t

    # ---- calls -----------------------------------------------------------------------------------------------------
    def args(self, params, args, selfty):
        lines, atoms = [], []
        for (pn, pt, _), a in zip(params, args):
            al, aa, _ = self.expr(a, pt)
            lines += al; atoms.append(aa)
        return lines, atoms

    def call(self, e, exp):
        f, args = e[1], e[2]
        if f[0] != "path": raise Unsupported(f"call of a non-path: {str(f)[:120]}")
        p = f[1]
        if len(p) == 1:
            mod, it = self.tr.find("fns", p[0])
            if it is None:
                if p[0] == "Some":
                    al, aa, at = self.expr(args[0], exp[1] if isinstance(exp, tuple) and exp[0] == "option" else None)
                    return al, f"(some {aa})", ("option", at)
                if p[0] == "Self" and self.selfty is not None:
                    return self.tuple_ctor(self.selfty, args)
                raise Unsupported(f"unknown function {p[0]}")
            sub = Tr(self.tr.crate, mod)
            params = [(pn, sub.rtype(pt), m) for pn, pt, m in it[4]]
            lines, atoms = self.args(params, args, None)
            rt = sub.rtype(it[5])
            t = self.fresh()
            return lines + [f"let {t} ← {self.tr.qual(mod, p[0])} {' '.join(atoms)}"], t, rt
        tn, fn = p[-2], p[-1]
        if tn == "Self" and self.selfty is not None and self.selfty[0] == "adt":
            tn = self.selfty[2]
        if tn in INT_BITS and fn == "from":
            # u8::from(x): the dependency's value types convert to u8 (Deps) ; crate newtypes via their From impl
            al, aa, at = self.expr(args[0], None)
            r = self.conv(aa, at, tn)
            if r is None: raise Unsupported(f"{tn}::from({tname(at)})")
            return al + r[0], r[1], tn
        if tn == "f32" and fn == "from":
            al, aa, at = self.expr(args[0], None)
            r = self.conv(aa, at, "f32")
            if r is None: raise Unsupported(f"f32::from({tname(at)})")
            return al + r[0], r[1], "f32"
        mod, st = self.tr.find("structs", tn)
        if st is None:
            mod, st = self.tr.find("enums", tn)
        if st is not None:
            if st[0] == "enum" and fn in dict(st[2]):
                payload = dict(st[2])[fn]
                sub = Tr(self.tr.crate, mod)
                lines, atoms = [], []
                for a, pt in zip(args, payload):
                    al, aa, _ = self.expr(a, sub.rtype(pt)); lines += al; atoms.append(aa)
                return lines, f"({self.tr.qual(mod, tn)}.{lean_ident(fn)} {' '.join(atoms)})", ("adt", mod, tn, [])
            meth = self.tr.crate.mods[mod]["methods"].get((tn, fn))
            if meth is None and fn == "from":
                # T::from(x) via `impl From<X> for T`
                al, aa, at = self.expr(args[0], None)
                r = self.conv(aa, at, ("adt", mod, tn, []))
                if r is None: raise Unsupported(f"{tn}::from({tname(at)})")
                return al + r[0], r[1], ("adt", mod, tn, [])
            if meth is None: raise Unsupported(f"unknown associated function {tn}::{fn}")
            it, gs, trait = meth
            sub = Tr(self.tr.crate, mod)
            gargs = None
            if isinstance(exp, tuple) and exp[0] == "adt" and exp[2] == tn:
                gargs = exp[3]
            sty = ("adt", mod, tn, gargs if gargs is not None else [("path", [g], []) for g, _ in gs])
            params = [(pn, sub.rtype(pt, sty), m) for pn, pt, m in it[4]]
            lines, atoms = self.args(params, args, sty)
            rt = sub.rtype(it[5], sty)
            gtxt = ""
            if gs and gargs is None and self.selfty is not None and self.selfty[0] == "adt" and self.selfty[2] == tn \
                    and all(g in self.generics for g, _ in gs):
                # `Self::helper()` inside the same generic impl: the const generics are those of the enclosing impl
                gtxt = "".join(f" ({g} := {g})" for g, _ in gs)
            if gs and gargs is not None:
                gtxt = "".join(f" ({g} := {self.tr.const_arg(a) if not (a[0] == 'path' and a[1][0] in self.generics) else a[1][0]})" for (g, _), a in zip(gs, gargs))
            t = self.fresh()
            return lines + [f"let {t} ← Src.{mod}.{self.tr.mname(mod, tn, fn)}{gtxt} {' '.join(atoms)}".rstrip()], t, rt
        r = deps_call(self, tn, fn, args, f[2], exp)
        if r is not None:
            return r
        raise Unsupported(f"call {'::'.join(p)}")

    def tuple_ctor(self, t, args):
        st = self.struct_of(t)
        lines, parts = [], []
        for (f, ft), a in zip(st[3], args):
            al, aa, _ = self.expr(a, self.field_type(t, f)); lines += al
            parts.append(f"_{f} := {aa}")
        return lines, "({ " + ", ".join(parts) + " } : " + self.tr.ltype(t) + ")", t

    def conv(self, atom, src, dst):
        """`From`/`Into` conversion src -> dst through an impl in the crate (or the dependency model)"""
        if src == dst:
            return [], atom
        for mod, d in self.tr.crate.mods.items():
            for (tn, mname), (it, gs, trait) in d["methods"].items():
                if trait is None or tname(trait) != "From" or it[1] != "from": continue
                sub = Tr(self.tr.crate, mod)
                target = sub.rtype(("path", [tn], []))
                arg = sub.rtype(trait[2][0])
                if arg == src and target == dst:
                    t = self.fresh()
                    lname = f"{sub.qual(mod, tn)}.from_{tname(trait[2][0])}"
                    return [f"let {t} ← {lname} {atom}"], t
        return deps_conv(self, atom, src, dst)

    def mcall_stmt(self, e):
        """method call in statement position that mutates its receiver place"""
        _, recv, name, args, targs = e
        if name == "ok" and not args and recv[0] == "mcall":
            return self.mcall_stmt(recv)
        try:
            root, path, t = self.place(recv)
        except Unsupported:
            return None
        v = self.lookup(root)
        r = deps_mcall_stmt(self, root, path, t, name, args)
        if r is not None:
            return r
        if t[0] != "adt": return None
        meth = self.tr.crate.mods[t[1]]["methods"].get((t[2], name))
        if meth is None: return None
        it, gs, trait = meth
        if it[3] != "mut": return None
        lines, atom, rt = self.mcall(e, None)
        return lines or ["pure ()"]

    def mcall(self, e, exp):
        _, recv, name, args, targs = e
        # numeric methods
        if name in ("min", "max") and len(args) == 1:
            rl, ra, rt = self.expr(recv, exp if exp in ("f32",) or is_int(exp) else None)
            al, aa, _ = self.expr(args[0], rt)
            if rt == "f32":
                return rl + al, f"(F32.f{name} {ra} {aa})", rt
            if is_int(rt):
                return rl + al, f"({name} {ra} {aa})", rt
        if name == "into" and not args:
            rl, ra, rt = self.expr(recv, None)
            if exp is None: raise Unsupported("`.into()` without a known target type")
            if rt == exp: return rl, ra, rt
            r = self.conv(ra, rt, exp)
            if r is None: raise Unsupported(f"{tname(rt)}.into() -> {tname(exp)}")
            return rl + r[0], r[1], exp
        if name == "ok" and not args:
            return self.expr(recv, exp)
        if name == "len" and not args:
            rl, ra, rt = self.expr(recv, None)
            if rt[0] in ("slice", "hvec", "array"): return rl, f"{ra}.length", "usize"
        if name == "is_empty" and not args:
            rl, ra, rt = self.expr(recv, None)
            if rt[0] in ("slice", "hvec", "array"): return rl, f"{ra}.isEmpty", "bool"
        if name == "iter" and not args:
            return self.expr(recv, exp)
        if name == "for_each" and len(args) == 1 and args[0][0] == "closure":
            raise Unsupported("for_each in expression position")
        r = deps_mcall(self, recv, name, args, targs, exp)
        if r is not None:
            return r
        # methods of crate types
        rl, ra, rt = self.expr(recv, None)
        if isinstance(rt, tuple) and rt[0] == "adt":
            meth = self.tr.crate.mods[rt[1]]["methods"].get((rt[2], name))
            if meth is None: raise Unsupported(f"unknown method {rt[2]}::{name}")
            it, gs, trait = meth
            sub = Tr(self.tr.crate, rt[1])
            params = [(pn, sub.rtype(pt, rt), m) for pn, pt, m in it[4]]
            lines, atoms = self.args(params, args, rt)
            mret = sub.rtype(it[5], rt)
            callee = f"Src.{rt[1]}.{self.tr.mname(rt[1], rt[2], name)}"
            t = self.fresh()
            if it[3] == "mut":
                root, path, _ = self.place(recv)
                if getattr(self, "inner", False): raise Unsupported("mutating call inside an expression-position if/match")
                if mret == "unit":
                    return rl + lines + [f"let {t} ← {callee} {' '.join([ra] + atoms)}"] + self.store(root, path, t), "()", "unit"
                t2 = self.fresh()
                return rl + lines + [f"let ({t}, {t2}) ← {callee} {' '.join([ra] + atoms)}"] + self.store(root, path, t), t2, mret
            return rl + lines + [f"let {t} ← {callee} {' '.join([ra] + atoms)}"], t, mret
        raise Unsupported(f"method {name} on {tname(rt)}")


# ---------------------------------------------------------------------------------------------------------------------
# dependency crates (heapless, biquad, midi-convert): modelled by hand in SynthVerif/Src/Deps.lean; the translator only
# needs to know the Lean names and types of the handful of entry points the crate calls

def ext_name(t):
    return t[1] if isinstance(t, tuple) and t[0] == "ext" else None

def deps_call(ctx, tn, fn, args, targs, exp):
    if tn == "Vec" and fn == "new":
        if isinstance(exp, tuple) and exp[0] == "hvec":
            return [], "[]", exp
        if targs and len(targs) == 2:
            return [], "[]", ("hvec", ctx.tr.rtype(targs[0]), targs[1][1] if targs[1][0] == "expr" else targs[1])
        raise Unsupported("Vec::new() of unknown capacity")
    if tn == "MidiByteStreamParser" and fn == "new":
        return [], "ParserState.idle", ("ext", "MidiByteStreamParser", [])
    if tn == "HistoryBuffer" and fn == "new":
        if ext_name(exp) == "HistoryBuffer":
            cap = exp[2][1]
            cap = cap[1] if isinstance(cap, tuple) and cap[0] == "expr" else cap
            return [], f"(HistBuf.new {ctx.tr.const_arg(cap)})", exp
        raise Unsupported("HistoryBuffer::new() of unknown capacity")
    if tn == "Coefficients" and fn == "from_params":
        # Coefficients::<f32>::from_params(Type::X, fs, f0, q) -> Result<Coefficients, Errors>
        ty = args[0]
        if ty[0] != "path" or ty[1][-2:-1] != ["Type"]: raise Unsupported("from_params with a computed filter type")
        atoms, lines = [], []
        for a, t in zip(args[1:], [("ext", "Hertz", []), ("ext", "Hertz", []), "f32"]):
            al, aa, _ = ctx.expr(a, t); lines += al; atoms.append(aa)
        return lines, f"(Deps.from_params Deps.FilterType.{ty[1][-1]} {' '.join(atoms)})", ("result", ("ext", "Coefficients", []))
    if tn == "DirectForm1" and fn == "new":
        al, aa, _ = ctx.expr(args[0], ("ext", "Coefficients", []))
        return al, f"(Deps.DirectForm1.new {aa})", ("ext", "DirectForm1", [])
    return None

def deps_conv(ctx, atom, src, dst):
    if src == dst:
        return [], atom
    if ext_name(src) == "Value14" and dst == "f32":
        return [], f"(value14ToF32 {atom}.1 {atom}.2)"
    return None

def deps_mcall(ctx, recv, name, args, targs, exp):
    # iterator chain `buff.oldest_ordered().take(n).sum::<f32>()`
    if name == "sum" and recv[0] == "mcall" and recv[2] == "take" and recv[1][0] == "mcall" and recv[1][2] == "oldest_ordered":
        bl, ba, bt = ctx.expr(recv[1][1], None)
        if ext_name(bt) != "HistoryBuffer": return None
        nl, na, _ = ctx.expr(recv[3][0], "usize")
        return bl + nl, f"(Deps.fsum ((HistBuf.oldestOrdered {ba}).take {na}))", "f32"
    if name == "parse" and len(args) == 1:
        try:
            root, path, t = ctx.place(recv)
        except Unsupported:
            return None
        if ext_name(t) == "MidiByteStreamParser":
            if getattr(ctx, "inner", False): raise Unsupported("mutating call inside an expression-position if/match")
            al, aa, _ = ctx.expr(args[0], "u8")
            cur = ".".join([lean_ident(root)] + path)
            t1, t2 = ctx.fresh(), ctx.fresh()
            return al + [f"let ({t1}, {t2}) := parserStep {cur} {aa}"] + ctx.store(root, path, t1), t2, ("option", ("ext", "MidiMessage", []))
    if name == "unwrap_or" and len(args) == 1:
        rl, ra, rt = ctx.expr(recv, None)
        if isinstance(rt, tuple) and rt[0] == "option":
            al, aa, _ = ctx.expr(args[0], rt[1])
            return rl + al, f"(({ra}).getD {aa})", rt[1]
        return None
    if name == "last" and not args:
        rl, ra, rt = ctx.expr(recv, None)
        if isinstance(rt, tuple) and rt[0] in ("hvec", "slice", "array"):
            return rl, f"({ra}.getLast?)", ("option", rt[1])
    if name in ("max", "min") and not args:
        rl, ra, rt = ctx.expr(recv, None)      # `.iter()` is transparent
        if isinstance(rt, tuple) and rt[0] in ("hvec", "slice", "array") and is_int(rt[1]):
            return rl, f"(Deps.iter{name.capitalize()} {ra})", ("option", rt[1])
    if name == "unwrap" and not args:
        rl, ra, rt = ctx.expr(recv, None)
        if isinstance(rt, tuple) and rt[0] in ("result", "option"):
            t = ctx.fresh()
            return rl + [f"let {t} ← {ra}"], t, rt[1]
        return None
    if name == "hz" and not args:
        rl, ra, rt = ctx.expr(recv, "f32")
        if rt == "f32":
            t = ctx.fresh()
            return rl + [f"let {t} ← Deps.hz {ra}"], t, ("ext", "Hertz", [])
        if ext_name(rt) == "Hertz":
            return rl, f"{ra}.v", "f32"
    if name == "capacity" and not args:
        rl, ra, rt = ctx.expr(recv, None)
        if ext_name(rt) == "HistoryBuffer":
            return rl, f"(HistBuf.capacity {ra})", "usize"
    if name == "run" and len(args) == 1:
        try:
            root, path, t = ctx.place(recv)
        except Unsupported:
            return None
        if ext_name(t) == "DirectForm1":
            if getattr(ctx, "inner", False): raise Unsupported("mutating call inside an expression-position if/match")
            al, aa, _ = ctx.expr(args[0], "f32")
            cur = ".".join([lean_ident(root)] + path)
            t1, t2 = ctx.fresh(), ctx.fresh()
            return al + [f"let ({t1}, {t2}) := Deps.DirectForm1.run {cur} {aa}"] + ctx.store(root, path, t1), t2, "f32"
    return None

def deps_mcall_stmt(ctx, root, path, t, name, args):
    cur = ".".join([lean_ident(root)] + path)
    if isinstance(t, tuple) and t[0] == "hvec" and name == "push":
        al, aa, _ = ctx.expr(args[0], t[1])
        cap = ctx.tr.const_arg(t[2])
        return al + ctx.store(root, path, f"(hvPush {cap} {cur} {aa})")
    if isinstance(t, tuple) and t[0] == "hvec" and name == "clear" and not args:
        return ctx.store(root, path, "[]")
    if isinstance(t, tuple) and t[0] == "hvec" and name == "retain" and len(args) == 1 and args[0][0] == "closure":
        cl = args[0]
        if len(cl[1]) != 1 or cl[1][0][0] != "ppath": raise Unsupported("retain with a pattern closure")
        v = cl[1][0][1][0]
        ctx.env.append({v: (t[1], False)})
        bl, ba, _ = ctx.expr(cl[2], "bool")
        ctx.env.pop()
        if bl: raise Unsupported("retain closure with checked arithmetic")
        return ctx.store(root, path, f"({cur}.filter fun {lean_ident(v)} => {ba})")
    if ext_name(t) == "HistoryBuffer" and name == "write":
        al, aa, _ = ctx.expr(args[0], "f32")
        return al + ctx.store(root, path, f"(HistBuf.write {cur} {aa})")
    if ext_name(t) == "DirectForm1" and name == "update_coefficients":
        al, aa, _ = ctx.expr(args[0], ("ext", "Coefficients", []))
        return al + ctx.store(root, path, f"(Deps.DirectForm1.update_coefficients {cur} {aa})")
    return None


def for_each_rewrite(e):
    """`xs.iter().for_each(|n| body)` -> `for n in xs { body }` (statement position)"""
    if isinstance(e, tuple):
        if e and e[0] == "mcall" and e[2] == "for_each" and len(e[3]) == 1 and e[3][0][0] == "closure":
            recv = e[1]
            if recv[0] == "mcall" and recv[2] == "iter": recv = recv[1]
            cl = e[3][0]
            body = cl[2] if cl[2][0] == "block" else ("block", [("expr", for_each_rewrite(cl[2]))], None)
            return ("for", cl[1][0], recv, for_each_rewrite(body))
        return tuple(for_each_rewrite(x) for x in e)
    if isinstance(e, list):
        return [for_each_rewrite(x) for x in e]
    return e

# ---------------------------------------------------------------------------------------------------------------------

MODULES = ["utils", "phase_accumulator", "lfo", "adsr", "quantizer", "ribbon_controller", "glide_processor", "mono_midi_receiver"]

def main():
    src = sys.argv[1] if len(sys.argv) > 1 else "/repo/src"
    out = sys.argv[2] if len(sys.argv) > 2 else os.path.join(os.path.dirname(os.path.dirname(os.path.abspath(__file__))), "lean", "SynthVerif", "Gen", "Src")
    os.makedirs(out, exist_ok=True)
    crate = Crate()
    report = {}
    mods = []
    for m in MODULES:
        try:
            crate.load(src, [m])
            crate.mods[m] = for_each_rewrite_mod(crate.mods[m])
            mods.append(m)
        except (Unsupported, OSError, ValueError, IndexError) as e:
            report[m] = [dict(item="module", status="untranslated", reason=f"{type(e).__name__}: {e}")]
    changed = []
    for m in MODULES:
        if m in mods:
            tr = Tr(crate, m)
            try:
                text = tr.emit_module()
                report[m] = tr.report
            except Exception as e:       # a translator crash
                if os.environ.get("RS2LEAN_DEBUG"): raise      # (a tool problem: the module counts as untranslated)
                text = f"/-! GENERATED: translation of {m}.rs failed: {type(e).__name__}: {e} -/\n"
                report[m] = [dict(item="module", status="untranslated", reason=f"{type(e).__name__}: {e}")]
        else:
            text = f"/-! GENERATED: {m}.rs could not be read: {report[m][0]['reason']} -/\n"
        p = os.path.join(out, m + ".lean")
        if not os.path.exists(p) or open(p).read() != text:
            open(p, "w").write(text)
            changed.append(m)
    json.dump(report, open(os.path.join(out, "report.json"), "w"), indent=1)
    n_ok = sum(1 for r in report.values() for x in r if x["status"] == "translated")
    n_bad = sum(1 for r in report.values() for x in r if x["status"] != "translated")
    print(f"rs2lean: {n_ok} items translated, {n_bad} untranslated; rewritten: {', '.join(changed) if changed else 'none'}")
    for m, r in report.items():
        for x in r:
            if x["status"] != "translated":
                print(f"  untranslated {m}: {x['item']}: {x.get('reason')}")

def for_each_rewrite_mod(d):
    for k, it in list(d["fns"].items()):
        d["fns"][k] = it[:6] + (for_each_rewrite(it[6]),) + it[7:]
    for k, (it, gs, trait) in list(d["methods"].items()):
        d["methods"][k] = (it[:6] + (for_each_rewrite(it[6]),) + it[7:], gs, trait)
    return d

if __name__ == "__main__":
    main()
