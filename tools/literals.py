#!/usr/bin/env python3
"""literals.py <src-dir> [--write-baseline]: the numeric literals of the crate's source (tables, unit tests and
verif-hooks items excluded), compared with the committed baseline `tools/literals_baseline.json` (the pinned tree).

A literal that is new in the working tree is a value the generators' boundary pools know nothing about (a threshold, a
magic input, a count).  `check` feeds such values to the stream mutator (`dict_mutate`), so that model and implementation
are also compared — and the property oracles also judge — at and around exactly those values, as arguments, as MIDI
bytes and as repetition counts.  Search support only: it decides nothing."""
import sys, os, json, struct
sys.path.insert(0, os.path.dirname(os.path.abspath(__file__)))
import rs2lean
from fractions import Fraction

FILES = ["utils", "phase_accumulator", "lfo", "adsr", "quantizer", "ribbon_controller", "glide_processor", "mono_midi_receiver"]

def literals(src):
    out = {}
    for m in FILES:
        p = os.path.join(src, m + ".rs")
        if not os.path.exists(p):
            continue
        txt = open(p).read()
        k = txt.find("#[cfg(test)]")
        if k >= 0:
            txt = txt[:k]
        # drop verif-hooks items textually (they end at the closing brace at column 0 or at `;`)
        try:
            toks = rs2lean.lex(txt)
        except Exception:
            continue
        vals = []
        for kind, v in toks:
            if kind == "int":
                try:
                    vals.append(("i", int(v[0].replace("_", ""), 0)))
                except ValueError:
                    pass
            elif kind == "float":
                try:
                    q = rs2lean.frac_of_literal(v[0])
                    vals.append(("f", float(q)))
                except Exception:
                    pass
        out[m] = vals
    return out

def main():
    src = sys.argv[1] if len(sys.argv) > 1 else "/repo/src"
    base_p = os.path.join(os.path.dirname(os.path.abspath(__file__)), "literals_baseline.json")
    cur = literals(src)
    if "--write-baseline" in sys.argv:
        json.dump({m: sorted(map(tuple, v)) for m, v in cur.items()}, open(base_p, "w"))      # with multiplicity
        print("baseline written")
        return
    base = json.load(open(base_p)) if os.path.exists(base_p) else {}
    new = []
    for m, vals in cur.items():
        # per module; a value counts as known in either spelling (3 and 3.0)
        known_vals = {float(v) for _, v in base.get(m, [])}
        for k, v in vals:
            if float(v) not in known_vals and (k, v, m) not in new:
                new.append((k, v, m))
    if new:
        # once the source has values the pinned tree does not know, values that merely occur *more often* than before join the
        # dictionary too (a needle may combine a new constant with an old one: note 101 *and* velocity 7)
        from collections import Counter
        for m, vals in cur.items():
            had = Counter(float(v) for _, v in base.get(m, []))
            now = Counter(float(v) for _, v in vals)
            for k, v in vals:
                if now[float(v)] > had[float(v)] and (k, v, m) not in new and m in {x[2] for x in new}:
                    new.append((k, v, m))
    ints = sorted({int(v) for k, v, _ in new if k == "i"} | {int(v) for k, v, _ in new if k == "f" and float(v).is_integer() and abs(v) < 2 ** 40})
    floats = sorted({float(v) for _, v, _ in new})
    json.dump(dict(ints=ints, floats=floats, where=sorted({m for _, _, m in new})), sys.stdout)

if __name__ == "__main__":
    main()
