#!/usr/bin/env python3
"""Confirm sub-agent seeded changes in scratch worktrees and file the confirmed ones under /verif/seeded.

usage: confirm_seeded.py <outdir> <first-index> [ids...]
  <outdir>/<Cxx>/patch<k>.diff, demo<k>.rs, note<k>.txt  (k = 1..)  ->  /verif/seeded/<Cxx>-<first-index+k-1>/

A change is kept only if, in a fresh worktree of /repo HEAD:
  unchanged: demo passes;  patched: the 62 unit + 4 doc tests pass and the demo fails (test failure, not a build error).
Scratch worktrees live under /tmp/confirm and are removed with their build output.
"""
import json, os, re, shutil, subprocess, sys
from concurrent.futures import ThreadPoolExecutor

REPO = "/repo"
SCR = "/tmp/confirm"
ENV = dict(os.environ, CARGO_NET_OFFLINE="true")


def sh(cmd, cwd=None, timeout=1800):
    p = subprocess.run(cmd, shell=True, cwd=cwd, env=ENV, stdout=subprocess.PIPE, stderr=subprocess.STDOUT, text=True, timeout=timeout)
    return p.returncode, p.stdout


def results(out):
    return " ".join(l.strip() for l in out.splitlines() if l.startswith("test result:"))


def confirm(outdir, pid, k, idx):
    src = os.path.join(outdir, pid)
    patch = os.path.join(src, f"patch{k}.diff")
    demo = os.path.join(src, f"demo{k}.rs")
    note = os.path.join(src, f"note{k}.txt")
    name = f"{pid}-{idx}"
    if not (os.path.exists(patch) and os.path.exists(demo)):
        return name, False, "missing files"
    wt = os.path.join(SCR, name)
    sh(f"git -C {REPO} worktree remove --force {wt}")
    shutil.rmtree(wt, ignore_errors=True)
    rc, out = sh(f"git -C {REPO} worktree add -q --detach {wt} HEAD")
    if rc:
        return name, False, "worktree: " + out
    try:
        shutil.copy(os.path.join(REPO, "Cargo.lock"), wt)
        os.makedirs(os.path.join(wt, "tests"), exist_ok=True)
        shutil.copy(demo, os.path.join(wt, "tests", "demo.rs"))
        rc0, o0 = sh("cargo test --offline --test demo", cwd=wt)
        if rc0 != 0:
            return name, False, "demo fails on the unchanged crate: " + results(o0)
        rc, out = sh(f"git apply --check {patch} && git apply {patch}", cwd=wt)
        if rc:
            return name, False, "patch does not apply: " + out[-300:]
        touched = sh("git diff --name-only", cwd=wt)[1].split()
        if any(not t.startswith("src/") for t in touched):
            return name, False, f"touches non-src files {touched}"
        os.rename(os.path.join(wt, "tests", "demo.rs"), os.path.join(wt, "demo.rs.keep"))
        os.rmdir(os.path.join(wt, "tests"))
        rc1, o1 = sh("cargo test --workspace --no-fail-fast --offline", cwd=wt)
        r1 = results(o1)
        if rc1 != 0 or "62 passed" not in r1 or "4 passed" not in r1:
            return name, False, "suite does not pass with the patch: " + r1
        rcf, of = sh("cargo test --workspace --no-fail-fast --offline --features verif-hooks", cwd=wt)
        if rcf != 0:
            return name, False, "suite with verif-hooks does not pass: " + results(of)
        os.makedirs(os.path.join(wt, "tests"), exist_ok=True)
        os.rename(os.path.join(wt, "demo.rs.keep"), os.path.join(wt, "tests", "demo.rs"))
        rc2, o2 = sh("cargo test --offline --test demo", cwd=wt)
        r2 = results(o2)
        if rc2 == 0 or "FAILED" not in r2:
            return name, False, "demo does not fail with the patch: " + (r2 or o2[-300:])
        dst = os.path.join("/verif/seeded", name)
        os.makedirs(dst, exist_ok=True)
        shutil.copy(patch, os.path.join(dst, "patch.diff"))
        shutil.copy(demo, os.path.join(dst, "demo.rs"))
        meta = {
            "property": pid,
            "origin": os.environ.get("SEED_ORIGIN", "independent sub-agent given only the property text and a scratch worktree"),
            "needs_to_manifest": open(note).read().strip() if os.path.exists(note) else "",
            "confirmed": {
                "how": "scratch worktree of /repo HEAD: demo copied to tests/demo.rs; cargo test --offline (suite, with and without verif-hooks) and cargo test --offline --test demo, with and without the patch",
                "unchanged_demo": results(o0),
                "patched_suite": r1,
                "patched_demo": r2,
            },
        }
        json.dump(meta, open(os.path.join(dst, "meta.json"), "w"), indent=1)
        return name, True, r2
    finally:
        sh(f"git -C {REPO} worktree remove --force {wt}")
        shutil.rmtree(wt, ignore_errors=True)


def main():
    outdir, first = sys.argv[1], int(sys.argv[2])
    ids = sys.argv[3:] or sorted(d for d in os.listdir(outdir) if re.fullmatch(r"C\d\d", d))
    os.makedirs(SCR, exist_ok=True)
    jobs = []
    for pid in ids:
        ks = sorted(int(m.group(1)) for f in os.listdir(os.path.join(outdir, pid)) if (m := re.fullmatch(r"patch(\d+)\.diff", f)))
        for k in ks:
            jobs.append((outdir, pid, k, first + k - 1))
    with ThreadPoolExecutor(max_workers=6) as ex:
        for name, ok, why in ex.map(lambda j: confirm(*j), jobs):
            print(("KEPT    " if ok else "DROPPED ") + name + "  " + why, flush=True)
    sh(f"git -C {REPO} worktree prune")
    shutil.rmtree(SCR, ignore_errors=True)


if __name__ == "__main__":
    main()
