#!/usr/bin/env python3
"""dep2lean.py [harness-lock] [out-dir]
Translates the one piece of dependency *logic* the MIDI properties rest on — `midi_convert::MidiByteStreamParser::parse`
(midi-convert, src/parse.rs) with its three helper functions, and the `From<u8>` / `From<(u8,u8)>` conversions of `midi-types`
it calls — from the dependency sources in the cargo registry (the versions named in the harness lock file) into
lean/SynthVerif/Gen/Dep/midi_convert.lean:

  parse         : ParserState → Nat → ParserState × Option MidiMsg      the function, over the model's own state/message types
  parse_asserts : ParserState → Nat → Bool                              the conjunction of the `debug_assert!`s on the executed path

`SynthVerif/Tie/DepMidi.lean` proves `parse = parserStep` (the hand-written model of the parser) and that no assertion fires.
Literal, small and specialised: a tokenizer, a recursive-descent parser for the expression forms that occur in those functions
(if / match / blocks / let / assignment to self.state / calls / `.into()` / `&` / `==`), and an emitter.  Anything else is an error:
the output file then says so and the tie is reported as not established (never guessed).
"""
import glob, json, os, re, sys

ROOT = os.path.dirname(os.path.dirname(os.path.abspath(__file__)))


class Unsupported(Exception):
    pass


# ---------------------------------------------------------------- source location
def registry_src(name, version):
    home = os.environ.get("CARGO_HOME") or os.path.expanduser("~/.cargo")
    c = sorted(glob.glob(os.path.join(home, "registry", "src", "*", f"{name}-{version}", "src")))
    if not c:
        raise Unsupported(f"source of {name} {version} not found in the cargo registry")
    return c[0]


def lock_versions(lock):
    txt = open(lock).read()
    out = {}
    for blk in txt.split("[[package]]")[1:]:
        d = dict(re.findall(r'^(\w+) = "([^"]*)"', blk, flags=re.M))
        out[d.get("name")] = d.get("version")
    return out


# ---------------------------------------------------------------- lexer
TOK = re.compile(r"\s*(?:(0x[0-9a-fA-F_]+|\d[\d_]*)(?:u8|u16|u32|usize|i16|i32)?|([A-Za-z_][A-Za-z0-9_]*)|(::|=>|==|->|<=|[{}()\[\],;=&.<>!|:@#]))")


def strip_comments(s):
    s = re.sub(r"/\*.*?\*/", "", s, flags=re.S)
    s = re.sub(r"//[^\n]*", "", s)
    return re.sub(r'"(?:[^"\\]|\\.)*"', '""', s)


def lex(s):
    s = strip_comments(s)
    pos, out = 0, []
    while pos < len(s):
        m = TOK.match(s, pos)
        if not m:
            if s[pos:].strip() == "":
                break
            # a character outside the translated subset (the whole file is lexed, only a few items are parsed)
            k = len(s[pos:]) - len(s[pos:].lstrip())
            out.append(("p", s[pos + k]))
            pos += k + 1
            continue
        pos = m.end()
        if m.group(1) is not None:
            out.append(("int", int(m.group(1).replace("_", ""), 0)))
        elif m.group(2) is not None:
            out.append(("id", m.group(2)))
        else:
            out.append(("p", m.group(3)))
    return out


# ---------------------------------------------------------------- parser
class P:
    def __init__(self, toks):
        self.t, self.i = toks, 0

    def peek(self, k=0):
        return self.t[self.i + k] if self.i + k < len(self.t) else ("eof", None)

    def eat(self, kind=None, val=None):
        tk = self.peek()
        if (kind and tk[0] != kind) or (val is not None and tk[1] != val):
            raise Unsupported(f"parser: expected {val or kind}, found {tk[1]!r} at token {self.i}")
        self.i += 1
        return tk

    def at(self, val):
        return self.peek()[1] == val and self.peek()[0] in ("p", "id")

    # path := id (:: id)*
    def path(self):
        names = [self.eat("id")[1]]
        while self.at("::"):
            self.eat()
            names.append(self.eat("id")[1])
        return names

    def block(self):
        self.eat("p", "{")
        stmts, tail = [], None
        while not self.at("}"):
            if self.at("let"):
                self.eat()
                pat = self.pattern()
                self.eat("p", "=")
                e = self.expr()
                self.eat("p", ";")
                stmts.append(("let", pat, e))
                continue
            e = self.expr()
            if self.at("="):
                self.eat()
                rhs = self.expr()
                self.eat("p", ";")
                stmts.append(("assign", e, rhs))
            elif self.at(";"):
                self.eat()
                stmts.append(("expr", e))
            elif self.at("}"):
                tail = e
            elif e[0] in ("if", "match"):
                stmts.append(("expr", e))
            else:
                raise Unsupported(f"parser: statement form at token {self.i}")
        self.eat("p", "}")
        if tail is None and stmts and stmts[-1][0] == "expr" and stmts[-1][1][0] in ("if", "match"):
            tail = stmts.pop()[1]
        return ("block", stmts, tail)

    def pattern(self):
        tk = self.peek()
        if tk[0] == "int":
            self.eat()
            return ("plit", tk[1])
        if tk == ("id", "_"):
            self.eat()
            return ("pwild",)
        if tk == ("p", "("):
            self.eat()
            ids = []
            while not self.at(")"):
                ids.append(self.pattern())
                if self.at(","):
                    self.eat()
            self.eat("p", ")")
            return ("ptuple", ids)
        names = self.path()
        if self.at("("):
            self.eat()
            args = []
            while not self.at(")"):
                args.append(self.pattern())
                if self.at(","):
                    self.eat()
            self.eat("p", ")")
            return ("pctor", names, args)
        if len(names) == 1:
            return ("pvar", names[0])
        return ("pctor", names, [])

    def expr(self):
        l = self.band()
        if self.at("=="):
            self.eat()
            r = self.band()
            return ("bin", "==", l, r)
        return l

    def band(self):
        l = self.postfix()
        while self.at("&"):
            self.eat()
            r = self.postfix()
            l = ("bin", "&", l, r)
        return l

    def postfix(self):
        e = self.primary()
        while self.at("."):
            self.eat()
            name = self.eat("id")[1]
            if self.at("("):
                self.eat()
                args = []
                while not self.at(")"):
                    args.append(self.expr())
                    if self.at(","):
                        self.eat()
                self.eat("p", ")")
                e = ("method", e, name, args)
            else:
                e = ("field", e, name)
        return e

    def primary(self):
        tk = self.peek()
        if tk[0] == "int":
            self.eat()
            return ("lit", tk[1])
        if tk == ("id", "if"):
            self.eat()
            c = self.expr()
            t = self.block()
            self.eat("id", "else")
            f = self.block()
            return ("if", c, t, f)
        if tk == ("id", "match"):
            self.eat()
            s = self.expr()
            self.eat("p", "{")
            arms = []
            while not self.at("}"):
                pat = self.pattern()
                self.eat("p", "=>")
                body = self.block() if self.at("{") else self.expr()
                if self.at(","):
                    self.eat()
                arms.append((pat, body))
            self.eat("p", "}")
            return ("match", s, arms)
        if tk == ("p", "("):
            self.eat()
            es = []
            while not self.at(")"):
                es.append(self.expr())
                if self.at(","):
                    self.eat()
            self.eat("p", ")")
            return es[0] if len(es) == 1 else ("tuple", es)
        if tk == ("p", "{"):
            return self.block()
        if tk[0] == "id":
            names = self.path()
            if self.at("("):
                self.eat()
                args = []
                while not self.at(")"):
                    args.append(self.expr())
                    if self.at(","):
                        self.eat()
                self.eat("p", ")")
                return ("call", names, args)
            return ("path", names)
        raise Unsupported(f"parser: unexpected token {tk[1]!r} at {self.i}")


def find_fn(toks, name):
    """tokens of `fn name(...) [-> ty] { body }`: returns (param names, return-type tokens, body AST)"""
    for i in range(len(toks) - 1):
        if toks[i] == ("id", "fn") and toks[i + 1] == ("id", name):
            p = P(toks)
            p.i = i + 2
            p.eat("p", "(")
            params, depth = [], 0
            cur = []
            while True:
                tk = p.eat()
                if tk == ("p", "(") or tk == ("p", "<"):
                    depth += 1
                if tk == ("p", ")") and depth == 0:
                    if cur:
                        params.append(cur)
                    break
                if tk == ("p", ")") or tk == ("p", ">"):
                    depth -= 1
                if tk == ("p", ",") and depth == 0:
                    params.append(cur)
                    cur = []
                else:
                    cur.append(tk)
            ret = []
            if p.at("->"):
                p.eat()
                while not p.at("{"):
                    ret.append(p.eat())
            body = p.block()
            pn = []
            for prm in params:
                ids = [t[1] for t in prm if t[0] == "id"]
                # `&mut self` -> self ; `byte: u8` -> byte
                pn.append("self" if "self" in ids else ids[0])
            return pn, ret, body
    raise Unsupported(f"fn {name} not found")


def find_enum(toks, name):
    """variants of `enum name { V, V(T, T), ... }` -> [(variant, [type names])]"""
    for i in range(len(toks) - 1):
        if toks[i] == ("id", "enum") and toks[i + 1] == ("id", name):
            p = P(toks)
            p.i = i + 2
            p.eat("p", "{")
            out = []
            while not p.at("}"):
                if p.at("#"):          # attribute
                    p.eat(); p.eat("p", "[")
                    d = 1
                    while d:
                        tk = p.eat()
                        d += tk == ("p", "[")
                        d -= tk == ("p", "]")
                    continue
                v = p.eat("id")[1]
                tys = []
                if p.at("("):
                    p.eat()
                    while not p.at(")"):
                        tys.append(p.eat("id")[1])
                        if p.at(","):
                            p.eat()
                    p.eat("p", ")")
                if p.at(","):
                    p.eat()
                out.append((v, tys))
            return out
    raise Unsupported(f"enum {name} not found")


# ---------------------------------------------------------------- midi-types conversions
def balanced(txt, i):
    """the text of the brace group that opens at txt[i]"""
    assert txt[i] == "{"
    d = 0
    for j in range(i, len(txt)):
        d += txt[j] == "{"
        d -= txt[j] == "}"
        if d == 0:
            return txt[i:j + 1]
    raise Unsupported("unbalanced braces")


def conversions(types_src):
    """T -> (assert bound, clamp bound): `impl From<u8> for T { fn from(x: u8) -> Self { debug_assert!(x <= N); ... } }`"""
    msg = strip_comments(open(os.path.join(types_src, "message.rs")).read())
    note = strip_comments(open(os.path.join(types_src, "note.rs")).read())
    out = {}
    for T, txt in (("Channel", msg), ("Control", msg), ("Program", msg), ("Value7", msg), ("QuarterFrame", msg), ("Note", note)):
        m = re.search(r"impl From<u8> for %s \{\s*fn from\((\w+): u8\) -> Self \{\s*debug_assert!\(\1 <= (\d+)\);\s*([^}]*)\}" % T, txt)
        if not m:
            raise Unsupported(f"midi-types: `impl From<u8> for {T}` has an unexpected shape")
        var, bound, body = m.group(1), int(m.group(2)), m.group(3).strip()
        clamp = None
        if re.fullmatch(r"Self::new\(%s\)" % var, body):
            im = re.search(r"impl %s \{" % T, txt)
            n = re.search(r"pub (?:const )?fn new\((\w+): u8\) -> Self \{", txt[im.start():] if im else "")
            if not n:
                raise Unsupported(f"midi-types: `{T}::new` not found")
            st = im.start() + n.end() - 1
            nb = re.sub(r"\s+", " ", balanced(txt, st)[1:-1].strip())
            v = n.group(1)
            m1 = re.fullmatch(r"Self\(if %s > (\d+) \{ (\d+) \} else \{ %s \}\)" % (v, v), nb)
            m2 = re.fullmatch(r"Self\(%s\.min\((\d+)\)\)" % v, nb)
            m3 = re.fullmatch(r"Self\(%s\)" % v, nb)
            if m1 and m1.group(1) == m1.group(2):
                clamp = int(m1.group(1))
            elif m2:
                clamp = int(m2.group(1))
            elif m3:
                clamp = None
            else:
                raise Unsupported(f"midi-types: `{T}::new` has an unexpected shape: {nb!r}")
        elif re.fullmatch(r"(?:Self|%s)\(%s\.min\((\d+)\)\)" % (T, var), body):
            clamp = int(re.search(r"min\((\d+)\)", body).group(1))
        elif re.fullmatch(r"(?:Self|%s)\(%s\)" % (T, var), body):
            clamp = None
        else:
            raise Unsupported(f"midi-types: `From<u8> for {T}` body has an unexpected shape: {body!r}")
        out[T] = (bound, clamp)
    m = re.search(r"impl From<\(u8, u8\)> for Value14 \{\s*fn from\((\w+): \(u8, u8\)\) -> Self \{\s*debug_assert!\(\1\.0 <= (\d+)\);\s*debug_assert!\(\1\.1 <= (\d+)\);\s*Self\(\1\.0\.min\((\d+)\), \1\.1\.min\((\d+)\)\)\s*\}", msg)
    if not m:
        raise Unsupported("midi-types: `impl From<(u8, u8)> for Value14` has an unexpected shape")
    out["Value14"] = ((int(m.group(2)), int(m.group(3))), (int(m.group(4)), int(m.group(5))))
    return out


# ---------------------------------------------------------------- emitter
LOWER = lambda s: s[0].lower() + s[1:]
MSG_NAME = {"PitchBendChange": "pitchBend", "SongPositionPointer": "songPosition"}


class Em:
    def __init__(self, state_variants, msg_variants, conv, fns):
        self.sv = dict(state_variants)
        self.mv = dict(msg_variants)
        self.conv = conv
        self.fns = fns               # helper fn name -> (params, ret type tokens, body)
        self.n = 0

    def fresh(self, base):
        self.n += 1
        return f"{base}{self.n}"

    # --- value expressions; `exp` = expected Rust type name (for `.into()`), returns (lean term(s), [assert terms])
    def ex(self, e, cur, exp=None):
        k = e[0]
        if k == "lit":
            return str(e[1]), []
        if k == "path":
            n = e[1]
            if n == ["None"]:
                return "none", []
            if len(n) == 1:
                return n[0], []
            if n[0] == "MidiMessage":
                return "MidiMsg." + MSG_NAME.get(n[1], LOWER(n[1])), []
            if n[0] == "MidiParserState":
                return "ParserState." + LOWER(n[1]), []
            raise Unsupported(f"path {'::'.join(n)}")
        if k == "field":
            if e[1] == ("path", ["self"]) and e[2] == "state":
                return cur, []
            raise Unsupported("field access other than self.state")
        if k == "bin":
            a, ca = self.ex(e[2], cur)
            b, cb = self.ex(e[3], cur)
            return (f"(({a}) &&& ({b}))" if e[1] == "&" else f"(({a}) == ({b}))"), ca + cb
        if k == "tuple":
            parts, cs = [], []
            tys = exp if isinstance(exp, list) else [None] * len(e[1])
            for x, ty in zip(e[1], tys):
                t, c = self.ex(x, cur, ty)
                parts.append(t); cs += c
            return "(" + ", ".join(parts) + ")", cs
        if k == "method" and e[2] == "into" and not e[3]:
            if exp == "Value14":
                if e[1][0] != "tuple" or len(e[1][1]) != 2:
                    raise Unsupported("Value14 built from something else than a pair")
                (a, ca), (b, cb) = self.ex(e[1][1][0], cur), self.ex(e[1][1][1], cur)
                (b0, b1), (m0, m1) = self.conv["Value14"]
                return f"(Nat.min ({a}) {m0}) (Nat.min ({b}) {m1})", ca + cb + [f"decide (({a}) ≤ {b0})", f"decide (({b}) ≤ {b1})"]
            if exp in self.conv:
                a, ca = self.ex(e[1], cur)
                bound, clamp = self.conv[exp]
                return (f"(Nat.min ({a}) {clamp})" if clamp is not None else f"({a})"), ca + [f"decide (({a}) ≤ {bound})"]
            if exp in ("u8", None):
                raise Unsupported(f"`.into()` with unknown target type {exp}")
            raise Unsupported(f"`.into()` into {exp}")
        if k == "call":
            n = e[1]
            if n == ["Some"]:
                a, c = self.ex(e[2][0], cur, "MidiMessage")
                return f"some ({a})", c
            if n[0] in ("MidiMessage", "MidiParserState") and len(n) == 2:
                tys = (self.mv if n[0] == "MidiMessage" else self.sv).get(n[1])
                if tys is None or len(tys) != len(e[2]):
                    raise Unsupported(f"constructor {'::'.join(n)} arity")
                head = ("MidiMsg." + MSG_NAME.get(n[1], LOWER(n[1]))) if n[0] == "MidiMessage" else "ParserState." + LOWER(n[1])
                parts, cs = [], []
                for x, ty in zip(e[2], tys):
                    t, c = self.ex(x, cur, ty)
                    parts.append(t if t.startswith("(") or " " not in t else f"({t})"); cs += c
                return head + " " + " ".join(parts), cs
            if len(n) == 1 and n[0] in self.fns:
                parts, cs = [], []
                for x in e[2]:
                    t, c = self.ex(x, cur)
                    parts.append(f"({t})"); cs += c
                return f"{n[0]} " + " ".join(parts), cs + [f"{n[0]}_asserts " + " ".join(parts)]
            raise Unsupported(f"call {'::'.join(n)}")
        raise Unsupported(f"expression form {k}")

    def pat(self, p):
        k = p[0]
        if k == "plit":
            return str(p[1])
        if k == "pwild":
            return "_"
        if k == "pvar":
            return p[1]
        if k == "ptuple":
            return "(" + ", ".join(self.pat(x) for x in p[1]) + ")"
        if k == "pctor":
            n = p[1]
            head = "ParserState." + LOWER(n[1]) if n[0] == "MidiParserState" else None
            if head is None:
                raise Unsupported(f"pattern {'::'.join(n)}")
            return head + "".join(" " + self.pat(x) for x in p[2])
        raise Unsupported(f"pattern form {k}")

    # --- code in tail position: mode "val" -> term of type ParserState × Option MidiMsg; mode "chk" -> Bool
    def tail(self, e, cur, mode, ind, ret="pair"):
        sp = "  " * ind
        k = e[0]
        if k == "if":
            c, cc = self.ex(e[1], cur)
            t = self.tail(e[2], cur, mode, ind + 1, ret)
            f = self.tail(e[3], cur, mode, ind + 1, ret)
            body = f"if {c} then\n{sp}  {t}\n{sp}else\n{sp}  {f}"
            return self.wrap(body, cc, mode)
        if k == "match":
            s, sc = self.ex(e[1], cur)
            arms = "".join(f"\n{sp}| {self.pat(p)} => {self.tail(b, cur, mode, ind + 2, ret)}" for p, b in e[2])
            return self.wrap(f"(match {s} with{arms})", sc, mode)
        if k == "block":
            pre, checks = [], []
            for st in e[1]:
                if st[0] == "assign":
                    if not (st[1][0] == "field" and st[1][1] == ("path", ["self"]) and st[1][2] == "state"):
                        raise Unsupported("assignment to something else than self.state")
                    v, c = self.ex(st[2], cur)
                    checks += c
                    nm = self.fresh("st")
                    pre.append(f"let {nm} := {v}")
                    cur = nm
                elif st[0] == "let":
                    exp = None
                    if st[2][0] == "call" and st[2][1][0] in self.fns:
                        exp = None
                    v, c = self.ex(st[2], cur, exp)
                    checks += [x for x in c]
                    pre.append(f"let {self.pat(st[1])} := {v}")
                else:
                    raise Unsupported("expression statement")
            if e[2] is None:
                raise Unsupported("block without a value")
            t = self.tail(e[2], cur, mode, ind, ret)
            t = self.wrap(t, checks, mode)
            return "".join(p + "\n" + sp for p in pre) + t
        # a leaf: the returned Option<MidiMessage> (parse) or the value of a helper
        if ret == "pair":
            v, c = self.ex(e, cur)
            return self.wrap(f"({cur}, {v})" if mode == "val" else "true", c, mode)
        v, c = self.ex(e, cur, ret)
        return self.wrap(v if mode == "val" else "true", c, mode)

    def wrap(self, body, checks, mode):
        if mode == "val" or not checks:
            return body
        return "(" + " && ".join(checks) + " && (" + body + "))"


def translate(lock):
    vers = lock_versions(lock)
    conv_src = registry_src("midi-convert", vers.get("midi-convert"))
    types_src = registry_src("midi-types", vers.get("midi-types"))
    toks = lex(open(os.path.join(conv_src, "parse.rs")).read())
    mtoks = lex(open(os.path.join(types_src, "message.rs")).read())
    sv = find_enum(toks, "MidiParserState")
    mv = find_enum(mtoks, "MidiMessage")
    conv = conversions(types_src)
    helpers = {}
    for h in ("is_status_byte", "is_system_message", "split_message_and_channel"):
        helpers[h] = find_fn(toks, h)
    params, ret, body = find_fn(toks, "parse")
    if params != ["self", "byte"]:
        raise Unsupported(f"parse has parameters {params}")
    em = Em(sv, mv, conv, helpers)
    out = ["import SynthVerif.Model.Midi",
           f"/-! GENERATED by tools/dep2lean.py from midi-convert {vers.get('midi-convert')} src/parse.rs and midi-types {vers.get('midi-types')} "
           "src/{message,note}.rs in the cargo registry.  Do not edit. -/",
           "set_option linter.unusedVariables false", "namespace Dep.midi_convert", ""]
    for h, (ps, rt, b) in helpers.items():
        rts = [t[1] for t in rt if t[0] == "id"]
        if rts == ["bool"]:
            lty, exp = "Bool", None
        elif rts == ["u8", "Channel"]:
            lty, exp = "Nat × Nat", ["u8", "Channel"]
        else:
            raise Unsupported(f"helper {h} returns {rts}")
        args = " ".join(f"({p} : Nat)" for p in ps)
        out.append(f"def {h} {args} : {lty} :=\n  {em.tail(b, 'state', 'val', 1, ret=exp or 'bool')}")
        out.append(f"def {h}_asserts {args} : Bool :=\n  {em.tail(b, 'state', 'chk', 1, ret=exp or 'bool')}\n")
    out.append("/-- `MidiByteStreamParser::parse(&mut self, byte)`: new parser state and the message returned -/")
    out.append(f"def parse (state : ParserState) (byte : Nat) : ParserState × Option MidiMsg :=\n  {em.tail(body, 'state', 'val', 1)}\n")
    em.n = 0
    out.append("/-- every `debug_assert!` evaluated on the path `parse` takes holds -/")
    out.append(f"def parse_asserts (state : ParserState) (byte : Nat) : Bool :=\n  {em.tail(body, 'state', 'chk', 1)}\n")
    out.append("end Dep.midi_convert")
    return "\n".join(out) + "\n", dict(midi_convert=vers.get("midi-convert"), midi_types=vers.get("midi-types"),
                                       state_variants=len(sv), message_variants=len(mv), conversions={k: list(v) if not isinstance(v[0], tuple) else [list(v[0]), list(v[1])] for k, v in conv.items()})


# ================================================================ biquad: the one-pole coefficients and DirectForm1 (f32)
FTOK = re.compile(r"\s*(?:(\d[\d_]*\.\d*(?:_?f32)?|\d[\d_]*_?f32)|(\d[\d_]*)|([A-Za-z_][A-Za-z0-9_]*)|(::|=>|==|->|<=|>=|[{}()\[\],;=&.<>!|:@#+\-*/]))")


def flex(s):
    s = strip_comments(s)
    pos, out = 0, []
    while pos < len(s):
        m = FTOK.match(s, pos)
        if not m:
            if s[pos:].strip() == "":
                break
            k = len(s[pos:]) - len(s[pos:].lstrip())
            out.append(("p", s[pos + k]))
            pos += k + 1
            continue
        pos = m.end()
        if m.group(1) is not None:
            out.append(("float", m.group(1).replace("_", "").replace("f32", "").rstrip(".") or "0"))
        elif m.group(2) is not None:
            out.append(("int", int(m.group(2).replace("_", ""))))
        elif m.group(3) is not None:
            out.append(("id", m.group(3)))
        else:
            out.append(("p", m.group(4)))
    return out


class FP(P):
    """float expressions: + - * / with the usual precedence, comparisons < >, paths, `x.hz()`, field access"""

    def cmp(self):
        l = self.add()
        if self.at(">") or self.at("<"):
            op = self.eat()[1]
            r = self.add()
            return ("cmp", op, l, r)
        return l

    def add(self):
        l = self.mul()
        while self.at("+") or self.at("-"):
            op = self.eat()[1]
            l = ("arith", op, l, self.mul())
        return l

    def mul(self):
        l = self.atom()
        while self.at("*") or self.at("/"):
            op = self.eat()[1]
            l = ("arith", op, l, self.atom())
        return l

    def atom(self):
        tk = self.peek()
        if tk[0] == "float":
            self.eat()
            return ("flit", tk[1])
        if tk == ("p", "("):
            self.eat()
            e = self.cmp()
            self.eat("p", ")")
            return e
        if tk[0] != "id":
            raise Unsupported(f"float expression: unexpected token {tk[1]!r}")
        e = ("path", self.path())
        while self.at("."):
            self.eat()
            name = self.eat("id")[1]
            if self.at("("):
                self.eat(); self.eat("p", ")")
                e = ("method", e, name, [])
            else:
                e = ("field", e, name)
        return e


def femit(e, selfname="d"):
    k = e[0]
    if k == "flit":
        num = e[1]
        if "." in num:
            a, b = num.split(".")
            q = f"{int(a + b)} / {10 ** len(b)}" if b else a
        else:
            q = num
        return f"(lit ({q}))"
    if k == "arith":
        op = {"+": "F32.add", "-": "F32.sub", "*": "F32.mul", "/": "F32.div"}[e[1]]
        return f"({op} {femit(e[2], selfname)} {femit(e[3], selfname)})"
    if k == "cmp":
        a, b = femit(e[2], selfname), femit(e[3], selfname)
        return f"(F32.lt {b} {a})" if e[1] == ">" else f"(F32.lt {a} {b})"
    if k == "path":
        n = e[1]
        if n == ["core", "f32", "consts", "PI"]:
            return "Deps.pi32"
        if len(n) == 1:
            return selfname if n[0] == "self" else n[0]
        raise Unsupported(f"path {'::'.join(n)} in a float expression")
    if k == "method":
        if e[2] == "hz":
            return f"{femit(e[1], selfname)}.v"
        raise Unsupported(f"method .{e[2]}() in a float expression")
    if k == "field":
        return f"{femit(e[1], selfname)}.{e[2]}"
    raise Unsupported(f"float expression form {k}")


def seek(toks, seq, start=0):
    for i in range(start, len(toks) - len(seq) + 1):
        if all(toks[i + j][1] == seq[j] for j in range(len(seq))):
            return i
    raise Unsupported("token sequence not found: " + " ".join(map(str, seq)))


def translate_biquad(lock):
    vers = lock_versions(lock)
    src = registry_src("biquad", vers.get("biquad"))
    # ---- Coefficients::<f32>::from_params, the arm for the filter type in use
    toks = flex(open(os.path.join(src, "coefficients.rs")).read())
    i = seek(toks, ["impl", "Coefficients", "<", "f32", ">", "{"])
    i = seek(toks, ["fn", "from_params", "("], i)
    sig_end = seek(toks, [")", "->"], i)
    params = [toks[j][1] for j in range(i + 3, sig_end) if toks[j][0] == "id" and toks[j + 1] == ("p", ":")]
    if params != ["filter", "fs", "f0", "q_value"]:
        raise Unsupported(f"from_params has parameters {params}")
    p = FP(toks)
    p.i = seek(toks, ["{"], sig_end)
    p.eat("p", "{")
    guards, lets = [], []
    while not p.at("match"):
        if p.at("if"):
            p.eat()
            c = p.cmp()
            p.eat("p", "{"); p.eat("id", "return"); p.eat("id", "Err"); p.eat("p", "(")
            p.path(); p.eat("p", ")"); p.eat("p", ";"); p.eat("p", "}")
            guards.append(c)
        elif p.at("let"):
            p.eat()
            nm = p.eat("id")[1]
            p.eat("p", "=")
            lets.append((nm, p.cmp()))
            p.eat("p", ";")
        else:
            raise Unsupported("from_params: unexpected statement before `match filter`")
    p.eat("id", "match"); p.eat("id", "filter"); p.eat("p", "{")
    p.i = seek(toks, ["Type", "::", "SinglePoleLowPassApprox", "=>", "{"], p.i) + 5
    while p.at("let"):
        p.eat()
        nm = p.eat("id")[1]
        p.eat("p", "=")
        lets.append((nm, p.cmp()))
        p.eat("p", ";")
    p.eat("id", "Ok"); p.eat("p", "("); p.eat("id", "Coefficients"); p.eat("p", "{")
    fields = []
    while not p.at("}"):
        f = p.eat("id")[1]
        p.eat("p", ":")
        fields.append((f, p.cmp()))
        if p.at(","):
            p.eat()
    p.eat("p", "}"); p.eat("p", ")")
    if sorted(f for f, _ in fields) != ["a1", "a2", "b0", "b1", "b2"]:
        raise Unsupported(f"Coefficients literal has fields {[f for f, _ in fields]}")
    out = ["import SynthVerif.Src.Deps",
           f"/-! GENERATED by tools/dep2lean.py from biquad {vers.get('biquad')} src/coefficients.rs and src/lib.rs in the cargo registry.  Do not edit. -/",
           "open F32 Rs", "namespace Dep.biquad", "",
           "/-- `Coefficients::<f32>::from_params(Type::SinglePoleLowPassApprox, fs, f0, q_value)`; `none` = `Err(_)` -/",
           "def from_params_single_pole_approx (fs f0 : Deps.Hertz) (q_value : F32) : Option Deps.Coefficients :="]
    body = ""
    for g in guards:
        body += f"  if {femit(g)} then none else\n"
    for nm, e in lets:
        body += f"  let {nm} := {femit(e)}\n"
    body += "  some { " + ", ".join(f"{f} := {femit(e)}" for f, e in fields) + " }"
    out.append(body + "\n")
    # ---- DirectForm1::<f32>: new, run, update_coefficients
    lt = flex(open(os.path.join(src, "lib.rs")).read())
    i = seek(lt, ["impl", "DirectForm1", "<", "f32", ">", "{"])
    i = seek(lt, ["fn", "new", "(", "coefficients"], i)
    q = FP(lt)
    q.i = seek(lt, ["DirectForm1", "{"], i) + 2
    nf = []
    while not q.at("}"):
        f = q.eat("id")[1]
        q.eat("p", ":")
        nf.append((f, q.cmp()))
        if q.at(","):
            q.eat()
    if sorted(f for f, _ in nf) != ["coeffs", "x1", "x2", "y1", "y2"]:
        raise Unsupported(f"DirectForm1 literal has fields {[f for f, _ in nf]}")
    out.append("/-- `DirectForm1::<f32>::new(coefficients)` -/")
    out.append("def new (coefficients : Deps.Coefficients) : Deps.DirectForm1 :=\n  { " + ", ".join(f"{f} := {femit(e)}" for f, e in nf) + " }\n")
    i = seek(lt, ["impl", "Biquad", "<", "f32", ">", "for", "DirectForm1", "<", "f32", ">", "{"])
    i = seek(lt, ["fn", "run", "(", "&", "mut", "self", ",", "input", ":", "f32", ")"], i)
    q.i = seek(lt, ["{"], i) + 1
    q.eat("id", "let")
    onm = q.eat("id")[1]
    q.eat("p", "=")
    oexp = q.cmp()
    q.eat("p", ";")
    steps = []
    while q.peek() == ("id", "self"):
        q.eat(); q.eat("p", ".")
        f = q.eat("id")[1]
        q.eat("p", "=")
        steps.append((f, q.cmp()))
        q.eat("p", ";")
    ret = q.eat("id")[1]
    q.eat("p", "}")
    if ret != onm:
        raise Unsupported("run does not return its `out`")
    out.append("/-- `<DirectForm1<f32> as Biquad<f32>>::run(&mut self, input)`: assignments in source order -/")
    body = f"def run (d : Deps.DirectForm1) (input : F32) : Deps.DirectForm1 × F32 :=\n  let {onm} := {femit(oexp, 'd')}\n"
    cur = "d"
    for k, (f, e) in enumerate(steps):
        nxt = f"d{k + 1}"
        body += f"  let {nxt} : Deps.DirectForm1 := {{ {cur} with {f} := {femit(e, cur)} }}\n"
        cur = nxt
    body += f"  ({cur}, {onm})\n"
    out.append(body)
    i = seek(lt, ["fn", "update_coefficients", "(", "&", "mut", "self", ",", "new_coefficients"], i)
    q.i = seek(lt, ["{"], i) + 1
    q.eat("id", "self"); q.eat("p", "."); f = q.eat("id")[1]; q.eat("p", "="); v = q.eat("id")[1]; q.eat("p", ";"); q.eat("p", "}")
    out.append("/-- `update_coefficients(&mut self, new_coefficients)` -/")
    out.append(f"def update_coefficients (d : Deps.DirectForm1) (new_coefficients : Deps.Coefficients) : Deps.DirectForm1 :=\n  {{ d with {f} := {v} }}\n")
    # ---- Hertz::<f32>::from_hz (behind `x.hz()`)
    ft = flex(open(os.path.join(src, "frequency.rs")).read())
    i = seek(ft, ["impl", "Hertz", "<", "f32", ">", "{"])
    i = seek(ft, ["fn", "from_hz", "(", "hz", ":", "f32", ")"], i)
    r = FP(ft)
    r.i = seek(ft, ["{"], i) + 1
    r.eat("id", "if")
    c = r.cmp()
    r.eat("p", "{"); r.eat("id", "Ok"); r.eat("p", "("); r.eat("id", "Hertz"); r.eat("p", "("); a = r.eat("id")[1]; r.eat("p", ")"); r.eat("p", ")"); r.eat("p", "}")
    r.eat("id", "else"); r.eat("p", "{"); r.eat("id", "Err")
    i2 = seek(ft, ["impl", "ToHertz", "<", "f32", ">", "for", "f32", "{"])
    seek(ft, ["fn", "hz", "(", "self", ")", "->", "Hertz", "<", "f32", ">", "{", "Hertz", "::", "<", "f32", ">", "::", "from_hz", "(", "self", ")", ".", "unwrap", "(", ")", "}"], i2)
    out.append("/-- `x.hz()` = `Hertz::<f32>::from_hz(x).unwrap()`; `none` = the `unwrap` panics -/")
    out.append(f"def hz (hz : F32) : Option Deps.Hertz :=\n  if {femit(c)} then some ⟨{a}⟩ else none\n")
    out.append("end Dep.biquad")
    return "\n".join(out) + "\n", dict(biquad=vers.get("biquad"))


# ================================================================ midi-types: f32::from(Value14)  (C18's pitch-bend scaling)
def translate_value14(lock):
    """Three one-line conversions chained by `.into()`.  They are matched against their exact shape (white space aside) and the
    constants are taken from the text; any other shape is `untranslated`."""
    vers = lock_versions(lock)
    src = registry_src("midi-types", vers.get("midi-types"))
    txt = re.sub(r"\s+", " ", strip_comments(open(os.path.join(src, "message.rs")).read()))
    m1 = re.search(r"impl From<Value14> for u16 \{ fn from\(value: Value14\) -> u16 \{ \(value\.0 as u16\) \* (\d+) \+ value\.1 as u16 \} \}", txt)
    m2 = re.search(r"impl From<Value14> for i16 \{ fn from\(value: Value14\) -> i16 \{ let v: u16 = value\.into\(\); \(v as i16\) - (\d+)i16 \} \}", txt)
    m3 = re.search(r"impl From<Value14> for f32 \{ fn from\(value: Value14\) -> f32 \{ let v: i16 = value\.into\(\); let v = v as f32 / if v > 0 \{ ([\d.]+) \} else \{ ([\d.]+) \}; v\.clamp\((-?[\d.]+), (-?[\d.]+)\) \} \}", txt)
    if not (m1 and m2 and m3):
        raise Unsupported("midi-types: the Value14 -> u16 -> i16 -> f32 conversions have an unexpected shape: " + ", ".join(n for n, m in (("u16", m1), ("i16", m2), ("f32", m3)) if not m))
    def fl(x):
        neg = x.startswith("-")
        x = x.lstrip("-").rstrip(".")
        if "." in x:
            a, b = x.split(".")
            q = f"{int(a + b)} / {10 ** len(b)}"
        else:
            q = x
        return f"(F32.neg (lit ({q})))" if neg else f"(lit ({q}))"
    out = ["import SynthVerif.Src.Deps",
           f"/-! GENERATED by tools/dep2lean.py from midi-types {vers.get('midi-types')} src/message.rs in the cargo registry.  Do not edit. -/",
           "open F32 Rs", "namespace Dep.midi_types", "",
           "/-- `u16::from(Value14(v0, v1))` -/",
           f"def value14_to_u16 (v0 v1 : Nat) : Nat := v0 * {m1.group(1)} + v1", "",
           "/-- `i16::from(Value14(v0, v1))` (no wrap for `v0, v1 ≤ 127`: the u16 is at most 16383) -/",
           f"def value14_to_i16 (v0 v1 : Nat) : Int := (value14_to_u16 v0 v1 : Int) - {m2.group(1)}", "",
           "/-- `f32::from(Value14(v0, v1))` -/",
           "def value14_to_f32 (v0 v1 : Nat) : F32 :=",
           "  let v := value14_to_i16 v0 v1",
           f"  let x := F32.div (F32.ofInt v) (if v > 0 then {fl(m3.group(1))} else {fl(m3.group(2))})",
           f"  F32.clamp x {fl(m3.group(3))} {fl(m3.group(4))}", "",
           "end Dep.midi_types"]
    return "\n".join(out) + "\n", dict(midi_types=vers.get("midi-types"))


def write_one(outd, name, fn, lock):
    try:
        text, info = fn(lock)
        status = dict(status="translated", **info)
    except (Unsupported, OSError, IndexError, KeyError, TypeError, ValueError) as e:
        text = f"/-! GENERATED: the dependency source could not be translated: {type(e).__name__}: {e} -/\n"
        status = dict(status="untranslated", reason=f"{type(e).__name__}: {e}")
    p = os.path.join(outd, name + ".lean")
    changed = not os.path.exists(p) or open(p).read() != text
    if changed:
        open(p, "w").write(text)
    print(f"dep2lean: {name} {status['status']}" + (f" ({status.get('reason')})" if status["status"] != "translated" else "") + ("; rewritten" if changed else "; unchanged"))
    return status


def main():
    lock = sys.argv[1] if len(sys.argv) > 1 else os.path.join(ROOT, "harness", "Cargo.lock")
    outd = sys.argv[2] if len(sys.argv) > 2 else os.path.join(ROOT, "lean", "SynthVerif", "Gen", "Dep")
    os.makedirs(outd, exist_ok=True)
    rep = dict(midi_convert=write_one(outd, "midi_convert", translate, lock), biquad=write_one(outd, "biquad", translate_biquad, lock),
               midi_types=write_one(outd, "midi_types", translate_value14, lock))
    json.dump(rep, open(os.path.join(outd, "report.json"), "w"), indent=1)


if __name__ == "__main__":
    main()
