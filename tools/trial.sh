#!/bin/bash
# trial.sh <name> : make a self-contained scratch copy of /verif (with its build output) and of /repo under /tmp/trial-<name>,
# so that test tools (run_harmless.py, run_seeded.py) can apply patches and run checks there, in parallel with work in
# /verif and without touching /repo.  Prints the environment to use.  Remove the directory when done.
set -e
D=/tmp/trial-$1
rm -rf "$D"; mkdir -p "$D"
rsync -a --exclude work --exclude replays --exclude .git /verif/ "$D/verif/"
git -C /repo worktree prune
git -C /repo worktree add --detach "$D/repo" HEAD >/dev/null 2>&1
sed -i "s#path = \"/repo\"#path = \"$D/repo\"#" "$D/verif/harness/Cargo.toml"
echo "VERIF_REPO=$D/repo python3 $D/verif/tools/run_harmless.py   # clean-up: git -C /repo worktree remove --force $D/repo; rm -rf $D"
