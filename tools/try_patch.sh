#!/bin/bash
# try_patch.sh <patch> [-R] <prop>... : apply a patch to /repo, run quick checks, undo.  Test tool only.
p=$1; shift; rev=""; if [ "$1" = "-R" ]; then rev="-R"; shift; fi
cd /repo && git diff --quiet || { echo "repo dirty"; exit 2; }
git apply $rev "$p" || { echo "patch does not apply"; exit 2; }
cd /verif
export VERIF_EVID_DIR=/verif/work/evid_trial; mkdir -p $VERIF_EVID_DIR
for prop in "$@"; do
  ./check $prop quick > work/try_$prop.txt 2>&1; rc=$?
  echo "$prop rc=$rc $(grep -E '^(VIOLATION|KNOWN)' work/try_$prop.txt | cut -c1-150 | head -2 | tr '\n' ' ')"
  grep -E 'violation \(|broken:' work/try_$prop.txt | head -3 | cut -c1-220
done
cd /repo && git checkout -- . && cd /verif
