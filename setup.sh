#!/bin/bash
# Offline set-up after a fresh restore: build the harness against /repo, regenerate the Lean data,
# build the Lean library (all property theorems), the audit tool and the driver executable.
set -e
cd "$(dirname "$0")"
export CARGO_NET_OFFLINE=true
mkdir -p work evidence
[ -f harness/Cargo.lock ] || cp /repo/Cargo.lock harness/Cargo.lock
(cd harness && cargo build --offline)
harness/target/debug/verif-harness dump-consts > work/consts.json
python3 tools/gen.py work/consts.json
python3 tools/shapes.py /repo/src
python3 tools/rs2lean.py /repo/src
python3 tools/dep2lean.py harness/Cargo.lock
(cd lean && lake build SynthVerif SynthVerif.AuditTool driver SynthVerif.Tie.Adsr SynthVerif.Tie.LfoRun SynthVerif.Tie.QuantRun SynthVerif.Tie.GlideRun SynthVerif.Tie.RibbonRun SynthVerif.Tie.MidiRun SynthVerif.Tie.DepMidi SynthVerif.Tie.DepMidiTypes SynthVerif.Tie.DepBiquad SynthVerif.Tie.Transfer SynthVerif.Tie.TransferAdsr SynthVerif.Tie.TransferLfo SynthVerif.Tie.TransferQuant SynthVerif.Tie.TransferGlide SynthVerif.Tie.TransferRibbon SynthVerif.Tie.TransferMidi)
echo "setup ok"
