import SynthVerif.Model.Adsr
import SynthVerif.Model.Lfo
import SynthVerif.Model.Quantizer
import SynthVerif.Model.Midi
import SynthVerif.Model.Glide
import SynthVerif.Model.Ribbon
/-!
# Line-protocol driver: one operation per input line, one line of model observables per output line.

Floats travel as decimal binary32 bit patterns; `PANIC` is printed where the model says the
implementation panics (from then on the object is gone until the next `new`).
-/
open F32

inductive Obj
  | none
  | adsr (a : Adsr) | lfo (l : Lfo) | quant (q : Quantizer) | midi (m : Midi)
  | glide (g : Glide) | ribbon (r : Ribbon)

def b2n (b : Bool) : Nat := if b then 1 else 0
def fb (x : F32) : String := toString (toBits x)
def join (xs : List String) : String := " ".intercalate xs

def adsrObs (a : Adsr) : String :=
  join [toString a.state.toNat, toString a.pa.acc, toString a.pa.inc, fb a.value, fb a.onLevel, fb a.offLevel,
        fb a.attackTime, fb a.decayTime, fb a.sustain, fb a.releaseTime,
        -- raw stored state: output, last accumulator, roll-over flag, roll-over mask (a function of the bit count)
        fb a.value, toString a.pa.last, toString (b2n a.pa.rolled), toString a.pa.mask]

def lfoObs (l : Lfo) : String :=
  join [toString l.pa.acc, toString l.pa.inc, fb (l.get .sine), fb (l.get .triangle), fb (l.get .upSaw),
        fb (l.get .downSaw), fb (l.get .square), toString l.pa.last, toString (b2n l.pa.rolled), toString l.pa.mask]

def quantObs (q : Quantizer) : String :=
  join [toString q.allowed, toString q.cached.note, fb q.cached.stairstep, fb q.cached.fraction]

def parserObs : ParserState → List Nat
  | .idle => [0]
  | .noteOnRecvd c => [1, c] | .noteOnNoteRecvd c n => [2, c, n]
  | .noteOffRecvd c => [3, c] | .noteOffNoteRecvd c n => [4, c, n]
  | .keyPressureRecvd c => [5, c] | .keyPressureNoteRecvd c n => [6, c, n]
  | .controlChangeRecvd c => [7, c] | .controlChangeControlRecvd c n => [8, c, n]
  | .programChangeRecvd c => [9, c]
  | .channelPressureRecvd c => [10, c]
  | .pitchBendRecvd c => [11, c] | .pitchBendLsbRecvd c n => [12, c, n]
  | .quarterFrameRecvd => [13]
  | .songPositionRecvd => [14] | .songPositionLsbRecvd n => [15, n]
  | .songSelectRecvd => [16]

def prioNat : NotePriority → Nat | .last => 0 | .high => 1 | .low => 2

def midiObs (m : Midi) : String :=
  join ([toString m.channel, toString m.noteNum, fb m.velocity, fb m.pitchBend, fb m.modWheel, fb m.volume,
        fb m.vcfCutoff, fb m.vcfResonance, fb m.portamentoTime, toString (b2n m.portamentoEnabled),
        toString (b2n m.sustainEnabled), toString (b2n m.gate), toString (b2n m.risingGate),
        toString (b2n m.fallingGate), toString (b2n m.retrigger), toString (prioNat m.priority),
        toString m.noteNum, fb m.velocity, fb m.pitchBend, toString (b2n m.gate),
        "p"] ++ (parserObs m.parser).map toString ++ ["h"] ++ m.held.map toString)

def glideObs (g : Glide) : String :=
  join [fb g.cachedT, fb g.coeffs.a1, fb g.coeffs.a2, fb g.coeffs.b0, fb g.coeffs.b1, fb g.coeffs.b2,
        fb g.x1, fb g.x2, fb g.y1, fb g.y2]

def ribbonObs (r : Ribbon) : String :=
  join [toString (b2n r.pressing), fb r.value, fb r.current, toString r.received, toString r.written,
        toString (b2n r.justPressed), toString (b2n r.justReleased),
        toString r.buff.len]

def natOf (s : String) : Nat := s.toNat!
def fOf (s : String) : F32 := ofBits s.toNat!

def fop (op : String) (a b : F32) : String :=
  match op with
  | "add" => fb (add a b) | "sub" => fb (sub a b) | "mul" => fb (mul a b) | "div" => fb (div a b)
  | "rem" => fb (fmod a b) | "max" => fb (F32.fmax a b) | "min" => fb (F32.fmin a b)
  | "lt" => toString (b2n (lt a b)) | "le" => toString (b2n (le a b)) | "eq" => toString (b2n (feq a b))
  | "neg" => fb (neg a) | "u32" => toString (toU32 a) | "i16" => toString (toI16 a)
  | "fromu32" => fb (ofNat (toBits a))     -- operand is the integer itself
  | "clamp1" => fb (clamp a (.fin (-1) false) one)
  | "fabs" => fb (fabs a)
  | _ => "bad-op"

def step (o : Obj) (ws : List String) : Obj × String :=
  match ws with
  | ["fop", op, a, b] => (o, fop op (fOf a) (fOf b))
  | ["fop1", "fromu32", a] => (o, fb (ofNat (natOf a)))
  | ["adsr", "new", sr] => let a := Adsr.new (fOf sr); (.adsr a, adsrObs a)
  | ["lfo", "new", sr] => let l := Lfo.new (fOf sr); (.lfo l, lfoObs l)
  | ["quant", "new"] => (.quant Quantizer.new, quantObs Quantizer.new)
  | ["midi", "new", ch] => let m := Midi.new (natOf ch); (.midi m, midiObs m)
  | ["glide", "new", sr] =>
    (match Glide.new (fOf sr) with | some g => (.glide g, glideObs g) | none => (.none, "PANIC"))
  | ["ribbon", "new", cap, sr, sp, dr, pu] =>
    (match Ribbon.new (natOf cap) (fOf sr) (fOf sp) (fOf dr) (fOf pu) with
     | some r => (.ribbon r, join [ribbonObs r, fb r.boundary, fb r.errorConst, toString r.ignore, toString r.discard])
     | none => (.none, "PANIC"))
  | ["tp", x] => (o, fb (timePeriod (fOf x)))
  | ["sl", x] => (o, fb (sustainLevel (fOf x)))
  | ["notenew", n] => (o, toString (Quantizer.noteNew (natOf n)))
  -- `impl From<u8> for Note` delegates to `Note::new`; the correspondence run checks that it still does
  | ["notefrom", n] => (o, toString (Quantizer.noteNew (natOf n)))
  | ["cap", sr] => (o, match Ribbon.sampleRateToCapacity (natOf sr) with | some c => toString c | none => "PANIC")
  | _ =>
  match o, ws with
  | .none, _ => (o, "GONE")
  -- ADSR
  | .adsr a, ["gate_on"] => let a := a.gateOn; (.adsr a, adsrObs a)
  | .adsr a, ["gate_off"] => let a := a.gateOff; (.adsr a, adsrObs a)
  | .adsr a, ["tick"] => (match a.tick with | some a => (.adsr a, adsrObs a) | none => (.none, "PANIC"))
  | .adsr a, ["set", k, x] =>
    let v := fOf x
    let a := match k with
      | "a" => a.setInput (.attack (timePeriod v)) | "d" => a.setInput (.decay (timePeriod v))
      | "s" => a.setInput (.sustain (sustainLevel v)) | _ => a.setInput (.release (timePeriod v))
    (.adsr a, adsrObs a)
  | .adsr a, ["setacc", n] =>
    let v := natOf n % 2 ^ a.pa.totalBits
    let a := { a with pa := { a.pa with acc := v, last := v } }; (.adsr a, adsrObs a)
  -- LFO
  | .lfo l, ["tick"] => (match l.tick with | some l => (.lfo l, lfoObs l) | none => (.none, "PANIC"))
  | .lfo l, ["freq", x] => let l := l.setFrequency (fOf x); (.lfo l, lfoObs l)
  | .lfo l, ["reset"] => let l := l.reset; (.lfo l, lfoObs l)
  | .lfo l, ["phase", x] => let l := l.setPhase (fOf x); (.lfo l, lfoObs l)
  | .lfo l, ["setacc", n] =>
    let v := natOf n % 2 ^ l.pa.totalBits
    let l : Lfo := { pa := { l.pa with acc := v, last := v } }; (.lfo l, lfoObs l)
  -- Quantizer
  | .quant q, ["convert", x] =>
    let (q, c) := q.convert (fOf x)
    (.quant q, join [quantObs q, toString c.note, fb c.stairstep, fb c.fraction])
  | .quant q, "allow" :: ns =>
    let q := q.allow (ns.map fun s => Quantizer.noteNew (natOf s)); (.quant q, quantObs q)
  | .quant q, "forbid" :: ns =>
    (match q.forbid (ns.map fun s => Quantizer.noteNew (natOf s)) with
     | some q => (.quant q, quantObs q) | none => (.none, "PANIC"))
  -- MIDI
  | .midi m, ["byte", b] => let m := m.parse (natOf b); (.midi m, midiObs m)
  | .midi m, ["rising"] => let (r, m) := m.readRising; (.midi m, join [toString (b2n r), midiObs m])
  | .midi m, ["falling"] => let (r, m) := m.readFalling; (.midi m, join [toString (b2n r), midiObs m])
  | .midi m, ["retrig", x] => let m := { m with retrigger := natOf x == 1 }; (.midi m, midiObs m)
  | .midi m, ["prio", x] =>
    let m := { m with priority := match natOf x with | 0 => .last | 1 => .high | _ => .low }; (.midi m, midiObs m)
  -- Glide
  | .glide g, ["time", x] =>
    (match g.setTime (fOf x) with | some g => (.glide g, glideObs g) | none => (.none, "PANIC"))
  | .glide g, ["proc", x] => let (g, y) := g.process (fOf x); (.glide g, join [fb y, glideObs g])
  -- Ribbon
  | .ribbon r, ["poll", x] =>
    (match r.poll (fOf x) with | some r => (.ribbon r, ribbonObs r) | none => (.none, "PANIC"))
  | .ribbon r, ["jp"] => let (b, r) := r.readJustPressed; (.ribbon r, join [toString (b2n b), ribbonObs r])
  | .ribbon r, ["jr"] => let (b, r) := r.readJustReleased; (.ribbon r, join [toString (b2n b), ribbonObs r])
  | _, _ => (o, "bad-op")

partial def loop (hin : IO.FS.Stream) (hout : IO.FS.Stream) (o : Obj) : IO Unit := do
  let line ← hin.getLine
  if line.isEmpty then return ()
  let ws := (line.trimAscii.toString.splitOn " ").filter (· != "")
  let (o', out) := step o ws
  hout.putStrLn out
  loop hin hout o'

def main : IO Unit := do
  let hin ← IO.getStdin
  let hout ← IO.getStdout
  loop hin hout .none
  hout.flush
