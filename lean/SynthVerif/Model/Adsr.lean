import SynthVerif.Model.PhaseAcc
import SynthVerif.Gen.Tables
/-!
# Model of `src/adsr.rs`
-/
open F32

inductive AdsrState | atRest | attack | decay | sustain | release
deriving Repr, DecidableEq, Inhabited

def AdsrState.toNat : AdsrState → Nat
  | .atRest => 0 | .attack => 1 | .decay => 2 | .sustain => 3 | .release => 4

def minTime : F32 := ofBits Gen.minTimeBits
def maxTime : F32 := ofBits Gen.maxTimeBits

/-- `TimePeriod::from(f32)` : `p.max(MIN).min(MAX)` -/
def timePeriod (p : F32) : F32 := F32.fmin (F32.fmax p minTime) maxTime
/-- `SustainLevel::from(f32)` : `v.max(0.0).min(1.0)` -/
def sustainLevel (v : F32) : F32 := F32.fmin (F32.fmax v zero) one

def attackAt (i : Nat) : F32 := ofBits (Gen.attackBits.getD i 0)
def decayAt (i : Nat) : F32 := ofBits (Gen.decayBits.getD i 0)

structure Adsr where
  attackTime : F32
  decayTime : F32
  sustain : F32
  releaseTime : F32
  pa : PhaseAcc
  state : AdsrState
  onLevel : F32     -- value_when_gate_on_received
  offLevel : F32    -- value_when_gate_off_received
  value : F32
deriving Repr

inductive AdsrInput
  | attack (t : F32) | decay (t : F32) | sustain (s : F32) | release (t : F32)

namespace Adsr

def new (sr : F32) : Adsr :=
  { attackTime := timePeriod minTime, decayTime := timePeriod minTime,
    sustain := sustainLevel one, releaseTime := timePeriod minTime,
    pa := PhaseAcc.new Gen.adsrTotalBits Gen.adsrIndexBits sr,
    state := .atRest, onLevel := zero, offLevel := zero, value := zero }

/-- table sample at the accumulator position, interpolated towards the next entry (clamped at the end) -/
def sample (a : Adsr) (tbl : Nat → F32) : F32 :=
  let i := a.pa.index
  let j := min (i + 1) (Gen.adsrLutSize - 1)
  linearInterp (tbl i) (tbl j) a.pa.fraction

/-- `calc_value()` : `coefficient * sample + offset` -/
def calcValue (a : Adsr) : F32 :=
  match a.state with
  | .attack  => add (mul (sub one a.onLevel) (a.sample attackAt)) a.onLevel
  | .decay   => add (mul (sub one a.sustain) (a.sample decayAt)) a.sustain
  | .sustain => add (mul one a.sustain) zero
  | .release => add (mul a.offLevel (a.sample decayAt)) zero
  | .atRest  => add (mul zero zero) zero

/-- the states in which `tick` advances the phase accumulator -/
def _root_.AdsrState.timed : AdsrState → Bool
  | .attack | .decay | .release => true
  | _ => false

/-- the state a timed phase rolls over into -/
def _root_.AdsrState.next : AdsrState → AdsrState
  | .attack => .decay | .decay => .sustain | .release => .atRest | s => s

/-- `period_of_this_phase` -/
def period (a : Adsr) : F32 :=
  match a.state with
  | .attack => a.attackTime | .decay => a.decayTime | .release => a.releaseTime
  | _ => minTime

/-- `tick()`; `none` = panic (accumulator overflow) -/
def tick (a : Adsr) : Option Adsr :=
  if a.state.timed then
    match (a.pa.setPeriod a.period).tick with
    | none => none
    | some pa =>
      -- `rolled_over()` reads and clears the flag; on roll-over the accumulator is reset and the state advances
      let a' : Adsr :=
        if pa.rolled then { a with pa := ({ pa with rolled := false } : PhaseAcc).reset, state := a.state.next }
        else { a with pa := { pa with rolled := false } }
      some { a' with value := a'.calcValue }
  else some { a with value := a.calcValue }

def gateOn (a : Adsr) : Adsr :=
  match a.state with
  | .attack => a
  | _ => { a with onLevel := a.value, pa := a.pa.reset, state := .attack }

def gateOff (a : Adsr) : Adsr :=
  match a.state with
  | .release | .atRest => a
  | _ => { a with offLevel := a.value, pa := a.pa.reset, state := .release }

def setInput (a : Adsr) : AdsrInput → Adsr
  | .attack t => { a with attackTime := t }
  | .decay t => { a with decayTime := t }
  | .sustain s => { a with sustain := s }
  | .release t => { a with releaseTime := t }

end Adsr
