import SynthVerif.Model.PhaseAcc
import SynthVerif.Gen.Tables
/-!
# Model of `src/lfo.rs`
-/
open F32

inductive Waveshape | sine | triangle | upSaw | downSaw | square
deriving Repr, DecidableEq

def sineAt (i : Nat) : F32 := ofBits (Gen.sineBits.getD i 0)

structure Lfo where
  pa : PhaseAcc
deriving Repr

namespace Lfo

def new (sr : F32) : Lfo := { pa := PhaseAcc.new Gen.lfoTotalBits Gen.lfoIndexBits sr }
def tick (l : Lfo) : Option Lfo := l.pa.tick.map fun pa => { pa }
def setFrequency (l : Lfo) (f : F32) : Lfo := { pa := l.pa.setFrequency f }
def reset (l : Lfo) : Lfo := { pa := l.pa.reset }
def setPhase (l : Lfo) (p : F32) : Lfo := { pa := l.pa.setPhase p }

def two : F32 := .fin 2 false
def three : F32 := .fin 3 false
def four : F32 := .fin 4 false
def half : F32 := .fin (1/2) false

def upSaw (l : Lfo) : F32 := sub (mul l.pa.ramp two) one

/-- `get(shape)`; reads the state only -/
def get (l : Lfo) : Waveshape → F32
  | .sine =>
    let i := l.pa.index
    let j := (i + 1) % Gen.sineLutSize
    linearInterp (sineAt i) (sineAt j) l.pa.fraction
  | .triangle =>
    let r := mul l.pa.ramp four
    if lt r one then r else if lt r three then sub two r else sub r four
  | .upSaw => l.upSaw
  | .downSaw => neg l.upSaw
  | .square => if lt l.pa.ramp half then one else .fin (-1) false

end Lfo
