import SynthVerif.F32.Basic
import SynthVerif.Gen.Consts
/-!
# Model of `src/ribbon_controller.rs` with `heapless::HistoryBuffer` as the real ring.
-/
open F32

/-- `heapless::HistoryBuffer<f32, N>` at the level the crate uses it: a bounded queue.  `write` appends and drops the
oldest element once `cap` elements are held; `oldest_ordered()` yields the held elements oldest first; `len()` is
their number.  (The circular storage of the real type is not modelled; the order in which `oldest_ordered` yields
the samples matters for the f32 sum and is validated bit for bit by the correspondence check.) -/
structure HistBuf where
  cap : Nat
  items : List F32      -- oldest first, length ≤ cap
deriving Repr

namespace HistBuf
def new (cap : Nat) : HistBuf := { cap := cap, items := [] }
def capacity (r : HistBuf) : Nat := r.cap
def len (r : HistBuf) : Nat := r.items.length
def write (r : HistBuf) (x : F32) : HistBuf :=
  if r.items.length < r.cap then { r with items := r.items ++ [x] }
  else { r with items := r.items.tail ++ [x] }
/-- `oldest_ordered()` collected -/
def oldestOrdered (r : HistBuf) : List F32 := r.items
end HistBuf

structure Ribbon where
  boundary : F32
  errorConst : F32
  current : F32
  pressing : Bool
  justPressed : Bool
  justReleased : Bool
  buff : HistBuf
  ignore : Nat
  discard : Nat
  received : Nat
  written : Nat
deriving Repr

namespace Ribbon

/-- `((sample_rate as u32 * usec) / 1_000_000) as usize`; `none` = u32 multiply overflow panic -/
def usecToSamples (sr : F32) (usec : Nat) : Option Nat :=
  let p := toU32 sr * usec
  if p ≥ 2 ^ 32 then none else some (p / 1000000)

/-- `sample_rate_to_capacity(sr)` (const fn on u32); `none` = overflow -/
def sampleRateToCapacity (sr : Nat) : Option Nat :=
  if sr * Gen.ribbonMinCaptureUsec ≥ 2 ^ 32 ∨ sr * Gen.ribbonRiseUsec ≥ 2 ^ 32 then none
  else some (sr * Gen.ribbonMinCaptureUsec / 1000000 + sr * Gen.ribbonRiseUsec / 1000000 + 1)

/-- `RibbonController::<CAP>::new`; `none` = panic (capacity 0 does not compile in the real crate) -/
def new (cap : Nat) (sr softpot dropper pullup : F32) : Option Ribbon :=
  match usecToSamples sr Gen.ribbonFallUsec, usecToSamples sr Gen.ribbonRiseUsec with
  | some ign, some disc =>
    some { boundary := sub one (div dropper (add dropper softpot)),
           errorConst := div (add softpot dropper) pullup,
           current := zero, pressing := false, justPressed := false, justReleased := false,
           buff := HistBuf.new cap, ignore := ign, discard := disc, received := 0, written := 0 }
  | _, _ => none

def errorEstimate (r : Ribbon) (pos : F32) : F32 := mul (sub pos (mul pos pos)) r.errorConst

/-- `Iterator::sum::<f32>()` -/
def fsum (xs : List F32) : F32 := xs.foldl add (ofBits Gen.sumInitBits)

/-- `poll(x)`; `none` = panic (`capacity - num_to_discard_at_end` underflow) -/
def poll (r : Ribbon) (x : F32) : Option Ribbon :=
  if lt x r.boundary then
    let received := min (r.received + 1) r.ignore
    let r := { r with received := received }
    if r.ignore ≤ r.received then
      let buff := r.buff.write x
      let written := min (r.written + 1) buff.capacity
      let r := { r with buff := buff, written := written }
      if r.written == r.buff.capacity then
        if r.buff.capacity < r.discard then none
        else
          let n := r.buff.capacity - r.discard
          let avg := div (fsum (r.buff.oldestOrdered.take n)) (ofNat n)
          let r := { r with current := avg }
          let r := { r with current := sub r.current (r.errorEstimate r.current) }
          some (if !r.pressing then { r with justPressed := true, pressing := true } else r)
      else some r
    else some r
  else
    let r := if r.pressing then { r with justReleased := true, pressing := false } else r
    some { r with received := 0, written := 0 }

/-- `value()` -/
def value (r : Ribbon) : F32 := F32.fmin (div r.current r.boundary) one

def readJustPressed (r : Ribbon) : Bool × Ribbon := (r.justPressed, { r with justPressed := false })
def readJustReleased (r : Ribbon) : Bool × Ribbon := (r.justReleased, { r with justReleased := false })

end Ribbon
