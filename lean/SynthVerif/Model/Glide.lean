import SynthVerif.F32.Basic
import SynthVerif.Gen.Consts
/-!
# Model of `src/glide_processor.rs`, with `biquad::Coefficients::from_params`
(`Type::SinglePoleLowPassApprox`) and `biquad::DirectForm1::run`.
-/
open F32

structure Coeffs where
  a1 : F32
  a2 : F32
  b0 : F32
  b1 : F32
  b2 : F32
deriving Repr

structure Glide where
  minFc : F32
  maxFc : F32
  fs : F32
  coeffs : Coeffs
  x1 : F32
  x2 : F32
  y1 : F32
  y2 : F32
  cachedT : F32
deriving Repr

namespace Glide

def two : F32 := .fin 2 false
def pi32 : F32 := ofBits Gen.piBits

/-- `coeffs(fs, f0)` = `from_params(SinglePoleLowPassApprox, fs, f0, 0.0).unwrap()`; `none` = panic -/
def mkCoeffs (fs f0 : F32) : Option Coeffs :=
  if !(lt zero fs) || !(lt zero f0) then none   -- `x.hz()` = `Hertz::from_hz(x).unwrap()` needs x > 0
  else if lt fs (mul two f0) then none      -- Err(OutsideNyquist).unwrap()
  else
    let omega := div (mul (mul two pi32) f0) fs
    let alpha := div omega (add omega one)
    some { a1 := sub alpha one, a2 := zero, b0 := alpha, b1 := zero, b2 := zero }

def new (sr : F32) : Option Glide :=
  let maxFc := div sr two
  match mkCoeffs sr maxFc with
  | none => none
  | some c =>
    some { minFc := ofRat (1/10), maxFc, fs := sr, coeffs := c, x1 := zero, x2 := zero, y1 := zero, y2 := zero,
           cachedT := .fin (-1) false }

def epsilon : F32 := ofRat (1/20)

/-- `set_time(t)`; `none` = panic -/
def setTime (g : Glide) (t : F32) : Option Glide :=
  if le (fabs (sub t g.cachedT)) epsilon then some g
  else
    let f0 := F32.fmin (F32.fmax (div one t) g.minFc) g.maxFc
    match mkCoeffs g.fs f0 with
    | none => none
    | some c => some { g with cachedT := t, coeffs := c }

/-- `process(x)` = `DirectForm1::run` -/
def process (g : Glide) (x : F32) : Glide × F32 :=
  let c := g.coeffs
  let out := sub (sub (add (add (mul c.b0 x) (mul c.b1 g.x1)) (mul c.b2 g.x2)) (mul c.a1 g.y1)) (mul c.a2 g.y2)
  ({ g with x2 := g.x1, x1 := x, y2 := g.y1, y1 := out }, out)

end Glide
