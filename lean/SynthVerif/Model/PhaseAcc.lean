import SynthVerif.F32.Basic
import SynthVerif.Gen.Consts
/-!
# Model of `src/phase_accumulator.rs` (`PhaseAccumulator<TOTAL, INDEX>`)

`&mut self` methods return the new state.  `tick` is the only place that can panic
(u32 `+=` overflow in a debug build): it returns `none` there.
-/
open F32

structure PhaseAcc where
  totalBits : Nat
  indexBits : Nat
  sr : F32
  acc : Nat
  last : Nat
  inc : Nat
  rolled : Bool
deriving Repr

namespace PhaseAcc

def new (totalBits indexBits : Nat) (sr : F32) : PhaseAcc :=
  { totalBits, indexBits, sr, acc := 0, last := 0, inc := 0, rolled := false }

/-- `rollover_mask = (1 << TOTAL) - 1` -/
def mask (p : PhaseAcc) : Nat := 2 ^ p.totalBits - 1

/-- `tick()`: `none` models the overflow panic of `accumulator += increment` on u32 -/
def tick (p : PhaseAcc) : Option PhaseAcc :=
  let a := p.acc + p.inc
  if a ≥ 2 ^ 32 then none
  else
    let a' := a % 2 ^ p.totalBits
    some { p with acc := a', last := a', rolled := p.rolled || decide (p.mask < a) }

/-- `set_frequency(f)`: `(((1 << TOTAL) as f32 * f) / sample_rate) as u32` -/
def setFrequency (p : PhaseAcc) (f : F32) : PhaseAcc :=
  { p with inc := toU32 (div (mul (ofNat (2 ^ p.totalBits)) f) p.sr) }

/-- `set_period(t)` -/
def setPeriod (p : PhaseAcc) (t : F32) : PhaseAcc := p.setFrequency (div one t)

/-- `reset()` -/
def reset (p : PhaseAcc) : PhaseAcc := { p with acc := 0, last := 0, rolled := false }

/-- `set_phase(phase)` -/
def setPhase (p : PhaseAcc) (phase : F32) : PhaseAcc :=
  let p := p.reset
  let ph := if lt phase zero then mul phase (.fin (-1) false) else phase
  { p with acc := toU32 (mul (ofNat p.mask) (fmod ph one)) }

/-- `ramp()` -/
def ramp (p : PhaseAcc) : F32 := div (ofNat p.acc) (ofNat (2 ^ p.totalBits))

/-- `index()` -/
def index (p : PhaseAcc) : Nat := p.acc / 2 ^ (p.totalBits - p.indexBits)

/-- `fraction()`: the bits below the table index, scaled to `[0, 1)` -/
def fraction (p : PhaseAcc) : F32 :=
  let fm := 2 ^ (p.totalBits - p.indexBits) - 1
  div (ofNat (p.acc % (fm + 1))) (ofNat (fm + 1))

/-- `rolled_over()`: returns the flag and clears it -/
def rolledOver (p : PhaseAcc) : Bool × PhaseAcc := (p.rolled, { p with rolled := false })

end PhaseAcc

/-- `crate::utils::linear_interp` -/
def linearInterp (y0 y1 frac : F32) : F32 := add y0 (mul (sub y1 y0) frac)
