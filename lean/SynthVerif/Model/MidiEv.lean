import SynthVerif.Model.Midi
/-!
# Histories of the MIDI receiver: bytes, decoded messages, edge polls and mode changes
-/

inductive MidiEv
  | byte (b : Nat)                 -- `parse(b)`
  | msg (m : MidiMsg)              -- the effect of a completely decoded message
  | pollRising | pollFalling       -- `rising_gate()`, `falling_gate()`
  | setRetrigger (b : Bool)        -- `set_retrigger_mode`
  | setPriority (p : NotePriority) -- `set_note_priority`
deriving Repr

namespace Midi

/-- one event; the second component is the value returned by a poll -/
def stepEv (m : Midi) : MidiEv → Midi × Option Bool
  | .byte b => (m.parse b, none)
  | .msg x => (m.handle x, none)
  | .pollRising => let (r, m') := m.readRising; (m', some r)
  | .pollFalling => let (r, m') := m.readFalling; (m', some r)
  | .setRetrigger b => ({ m with retrigger := b }, none)
  | .setPriority p => ({ m with priority := p }, none)

/-- run a history, collecting the poll results in order -/
def runEv (m : Midi) : List MidiEv → Midi × List Bool
  | [] => (m, [])
  | e :: es =>
    let (m', o) := m.stepEv e
    let (m'', os) := runEv m' es
    (m'', match o with | some b => b :: os | none => os)

/-- the state after a history -/
def after (m : Midi) (es : List MidiEv) : Midi := (m.runEv es).1

end Midi

/-- is this message a note-on with non-zero velocity on channel `ch`? -/
def MidiMsg.isNoteOnFor (ch : Nat) : MidiMsg → Bool
  | .noteOn c _ v => c == ch && v != 0
  | _ => false
