import SynthVerif.F32.Basic
import SynthVerif.Gen.Consts
/-!
# Model of `src/quantizer.rs`
-/
open F32

structure Conversion where
  note : Nat
  stairstep : F32
  fraction : F32
deriving Repr

structure Quantizer where
  cached : Conversion
  allowed : Nat          -- u16 bitfield, low 12 bits used
deriving Repr

namespace Quantizer

def hysteresis : F32 := ofBits Gen.hysteresisBits
def semitoneWidth : F32 := ofBits Gen.semitoneWidthBits
def vMax : F32 := ofBits Gen.vMaxBits
def notesPerOctave : F32 := ofBits Gen.notesPerOctaveBits
/-- `f32::MIN` -/
def f32Min : F32 := ofBits 0xff7fffff

/-- `Note::new(n)` -/
def noteNew (n : Nat) : Nat := if n ≤ 11 then n else 11

def new : Quantizer :=
  { cached := { note := 0, stairstep := f32Min, fraction := zero }, allowed := 0xfff }

/-- `is_allowed(note)` for an already-clamped note -/
def isAllowed (q : Quantizer) (note : Nat) : Bool := (q.allowed >>> note) % 2 == 1

def delta (a b : Nat) : Nat := if a < b then b - a else a - b

/-- scan state of the nearest-note search -/
structure Scan where
  nearest : Nat := 0
  smallest : Nat := 2 ^ 32 - 1     -- u32::MAX
  done : Option Nat := none        -- early return value (in µV)

/-- the µV value the scan settles on -/
def Scan.result (s : Scan) : Nat := match s.done with | some r => r | none => s.nearest

/-- one candidate of the scan -/
def scanStep (vin : Nat) (s : Scan) (cand : Nat) : Scan :=
  match s.done with
  | some _ => s
  | none =>
    let d := delta vin cand
    if d < Gen.halfStepUv then { s with done := some cand }
    else if s.smallest < d then { s with done := some s.nearest }
    else if d < s.smallest then { s with smallest := d, nearest := cand }
    else s

/-- candidates of one octave in ascending order -/
def octaveCands (allowed : Nat) (octave : Nat) : List Nat :=
  (List.range 12).filterMap fun n =>
    if (allowed >>> n) % 2 == 1 then some (n * Gen.halfStepUv + octave * Gen.oneOctaveUv) else none

def octavesToSearch (o : Nat) : List Nat :=
  (if 1 ≤ o then [o - 1] else []) ++ [o] ++ (if o < Gen.maxOctave then [o + 1] else [])

/-- `find_nearest_note` on the µV value -/
def findNearestUv (allowed : Nat) (vin : Nat) : Nat :=
  let o := vin / Gen.oneOctaveUv
  let cands := (octavesToSearch o).flatMap (octaveCands allowed)
  let s := cands.foldl (scanStep vin) {}
  (s.result / Gen.halfStepUv) % 256      -- `as u8`

def toMicrovolts (v : F32) : Nat := toU32 (mul v (ofNat Gen.oneOctaveUv))

def findNearest (q : Quantizer) (v : F32) : Nat := findNearestUv q.allowed (toMicrovolts v)

/-- the history-free part of `convert` -/
def convertFresh (allowed : Nat) (v : F32) : Conversion :=
  let v := F32.fmin (F32.fmax v zero) vMax
  let note := findNearestUv allowed (toMicrovolts v)
  let ss := div (ofNat note) notesPerOctave
  { note, stairstep := ss, fraction := sub v ss }

def inWindow (c : Conversion) (v : F32) : Bool :=
  let lo := sub c.stairstep hysteresis
  let hi := add (add c.stairstep semitoneWidth) hysteresis
  lt lo v && lt v hi

/-- `convert(v)` -/
def convert (q : Quantizer) (v : F32) : Quantizer × Conversion :=
  if q.isAllowed (noteNew (q.cached.note % 12)) && inWindow q.cached v then
    let c := { q.cached with fraction := sub v q.cached.stairstep }
    ({ q with cached := c }, c)
  else
    let c := convertFresh q.allowed v
    ({ q with cached := c }, c)

/-- `allow(notes)`; arguments are `Note`s, i.e. already clamped by `Note::new` -/
def allow (q : Quantizer) (notes : List Nat) : Quantizer :=
  { q with allowed := notes.foldl (fun a n => a ||| (1 <<< n)) q.allowed }

/-- `forbid(notes)`; `none` = panic (`notes.len() - 1` on an empty slice) -/
def forbid (q : Quantizer) (notes : List Nat) : Option Quantizer :=
  let a := notes.foldl (fun a n => a &&& (0xffff ^^^ (1 <<< n))) q.allowed
  if a == 0 then
    match notes.getLast? with
    | none => none
    | some n => some ({ q with allowed := a }.allow [n])
  else some { q with allowed := a }

end Quantizer
