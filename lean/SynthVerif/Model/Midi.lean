import SynthVerif.F32.Basic
import SynthVerif.Gen.Consts
/-!
# Model of `src/mono_midi_receiver.rs`, of `midi_convert::MidiByteStreamParser::parse`
and of the `midi_types` value conversions the receiver uses.
-/
open F32

/-- `midi_convert::parse::MidiParserState` -/
inductive ParserState
  | idle
  | noteOnRecvd (ch : Nat) | noteOnNoteRecvd (ch note : Nat)
  | noteOffRecvd (ch : Nat) | noteOffNoteRecvd (ch note : Nat)
  | keyPressureRecvd (ch : Nat) | keyPressureNoteRecvd (ch note : Nat)
  | controlChangeRecvd (ch : Nat) | controlChangeControlRecvd (ch ctl : Nat)
  | programChangeRecvd (ch : Nat)
  | channelPressureRecvd (ch : Nat)
  | pitchBendRecvd (ch : Nat) | pitchBendLsbRecvd (ch lsb : Nat)
  | quarterFrameRecvd
  | songPositionRecvd | songPositionLsbRecvd (lsb : Nat)
  | songSelectRecvd
deriving Repr, DecidableEq, Inhabited

/-- the `midi_types::MidiMessage`s the parser can emit (payloads the receiver ignores are dropped) -/
inductive MidiMsg
  | noteOff (ch note vel : Nat) | noteOn (ch note vel : Nat)
  | keyPressure (ch note v : Nat) | controlChange (ch ctl v : Nat)
  | programChange (ch p : Nat) | channelPressure (ch v : Nat)
  | pitchBend (ch msb lsb : Nat)
  | quarterFrame (v : Nat) | songPosition (msb lsb : Nat) | songSelect (v : Nat)
  | tuneRequest | timingClock | start | continue | stop | activeSensing | reset
deriving Repr, DecidableEq

/-- `MidiByteStreamParser::parse(byte)` for `byte < 256` -/
def parserStep (st : ParserState) (b : Nat) : ParserState × Option MidiMsg :=
  if b ≥ 0x80 then
    if b ≥ 0xf0 then
      match b with
      | 0xf0 => (.idle, none)
      | 0xf1 => (.quarterFrameRecvd, none)
      | 0xf2 => (.songPositionRecvd, none)
      | 0xf3 => (.songSelectRecvd, none)
      | 0xf6 => (.idle, some .tuneRequest)
      | 0xf7 => (.idle, none)
      | 0xf8 => (st, some .timingClock)
      | 0xf9 => (st, none)
      | 0xfa => (st, some .start)
      | 0xfb => (st, some .continue)
      | 0xfc => (st, some .stop)
      | 0xfd => (st, none)
      | 0xfe => (st, some .activeSensing)
      | 0xff => (st, some .reset)
      | _ => (.idle, none)
    else
      let ch := b % 16
      match b / 16 with
      | 0x8 => (.noteOffRecvd ch, none)
      | 0x9 => (.noteOnRecvd ch, none)
      | 0xA => (.keyPressureRecvd ch, none)
      | 0xB => (.controlChangeRecvd ch, none)
      | 0xC => (.programChangeRecvd ch, none)
      | 0xD => (.channelPressureRecvd ch, none)
      | 0xE => (.pitchBendRecvd ch, none)
      | _ => (st, none)
  else
    match st with
    | .noteOffRecvd ch => (.noteOffNoteRecvd ch b, none)
    | .noteOffNoteRecvd ch n => (.noteOffRecvd ch, some (.noteOff ch n b))
    | .noteOnRecvd ch => (.noteOnNoteRecvd ch b, none)
    | .noteOnNoteRecvd ch n => (.noteOnRecvd ch, some (.noteOn ch n b))
    | .keyPressureRecvd ch => (.keyPressureNoteRecvd ch b, none)
    | .keyPressureNoteRecvd ch n => (.keyPressureRecvd ch, some (.keyPressure ch n b))
    | .controlChangeRecvd ch => (.controlChangeControlRecvd ch b, none)
    | .controlChangeControlRecvd ch c => (.controlChangeRecvd ch, some (.controlChange ch c b))
    | .programChangeRecvd ch => (st, some (.programChange ch b))
    | .channelPressureRecvd ch => (st, some (.channelPressure ch b))
    | .pitchBendRecvd ch => (.pitchBendLsbRecvd ch b, none)
    | .pitchBendLsbRecvd ch lsb => (.pitchBendRecvd ch, some (.pitchBend ch b lsb))
    | .quarterFrameRecvd => (st, some (.quarterFrame b))
    | .songPositionRecvd => (.songPositionLsbRecvd b, none)
    | .songPositionLsbRecvd lsb => (.songPositionRecvd, some (.songPosition b lsb))
    | .songSelectRecvd => (st, some (.songSelect b))
    | .idle => (st, none)

inductive NotePriority | last | high | low
deriving Repr, DecidableEq

/-- `value7_to_f32` : `v as f32 / 127.0` -/
def value7ToF32 (v : Nat) : F32 := div (ofNat v) (.fin 127 false)

/-- `f32::from(Value14(msb, lsb))` -/
def value14ToF32 (msb lsb : Nat) : F32 :=
  let v : Int := (msb * 128 + lsb : Nat) - 8192
  let x := div (ofInt v) (if v > 0 then .fin 8191 false else .fin 8192 false)
  clamp x (.fin (-1) false) one

structure Midi where
  parser : ParserState
  channel : Nat
  noteNum : Nat
  velocity : F32
  pitchBend : F32
  modWheel : F32
  volume : F32
  vcfCutoff : F32
  vcfResonance : F32
  portamentoTime : F32
  portamentoEnabled : Bool
  sustainEnabled : Bool
  gate : Bool
  risingGate : Bool
  fallingGate : Bool
  retrigger : Bool
  priority : NotePriority
  held : List Nat
deriving Repr

namespace Midi

def new (channel : Nat) : Midi :=
  { parser := .idle, channel := min channel 15, noteNum := 0,
    velocity := zero, pitchBend := zero, modWheel := zero, volume := zero, vcfCutoff := zero,
    vcfResonance := zero, portamentoTime := zero, portamentoEnabled := true, sustainEnabled := true,
    gate := false, risingGate := false, fallingGate := false,
    retrigger := false, priority := .last, held := [] }

/-- `choose_next_note()` on a given held list -/
def chooseFrom (p : NotePriority) (held : List Nat) : Nat :=
  match p with
  | .last => held.getLast?.getD 0
  | .high => held.foldl Nat.max 0
  | .low => match held with
    | [] => 0
    | x :: xs => xs.foldl Nat.min x

def chooseNext (m : Midi) : Nat := chooseFrom m.priority m.held

/-- the held list after `held_down_notes.push(note).ok()` (silently dropped when full) -/
def heldAfterOn (m : Midi) (note : Nat) : List Nat :=
  if m.held.length < Gen.heldLen then m.held ++ [note] else m.held

/-- the held list after `retain(|n| *n != note)` -/
def heldAfterOff (m : Midi) (note : Nat) : List Nat := m.held.filter (· != note)

/-- `handle_note_on` -/
def noteOn (m : Midi) (note vel : Nat) : Midi :=
  { m with
    velocity := value7ToF32 vel
    held := m.heldAfterOn note
    noteNum := chooseFrom m.priority (m.heldAfterOn note)
    gate := true
    fallingGate := false
    risingGate := m.retrigger || (m.heldAfterOn note).length == 1 || m.risingGate }

/-- `handle_note_off` -/
def noteOff (m : Midi) (note : Nat) : Midi :=
  { m with
    held := m.heldAfterOff note
    gate := if (m.heldAfterOff note).isEmpty then false else m.gate
    risingGate := if (m.heldAfterOff note).isEmpty then false else m.risingGate
    fallingGate := if (m.heldAfterOff note).isEmpty then (m.fallingGate || m.gate) else m.fallingGate
    noteNum := if (m.heldAfterOff note).isEmpty then m.noteNum else chooseFrom m.priority (m.heldAfterOff note) }

/-- which arm of the `match u8::from(cc)` in `parse` is taken (first match wins; 9 = the `_` arm) -/
def ccArm (cc : Nat) : Nat :=
  if cc == Gen.ccModWheel then 0
  else if cc == Gen.ccVolume then 1
  else if cc == Gen.ccVcfCutoff then 2
  else if cc == Gen.ccVcfResonance then 3
  else if cc == Gen.ccPortamentoTime then 4
  else if cc == Gen.ccPortamentoSwitch then 5
  else if cc == Gen.ccSustainSwitch then 6
  else if cc == Gen.ccAllControllersOff then 7
  else if cc == Gen.ccAllNotesOff then 8
  else 9

/-- the `ControlChange` arm of `parse` (arm 7 = `reset_controllers()`, arm 8 = All-Notes-Off) -/
def controlChange (m : Midi) (cc v : Nat) : Midi :=
  let a := ccArm cc
  { m with
    modWheel := if a == 0 then value7ToF32 v else if a == 7 then zero else m.modWheel
    volume := if a == 1 then value7ToF32 v else if a == 7 then zero else m.volume
    vcfCutoff := if a == 2 then value7ToF32 v else if a == 7 then zero else m.vcfCutoff
    vcfResonance := if a == 3 then value7ToF32 v else if a == 7 then zero else m.vcfResonance
    portamentoTime := if a == 4 then value7ToF32 v else if a == 7 then zero else m.portamentoTime
    portamentoEnabled := if a == 5 then decide (Gen.u7HalfScale ≤ v) else if a == 7 then true else m.portamentoEnabled
    sustainEnabled := if a == 6 then decide (Gen.u7HalfScale ≤ v) else if a == 7 then true else m.sustainEnabled
    pitchBend := if a == 7 then zero else m.pitchBend
    held := if a == 8 then [] else m.held
    fallingGate := if a == 8 then (m.fallingGate || m.gate) else m.fallingGate
    gate := if a == 8 then false else m.gate
    risingGate := if a == 8 then false else m.risingGate }

/-- what `parse` does with a decoded message -/
def handle (m : Midi) : MidiMsg → Midi
  | .noteOn ch n v => if ch == m.channel then (if v == 0 then m.noteOff n else m.noteOn n v) else m
  | .noteOff ch n _ => if ch == m.channel then m.noteOff n else m
  | .pitchBend ch msb lsb => if ch == m.channel then { m with pitchBend := value14ToF32 msb lsb } else m
  | .controlChange ch c v => if ch == m.channel then m.controlChange c v else m
  | _ => m

/-- `parse(byte)` -/
def parse (m : Midi) (b : Nat) : Midi :=
  let (st, msg) := parserStep m.parser b
  let m := { m with parser := st }
  match msg with
  | some x => m.handle x
  | none => m

def readRising (m : Midi) : Bool × Midi := (m.risingGate, { m with risingGate := false })
def readFalling (m : Midi) : Bool × Midi := (m.fallingGate, { m with fallingGate := false })

end Midi
