/-! GENERATED: phase_accumulator.rs could not be read: Unsupported: parser: expected identifier, found '..' -/
