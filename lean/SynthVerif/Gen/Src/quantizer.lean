/-! GENERATED: quantizer.rs could not be read: Unsupported: parser: unexpected token '[' -/
