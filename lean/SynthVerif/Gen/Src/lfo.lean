/-! GENERATED: lfo.rs could not be read: Unsupported: parser: expected ';' after expression, found 'lookup_tables' -/
