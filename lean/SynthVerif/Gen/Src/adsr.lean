/-! GENERATED: translation of adsr.rs failed: Unsupported: external type PhaseAccumulator -/
