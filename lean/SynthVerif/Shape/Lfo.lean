import SynthVerif.Gen.Shapes
import SynthVerif.Model.Lfo
/-!
# State-shape tie: `lfo.rs`, `phase_accumulator.rs`

`struct Lfo { phase_accumulator }` ↦ model `Lfo.pa`; `PhaseAccumulator` as in `Shape/Adsr.lean`; five wave shapes.
-/
namespace Shape
open Gen.Shape

theorem lfo : typesLfo = ["PhaseAccumulator<N,N>"] := rfl
theorem waveshape : typesWaveshape = ["", "", "", "", ""] := rfl
theorem lfoPhaseAccumulator : typesPhaseAccumulator = ["bool", "f32", "u32", "u32", "u32", "u32"] := rfl
theorem lfoNoStatics : statics = [] := rfl
example (l : Lfo) : l = ⟨l.pa⟩ := rfl
end Shape
