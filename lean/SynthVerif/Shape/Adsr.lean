import SynthVerif.Gen.Shapes
import SynthVerif.Model.Adsr
/-!
# State-shape tie: `adsr.rs`, `phase_accumulator.rs`

`Gen.Shape.*` is regenerated on every run from the struct and enum definitions in /repo/src.  The statements below
say which members the implementation's state has — exactly those the hand-written model carries (right column) and
the verification hook `verif_state` exposes to the correspondence run.  A member added to one of these types is state
the model does not have: the statement stops checking and the property is reported as no longer shown.

| `struct Adsr`                          | model `Adsr`   |
|----------------------------------------|----------------|
| attack_time, decay_time, release_time : TimePeriod | attackTime, decayTime, releaseTime |
| sustain_level : SustainLevel           | sustain        |
| phase_accumulator : PhaseAccumulator   | pa             |
| state : State                          | state          |
| value_when_gate_on_received, value_when_gate_off_received, value : f32 | onLevel, offLevel, value |

| `struct PhaseAccumulator`   | model `PhaseAcc` |
|-----------------------------|------------------|
| sample_rate_hz : f32        | sr               |
| rollover_mask : u32         | (2^totalBits − 1, a function of `totalBits`) |
| accumulator, last_accumulator, increment : u32 | acc, last, inc |
| rolled_over : bool          | rolled           |
-/
namespace Shape
open Gen.Shape

theorem adsr : typesAdsr = ["PhaseAccumulator<N,N>", "State", "SustainLevel",
    "TimePeriod", "TimePeriod", "TimePeriod", "f32", "f32", "f32"] := rfl
/-- the five phases of `AdsrState` -/
theorem adsrState : typesState = ["", "", "", "", ""] := rfl
theorem adsrInput : typesInput = ["(SustainLevel)", "(TimePeriod)", "(TimePeriod)", "(TimePeriod)"] := rfl
theorem timePeriod : typesTimePeriod = ["f32"] := rfl
theorem sustainLevel : typesSustainLevel = ["f32"] := rfl
theorem phaseAccumulator : typesPhaseAccumulator = ["bool", "f32", "u32", "u32", "u32", "u32"] := rfl
/-- no module-level state anywhere in the crate -/
theorem noStatics : statics = [] := rfl

-- the model side of the table: the structures have exactly these fields (a field added to the model shows here)
example (a : Adsr) : a = ⟨a.attackTime, a.decayTime, a.sustain, a.releaseTime, a.pa, a.state, a.onLevel, a.offLevel, a.value⟩ := rfl
example (p : PhaseAcc) : p = ⟨p.totalBits, p.indexBits, p.sr, p.acc, p.last, p.inc, p.rolled⟩ := rfl
end Shape
