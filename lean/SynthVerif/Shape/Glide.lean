import SynthVerif.Gen.Shapes
import SynthVerif.Model.Glide
/-!
# State-shape tie: `glide_processor.rs`

| `struct GlideProcessor`        | model `Glide`  |
|--------------------------------|----------------|
| min_fc, max_fc : f32           | minFc, maxFc   |
| fs : Hertz<f32> (biquad)       | fs             |
| lpf : DirectForm1<f32> (biquad: five coefficients, x1 x2 y1 y2) | coeffs, x1, x2, y1, y2 |
| cached_t : f32                 | cachedT        |
-/
namespace Shape
open Gen.Shape

theorem glideProcessor : typesGlideProcessor = ["DirectForm1<f32>", "Hertz<f32>", "f32", "f32", "f32"] := rfl
theorem glideNoStatics : statics = [] := rfl
example (g : Glide) : g = ⟨g.minFc, g.maxFc, g.fs, g.coeffs, g.x1, g.x2, g.y1, g.y2, g.cachedT⟩ := rfl
end Shape
