import SynthVerif.Gen.Shapes
import SynthVerif.Model.Ribbon
/-!
# State-shape tie: `ribbon_controller.rs`

| `struct RibbonController<CAP>`           | model `Ribbon` |
|------------------------------------------|----------------|
| finger_press_high_boundary, error_const, current_val : f32 | boundary, errorConst, current |
| finger_is_pressing, finger_just_pressed, finger_just_released : bool | pressing, justPressed, justReleased |
| buff : HistoryBuffer<f32, CAP> (heapless) | buff : HistBuf |
| num_to_ignore_up_front, num_to_discard_at_end, num_samples_received, num_samples_written : usize | ignore, discard, received, written |
-/
namespace Shape
open Gen.Shape

theorem ribbonController : typesRibbonController = ["HistoryBuffer<f32,N>", "bool", "bool", "bool",
    "f32", "f32", "f32", "usize", "usize", "usize", "usize"] := rfl
theorem ribbonNoStatics : statics = [] := rfl
example (r : Ribbon) : r = ⟨r.boundary, r.errorConst, r.current, r.pressing, r.justPressed, r.justReleased, r.buff,
    r.ignore, r.discard, r.received, r.written⟩ := rfl
end Shape
