import SynthVerif.Gen.Shapes
import SynthVerif.Model.Midi
/-!
# State-shape tie: `mono_midi_receiver.rs`

| `struct MonoMidiReceiver`                 | model `Midi`      |
|-------------------------------------------|-------------------|
| parser : MidiByteStreamParser (midi-convert) | parser : ParserState |
| channel, note_num : u8                    | channel, noteNum  |
| velocity, pitch_bend, mod_wheel, volume, vcf_cutoff, vcf_resonance, portamento_time : f32 | the seven `F32` fields |
| portamento_enabled, sustain_enabled, gate, rising_gate, falling_gate : bool | the five `Bool` fields |
| retrigger_mode : RetriggerMode (2 variants) | retrigger : Bool |
| note_priority : NotePriority (3 variants) | priority          |
| held_down_notes : Vec<u8, 32>             | held : List Nat (capacity `Gen.heldLen`) |
-/
namespace Shape
open Gen.Shape

theorem monoMidiReceiver : typesMonoMidiReceiver = ["MidiByteStreamParser", "NotePriority", "RetriggerMode",
    "Vec<u8,N>", "bool", "bool", "bool", "bool", "bool",
    "f32", "f32", "f32", "f32", "f32", "f32", "f32", "u8", "u8"] := rfl
theorem retriggerMode : typesRetriggerMode = ["", ""] := rfl
theorem notePriority : typesNotePriority = ["", "", ""] := rfl
theorem midiNoStatics : statics = [] := rfl
example (m : Midi) : m = ⟨m.parser, m.channel, m.noteNum, m.velocity, m.pitchBend, m.modWheel, m.volume, m.vcfCutoff,
    m.vcfResonance, m.portamentoTime, m.portamentoEnabled, m.sustainEnabled, m.gate, m.risingGate, m.fallingGate,
    m.retrigger, m.priority, m.held⟩ := rfl
end Shape
