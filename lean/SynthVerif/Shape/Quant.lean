import SynthVerif.Gen.Shapes
import SynthVerif.Model.Quantizer
/-!
# State-shape tie: `quantizer.rs`

`struct Quantizer { cached_conversion : Conversion, allowed : u16 }` ↦ model `Quantizer.cached`, `Quantizer.allowed`;
`struct Conversion { note_num : u8, stairstep, fraction : f32 }` ↦ `Conversion.note`, `.stairstep`, `.fraction`;
`struct Note(u8)` ↦ a `Nat` ≤ 11.
-/
namespace Shape
open Gen.Shape

theorem quantizer : typesQuantizer = ["Conversion", "u16"] := rfl
theorem conversion : typesConversion = ["f32", "f32", "u8"] := rfl
theorem note : typesNote = ["u8"] := rfl
theorem quantNoStatics : statics = [] := rfl
example (q : Quantizer) : q = ⟨q.cached, q.allowed⟩ := rfl
example (c : Conversion) : c = ⟨c.note, c.stairstep, c.fraction⟩ := rfl
end Shape
