import Lean
/-!
`#audit_ns C01` lists every theorem whose name starts with `C01.` together with the axioms it depends on,
one per line, in a format the check script parses:  `AUDIT <name> | <axiom> <axiom> ...`
-/
open Lean Elab Command

elab "#audit_ns " ns:ident : command => do
  let env ← getEnv
  let pre := ns.getId
  let mut names : Array Name := #[]
  for (n, ci) in env.constants.map₁.toList ++ env.constants.map₂.toList do
    if pre.isPrefixOf n && !n.isInternal then
      match ci with
      | .thmInfo _ => names := names.push n
      | _ => pure ()
  let sorted := names.qsort (fun a b => a.toString < b.toString)
  for n in sorted do
    let axs ← liftCoreM <| collectAxioms n
    let axs := axs.qsort (fun a b => a.toString < b.toString)
    logInfo m!"AUDIT {n} | {" ".intercalate (axs.toList.map toString)}"
