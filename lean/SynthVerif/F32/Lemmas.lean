import SynthVerif.F32.Basic
import Mathlib.Data.Rat.Floor
import Mathlib.Tactic.Linarith
import Mathlib.Tactic.Positivity
import Mathlib.Tactic.Ring
import Mathlib.Tactic.FieldSimp
import Mathlib.Tactic.Push
import Mathlib.Algebra.Order.Field.Power
import Mathlib.Data.Nat.Log

namespace F32

/-! ### bridging lemmas: model definitions (core instances) restated in Mathlib vocabulary, all by `rfl` -/

theorem pow2_def (e : ℤ) : pow2 e =
    if 0 ≤ e then ((2 ^ e.toNat : ℕ) : ℚ) else 1 / ((2 ^ (-e).toNat : ℕ) : ℚ) := rfl

theorem qabs_def (q : ℚ) : qabs q = if q < 0 then -q else q := rfl

theorem rneInt_def (x : ℚ) : rneInt x =
    if x - ⌊x⌋ < 1/2 then ⌊x⌋ else if (1/2:ℚ) < x - ⌊x⌋ then ⌊x⌋ + 1
    else if ⌊x⌋ % 2 = 0 then ⌊x⌋ else ⌊x⌋ + 1 := rfl

theorem ilog2_def (q : ℚ) : ilog2 q =
    if pow2 ((Nat.log2 q.num.natAbs : ℤ) - (Nat.log2 q.den : ℤ)) ≤ qabs q
    then (Nat.log2 q.num.natAbs : ℤ) - (Nat.log2 q.den : ℤ)
    else (Nat.log2 q.num.natAbs : ℤ) - (Nat.log2 q.den : ℤ) - 1 := rfl

theorem expo_def (x : ℚ) : expo x = max (ilog2 x - 23) (-149) := rfl

theorem rnd_def (x : ℚ) : rnd x =
    if x = 0 then 0 else (rneInt (x / pow2 (expo x)) : ℚ) * pow2 (expo x) := rfl

/-! ### pow2, qabs -/

theorem pow2_eq (e : ℤ) : pow2 e = (2:ℚ) ^ e := by
  rw [pow2_def]
  split_ifs with h
  · obtain ⟨n, rfl⟩ := Int.eq_ofNat_of_zero_le h
    simp
  · obtain ⟨n, hn⟩ := Int.eq_ofNat_of_zero_le (show 0 ≤ -e by omega)
    have : e = -(n:ℤ) := by omega
    subst this
    simp [zpow_neg]

theorem pow2_pos (e : ℤ) : 0 < pow2 e := by rw [pow2_eq]; positivity

theorem qabs_eq (q : ℚ) : qabs q = |q| := by
  rw [qabs_def]; split_ifs with h
  · rw [abs_of_neg h]
  · rw [abs_of_nonneg (not_lt.mp h)]

/-! ### rneInt -/

theorem rneInt_sub_le (x : ℚ) : |(rneInt x : ℚ) - x| ≤ 1/2 := by
  have h1 := Int.floor_le x
  have h2 := Int.lt_floor_add_one x
  rw [rneInt_def]
  split_ifs with a b c
  · rw [abs_le]; constructor <;> linarith
  · rw [abs_le]; push_cast; constructor <;> linarith
  · have : x - ⌊x⌋ = 1/2 := le_antisymm (not_lt.mp b) (not_lt.mp a)
    rw [abs_le]; constructor <;> linarith
  · have : x - ⌊x⌋ = 1/2 := le_antisymm (not_lt.mp b) (not_lt.mp a)
    rw [abs_le]; push_cast; constructor <;> linarith

theorem rneInt_intCast (n : ℤ) : rneInt (n : ℚ) = n := by
  rw [rneInt_def]; simp

theorem rneInt_mono {x y : ℚ} (h : x ≤ y) : rneInt x ≤ rneInt y := by
  by_cases hf : ⌊x⌋ = ⌊y⌋
  · rw [rneInt_def, rneInt_def, hf]
    have hx : x - ⌊y⌋ ≤ y - ⌊y⌋ := by linarith
    split_ifs <;> first | omega | (exfalso; linarith)
  · have hlt : ⌊x⌋ < ⌊y⌋ := lt_of_le_of_ne (Int.floor_le_floor h) hf
    have hx : rneInt x ≤ ⌊x⌋ + 1 := by
      rw [rneInt_def]; split_ifs <;> omega
    have hy : ⌊y⌋ ≤ rneInt y := by
      rw [rneInt_def]; split_ifs <;> omega
    omega

theorem rneInt_neg (x : ℚ) : rneInt (-x) = - rneInt x := by
  by_cases hx : (⌊x⌋ : ℚ) = x
  · -- integer
    have : x = ((⌊x⌋ : ℤ) : ℚ) := hx.symm
    rw [this, ← Int.cast_neg, rneInt_intCast, rneInt_intCast]
  · have h1 := Int.floor_le x
    have h2 := Int.lt_floor_add_one x
    have hlt : (⌊x⌋ : ℚ) < x := lt_of_le_of_ne h1 hx
    have hfl : ⌊-x⌋ = -⌊x⌋ - 1 := by
      rw [Int.floor_eq_iff]; push_cast; constructor <;> linarith
    rw [rneInt_def, rneInt_def, hfl]
    push_cast
    split_ifs <;> first | omega | (exfalso; linarith)

/-! ### ilog2 -/

theorem ilog2_spec {x : ℚ} (hx : x ≠ 0) : pow2 (ilog2 x) ≤ |x| ∧ |x| < pow2 (ilog2 x + 1) := by
  set n := x.num.natAbs with hn
  set d := x.den with hd
  have hn0 : n ≠ 0 := by
    rw [hn]; exact Int.natAbs_ne_zero.mpr (Rat.num_ne_zero.mpr hx)
  have hd0 : d ≠ 0 := x.den_nz
  have habs : |x| = (n : ℚ) / (d : ℚ) := by
    rw [hn, hd]
    conv_lhs => rw [← Rat.num_div_den x]
    rw [abs_div, Nat.cast_natAbs, Int.cast_abs]
    congr 1
    exact abs_of_nonneg (by positivity)
  have hnl : (2:ℚ) ^ (Nat.log2 n) ≤ n := by exact_mod_cast Nat.log2_self_le hn0
  have hnu : (n:ℚ) < 2 ^ (Nat.log2 n + 1) := by exact_mod_cast Nat.lt_log2_self
  have hdl : (2:ℚ) ^ (Nat.log2 d) ≤ d := by exact_mod_cast Nat.log2_self_le hd0
  have hdu : (d:ℚ) < 2 ^ (Nat.log2 d + 1) := by exact_mod_cast Nat.lt_log2_self
  have hdpos : (0:ℚ) < d := by exact_mod_cast Nat.pos_of_ne_zero hd0
  set a : ℤ := (Nat.log2 n : ℤ) with ha
  set b : ℤ := (Nat.log2 d : ℤ) with hb
  have hnl' : (2:ℚ) ^ a ≤ n := by rw [ha, zpow_natCast]; exact hnl
  have hnu' : (n:ℚ) < 2 ^ (a + 1) := by
    rw [ha]; have : ((Nat.log2 n : ℤ) + 1) = ((Nat.log2 n + 1 : ℕ) : ℤ) := by push_cast; ring
    rw [this, zpow_natCast]; exact hnu
  have hdl' : (2:ℚ) ^ b ≤ d := by rw [hb, zpow_natCast]; exact hdl
  have hdu' : (d:ℚ) < 2 ^ (b + 1) := by
    rw [hb]; have : ((Nat.log2 d : ℤ) + 1) = ((Nat.log2 d + 1 : ℕ) : ℤ) := by push_cast; ring
    rw [this, zpow_natCast]; exact hdu
  have two_pos : ∀ k : ℤ, (0:ℚ) < 2 ^ k := fun k => by positivity
  -- |x| ∈ (2^(a-b-1), 2^(a-b+1))
  have lower : (2:ℚ) ^ (a - b - 1) < |x| := by
    rw [habs, lt_div_iff₀ hdpos]
    calc (2:ℚ) ^ (a - b - 1) * d < 2 ^ (a - b - 1) * 2 ^ (b + 1) := by
          exact mul_lt_mul_of_pos_left hdu' (two_pos _)
      _ = 2 ^ a := by rw [← zpow_add₀ (by norm_num : (2:ℚ) ≠ 0)]; congr 1; ring
      _ ≤ n := hnl'
  have upper : |x| < (2:ℚ) ^ (a - b + 1) := by
    rw [habs, div_lt_iff₀ hdpos]
    calc (n:ℚ) < 2 ^ (a + 1) := hnu'
      _ = 2 ^ (a - b + 1) * 2 ^ b := by rw [← zpow_add₀ (by norm_num : (2:ℚ) ≠ 0)]; congr 1; ring
      _ ≤ 2 ^ (a - b + 1) * d := by exact mul_le_mul_of_nonneg_left hdl' (le_of_lt (two_pos _))
  rw [ilog2_def]
  simp only [← hn, ← hd, ← ha, ← hb, qabs_eq, pow2_eq]
  split_ifs with h
  · exact ⟨h, upper⟩
  · refine ⟨le_of_lt lower, ?_⟩
    have : a - b - 1 + 1 = a - b := by ring
    rw [this]; exact not_le.mp h

end F32
