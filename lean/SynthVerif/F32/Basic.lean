/-!
# binary32 as a specification over core `Rat` (no Mathlib; executable; kernel-reducible)

`rnd` is round-to-nearest-even onto the binary32 grid; every arithmetic operation is
"exact rational result, then `rnd`, overflow to infinity".  This file is the definition that
both the compiled driver runs and the theorems reason about.
-/

/-- a binary32 value: NaN, ±∞, or a finite rational with the sign bit of a zero kept apart -/
inductive F32 where
  | nan
  | inf (neg : Bool)
  | fin (q : Rat) (nz : Bool)   -- `nz` = sign bit, meaningful only when q = 0
deriving Repr, Inhabited, DecidableEq

namespace F32

/-- 2^e as a rational, e any integer -/
def pow2 (e : Int) : Rat :=
  if 0 ≤ e then ((2 ^ e.toNat : Nat) : Rat) else 1 / ((2 ^ (-e).toNat : Nat) : Rat)

def qabs (q : Rat) : Rat := if q < 0 then -q else q

/-- ⌊log₂ |q|⌋ for q ≠ 0 -/
def ilog2 (q : Rat) : Int :=
  let e : Int := (Nat.log2 q.num.natAbs : Int) - (Nat.log2 q.den : Int)
  if pow2 e ≤ qabs q then e else e - 1

/-- round to nearest integer, ties to even -/
def rneInt (x : Rat) : Int :=
  if x - x.floor < 1/2 then x.floor
  else if 1/2 < x - x.floor then x.floor + 1
  else if x.floor % 2 = 0 then x.floor else x.floor + 1

/-- exponent of the unit in the last place of the binade of x (24-bit significand, emin = -149) -/
def expo (x : Rat) : Int := max (ilog2 x - 23) (-149)

/-- round to nearest even onto the binary32 grid (unbounded above; overflow handled by `round`) -/
def rnd (x : Rat) : Rat :=
  if x = 0 then 0 else (rneInt (x / pow2 (expo x)) : Rat) * pow2 (expo x)

/-- truncation toward zero -/
def truncInt (x : Rat) : Int := if x < 0 then -((-x).floor) else x.floor

/-! ## values -/

def sign : F32 → Bool
  | .nan => false | .inf s => s | .fin q nz => if q == 0 then nz else q < 0

def isNaN : F32 → Bool | .nan => true | _ => false

/-- finite (not NaN, not ±∞) -/
def isFin : F32 → Bool | .fin _ _ => true | _ => false

/-- the rational value of a finite number (0 for NaN/∞, which callers exclude with `isFin`) -/
def val : F32 → Rat | .fin q _ => q | _ => 0

@[simp] theorem val_fin (q : Rat) (nz : Bool) : (F32.fin q nz).val = q := rfl
@[simp] theorem isFin_fin (q : Rat) (nz : Bool) : (F32.fin q nz).isFin = true := rfl
@[simp] theorem isFin_nan : F32.nan.isFin = false := rfl
@[simp] theorem isFin_inf (s : Bool) : (F32.inf s).isFin = false := rfl

/-- canonical form: the zero flag is forced to false for non-zero values -/
def mk (q : Rat) (nz : Bool) : F32 := if q == 0 then .fin 0 nz else .fin q false

/-- round an exact rational result; `zs` = sign to give an exact zero -/
def round (x : Rat) (zs : Bool) : F32 :=
  let r := rnd x
  if pow2 128 ≤ qabs r then .inf (x < 0)
  else if r == 0 then .fin 0 (if x == 0 then zs else x < 0)
  else .fin r false

def ofRat (x : Rat) : F32 := round x false
def ofNat (n : Nat) : F32 := round (n : Rat) false
def ofInt (n : Int) : F32 := round (n : Rat) false

def zero : F32 := .fin 0 false
def negZero : F32 := .fin 0 true
def one : F32 := .fin 1 false

/-! ## bit patterns (driver I/O only) -/

def ofBits (b : Nat) : F32 :=
  let s : Bool := b / 2^31 % 2 == 1
  let e : Nat := b / 2^23 % 256
  let m : Nat := b % 2^23
  if e == 255 then (if m == 0 then .inf s else .nan)
  else
    let mag : Rat := if e == 0 then ((m : Int) : Rat) * pow2 (-149)
                     else (((m + 2^23 : Nat) : Int) : Rat) * pow2 ((e : Int) - 150)
    if mag == 0 then .fin 0 s else .fin (if s then -mag else mag) false

def toBits : F32 → Nat
  | .nan => 0x7fc00000
  | .inf s => (if s then 2^31 else 0) + 0x7f800000
  | .fin q nz =>
    if q == 0 then (if nz then 2^31 else 0) else
    let sb := if q < 0 then 2^31 else 0
    let a := qabs q
    let e := ilog2 a
    if e < -126 then sb + (a / pow2 (-149)).floor.toNat
    else sb + ((e + 127).toNat * 2^23) + ((a / pow2 (e - 23)).floor.toNat - 2^23)

/-! ## arithmetic -/

def add : F32 → F32 → F32
  | .nan, _ | _, .nan => .nan
  | .inf s, .inf t => if s == t then .inf s else .nan
  | .inf s, _ | _, .inf s => .inf s
  | .fin a na, .fin b nb =>
    round (a + b) (if a == 0 && b == 0 then (na && nb) else false)

def neg : F32 → F32
  | .nan => .nan | .inf s => .inf (!s) | .fin q nz => .fin (-q) (if q == 0 then !nz else false)

def sub (a b : F32) : F32 := add a (neg b)

def mul (x y : F32) : F32 :=
  match x, y with
  | .nan, _ | _, .nan => .nan
  | .inf s, .inf t => .inf (s != t)
  | .inf s, .fin q nz => if q == 0 then .nan else .inf (s != (F32.fin q nz).sign)
  | .fin q nz, .inf s => if q == 0 then .nan else .inf (s != (F32.fin q nz).sign)
  | .fin a _, .fin b _ => round (a * b) (x.sign != y.sign)

def div (x y : F32) : F32 :=
  match x, y with
  | .nan, _ | _, .nan => .nan
  | .inf _, .inf _ => .nan
  | .inf s, .fin _ _ => .inf (s != y.sign)
  | .fin _ _, .inf _ => .fin 0 (x.sign != y.sign)
  | .fin a _, .fin b _ =>
    if b == 0 then (if a == 0 then .nan else .inf (x.sign != y.sign))
    else round (a / b) (x.sign != y.sign)

/-- `x % y` (C `fmodf`): exact, result carries the sign of the dividend -/
def fmod (x y : F32) : F32 :=
  match x, y with
  | .nan, _ | _, .nan => .nan
  | .inf _, _ => .nan
  | .fin a na, .inf _ => .fin a na
  | .fin a na, .fin b _ =>
    if b == 0 then .nan
    else
      let r := a - (truncInt (a / b) : Rat) * b
      if r == 0 then .fin 0 ((F32.fin a na).sign) else .fin r false

/-! ## comparisons (IEEE: any comparison with NaN is false; −0 = +0) -/

def lt : F32 → F32 → Bool
  | .nan, _ | _, .nan => false
  | .inf s, .inf t => s && !t
  | .inf s, .fin _ _ => s
  | .fin _ _, .inf t => !t
  | .fin a _, .fin b _ => a < b

def le : F32 → F32 → Bool
  | .nan, _ | _, .nan => false
  | .inf s, .inf t => s || !t
  | .inf s, .fin _ _ => s
  | .fin _ _, .inf t => !t
  | .fin a _, .fin b _ => a ≤ b

def feq : F32 → F32 → Bool
  | .nan, _ | _, .nan => false
  | .inf s, .inf t => s == t
  | .fin a _, .fin b _ => a == b
  | _, _ => false

/-- both operands are zeros of different sign -/
def mixedZeros : F32 → F32 → Bool
  | .fin a na, .fin b nb => a == 0 && b == 0 && na != nb
  | _, _ => false

/-- Rust `f32::max`: a NaN operand yields the other operand.  For `max(+0, -0)` Rust leaves the
sign of the result unspecified; the compiled crate on the host returns `+0` in either order
(probed by `dump-consts`, exercised by the correspondence streams), and so does the model. -/
def fmax (a b : F32) : F32 :=
  match a, b with
  | .nan, y => y
  | x, .nan => x
  | x, y => if mixedZeros x y then zero else if lt x y then y else x

/-- Rust `f32::min`, same conventions as `fmax` (mixed zeros give `+0` on the host). -/
def fmin (a b : F32) : F32 :=
  match a, b with
  | .nan, y => y
  | x, .nan => x
  | x, y => if mixedZeros x y then zero else if lt y x then y else x

/-- Rust `f32::clamp lo hi` (lo ≤ hi, non-NaN bounds): NaN stays NaN -/
def clamp (x lo hi : F32) : F32 :=
  if lt x lo then lo else if lt hi x then hi else x

/-- `crate::utils::fabs` -/
def fabs (v : F32) : F32 := if lt v zero then neg v else v

/-! ## casts -/

/-- Rust `x as u32` (and `as usize` restricted to 32 bits of range is *not* used): truncate, saturate, NaN ↦ 0 -/
def toU32 : F32 → Nat
  | .nan => 0
  | .inf s => if s then 0 else 2^32 - 1
  | .fin q _ =>
    if q < 0 then 0 else
    let t := q.floor.toNat
    if t ≥ 2^32 then 2^32 - 1 else t

/-- Rust `x as i16`: truncate, saturate, NaN ↦ 0 -/
def toI16 : F32 → Int
  | .nan => 0
  | .inf s => if s then -32768 else 32767
  | .fin q _ =>
    let t := truncInt q
    if t < -32768 then -32768 else if t > 32767 then 32767 else t

end F32
