import SynthVerif.F32.Ops
/-!
More rounding lemmas: relative error, closure of representable numbers under the scalings used by the code,
representability of every rounded value.
-/
namespace F32

private theorem two_ne : (2:ℚ) ≠ 0 := by norm_num
private theorem one_lt_two : (1:ℚ) < 2 := by norm_num
private theorem tp (k : ℤ) : (0:ℚ) < 2 ^ k := by positivity

/-- relative error of one rounding for values in the normal range: half an ulp, at most 2^-24 |x| -/
theorem rnd_rel_err {x : ℚ} (hx : 2 ^ (-126:ℤ) ≤ |x|) : |rnd x - x| ≤ 2 ^ (-24:ℤ) * |x| := by
  have hx0 : x ≠ 0 := by
    intro h; rw [h, abs_zero] at hx; exact absurd hx (not_le.mpr (tp _))
  have hl : -126 ≤ ilog2 x := le_ilog2_of_le_abs hx0 hx
  have he : expo x = ilog2 x - 23 := by rw [expo_def]; omega
  have hs := (ilog2_spec hx0).1
  rw [pow2_eq] at hs
  calc |rnd x - x| ≤ 2 ^ (expo x) / 2 := rnd_sub_le x hx0
    _ = 2 ^ (-24:ℤ) * 2 ^ (ilog2 x) := by
        rw [he, show ilog2 x - 23 = ilog2 x + (-23) by ring, zpow_add₀ two_ne]
        norm_num; ring
    _ ≤ 2 ^ (-24:ℤ) * |x| := mul_le_mul_of_nonneg_left hs (le_of_lt (tp _))

/-- representable numbers are closed under multiplication by a power of two (upward always) -/
theorem rep_mul_pow2 {x : ℚ} (h : Rep x) (k : ℕ) : Rep (x * 2 ^ k) := by
  obtain ⟨m, e, rfl, hm, he⟩ := h
  refine ⟨m, e + k, ?_, hm, by omega⟩
  rw [zpow_add₀ two_ne, zpow_natCast]; ring

/-- … and downward as long as the exponent stays in range -/
theorem rep_div_pow2 {m : ℤ} (hm : |m| < 2 ^ 24) (k : ℕ) (hk : k ≤ 149) : Rep ((m:ℚ) / 2 ^ k) :=
  ⟨m, -(k:ℤ), by rw [zpow_neg, zpow_natCast]; ring, hm, by omega⟩

/-- every rounded value is representable -/
theorem rep_rnd (x : ℚ) : Rep (rnd x) := by
  by_cases hx : x = 0
  · subst hx; rw [rnd_zero]; exact rep_zero
  · rw [rnd_def, if_neg hx, pow2_eq]
    set e := expo x with he
    have hee : -149 ≤ e := by rw [he, expo_def]; exact le_max_right _ _
    have hil : ilog2 x - 23 ≤ e := by rw [he, expo_def]; exact le_max_left _ _
    have hs := (ilog2_spec hx).2
    rw [pow2_eq] at hs
    -- |x / 2^e| < 2^24
    have hq : |x / 2 ^ e| < 2 ^ (24:ℤ) := by
      rw [abs_div, abs_of_pos (tp e), div_lt_iff₀ (tp e), ← zpow_add₀ two_ne]
      exact lt_of_lt_of_le hs (zpow_le_zpow_right₀ (le_of_lt one_lt_two) (by omega))
    -- so the rounded integer is at most 2^24 in magnitude
    have hn : |(rneInt (x / 2 ^ e) : ℚ)| ≤ 2 ^ (24:ℤ) := by
      have h1 := rneInt_mono (le_of_lt (abs_lt.mp hq).2)
      have h2 := rneInt_mono (le_of_lt (abs_lt.mp hq).1)
      have e1 : rneInt ((2:ℚ) ^ (24:ℤ)) = 2 ^ 24 := by
        have : ((2:ℚ) ^ (24:ℤ)) = ((2 ^ 24 : ℤ) : ℚ) := by norm_num
        rw [this, rneInt_intCast]
      have e2 : rneInt (-(2:ℚ) ^ (24:ℤ)) = -(2 ^ 24) := by rw [rneInt_neg, e1]
      rw [e1] at h1; rw [e2] at h2
      rw [abs_le]; constructor
      · have : ((-(2 ^ 24) : ℤ) : ℚ) ≤ (rneInt (x / 2 ^ e) : ℚ) := by exact_mod_cast h2
        norm_num at this ⊢; linarith
      · have : (rneInt (x / 2 ^ e) : ℚ) ≤ ((2 ^ 24 : ℤ) : ℚ) := by exact_mod_cast h1
        norm_num at this ⊢; linarith
    set n := rneInt (x / 2 ^ e) with hndef
    by_cases hlt : |n| < 2 ^ 24
    · exact ⟨n, e, rfl, hlt, hee⟩
    · -- |n| = 2^24: the value is ±2^(e+24)
      have hn' : |n| ≤ 2 ^ 24 := by
        have : |(n:ℚ)| = ((|n| : ℤ) : ℚ) := by push_cast; rfl
        rw [this] at hn
        have : ((|n| : ℤ) : ℚ) ≤ ((2 ^ 24 : ℤ) : ℚ) := by norm_num at hn ⊢; linarith
        exact_mod_cast this
      have heq : |n| = 2 ^ 24 := le_antisymm hn' (not_lt.mp hlt)
      rcases abs_eq (by norm_num : (0:ℤ) ≤ 2 ^ 24) |>.mp heq with h | h
      · refine ⟨1, e + 24, ?_, by norm_num, by omega⟩
        rw [h, zpow_add₀ two_ne]; push_cast; ring
      · refine ⟨-1, e + 24, ?_, by norm_num, by omega⟩
        rw [h, zpow_add₀ two_ne]; push_cast; ring

theorem rnd_idem (x : ℚ) : rnd (rnd x) = rnd x := rnd_rep (rep_rnd x)

/-- absolute error from a magnitude bound given as a plain rational (convenience form of `rnd_err`) -/
theorem rnd_err_le_one {x : ℚ} (h : |x| ≤ 1) : |rnd x - x| ≤ 2 ^ (-24:ℤ) := by
  have := rnd_err (x := x) (k := 1) (by norm_num) (lt_of_le_of_lt h (by norm_num))
  simpa using this

/-- error of one rounding at any magnitude: relative 2^-24 in the normal range, absolute 2^-150 below it -/
theorem rnd_err_gen (x : ℚ) : |rnd x - x| ≤ 2 ^ (-24:ℤ) * |x| + 2 ^ (-150:ℤ) := by
  by_cases h : 2 ^ (-126:ℤ) ≤ |x|
  · have := rnd_rel_err h
    have : (0:ℚ) < 2 ^ (-150:ℤ) := by positivity
    linarith
  · have hlt : |x| < 2 ^ (-125:ℤ) := lt_trans (not_le.mp h) (by norm_num)
    have := rnd_err (x := x) (k := -125) (by norm_num) hlt
    have e : (-125:ℤ) - 25 = -150 := by norm_num
    rw [e] at this
    have : (0:ℚ) ≤ 2 ^ (-24:ℤ) * |x| := by positivity
    linarith

/-- `toU32` of a finite non-negative value below 2^32 is its floor -/
theorem toU32_floor (r : ℚ) (nz : Bool) (h0 : 0 ≤ r) (h1 : r < 2 ^ 32) : ((toU32 (.fin r nz) : ℕ) : ℤ) = ⌊r⌋ := by
  have hneg : ¬ r < 0 := not_lt.mpr h0
  have hfl0 : 0 ≤ ⌊r⌋ := Int.floor_nonneg.mpr h0
  have hfl1 : ⌊r⌋ < 2 ^ 32 := by
    have : (⌊r⌋ : ℚ) ≤ r := Int.floor_le r
    have : (⌊r⌋ : ℚ) < 2 ^ 32 := lt_of_le_of_lt this h1
    exact_mod_cast this
  simp only [toU32, hneg, ↓reduceIte]
  have e : r.floor = ⌊r⌋ := rfl
  rw [e]
  have hnat : (⌊r⌋.toNat : ℤ) = ⌊r⌋ := Int.toNat_of_nonneg hfl0
  have hlt : ¬ (⌊r⌋.toNat ≥ 2 ^ 32) := by omega
  simp only [hlt, ↓reduceIte]
  exact hnat

end F32
