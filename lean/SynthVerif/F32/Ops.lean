import SynthVerif.F32.Rnd
/-!
# The F32 operations on finite values, in Mathlib vocabulary

Each model operation on `fin` values is "exact rational result, then `rnd`", provided the result does not overflow.
-/
namespace F32

theorem round_def (x : ℚ) (zs : Bool) : round x zs =
    if pow2 128 ≤ qabs (rnd x) then F32.inf (decide (x < 0))
    else if (rnd x == 0) = true then F32.fin 0 (if (x == 0) = true then zs else decide (x < 0))
    else F32.fin (rnd x) false := rfl

/-- no overflow ⇒ the rounded value is finite with value `rnd x` -/
theorem round_fin {x : ℚ} (zs : Bool) (h : |rnd x| < 2 ^ (128:ℤ)) :
    (round x zs).isFin = true ∧ (round x zs).val = rnd x := by
  rw [round_def, qabs_eq, pow2_eq]
  rw [if_neg (not_le.mpr h)]
  by_cases h0 : rnd x = 0
  · simp [h0]
  · have : (rnd x == 0) = false := by simpa using h0
    simp [this]

theorem rnd_le_of_le {x r : ℚ} (h : x ≤ r) (hr : Rep r) : rnd x ≤ r := by
  have := rnd_mono h; rwa [rnd_rep hr] at this

theorem le_rnd_of_le {x r : ℚ} (h : r ≤ x) (hr : Rep r) : r ≤ rnd x := by
  have := rnd_mono h; rwa [rnd_rep hr] at this

theorem rep_int {n : ℤ} (h : |n| < 2 ^ 24) : Rep (n : ℚ) :=
  ⟨n, 0, by simp, by exact_mod_cast h, by norm_num⟩

theorem rep_pow2 {k : ℤ} (hk : -149 ≤ k) : Rep ((2:ℚ) ^ k) :=
  ⟨1, k, by simp, by norm_num, hk⟩

theorem rep_neg {x : ℚ} (h : Rep x) : Rep (-x) := by
  obtain ⟨m, e, hx, hm, he⟩ := h
  exact ⟨-m, e, by rw [hx]; push_cast; ring, by rwa [abs_neg], he⟩

theorem rep_zero : Rep 0 := ⟨0, 0, by simp, by norm_num, by norm_num⟩
theorem rep_one : Rep 1 := by simpa using rep_int (n := 1) (by norm_num)

/-- |x| ≤ r representable ⇒ |rnd x| ≤ r -/
theorem abs_rnd_le {x r : ℚ} (h : |x| ≤ r) (hr : Rep r) : |rnd x| ≤ r := by
  rw [abs_le] at h ⊢
  exact ⟨by have := le_rnd_of_le h.1 (rep_neg hr); exact this, rnd_le_of_le h.2 hr⟩

theorem two_pow_128_big {r : ℚ} (h : r ≤ 2 ^ (127:ℤ)) : r < 2 ^ (128:ℤ) :=
  lt_of_le_of_lt h (by norm_num)

/-- a convenient no-overflow criterion -/
theorem no_overflow {x : ℚ} (h : |x| ≤ 2 ^ (127:ℤ)) : |rnd x| < 2 ^ (128:ℤ) :=
  two_pow_128_big (abs_rnd_le h (rep_pow2 (by norm_num)))

/-! ### operations on finite values -/

theorem add_fin (a b : ℚ) (na nb : Bool) :
    add (.fin a na) (.fin b nb) = round (a + b) (if (a == 0 && b == 0) = true then (na && nb) else false) := rfl

theorem neg_fin (a : ℚ) (na : Bool) : neg (.fin a na) = .fin (-a) (if (a == 0) = true then !na else false) := rfl

theorem sub_fin (a b : ℚ) (na nb : Bool) :
    sub (.fin a na) (.fin b nb) =
      round (a + -b) (if (a == 0 && -b == 0) = true then (na && (if (b == 0) = true then !nb else false)) else false) := rfl

theorem mul_fin (a b : ℚ) (na nb : Bool) :
    mul (.fin a na) (.fin b nb) = round (a * b) ((F32.fin a na).sign != (F32.fin b nb).sign) := rfl

theorem div_fin (a b : ℚ) (na nb : Bool) (hb : b ≠ 0) :
    div (.fin a na) (.fin b nb) = round (a / b) ((F32.fin a na).sign != (F32.fin b nb).sign) := by
  have : (b == 0) = false := by simpa using hb
  simp [div, this]

theorem lt_fin (a b : ℚ) (na nb : Bool) : lt (.fin a na) (.fin b nb) = decide (a < b) := rfl
theorem le_fin (a b : ℚ) (na nb : Bool) : le (.fin a na) (.fin b nb) = decide (a ≤ b) := rfl

/-- values: `val (x ∘ y) = rnd (val x ∘ val y)` when nothing overflows -/
theorem val_add {x y : F32} (hx : x.isFin = true) (hy : y.isFin = true) (h : |x.val + y.val| ≤ 2 ^ (127:ℤ)) :
    (add x y).isFin = true ∧ (add x y).val = rnd (x.val + y.val) := by
  cases x <;> cases y <;> simp_all [isFin, val]
  rw [add_fin]; exact round_fin _ (no_overflow h)

theorem val_sub {x y : F32} (hx : x.isFin = true) (hy : y.isFin = true) (h : |x.val - y.val| ≤ 2 ^ (127:ℤ)) :
    (sub x y).isFin = true ∧ (sub x y).val = rnd (x.val - y.val) := by
  cases x <;> cases y <;> simp_all [isFin, val]
  rw [sub_fin, ← sub_eq_add_neg]; exact round_fin _ (no_overflow h)

theorem val_mul {x y : F32} (hx : x.isFin = true) (hy : y.isFin = true) (h : |x.val * y.val| ≤ 2 ^ (127:ℤ)) :
    (mul x y).isFin = true ∧ (mul x y).val = rnd (x.val * y.val) := by
  cases x <;> cases y <;> simp_all [isFin, val]
  rw [mul_fin]; exact round_fin _ (no_overflow (by rwa [abs_mul]))

theorem val_div {x y : F32} (hx : x.isFin = true) (hy : y.isFin = true) (h0 : y.val ≠ 0)
    (h : |x.val / y.val| ≤ 2 ^ (127:ℤ)) :
    (div x y).isFin = true ∧ (div x y).val = rnd (x.val / y.val) := by
  cases x <;> cases y <;> simp_all [isFin, val]
  rw [div_fin _ _ _ _ h0]; exact round_fin _ (no_overflow (by first | exact h | rwa [abs_div]))

theorem ofNat_fin (n : ℕ) (h : n < 2 ^ 24) : (ofNat n).isFin = true ∧ (ofNat n).val = n := by
  have hr : Rep ((n:ℤ):ℚ) := rep_int (by rw [abs_of_nonneg (by positivity)]; exact_mod_cast h)
  have hrn : rnd (n:ℚ) = n := by simpa using rnd_rep hr
  have : |rnd (n:ℚ)| < 2 ^ (128:ℤ) := by
    rw [hrn, abs_of_nonneg (by positivity)]
    calc (n:ℚ) < 2 ^ 24 := by exact_mod_cast h
      _ < 2 ^ (128:ℤ) := by norm_num
  have := round_fin false this
  simpa [ofNat, hrn] using this

theorem ofInt_fin (n : ℤ) (h : |n| < 2 ^ 24) : (ofInt n).isFin = true ∧ (ofInt n).val = n := by
  have hrn : rnd (n:ℚ) = n := rnd_rep (rep_int h)
  have : |rnd (n:ℚ)| < 2 ^ (128:ℤ) := by
    rw [hrn]
    calc |(n:ℚ)| < 2 ^ 24 := by exact_mod_cast h
      _ < 2 ^ (128:ℤ) := by norm_num
  have := round_fin false this
  simpa [ofInt, hrn] using this

/-! ### casts to u32 -/

theorem toU32_fin_le (r : ℚ) (nz : Bool) (N : ℕ) (h : r ≤ N) (hN : N < 2 ^ 32) : toU32 (.fin r nz) ≤ N := by
  simp only [toU32]
  split
  · omega
  · rename_i hneg
    have h0 : 0 ≤ r := not_lt.mp hneg
    have hf : r.floor.toNat ≤ N := by
      have : r.floor ≤ (N:ℤ) := by
        have h' : (⌊r⌋ : ℤ) ≤ ⌊(N:ℚ)⌋ := Int.floor_le_floor h
        have h'' : (⌊r⌋ : ℤ) ≤ (N:ℤ) := by simpa using h'
        exact h''
      omega
    split <;> omega

/-- truncating a rounded result that is known not to exceed a representable integer bound -/
theorem toU32_round_le (x : ℚ) (zs : Bool) (N : ℕ) (hx : x ≤ N) (hlo : -(2:ℚ) ^ (127:ℤ) ≤ x) (hN : N < 2 ^ 24) :
    toU32 (round x zs) ≤ N := by
  have hrepN : Rep (N:ℚ) := by
    have := rep_int (n := (N:ℤ)) (by rw [abs_of_nonneg (by positivity)]; exact_mod_cast hN)
    simpa using this
  have hr : rnd x ≤ N := rnd_le_of_le hx hrepN
  have hN' : (N:ℚ) ≤ 2 ^ (127:ℤ) := by
    have : (N:ℚ) < 2 ^ 24 := by exact_mod_cast hN
    exact le_trans (le_of_lt this) (by norm_num)
  have hov : |rnd x| < 2 ^ (128:ℤ) := by
    apply no_overflow
    rw [abs_le]; exact ⟨hlo, le_trans hx hN'⟩
  rw [round_def, qabs_eq, pow2_eq, if_neg (not_le.mpr hov)]
  split
  · exact toU32_fin_le 0 _ N (by positivity) (by omega)
  · exact toU32_fin_le _ _ N hr (by omega)

end F32
