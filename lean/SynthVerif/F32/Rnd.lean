import SynthVerif.F32.Lemmas

namespace F32

private theorem two_ne : (2:ℚ) ≠ 0 := by norm_num
private theorem one_lt_two : (1:ℚ) < 2 := by norm_num
private theorem tp (k : ℤ) : (0:ℚ) < 2 ^ k := by positivity

theorem ilog2_lt_of_abs_lt {x : ℚ} (hx : x ≠ 0) {k : ℤ} (h : |x| < 2 ^ k) : ilog2 x < k := by
  have := (ilog2_spec hx).1
  rw [pow2_eq] at this
  exact (zpow_lt_zpow_iff_right₀ one_lt_two).mp (lt_of_le_of_lt this h)

theorem le_ilog2_of_le_abs {x : ℚ} (hx : x ≠ 0) {k : ℤ} (h : 2 ^ k ≤ |x|) : k ≤ ilog2 x := by
  have := (ilog2_spec hx).2
  rw [pow2_eq] at this
  have := (zpow_lt_zpow_iff_right₀ one_lt_two).mp (lt_of_le_of_lt h this)
  omega

theorem ilog2_neg (x : ℚ) (hx : x ≠ 0) : ilog2 (-x) = ilog2 x := by
  have hnx : -x ≠ 0 := neg_ne_zero.mpr hx
  have s1 := ilog2_spec hx
  have s2 := ilog2_spec hnx
  rw [abs_neg, pow2_eq, pow2_eq] at s2
  rw [pow2_eq, pow2_eq] at s1
  have a := le_ilog2_of_le_abs hx s2.1
  have b := le_ilog2_of_le_abs hnx (by rw [abs_neg]; exact s1.1)
  omega

theorem expo_neg (x : ℚ) (hx : x ≠ 0) : expo (-x) = expo x := by
  rw [expo_def, expo_def, ilog2_neg x hx]

theorem rnd_zero : rnd 0 = 0 := by rw [rnd_def]; simp

theorem rnd_neg (x : ℚ) : rnd (-x) = - rnd x := by
  by_cases hx : x = 0
  · subst hx; simp [rnd_zero]
  · have hnx : -x ≠ 0 := neg_ne_zero.mpr hx
    rw [rnd_def, rnd_def, if_neg hx, if_neg hnx, expo_neg x hx, neg_div, rneInt_neg]
    push_cast; ring

/-- the grid error: half a unit in the last place -/
theorem rnd_sub_le (x : ℚ) (hx : x ≠ 0) : |rnd x - x| ≤ 2 ^ (expo x) / 2 := by
  rw [rnd_def, if_neg hx, pow2_eq]
  set e := expo x
  have hp := tp e
  have h := rneInt_sub_le (x / 2 ^ e)
  have : (rneInt (x / 2 ^ e) : ℚ) * 2 ^ e - x = ((rneInt (x / 2 ^ e) : ℚ) - x / 2 ^ e) * 2 ^ e := by
    field_simp
  rw [this, abs_mul, abs_of_pos hp]
  calc |(rneInt (x / 2 ^ e) : ℚ) - x / 2 ^ e| * 2 ^ e ≤ 1/2 * 2 ^ e :=
        mul_le_mul_of_nonneg_right h (le_of_lt hp)
    _ = 2 ^ e / 2 := by ring

/-- uniform absolute error bound: |x| < 2^k (k ≥ -125) ⇒ error ≤ 2^(k-25) -/
theorem rnd_err {x : ℚ} {k : ℤ} (hk : -125 ≤ k) (h : |x| < 2 ^ k) : |rnd x - x| ≤ 2 ^ (k - 25) := by
  by_cases hx : x = 0
  · subst hx; simp [rnd_zero]; positivity
  · have hl := ilog2_lt_of_abs_lt hx h
    have he : expo x ≤ k - 24 := by rw [expo_def]; omega
    calc |rnd x - x| ≤ 2 ^ (expo x) / 2 := rnd_sub_le x hx
      _ ≤ 2 ^ (k - 24) / 2 := by
          apply div_le_div_of_nonneg_right _ (by norm_num : (0:ℚ) ≤ 2)
          exact zpow_le_zpow_right₀ (le_of_lt one_lt_two) he
      _ = 2 ^ (k - 25) := by
          have : k - 24 = (k - 25) + 1 := by ring
          rw [this, zpow_add₀ two_ne]; simp

/-- binary32 finite values (unbounded above; callers bound the magnitude) -/
def Rep (x : ℚ) : Prop := ∃ m e : ℤ, x = m * 2 ^ e ∧ |m| < 2 ^ 24 ∧ -149 ≤ e

theorem rnd_rep {x : ℚ} (h : Rep x) : rnd x = x := by
  obtain ⟨m, e, rfl, hm, he⟩ := h
  by_cases hx : (m:ℚ) * 2 ^ e = 0
  · rw [hx, rnd_zero]
  · rw [rnd_def, if_neg hx, pow2_eq]
    set x := (m:ℚ) * 2 ^ e with hxdef
    have habs : |x| < 2 ^ (e + 24) := by
      rw [hxdef, abs_mul, abs_of_pos (tp e), zpow_add₀ two_ne, mul_comm]
      apply mul_lt_mul_of_pos_left _ (tp e)
      have : |(m:ℚ)| = ((|m| : ℤ) : ℚ) := by push_cast; rfl
      rw [this]; exact_mod_cast hm
    have hl := ilog2_lt_of_abs_lt hx habs
    have hle : expo x ≤ e := by rw [expo_def]; omega
    obtain ⟨n, hn⟩ := Int.eq_ofNat_of_zero_le (show 0 ≤ e - expo x by omega)
    have hdiv : x / 2 ^ (expo x) = ((m * 2 ^ n : ℤ) : ℚ) := by
      rw [hxdef, mul_div_assoc, ← zpow_sub₀ two_ne, hn]
      push_cast; simp
    rw [hdiv, rneInt_intCast]
    push_cast
    rw [mul_assoc, ← zpow_natCast, ← hn, ← zpow_add₀ two_ne]
    congr 2; ring

theorem rneInt_nonneg {z : ℚ} (hz : 0 ≤ z) : 0 ≤ rneInt z := by
  have := rneInt_mono hz
  rwa [show (0:ℚ) = ((0:ℤ):ℚ) by simp, rneInt_intCast] at this

theorem rnd_nonneg {x : ℚ} (hx : 0 ≤ x) : 0 ≤ rnd x := by
  rw [rnd_def]; split_ifs
  · exact le_refl _
  · rw [pow2_eq]
    apply mul_nonneg _ (le_of_lt (tp _))
    exact_mod_cast rneInt_nonneg (div_nonneg hx (le_of_lt (tp _)))

theorem ilog2_mono {x y : ℚ} (hx : 0 < x) (hxy : x ≤ y) : ilog2 x ≤ ilog2 y := by
  have hy : 0 < y := lt_of_lt_of_le hx hxy
  have s1 := (ilog2_spec (ne_of_gt hx)).1
  rw [pow2_eq, abs_of_pos hx] at s1
  apply le_ilog2_of_le_abs (ne_of_gt hy)
  rw [abs_of_pos hy]; exact le_trans s1 hxy

theorem rnd_mono_pos {x y : ℚ} (hx : 0 < x) (hxy : x ≤ y) : rnd x ≤ rnd y := by
  have hy : 0 < y := lt_of_lt_of_le hx hxy
  have hx0 := ne_of_gt hx
  have hy0 := ne_of_gt hy
  have hil := ilog2_mono hx hxy
  have hex : expo x ≤ expo y := by rw [expo_def, expo_def]; omega
  rw [rnd_def, rnd_def, if_neg hx0, if_neg hy0, pow2_eq, pow2_eq]
  rcases eq_or_lt_of_le hex with heq | hlt
  · rw [heq]
    apply mul_le_mul_of_nonneg_right _ (le_of_lt (tp _))
    exact_mod_cast rneInt_mono (div_le_div_of_nonneg_right hxy (le_of_lt (tp _)))
  · -- different binades: separate through a power of two
    set ex := expo x
    set ey := expo y
    have hey : ey = ilog2 y - 23 := by
      have h1 : ey = max (ilog2 y - 23) (-149) := expo_def y
      have h2 : ex = max (ilog2 x - 23) (-149) := expo_def x
      omega
    have hexl : ilog2 x - 23 ≤ ex := by
      have h2 : ex = max (ilog2 x - 23) (-149) := expo_def x
      omega
    set K := ilog2 x + 1
    have hK : K ≤ ilog2 y := by omega
    -- upper bound on rnd x
    have sx := (ilog2_spec hx0).2
    rw [pow2_eq, abs_of_pos hx] at sx
    obtain ⟨n, hn⟩ := Int.eq_ofNat_of_zero_le (show 0 ≤ max (K - ex) 0 by omega)
    have hzx : x / 2 ^ ex ≤ ((2 ^ n : ℤ) : ℚ) := by
      rw [div_le_iff₀ (tp ex)]
      push_cast
      rw [← zpow_natCast, ← hn, ← zpow_add₀ two_ne]
      apply le_trans (le_of_lt sx)
      apply zpow_le_zpow_right₀ (le_of_lt one_lt_two)
      omega
    have hrx : (rneInt (x / 2 ^ ex) : ℚ) * 2 ^ ex ≤ 2 ^ (ilog2 y) := by
      have h1 := rneInt_mono hzx
      rw [rneInt_intCast] at h1
      have h2 : (rneInt (x / 2 ^ ex) : ℚ) ≤ ((2 ^ n : ℤ) : ℚ) := by exact_mod_cast h1
      calc (rneInt (x / 2 ^ ex) : ℚ) * 2 ^ ex ≤ ((2 ^ n : ℤ) : ℚ) * 2 ^ ex :=
            mul_le_mul_of_nonneg_right h2 (le_of_lt (tp _))
        _ = 2 ^ (max (K - ex) 0 + ex) := by
            push_cast; rw [← zpow_natCast, ← hn, ← zpow_add₀ two_ne]
        _ ≤ 2 ^ (ilog2 y) := by
            apply zpow_le_zpow_right₀ (le_of_lt one_lt_two); omega
    -- lower bound on rnd y
    have sy := (ilog2_spec hy0).1
    rw [pow2_eq, abs_of_pos hy] at sy
    have hzy : (((2:ℤ) ^ 23 : ℤ) : ℚ) ≤ y / 2 ^ ey := by
      rw [le_div_iff₀ (tp ey)]
      have h223 : ((((2:ℤ) ^ 23 : ℤ)) : ℚ) = (2:ℚ) ^ (23:ℤ) := by norm_num
      rw [h223, ← zpow_add₀ two_ne]
      have : (23:ℤ) + ey = ilog2 y := by omega
      rw [this]; exact sy
    have hry : (2:ℚ) ^ (ilog2 y) ≤ (rneInt (y / 2 ^ ey) : ℚ) * 2 ^ ey := by
      have h1 := rneInt_mono hzy
      rw [rneInt_intCast] at h1
      have h2 : (((2:ℤ) ^ 23 : ℤ) : ℚ) ≤ (rneInt (y / 2 ^ ey) : ℚ) := by exact_mod_cast h1
      calc (2:ℚ) ^ (ilog2 y) = (((2:ℤ) ^ 23 : ℤ) : ℚ) * 2 ^ ey := by
            have h223 : ((((2:ℤ) ^ 23 : ℤ)) : ℚ) = (2:ℚ) ^ (23:ℤ) := by norm_num
            rw [h223, ← zpow_add₀ two_ne]; congr 1; omega
        _ ≤ (rneInt (y / 2 ^ ey) : ℚ) * 2 ^ ey := mul_le_mul_of_nonneg_right h2 (le_of_lt (tp _))
    exact le_trans hrx hry

theorem rnd_mono {x y : ℚ} (hxy : x ≤ y) : rnd x ≤ rnd y := by
  rcases lt_trichotomy 0 x with hx | hx | hx
  · exact rnd_mono_pos hx hxy
  · subst hx; rw [rnd_zero]; exact rnd_nonneg hxy
  · rcases le_or_gt 0 y with hy | hy
    · have : rnd x ≤ 0 := by
        have := rnd_nonneg (show 0 ≤ -x by linarith)
        rw [rnd_neg] at this; linarith
      exact le_trans this (rnd_nonneg hy)
    · have := rnd_mono_pos (show 0 < -y by linarith) (show -y ≤ -x by linarith)
      rw [rnd_neg, rnd_neg] at this; linarith

end F32
