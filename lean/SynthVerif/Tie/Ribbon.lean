import SynthVerif.Gen.Src.ribbon_controller
import SynthVerif.Tie.PhaseAcc
import SynthVerif.Model.Ribbon
/-!
# Tie 1d: `src/ribbon_controller.rs`, translated by `tools/rs2lean.py`, refines `SynthVerif/Model/Ribbon.lean`

`heapless::HistoryBuffer` is the model's own `HistBuf` (hand-written dependency model, `Src/Deps.lean`), so the buffer
needs no abstraction; what is proved is that the crate's bookkeeping around it — the two counters with their clamps, the
capture window, the correction, the edge flags, the construction arithmetic with its overflow panics — is the model.
-/
open F32 Rs
namespace Tie.Ribbon
open Src.ribbon_controller

def abs {N : Nat} (s : RibbonController N) : _root_.Ribbon :=
  { boundary := s.finger_press_high_boundary, errorConst := s.error_const, current := s.current_val,
    pressing := s.finger_is_pressing, justPressed := s.finger_just_pressed, justReleased := s.finger_just_released,
    buff := s.buff, ignore := s.num_to_ignore_up_front, discard := s.num_to_discard_at_end,
    received := s.num_samples_received, written := s.num_samples_written }

/-- counters never exceed their clamps (so `+= 1` on `usize` cannot overflow) -/
structure WF {N : Nat} (s : RibbonController N) : Prop where
  recv : s.num_samples_received ≤ s.num_to_ignore_up_front
  ign : s.num_to_ignore_up_front < 2 ^ 32
  wr : s.num_samples_written ≤ s.buff.cap
  cap : s.buff.cap < 2 ^ 63

theorem fall : Src.ribbon_controller.RIBBON_FALL_TIME_USEC = Gen.ribbonFallUsec := by decide
theorem rise : Src.ribbon_controller.RIBBON_RISE_TIME_USEC = Gen.ribbonRiseUsec := by decide
theorem mincap : Src.ribbon_controller.MIN_CAPTURE_TIME_USEC = Gen.ribbonMinCaptureUsec := by decide

theorem usec_tie (sr : F32) (u : Nat) :
    ((umul U32.bound (F32.toU32 sr) u).bind fun t => udiv t 1000000) = _root_.Ribbon.usecToSamples sr u := by
  unfold _root_.Ribbon.usecToSamples umul chk U32.bound
  by_cases h : F32.toU32 sr * u < 2 ^ 32
  · have : ¬ F32.toU32 sr * u ≥ 2 ^ 32 := by omega
    simp [h, this, udiv]
  · have : F32.toU32 sr * u ≥ 2 ^ 32 := by omega
    simp [h, this]

theorem usec_lt (sr : F32) (u : Nat) (hu : 1 ≤ u) (n : Nat) (h : _root_.Ribbon.usecToSamples sr u = some n) : n < 2 ^ 32 := by
  unfold _root_.Ribbon.usecToSamples at h
  simp only at h
  split at h
  · cases h
  · cases h; omega

theorem new_tie {N : Nat} (hN : N < 2 ^ 63) (sr a b c : F32) :
    (RibbonController.new (BUFFER_CAPACITY := N) sr a b c).map abs = _root_.Ribbon.new N sr a b c ∧
      ∀ s, RibbonController.new (BUFFER_CAPACITY := N) sr a b c = some s → WF s := by
  have h1 := usec_tie sr Gen.ribbonFallUsec
  have h2 := usec_tie sr Gen.ribbonRiseUsec
  unfold RibbonController.new _root_.Ribbon.new
  simp only [bind, pure, fall, rise]
  cases hf : _root_.Ribbon.usecToSamples sr Gen.ribbonFallUsec with
  | none =>
    rw [hf] at h1
    cases hm : umul U32.bound (F32.toU32 sr) Gen.ribbonFallUsec with
    | none => simp
    | some t => rw [hm] at h1; simp only [Option.bind_some] at h1; simp [h1]
  | some ign =>
    rw [hf] at h1
    cases hm : umul U32.bound (F32.toU32 sr) Gen.ribbonFallUsec with
    | none => rw [hm] at h1; simp at h1
    | some t =>
      rw [hm] at h1; simp only [Option.bind_some] at h1
      simp only [Option.bind_some, h1]
      cases hr : _root_.Ribbon.usecToSamples sr Gen.ribbonRiseUsec with
      | none =>
        rw [hr] at h2
        cases hm2 : umul U32.bound (F32.toU32 sr) Gen.ribbonRiseUsec with
        | none => simp
        | some t2 => rw [hm2] at h2; simp only [Option.bind_some] at h2; simp [h2]
      | some disc =>
        rw [hr] at h2
        cases hm2 : umul U32.bound (F32.toU32 sr) Gen.ribbonRiseUsec with
        | none => rw [hm2] at h2; simp at h2
        | some t2 =>
          rw [hm2] at h2; simp only [Option.bind_some] at h2
          simp only [Option.bind_some, h2, Option.map_some]
          refine ⟨?_, fun s hs => ?_⟩
          · simp [abs, Tie.PhaseAcc.lit_one, Tie.PhaseAcc.lit_zero]
          · cases hs
            exact ⟨Nat.zero_le _, usec_lt sr _ (by decide) _ hf, Nat.zero_le _, hN⟩

theorem value_tie {N : Nat} (s : RibbonController N) : RibbonController.value s = some (abs s).value := by
  simp [RibbonController.value, _root_.Ribbon.value, abs, Tie.PhaseAcc.lit_one]

theorem just_pressed_tie {N : Nat} (s : RibbonController N) :
    (RibbonController.finger_just_pressed_fn s).map (fun r => (r.2, abs r.1)) = some (abs s).readJustPressed := by
  unfold RibbonController.finger_just_pressed_fn _root_.Ribbon.readJustPressed
  cases h : s.finger_just_pressed <;> simp [h, abs]

theorem just_released_tie {N : Nat} (s : RibbonController N) :
    (RibbonController.finger_just_released_fn s).map (fun r => (r.2, abs r.1)) = some (abs s).readJustReleased := by
  unfold RibbonController.finger_just_released_fn _root_.Ribbon.readJustReleased
  cases h : s.finger_just_released <;> simp [h, abs]

theorem write_cap (b : HistBuf) (x : F32) : (HistBuf.write b x).cap = b.cap := by
  unfold HistBuf.write; split <;> rfl

/-- `poll(x)`: same new state, same panic (`capacity − discard` underflow), counters stay inside their clamps -/
theorem poll_tie {N : Nat} (s : RibbonController N) (h : WF s) (x : F32) :
    (RibbonController.poll s x).map abs = (abs s).poll x ∧ ∀ s', RibbonController.poll s x = some s' → WF s' := by
  obtain ⟨bd, ec, cur, pr, jp, jr, buf, ign, disc, rc, wr⟩ := s
  obtain ⟨hrc, hign, hwr, hcap⟩ := h
  simp only at hrc hign hwr hcap
  unfold RibbonController.poll _root_.Ribbon.poll
  simp only [bind, pure, abs]
  by_cases hx : F32.lt x bd = true
  · have ha1 : uadd Usize.bound rc 1 = some (rc + 1) := uadd_ok (by simp only [Usize.bound]; omega)
    simp only [hx, if_true, ha1, Option.bind_some]
    by_cases hi : ign ≤ min (rc + 1) ign
    · have ha2 : uadd Usize.bound wr 1 = some (wr + 1) := uadd_ok (by simp only [Usize.bound]; omega)
      simp only [hi, decide_true, if_true, ha2, Option.bind_some, HistBuf.capacity, write_cap]
      by_cases hw : (min (wr + 1) buf.cap == buf.cap) = true
      · simp only [hw, if_true]
        by_cases hd : disc ≤ buf.cap
        · have hs : usub buf.cap disc = some (buf.cap - disc) := usub_ok hd
          have hnl : ¬ buf.cap < disc := by omega
          simp only [hs, Option.bind_some, hnl, if_false, RibbonController.error_estimate, _root_.Ribbon.errorEstimate]
          cases pr
          · refine ⟨by simp [abs, Deps.fsum, _root_.Ribbon.fsum, HistBuf.oldestOrdered], fun s' hs' => ?_⟩
            simp at hs'; subst hs'
            exact ⟨by simp; omega, hign, by simp [write_cap]; omega, by simp [write_cap]; exact hcap⟩
          · refine ⟨by simp [abs, Deps.fsum, _root_.Ribbon.fsum, HistBuf.oldestOrdered], fun s' hs' => ?_⟩
            simp at hs'; subst hs'
            exact ⟨by simp; omega, hign, by simp [write_cap]; omega, by simp [write_cap]; exact hcap⟩
        · have hs : usub buf.cap disc = none := by simp [usub, hd]
          have hnl : buf.cap < disc := by omega
          simp [hs, hnl]
      · simp only [hw, Bool.false_eq_true, if_false]
        refine ⟨by simp [abs], fun s' hs' => ?_⟩
        simp at hs'; subst hs'
        exact ⟨by simp; omega, hign, by simp [write_cap]; omega, by simp [write_cap]; exact hcap⟩
    · simp only [hi, decide_false, Bool.false_eq_true, if_false]
      refine ⟨by simp [abs], fun s' hs' => ?_⟩
      simp at hs'; subst hs'
      exact ⟨by simp; omega, hign, hwr, hcap⟩
  · simp only [hx, Bool.false_eq_true, if_false]
    cases pr
    · refine ⟨by simp [abs], fun s' hs' => ?_⟩
      simp at hs'; subst hs'
      exact ⟨Nat.zero_le _, hign, Nat.zero_le _, hcap⟩
    · refine ⟨by simp [abs], fun s' hs' => ?_⟩
      simp at hs'; subst hs'
      exact ⟨Nat.zero_le _, hign, Nat.zero_le _, hcap⟩

/-- `sample_rate_to_capacity(sr)` (const fn on `u32`): same value, same overflow -/
theorem capacity_tie (sr : Nat) (h : sr < 2 ^ 32) :
    Src.ribbon_controller.sample_rate_to_capacity sr = _root_.Ribbon.sampleRateToCapacity sr := by
  unfold Src.ribbon_controller.sample_rate_to_capacity _root_.Ribbon.sampleRateToCapacity
  simp only [bind, pure, mincap, rise, umul, chk, U32.bound]
  by_cases h1 : sr * Gen.ribbonMinCaptureUsec < 2 ^ 32
  · by_cases h2 : sr * Gen.ribbonRiseUsec < 2 ^ 32
    · have hn : ¬ (sr * Gen.ribbonMinCaptureUsec ≥ 2 ^ 32 ∨ sr * Gen.ribbonRiseUsec ≥ 2 ^ 32) := by omega
      have hb1 : sr * Gen.ribbonMinCaptureUsec / 1000000 + sr * Gen.ribbonRiseUsec / 1000000 < Usize.bound := by
        simp only [Usize.bound]; omega
      have hb2 : sr * Gen.ribbonMinCaptureUsec / 1000000 + sr * Gen.ribbonRiseUsec / 1000000 + 1 < Usize.bound := by
        simp only [Usize.bound]; omega
      simp [h1, h2, hn, udiv, uadd, chk, hb1, hb2]
    · have hn : (sr * Gen.ribbonMinCaptureUsec ≥ 2 ^ 32 ∨ sr * Gen.ribbonRiseUsec ≥ 2 ^ 32) := by omega
      simp [h1, h2, hn, udiv]
  · have hn : (sr * Gen.ribbonMinCaptureUsec ≥ 2 ^ 32 ∨ sr * Gen.ribbonRiseUsec ≥ 2 ^ 32) := by omega
    simp [h1, hn]

end Tie.Ribbon
