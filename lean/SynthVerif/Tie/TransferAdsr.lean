import SynthVerif.Tie.Adsr
import SynthVerif.Props.C01
import SynthVerif.Props.C01Fidelity
import SynthVerif.Props.C02
import SynthVerif.Props.C02Timing
import SynthVerif.Props.C03
import SynthVerif.Props.C03Boundary
import SynthVerif.Props.C03Sustain
import SynthVerif.Props.C17
import SynthVerif.Props.C20
/-!
# Tie 1d, end to end, `adsr.rs`: C01, C02, C03, C17, C20 restated for the *translated source*

Every theorem here speaks about `Src.adsr.*` — the text of `/repo/src/adsr.rs` as translated on this run — and is obtained
by composing a property theorem about the model with the refinement theorems of `Tie/Adsr.lean`.  The state fields that
occur in the conclusions (`s.value`, `s.state`, `s.phase_accumulator.accumulator`, `s.sustain_level._0`) are the fields
of the Rust struct.

`Reach s` : `s` is a state of the translated source reachable from `Adsr::new(sr)`, `100 ≤ sr ≤ 192000`, by public-API
calls (the C17 op type: `gate_on | gate_off | tick | set_input(From<f32>)` with finite arguments).
-/
open F32 Rs
namespace Tie.TransferAdsr
open Src.adsr Tie.Adsr

/-- reachable states of the translated source -/
def Reach (s : Src.adsr.Adsr) : Prop :=
  ∃ sr ops, AdsrL.RateOk sr ∧ (∀ o ∈ ops, C17.opWf o) ∧ (Src.adsr.Adsr.new sr).bind (Tie.Adsr.run · ops) = some s

/-- a reachable source state is well-formed and its abstraction satisfies the model invariant of C01 -/
theorem reach_inv {s : Src.adsr.Adsr} (h : Reach s) : WF s ∧ C01.AInv (Tie.Adsr.abs s) := by
  obtain ⟨sr, ops, hsr, hw, hrun⟩ := h
  obtain ⟨s0, h0, hwf0, habs0⟩ := new_tie sr
  rw [h0, Option.bind_some] at hrun
  obtain ⟨hmap, hwf⟩ := run_tie ops s0 hwf0
  refine ⟨hwf s hrun, ?_⟩
  obtain ⟨a', hrun', hinv, _⟩ := C01.inv_all_histories sr hsr ops hw
  rw [hrun, habs0, hrun'] at hmap
  simp only [Option.map_some, Option.some.injEq] at hmap
  rw [hmap]; exact hinv

/-- no public call panics from a reachable state, and the result is reachable again -/
theorem reach_step {s : Src.adsr.Adsr} (h : Reach s) (o : C17.Op) (ho : C17.opWf o) :
    ∃ s', Tie.Adsr.step s o = some s' ∧ Reach s' := by
  obtain ⟨hwf, hinv⟩ := reach_inv h
  obtain ⟨a', ha', _⟩ := C01.step_inv (Tie.Adsr.abs s) hinv o ho
  obtain ⟨hmap, _⟩ := step_tie s hwf o
  cases hs : Tie.Adsr.step s o with
  | none => rw [hs, ha'] at hmap; simp at hmap
  | some s' =>
    refine ⟨s', rfl, ?_⟩
    obtain ⟨sr, ops, hsr, hw, hrun⟩ := h
    refine ⟨sr, ops ++ [o], hsr, ?_, ?_⟩
    · intro o' ho'
      rcases List.mem_append.mp ho' with h1 | h1
      · exact hw o' h1
      · simp only [List.mem_singleton] at h1; subst h1; exact ho
    · cases hn : Src.adsr.Adsr.new sr with
      | none => rw [hn] at hrun; simp at hrun
      | some s0 =>
        rw [hn] at hrun
        simp only [Option.bind_some] at hrun ⊢
        have app : ∀ (l : List C17.Op) (x y : Src.adsr.Adsr), Tie.Adsr.run x l = some y →
            Tie.Adsr.run x (l ++ [o]) = Tie.Adsr.step y o := by
          intro l
          induction l with
          | nil =>
            intro x y e
            simp only [Tie.Adsr.run, Option.some.injEq] at e; subst e
            simp only [List.nil_append, Tie.Adsr.run]
            cases Tie.Adsr.step x o <;> rfl
          | cons a l ih =>
            intro x y e
            simp only [Tie.Adsr.run, List.cons_append] at e ⊢
            cases hx : Tie.Adsr.step x a with
            | none => rw [hx] at e; simp at e
            | some x' => rw [hx] at e; simp only; exact ih x' y e
        rw [app ops s0 s hrun, hs]

/-- non-vacuity: reachable states exist — `Adsr::new(1000.0)` itself, and (by `reach_step`) everything after it -/
example : ∃ s, Reach s := by
  have hsr : AdsrL.RateOk (ofBits 0x447a0000) := ⟨1000, false, by decide +kernel, by norm_num, by norm_num⟩
  obtain ⟨s0, h0, _, _⟩ := new_tie (ofBits 0x447a0000)
  exact ⟨s0, _, [], hsr, by simp, by rw [h0]; rfl⟩

/-- a `tick` on the source is the `tick` of the model on the abstracted states -/
theorem tick_sim {s s' : Src.adsr.Adsr} (hwf : WF s) (e : Src.adsr.Adsr.tick s = some s') :
    (Tie.Adsr.abs s).tick = some (Tie.Adsr.abs s') ∧ WF s' := by
  obtain ⟨hmap, hw⟩ := tick_tie s hwf
  rw [e] at hmap
  exact ⟨hmap.symm, hw s' e⟩

theorem gate_on_sim {s : Src.adsr.Adsr} (hwf : WF s) :
    ∃ s', Src.adsr.Adsr.gate_on s = some s' ∧ WF s' ∧ Tie.Adsr.abs s' = (Tie.Adsr.abs s).gateOn := gate_on_tie s hwf

theorem gate_off_sim {s : Src.adsr.Adsr} (hwf : WF s) :
    ∃ s', Src.adsr.Adsr.gate_off s = some s' ∧ WF s' ∧ Tie.Adsr.abs s' = (Tie.Adsr.abs s).gateOff := gate_off_tie s hwf

theorem absState_inj {a b : State} (h : absState a = absState b) : a = b := by
  cases a <;> cases b <;> simp_all [absState]

/-! ## C01 — range, shape, exact levels, curve fidelity -/

/-- every reachable output lies in `[0, 1]` (and is a finite binary32) -/
theorem c01_range {s : Src.adsr.Adsr} (h : Reach s) : s.value.isFin = true ∧ 0 ≤ s.value.val ∧ s.value.val ≤ 1 := by
  obtain ⟨_, hinv⟩ := reach_inv h
  exact ⟨hinv.val.1, hinv.val.2.1, hinv.val.2.2.1⟩

/-- attack: non-decreasing between consecutive ticks -/
theorem c01_attack_monotone {s0 s1 s2 : Src.adsr.Adsr} (h : Reach s0) (e1 : Src.adsr.Adsr.tick s0 = some s1)
    (e2 : Src.adsr.Adsr.tick s1 = some s2) (a1 : s1.state = .Attack) (a2 : s2.state = .Attack) :
    s1.value.val ≤ s2.value.val := by
  obtain ⟨hwf, hinv⟩ := reach_inv h
  obtain ⟨m1, w1⟩ := tick_sim hwf e1
  obtain ⟨m2, _⟩ := tick_sim w1 e2
  exact C01.attack_monotone _ _ _ hinv m1 m2 (by simp [Tie.Adsr.abs, absState, a1]) (by simp [Tie.Adsr.abs, absState, a2])

/-- decay: non-increasing, never below the sustain level -/
theorem c01_decay_monotone {s0 s1 s2 : Src.adsr.Adsr} (h : Reach s0) (e1 : Src.adsr.Adsr.tick s0 = some s1)
    (e2 : Src.adsr.Adsr.tick s1 = some s2) (a1 : s1.state = .Decay) (a2 : s2.state = .Decay) :
    s2.value.val ≤ s1.value.val ∧ s2.sustain_level._0.val ≤ s2.value.val := by
  obtain ⟨hwf, hinv⟩ := reach_inv h
  obtain ⟨m1, w1⟩ := tick_sim hwf e1
  obtain ⟨m2, _⟩ := tick_sim w1 e2
  exact C01.decay_monotone _ _ _ hinv m1 m2 (by simp [Tie.Adsr.abs, absState, a1]) (by simp [Tie.Adsr.abs, absState, a2])

/-- release: non-increasing -/
theorem c01_release_monotone {s0 s1 s2 : Src.adsr.Adsr} (h : Reach s0) (e1 : Src.adsr.Adsr.tick s0 = some s1)
    (e2 : Src.adsr.Adsr.tick s1 = some s2) (a1 : s1.state = .Release) (a2 : s2.state = .Release) :
    s2.value.val ≤ s1.value.val := by
  obtain ⟨hwf, hinv⟩ := reach_inv h
  obtain ⟨m1, w1⟩ := tick_sim hwf e1
  obtain ⟨m2, _⟩ := tick_sim w1 e2
  exact C01.release_monotone _ _ _ hinv m1 m2 (by simp [Tie.Adsr.abs, absState, a1]) (by simp [Tie.Adsr.abs, absState, a2])

/-- exact levels: the sustain level while sustaining, 0 at rest, 1.0 at the start of the decay (= top of the attack) -/
theorem c01_exact_levels {s s' : Src.adsr.Adsr} (h : Reach s) (e : Src.adsr.Adsr.tick s = some s') :
    (s'.state = .Sustain → s'.value.val = s'.sustain_level._0.val) ∧
    (s'.state = .AtRest → s'.value.val = 0) ∧
    (s'.state = .Decay → s'.phase_accumulator.accumulator = 0 → s'.value.val = 1) ∧
    (s'.state = .Attack → s'.phase_accumulator.accumulator / 2 ^ 14 = 1023 → s'.value.val = 1) := by
  obtain ⟨hwf, hinv⟩ := reach_inv h
  obtain ⟨m, _⟩ := tick_sim hwf e
  refine ⟨fun hs => ?_, fun hs => ?_, fun hs ha => ?_, fun hs ha => ?_⟩
  · exact C01.sustain_exact _ _ hinv m (by simp [Tie.Adsr.abs, absState, hs])
  · exact C01.rest_exact _ _ hinv m (by simp [Tie.Adsr.abs, absState, hs])
  · exact C01.decay_starts_at_one _ _ hinv m (by simp [Tie.Adsr.abs, absState, hs]) (by simpa [Tie.Adsr.abs, Tie.PhaseAcc.abs] using ha)
  · exact C01.attack_top _ _ hinv m (by simp [Tie.Adsr.abs, absState, hs]) (by simpa [Tie.Adsr.abs, Tie.PhaseAcc.abs] using ha)

/-- curve fidelity: every tick output is within 0.5 % of full scale of the documented RC curve stretched between the
level the phase started from and its target -/
theorem c01_fidelity {s s' : Src.adsr.Adsr} (h : Reach s) (e : Src.adsr.Adsr.tick s = some s') :
    |((s'.value.val : ℚ) : ℝ) - C01.Fidelity.reference (Tie.Adsr.abs s') ((s'.phase_accumulator.accumulator : ℝ) / 2 ^ 24)| ≤ 5 / 1000 := by
  obtain ⟨hwf, hinv⟩ := reach_inv h
  obtain ⟨m, _⟩ := tick_sim hwf e
  exact C01.Fidelity.fidelity _ _ hinv m

/-! ## C02 — transitions and timing -/

/-- `gate_on`: ignored during attack; otherwise a new attack from counter 0 that latches the level being output -/
theorem c02_gate_on {s : Src.adsr.Adsr} (hwf : WF s) :
    ∃ s', Src.adsr.Adsr.gate_on s = some s' ∧
      (s.state = .Attack → Tie.Adsr.abs s' = Tie.Adsr.abs s) ∧
      (s.state ≠ .Attack → s'.state = .Attack ∧ s'.phase_accumulator.accumulator = 0 ∧
        s'.value_when_gate_on_received = s.value ∧ s'.value = s.value) := by
  obtain ⟨s', e, _, ha⟩ := gate_on_sim hwf
  obtain ⟨g1, g2⟩ := C02.gate_on (Tie.Adsr.abs s)
  refine ⟨s', e, fun hs => ?_, fun hs => ?_⟩
  · rw [ha]; exact g1 (by simp [Tie.Adsr.abs, absState, hs])
  · have hne : (Tie.Adsr.abs s).state ≠ .attack := by
      intro hc; apply hs; apply absState_inj; simpa [Tie.Adsr.abs, absState] using hc
    obtain ⟨q1, q2, q3, q4⟩ := g2 hne
    rw [← ha] at q1 q2 q3 q4
    exact ⟨absState_inj (by simpa [Tie.Adsr.abs, absState] using q1), by simpa [Tie.Adsr.abs, Tie.PhaseAcc.abs] using q2, q3, q4⟩

/-- `gate_off`: ignored during release and at rest; otherwise a release from counter 0 latching the current level -/
theorem c02_gate_off {s : Src.adsr.Adsr} (hwf : WF s) :
    ∃ s', Src.adsr.Adsr.gate_off s = some s' ∧
      ((s.state = .Release ∨ s.state = .AtRest) → Tie.Adsr.abs s' = Tie.Adsr.abs s) ∧
      ((s.state = .Attack ∨ s.state = .Decay ∨ s.state = .Sustain) → s'.state = .Release ∧
        s'.phase_accumulator.accumulator = 0 ∧ s'.value_when_gate_off_received = s.value ∧ s'.value = s.value) := by
  obtain ⟨s', e, _, ha⟩ := gate_off_sim hwf
  obtain ⟨g1, g2⟩ := C02.gate_off (Tie.Adsr.abs s)
  refine ⟨s', e, fun hs => ?_, fun hs => ?_⟩
  · rw [ha]; apply g1; rcases hs with hs | hs <;> simp [Tie.Adsr.abs, absState, hs]
  · have : (Tie.Adsr.abs s).state = .attack ∨ (Tie.Adsr.abs s).state = .decay ∨ (Tie.Adsr.abs s).state = .sustain := by
      rcases hs with hs | hs | hs <;> simp [Tie.Adsr.abs, absState, hs]
    obtain ⟨q1, q2, q3, q4⟩ := g2 this
    rw [← ha] at q1 q2 q3 q4
    exact ⟨absState_inj (by simpa [Tie.Adsr.abs, absState] using q1), by simpa [Tie.Adsr.abs, Tie.PhaseAcc.abs] using q2, q3, q4⟩

/-- the only state changes a `tick` makes: attack→decay→sustain, release→rest; sustain and rest persist -/
theorem c02_tick_order {s s' : Src.adsr.Adsr} (hwf : WF s) (e : Src.adsr.Adsr.tick s = some s') :
    s'.state = s.state ∨
      (s.state = .Attack ∧ s'.state = .Decay) ∨ (s.state = .Decay ∧ s'.state = .Sustain) ∨
      (s.state = .Release ∧ s'.state = .AtRest) := by
  obtain ⟨m, _⟩ := tick_sim hwf e
  rcases C02.tick_order _ _ m with h | ⟨ht, hn⟩
  · left; exact absState_inj (by simpa [Tie.Adsr.abs] using h)
  · right
    cases hs : s.state <;> cases hs' : s'.state <;>
      simp_all [Tie.Adsr.abs, absState, AdsrState.next, AdsrState.timed]

/-- a timed phase ends exactly on the tick whose increment carries the 24-bit counter past a full cycle -/
theorem c02_phase_end {s s' : Src.adsr.Adsr} (h : Reach s) (ht : s.state = .Attack ∨ s.state = .Decay ∨ s.state = .Release)
    (e : Src.adsr.Adsr.tick s = some s') :
    if 2 ^ 24 ≤ s.phase_accumulator.accumulator + C02.incOf (Tie.Adsr.abs s)
      then s'.state ≠ s.state ∧ s'.phase_accumulator.accumulator = 0
      else s'.state = s.state ∧ s'.phase_accumulator.accumulator = s.phase_accumulator.accumulator + C02.incOf (Tie.Adsr.abs s) := by
  obtain ⟨hwf, hinv⟩ := reach_inv h
  obtain ⟨m, _⟩ := tick_sim hwf e
  have htm : (Tie.Adsr.abs s).state.timed = true := by
    rcases ht with hs | hs | hs <;> simp [Tie.Adsr.abs, absState, hs, AdsrState.timed]
  obtain ⟨j1, j2⟩ := C17.inc_ok (Tie.Adsr.abs s) hinv.ok
  have hacc := hinv.ok.acc
  obtain ⟨a', e', _, _, _, hcase⟩ := C02.tick_timed (Tie.Adsr.abs s) htm hinv.ok.rolled (by omega)
  rw [m] at e'; simp only [Option.some.injEq] at e'; subst e'
  rw [hinv.ok.tb] at hcase
  have hacc' : (Tie.Adsr.abs s).pa.acc = s.phase_accumulator.accumulator := rfl
  rw [hacc'] at hcase
  split
  · rename_i hc
    rw [if_pos hc] at hcase
    obtain ⟨c1, c2⟩ := hcase
    refine ⟨?_, by simpa [Tie.Adsr.abs, Tie.PhaseAcc.abs] using c2⟩
    intro hsame
    have : (Tie.Adsr.abs s').state = (Tie.Adsr.abs s).state := by simp [Tie.Adsr.abs, hsame]
    rw [c1] at this
    rcases ht with hs | hs | hs <;> simp [Tie.Adsr.abs, absState, hs, AdsrState.next] at this
  · rename_i hc
    rw [if_neg hc] at hcase
    obtain ⟨c1, c2⟩ := hcase
    exact ⟨absState_inj (by simpa [Tie.Adsr.abs] using c1), by simpa [Tie.Adsr.abs, Tie.PhaseAcc.abs] using c2⟩

/-- the increment of a reachable state lies in the window around `2^24 / (time · sample rate)` that the timing theorems
of `C02Timing` (never early, not late, closed-form tick count) are stated for -/
theorem c02_increment_window {s : Src.adsr.Adsr} (h : Reach s) :
    25 / 256 ≤ C02.ticksOf (Tie.Adsr.abs s) ∧ C02.ticksOf (Tie.Adsr.abs s) ≤ 3840000 ∧
      C02.Win (C02.ticksOf (Tie.Adsr.abs s)) (C02.incOf (Tie.Adsr.abs s)) :=
  C02.win_of_ok _ (reach_inv h).2.ok

/-! ### C02 timing, for whole phases on the source -/

/-- a parameter change as the source's `set_input` takes it -/
def srcInput : AdsrInput → Src.adsr.Input
  | .attack t => .Attack ⟨t⟩ | .decay t => .Decay ⟨t⟩ | .sustain l => .Sustain ⟨l⟩ | .release t => .Release ⟨t⟩

theorem absInput_srcInput (i : AdsrInput) : absInput (srcInput i) = i := by cases i <;> rfl

/-- ticks and parameter changes inside one phase, run on the translated source; collects the increment each tick used -/
def runPhaseSrc (s : Src.adsr.Adsr) : List C02.Step → Option (Src.adsr.Adsr × List Nat)
  | [] => some (s, [])
  | .set i :: ss => match Src.adsr.Adsr.set_input s (srcInput i) with
    | none => none
    | some s' => runPhaseSrc s' ss
  | .tick :: ss => match Src.adsr.Adsr.tick s with
    | none => none
    | some s' => match runPhaseSrc s' ss with
      | none => none
      | some (s'', incs) => some (s'', C02.incOf (Tie.Adsr.abs s) :: incs)

theorem runPhase_sim (ss : List C02.Step) (s : Src.adsr.Adsr) (hwf : WF s) :
    (runPhaseSrc s ss).map (fun r => (Tie.Adsr.abs r.1, r.2)) = C02.runPhase (Tie.Adsr.abs s) ss := by
  induction ss generalizing s with
  | nil => rfl
  | cons st ss ih =>
    cases st with
    | set i =>
      obtain ⟨s', e, w', a'⟩ := set_input_tie s hwf (srcInput i)
      rw [absInput_srcInput] at a'
      simp only [runPhaseSrc, e, C02.runPhase]
      rw [← a']; exact ih s' w'
    | tick =>
      obtain ⟨hmap, hw⟩ := tick_tie s hwf
      cases ht : Src.adsr.Adsr.tick s with
      | none =>
        rw [ht] at hmap
        simp only [Option.map_none] at hmap
        simp only [runPhaseSrc, ht, C02.runPhase, ← hmap, Option.map_none]
      | some s1 =>
        rw [ht] at hmap
        simp only [Option.map_some] at hmap
        have := ih s1 (hw s1 ht)
        simp only [runPhaseSrc, ht, C02.runPhase, ← hmap, ← this]
        cases runPhaseSrc s1 ss with
        | none => rfl
        | some r => rfl

/-- **never early, on the source**: a timed phase started at counter 0 that ends on the next tick has lasted its configured
duration up to the binary32 rounding of the increment -/
theorem c02_never_early {s s' : Src.adsr.Adsr} (h : Reach s) (ss : List C02.Step) (incs : List ℕ)
    (hw : ∀ st ∈ ss, C02.stepWf st) (hstart : s.phase_accumulator.accumulator = 0)
    (hrun : runPhaseSrc s ss = some (s', incs))
    (hend : 2 ^ 24 ≤ s.phase_accumulator.accumulator + incs.sum + C02.incOf (Tie.Adsr.abs s')) :
    1 ≤ (1 + 2 ^ (-22:ℤ)) * (C02.invSum (C02.durs (Tie.Adsr.abs s) ss) + 1 / C02.ticksOf (Tie.Adsr.abs s')) := by
  obtain ⟨hwf, hinv⟩ := reach_inv h
  have hsim := runPhase_sim ss s hwf
  rw [hrun] at hsim
  exact C02.never_early ss _ _ incs hinv.ok hw hstart hsim.symm hend

/-- **not late, on the source**: while the phase has not ended after `k` ticks, the ticks spent exceed the configured duration by
no more than the resolution of the 24-bit counter and the rounding of the increment -/
theorem c02_not_late {s s' : Src.adsr.Adsr} (h : Reach s) (ss : List C02.Step) (incs : List ℕ)
    (hw : ∀ st ∈ ss, C02.stepWf st) (hrun : runPhaseSrc s ss = some (s', incs))
    (hsum : s.phase_accumulator.accumulator + incs.sum < 2 ^ 24) :
    (1 - 2 ^ (-23:ℤ)) * C02.invSum (C02.durs (Tie.Adsr.abs s) ss) < 1 + (incs.length : ℚ) / 16777216 := by
  obtain ⟨hwf, hinv⟩ := reach_inv h
  have hsim := runPhase_sim ss s hwf
  rw [hrun] at hsim
  exact C02.not_late ss _ _ incs hinv.ok hw hsim.symm hsum

/-! ## C03 — continuity -/

/-- two consecutive ticks inside one timed phase -/
theorem c03_same_phase {s0 s1 s2 : Src.adsr.Adsr} (h : Reach s0) (e1 : Src.adsr.Adsr.tick s0 = some s1)
    (e2 : Src.adsr.Adsr.tick s1 = some s2) (ht : s1.state = .Attack ∨ s1.state = .Decay ∨ s1.state = .Release)
    (hs : s2.state = s1.state) :
    |s2.value.val - s1.value.val| ≤
      (if s1.state = .Attack then 1024 * C03.DA else 1024 * C03.DD) *
        ((s2.phase_accumulator.accumulator - s1.phase_accumulator.accumulator : ℕ) : ℚ) / 2 ^ 24 + C03.slack := by
  obtain ⟨hwf, hinv⟩ := reach_inv h
  obtain ⟨m1, w1⟩ := tick_sim hwf e1
  obtain ⟨m2, _⟩ := tick_sim w1 e2
  have htm : (Tie.Adsr.abs s1).state.timed = true := by
    rcases ht with q | q | q <;> simp [Tie.Adsr.abs, absState, q, AdsrState.timed]
  have := C03.same_phase_step _ _ _ hinv m1 m2 htm (by simp [Tie.Adsr.abs, hs])
  have hA : ((Tie.Adsr.abs s1).state = .attack) ↔ (s1.state = .Attack) := by
    cases q : s1.state <;> simp [Tie.Adsr.abs, absState, q]
  simp only [hA] at this
  exact this

/-- the tick that ends a timed phase -/
theorem c03_boundary {s0 s1 s2 : Src.adsr.Adsr} (h : Reach s0) (e1 : Src.adsr.Adsr.tick s0 = some s1)
    (e2 : Src.adsr.Adsr.tick s1 = some s2) (ht : s1.state = .Attack ∨ s1.state = .Decay ∨ s1.state = .Release)
    (hs : s2.state ≠ s1.state) :
    |s2.value.val - s1.value.val| ≤
      (if s1.state = .Attack then 1024 * C03.DA else 1024 * C03.DD) * (C02.incOf (Tie.Adsr.abs s1) : ℚ) / 2 ^ 24 + C03.slack := by
  obtain ⟨hwf, hinv⟩ := reach_inv h
  obtain ⟨m1, w1⟩ := tick_sim hwf e1
  obtain ⟨m2, _⟩ := tick_sim w1 e2
  have htm : (Tie.Adsr.abs s1).state.timed = true := by
    rcases ht with q | q | q <;> simp [Tie.Adsr.abs, absState, q, AdsrState.timed]
  have hne : (Tie.Adsr.abs s2).state ≠ (Tie.Adsr.abs s1).state := fun hc => hs (absState_inj (by simpa [Tie.Adsr.abs] using hc))
  have := C03.boundary_step _ _ _ hinv m1 m2 htm hne
  have hA : ((Tie.Adsr.abs s1).state = .attack) ↔ (s1.state = .Attack) := by
    cases q : s1.state <;> simp [Tie.Adsr.abs, absState, q]
  simp only [hA] at this
  exact this

/-- the first tick after a `gate_on` arriving at any moment starts from the level being output -/
theorem c03_gate_on {s g s2 : Src.adsr.Adsr} (h : Reach s) (hne : s.state ≠ .Attack)
    (eg : Src.adsr.Adsr.gate_on s = some g) (e : Src.adsr.Adsr.tick g = some s2) (hs : s2.state = .Attack) :
    |s2.value.val - s.value.val| ≤ (1024 * C03.DA) * (s2.phase_accumulator.accumulator : ℚ) / 2 ^ 24 + C03.slack := by
  obtain ⟨hwf, hinv⟩ := reach_inv h
  obtain ⟨g', eg', wg, ag⟩ := gate_on_sim hwf
  rw [eg] at eg'; simp only [Option.some.injEq] at eg'; subst eg'
  obtain ⟨m, _⟩ := tick_sim wg e
  rw [ag] at m
  have hne' : (Tie.Adsr.abs s).state ≠ .attack := fun hc => hne (absState_inj (by simpa [Tie.Adsr.abs, absState] using hc))
  have hs2 : (Tie.Adsr.abs s2).state = .attack := by simp [Tie.Adsr.abs, absState, hs]
  have := C03.gate_on_step (Tie.Adsr.abs s) (Tie.Adsr.abs s2) hinv hne' m hs2
  exact this

/-- the first tick after a `gate_off` arriving at any moment starts from the level being output -/
theorem c03_gate_off {s g s2 : Src.adsr.Adsr} (h : Reach s) (hst : s.state = .Attack ∨ s.state = .Decay ∨ s.state = .Sustain)
    (eg : Src.adsr.Adsr.gate_off s = some g) (e : Src.adsr.Adsr.tick g = some s2) (hs : s2.state = .Release) :
    |s2.value.val - s.value.val| ≤ (1024 * C03.DD) * (s2.phase_accumulator.accumulator : ℚ) / 2 ^ 24 + C03.slack := by
  obtain ⟨hwf, hinv⟩ := reach_inv h
  obtain ⟨g', eg', wg, ag⟩ := gate_off_sim hwf
  rw [eg] at eg'; simp only [Option.some.injEq] at eg'; subst eg'
  obtain ⟨m, _⟩ := tick_sim wg e
  rw [ag] at m
  have hst' : (Tie.Adsr.abs s).state = .attack ∨ (Tie.Adsr.abs s).state = .decay ∨ (Tie.Adsr.abs s).state = .sustain := by
    rcases hst with q | q | q <;> simp [Tie.Adsr.abs, absState, q]
  have hs2 : (Tie.Adsr.abs s2).state = .release := by simp [Tie.Adsr.abs, absState, hs]
  have := C03.gate_off_step (Tie.Adsr.abs s) (Tie.Adsr.abs s2) hinv hst' m hs2
  exact this

/-! ## C17 — no panic, no hang -/

/-- every finite-argument public call returns from every reachable state (`reach_step`), and an envelope in its attack
reaches sustain within 2^23 ticks, a release reaches rest within 2^22 -/
theorem c17_reaches_sustain {s : Src.adsr.Adsr} (h : Reach s) (hs : s.state = .Attack) :
    ∃ n s', n ≤ 2 ^ 23 ∧ Tie.Adsr.run s (List.replicate n .tick) = some s' ∧ s'.state = .Sustain := by
  obtain ⟨hwf, hinv⟩ := reach_inv h
  obtain ⟨n, a', hn, hrun, hst⟩ := C17.reaches_sustain (Tie.Adsr.abs s) hinv.ok (by simp [Tie.Adsr.abs, absState, hs])
  have key : ∀ (n : ℕ) (x : Src.adsr.Adsr) (a' : _root_.Adsr), WF x → C17.tickN (Tie.Adsr.abs x) n = some a' →
      ∃ x', Tie.Adsr.run x (List.replicate n .tick) = some x' ∧ Tie.Adsr.abs x' = a' := by
    intro n
    induction n with
    | zero =>
      intro x a' _ e
      simp only [C17.tickN, Option.some.injEq] at e
      exact ⟨x, rfl, e⟩
    | succ n ih =>
      intro x a' wx e
      simp only [C17.tickN] at e
      obtain ⟨hmap, hw⟩ := tick_tie x wx
      cases hx : Src.adsr.Adsr.tick x with
      | none => rw [hx] at hmap; simp only [Option.map_none] at hmap; rw [← hmap] at e; simp at e
      | some x1 =>
        rw [hx] at hmap; simp only [Option.map_some] at hmap
        rw [← hmap] at e
        obtain ⟨x', r, ax⟩ := ih x1 a' (hw x1 hx) e
        refine ⟨x', ?_, ax⟩
        simp only [List.replicate_succ, Tie.Adsr.run, Tie.Adsr.step, hx]
        exact r
  obtain ⟨s', r, as'⟩ := key n s a' hwf hrun
  refine ⟨n, s', hn, r, ?_⟩
  rw [← as'] at hst
  exact absState_inj (by simpa [Tie.Adsr.abs, absState] using hst)

theorem c17_reaches_rest {s : Src.adsr.Adsr} (h : Reach s) (hs : s.state = .Release) :
    ∃ n s', n ≤ 2 ^ 22 ∧ Tie.Adsr.run s (List.replicate n .tick) = some s' ∧ s'.state = .AtRest := by
  obtain ⟨hwf, hinv⟩ := reach_inv h
  obtain ⟨n, a', hn, hrun, hst⟩ := C17.reaches_rest (Tie.Adsr.abs s) hinv.ok (by simp [Tie.Adsr.abs, absState, hs])
  have key : ∀ (n : ℕ) (x : Src.adsr.Adsr) (a' : _root_.Adsr), WF x → C17.tickN (Tie.Adsr.abs x) n = some a' →
      ∃ x', Tie.Adsr.run x (List.replicate n .tick) = some x' ∧ Tie.Adsr.abs x' = a' := by
    intro n
    induction n with
    | zero =>
      intro x a' _ e
      simp only [C17.tickN, Option.some.injEq] at e
      exact ⟨x, rfl, e⟩
    | succ n ih =>
      intro x a' wx e
      simp only [C17.tickN] at e
      obtain ⟨hmap, hw⟩ := tick_tie x wx
      cases hx : Src.adsr.Adsr.tick x with
      | none => rw [hx] at hmap; simp only [Option.map_none] at hmap; rw [← hmap] at e; simp at e
      | some x1 =>
        rw [hx] at hmap; simp only [Option.map_some] at hmap
        rw [← hmap] at e
        obtain ⟨x', r, ax⟩ := ih x1 a' (hw x1 hx) e
        refine ⟨x', ?_, ax⟩
        simp only [List.replicate_succ, Tie.Adsr.run, Tie.Adsr.step, hx]
        exact r
  obtain ⟨s', r, as'⟩ := key n s a' hwf hrun
  refine ⟨n, s', hn, r, ?_⟩
  rw [← as'] at hst
  exact absState_inj (by simpa [Tie.Adsr.abs, absState] using hst)

/-! ## C20 — clamps, as the source computes them -/

/-- `TimePeriod::from(x)` / `SustainLevel::from(x)` of the source are the clamps C20 specifies, for every `f32` -/
theorem c20_time_period (x : F32) :
    ∃ t, TimePeriod.from_f32 x = some t ∧ t._0 = C20.clampSpec minTime maxTime x := by
  have := timePeriod_tie x
  cases h : TimePeriod.from_f32 x with
  | none => rw [h] at this; simp at this
  | some t =>
    rw [h] at this
    simp only [Option.map_some, Option.some.injEq] at this
    exact ⟨t, rfl, by rw [this, C20.timePeriod_spec]⟩

theorem c20_sustain_level (x : F32) (hx : x ≠ negZero) :
    ∃ l, SustainLevel.from_f32 x = some l ∧ l._0 = C20.clampSpec zero one x := by
  have := sustainLevel_tie x
  cases h : SustainLevel.from_f32 x with
  | none => rw [h] at this; simp at this
  | some l =>
    rw [h] at this
    simp only [Option.map_some, Option.some.injEq] at this
    exact ⟨l, rfl, by rw [this, C20.sustainLevel_spec x hx]⟩

end Tie.TransferAdsr
