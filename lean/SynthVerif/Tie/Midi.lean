import SynthVerif.Gen.Src.mono_midi_receiver
import SynthVerif.Tie.PhaseAcc
import SynthVerif.Model.Midi
/-!
# Tie 1d: `src/mono_midi_receiver.rs`, translated by `tools/rs2lean.py`, refines `SynthVerif/Model/Midi.lean`

The byte parser of `midi-convert` is the model's own `parserStep` (hand-written dependency model, tied by the
correspondence, exhaustively in the thorough tier).  What is proved here is the receiver: message dispatch with its
channel guards, the nine controller arms in source order, note-on / note-off handling with the held-notes buffer and its
capacity, note priority, the edge latches, and the constants.
-/
open F32 Rs
namespace Tie.Midi
open Src.mono_midi_receiver

def absPrio : Src.mono_midi_receiver.NotePriority → _root_.NotePriority
  | .Last => .last | .High => .high | .Low => .low

def abs (s : MonoMidiReceiver) : _root_.Midi :=
  { parser := s.parser, channel := s.channel, noteNum := s.note_num, velocity := s.velocity, pitchBend := s.pitch_bend,
    modWheel := s.mod_wheel, volume := s.volume, vcfCutoff := s.vcf_cutoff, vcfResonance := s.vcf_resonance,
    portamentoTime := s.portamento_time, portamentoEnabled := s.portamento_enabled, sustainEnabled := s.sustain_enabled,
    gate := s.gate, risingGate := s.rising_gate, fallingGate := s.falling_gate,
    retrigger := (s.retrigger_mode == .AllowRetrigger), priority := absPrio s.note_priority, held := s.held_down_notes }

/-! ## constants: the crate's expressions against the values read from the compiled crate -/
theorem consts : CC_MOD_WHEEL = Gen.ccModWheel ∧ CC_VOLUME = Gen.ccVolume ∧ CC_VCF_CUTOFF = Gen.ccVcfCutoff ∧
    CC_VCF_RESONANCE = Gen.ccVcfResonance ∧ CC_PORTAMENTO_TIME = Gen.ccPortamentoTime ∧
    CC_PORTAMENTO_SWITCH = Gen.ccPortamentoSwitch ∧ CC_SUSTAIN_SWITCH = Gen.ccSustainSwitch ∧
    CC_ALL_CONTROLLERS_OFF = Gen.ccAllControllersOff ∧ CC_ALL_NOTES_OFF = Gen.ccAllNotesOff ∧
    U7_HALF_SCALE = Gen.u7HalfScale ∧ HELD_DOWN_NOTE_BUFFER_LEN = Gen.heldLen := by decide

theorem lit_127 : lit 127 = .fin 127 false := by decide +kernel

theorem value7_tie (v : Nat) : Src.mono_midi_receiver.value7_to_f32 v = some (value7ToF32 v) := by
  simp [Src.mono_midi_receiver.value7_to_f32, value7ToF32, lit_127]

theorem new_tie (ch : Nat) : (MonoMidiReceiver.new ch).map abs = some (_root_.Midi.new ch) := by
  simp [MonoMidiReceiver.new, abs, _root_.Midi.new, Tie.PhaseAcc.lit_zero, absPrio]

theorem foldl_max_le (xs : List Nat) (a : Nat) : xs.foldl Nat.max a = Nat.max a (xs.foldl Nat.max 0) := by
  induction xs generalizing a with
  | nil => simp
  | cons x xs ih =>
    rw [List.foldl_cons, List.foldl_cons, ih (Nat.max a x), ih (Nat.max 0 x)]
    show max (max a x) _ = max a (max (max 0 x) _)
    omega

theorem choose_tie (s : MonoMidiReceiver) :
    MonoMidiReceiver.choose_next_note s = some (_root_.Midi.chooseFrom (absPrio s.note_priority) s.held_down_notes) := by
  unfold MonoMidiReceiver.choose_next_note _root_.Midi.chooseFrom
  cases hp : s.note_priority
  · simp [absPrio]
  · cases hh : s.held_down_notes with
    | nil => simp [absPrio, Deps.iterMax]
    | cons x xs =>
      simp only [absPrio, Deps.iterMax, Option.getD_some, List.foldl_cons, pure]
      rw [foldl_max_le xs (Nat.max 0 x), foldl_max_le xs x]; simp
  · cases hh : s.held_down_notes <;> simp [absPrio, Deps.iterMin]

theorem held_len : HELD_DOWN_NOTE_BUFFER_LEN = Gen.heldLen := consts.2.2.2.2.2.2.2.2.2.2

theorem heldAfterOn_tie (s : MonoMidiReceiver) (n : Nat) :
    (abs s).heldAfterOn n = hvPush HELD_DOWN_NOTE_BUFFER_LEN s.held_down_notes n := by
  simp only [_root_.Midi.heldAfterOn, abs, hvPush, held_len]
  split <;> rename_i h <;> simp [h]

theorem note_on_tie (s : MonoMidiReceiver) (n v : Nat) :
    (MonoMidiReceiver.handle_note_on s n v).map abs = some ((abs s).noteOn n v) := by
  have hL := heldAfterOn_tie s n
  unfold MonoMidiReceiver.handle_note_on _root_.Midi.noteOn
  rw [hL]
  simp only [bind, pure, value7_tie, Option.bind_some, choose_tie]
  generalize hvPush HELD_DOWN_NOTE_BUFFER_LEN s.held_down_notes n = L
  obtain ⟨pa, ch, nn, vel, pb, mw, vol, vc, vr, pt, pe, se, g, rg, fg, rm, np, held⟩ := s
  cases hrm : (rm == RetriggerMode.AllowRetrigger) <;> cases hl : (L.length == 1) <;> simp [hrm, hl, abs]

theorem note_off_tie (s : MonoMidiReceiver) (n : Nat) :
    (MonoMidiReceiver.handle_note_off s n).map abs = some ((abs s).noteOff n) := by
  obtain ⟨pa, ch, nn, vel, pb, mw, vol, vc, vr, pt, pe, se, g, rg, fg, rm, np, held⟩ := s
  unfold MonoMidiReceiver.handle_note_off
  simp only [bind, pure, choose_tie]
  by_cases he : (held.filter fun x => x != n).isEmpty = true
  · cases g <;> simp [he, abs, _root_.Midi.noteOff, _root_.Midi.heldAfterOff]
  · simp [he, abs, _root_.Midi.noteOff, _root_.Midi.heldAfterOff]

theorem reset_controllers_tie (s : MonoMidiReceiver) :
    MonoMidiReceiver.reset_controllers s = some ({ s with pitch_bend := F32.zero, mod_wheel := F32.zero, volume := F32.zero, vcf_cutoff := F32.zero, vcf_resonance := F32.zero, portamento_time := F32.zero, portamento_enabled := true, sustain_enabled := true } : MonoMidiReceiver) := by
  simp [MonoMidiReceiver.reset_controllers, Tie.PhaseAcc.lit_zero]

/-- the state with the parser advanced (what `parse` works on after `self.parser.parse(byte)`) -/
theorem abs_parser (s : MonoMidiReceiver) (st : ParserState) :
    abs { s with parser := st } = { abs s with parser := st } := rfl

theorem cc_consts : CC_MOD_WHEEL = 1 ∧ CC_VOLUME = 7 ∧ CC_VCF_CUTOFF = 71 ∧ CC_VCF_RESONANCE = 74 ∧ CC_PORTAMENTO_TIME = 5 ∧
    CC_PORTAMENTO_SWITCH = 65 ∧ CC_SUSTAIN_SWITCH = 64 ∧ CC_ALL_CONTROLLERS_OFF = 121 ∧ CC_ALL_NOTES_OFF = 123 ∧
    U7_HALF_SCALE = 64 := by decide
theorem gen_consts : Gen.ccModWheel = 1 ∧ Gen.ccVolume = 7 ∧ Gen.ccVcfCutoff = 71 ∧ Gen.ccVcfResonance = 74 ∧
    Gen.ccPortamentoTime = 5 ∧ Gen.ccPortamentoSwitch = 65 ∧ Gen.ccSustainSwitch = 64 ∧ Gen.ccAllControllersOff = 121 ∧
    Gen.ccAllNotesOff = 123 ∧ Gen.u7HalfScale = 64 := by decide

/-- `parse(byte)`: same new state for every state and every byte -/
theorem parse_tie (s : MonoMidiReceiver) (b : Nat) :
    (MonoMidiReceiver.parse s b).map abs = some ((abs s).parse b) := by
  unfold MonoMidiReceiver.parse _root_.Midi.parse
  have hp : (abs s).parser = s.parser := rfl
  rw [hp]
  dsimp only
  generalize parserStep s.parser b = r
  obtain ⟨st, msg⟩ := r
  · simp only [bind, pure]
    cases msg with
    | none => simp [abs]
    | some m =>
      cases m
      case noteOn ch n v =>
        simp only [_root_.Midi.handle]
        by_cases hc : (ch == s.channel) = true
        · have hc' : (ch == (abs s).channel) = true := hc
          simp only [hc, hc', if_true]
          by_cases hv : (0 == v) = true
          · have hv0 : v = 0 := (by simpa using hv : 0 = v).symm
            have hv' : (v == 0) = true := by simp [hv0]
            have := note_off_tie { s with parser := st } n
            simp only [hv, hv', if_true]
            cases h1 : MonoMidiReceiver.handle_note_off { s with parser := st } n with
            | none => rw [h1] at this; simp at this
            | some r => rw [h1] at this; simpa [abs_parser] using this
          · have hv' : (v == 0) = false := by
              cases v with
              | zero => simp at hv
              | succ k => rfl
            have := note_on_tie { s with parser := st } n v
            simp only [hv, hv', Bool.false_eq_true, if_false]
            cases h1 : MonoMidiReceiver.handle_note_on { s with parser := st } n v with
            | none => rw [h1] at this; simp at this
            | some r => rw [h1] at this; simpa [abs_parser] using this
        · have hc' : (ch == (abs s).channel) = false := by
            have e : (abs s).channel = s.channel := rfl
            rw [e]; simpa using hc
          simp [hc, hc', abs]
      case noteOff ch n v =>
        simp only [_root_.Midi.handle]
        by_cases hc : (ch == s.channel) = true
        · have hc' : (ch == (abs s).channel) = true := hc
          have := note_off_tie { s with parser := st } n
          simp only [hc, hc', if_true]
          cases h1 : MonoMidiReceiver.handle_note_off { s with parser := st } n with
          | none => rw [h1] at this; simp at this
          | some r => rw [h1] at this; simpa [abs_parser] using this
        · have hc' : (ch == (abs s).channel) = false := by
            have e : (abs s).channel = s.channel := rfl
            rw [e]; simpa using hc
          simp [hc, hc', abs]
      case pitchBend ch msb lsb =>
        simp only [_root_.Midi.handle]
        by_cases hc : (ch == s.channel) = true
        · have hc' : (ch == (abs s).channel) = true := hc
          simp [hc, hc', abs]
        · have hc' : (ch == (abs s).channel) = false := by
            have e : (abs s).channel = s.channel := rfl
            rw [e]; simpa using hc
          simp [hc, hc', abs]
      case controlChange ch cc v =>
        simp only [_root_.Midi.handle]
        by_cases hc : (ch == s.channel) = true
        · have hc' : (ch == (abs s).channel) = true := hc
          obtain ⟨c1, c2, c3, c4, c5, c6, c7, c8, c9, c10⟩ := cc_consts
          obtain ⟨g1, g2, g3, g4, g5, g6, g7, g8, g9, g10⟩ := gen_consts
          simp only [hc, hc', if_true, c1, c2, c3, c4, c5, c6, c7, c8, c9, c10, value7_tie, Option.bind_some,
            reset_controllers_tie, _root_.Midi.controlChange, _root_.Midi.ccArm, g1, g2, g3, g4, g5, g6, g7, g8, g9, g10]
          by_cases h1 : cc = 1
          · subst h1; simp [abs]
          by_cases h2 : cc = 7
          · subst h2; simp [abs]
          by_cases h3 : cc = 71
          · subst h3; simp [abs]
          by_cases h4 : cc = 74
          · subst h4; simp [abs]
          by_cases h5 : cc = 5
          · subst h5; simp [abs]
          by_cases h6 : cc = 65
          · subst h6; simp [abs]
          by_cases h7 : cc = 64
          · subst h7; simp [abs]
          by_cases h8 : cc = 121
          · subst h8; simp [abs]
          by_cases h9 : cc = 123
          · subst h9; cases hg : s.gate <;> simp [abs, hg]
          · simp [h1, h2, h3, h4, h5, h6, h7, h8, h9, abs]
        · have hc' : (ch == (abs s).channel) = false := by
            have e : (abs s).channel = s.channel := rfl
            rw [e]; simpa using hc
          simp [hc, hc', abs]
      all_goals simp [_root_.Midi.handle, abs]

theorem rising_tie (s : MonoMidiReceiver) :
    (MonoMidiReceiver.rising_gate_fn s).map (fun r => (r.2, abs r.1)) = some (abs s).readRising := by
  unfold MonoMidiReceiver.rising_gate_fn _root_.Midi.readRising
  cases h : s.rising_gate <;> simp [h, abs]

theorem falling_tie (s : MonoMidiReceiver) :
    (MonoMidiReceiver.falling_gate_fn s).map (fun r => (r.2, abs r.1)) = some (abs s).readFalling := by
  unfold MonoMidiReceiver.falling_gate_fn _root_.Midi.readFalling
  cases h : s.falling_gate <;> simp [h, abs]

theorem set_retrigger_tie (s : MonoMidiReceiver) (m : RetriggerMode) :
    (MonoMidiReceiver.set_retrigger_mode s m).map abs = some { abs s with retrigger := (m == .AllowRetrigger) } := by
  simp [MonoMidiReceiver.set_retrigger_mode, abs]

theorem set_priority_tie (s : MonoMidiReceiver) (p : Src.mono_midi_receiver.NotePriority) :
    (MonoMidiReceiver.set_note_priority s p).map abs = some { abs s with priority := absPrio p } := by
  simp [MonoMidiReceiver.set_note_priority, abs]

/-- the getters read the fields the model reads -/
theorem getters_tie (s : MonoMidiReceiver) :
    MonoMidiReceiver.note_num_fn s = some (abs s).noteNum ∧ MonoMidiReceiver.gate_fn s = some (abs s).gate ∧
    MonoMidiReceiver.velocity_fn s = some (abs s).velocity ∧ MonoMidiReceiver.pitch_bend_fn s = some (abs s).pitchBend ∧
    MonoMidiReceiver.mod_wheel_fn s = some (abs s).modWheel ∧ MonoMidiReceiver.volume_fn s = some (abs s).volume ∧
    MonoMidiReceiver.vcf_cutoff_fn s = some (abs s).vcfCutoff ∧ MonoMidiReceiver.vcf_resonance_fn s = some (abs s).vcfResonance ∧
    MonoMidiReceiver.portamento_time_fn s = some (abs s).portamentoTime ∧
    MonoMidiReceiver.portamento_enabled_fn s = some (abs s).portamentoEnabled ∧
    MonoMidiReceiver.sustain_enabled_fn s = some (abs s).sustainEnabled :=
  ⟨rfl, rfl, rfl, rfl, rfl, rfl, rfl, rfl, rfl, rfl, rfl⟩

/-- every byte history: the translated receiver and the model end in the same state -/
theorem bytes_tie (bs : List Nat) (s : MonoMidiReceiver) :
    (bs.foldlM MonoMidiReceiver.parse s).map abs = some (bs.foldl _root_.Midi.parse (abs s)) := by
  induction bs generalizing s with
  | nil => rfl
  | cons b bs ih =>
    have h := parse_tie s b
    cases hp : MonoMidiReceiver.parse s b with
    | none => rw [hp] at h; simp at h
    | some s1 =>
      rw [hp] at h; simp only [Option.map_some, Option.some.injEq] at h
      simp only [List.foldlM_cons, hp, List.foldl_cons, ← h, bind, Option.bind_some]
      exact ih s1

end Tie.Midi
