import SynthVerif.Gen.Dep.midi_convert
import Mathlib.Tactic.IntervalCases
/-!
# Tie 1d for a dependency: `midi_convert::MidiByteStreamParser::parse`, translated from the registry source on this run
(`tools/dep2lean.py` → `Gen/Dep/midi_convert.lean`), **is** the hand-written parser model `parserStep` of `Model/Midi.lean`
that C04–C06 and C18 are proved about — for every parser state whose payloads are in range and every byte — and none of the
`debug_assert!`s of the `midi-types` conversions on its path can fire.

`StOk`: channels ≤ 15, notes / controller numbers / stored LSBs ≤ 127 — what the conversions themselves produce; it holds for
`Idle` and is preserved by every `parse` (`parse_ok`), hence along every byte history (`history`).
-/
namespace Tie.DepMidi
open Dep.midi_convert

def StOk : ParserState → Prop
  | .idle | .quarterFrameRecvd | .songPositionRecvd | .songSelectRecvd => True
  | .noteOnRecvd ch | .noteOffRecvd ch | .keyPressureRecvd ch | .controlChangeRecvd ch | .programChangeRecvd ch
  | .channelPressureRecvd ch | .pitchBendRecvd ch => ch ≤ 15
  | .noteOnNoteRecvd ch n | .noteOffNoteRecvd ch n | .keyPressureNoteRecvd ch n | .controlChangeControlRecvd ch n
  | .pitchBendLsbRecvd ch n => ch ≤ 15 ∧ n ≤ 127
  | .songPositionLsbRecvd lsb => lsb ≤ 127

theorem status_iff : ∀ b, b < 256 → is_status_byte b = decide (128 ≤ b) := by decide +kernel
theorem system_iff : ∀ b, b < 256 → is_system_message b = decide (240 ≤ b) := by decide +kernel

/-- a status byte: same result as the model, for every parser state (128 closed evaluations) -/
theorem status_eq (st : ParserState) (b : ℕ) (h1 : 128 ≤ b) (h2 : b < 256) : parse st b = parserStep st b := by
  interval_cases b <;> rfl

theorem status_ok (st : ParserState) (b : ℕ) (h1 : 128 ≤ b) (h2 : b < 256) (h : StOk st) : StOk (parse st b).1 := by
  rw [status_eq st b h1 h2]
  interval_cases b <;> simp [parserStep, StOk] <;> exact h

theorem status_asserts (st : ParserState) (b : ℕ) (h1 : 128 ≤ b) (h2 : b < 256) : parse_asserts st b = true := by
  interval_cases b <;> rfl

theorem min127 {x : ℕ} (h : x ≤ 127) : Nat.min x 127 = x := Nat.min_eq_left h

/-- **the translated dependency function is the model function** -/
theorem parse_eq (st : ParserState) (b : ℕ) (hb : b < 256) (h : StOk st) : parse st b = parserStep st b := by
  by_cases hs : 128 ≤ b
  · exact status_eq st b hs hb
  · have hb' : b ≤ 127 := by omega
    have e1 : is_status_byte b = false := by rw [status_iff b hb]; simp; omega
    have e2 : ¬ (b ≥ 0x80) := by omega
    unfold parse parserStep
    rw [e1]
    simp only [Bool.false_eq_true, ↓reduceIte, e2]
    cases st <;> simp_all [StOk, min127]

/-- payload ranges are preserved -/
theorem parse_ok (st : ParserState) (b : ℕ) (hb : b < 256) (h : StOk st) : StOk (parse st b).1 := by
  by_cases hs : 128 ≤ b
  · exact status_ok st b hs hb h
  · have hb' : b ≤ 127 := by omega
    have e1 : is_status_byte b = false := by rw [status_iff b hb]; simp; omega
    unfold parse
    rw [e1]
    simp only [Bool.false_eq_true, ↓reduceIte]
    cases st <;> simp_all [StOk, min127] <;> omega

/-- **no `debug_assert!` of the conversions fires** -/
theorem parse_asserts_hold (st : ParserState) (b : ℕ) (hb : b < 256) (h : StOk st) : parse_asserts st b = true := by
  by_cases hs : 128 ≤ b
  · exact status_asserts st b hs hb
  · have hb' : b ≤ 127 := by omega
    have e1 : is_status_byte b = false := by rw [status_iff b hb]; simp; omega
    unfold parse_asserts is_status_byte_asserts
    rw [e1]
    simp only [Bool.false_eq_true, ↓reduceIte, Bool.true_and]
    cases st <;> simp_all [StOk]

/-- along every byte history from `Idle`: the translated parser and the model agree byte for byte, the payloads stay in range
and no assertion fires -/
theorem history (bs : List ℕ) (hbs : ∀ b ∈ bs, b < 256) (st : ParserState) (h : StOk st) :
    bs.foldl (fun s b => (parse s b).1) st = bs.foldl (fun s b => (parserStep s b).1) st ∧
    StOk (bs.foldl (fun s b => (parse s b).1) st) ∧
    ∀ (pre : List ℕ) (b : ℕ) (post : List ℕ), bs = pre ++ b :: post →
      parse_asserts (pre.foldl (fun s b => (parse s b).1) st) b = true := by
  induction bs generalizing st with
  | nil => exact ⟨rfl, h, fun pre b post e => by simp at e⟩
  | cons x xs ih =>
    have hx : x < 256 := hbs x (by simp)
    have hxs : ∀ b ∈ xs, b < 256 := fun b hb => hbs b (by simp [hb])
    have ok1 := parse_ok st x hx h
    obtain ⟨i1, i2, i3⟩ := ih hxs (parse st x).1 ok1
    refine ⟨?_, i2, ?_⟩
    · simp only [List.foldl_cons]
      rw [i1, parse_eq st x hx h]
    · intro pre b post e
      cases pre with
      | nil =>
        simp only [List.nil_append, List.cons.injEq] at e
        obtain ⟨rfl, _⟩ := e
        exact parse_asserts_hold st x hx h
      | cons p ps =>
        simp only [List.cons_append, List.cons.injEq] at e
        obtain ⟨rfl, e'⟩ := e
        simp only [List.foldl_cons]
        exact i3 ps b post e'

example : StOk .idle := trivial

end Tie.DepMidi
