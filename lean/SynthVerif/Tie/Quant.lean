import SynthVerif.Gen.Src.quantizer
import SynthVerif.Tie.PhaseAcc
import SynthVerif.Model.Quantizer
/-!
# Tie 1d: `src/quantizer.rs`, translated by `tools/rs2lean.py`, refines the hand model `SynthVerif/Model/Quantizer.lean`

`Note` values are the crate's newtype; its only constructors (`Note::new`, `From<u8>`, the twelve constants) clamp to
`0..=11`, which is the invariant `NoteOk` below.  The constants (`HYSTERESIS`, `SEMITONE_WIDTH`, `V_MAX`, µV figures) are
the crate's own *expressions* evaluated with the F32 specification; the model's come from the compiled crate
(`Gen/Consts.lean`): the `const_*` theorems are therefore also a check of the specification against rustc's constant
evaluation.
-/
open F32 Rs
namespace Tie.Quant
open Src.quantizer

/-! ## constants -/
theorem const_hysteresis : Src.quantizer.HYSTERESIS = _root_.Quantizer.hysteresis := by decide +kernel
theorem const_semitone : Src.quantizer.SEMITONE_WIDTH = _root_.Quantizer.semitoneWidth := by decide +kernel
theorem const_vmax : Src.quantizer.V_MAX = _root_.Quantizer.vMax := by decide +kernel
theorem const_twelve : lit 12 = _root_.Quantizer.notesPerOctave := by decide +kernel
theorem const_octave : Src.quantizer.ONE_OCTAVE_IN_MICROVOLTS = Gen.oneOctaveUv := by decide
theorem const_halfstep : Src.quantizer.HALF_STEP_IN_MICROVOLTS = Gen.halfStepUv := by decide
theorem const_maxoct : Src.quantizer.MAX_OCTAVE = Gen.maxOctave := by decide

/-! ## notes -/
def NoteOk (n : Note) : Prop := n._0 ≤ 11

theorem note_new_tie (n : Nat) : Note.new n = some ⟨_root_.Quantizer.noteNew n⟩ := by
  unfold Note.new _root_.Quantizer.noteNew
  by_cases h : n ≤ 11 <;> simp [h]

theorem note_new_ok (n : Nat) : NoteOk ⟨_root_.Quantizer.noteNew n⟩ := by
  unfold NoteOk _root_.Quantizer.noteNew; split <;> simp_all

theorem note_from_tie (n : Nat) : Note.from_u8 n = some ⟨_root_.Quantizer.noteNew n⟩ := by
  simp [Note.from_u8, note_new_tie]

theorem delta_tie (a b : Nat) : Src.quantizer.delta a b = some (_root_.Quantizer.delta a b) := by
  unfold Src.quantizer.delta _root_.Quantizer.delta
  by_cases h : a < b
  · simp [h, usub]; omega
  · simp [h, usub]

/-! ## state -/
def abs (s : Src.quantizer.Quantizer) : _root_.Quantizer :=
  { cached := { note := s.cached_conversion.note_num, stairstep := s.cached_conversion.stairstep,
                fraction := s.cached_conversion.fraction },
    allowed := s.allowed }

def absConv (c : Src.quantizer.Conversion) : _root_.Conversion :=
  { note := c.note_num, stairstep := c.stairstep, fraction := c.fraction }

theorem new_tie : (Src.quantizer.Quantizer.new).map abs = some _root_.Quantizer.new := by
  simp [Src.quantizer.Quantizer.new, Src.quantizer.Conversion.new, abs, _root_.Quantizer.new, _root_.Quantizer.f32Min,
    Tie.PhaseAcc.lit_zero]

theorem shl_note {n : Nat} (h : n ≤ 11) : ushl 16 1 n = some (1 <<< n) := by
  have h16 : n < 16 := by omega
  have : (1 <<< n) < 2 ^ 16 := by
    rw [Nat.shiftLeft_eq, Nat.one_mul]; exact Nat.pow_lt_pow_right (by omega) h16
  simp [ushl, h16, Nat.mod_eq_of_lt this]

theorem is_allowed_tie (s : Src.quantizer.Quantizer) (n : Note) (h : NoteOk n) :
    Src.quantizer.Quantizer.is_allowed s n = some ((abs s).isAllowed n._0) := by
  have h16 : n._0 < 16 := by unfold NoteOk at h; omega
  simp [Src.quantizer.Quantizer.is_allowed, ushr, h16, abs, _root_.Quantizer.isAllowed, Nat.and_one_is_mod]

theorem allow_tie (ns : List Note) (hn : ∀ n ∈ ns, NoteOk n) (s : Src.quantizer.Quantizer) :
    (Src.quantizer.Quantizer.allow s ns).map abs = some ((abs s).allow (ns.map (·._0))) := by
  unfold Src.quantizer.Quantizer.allow
  simp only [bind, pure]
  induction ns generalizing s with
  | nil => simp [abs, _root_.Quantizer.allow]
  | cons n ns ih =>
    have h1 : NoteOk n := hn n (by simp)
    have := ih (fun m hm => hn m (by simp [hm])) { cached_conversion := s.cached_conversion, allowed := s.allowed ||| (1 <<< n._0) }
    simp only [List.forIn_cons, shl_note h1, Option.bind_some, bind] at this ⊢
    rw [this]
    simp [abs, _root_.Quantizer.allow]

theorem forbid_loop (ns : List Note) (hn : ∀ n ∈ ns, NoteOk n) (s : Src.quantizer.Quantizer) :
    (forIn ns s fun n (r : Src.quantizer.Quantizer) =>
        (ushl 16 1 n._0).bind fun t1 =>
          some (ForInStep.yield ({ cached_conversion := r.cached_conversion, allowed := r.allowed &&& unot 16 t1 } : Src.quantizer.Quantizer))) =
      some { cached_conversion := s.cached_conversion,
             allowed := (ns.map (·._0)).foldl (fun a n => a &&& (0xffff ^^^ (1 <<< n))) s.allowed } := by
  induction ns generalizing s with
  | nil => rfl
  | cons n ns ih =>
    have h1 : NoteOk n := hn n (by simp)
    have := ih (fun m hm => hn m (by simp [hm])) { cached_conversion := s.cached_conversion, allowed := s.allowed &&& unot 16 (1 <<< n._0) }
    simp only [List.forIn_cons, shl_note h1, Option.bind_some, bind] at this ⊢
    rw [this]
    simp [unot]

theorem drop_last {α} (l : List α) (x : α) (h : l.getLast? = some x) : l.drop (l.length - 1) = [x] := by
  induction l with
  | nil => simp at h
  | cons a t ih =>
    cases t with
    | nil => simp at h; simp [h]
    | cons b t' =>
      have : (b :: t').getLast? = some x := by simpa [List.getLast?_cons_cons] using h
      have := ih this
      simpa using this

theorem forbid_tie (ns : List Note) (hn : ∀ n ∈ ns, NoteOk n) (s : Src.quantizer.Quantizer) :
    (Src.quantizer.Quantizer.forbid s ns).map abs = (abs s).forbid (ns.map (·._0)) := by
  unfold Src.quantizer.Quantizer.forbid _root_.Quantizer.forbid
  simp only [bind, pure, forbid_loop ns hn s, Option.bind_some]
  by_cases h0 : (ns.map (·._0)).foldl (fun a n => a &&& (0xffff ^^^ (1 <<< n))) s.allowed = 0
  · have e0 : (abs s).allowed = s.allowed := rfl
    simp only [e0, h0, beq_self_eq_true, if_true]
    cases ns with
    | nil => simp [usub]
    | cons a t =>
      obtain ⟨x, hx⟩ : ∃ x, (a :: t).getLast? = some x := ⟨(a :: t).getLast (by simp), List.getLast?_eq_getLast (by simp)⟩
      have hxm : ((a :: t).map (·._0)).getLast? = some x._0 := by rw [List.getLast?_map, hx]; rfl
      have hxok : NoteOk x := hn x (List.mem_of_getLast? hx)
      have hlen : usub (a :: t).length 1 = some ((a :: t).length - 1) := usub_ok (by simp)
      have hsl : sliceFrom (a :: t) ((a :: t).length - 1) = some [x] := by
        simp only [sliceFrom]; rw [if_pos (by simp), drop_last _ _ hx]
      rw [hxm]
      simp only [hlen, hsl, Option.bind_some]
      have := allow_tie [x] (by intro n hn'; simp at hn'; subst hn'; exact hxok)
        { cached_conversion := s.cached_conversion, allowed := 0 }
      cases hal : Src.quantizer.Quantizer.allow { cached_conversion := s.cached_conversion, allowed := 0 } [x] with
      | none => rw [hal] at this; simp at this
      | some r =>
        rw [hal] at this
        simp only [Option.map_some, Option.some.injEq] at this
        simp only [Option.bind_some, Option.map_some, this]
        rfl
  · have e0 : (abs s).allowed = s.allowed := rfl
    simp [h0, abs]

/-- `find_nearest_note` refines `findNearest` (proved in `Tie/QuantSearch.lean`) -/
def SearchTie : Prop := ∀ (s : Src.quantizer.Quantizer) (v : F32),
  Src.quantizer.Quantizer.find_nearest_note s v = some ((abs s).findNearest v)

/-- `convert(v)`: same new state and same returned record, for every state and every input, given the search tie -/
theorem convert_tie (hfn : SearchTie) (s : Src.quantizer.Quantizer) (v : F32) :
    (Src.quantizer.Quantizer.convert s v).map (fun r => (abs r.1, absConv r.2)) = some ((abs s).convert v) := by
  have hrem : urem s.cached_conversion.note_num 12 = some (s.cached_conversion.note_num % 12) := urem_ok (by decide)
  have hok := note_new_ok (s.cached_conversion.note_num % 12)
  have hia := is_allowed_tie s ⟨_root_.Quantizer.noteNew (s.cached_conversion.note_num % 12)⟩ hok
  unfold Src.quantizer.Quantizer.convert _root_.Quantizer.convert
  simp only [bind, pure, hrem, Option.bind_some, note_from_tie, hia]
  have hwin : (F32.lt (F32.sub s.cached_conversion.stairstep HYSTERESIS) v &&
      F32.lt v (F32.add (F32.add s.cached_conversion.stairstep SEMITONE_WIDTH) HYSTERESIS)) =
      _root_.Quantizer.inWindow (abs s).cached v := by
    simp [_root_.Quantizer.inWindow, abs, const_hysteresis, const_semitone]
  have hfresh : ∀ s' : Src.quantizer.Quantizer, s'.allowed = s.allowed →
      Src.quantizer.Quantizer.find_nearest_note s' (F32.fmin (F32.fmax v (lit 0)) V_MAX) =
        some (_root_.Quantizer.findNearestUv s.allowed (_root_.Quantizer.toMicrovolts (F32.fmin (F32.fmax v zero) _root_.Quantizer.vMax))) := by
    intro s' h'
    rw [hfn s', Tie.PhaseAcc.lit_zero, const_vmax]
    simp [_root_.Quantizer.findNearest, abs, h']
  by_cases ha : (abs s).isAllowed (_root_.Quantizer.noteNew (s.cached_conversion.note_num % 12)) = true
  · by_cases hw : _root_.Quantizer.inWindow (abs s).cached v = true
    · have e1 : (abs s).cached.note = s.cached_conversion.note_num := rfl
      simp only [ha, if_true, hwin, hw, e1, Bool.and_self]
      simp [abs, absConv]
    · have e1 : (abs s).cached.note = s.cached_conversion.note_num := rfl
      simp only [ha, if_true, hwin, hw, e1, Bool.and_false, Bool.false_eq_true, if_false, hfresh s rfl, Option.bind_some]
      simp [abs, absConv, _root_.Quantizer.convertFresh, Tie.PhaseAcc.lit_zero, const_vmax, const_twelve]
  · have e1 : (abs s).cached.note = s.cached_conversion.note_num := rfl
    simp only [ha, e1, Bool.false_and, Bool.false_eq_true, if_false, hfresh s rfl, Option.bind_some]
    simp [abs, absConv, _root_.Quantizer.convertFresh, Tie.PhaseAcc.lit_zero, const_vmax, const_twelve]

end Tie.Quant
