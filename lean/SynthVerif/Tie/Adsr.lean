import SynthVerif.Gen.Src.adsr
import SynthVerif.Tie.PhaseAcc
import SynthVerif.Model.Adsr
import SynthVerif.Props.C17
/-!
# Tie 1d: `src/adsr.rs`, translated by `tools/rs2lean.py`, refines the hand model `SynthVerif/Model/Adsr.lean`

For every well-formed implementation state and every argument, each translated function returns what the model function
returns on the abstracted state; `new` produces a well-formed state and every function preserves well-formedness.  Hence
every history of `gate_on / gate_off / tick / set_input` calls on the translated source equals, step by step, the same
history on the model (`run_tie`), and the theorems of C01, C02, C03, C17, C20 about the model are theorems about the
translated source.
-/
open F32 Rs
namespace Tie.Adsr
open Src.adsr

theorem total_bits : Src.adsr.TOT_NUM_ACCUM_BITS = Gen.adsrTotalBits := by decide
theorem index_bits : Src.adsr.NUM_LUT_INDEX_BITS = Gen.adsrIndexBits := by decide
theorem total_bits' : Src.adsr.TOT_NUM_ACCUM_BITS = 24 := by decide
theorem index_bits' : Src.adsr.NUM_LUT_INDEX_BITS = 10 := by decide

def absState : State → AdsrState
  | .AtRest => .atRest | .Attack => .attack | .Decay => .decay | .Sustain => .sustain | .Release => .release

/-- abstraction: implementation state ↦ model state -/
def abs (s : Src.adsr.Adsr) : _root_.Adsr :=
  { attackTime := s.attack_time._0, decayTime := s.decay_time._0, sustain := s.sustain_level._0,
    releaseTime := s.release_time._0, pa := Tie.PhaseAcc.abs s.phase_accumulator, state := absState s.state,
    onLevel := s.value_when_gate_on_received, offLevel := s.value_when_gate_off_received, value := s.value }

def absInput : Input → AdsrInput
  | .Attack t => .attack t._0 | .Decay t => .decay t._0 | .Sustain l => .sustain l._0 | .Release t => .release t._0

/-- well-formed: the accumulator's mask is the one `new` computed and the counter is below 2^24 -/
structure WF (s : Src.adsr.Adsr) : Prop where
  pa : Tie.PhaseAcc.WF s.phase_accumulator
  acc : s.phase_accumulator.accumulator < 2 ^ 24

def Refines (r : Option Src.adsr.Adsr) (m : _root_.Adsr) : Prop := ∃ s', r = some s' ∧ WF s' ∧ abs s' = m

theorem lit_min : Src.adsr.MIN_TIME_PERIOD_SEC = minTime := by decide +kernel
theorem lit_max : Src.adsr.MAX_TIME_PERIOD_SEC = maxTime := by decide +kernel

theorem timePeriod_tie (p : F32) : (TimePeriod.from_f32 p).map (·._0) = some (timePeriod p) := by
  simp [TimePeriod.from_f32, timePeriod, lit_min, lit_max]

theorem sustainLevel_tie (v : F32) : (SustainLevel.from_f32 v).map (·._0) = some (sustainLevel v) := by
  simp [SustainLevel.from_f32, sustainLevel, Tie.PhaseAcc.lit_zero, Tie.PhaseAcc.lit_one]

theorem attack_size : Gen.attackBits.size = 1024 := by decide +kernel
theorem decay_size : Gen.decayBits.size = 1024 := by decide +kernel

theorem tbl_attack {i : Nat} (h : i < 1024) : tbl Gen.attackBits i = some (attackAt i) := by
  simp [tbl, attack_size, h, attackAt]
theorem tbl_decay {i : Nat} (h : i < 1024) : tbl Gen.decayBits i = some (decayAt i) := by
  simp [tbl, decay_size, h, decayAt]

theorem index_lt {s : Src.adsr.Adsr} (h : WF s) : (Tie.PhaseAcc.abs s.phase_accumulator).index < 1024 := by
  have := h.acc
  simp only [Tie.PhaseAcc.abs, PhaseAcc.index, total_bits', index_bits']
  omega

theorem calc_value_tie (s : Src.adsr.Adsr) (h : WF s) : Adsr.calc_value s = some (abs s).calcValue := by
  have hi := index_lt h
  have hj : min ((Tie.PhaseAcc.abs s.phase_accumulator).index + 1) 1023 < 1024 := by omega
  have h64 : uadd Usize.bound (Tie.PhaseAcc.abs s.phase_accumulator).index 1 = some ((Tie.PhaseAcc.abs s.phase_accumulator).index + 1) :=
    uadd_ok (by simp only [Usize.bound]; omega)
  have hlut : Gen.adsrLutSize = 1024 := rfl
  have hsub : usub 1024 1 = some 1023 := rfl
  unfold Adsr.calc_value
  simp only [Tie.PhaseAcc.index_tie _ h.pa, Tie.PhaseAcc.fraction_tie _ h.pa, h64, hlut, hsub]
  cases hs : s.state <;>
    simp [hs, h64, tbl_attack hi, tbl_decay hi, tbl_attack hj, tbl_decay hj, Tie.PhaseAcc.linear_interp_tie,
      abs, absState, _root_.Adsr.calcValue, _root_.Adsr.sample, Tie.PhaseAcc.lit_one, Tie.PhaseAcc.lit_zero, hlut]

theorem new_tie (sr : F32) : Refines (Src.adsr.Adsr.new sr) (_root_.Adsr.new sr) := by
  obtain ⟨pa, hpa, hwf, habs⟩ := Tie.PhaseAcc.new_tie (T := Src.adsr.TOT_NUM_ACCUM_BITS) (I := Src.adsr.NUM_LUT_INDEX_BITS)
    (by decide) (by decide) sr
  have hacc : pa.accumulator < 2 ^ 24 := by
    have : (Tie.PhaseAcc.abs pa).acc = 0 := by rw [habs]; rfl
    simp only [Tie.PhaseAcc.abs] at this; omega
  let tp : TimePeriod := ⟨F32.fmin (F32.fmax MIN_TIME_PERIOD_SEC MIN_TIME_PERIOD_SEC) MAX_TIME_PERIOD_SEC⟩
  refine ⟨{ attack_time := tp, decay_time := tp, sustain_level := ⟨F32.fmin (F32.fmax (lit 1) (lit 0)) (lit 1)⟩,
            release_time := tp, phase_accumulator := pa, state := .AtRest, value_when_gate_on_received := lit 0,
            value_when_gate_off_received := lit 0, value := lit 0 }, ?_, ⟨hwf, hacc⟩, ?_⟩
  · simp [Src.adsr.Adsr.new, TimePeriod.from_f32, SustainLevel.from_f32, hpa, tp]
  · simp only [abs, _root_.Adsr.new, habs, absState, timePeriod, sustainLevel, lit_min, lit_max, Tie.PhaseAcc.lit_one,
      Tie.PhaseAcc.lit_zero, tp]
    rfl

theorem gate_on_tie (s : Src.adsr.Adsr) (h : WF s) : Refines (Src.adsr.Adsr.gate_on s) (abs s).gateOn := by
  unfold Src.adsr.Adsr.gate_on _root_.Adsr.gateOn
  cases hs : s.state <;>
    simp only [hs, abs, absState, Src.phase_accumulator.PhaseAccumulator.reset, bind, Option.bind, pure] <;>
    first
    | exact ⟨_, rfl, h, by simp [abs, absState, hs]⟩
    | exact ⟨_, rfl, ⟨⟨h.pa.bits, h.pa.idx, h.pa.mask⟩, by simp⟩, by simp [abs, absState, hs, Tie.PhaseAcc.abs, PhaseAcc.reset]⟩

theorem gate_off_tie (s : Src.adsr.Adsr) (h : WF s) : Refines (Src.adsr.Adsr.gate_off s) (abs s).gateOff := by
  unfold Src.adsr.Adsr.gate_off _root_.Adsr.gateOff
  cases hs : s.state <;>
    simp only [hs, abs, absState, Src.phase_accumulator.PhaseAccumulator.reset, bind, Option.bind, pure] <;>
    first
    | exact ⟨_, rfl, h, by simp [abs, absState, hs]⟩
    | exact ⟨_, rfl, ⟨⟨h.pa.bits, h.pa.idx, h.pa.mask⟩, by simp⟩, by simp [abs, absState, hs, Tie.PhaseAcc.abs, PhaseAcc.reset]⟩

theorem set_input_tie (s : Src.adsr.Adsr) (h : WF s) (i : Input) :
    Refines (Src.adsr.Adsr.set_input s i) ((abs s).setInput (absInput i)) := by
  cases i <;> exact ⟨_, rfl, ⟨h.pa, h.acc⟩, rfl⟩

/-- the part of `tick` that advances the phase accumulator: `set_period`, `tick`, `rolled_over()` -/
theorem advance_tie (pa : Tie.PhaseAcc.S TOT_NUM_ACCUM_BITS NUM_LUT_INDEX_BITS) (h : Tie.PhaseAcc.WF pa) (t : F32) :
    ∃ p1, Src.phase_accumulator.PhaseAccumulator.set_period pa t = some p1 ∧
    match ((Tie.PhaseAcc.abs pa).setPeriod t).tick with
    | none => Src.phase_accumulator.PhaseAccumulator.tick p1 = none
    | some m => ∃ p2 p3, Src.phase_accumulator.PhaseAccumulator.tick p1 = some p2 ∧
        Src.phase_accumulator.PhaseAccumulator.rolled_over_fn p2 = some (p3, m.rolled) ∧ Tie.PhaseAcc.WF p3 ∧
        Tie.PhaseAcc.abs p3 = { m with rolled := false } ∧ p3.accumulator < 2 ^ 24 := by
  obtain ⟨p1, h1, hwf1, habs1⟩ := Tie.PhaseAcc.set_period_tie pa h t
  obtain ⟨hmap, hwf2⟩ := Tie.PhaseAcc.tick_tie p1 hwf1
  rw [habs1] at hmap
  refine ⟨p1, h1, ?_⟩
  cases htick : Src.phase_accumulator.PhaseAccumulator.tick p1 with
  | none => rw [htick] at hmap; simp only [Option.map_none] at hmap; rw [← hmap]
  | some p2 =>
    rw [htick] at hmap; simp only [Option.map_some] at hmap; rw [← hmap]
    obtain ⟨p3, b, h3, hwf3, hb⟩ := Tie.PhaseAcc.rolled_over_tie p2 (hwf2 p2 htick)
    simp only [PhaseAcc.rolledOver, Prod.mk.injEq] at hb
    have hacc : p2.accumulator < 2 ^ 24 := by
      have hm : PhaseAcc.tick ((Tie.PhaseAcc.abs pa).setPeriod t) = some (Tie.PhaseAcc.abs p2) := hmap.symm
      by_cases hge : ((Tie.PhaseAcc.abs pa).setPeriod t).acc + ((Tie.PhaseAcc.abs pa).setPeriod t).inc ≥ 2 ^ 32
      · simp only [PhaseAcc.tick, hge, if_true] at hm; cases hm
      · simp only [PhaseAcc.tick, hge, if_false] at hm
        have := congrArg PhaseAcc.acc (Option.some.inj hm)
        simp only [Tie.PhaseAcc.abs, PhaseAcc.setPeriod, PhaseAcc.setFrequency, total_bits'] at this
        rw [← this]; exact Nat.mod_lt _ (by decide)
    have hacc3 : p3.accumulator < 2 ^ 24 := by
      have := congrArg PhaseAcc.acc hb.2
      simp only [Tie.PhaseAcc.abs] at this; omega
    exact ⟨p2, p3, rfl, by rw [h3, hb.1], hwf3, hb.2, hacc3⟩

theorem tick_tie (s : Src.adsr.Adsr) (h : WF s) :
    (Src.adsr.Adsr.tick s).map abs = (abs s).tick ∧ ∀ s', Src.adsr.Adsr.tick s = some s' → WF s' := by
  have hcv := calc_value_tie s h
  obtain ⟨a, d, sl, r, pa, st, von, voff, v⟩ := s
  cases st
  case AtRest =>
    have hsrc : Src.adsr.Adsr.tick ⟨a, d, sl, r, pa, .AtRest, von, voff, v⟩ =
        some ⟨a, d, sl, r, pa, .AtRest, von, voff, (abs ⟨a, d, sl, r, pa, .AtRest, von, voff, v⟩).calcValue⟩ := by
      simp [Src.adsr.Adsr.tick, hcv]
    rw [hsrc]
    refine ⟨?_, fun s' hs' => ?_⟩
    · rw [_root_.Adsr.tick, if_neg (by simp [abs, absState, AdsrState.timed])]; rfl
    · cases hs'; exact ⟨h.pa, h.acc⟩
  case Attack =>
    have hwf0 := h
    obtain ⟨p1, h1, hadv⟩ := advance_tie pa h.pa a._0
    rw [_root_.Adsr.tick, if_pos (by rfl)]
    have hper : (abs ⟨a, d, sl, r, pa, .Attack, von, voff, v⟩).period = a._0 := rfl
    have hpa : (abs ⟨a, d, sl, r, pa, .Attack, von, voff, v⟩).pa = Tie.PhaseAcc.abs pa := rfl
    rw [hper, hpa]
    cases hm : ((Tie.PhaseAcc.abs pa).setPeriod a._0).tick with
    | none =>
      rw [hm] at hadv
      simp only at hadv
      have hsrc : Src.adsr.Adsr.tick ⟨a, d, sl, r, pa, .Attack, von, voff, v⟩ = none := by
        simp [Src.adsr.Adsr.tick, h1, hadv]
      rw [hsrc]; simp
    | some m =>
      rw [hm] at hadv
      obtain ⟨p2, p3, h2, h3, hwf3, habs3, hacc3⟩ := hadv
      cases hr : m.rolled
      · rw [hr] at h3
        have hwf5 : WF ⟨a, d, sl, r, p3, .Attack, von, voff, v⟩ := ⟨hwf3, hacc3⟩
        have hcv5 := calc_value_tie _ hwf5
        have hsrc : Src.adsr.Adsr.tick ⟨a, d, sl, r, pa, .Attack, von, voff, v⟩ =
            some ⟨a, d, sl, r, p3, .Attack, von, voff, (abs ⟨a, d, sl, r, p3, .Attack, von, voff, v⟩).calcValue⟩ := by
          simp [Src.adsr.Adsr.tick, h1, h2, h3, hcv5]
        rw [hsrc]
        refine ⟨?_, fun s' hs' => ?_⟩
        · simp only [Option.map_some, hr, Bool.false_eq_true, if_false]
          simp only [abs, habs3, absState]
        · cases hs'; exact ⟨hwf3, hacc3⟩
      · rw [hr] at h3
        have hwf4 : Tie.PhaseAcc.WF (⟨p3.sample_rate_hz, p3.rollover_mask, 0, 0, p3.increment, false⟩ :
            Tie.PhaseAcc.S TOT_NUM_ACCUM_BITS NUM_LUT_INDEX_BITS) := ⟨hwf3.bits, hwf3.idx, hwf3.mask⟩
        have hwf5 : WF ⟨a, d, sl, r, ⟨p3.sample_rate_hz, p3.rollover_mask, 0, 0, p3.increment, false⟩, .Decay, von, voff, v⟩ :=
          ⟨hwf4, by simp⟩
        have hcv5 := calc_value_tie _ hwf5
        have hsrc : Src.adsr.Adsr.tick ⟨a, d, sl, r, pa, .Attack, von, voff, v⟩ =
            some ⟨a, d, sl, r, ⟨p3.sample_rate_hz, p3.rollover_mask, 0, 0, p3.increment, false⟩, .Decay, von, voff,
              (abs ⟨a, d, sl, r, ⟨p3.sample_rate_hz, p3.rollover_mask, 0, 0, p3.increment, false⟩, .Decay, von, voff, v⟩).calcValue⟩ := by
          simp [Src.adsr.Adsr.tick, h1, h2, h3, Src.phase_accumulator.PhaseAccumulator.reset, hcv5]
        rw [hsrc]
        refine ⟨?_, fun s' hs' => ?_⟩
        · simp only [Option.map_some, hr, if_true]
          have e : Tie.PhaseAcc.abs (⟨p3.sample_rate_hz, p3.rollover_mask, 0, 0, p3.increment, false⟩ :
              Tie.PhaseAcc.S TOT_NUM_ACCUM_BITS NUM_LUT_INDEX_BITS) = (Tie.PhaseAcc.abs p3).reset := rfl
          simp only [abs, e, habs3, absState, AdsrState.next]
        · cases hs'; exact ⟨hwf5.pa, hwf5.acc⟩
  case Decay =>
    have hwf0 := h
    obtain ⟨p1, h1, hadv⟩ := advance_tie pa h.pa d._0
    rw [_root_.Adsr.tick, if_pos (by rfl)]
    have hper : (abs ⟨a, d, sl, r, pa, .Decay, von, voff, v⟩).period = d._0 := rfl
    have hpa : (abs ⟨a, d, sl, r, pa, .Decay, von, voff, v⟩).pa = Tie.PhaseAcc.abs pa := rfl
    rw [hper, hpa]
    cases hm : ((Tie.PhaseAcc.abs pa).setPeriod d._0).tick with
    | none =>
      rw [hm] at hadv
      simp only at hadv
      have hsrc : Src.adsr.Adsr.tick ⟨a, d, sl, r, pa, .Decay, von, voff, v⟩ = none := by
        simp [Src.adsr.Adsr.tick, h1, hadv]
      rw [hsrc]; simp
    | some m =>
      rw [hm] at hadv
      obtain ⟨p2, p3, h2, h3, hwf3, habs3, hacc3⟩ := hadv
      cases hr : m.rolled
      · rw [hr] at h3
        have hwf5 : WF ⟨a, d, sl, r, p3, .Decay, von, voff, v⟩ := ⟨hwf3, hacc3⟩
        have hcv5 := calc_value_tie _ hwf5
        have hsrc : Src.adsr.Adsr.tick ⟨a, d, sl, r, pa, .Decay, von, voff, v⟩ =
            some ⟨a, d, sl, r, p3, .Decay, von, voff, (abs ⟨a, d, sl, r, p3, .Decay, von, voff, v⟩).calcValue⟩ := by
          simp [Src.adsr.Adsr.tick, h1, h2, h3, hcv5]
        rw [hsrc]
        refine ⟨?_, fun s' hs' => ?_⟩
        · simp only [Option.map_some, hr, Bool.false_eq_true, if_false]
          simp only [abs, habs3, absState]
        · cases hs'; exact ⟨hwf3, hacc3⟩
      · rw [hr] at h3
        have hwf4 : Tie.PhaseAcc.WF (⟨p3.sample_rate_hz, p3.rollover_mask, 0, 0, p3.increment, false⟩ :
            Tie.PhaseAcc.S TOT_NUM_ACCUM_BITS NUM_LUT_INDEX_BITS) := ⟨hwf3.bits, hwf3.idx, hwf3.mask⟩
        have hwf5 : WF ⟨a, d, sl, r, ⟨p3.sample_rate_hz, p3.rollover_mask, 0, 0, p3.increment, false⟩, .Sustain, von, voff, v⟩ :=
          ⟨hwf4, by simp⟩
        have hcv5 := calc_value_tie _ hwf5
        have hsrc : Src.adsr.Adsr.tick ⟨a, d, sl, r, pa, .Decay, von, voff, v⟩ =
            some ⟨a, d, sl, r, ⟨p3.sample_rate_hz, p3.rollover_mask, 0, 0, p3.increment, false⟩, .Sustain, von, voff,
              (abs ⟨a, d, sl, r, ⟨p3.sample_rate_hz, p3.rollover_mask, 0, 0, p3.increment, false⟩, .Sustain, von, voff, v⟩).calcValue⟩ := by
          simp [Src.adsr.Adsr.tick, h1, h2, h3, Src.phase_accumulator.PhaseAccumulator.reset, hcv5]
        rw [hsrc]
        refine ⟨?_, fun s' hs' => ?_⟩
        · simp only [Option.map_some, hr, if_true]
          have e : Tie.PhaseAcc.abs (⟨p3.sample_rate_hz, p3.rollover_mask, 0, 0, p3.increment, false⟩ :
              Tie.PhaseAcc.S TOT_NUM_ACCUM_BITS NUM_LUT_INDEX_BITS) = (Tie.PhaseAcc.abs p3).reset := rfl
          simp only [abs, e, habs3, absState, AdsrState.next]
        · cases hs'; exact ⟨hwf5.pa, hwf5.acc⟩
  case Sustain =>
    have hsrc : Src.adsr.Adsr.tick ⟨a, d, sl, r, pa, .Sustain, von, voff, v⟩ =
        some ⟨a, d, sl, r, pa, .Sustain, von, voff, (abs ⟨a, d, sl, r, pa, .Sustain, von, voff, v⟩).calcValue⟩ := by
      simp [Src.adsr.Adsr.tick, hcv]
    rw [hsrc]
    refine ⟨?_, fun s' hs' => ?_⟩
    · rw [_root_.Adsr.tick, if_neg (by simp [abs, absState, AdsrState.timed])]; rfl
    · cases hs'; exact ⟨h.pa, h.acc⟩
  case Release =>
    have hwf0 := h
    obtain ⟨p1, h1, hadv⟩ := advance_tie pa h.pa r._0
    rw [_root_.Adsr.tick, if_pos (by rfl)]
    have hper : (abs ⟨a, d, sl, r, pa, .Release, von, voff, v⟩).period = r._0 := rfl
    have hpa : (abs ⟨a, d, sl, r, pa, .Release, von, voff, v⟩).pa = Tie.PhaseAcc.abs pa := rfl
    rw [hper, hpa]
    cases hm : ((Tie.PhaseAcc.abs pa).setPeriod r._0).tick with
    | none =>
      rw [hm] at hadv
      simp only at hadv
      have hsrc : Src.adsr.Adsr.tick ⟨a, d, sl, r, pa, .Release, von, voff, v⟩ = none := by
        simp [Src.adsr.Adsr.tick, h1, hadv]
      rw [hsrc]; simp
    | some m =>
      rw [hm] at hadv
      obtain ⟨p2, p3, h2, h3, hwf3, habs3, hacc3⟩ := hadv
      cases hr : m.rolled
      · rw [hr] at h3
        have hwf5 : WF ⟨a, d, sl, r, p3, .Release, von, voff, v⟩ := ⟨hwf3, hacc3⟩
        have hcv5 := calc_value_tie _ hwf5
        have hsrc : Src.adsr.Adsr.tick ⟨a, d, sl, r, pa, .Release, von, voff, v⟩ =
            some ⟨a, d, sl, r, p3, .Release, von, voff, (abs ⟨a, d, sl, r, p3, .Release, von, voff, v⟩).calcValue⟩ := by
          simp [Src.adsr.Adsr.tick, h1, h2, h3, hcv5]
        rw [hsrc]
        refine ⟨?_, fun s' hs' => ?_⟩
        · simp only [Option.map_some, hr, Bool.false_eq_true, if_false]
          simp only [abs, habs3, absState]
        · cases hs'; exact ⟨hwf3, hacc3⟩
      · rw [hr] at h3
        have hwf4 : Tie.PhaseAcc.WF (⟨p3.sample_rate_hz, p3.rollover_mask, 0, 0, p3.increment, false⟩ :
            Tie.PhaseAcc.S TOT_NUM_ACCUM_BITS NUM_LUT_INDEX_BITS) := ⟨hwf3.bits, hwf3.idx, hwf3.mask⟩
        have hwf5 : WF ⟨a, d, sl, r, ⟨p3.sample_rate_hz, p3.rollover_mask, 0, 0, p3.increment, false⟩, .AtRest, von, voff, v⟩ :=
          ⟨hwf4, by simp⟩
        have hcv5 := calc_value_tie _ hwf5
        have hsrc : Src.adsr.Adsr.tick ⟨a, d, sl, r, pa, .Release, von, voff, v⟩ =
            some ⟨a, d, sl, r, ⟨p3.sample_rate_hz, p3.rollover_mask, 0, 0, p3.increment, false⟩, .AtRest, von, voff,
              (abs ⟨a, d, sl, r, ⟨p3.sample_rate_hz, p3.rollover_mask, 0, 0, p3.increment, false⟩, .AtRest, von, voff, v⟩).calcValue⟩ := by
          simp [Src.adsr.Adsr.tick, h1, h2, h3, Src.phase_accumulator.PhaseAccumulator.reset, hcv5]
        rw [hsrc]
        refine ⟨?_, fun s' hs' => ?_⟩
        · simp only [Option.map_some, hr, if_true]
          have e : Tie.PhaseAcc.abs (⟨p3.sample_rate_hz, p3.rollover_mask, 0, 0, p3.increment, false⟩ :
              Tie.PhaseAcc.S TOT_NUM_ACCUM_BITS NUM_LUT_INDEX_BITS) = (Tie.PhaseAcc.abs p3).reset := rfl
          simp only [abs, e, habs3, absState, AdsrState.next]
        · cases hs'; exact ⟨hwf5.pa, hwf5.acc⟩

/-! ## whole histories -/

/-- one public-API call on the translated source (`set_input` arguments go through `From<f32>` as callers must) -/
def step (s : Src.adsr.Adsr) : C17.Op → Option Src.adsr.Adsr
  | .gateOn => Src.adsr.Adsr.gate_on s
  | .gateOff => Src.adsr.Adsr.gate_off s
  | .tick => Src.adsr.Adsr.tick s
  | .setAttack x => do Src.adsr.Adsr.set_input s (.Attack (← TimePeriod.from_f32 x))
  | .setDecay x => do Src.adsr.Adsr.set_input s (.Decay (← TimePeriod.from_f32 x))
  | .setRelease x => do Src.adsr.Adsr.set_input s (.Release (← TimePeriod.from_f32 x))
  | .setSustain x => do Src.adsr.Adsr.set_input s (.Sustain (← SustainLevel.from_f32 x))

def run (s : Src.adsr.Adsr) : List C17.Op → Option Src.adsr.Adsr
  | [] => some s
  | o :: os => match step s o with
    | none => none
    | some s' => run s' os

theorem step_tie (s : Src.adsr.Adsr) (h : WF s) (o : C17.Op) :
    (step s o).map abs = C17.step (abs s) o ∧ ∀ s', step s o = some s' → WF s' := by
  have lift : ∀ {r : Option Src.adsr.Adsr} {m : _root_.Adsr}, Refines r m →
      r.map abs = some m ∧ ∀ s', r = some s' → WF s' := by
    rintro r m ⟨s', rfl, hwf, rfl⟩
    exact ⟨rfl, fun s'' e => by cases e; exact hwf⟩
  cases o with
  | gateOn => exact lift (gate_on_tie s h)
  | gateOff => exact lift (gate_off_tie s h)
  | tick => exact tick_tie s h
  | setAttack x =>
    have := lift (set_input_tie s h (.Attack ⟨F32.fmin (F32.fmax x MIN_TIME_PERIOD_SEC) MAX_TIME_PERIOD_SEC⟩))
    simpa [step, TimePeriod.from_f32, C17.step, absInput, timePeriod, lit_min, lit_max] using this
  | setDecay x =>
    have := lift (set_input_tie s h (.Decay ⟨F32.fmin (F32.fmax x MIN_TIME_PERIOD_SEC) MAX_TIME_PERIOD_SEC⟩))
    simpa [step, TimePeriod.from_f32, C17.step, absInput, timePeriod, lit_min, lit_max] using this
  | setRelease x =>
    have := lift (set_input_tie s h (.Release ⟨F32.fmin (F32.fmax x MIN_TIME_PERIOD_SEC) MAX_TIME_PERIOD_SEC⟩))
    simpa [step, TimePeriod.from_f32, C17.step, absInput, timePeriod, lit_min, lit_max] using this
  | setSustain x =>
    have := lift (set_input_tie s h (.Sustain ⟨F32.fmin (F32.fmax x (lit 0)) (lit 1)⟩))
    simpa [step, SustainLevel.from_f32, C17.step, absInput, sustainLevel, Tie.PhaseAcc.lit_zero, Tie.PhaseAcc.lit_one] using this

/-- every history of public-API calls on the translated source is, call by call, the same history on the model -/
theorem run_tie (ops : List C17.Op) (s : Src.adsr.Adsr) (h : WF s) :
    (run s ops).map abs = C17.run (abs s) ops ∧ ∀ s', run s ops = some s' → WF s' := by
  induction ops generalizing s with
  | nil => exact ⟨rfl, fun s' e => by cases e; exact h⟩
  | cons o os ih =>
    obtain ⟨h1, h2⟩ := step_tie s h o
    cases hs : step s o with
    | none =>
      rw [hs] at h1
      simp only [run, C17.run, hs, ← h1, Option.map_none]
      exact ⟨trivial, fun s' e => by cases e⟩
    | some s1 =>
      rw [hs] at h1
      simp only [run, C17.run, hs, ← h1, Option.map_some]
      exact ih s1 (h2 s1 hs)

/-- … starting from the constructor -/
theorem new_run_tie (sr : F32) (ops : List C17.Op) :
    ((Src.adsr.Adsr.new sr).bind (run · ops)).map abs = C17.run (_root_.Adsr.new sr) ops := by
  obtain ⟨s0, h0, hwf, habs⟩ := new_tie sr
  rw [h0, Option.bind_some, ← habs]
  exact (run_tie ops s0 hwf).1

end Tie.Adsr
