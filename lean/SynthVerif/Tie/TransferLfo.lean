import SynthVerif.Tie.LfoRun
import SynthVerif.Props.C10
import SynthVerif.Props.C10Sine
import SynthVerif.Props.C11
import SynthVerif.Props.C12
import SynthVerif.Props.C17
import SynthVerif.Props.C17Lfo
import SynthVerif.Props.C11Drift
/-!
# Tie 1d, end to end, `lfo.rs`: C10, C11, C12, C17 restated for the *translated source*

`Tie.Lfo.WF s` (mask = 2^24 − 1, counter < 2^24) holds after `Lfo::new` and is preserved by every call (`Tie.Lfo.run_tie`),
so "for every WF state" is "for every state the oscillator can reach".  `ph s` is the phase of the Rust struct as a rational.
-/
open F32 Rs
namespace Tie.TransferLfo
open Src.lfo

/-- the phase counter of the Rust struct, as a fraction of a cycle -/
def ph (s : Src.lfo.Lfo) : ℚ := (s.phase_accumulator.accumulator : ℚ) / 2 ^ 24

theorem ph_eq (s : Src.lfo.Lfo) : ph s = C10.phase (Tie.Lfo.abs s) := rfl

/-- every state reachable from `Lfo::new` by calls that do not panic is well-formed -/
theorem reach_wf (sr : F32) (ops : List C10.Op) (s : Src.lfo.Lfo)
    (hrun : (Src.lfo.Lfo.new sr).bind (Tie.Lfo.run · ops) = some s) : Tie.Lfo.WF s := by
  obtain ⟨s0, h0, hwf0, _⟩ := Tie.Lfo.new_tie sr
  rw [h0, Option.bind_some] at hrun
  exact (Tie.Lfo.run_tie ops s0 hwf0).2 s hrun

/-! ## C10 — shapes -/

/-- all five shapes are read without a panic, finite and in `[-1, 1]` -/
theorem c10_range (s : Src.lfo.Lfo) (h : Tie.Lfo.WF s) (w : Src.lfo.Waveshape) :
    ∃ y, Src.lfo.Lfo.get s w = some y ∧ y.isFin = true ∧ -1 ≤ y.val ∧ y.val ≤ 1 :=
  ⟨_, Tie.Lfo.get_tie s h w, C10.shapes_in_range _ (Tie.Lfo.ok_of_wf s h) _⟩

/-- up-saw = 2·phase − 1 exactly; down-saw is its exact negation -/
theorem c10_saws (s : Src.lfo.Lfo) (h : Tie.Lfo.WF s) :
    ∃ u d, Src.lfo.Lfo.get s .UpSaw = some u ∧ Src.lfo.Lfo.get s .DownSaw = some d ∧
      u.val = 2 * ph s - 1 ∧ d = neg u := by
  refine ⟨_, _, Tie.Lfo.get_tie s h .UpSaw, Tie.Lfo.get_tie s h .DownSaw, ?_, ?_⟩
  · exact (C10.upSaw_exact _ (Tie.Lfo.ok_of_wf s h)).2
  · exact C10.downSaw_neg _

/-- square: +1 in the first half cycle, −1 in the second -/
theorem c10_square (s : Src.lfo.Lfo) (h : Tie.Lfo.WF s) :
    Src.lfo.Lfo.get s .Square =
      some (if s.phase_accumulator.accumulator < 2 ^ 23 then one else .fin (-1) false) := by
  rw [Tie.Lfo.get_tie s h .Square]
  exact congrArg some (C10.square_spec _ (Tie.Lfo.ok_of_wf s h))

/-- triangle: the exact piecewise-linear wave, 0 at phase 0, +1 at 1/4, −1 at 3/4 -/
theorem c10_triangle (s : Src.lfo.Lfo) (h : Tie.Lfo.WF s) :
    ∃ t, Src.lfo.Lfo.get s .Triangle = some t ∧ t.isFin = true ∧
      t.val = (if s.phase_accumulator.accumulator < 2 ^ 22 then 4 * ph s
               else if s.phase_accumulator.accumulator < 3 * 2 ^ 22 then 2 - 4 * ph s else 4 * ph s - 4) :=
  ⟨_, Tie.Lfo.get_tie s h .Triangle, C10.triangle_exact _ (Tie.Lfo.ok_of_wf s h)⟩

/-- sine: within 0.0093 (< two table steps, 0.0125) of sin(2π·phase) -/
theorem c10_sine (s : Src.lfo.Lfo) (h : Tie.Lfo.WF s) :
    ∃ y, Src.lfo.Lfo.get s .Sine = some y ∧
      |((y.val : ℚ) : ℝ) - Real.sin (2 * Real.pi * ((s.phase_accumulator.accumulator : ℝ) / 2 ^ 24))| ≤ 93 / 10 ^ 4 :=
  ⟨_, Tie.Lfo.get_tie s h .Sine, C10.Sine.sine_close _ (Tie.Lfo.ok_of_wf s h)⟩

/-- reading a shape returns no state: `get` is a function of the struct alone (its translated type says so) -/
example (s : Src.lfo.Lfo) (w : Src.lfo.Waveshape) : Option F32 := Src.lfo.Lfo.get s w

/-! ## C11 — phase advance -/

theorem c11_reset (s : Src.lfo.Lfo) (h : Tie.Lfo.WF s) :
    ∃ s', Src.lfo.Lfo.reset s = some s' ∧ s'.phase_accumulator.accumulator = 0 := by
  obtain ⟨s', e, _, ha⟩ := Tie.Lfo.reset_tie s h
  refine ⟨s', e, ?_⟩
  have := C11.reset_zero (Tie.Lfo.abs s)
  rw [← ha] at this; exact this

/-- `set_frequency` never moves the phase -/
theorem c11_set_frequency_keeps_phase (s : Src.lfo.Lfo) (h : Tie.Lfo.WF s) (f : F32) :
    ∃ s', Src.lfo.Lfo.set_frequency s f = some s' ∧
      s'.phase_accumulator.accumulator = s.phase_accumulator.accumulator := by
  obtain ⟨s', e, _, ha⟩ := Tie.Lfo.set_frequency_tie s h f
  refine ⟨s', e, ?_⟩
  have := C11.setFrequency_keeps_phase (Tie.Lfo.abs s) f
  rw [← ha] at this; exact this

/-- a tick adds the increment modulo 2^24 and keeps the increment -/
theorem c11_tick {s s' : Src.lfo.Lfo} (h : Tie.Lfo.WF s) (e : Src.lfo.Lfo.tick s = some s') :
    s'.phase_accumulator.accumulator =
      (s.phase_accumulator.accumulator + s.phase_accumulator.increment) % 2 ^ 24 ∧
    s'.phase_accumulator.increment = s.phase_accumulator.increment := by
  obtain ⟨hmap, _⟩ := Tie.Lfo.tick_tie s h
  rw [e] at hmap
  obtain ⟨t1, t2⟩ := C11.tick_advance _ _ hmap.symm
  rw [(Tie.Lfo.ok_of_wf s h).tb] at t1
  exact ⟨t1, t2⟩

/-- `set_phase(p)`, finite `p ≥ 0`: the counter is within 2.5 counts of `2^24 · frac p` -/
theorem c11_set_phase (s : Src.lfo.Lfo) (h : Tie.Lfo.WF s) (a : ℚ) (na : Bool) (ha : 0 ≤ a) :
    ∃ s', Src.lfo.Lfo.set_phase s (.fin a na) = some s' ∧
      (s'.phase_accumulator.accumulator : ℚ) ≤ 2 ^ 24 * C11.frac a + 1 / 2 ∧
      2 ^ 24 * C11.frac a - 5 / 2 < (s'.phase_accumulator.accumulator : ℚ) := by
  obtain ⟨s', e, _, hab⟩ := Tie.Lfo.set_phase_tie s h (.fin a na)
  refine ⟨s', e, ?_⟩
  have := C11.setPhase_close (Tie.Lfo.abs s) (Tie.Lfo.ok_of_wf s h) a na ha
  simp only at this
  rw [← hab] at this
  exact this

/-- the increment `set_frequency(φ)` computes, `0 ≤ φ ≤ sample rate`: at most one f32 rounding too large, at most that
plus one count too small -/
theorem c11_increment (s : Src.lfo.Lfo) (h : Tie.Lfo.WF s) (φ σ : ℚ) (nf ns : Bool)
    (hsr : s.phase_accumulator.sample_rate_hz = .fin σ ns)
    (hφ0 : 0 ≤ φ) (hφσ : φ ≤ σ) (hσ : 0 < σ) (hσ' : σ ≤ 2 ^ (100:ℤ)) (hrep : Rep φ) :
    ∃ s', Src.lfo.Lfo.set_frequency s (.fin φ nf) = some s' ∧
      ((s'.phase_accumulator.increment : ℕ) : ℚ) ≤ (2 ^ 24 * φ / σ) * (1 + 2 ^ (-24:ℤ)) + 2 ^ (-150:ℤ) ∧
      (2 ^ 24 * φ / σ) * (1 - 2 ^ (-24:ℤ)) - 2 ^ (-150:ℤ) - 1 < ((s'.phase_accumulator.increment : ℕ) : ℚ) := by
  obtain ⟨s', e, _, hab⟩ := Tie.Lfo.set_frequency_tie s h (.fin φ nf)
  refine ⟨s', e, ?_⟩
  have := C11.increment_bounds (Tie.Lfo.abs s) (Tie.Lfo.ok_of_wf s h) φ σ nf ns hsr hφ0 hφσ hσ hσ' hrep
  simp only at this
  rw [← hab] at this
  exact this

/-! ## C12 — continuity, including the wrap -/

/-- between consecutive ticks the triangle moves by at most 4 × the phase step and the sine by at most
`1024·D = 6.2956 < 2π·1.002` × the phase step plus two ulps, at every phase including the step across the wrap -/
theorem c12_steps {s s' : Src.lfo.Lfo} (h : Tie.Lfo.WF s) (e : Src.lfo.Lfo.tick s = some s') :
    ∃ t t' y y', Src.lfo.Lfo.get s .Triangle = some t ∧ Src.lfo.Lfo.get s' .Triangle = some t' ∧
      Src.lfo.Lfo.get s .Sine = some y ∧ Src.lfo.Lfo.get s' .Sine = some y' ∧
      |t'.val - t.val| ≤ 4 * (s.phase_accumulator.increment : ℚ) / 2 ^ 24 ∧
      |y'.val - y.val| ≤ (1024 * C12.D) * (s.phase_accumulator.increment : ℚ) / 2 ^ 24 + (2 ^ (-23:ℤ) + 2 ^ (-29:ℤ)) := by
  obtain ⟨hmap, hw⟩ := Tie.Lfo.tick_tie s h
  have h' := hw s' e
  rw [e] at hmap
  have ok := Tie.Lfo.ok_of_wf s h
  have ok' := Tie.Lfo.ok_of_wf s' h'
  have mv := C12.tick_moves _ _ ok hmap.symm
  exact ⟨_, _, _, _, Tie.Lfo.get_tie s h .Triangle, Tie.Lfo.get_tie s' h' .Triangle, Tie.Lfo.get_tie s h .Sine,
    Tie.Lfo.get_tie s' h' .Sine, C12.triangle_step _ _ ok ok' _ mv, C12.sine_step _ _ ok ok' _ mv⟩

/-! ## C17 — no panic -/

/-- `tick` returns whenever the increment is below 2^31 (it is at most 2^24·(1+2^-24)+1 for a frequency in
`[0, sample rate]`, `c11_increment`) -/
theorem c17_tick_total (s : Src.lfo.Lfo) (h : Tie.Lfo.WF s) (hinc : s.phase_accumulator.increment < 2 ^ 31) :
    ∃ s', Src.lfo.Lfo.tick s = some s' := by
  obtain ⟨l', hl, _⟩ := C17.lfo_tick_ok (Tie.Lfo.abs s) (Tie.Lfo.ok_of_wf s h) hinc
  obtain ⟨hmap, _⟩ := Tie.Lfo.tick_tie s h
  cases ht : Src.lfo.Lfo.tick s with
  | none => rw [ht, hl] at hmap; simp at hmap
  | some s' => exact ⟨s', rfl⟩

/-- **every history with in-range arguments returns**: from `Lfo::new(σ)`, any interleaving of `tick`, `reset`,
`set_phase(p)` (any f32) and `set_frequency(φ)`, `0 ≤ φ ≤ σ`, runs on the source without a panic -/
theorem c17_history (σ : ℚ) (ns : Bool) (hσ : 0 < σ) (hσ' : σ ≤ 2 ^ (100:ℤ)) (ops : List C10.Op)
    (hw : ∀ o ∈ ops, C17.lfoOpWf σ o) :
    ∃ s', (Src.lfo.Lfo.new (.fin σ ns)).bind (Tie.Lfo.run · ops) = some s' ∧ Tie.Lfo.WF s' := by
  obtain ⟨l', hl, _⟩ := C17.lfo_ok σ ns hσ hσ' ops hw
  obtain ⟨s0, h0, hwf0, habs0⟩ := Tie.Lfo.new_tie (.fin σ ns)
  obtain ⟨hmap, hwf⟩ := Tie.Lfo.run_tie ops s0 hwf0
  rw [habs0, hl] at hmap
  rw [h0, Option.bind_some]
  cases hr : Tie.Lfo.run s0 ops with
  | none => rw [hr] at hmap; simp at hmap
  | some s' => exact ⟨s', rfl, hwf s' hr⟩

/-- **no drift**: `n` ticks with no call in between move the counter by exactly `n · increment` modulo 2^24 -/
theorem c11_ticks (n : ℕ) (s s' : Src.lfo.Lfo) (h : Tie.Lfo.WF s)
    (hr : Tie.Lfo.run s (List.replicate n .tick) = some s') :
    s'.phase_accumulator.accumulator =
      (s.phase_accumulator.accumulator + n * s.phase_accumulator.increment) % 2 ^ 24 := by
  obtain ⟨hmap, _⟩ := Tie.Lfo.run_tie (List.replicate n .tick) s h
  rw [hr] at hmap
  exact (C11.ticks_advance n _ _ (Tie.Lfo.ok_of_wf s h) hmap.symm).1

end Tie.TransferLfo
