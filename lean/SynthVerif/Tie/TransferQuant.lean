import SynthVerif.Tie.QuantRun
import SynthVerif.Tie.QuantSearch
import SynthVerif.Props.C07
import SynthVerif.Props.C08
import SynthVerif.Props.C08Volts
import SynthVerif.Props.C09
import SynthVerif.Props.C09Ramp
import SynthVerif.Props.C09Noise
import SynthVerif.Props.C19
import SynthVerif.Props.C19Bounds
import SynthVerif.Props.C20
/-!
# Tie 1d, end to end, `quantizer.rs`: C07, C08, C09, C19, C20 restated for the *translated source*

`Src.quantizer.Quantizer.convert` is total on every struct value (`Tie.Transfer.quant_src_convert_total`) and equals the
model's `convert` (`Tie.Quant.convert_tie` over `Tie.Quant.search_tie`), so no well-formedness predicate is needed for a
single call; histories use `Tie.Quant.runSrc` (the op type with raw `u8` note arguments going through `Note::new`).
-/
open F32 Rs
namespace Tie.TransferQuant
open Src.quantizer

/-- one `convert` call on the source is `convert` of the model on the abstracted state -/
theorem convert_sim (s : Src.quantizer.Quantizer) (v : F32) :
    ∃ s' c, Src.quantizer.Quantizer.convert s v = some (s', c) ∧
      Tie.Quant.abs s' = ((Tie.Quant.abs s).convert v).1 ∧ Tie.Quant.absConv c = ((Tie.Quant.abs s).convert v).2 := by
  have ht := Tie.Quant.convert_tie Tie.Quant.search_tie s v
  cases hc : Src.quantizer.Quantizer.convert s v with
  | none => rw [hc] at ht; simp at ht
  | some r =>
    obtain ⟨s', c⟩ := r
    rw [hc] at ht
    simp only [Option.map_some, Option.some.injEq] at ht
    exact ⟨s', c, rfl, congrArg Prod.fst ht, congrArg Prod.snd ht⟩

/-- "no conversion yet": the cached record is the one `Quantizer::new` installs -/
def Fresh (s : Src.quantizer.Quantizer) : Prop :=
  (Tie.Quant.abs s).cached = _root_.Quantizer.new.cached

theorem abs_fresh {s : Src.quantizer.Quantizer} (h : Fresh s) :
    Tie.Quant.abs s = { _root_.Quantizer.new with allowed := s.allowed } := by
  unfold Fresh at h
  cases hs : Tie.Quant.abs s with
  | mk c a =>
    rw [hs] at h
    simp only at h
    subst h
    have : a = s.allowed := by
      have := congrArg _root_.Quantizer.allowed hs; simpa [Tie.Quant.abs] using this.symm
    rw [this]

/-- non-vacuity: `Quantizer::new()` is `Fresh`, has an allowed note and a well-formed cache -/
example : ∃ s, Src.quantizer.Quantizer.new = some s ∧ Fresh s ∧ C19.CacheOk (Tie.Quant.abs s) ∧ s.allowed = 4095 := by
  have h := Tie.Quant.new_tie
  cases hn : Src.quantizer.Quantizer.new with
  | none => rw [hn] at h; simp at h
  | some s0 =>
    rw [hn] at h; simp only [Option.map_some, Option.some.injEq] at h
    refine ⟨s0, rfl, ?_, ?_, ?_⟩
    · unfold Fresh; rw [h]
    · left; rw [h]
    · have := congrArg _root_.Quantizer.allowed h
      simpa [Tie.Quant.abs, _root_.Quantizer.new] using this

/-! ## C08 — nearest allowed note in every octave -/

/-- a quantizer without history reports the history-free conversion, whose note is `Pick` over *all* allowed notes
0..131 of the µV value of the clamped input: the allowed note at or less than one semitone below it, else a nearest one -/
theorem c08_fresh_is_pick (s : Src.quantizer.Quantizer) (hf : Fresh s)
    (ha : ∃ n, n < 12 ∧ _root_.Quantizer.bit s.allowed n = true) (v : F32) :
    ∃ s' c r, Src.quantizer.Quantizer.convert s v = some (s', c) ∧
      Tie.Quant.absConv c = _root_.Quantizer.convertFresh s.allowed v ∧
      _root_.Quantizer.Pick (C08.globalCands s.allowed) (_root_.Quantizer.toMicrovolts (fmin (fmax v zero) _root_.Quantizer.vMax)) r ∧
      c.note_num = (r / Gen.halfStepUv) % 256 := by
  obtain ⟨s', c, e, _, hc⟩ := convert_sim s v
  rw [abs_fresh hf, C09.history_free] at hc
  have hv := C07.microvolts_le v
  have hp := C08.search_is_pick s.allowed _ ha hv
  refine ⟨s', c, _, e, hc, C08.local_to_global s.allowed _ _ ha hv hp, ?_⟩
  have : c.note_num = (_root_.Quantizer.convertFresh s.allowed v).note := by rw [← hc]; rfl
  rw [this]; rfl

/-- consequently the note never decreases as the input rises (history-free quantizers, inputs in `[0, 10]` V) -/
theorem c08_fresh_monotone (s t : Src.quantizer.Quantizer) (hs : Fresh s) (ht : Fresh t) (hst : s.allowed = t.allowed)
    (ha : ∃ n, n < 12 ∧ _root_.Quantizer.bit s.allowed n = true)
    (q q' : ℚ) (nz nz' : Bool) (h0 : 0 ≤ q) (hqq : q ≤ q') (h10 : q' ≤ 10) :
    ∃ s' c t' c', Src.quantizer.Quantizer.convert s (.fin q nz) = some (s', c) ∧
      Src.quantizer.Quantizer.convert t (.fin q' nz') = some (t', c') ∧ c.note_num ≤ c'.note_num := by
  obtain ⟨s', c, e, _, hc⟩ := convert_sim s (.fin q nz)
  obtain ⟨t', c', e', _, hc'⟩ := convert_sim t (.fin q' nz')
  rw [abs_fresh hs, C09.history_free] at hc
  rw [abs_fresh ht, C09.history_free, ← hst] at hc'
  refine ⟨s', c, t', c', e, e', ?_⟩
  have := C08.convertFresh_monotone s.allowed ha q q' nz nz' h0 hqq h10
  rw [← hc, ← hc'] at this
  exact this

/-- **C08 in volts, on the source**: a history-free conversion of `v ∈ [0, 10]` V reports the note of an allowed position `r` (µV)
that obeys the two regimes of `C08.pick_real` around `10^6·v`: an allowed note clearly within a semitone ⇒ the lowest such; all
allowed notes clearly farther ⇒ a nearest one up to 3 µV -/
theorem c08_volts (s : Src.quantizer.Quantizer) (hf : Fresh s)
    (ha : ∃ n, n < 12 ∧ _root_.Quantizer.bit s.allowed n = true) (q : ℚ) (nz : Bool) (h0 : 0 ≤ q) (h10 : q ≤ 10) :
    ∃ s' c, Src.quantizer.Quantizer.convert s (.fin q nz) = some (s', c) ∧
      ∃ r : ℕ, c.note_num = (r / Gen.halfStepUv) % 256 ∧ r ∈ C08.globalCands s.allowed ∧
        ((∃ k ∈ C08.globalCands s.allowed, |(k:ℚ) - q * 1000000| < 83333 - 2) →
          |(r:ℚ) - q * 1000000| < 83333 + 2 ∧
          ∀ k ∈ C08.globalCands s.allowed, k < r → (83333:ℚ) - 2 ≤ |(k:ℚ) - q * 1000000|) ∧
        ((∀ k ∈ C08.globalCands s.allowed, (83333:ℚ) + 2 ≤ |(k:ℚ) - q * 1000000|) →
          ∀ k ∈ C08.globalCands s.allowed, |(r:ℚ) - q * 1000000| ≤ |(k:ℚ) - q * 1000000| + 3) := by
  obtain ⟨s', c, e, _, hc⟩ := convert_sim s (.fin q nz)
  rw [abs_fresh hf, C09.history_free] at hc
  obtain ⟨r, hn, hr, p2, p3⟩ := C08.volts_rule s.allowed ha q nz h0 h10
  refine ⟨s', c, e, r, ?_, hr, p2, p3⟩
  rw [← hn, ← hc]; rfl

/-! ## C09 — hysteresis -/

/-- inside the widened bucket of a still-allowed cached note the note is kept; in every other case the result is exactly
the history-free conversion -/
theorem c09_cases (s : Src.quantizer.Quantizer) (v : F32) :
    ∃ s' c, Src.quantizer.Quantizer.convert s v = some (s', c) ∧
      (C09.keeps (Tie.Quant.abs s) v = true → c.note_num = s.cached_conversion.note_num ∧
        c.stairstep = s.cached_conversion.stairstep ∧ c.fraction = sub v s.cached_conversion.stairstep) ∧
      (C09.keeps (Tie.Quant.abs s) v = false → Tie.Quant.absConv c = _root_.Quantizer.convertFresh s.allowed v) ∧
      s'.cached_conversion = c ∧ s'.allowed = s.allowed := by
  obtain ⟨s', c, e, hs', hc⟩ := convert_sim s v
  obtain ⟨k1, k2, k3, k4⟩ := C09.convert_cases (Tie.Quant.abs s) v
  refine ⟨s', c, e, fun hk => ?_, fun hk => ?_, ?_, ?_⟩
  · obtain ⟨a, _⟩ := k1 hk
    rw [← hc] at a
    have a1 := congrArg _root_.Conversion.note a
    have a2 := congrArg _root_.Conversion.stairstep a
    have a3 := congrArg _root_.Conversion.fraction a
    exact ⟨a1, a2, a3⟩
  · rw [hc]; exact k2 hk
  · rw [← hs', ← hc] at k3
    cases s' with
    | mk cc al =>
      cases cc; cases c
      simp only [Tie.Quant.abs, Tie.Quant.absConv, _root_.Conversion.mk.injEq] at k3
      obtain ⟨x1, x2, x3⟩ := k3
      simp only [Src.quantizer.Conversion.mk.injEq]
      exact ⟨x1, x2, x3⟩
  · rw [← hs'] at k4; exact k4

/-- the notes reported for a list of inputs by the translated source, starting from `s` -/
def notes (s : Src.quantizer.Quantizer) : List F32 → Option (List Nat)
  | [] => some []
  | v :: vs => do
    let r ← Src.quantizer.Quantizer.convert s v
    let rest ← notes r.1 vs
    pure (r.2.note_num :: rest)

theorem notes_sim (vs : List F32) (s : Src.quantizer.Quantizer) :
    notes s vs = some (C09.notes (Tie.Quant.abs s) vs) := by
  induction vs generalizing s with
  | nil => rfl
  | cons v vs ih =>
    obtain ⟨s', c, e, hs', hc⟩ := convert_sim s v
    simp only [notes, e, bind, Option.bind, ih s', pure, C09.notes]
    rw [hs']
    have : c.note_num = ((Tie.Quant.abs s).convert v).2.note := by rw [← hc]; rfl
    rw [this]

/-- fixed scale, any state with a well-formed cache, non-decreasing inputs in `[0, 10]` V: non-decreasing notes -/
theorem c09_ramp (s : Src.quantizer.Quantizer) (hc : C19.CacheOk (Tie.Quant.abs s))
    (ha : ∃ n, n < 12 ∧ _root_.Quantizer.bit s.allowed n = true) (vs : List F32) (hr : C09.Ramp 0 vs) :
    ∃ ns, notes s vs = some ns ∧ List.Pairwise (· ≤ ·) ns :=
  ⟨_, notes_sim vs s, C09.ramp_monotone_any (Tie.Quant.abs s) hc ha vs hr⟩

/-- chromatic scale, noise smaller than the hysteresis width around a boundary `n/12` V: one note throughout -/
theorem c09_noise (s : Src.quantizer.Quantizer) (hall : s.allowed = 4095) (hc : C19.CacheOk (Tie.Quant.abs s))
    (n : ℕ) (hn1 : 1 ≤ n) (hn : n ≤ 119) (vs : List F32) (hb : C09.Band n vs) :
    ∃ ns m, notes s vs = some ns ∧ ∀ k ∈ ns, k = m := by
  obtain ⟨m, hm⟩ := C09.noise_stable (Tie.Quant.abs s) hall hc n hn1 hn vs hb
  exact ⟨_, m, notes_sim vs s, hm⟩

/-! ## C19 — the record is self-consistent -/

/-- one conversion from a state with a well-formed cache: `stairstep = fl(note / 12)`, note ≤ 131, cache stays well-formed -/
theorem c19_stairstep (s : Src.quantizer.Quantizer) (hq : C19.CacheOk (Tie.Quant.abs s))
    (ha : ∃ n, n < 12 ∧ _root_.Quantizer.bit s.allowed n = true) (v : F32) :
    ∃ s' c, Src.quantizer.Quantizer.convert s v = some (s', c) ∧
      c.stairstep = div (ofNat c.note_num) _root_.Quantizer.notesPerOctave ∧ c.note_num ≤ 131 ∧
      C19.CacheOk (Tie.Quant.abs s') := by
  obtain ⟨s', c, e, hs', hc⟩ := convert_sim s v
  obtain ⟨o1, o2, o3⟩ := C19.convert_ok (Tie.Quant.abs s) hq ha v
  rw [← hc] at o1 o2
  rw [← hs'] at o3
  exact ⟨s', c, e, o1, o2, o3⟩

/-- history-free chromatic conversion of an input in `[0, 10]` V: fraction within 6 µV of `[0, 1 semitone)`
(the lower end is finding K1: the fraction can be negative by up to 4 µV) -/
theorem c19_chromatic_fraction (s : Src.quantizer.Quantizer) (hf : Fresh s) (hall : s.allowed = 4095)
    (q : ℚ) (nz : Bool) (h0 : 0 ≤ q) (h10 : q ≤ 10) :
    ∃ s' c, Src.quantizer.Quantizer.convert s (.fin q nz) = some (s', c) ∧
      -(6 / 1000000) ≤ c.fraction.val ∧ c.fraction.val ≤ 1 / 12 + 3 / 1000000 := by
  obtain ⟨s', c, e, _, hc⟩ := convert_sim s (.fin q nz)
  rw [abs_fresh hf, C09.history_free, hall] at hc
  have := C19.chromatic_fraction_bounds q nz h0 h10
  rw [← hc] at this
  exact ⟨s', c, e, this⟩

/-! ## C07 / C20 — scale edits -/

/-- `Note::new(n)` and `Note::from(n)` act as `min n 11` for every `u8` -/
theorem c20_note_clamp (n : Nat) :
    Note.new n = some ⟨min n 11⟩ ∧ Note.from_u8 n = some ⟨min n 11⟩ := by
  rw [Tie.Quant.note_new_tie, Tie.Quant.note_from_tie, C20.noteNew_clamp]
  exact ⟨rfl, rfl⟩

/-- every history of `allow / forbid / convert` calls from `Quantizer::new` runs without a panic (non-empty `forbid`
lists) and every conversion it reports has an allowed pitch class at the time of the call -/
theorem c07_history (ops : List Tie.Quant.Op) :
    ((Src.quantizer.Quantizer.new).bind (Tie.Quant.runSrc · ops)).map (fun r => (Tie.Quant.abs r.1, r.2.map Tie.Quant.absConv)) =
      Tie.Quant.runModel _root_.Quantizer.new ops := Tie.Quant.new_run_tie ops

end Tie.TransferQuant
