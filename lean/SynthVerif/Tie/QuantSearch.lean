import SynthVerif.Tie.Quant
/-!
# Tie 1d: the nearest-note search loop of `quantizer.rs` (`find_nearest_note`) refines `Quantizer.findNearest`

The Rust function is two nested `for` loops with three early `return`s over a `heapless::Vec` of at most three octaves.
The translation keeps that shape (`forIn` with `ForInStep.done`); the model is a `foldl` of `scanStep` over the candidate
list.  `forIn_fold` is the generic bridge: a loop whose body simulates one step of a fold that can "finish" computes
that fold.
-/
open F32 Rs
namespace Tie.Quant
open Src.quantizer

/-- a `for` loop with early exit, in the `Option` monad, computes the fold `g` it simulates -/
theorem forIn_fold {α σ τ : Type} (R : σ → τ → Prop) (fin : τ → Bool) (f : α → σ → Option (ForInStep σ))
    (g : τ → α → τ) (P : α → Prop)
    (hstep : ∀ x st t, P x → R st t → fin t = false →
      ∃ st', R st' (g t x) ∧ f x st = some (if fin (g t x) then .done st' else .yield st'))
    (hdone : ∀ t x, fin t = true → g t x = t) :
    ∀ (xs : List α) (st : σ) (t : τ), (∀ x ∈ xs, P x) → R st t → fin t = false →
      ∃ st', forIn xs st f = some st' ∧ R st' (xs.foldl g t) := by
  intro xs
  induction xs with
  | nil => intro st t _ hR _; exact ⟨st, rfl, hR⟩
  | cons x xs ih =>
    intro st t hP hR hf
    obtain ⟨st1, hR1, hf1⟩ := hstep x st t (hP x (by simp)) hR hf
    simp only [List.forIn_cons, hf1, List.foldl_cons, bind, Option.bind]
    cases hfin : fin (g t x)
    · simp only [Bool.false_eq_true, if_false]
      exact ih st1 (g t x) (fun y hy => hP y (by simp [hy])) hR1 hfin
    · simp only [if_true]
      refine ⟨st1, rfl, ?_⟩
      have : ∀ (ys : List α) , ys.foldl g (g t x) = g t x := by
        intro ys; induction ys with
        | nil => rfl
        | cons y ys ihy => rw [List.foldl_cons, hdone _ _ hfin, ihy]
      rw [this]; exact hR1

abbrev HALF : Nat := Gen.halfStepUv
abbrev OCT : Nat := Gen.oneOctaveUv

/-- loop state of the translated source vs. scan state of the model -/
def R (st : Option Nat × Nat × Nat) (sc : _root_.Quantizer.Scan) : Prop :=
  st.2.1 = sc.nearest ∧ st.2.2 = sc.smallest ∧ st.1 = sc.done.map (fun r => (r / HALF) % 256)

def fin (sc : _root_.Quantizer.Scan) : Bool := sc.done.isSome

/-- one note of the inner loop, in model terms -/
def gIn (allowed vin octave : Nat) (sc : _root_.Quantizer.Scan) (n : Nat) : _root_.Quantizer.Scan :=
  if (allowed >>> n) % 2 == 1 then _root_.Quantizer.scanStep vin sc (n * HALF + octave * OCT) else sc

theorem scanStep_done (vin : Nat) (sc : _root_.Quantizer.Scan) (c : Nat) (h : fin sc = true) :
    _root_.Quantizer.scanStep vin sc c = sc := by
  unfold fin at h
  cases hd : sc.done with
  | none => rw [hd] at h; cases h
  | some r => simp [_root_.Quantizer.scanStep, hd]

theorem gIn_done (allowed vin octave : Nat) (sc : _root_.Quantizer.Scan) (n : Nat) (h : fin sc = true) :
    gIn allowed vin octave sc n = sc := by
  unfold gIn; split
  · exact scanStep_done _ _ _ h
  · rfl

/-- the body of the inner `for n in 0..12` loop simulates `gIn` -/
theorem inner_step (allowed vin octave : Nat) (ho : octave ≤ 4294) (n : Nat) (st : Option Nat × Nat × Nat)
    (t : _root_.Quantizer.Scan) (hn : n < 12) (hR : R st t) (hf : fin t = false) :
    ∃ st', R st' (gIn allowed vin octave t n) ∧
      ((ushr 16 allowed n).bind fun t4 =>
        if (t4 &&& 1 == 1) = true then
          (umul U32.bound n Src.quantizer.HALF_STEP_IN_MICROVOLTS).bind fun t5 =>
            (umul U32.bound octave Src.quantizer.ONE_OCTAVE_IN_MICROVOLTS).bind fun t6 =>
              (uadd U32.bound t5 t6).bind fun t7 =>
                (Src.quantizer.delta vin t7).bind fun t8 =>
                  if decide (t8 < Src.quantizer.HALF_STEP_IN_MICROVOLTS) = true then
                    (udiv t7 Src.quantizer.HALF_STEP_IN_MICROVOLTS).bind fun t9 =>
                      some (ForInStep.done (some (ucast 8 t9), st.snd.fst, st.snd.snd))
                  else
                    if decide (st.snd.snd < t8) = true then
                      (udiv st.snd.fst Src.quantizer.HALF_STEP_IN_MICROVOLTS).bind fun t9 =>
                        some (ForInStep.done (some (ucast 8 t9), st.snd.fst, st.snd.snd))
                    else
                      if decide (t8 < st.snd.snd) = true then some (ForInStep.yield (none, t7, t8))
                      else some (ForInStep.yield (none, st.snd.fst, st.snd.snd))
        else some (ForInStep.yield (none, st.snd.fst, st.snd.snd))) =
      some (if fin (gIn allowed vin octave t n) then ForInStep.done st' else ForInStep.yield st') := by
  obtain ⟨so, nr, sm⟩ := st
  obtain ⟨hnr, hsm, hso⟩ := hR
  simp only at hnr hsm hso
  have hdone : t.done = none := by
    unfold fin at hf; cases hd : t.done with
    | none => rfl
    | some r => rw [hd] at hf; cases hf
  have hso' : so = none := by rw [hso, hdone]; rfl
  subst hso'
  have h16 : n < 16 := by omega
  have hshr : ushr 16 allowed n = some (allowed >>> n) := by simp [ushr, h16]
  have hH : Src.quantizer.HALF_STEP_IN_MICROVOLTS = 83333 := by decide
  have hO : Src.quantizer.ONE_OCTAVE_IN_MICROVOLTS = 1000000 := by decide
  have hH' : HALF = 83333 := by decide
  have hO' : OCT = 1000000 := by decide
  have hm1 : umul U32.bound n 83333 = some (n * 83333) := umul_ok (by simp only [U32.bound]; omega)
  have hm2 : umul U32.bound octave 1000000 = some (octave * 1000000) := umul_ok (by simp only [U32.bound]; omega)
  have ha : uadd U32.bound (n * 83333) (octave * 1000000) = some (n * 83333 + octave * 1000000) :=
    uadd_ok (by simp only [U32.bound]; omega)
  have hdv : ∀ x, udiv x 83333 = some (x / 83333) := fun x => udiv_ok (by decide)
  simp only [hshr, Option.bind_some, hH, hO, hm1, hm2, ha, delta_tie, hdv, Nat.and_one_is_mod, ucast]
  unfold gIn
  by_cases hen : ((allowed >>> n) % 2 == 1) = true
  · simp only [hen, if_true, hH', hO']
    unfold _root_.Quantizer.scanStep
    simp only [hdone]
    have hG : Gen.halfStepUv = 83333 := by decide
    simp only [hG]
    by_cases h1 : _root_.Quantizer.delta vin (n * 83333 + octave * 1000000) < 83333
    · simp only [h1, decide_true, if_true]
      exact ⟨(some ((n * 83333 + octave * 1000000) / 83333 % 256), nr, sm), ⟨hnr, hsm, by simp [hH']⟩, by simp [fin]⟩
    · simp only [h1, decide_false, Bool.false_eq_true, if_false]
      by_cases h2 : t.smallest < _root_.Quantizer.delta vin (n * 83333 + octave * 1000000)
      · have h2' : sm < _root_.Quantizer.delta vin (n * 83333 + octave * 1000000) := by rw [hsm]; exact h2
        simp only [h2, h2', decide_true, if_true]
        exact ⟨(some (nr / 83333 % 256), nr, sm), ⟨hnr, hsm, by simp [hH', hnr]⟩, by simp [fin]⟩
      · have h2' : ¬ sm < _root_.Quantizer.delta vin (n * 83333 + octave * 1000000) := by rw [hsm]; exact h2
        simp only [h2, h2', decide_false, Bool.false_eq_true, if_false]
        by_cases h3 : _root_.Quantizer.delta vin (n * 83333 + octave * 1000000) < t.smallest
        · have h3' : _root_.Quantizer.delta vin (n * 83333 + octave * 1000000) < sm := by rw [hsm]; exact h3
          simp only [h3, h3', decide_true, if_true]
          exact ⟨(none, n * 83333 + octave * 1000000, _root_.Quantizer.delta vin (n * 83333 + octave * 1000000)), ⟨rfl, rfl, by simp [hdone]⟩, by simp [fin, hdone]⟩
        · have h3' : ¬ _root_.Quantizer.delta vin (n * 83333 + octave * 1000000) < sm := by rw [hsm]; exact h3
          simp only [h3, h3', decide_false, Bool.false_eq_true, if_false]
          exact ⟨(none, nr, sm), ⟨hnr, hsm, by simp [hdone]⟩, by simp [fin, hdone]⟩
  · simp only [hen, Bool.false_eq_true, if_false]
    exact ⟨(none, nr, sm), ⟨hnr, hsm, by simp [hdone]⟩, by simp [fin, hdone]⟩

/-- the inner loop body as the translator emits it -/
def innerBody (allowed vin octave : Nat) (n : Nat) (st : Option Nat × Nat × Nat) : Option (ForInStep (Option Nat × Nat × Nat)) :=
  (ushr 16 allowed n).bind fun t4 =>
    if (t4 &&& 1 == 1) = true then
      (umul U32.bound n Src.quantizer.HALF_STEP_IN_MICROVOLTS).bind fun t5 =>
        (umul U32.bound octave Src.quantizer.ONE_OCTAVE_IN_MICROVOLTS).bind fun t6 =>
          (uadd U32.bound t5 t6).bind fun t7 =>
            (Src.quantizer.delta vin t7).bind fun t8 =>
              if decide (t8 < Src.quantizer.HALF_STEP_IN_MICROVOLTS) = true then
                (udiv t7 Src.quantizer.HALF_STEP_IN_MICROVOLTS).bind fun t9 =>
                  some (ForInStep.done (some (ucast 8 t9), st.snd.fst, st.snd.snd))
              else
                if decide (st.snd.snd < t8) = true then
                  (udiv st.snd.fst Src.quantizer.HALF_STEP_IN_MICROVOLTS).bind fun t9 =>
                    some (ForInStep.done (some (ucast 8 t9), st.snd.fst, st.snd.snd))
                else
                  if decide (t8 < st.snd.snd) = true then some (ForInStep.yield (none, t7, t8))
                  else some (ForInStep.yield (none, st.snd.fst, st.snd.snd))
    else some (ForInStep.yield (none, st.snd.fst, st.snd.snd))

/-- one octave of the model's scan -/
def gOut (allowed vin : Nat) (sc : _root_.Quantizer.Scan) (octave : Nat) : _root_.Quantizer.Scan :=
  (List.range 12).foldl (gIn allowed vin octave) sc

theorem inner_loop (allowed vin octave : Nat) (ho : octave ≤ 4294) (st : Option Nat × Nat × Nat)
    (t : _root_.Quantizer.Scan) (hR : R st t) (hf : fin t = false) :
    ∃ st', forIn (List.range 12) st (innerBody allowed vin octave) = some st' ∧ R st' (gOut allowed vin t octave) :=
  forIn_fold R fin (innerBody allowed vin octave) (gIn allowed vin octave) (· < 12)
    (fun n st t hn hR hf => inner_step allowed vin octave ho n st t hn hR hf)
    (fun t n h => gIn_done allowed vin octave t n h)
    (List.range 12) st t (fun x hx => List.mem_range.mp hx) hR hf

theorem gOut_done (allowed vin : Nat) (sc : _root_.Quantizer.Scan) (o : Nat) (h : fin sc = true) : gOut allowed vin sc o = sc := by
  unfold gOut
  generalize List.range 12 = l
  induction l with
  | nil => rfl
  | cons x xs ih => rw [List.foldl_cons, gIn_done _ _ _ _ _ h, ih]

abbrev LoopSt := Option Nat × Nat × Nat

/-- the outer loop body as the translator emits it; `k` is the `match` that turns an early `return` of the inner loop
into an exit of the outer one -/
def outerBody (allowed vin : Nat) (k : LoopSt → Option (ForInStep LoopSt)) (octave : Nat) (st : LoopSt) :
    Option (ForInStep LoopSt) :=
  (forIn (List.range 12) (none, st.snd.fst, st.snd.snd) (innerBody allowed vin octave)).bind k

structure KOk (k : LoopSt → Option (ForInStep LoopSt)) : Prop where
  onSome : ∀ r a b, k (Option.some r, a, b) = Option.some (ForInStep.done (Option.some r, a, b))
  onNone : ∀ a b, k (Option.none, a, b) = Option.some (ForInStep.yield (Option.none, a, b))

theorem outer_step (allowed vin : Nat) (k : LoopSt → Option (ForInStep LoopSt)) (hk : KOk k) (octave : Nat) (st : LoopSt)
    (t : _root_.Quantizer.Scan) (ho : octave ≤ 4294) (hR : R st t) (hf : fin t = false) :
    ∃ st', R st' (gOut allowed vin t octave) ∧
      outerBody allowed vin k octave st = some (if fin (gOut allowed vin t octave) then .done st' else .yield st') := by
  have hdone : t.done = none := by
    unfold fin at hf; cases hd : t.done with
    | none => rfl
    | some r => rw [hd] at hf; cases hf
  have hR0 : R (none, st.snd.fst, st.snd.snd) t := ⟨hR.1, hR.2.1, by simp [hdone]⟩
  obtain ⟨st1, h1, hR1⟩ := inner_loop allowed vin octave ho _ t hR0 hf
  obtain ⟨so, nr, sm⟩ := st1
  refine ⟨(so, nr, sm), hR1, ?_⟩
  unfold outerBody
  rw [h1, Option.bind_some]
  have hso : so = (gOut allowed vin t octave).done.map (fun r => (r / HALF) % 256) := hR1.2.2
  cases hd : (gOut allowed vin t octave).done with
  | none => rw [hd] at hso; subst hso; simp [fin, hd, hk.onNone]
  | some r => rw [hd] at hso; subst hso; simp [fin, hd, hk.onSome]

theorem outer_loop (allowed vin : Nat) (k : LoopSt → Option (ForInStep LoopSt)) (hk : KOk k) (os : List Nat)
    (hos : ∀ o ∈ os, o ≤ 4294) :
    ∃ st', forIn os (none, 0, 4294967295) (outerBody allowed vin k) = some st' ∧ R st' (os.foldl (gOut allowed vin) {}) :=
  forIn_fold R fin (outerBody allowed vin k) (gOut allowed vin) (· ≤ 4294)
    (fun o st t ho hR hf => outer_step allowed vin k hk o st t ho hR hf)
    (fun t o h => gOut_done allowed vin t o h)
    os (none, 0, 4294967295) {} hos ⟨rfl, rfl, rfl⟩ rfl

/-- the model's candidate fold, octave by octave -/
theorem foldl_cands (allowed vin : Nat) (sc : _root_.Quantizer.Scan) (o : Nat) :
    (_root_.Quantizer.octaveCands allowed o).foldl (_root_.Quantizer.scanStep vin) sc = gOut allowed vin sc o := by
  unfold _root_.Quantizer.octaveCands gOut
  generalize List.range 12 = l
  induction l generalizing sc with
  | nil => rfl
  | cons n ns ih =>
    simp only [List.filterMap_cons, List.foldl_cons, gIn]
    by_cases hen : ((allowed >>> n) % 2 == 1) = true
    · simp only [hen, if_true, List.foldl_cons]; exact ih _
    · simp only [hen, Bool.false_eq_true, if_false]; exact ih _

theorem model_fold (allowed vin : Nat) (os : List Nat) (sc : _root_.Quantizer.Scan) :
    (os.flatMap (_root_.Quantizer.octaveCands allowed)).foldl (_root_.Quantizer.scanStep vin) sc = os.foldl (gOut allowed vin) sc := by
  induction os generalizing sc with
  | nil => rfl
  | cons o os ih => simp only [List.flatMap_cons, List.foldl_append, List.foldl_cons, foldl_cands, ih]

theorem toU32_lt (x : F32) : F32.toU32 x < 2 ^ 32 := by
  cases x with
  | nan => decide
  | inf sgn => cases sgn <;> decide
  | fin q nz =>
    simp only [F32.toU32]
    split
    · decide
    · split
      · decide
      · omega

theorem hv3 (a b c : Nat) : hvPush 3 (hvPush 3 (hvPush 3 [] a) b) c = [a, b, c] := rfl
theorem hv2 (a b : Nat) : hvPush 3 (hvPush 3 [] a) b = [a, b] := rfl

theorem search_tie : SearchTie := by
  intro s v
  unfold Src.quantizer.Quantizer.find_nearest_note _root_.Quantizer.findNearest _root_.Quantizer.findNearestUv
    _root_.Quantizer.toMicrovolts
  simp only [bind, pure]
  have hO : Src.quantizer.ONE_OCTAVE_IN_MICROVOLTS = Gen.oneOctaveUv := const_octave
  have hvv : F32.toU32 (F32.mul v (F32.ofNat Gen.oneOctaveUv)) = F32.toU32 (F32.mul v (F32.ofNat Src.quantizer.ONE_OCTAVE_IN_MICROVOLTS)) := by
    rw [hO]
  rw [hvv]
  have hvin := toU32_lt (F32.mul v (F32.ofNat Src.quantizer.ONE_OCTAVE_IN_MICROVOLTS))
  generalize F32.toU32 (F32.mul v (F32.ofNat Src.quantizer.ONE_OCTAVE_IN_MICROVOLTS)) = vin at hvin ⊢
  have hG : Gen.oneOctaveUv = 1000000 := by decide
  have hdiv : udiv vin Src.quantizer.ONE_OCTAVE_IN_MICROVOLTS = some (vin / 1000000) := by
    have : Src.quantizer.ONE_OCTAVE_IN_MICROVOLTS = 1000000 := by decide
    rw [this]; exact udiv_ok (by decide)
  have ho : vin / 1000000 ≤ 4294 := by omega
  rw [hdiv, Option.bind_some]
  have hallowed : (abs s).allowed = s.allowed := rfl
  have hmax : Src.quantizer.MAX_OCTAVE = 10 := by decide
  have hmax' : Gen.maxOctave = 10 := by decide
  have hH : Src.quantizer.HALF_STEP_IN_MICROVOLTS = 83333 := by decide
  have hH' : Gen.halfStepUv = 83333 := by decide
  -- the result of a finished outer loop; `k`, `k2` are the two generated `match` continuations
  have finish : ∀ (k : LoopSt → Option (ForInStep LoopSt)) (k2 : LoopSt → Option Nat), KOk k →
      (∀ r a b, k2 (some r, a, b) = some r) →
      (∀ a b, k2 (none, a, b) = (udiv a Src.quantizer.HALF_STEP_IN_MICROVOLTS).bind fun t11 => some (ucast 8 t11)) →
      ∀ (os : List Nat), (∀ o ∈ os, o ≤ 4294) → os = _root_.Quantizer.octavesToSearch (vin / 1000000) →
      ((forIn os (none, 0, 4294967295) (outerBody s.allowed vin k)).bind k2) =
      some ((((_root_.Quantizer.octavesToSearch (vin / Gen.oneOctaveUv)).flatMap (_root_.Quantizer.octaveCands (abs s).allowed)).foldl
        (_root_.Quantizer.scanStep vin) {}).result / Gen.halfStepUv % 256) := by
    intro k k2 hk hk2s hk2n os hos heq
    obtain ⟨st', h1, hR⟩ := outer_loop s.allowed vin k hk os hos
    rw [h1, Option.bind_some, hallowed, hG, ← heq, model_fold]
    obtain ⟨so, nr, sm⟩ := st'
    obtain ⟨hnr, hsm, hso⟩ := hR
    simp only at hnr hsm hso
    cases hd : (os.foldl (gOut s.allowed vin) {}).done with
    | none =>
      rw [hd] at hso; subst hso
      rw [Option.map_none, hk2n]
      simp [hH, udiv_ok (show (83333 : Nat) ≠ 0 by decide), ucast, _root_.Quantizer.Scan.result, hd, hnr, hH']
    | some r =>
      rw [hd] at hso; subst hso
      rw [Option.map_some, hk2s]
      simp only [_root_.Quantizer.Scan.result, hd, hH']
  by_cases h1 : 1 ≤ vin / 1000000
  · have hsub : usub (vin / 1000000) 1 = some (vin / 1000000 - 1) := usub_ok h1
    simp only [h1, decide_true, if_true, hsub, Option.bind_some, hmax]
    by_cases h2 : vin / 1000000 < 10
    · have hadd : uadd U32.bound (vin / 1000000) 1 = some (vin / 1000000 + 1) := uadd_ok (by simp only [U32.bound]; omega)
      simp only [h2, decide_true, if_true, hadd, Option.bind_some, hv3]
      exact finish _ _ ⟨fun _ _ _ => rfl, fun _ _ => rfl⟩ (fun _ _ _ => rfl) (fun _ _ => rfl) [vin / 1000000 - 1, vin / 1000000, vin / 1000000 + 1]
        (by intro o ho'; simp at ho'; omega) (by simp [_root_.Quantizer.octavesToSearch, h1, h2, hmax'])
    · simp only [h2, decide_false, Bool.false_eq_true, if_false, hv2]
      exact finish _ _ ⟨fun _ _ _ => rfl, fun _ _ => rfl⟩ (fun _ _ _ => rfl) (fun _ _ => rfl) [vin / 1000000 - 1, vin / 1000000]
        (by intro o ho'; simp at ho'; omega) (by simp [_root_.Quantizer.octavesToSearch, h1, h2, hmax'])
  · simp only [h1, decide_false, Bool.false_eq_true, if_false, hmax]
    by_cases h2 : vin / 1000000 < 10
    · have hadd : uadd U32.bound (vin / 1000000) 1 = some (vin / 1000000 + 1) := uadd_ok (by simp only [U32.bound]; omega)
      simp only [h2, decide_true, if_true, hadd, Option.bind_some, hv2]
      exact finish _ _ ⟨fun _ _ _ => rfl, fun _ _ => rfl⟩ (fun _ _ _ => rfl) (fun _ _ => rfl) [vin / 1000000, vin / 1000000 + 1]
        (by intro o ho'; simp at ho'; omega) (by simp [_root_.Quantizer.octavesToSearch, h1, h2, hmax'])
    · exfalso; omega

end Tie.Quant
