import SynthVerif.Tie.RibbonRun
import SynthVerif.Props.C15
import SynthVerif.Props.C16
import SynthVerif.Props.C16Window
import SynthVerif.Props.C16History
import SynthVerif.Props.C16Bounds
/-!
# Tie 1d, end to end, `ribbon_controller.rs`: C16 restated for the *translated source*
(C15 is `Tie.Ribbon.src_refines` in `Tie/RibbonRun.lean`; the no-panic statement is `Tie.Transfer.ribbon_src_poll_total`.)

`C16.Ghost (abs s) all run` relates the Rust struct to two ghost lists: everything ever written to the buffer, and the
samples written during the current unbroken in-range run.
-/
open F32 Rs
namespace Tie.TransferRibbon
open Src.ribbon_controller

/-- a `poll` on the source is the `poll` of the model -/
theorem poll_sim {N : Nat} {s s' : RibbonController N} (h : Tie.Ribbon.WF s) {x : F32}
    (e : RibbonController.poll s x = some s') : (Tie.Ribbon.abs s).poll x = some (Tie.Ribbon.abs s') ∧ Tie.Ribbon.WF s' := by
  obtain ⟨hmap, hw⟩ := Tie.Ribbon.poll_tie s h x
  rw [e] at hmap
  exact ⟨hmap.symm, hw s' e⟩

/-- **the position is the corrected mean of the current press only.**  An in-range sample past the settling samples that
fills (or keeps full) the capture buffer makes `poll` store `corr(mean(w))`, `w` = the oldest `capacity − discard` of the last
`capacity` samples **of the current run**, and report a press. -/
theorem c16_recomputed {N : Nat} (s : RibbonController N) (hwf : Tie.Ribbon.WF s) (all run : List F32)
    (g : C16.Ghost (Tie.Ribbon.abs s) all run) (x : F32)
    (hin : lt x s.finger_press_high_boundary = true)
    (hign : s.num_to_ignore_up_front ≤ min (s.num_samples_received + 1) s.num_to_ignore_up_front)
    (hfull : min (s.num_samples_written + 1) s.buff.cap = s.buff.cap) (hd : s.num_to_discard_at_end ≤ s.buff.cap) :
    ∃ s', RibbonController.poll s x = some s' ∧ s'.finger_is_pressing = true ∧
      s'.current_val = C16.corr s.error_const
        (C16.mean ((C16.lastN s.buff.cap (run ++ [x])).take (s.buff.cap - s.num_to_discard_at_end))
          (s.buff.cap - s.num_to_discard_at_end)) ∧
      s'.finger_press_high_boundary = s.finger_press_high_boundary ∧
      C16.Ghost (Tie.Ribbon.abs s') (all ++ [x]) (run ++ [x]) := by
  obtain ⟨r', e, p1, p2, p3, p4⟩ := C16.recomputed_value (Tie.Ribbon.abs s) all run g x hin hign hfull hd
  obtain ⟨hmap, _⟩ := Tie.Ribbon.poll_tie s hwf x
  rw [e] at hmap
  cases hp : RibbonController.poll s x with
  | none => rw [hp] at hmap; simp at hmap
  | some s' =>
    rw [hp] at hmap
    simp only [Option.map_some, Option.some.injEq] at hmap
    subst hmap
    exact ⟨s', rfl, p1, p2, p3, p4⟩

/-- an out-of-range sample ends the run (the ghost run restarts empty) and leaves the stored position alone -/
theorem c16_out_of_range {N : Nat} (s : RibbonController N) (hwf : Tie.Ribbon.WF s) (all run : List F32)
    (g : C16.Ghost (Tie.Ribbon.abs s) all run) (x : F32) (hin : lt x s.finger_press_high_boundary = false) :
    ∃ s', RibbonController.poll s x = some s' ∧ C16.Ghost (Tie.Ribbon.abs s') all [] ∧ s'.current_val = s.current_val := by
  obtain ⟨r', e, p1, p2⟩ := C16.ghost_out (Tie.Ribbon.abs s) all run g x hin
  obtain ⟨hmap, _⟩ := Tie.Ribbon.poll_tie s hwf x
  rw [e] at hmap
  cases hp : RibbonController.poll s x with
  | none => rw [hp] at hmap; simp at hmap
  | some s' =>
    rw [hp] at hmap
    simp only [Option.map_some, Option.some.injEq] at hmap
    subst hmap
    exact ⟨s', rfl, p1, p2⟩

/-- **retention**: a poll that does not recompute the position (finger up, or capture not yet full) leaves `value()` unchanged -/
theorem c16_retained {N : Nat} {s s' : RibbonController N} (hwf : Tie.Ribbon.WF s) {x : F32}
    (e : RibbonController.poll s x = some s')
    (hno : s'.finger_is_pressing = false ∨ s'.num_samples_written < s'.buff.cap) :
    RibbonController.value s' = RibbonController.value s := by
  obtain ⟨m, _⟩ := poll_sim hwf e
  rw [Tie.Ribbon.value_tie, Tie.Ribbon.value_tie]
  exact congrArg some (C16.retained _ _ x m hno).2.2

/-- **`0 ≤ value() ≤ 1`** whenever the stored position is in `[0, 1]` (`C16.recomputed_range`: every recomputed position
is, for a pull-up at least as large as the divider) and the boundary is a positive normal number -/
theorem c16_value_range {N : Nat} (s : RibbonController N) (hc : s.current_val.isFin = true)
    (hb : s.finger_press_high_boundary.isFin = true) (c0 : 0 ≤ s.current_val.val) (c1 : s.current_val.val ≤ 1)
    (b0 : 2 ^ (-100:ℤ) ≤ s.finger_press_high_boundary.val) :
    ∃ v, RibbonController.value s = some v ∧ v.isFin = true ∧ 0 ≤ v.val ∧ v.val ≤ 1 :=
  ⟨_, Tie.Ribbon.value_tie s, C16.value_range (Tie.Ribbon.abs s) hc hb c0 c1 b0⟩

/-- a list of `poll` calls on the source -/
def pollsSrc {N : Nat} (s : RibbonController N) : List F32 → Option (RibbonController N)
  | [] => some s
  | x :: xs => match RibbonController.poll s x with
    | none => none
    | some s' => pollsSrc s' xs

/-- **C16 for every sample history on the translated source.**  From any state satisfying the history invariant (in particular
a freshly constructed controller with a helper-sized buffer, `C16.new_inv`), any list of samples — any `f32`s — is polled
without a panic, and at the end: if `finger_is_pressing`, then `current_val` is `corr(mean(w))` with `w` the oldest
`capacity − discard` of the last `capacity` samples written during the current unbroken in-range run. -/
theorem c16_history {N : Nat} (xs : List F32) (s : RibbonController N) (hwf : Tie.Ribbon.WF s) (all run : List F32)
    (h : C16.HInv (Tie.Ribbon.abs s) all run) :
    ∃ s' all' run', pollsSrc s xs = some s' ∧ Tie.Ribbon.WF s' ∧ C16.HInv (Tie.Ribbon.abs s') all' run' ∧
      (s'.finger_is_pressing = true →
        s'.current_val = C16.corr s'.error_const
          (C16.mean (C16.window (Tie.Ribbon.abs s') run') (s'.buff.cap - s'.num_to_discard_at_end))) := by
  induction xs generalizing s all run with
  | nil => exact ⟨s, all, run, rfl, hwf, h, fun hp => (h.press hp).2.2.2⟩
  | cons x xs ih =>
    obtain ⟨r1, e1, h1, _⟩ := C16.step (Tie.Ribbon.abs s) all run h x
    obtain ⟨hmap, hw⟩ := Tie.Ribbon.poll_tie s hwf x
    rw [e1] at hmap
    cases hp : RibbonController.poll s x with
    | none => rw [hp] at hmap; simp at hmap
    | some s1 =>
      rw [hp] at hmap
      simp only [Option.map_some, Option.some.injEq] at hmap
      subst hmap
      obtain ⟨s', all', run', e', w', i', c'⟩ := ih s1 (hw s1 hp) _ _ h1
      exact ⟨s', all', run', by simp only [pollsSrc, hp]; exact e', w', i', c'⟩

end Tie.TransferRibbon
