import SynthVerif.Gen.Src.lfo
import SynthVerif.Tie.PhaseAcc
import SynthVerif.Model.Lfo
/-!
# Tie 1d: `src/lfo.rs`, translated by `tools/rs2lean.py`, refines the hand model `SynthVerif/Model/Lfo.lean`
-/
open F32 Rs
namespace Tie.Lfo
open Src.lfo

theorem total_bits : Src.lfo.TOT_NUM_ACCUM_BITS = Gen.lfoTotalBits := by decide
theorem index_bits : Src.lfo.NUM_LUT_INDEX_BITS = Gen.lfoIndexBits := by decide
theorem total_bits' : Src.lfo.TOT_NUM_ACCUM_BITS = 24 := by decide
theorem index_bits' : Src.lfo.NUM_LUT_INDEX_BITS = 10 := by decide

def absShape : Src.lfo.Waveshape → _root_.Waveshape
  | .Sine => .sine | .Triangle => .triangle | .UpSaw => .upSaw | .DownSaw => .downSaw | .Square => .square

def abs (s : Src.lfo.Lfo) : _root_.Lfo := { pa := Tie.PhaseAcc.abs s.phase_accumulator }

structure WF (s : Src.lfo.Lfo) : Prop where
  pa : Tie.PhaseAcc.WF s.phase_accumulator
  acc : s.phase_accumulator.accumulator < 2 ^ 24

def Refines (r : Option Src.lfo.Lfo) (m : _root_.Lfo) : Prop := ∃ s', r = some s' ∧ WF s' ∧ abs s' = m

theorem sine_size : Gen.sineBits.size = 1024 := by decide +kernel
theorem tbl_sine {i : Nat} (h : i < 1024) : tbl Gen.sineBits i = some (sineAt i) := by
  simp [tbl, sine_size, h, sineAt]

theorem new_tie (sr : F32) : Refines (Src.lfo.Lfo.new sr) (_root_.Lfo.new sr) := by
  obtain ⟨pa, hpa, hwf, habs⟩ := Tie.PhaseAcc.new_tie (T := Src.lfo.TOT_NUM_ACCUM_BITS) (I := Src.lfo.NUM_LUT_INDEX_BITS)
    (by decide) (by decide) sr
  have hacc : pa.accumulator < 2 ^ 24 := by
    have : (Tie.PhaseAcc.abs pa).acc = 0 := by rw [habs]; rfl
    simp only [Tie.PhaseAcc.abs] at this; omega
  refine ⟨⟨pa⟩, by simp [Src.lfo.Lfo.new, hpa], ⟨hwf, hacc⟩, ?_⟩
  simp only [abs, _root_.Lfo.new, habs]; rfl

/-- `tick`: same result (including the overflow panic), and the counter stays below 2^24 -/
theorem tick_tie (s : Src.lfo.Lfo) (h : WF s) :
    (Src.lfo.Lfo.tick s).map abs = (abs s).tick ∧ ∀ s', Src.lfo.Lfo.tick s = some s' → WF s' := by
  obtain ⟨hmap, hwf⟩ := Tie.PhaseAcc.tick_tie s.phase_accumulator h.pa
  cases ht : Src.phase_accumulator.PhaseAccumulator.tick s.phase_accumulator with
  | none =>
    rw [ht] at hmap
    simp only [Option.map_none] at hmap
    refine ⟨?_, fun s' e => ?_⟩
    · simp [Src.lfo.Lfo.tick, ht, _root_.Lfo.tick, abs, ← hmap]
    · simp [Src.lfo.Lfo.tick, ht] at e
  | some p2 =>
    rw [ht] at hmap
    simp only [Option.map_some] at hmap
    have hacc : p2.accumulator < 2 ^ 24 := by
      have hm : PhaseAcc.tick (Tie.PhaseAcc.abs s.phase_accumulator) = some (Tie.PhaseAcc.abs p2) := hmap.symm
      by_cases hge : (Tie.PhaseAcc.abs s.phase_accumulator).acc + (Tie.PhaseAcc.abs s.phase_accumulator).inc ≥ 2 ^ 32
      · simp only [PhaseAcc.tick, hge, if_true] at hm; cases hm
      · simp only [PhaseAcc.tick, hge, if_false] at hm
        have := congrArg PhaseAcc.acc (Option.some.inj hm)
        simp only [Tie.PhaseAcc.abs, total_bits'] at this
        rw [← this]; exact Nat.mod_lt _ (by decide)
    refine ⟨?_, fun s' e => ?_⟩
    · simp [Src.lfo.Lfo.tick, ht, _root_.Lfo.tick, abs, ← hmap]
    · simp [Src.lfo.Lfo.tick, ht] at e; subst e; exact ⟨hwf p2 ht, hacc⟩

theorem set_frequency_tie (s : Src.lfo.Lfo) (h : WF s) (f : F32) :
    Refines (Src.lfo.Lfo.set_frequency s f) ((abs s).setFrequency f) := by
  obtain ⟨p, hp, hwf, habs⟩ := Tie.PhaseAcc.set_frequency_tie s.phase_accumulator h.pa f
  have hacc : p.accumulator < 2 ^ 24 := by
    have := congrArg PhaseAcc.acc habs
    simp only [Tie.PhaseAcc.abs, PhaseAcc.setFrequency] at this
    have := h.acc; omega
  exact ⟨⟨p⟩, by simp [Src.lfo.Lfo.set_frequency, hp], ⟨hwf, hacc⟩, by simp [abs, _root_.Lfo.setFrequency, habs]⟩

theorem reset_tie (s : Src.lfo.Lfo) (h : WF s) : Refines (Src.lfo.Lfo.reset s) (abs s).reset := by
  obtain ⟨p, hp, hwf, habs⟩ := Tie.PhaseAcc.reset_tie s.phase_accumulator h.pa
  have hacc : p.accumulator < 2 ^ 24 := by
    have := congrArg PhaseAcc.acc habs
    simp only [Tie.PhaseAcc.abs, PhaseAcc.reset] at this; omega
  exact ⟨⟨p⟩, by simp [Src.lfo.Lfo.reset, hp], ⟨hwf, hacc⟩, by simp [abs, _root_.Lfo.reset, habs]⟩

theorem get_sine (s : Src.lfo.Lfo) (h : WF s) : Src.lfo.Lfo.get s .Sine = some ((abs s).get .sine) := by
  have hi : (Tie.PhaseAcc.abs s.phase_accumulator).index < 1024 := by
    have := h.acc
    simp only [Tie.PhaseAcc.abs, PhaseAcc.index, total_bits', index_bits']; omega
  have hj : ((Tie.PhaseAcc.abs s.phase_accumulator).index + 1) % 1024 < 1024 := Nat.mod_lt _ (by decide)
  have h64 : uadd Usize.bound (Tie.PhaseAcc.abs s.phase_accumulator).index 1 = some ((Tie.PhaseAcc.abs s.phase_accumulator).index + 1) :=
    uadd_ok (by simp only [Usize.bound]; omega)
  have hlut : Gen.sineLutSize = 1024 := rfl
  have hrem : urem ((Tie.PhaseAcc.abs s.phase_accumulator).index + 1) 1024 = some (((Tie.PhaseAcc.abs s.phase_accumulator).index + 1) % 1024) :=
    urem_ok (by decide)
  simp only [Src.lfo.Lfo.get, recFuel, Src.lfo.Lfo.get.go, Tie.PhaseAcc.index_tie _ h.pa, Tie.PhaseAcc.fraction_tie _ h.pa,
    h64, hlut, hrem, tbl_sine hi, tbl_sine hj, Tie.PhaseAcc.linear_interp_tie, abs, _root_.Lfo.get, bind, Option.bind, pure]

theorem get_triangle (s : Src.lfo.Lfo) (h : WF s) : Src.lfo.Lfo.get s .Triangle = some ((abs s).get .triangle) := by
  simp only [Src.lfo.Lfo.get, recFuel, Src.lfo.Lfo.get.go, Tie.PhaseAcc.ramp_tie _ h.pa, abs, _root_.Lfo.get,
    Tie.PhaseAcc.lit_one, Tie.PhaseAcc.lit_two, Tie.PhaseAcc.lit_three, Tie.PhaseAcc.lit_four, _root_.Lfo.two,
    _root_.Lfo.three, _root_.Lfo.four, bind, Option.bind, pure]
  split
  · rename_i h1; simp [h1]
  · rename_i h1; split <;> rename_i h2 <;> simp [h1, h2]

theorem get_upSaw (s : Src.lfo.Lfo) (h : WF s) : Src.lfo.Lfo.get s .UpSaw = some ((abs s).get .upSaw) := by
  simp [Src.lfo.Lfo.get, recFuel, Src.lfo.Lfo.get.go, Tie.PhaseAcc.ramp_tie _ h.pa, abs, _root_.Lfo.get,
    _root_.Lfo.upSaw, Tie.PhaseAcc.lit_one, Tie.PhaseAcc.lit_two, _root_.Lfo.two]

theorem get_downSaw (s : Src.lfo.Lfo) (h : WF s) : Src.lfo.Lfo.get s .DownSaw = some ((abs s).get .downSaw) := by
  simp [Src.lfo.Lfo.get, recFuel, Src.lfo.Lfo.get.go, Tie.PhaseAcc.ramp_tie _ h.pa, abs, _root_.Lfo.get,
    _root_.Lfo.upSaw, Tie.PhaseAcc.lit_one, Tie.PhaseAcc.lit_two, _root_.Lfo.two]

theorem get_square (s : Src.lfo.Lfo) (h : WF s) : Src.lfo.Lfo.get s .Square = some ((abs s).get .square) := by
  simp only [Src.lfo.Lfo.get, recFuel, Src.lfo.Lfo.get.go, Tie.PhaseAcc.ramp_tie _ h.pa, abs, _root_.Lfo.get,
    Tie.PhaseAcc.lit_one, Tie.PhaseAcc.lit_half, Tie.PhaseAcc.neg_one, _root_.Lfo.half, bind, Option.bind, pure]
  split <;> rename_i h1 <;> simp [h1]

/-- `get(shape)` reads exactly what the model reads -/
theorem get_tie (s : Src.lfo.Lfo) (h : WF s) (w : Src.lfo.Waveshape) :
    Src.lfo.Lfo.get s w = some ((abs s).get (absShape w)) := by
  cases w
  · exact get_sine s h
  · exact get_triangle s h
  · exact get_upSaw s h
  · exact get_downSaw s h
  · exact get_square s h

end Tie.Lfo
