import SynthVerif.Gen.Src.glide_processor
import SynthVerif.Tie.PhaseAcc
import SynthVerif.Model.Glide
/-!
# Tie 1d: `src/glide_processor.rs`, translated by `tools/rs2lean.py`, refines the hand model `SynthVerif/Model/Glide.lean`

The `biquad` calls are the hand-written `Deps` definitions (trusted, validated by the correspondence); what is proved here
is that the crate's own code around them — construction, the dead band and clamp of `set_time`, `process` — is the model.
-/
open F32 Rs
namespace Tie.Glide
open Src.glide_processor

def absCoeffs (c : Deps.Coefficients) : _root_.Coeffs := { a1 := c.a1, a2 := c.a2, b0 := c.b0, b1 := c.b1, b2 := c.b2 }

def abs (s : GlideProcessor) : _root_.Glide :=
  { minFc := s.min_fc, maxFc := s.max_fc, fs := s.fs.v, coeffs := absCoeffs s.lpf.coeffs,
    x1 := s.lpf.x1, x2 := s.lpf.x2, y1 := s.lpf.y1, y2 := s.lpf.y2, cachedT := s.cached_t }

theorem lit_tenth : lit (1 / 10) = F32.ofRat (1 / 10) := rfl
theorem lit_twentieth : lit (1 / 20) = _root_.Glide.epsilon := rfl

/-- `coeffs(fs, f0)` with both frequencies made by `.hz()` is the model's `mkCoeffs` -/
theorem coeffs_tie (fs f0 : F32) :
    ((Deps.hz fs).bind fun a => (Deps.hz f0).bind fun b => Src.glide_processor.coeffs a b).map absCoeffs =
      _root_.Glide.mkCoeffs fs f0 := by
  unfold Deps.hz _root_.Glide.mkCoeffs Src.glide_processor.coeffs Deps.from_params
  by_cases h1 : F32.lt F32.zero fs = true <;> by_cases h2 : F32.lt F32.zero f0 = true <;>
    simp [h1, h2, Tie.PhaseAcc.lit_zero]
  have hz : F32.lt F32.zero F32.zero = false := by decide
  have e2 : Deps.two = .fin 2 false := rfl
  rw [e2] at *
  by_cases h3 : F32.lt fs (F32.mul (.fin 2 false) f0) = true
  · simp [h3, _root_.Glide.two]
  · simp [h3, _root_.Glide.two, hz, absCoeffs, Deps.pi32, _root_.Glide.pi32]

/-- the sample rate stored at construction is positive (`.hz()` checked it) -/
def WF (s : GlideProcessor) : Prop := F32.lt F32.zero s.fs.v = true

theorem is_almost_tie (a b e : F32) : Src.utils.is_almost a b e = some (F32.le (F32.fabs (F32.sub a b)) e) := by
  simp [Src.utils.is_almost, Tie.PhaseAcc.fabs_tie]

theorem lit_two' : lit 2 = _root_.Glide.two := Tie.PhaseAcc.lit_two

theorem new_tie (sr : F32) :
    (GlideProcessor.new sr).map abs = _root_.Glide.new sr ∧ ∀ s, GlideProcessor.new sr = some s → WF s := by
  have hc := coeffs_tie sr (F32.div sr _root_.Glide.two)
  unfold GlideProcessor.new _root_.Glide.new
  simp only [bind, pure, lit_two']
  rw [← hc]
  unfold Deps.hz
  by_cases h1 : F32.lt F32.zero sr = true
  · by_cases h2 : F32.lt F32.zero (F32.div sr _root_.Glide.two) = true
    · simp only [h1, h2, if_true, Option.bind_some]
      cases hcf : Src.glide_processor.coeffs ⟨sr⟩ ⟨F32.div sr _root_.Glide.two⟩ with
      | none => simp
      | some c =>
        simp only [Option.bind_some, Option.map_some]
        refine ⟨?_, fun s hs => ?_⟩
        · simp [abs, Deps.DirectForm1.new, absCoeffs, lit_tenth, Tie.PhaseAcc.neg_lit_one]
        · cases hs; exact h1
    · simp [h1, h2]
  · simp [h1]

theorem process_tie (s : GlideProcessor) (x : F32) :
    (GlideProcessor.process s x).map (fun r => (abs r.1, r.2)) = some ((abs s).process x) := by
  simp [GlideProcessor.process, Deps.DirectForm1.run, _root_.Glide.process, abs, absCoeffs]

theorem process_wf (s : GlideProcessor) (x : F32) (h : WF s) : ∀ r, GlideProcessor.process s x = some r → WF r.1 := by
  intro r hr
  simp [GlideProcessor.process] at hr
  subst hr; exact h

theorem set_time_tie (s : GlideProcessor) (h : WF s) (t : F32) :
    (GlideProcessor.set_time s t).map abs = (abs s).setTime t ∧ ∀ s', GlideProcessor.set_time s t = some s' → WF s' := by
  unfold GlideProcessor.set_time _root_.Glide.setTime
  simp only [bind, pure, is_almost_tie, Option.bind_some, lit_twentieth, Tie.PhaseAcc.lit_one]
  have e1 : (abs s).cachedT = s.cached_t := rfl
  rw [e1]
  by_cases hd : F32.le (F32.fabs (F32.sub t s.cached_t)) _root_.Glide.epsilon = true
  · simp only [hd, if_true]
    exact ⟨rfl, fun s' hs' => by cases hs'; exact h⟩
  · simp only [hd, Bool.false_eq_true, if_false]
    have hc := coeffs_tie s.fs.v (F32.fmin (F32.fmax (F32.div F32.one t) s.min_fc) s.max_fc)
    have hfs : Deps.hz s.fs.v = some s.fs := by
      have h' : F32.lt F32.zero s.fs.v = true := h
      unfold Deps.hz; rw [if_pos h']
    rw [hfs, Option.bind_some] at hc
    have e2 : (abs s).fs = s.fs.v := rfl
    have e3 : (abs s).minFc = s.min_fc := rfl
    have e4 : (abs s).maxFc = s.max_fc := rfl
    rw [e2, e3, e4, ← hc]
    cases hh : Deps.hz (F32.fmin (F32.fmax (F32.div F32.one t) s.min_fc) s.max_fc) with
    | none => simp
    | some f0 =>
      simp only [Option.bind_some]
      cases hcf : Src.glide_processor.coeffs s.fs f0 with
      | none => simp
      | some c =>
        simp only [Option.bind_some, Option.map_some]
        refine ⟨?_, fun s' hs' => ?_⟩
        · simp [abs, Deps.DirectForm1.update_coefficients, absCoeffs]
        · cases hs'; exact h

end Tie.Glide
