import SynthVerif.Tie.Lfo
import SynthVerif.Props.C10
/-!
# Tie 1d, `lfo.rs`: `set_phase` (needs C10's range lemma) and whole call histories
-/
open F32 Rs
namespace Tie.Lfo
open Src.lfo

theorem ok_of_wf (s : Src.lfo.Lfo) (h : WF s) : C10.Ok (abs s) := ⟨total_bits', index_bits', h.acc⟩

theorem set_phase_tie (s : Src.lfo.Lfo) (h : WF s) (p : F32) :
    Refines (Src.lfo.Lfo.set_phase s p) ((abs s).setPhase p) := by
  obtain ⟨q, hq, hwf, habs⟩ := Tie.PhaseAcc.set_phase_tie s.phase_accumulator h.pa p
  have hacc : q.accumulator < 2 ^ 24 := by
    have := (C10.setPhase_ok (abs s) (ok_of_wf s h) p).acc
    have e : (Tie.PhaseAcc.abs q).acc = ((abs s).setPhase p).pa.acc := by rw [habs]; rfl
    have e' : (Tie.PhaseAcc.abs q).acc = q.accumulator := rfl
    omega
  refine ⟨⟨q⟩, ?_, ⟨hwf, hacc⟩, ?_⟩
  · show (Src.phase_accumulator.PhaseAccumulator.set_phase s.phase_accumulator p).bind (fun t1 => some ({ s with phase_accumulator := t1 } : Src.lfo.Lfo)) = some ⟨q⟩
    rw [hq]; rfl
  · show ({ pa := Tie.PhaseAcc.abs q } : _root_.Lfo) = { pa := (Tie.PhaseAcc.abs s.phase_accumulator).setPhase p }
    rw [habs]

/-! ## whole histories -/

def step (s : Src.lfo.Lfo) : C10.Op → Option Src.lfo.Lfo
  | .tick => Src.lfo.Lfo.tick s
  | .setFrequency f => Src.lfo.Lfo.set_frequency s f
  | .setPhase p => Src.lfo.Lfo.set_phase s p
  | .reset => Src.lfo.Lfo.reset s

def run (s : Src.lfo.Lfo) : List C10.Op → Option Src.lfo.Lfo
  | [] => some s
  | o :: os => match step s o with
    | none => none
    | some s' => run s' os

theorem run_total {s s1 : Src.lfo.Lfo} {o : C10.Op} {os : List C10.Op} (e : step s o = some s1) :
    run s (o :: os) = run s1 os := by
  show (match step s o with | none => none | some s' => run s' os) = run s1 os
  rw [e]

/-- every history of calls on the translated `lfo.rs` is, call by call, the same history on the model -/
theorem run_tie (ops : List C10.Op) (s : Src.lfo.Lfo) (h : WF s) :
    (run s ops).map abs = C10.runOps (abs s) ops ∧ ∀ s', run s ops = some s' → WF s' := by
  induction ops generalizing s with
  | nil => exact ⟨rfl, fun s' e => by cases e; exact h⟩
  | cons o os ih =>
    cases o with
    | tick =>
      obtain ⟨h1, h2⟩ := tick_tie s h
      have hR : C10.runOps (abs s) (.tick :: os) = (match (abs s).tick with | none => none | some l' => C10.runOps l' os) := rfl
      cases hs : Src.lfo.Lfo.tick s with
      | none =>
        rw [hs] at h1
        have hL : run s (.tick :: os) = none := by
          show (match step s .tick with | none => none | some s' => run s' os) = none
          have : step s .tick = none := hs
          rw [this]
        rw [hL, hR, ← h1]
        exact ⟨rfl, fun s' e => by cases e⟩
      | some s1 =>
        rw [hs] at h1
        rw [run_total (o := .tick) hs, hR, ← h1]
        exact ih s1 (h2 s1 hs)
    | setFrequency f =>
      obtain ⟨s1, e1, hwf, habs⟩ := set_frequency_tie s h f
      rw [run_total (o := .setFrequency f) e1]
      show _ = C10.runOps ((abs s).setFrequency f) os ∧ _
      rw [← habs]
      exact ih s1 hwf
    | setPhase p =>
      obtain ⟨s1, e1, hwf, habs⟩ := set_phase_tie s h p
      rw [run_total (o := .setPhase p) e1]
      show _ = C10.runOps ((abs s).setPhase p) os ∧ _
      rw [← habs]
      exact ih s1 hwf
    | reset =>
      obtain ⟨s1, e1, hwf, habs⟩ := reset_tie s h
      rw [run_total (o := .reset) e1]
      show _ = C10.runOps (abs s).reset os ∧ _
      rw [← habs]
      exact ih s1 hwf

end Tie.Lfo
