import SynthVerif.Tie.MidiRun
import SynthVerif.Props.C04
import SynthVerif.Props.C05
import SynthVerif.Props.C18
import SynthVerif.Props.C18Bytes
import SynthVerif.Props.C20
/-!
# Tie 1d, end to end, `mono_midi_receiver.rs`: C04, C05, C18, C20 restated for the *translated source*
(C05's poll statement is `Tie.Midi.src_polls_are_latches`, C06's real-time transparency `Tie.Transfer.midi_src_realtime_transparent`,
the no-panic statement `Tie.Transfer.midi_src_parse_total`.)
-/
open F32 Rs
namespace Tie.TransferMidi
open Src.mono_midi_receiver Tie.Midi

/-- every history of bytes, polls and mode changes from `MonoMidiReceiver::new(ch)` runs without a panic on the source and
ends in the state the model reaches -/
theorem reach (ch : Nat) (es : List Ev) :
    ∃ s' os, (MonoMidiReceiver.new ch).bind (runSrc · es) = some (s', os) ∧
      Tie.Midi.abs s' = (_root_.Midi.new ch).after (es.map Ev.toModel) := by
  have hn := new_tie ch
  cases hnew : MonoMidiReceiver.new ch with
  | none => rw [hnew] at hn; simp at hn
  | some s0 =>
    rw [hnew] at hn; simp only [Option.map_some, Option.some.injEq] at hn
    have h := run_tie es s0
    cases hr : runSrc s0 es with
    | none => rw [hr] at h; simp at h
    | some r =>
      obtain ⟨s', os⟩ := r
      rw [hr] at h; simp only [Option.map_some, Option.some.injEq] at h
      refine ⟨s', os, by simp [hr], ?_⟩
      rw [← hn]
      exact congrArg Prod.fst h

/-- **C04**: for every history in which at most 32 note-ons are outstanding at once, the held list, the gate, the note
number and the velocity of the Rust struct are those of the held-notes specification -/
theorem c04_tracks (ch : Nat) (es : List Ev)
    (hb : C04.Bounded (min ch 15) (_root_.Midi.new ch) {} (es.map Ev.toModel)) :
    ∃ s' os, (MonoMidiReceiver.new ch).bind (runSrc · es) = some (s', os) ∧
      let sp := C04.specAfter (min ch 15) (_root_.Midi.new ch) {} (es.map Ev.toModel)
      s'.held_down_notes = sp.out ∧ s'.gate = !sp.out.isEmpty ∧ s'.note_num = sp.note ∧ s'.velocity = sp.vel := by
  obtain ⟨s', os, e, ha⟩ := reach ch es
  refine ⟨s', os, e, ?_⟩
  have := C04.tracks ch (es.map Ev.toModel) hb
  simp only at this ⊢
  rw [← ha] at this
  exact this

/-- **C05**: in every reachable state a pending rising edge implies the gate is high, a pending falling edge that it is
low, and the gate is high exactly when a note is held -/
theorem c05_edges (ch : Nat) (es : List Ev) :
    ∃ s' os, (MonoMidiReceiver.new ch).bind (runSrc · es) = some (s', os) ∧
      (s'.rising_gate = true → s'.gate = true) ∧ (s'.falling_gate = true → s'.gate = false) ∧
      s'.gate = !s'.held_down_notes.isEmpty := by
  obtain ⟨s', os, e, ha⟩ := reach ch es
  refine ⟨s', os, e, ?_, ?_, ?_⟩
  · have := C05.rising_implies_gate ch (es.map Ev.toModel); rw [← ha] at this; exact this
  · have := C05.falling_implies_not_gate ch (es.map Ev.toModel); rw [← ha] at this; exact this
  · have := C05.gate_iff_held ch (es.map Ev.toModel); rw [← ha] at this; exact this

/-- three `parse` calls on the source are three `parse` calls on the model -/
theorem parse3 (s : MonoMidiReceiver) (b1 b2 b3 : Nat) :
    ∃ s3, (do let s1 ← MonoMidiReceiver.parse s b1; let s2 ← MonoMidiReceiver.parse s1 b2; MonoMidiReceiver.parse s2 b3) = some s3 ∧
      Tie.Midi.abs s3 = (((Tie.Midi.abs s).parse b1).parse b2).parse b3 := by
  have h1 := parse_tie s b1
  cases e1 : MonoMidiReceiver.parse s b1 with
  | none => rw [e1] at h1; simp at h1
  | some s1 =>
    rw [e1] at h1; simp only [Option.map_some, Option.some.injEq] at h1
    have h2 := parse_tie s1 b2
    cases e2 : MonoMidiReceiver.parse s1 b2 with
    | none => rw [e2] at h2; simp at h2
    | some s2 =>
      rw [e2] at h2; simp only [Option.map_some, Option.some.injEq] at h2
      have h3 := parse_tie s2 b3
      cases e3 : MonoMidiReceiver.parse s2 b3 with
      | none => rw [e3] at h3; simp at h3
      | some s3 =>
        rw [e3] at h3; simp only [Option.map_some, Option.some.injEq] at h3
        refine ⟨s3, by simp [e2, e3], ?_⟩
        rw [h3, h2, h1]

/-- **C18, controllers**: `Bn cc vv` on the listened channel, from any state (whatever the parser was doing), leaves every
observable as `control_change(cc, vv)` prescribes: CC 1/7/71/74/5 ↦ `vv/127`, CC 65/64 ↦ `vv ≥ 64`, CC 121 ↦ power-on
defaults, CC 123 ↦ all notes off, any other number ↦ nothing (`C18.cc_*`, `C18.other_controllers_inert`) -/
theorem c18_controller (s : MonoMidiReceiver) (cc v : Nat) (hcc : cc < 128) (hv : v < 128) (hc : s.channel < 16) :
    ∃ s3, (do let s1 ← MonoMidiReceiver.parse s (0xB0 + s.channel); let s2 ← MonoMidiReceiver.parse s1 cc;
              MonoMidiReceiver.parse s2 v) = some s3 ∧
      C06.obs (Tie.Midi.abs s3) = C06.obs ((Tie.Midi.abs s).controlChange cc v) := by
  obtain ⟨s3, e, a⟩ := parse3 s (0xB0 + s.channel) cc v
  refine ⟨s3, e, ?_⟩
  rw [a]
  exact C18.cc_bytes (Tie.Midi.abs s) cc v hcc hv hc

/-- **C18, pitch bend**: `En lsb msb` on the listened channel stores `bend(128·msb + lsb)`, strictly increasing in the
14-bit value with 0 ↦ −1, 8192 ↦ 0, 16383 ↦ +1 (`C18.bend_strict`, `bend_min/centre/max`) -/
theorem c18_pitch_bend (s : MonoMidiReceiver) (lsb msb : Nat) (hl : lsb < 128) (hm : msb < 128) (hc : s.channel < 16) :
    ∃ s3, (do let s1 ← MonoMidiReceiver.parse s (0xE0 + s.channel); let s2 ← MonoMidiReceiver.parse s1 lsb;
              MonoMidiReceiver.parse s2 msb) = some s3 ∧
      s3.pitch_bend = C18.bend (msb * 128 + lsb) := by
  obtain ⟨s3, e, a⟩ := parse3 s (0xE0 + s.channel) lsb msb
  refine ⟨s3, e, ?_⟩
  have := C18.bend_lsb_first (Tie.Midi.abs s) lsb msb hl hm hc
  have hch : (Tie.Midi.abs s).channel = s.channel := rfl
  rw [hch, ← a] at this
  exact this

/-- **C20**: `MonoMidiReceiver::new(ch)` listens on `min ch 15` -/
theorem c20_channel (ch : Nat) : ∃ s, MonoMidiReceiver.new ch = some s ∧ s.channel = min ch 15 := by
  have hn := new_tie ch
  cases hnew : MonoMidiReceiver.new ch with
  | none => rw [hnew] at hn; simp at hn
  | some s0 =>
    rw [hnew] at hn; simp only [Option.map_some, Option.some.injEq] at hn
    refine ⟨s0, rfl, ?_⟩
    have := C20.channel_clamp ch
    rw [← hn] at this
    exact this

end Tie.TransferMidi
