import SynthVerif.Tie.Adsr
import SynthVerif.Tie.LfoRun
import SynthVerif.Tie.Midi
import SynthVerif.Props.C01
import SynthVerif.Props.C06
import SynthVerif.Props.C07
import SynthVerif.Tie.QuantRun
import SynthVerif.Tie.Glide
import SynthVerif.Tie.Ribbon
import SynthVerif.Props.C13
import SynthVerif.Props.C17
/-!
# Tie 1d, end to end: property theorems restated for the *translated source*

The property theorems (`Props/Cxx.lean`) are about the hand-written model.  The refinement theorems (`Tie/*.lean`) say the
source, as translated on this run, computes what the model computes.  Composed, they are statements about the translated
Rust text itself; a few headline ones are spelled out here so that the composition is checked, not merely possible.
-/
open F32 Rs
namespace Tie.Transfer

/-- C01 / C17 for `adsr.rs` as translated: from `Adsr::new(sr)`, `100 ≤ sr ≤ 192000`, every history of `gate_on`,
`gate_off`, `tick` and `set_input(…::from(x))` calls runs without a panic and leaves the output in `[0, 1]`. -/
theorem adsr_src_range (sr : F32) (hsr : AdsrL.RateOk sr) (ops : List C17.Op) (hw : ∀ o ∈ ops, C17.opWf o) :
    ∃ s', (Src.adsr.Adsr.new sr).bind (Tie.Adsr.run · ops) = some s' ∧ 0 ≤ s'.value.val ∧ s'.value.val ≤ 1 := by
  obtain ⟨a', hrun, _, h0, h1⟩ := C01.inv_all_histories sr hsr ops hw
  have h := Tie.Adsr.new_run_tie sr ops
  rw [hrun] at h
  cases hs : (Src.adsr.Adsr.new sr).bind (Tie.Adsr.run · ops) with
  | none => rw [hs] at h; simp at h
  | some s' =>
    rw [hs] at h
    simp only [Option.map_some, Option.some.injEq] at h
    refine ⟨s', rfl, ?_, ?_⟩
    · have : s'.value = a'.value := by rw [← h]; rfl
      rw [this]; exact h0
    · have : s'.value = a'.value := by rw [← h]; rfl
      rw [this]; exact h1

/-- C10 for `lfo.rs` as translated: after any history of `tick / set_frequency / set_phase / reset` calls that does not
panic, every waveshape reads a finite value in `[-1, 1]`. -/
theorem lfo_src_range (sr : F32) (ops : List C10.Op) (s' : Src.lfo.Lfo)
    (hrun : (Src.lfo.Lfo.new sr).bind (Tie.Lfo.run · ops) = some s') (w : Src.lfo.Waveshape) :
    ∃ y, Src.lfo.Lfo.get s' w = some y ∧ y.isFin = true ∧ -1 ≤ y.val ∧ y.val ≤ 1 := by
  obtain ⟨s0, h0, hwf0, habs0⟩ := Tie.Lfo.new_tie sr
  rw [h0, Option.bind_some] at hrun
  obtain ⟨hmap, hwf⟩ := Tie.Lfo.run_tie ops s0 hwf0
  have hwf' := hwf s' hrun
  have hok : C10.Ok (Tie.Lfo.abs s') := Tie.Lfo.ok_of_wf s' hwf'
  refine ⟨_, Tie.Lfo.get_tie s' hwf' w, ?_⟩
  exact C10.shapes_in_range _ hok _

/-- C06 for `mono_midi_receiver.rs` as translated: a System Real-Time byte inserted anywhere in a byte stream, also
between the bytes of a message, changes no observable of the receiver at any later point. -/
theorem midi_src_realtime_transparent (ch : Nat) (pre post : List Nat) (rt : Nat) (hrt : 0xF8 ≤ rt) (hrt' : rt < 256)
    (h1 : ∀ b ∈ pre, b < 256) (h2 : ∀ b ∈ post, b < 256) (s0 sa sb : Src.mono_midi_receiver.MonoMidiReceiver)
    (hn : Src.mono_midi_receiver.MonoMidiReceiver.new ch = some s0)
    (ha : (pre ++ rt :: post).foldlM Src.mono_midi_receiver.MonoMidiReceiver.parse s0 = some sa)
    (hb : (pre ++ post).foldlM Src.mono_midi_receiver.MonoMidiReceiver.parse s0 = some sb) :
    C06.obs (Tie.Midi.abs sa) = C06.obs (Tie.Midi.abs sb) := by
  have hnew := Tie.Midi.new_tie ch
  rw [hn] at hnew
  simp only [Option.map_some, Option.some.injEq] at hnew
  have e1 := Tie.Midi.bytes_tie (pre ++ rt :: post) s0
  have e2 := Tie.Midi.bytes_tie (pre ++ post) s0
  rw [ha] at e1; rw [hb] at e2
  simp only [Option.map_some, Option.some.injEq] at e1 e2
  rw [e1, e2, hnew]
  exact C06.realtime_transparent ch pre post rt hrt hrt' h1 h2

/-- C07 for `quantizer.rs` as translated: whatever the cached conversion is, `convert` returns a note whose pitch class
is allowed by the scale in force (and leaves the scale untouched), for every input voltage. -/
theorem quant_src_never_forbidden (s : Src.quantizer.Quantizer) (h : C07.QInv (Tie.Quant.abs s)) (v : F32) :
    ∃ s' c, Src.quantizer.Quantizer.convert s v = some (s', c) ∧
      Quantizer.bit s.allowed (c.note_num % 12) = true ∧ s'.allowed = s.allowed := by
  have ht := Tie.Quant.convert_tie Tie.Quant.search_tie s v
  obtain ⟨hbit, hall⟩ := C07.convert_allowed (Tie.Quant.abs s) h v
  cases hc : Src.quantizer.Quantizer.convert s v with
  | none => rw [hc] at ht; simp at ht
  | some r =>
    obtain ⟨s', c⟩ := r
    rw [hc] at ht
    simp only [Option.map_some, Option.some.injEq] at ht
    refine ⟨s', c, rfl, ?_, ?_⟩
    · have e : ((Tie.Quant.abs s).convert v).2.note = c.note_num := by rw [← ht]; rfl
      rw [e] at hbit; exact hbit
    · have e : ((Tie.Quant.abs s).convert v).1.allowed = s'.allowed := by rw [← ht]; rfl
      rw [e] at hall; exact hall

/-! ## C17 for the translated source: no panic -/

/-- `MonoMidiReceiver::parse` as translated never panics: for every receiver state and every byte -/
theorem midi_src_parse_total (s : Src.mono_midi_receiver.MonoMidiReceiver) (b : Nat) :
    ∃ s', Src.mono_midi_receiver.MonoMidiReceiver.parse s b = some s' := by
  have h := Tie.Midi.parse_tie s b
  cases hp : Src.mono_midi_receiver.MonoMidiReceiver.parse s b with
  | none => rw [hp] at h; simp at h
  | some s' => exact ⟨s', rfl⟩

/-- `Quantizer::convert` as translated never panics: for every state (any cached record, any scale bits) and every
`f32`, NaN and ±∞ included; in particular no integer operation of the search overflows. -/
theorem quant_src_convert_total (s : Src.quantizer.Quantizer) (v : F32) :
    ∃ r, Src.quantizer.Quantizer.convert s v = some r := by
  have h := Tie.Quant.convert_tie Tie.Quant.search_tie s v
  cases hc : Src.quantizer.Quantizer.convert s v with
  | none => rw [hc] at h; simp at h
  | some r => exact ⟨r, rfl⟩

/-- `GlideProcessor::process` as translated never panics -/
theorem glide_src_process_total (s : Src.glide_processor.GlideProcessor) (x : F32) :
    ∃ r, Src.glide_processor.GlideProcessor.process s x = some r := by
  have h := Tie.Glide.process_tie s x
  cases hc : Src.glide_processor.GlideProcessor.process s x with
  | none => rw [hc] at h; simp at h
  | some r => exact ⟨r, rfl⟩

/-- `GlideProcessor::new` and `set_time` as translated never panic for sample rates in `[100, 48000]` Hz and *any*
`f32` time (negative, zero, NaN, ∞ included) -/
theorem glide_src_set_time_total (σ : ℚ) (ns : Bool) (lo : 100 ≤ σ) (hi : σ ≤ 48000) (hrep : F32.Rep σ) (t : F32) :
    ∃ s s', Src.glide_processor.GlideProcessor.new (.fin σ ns) = some s ∧
      Src.glide_processor.GlideProcessor.set_time s t = some s' := by
  obtain ⟨g, hg, hinv, _⟩ := C13.new_inv σ ns lo hi hrep
  obtain ⟨hmap, hwf⟩ := Tie.Glide.new_tie (.fin σ ns)
  rw [hg] at hmap
  cases hn : Src.glide_processor.GlideProcessor.new (.fin σ ns) with
  | none => rw [hn] at hmap; simp at hmap
  | some s =>
    rw [hn] at hmap
    simp only [Option.map_some, Option.some.injEq] at hmap
    obtain ⟨g', hg', _⟩ := C13.setTime_inv g σ ns hinv t
    obtain ⟨hmap2, _⟩ := Tie.Glide.set_time_tie s (hwf s hn) t
    rw [hmap, hg'] at hmap2
    cases hs : Src.glide_processor.GlideProcessor.set_time s t with
    | none => rw [hs] at hmap2; simp at hmap2
    | some s' => exact ⟨s, s', rfl, hs⟩

/-- `RibbonController::poll` as translated panics exactly when the model says so: never, once the buffer capacity is at
least the number of discarded samples (which `sample_rate_to_capacity` guarantees, `C17.ribbon_new_ok`) -/
theorem ribbon_src_poll_total {N : Nat} (s : Src.ribbon_controller.RibbonController N) (h : Tie.Ribbon.WF s)
    (hc : s.num_to_discard_at_end ≤ s.buff.cap) (x : F32) :
    ∃ s', Src.ribbon_controller.RibbonController.poll s x = some s' := by
  obtain ⟨hmap, _⟩ := Tie.Ribbon.poll_tie s h x
  cases hp : Src.ribbon_controller.RibbonController.poll s x with
  | some s' => exact ⟨s', rfl⟩
  | none =>
    exfalso
    rw [hp] at hmap
    simp only [Option.map_none] at hmap
    have hm : (Tie.Ribbon.abs s).poll x ≠ none := by
      have hcap : ¬ (HistBuf.write s.buff x).capacity < s.num_to_discard_at_end := by
        simp only [HistBuf.capacity, Tie.Ribbon.write_cap]; omega
      unfold _root_.Ribbon.poll
      simp only [Tie.Ribbon.abs, hcap, if_false]
      repeat' split
      all_goals simp
    exact hm hmap.symm

end Tie.Transfer
