import SynthVerif.Tie.Ribbon
import SynthVerif.Props.C15
/-!
# Tie 1d, `ribbon_controller.rs`: whole histories of samples and edge reads, and C15 for the translated source
-/
open F32 Rs
namespace Tie.Ribbon
open Src.ribbon_controller

/-- one call on the translated source; `none` = panic -/
def stepSrc {N : Nat} (s : RibbonController N) : C15.Ev → Option (RibbonController N × Option Bool)
  | .poll x => (RibbonController.poll s x).map fun s' => (s', none)
  | .readPressed => (RibbonController.finger_just_pressed_fn s).map fun r => (r.1, some r.2)
  | .readReleased => (RibbonController.finger_just_released_fn s).map fun r => (r.1, some r.2)

def runSrc {N : Nat} (s : RibbonController N) : List C15.Ev → Option (RibbonController N × List Bool)
  | [] => some (s, [])
  | e :: es => match stepSrc s e with
    | none => none
    | some (s', o) => match runSrc s' es with
      | none => none
      | some (s'', os) => some (s'', match o with | some b => b :: os | none => os)

theorem edge_wf {N : Nat} (s s' : RibbonController N) (h : WF s)
    (hb : s'.buff = s.buff) (hi : s'.num_to_ignore_up_front = s.num_to_ignore_up_front)
    (hr : s'.num_samples_received = s.num_samples_received) (hw : s'.num_samples_written = s.num_samples_written) : WF s' :=
  ⟨by rw [hr, hi]; exact h.recv, by rw [hi]; exact h.ign, by rw [hw, hb]; exact h.wr, by rw [hb]; exact h.cap⟩

theorem step_tie {N : Nat} (s : RibbonController N) (h : WF s) (e : C15.Ev) :
    (stepSrc s e).map (fun r => (abs r.1, r.2)) = C15.stepEv (abs s) e ∧ ∀ r, stepSrc s e = some r → WF r.1 := by
  cases e with
  | poll x =>
    obtain ⟨h1, h2⟩ := poll_tie s h x
    cases hp : RibbonController.poll s x with
    | none => rw [hp] at h1; simp only [Option.map_none] at h1; simp [stepSrc, C15.stepEv, hp, ← h1]
    | some s' =>
      rw [hp] at h1; simp only [Option.map_some] at h1
      refine ⟨by simp [stepSrc, C15.stepEv, hp, ← h1], fun r hr => ?_⟩
      simp [stepSrc, hp] at hr; subst hr; exact h2 s' hp
  | readPressed =>
    have h1 := just_pressed_tie s
    cases hj : s.finger_just_pressed
    · simp only [stepSrc, C15.stepEv, RibbonController.finger_just_pressed_fn, hj] at h1 ⊢
      refine ⟨?_, fun r hr => ?_⟩
      · simp only [Bool.false_eq_true, if_false, pure, Option.map_some, Option.some.injEq, Prod.mk.injEq] at h1 ⊢
        rw [← h1]; simp
      · simp at hr; subst hr; exact h
    · simp only [stepSrc, C15.stepEv, RibbonController.finger_just_pressed_fn, hj] at h1 ⊢
      refine ⟨?_, fun r hr => ?_⟩
      · simp only [if_true, pure, Option.map_some, Option.some.injEq, Prod.mk.injEq] at h1 ⊢
        rw [← h1]; simp
      · simp at hr; subst hr; exact edge_wf s _ h rfl rfl rfl rfl
  | readReleased =>
    have h1 := just_released_tie s
    cases hj : s.finger_just_released
    · simp only [stepSrc, C15.stepEv, RibbonController.finger_just_released_fn, hj] at h1 ⊢
      refine ⟨?_, fun r hr => ?_⟩
      · simp only [Bool.false_eq_true, if_false, pure, Option.map_some, Option.some.injEq, Prod.mk.injEq] at h1 ⊢
        rw [← h1]; simp
      · simp at hr; subst hr; exact h
    · simp only [stepSrc, C15.stepEv, RibbonController.finger_just_released_fn, hj] at h1 ⊢
      refine ⟨?_, fun r hr => ?_⟩
      · simp only [if_true, pure, Option.map_some, Option.some.injEq, Prod.mk.injEq] at h1 ⊢
        rw [← h1]; simp
      · simp at hr; subst hr; exact edge_wf s _ h rfl rfl rfl rfl

/-- every history of samples and edge reads: same final state, same values returned by the reads, same panics -/
theorem run_tie {N : Nat} (es : List C15.Ev) (s : RibbonController N) (h : WF s) :
    (runSrc s es).map (fun r => (abs r.1, r.2)) = C15.run (abs s) es := by
  induction es generalizing s with
  | nil => rfl
  | cons e es ih =>
    obtain ⟨h1, h2⟩ := step_tie s h e
    cases hs : stepSrc s e with
    | none => rw [hs] at h1; simp only [Option.map_none] at h1; simp [runSrc, C15.run, hs, ← h1]
    | some r =>
      obtain ⟨s', o⟩ := r
      rw [hs] at h1; simp only [Option.map_some] at h1
      have := ih s' (h2 _ hs)
      simp only [runSrc, C15.run, hs, ← h1, ← this]
      cases runSrc s' es with
      | none => rfl
      | some r2 => rfl

/-- C15 for the translated source: constructed for a capacity that covers the discarded tail, every history runs without
a panic, every edge read returns what the run-length specification says, and `finger_is_pressing` is
"the current unbroken in-range run has reached the press length". -/
theorem src_refines {N : Nat} (hN : N < 2 ^ 63) (hN1 : 1 ≤ N) (sr sp dr pu : F32) (s : RibbonController N)
    (hnew : RibbonController.new (BUFFER_CAPACITY := N) sr sp dr pu = some s) (hdisc : s.num_to_discard_at_end ≤ N)
    (es : List C15.Ev) :
    ∃ s' os, runSrc s es = some (s', os) ∧
      os = (C15.specRun (C15.pressLen (abs s)) (fun x => F32.lt x s.finger_press_high_boundary) {} es).2 ∧
      s'.finger_is_pressing = (C15.specRun (C15.pressLen (abs s)) (fun x => F32.lt x s.finger_press_high_boundary) {} es).1.pressing := by
  obtain ⟨hmap, hwf⟩ := new_tie hN sr sp dr pu
  rw [hnew] at hmap
  simp only [Option.map_some] at hmap
  obtain ⟨r', os, hrun, hos, hpress⟩ := C15.refines (cap := N) hmap.symm hN1 hdisc es
  have ht := run_tie es s (hwf s hnew)
  rw [hrun] at ht
  cases hr : runSrc s es with
  | none => rw [hr] at ht; simp at ht
  | some r =>
    obtain ⟨s', os'⟩ := r
    rw [hr] at ht
    simp only [Option.map_some, Option.some.injEq, Prod.mk.injEq] at ht
    refine ⟨s', os', rfl, ?_, ?_⟩
    · rw [ht.2]; exact hos
    · have : s'.finger_is_pressing = r'.pressing := by rw [← ht.1]; rfl
      rw [this]; exact hpress

end Tie.Ribbon
