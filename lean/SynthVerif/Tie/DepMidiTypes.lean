import SynthVerif.Gen.Dep.midi_types
/-!
# Tie 1d for a dependency: `f32::from(Value14)` of `midi-types` — the pitch-bend scaling C18 is about — as translated from the
registry source on this run (`Gen/Dep/midi_types.lean`) is the model's `value14ToF32` (`Model/Midi.lean`), for every pair of bytes.
-/
open F32 Rs
namespace Tie.DepMidiTypes
open Dep.midi_types

theorem lit8191 : lit (81910 / 10) = F32.fin 8191 false := by decide +kernel
theorem lit8192 : lit (81920 / 10) = F32.fin 8192 false := by decide +kernel
theorem litm1 : F32.neg (lit (10 / 10)) = F32.fin (-1) false := by decide +kernel
theorem lit1 : lit (10 / 10) = F32.one := by decide +kernel

theorem value14_eq (msb lsb : Nat) : value14_to_f32 msb lsb = value14ToF32 msb lsb := by
  unfold value14_to_f32 value14_to_i16 value14_to_u16 value14ToF32
  simp only [lit8191, lit8192, litm1, lit1]
  rfl

end Tie.DepMidiTypes
