import SynthVerif.Tie.GlideRun
import SynthVerif.Props.C13
import SynthVerif.Props.C13Range
import SynthVerif.Props.C14
import SynthVerif.Props.C14Coverage
/-!
# Tie 1d, end to end, `glide_processor.rs`: C13, C14 restated for the *translated source*

`GlideProcessor::new(σ)`, `set_time(t)` and `process(x)` are the functions of `Gen/Src/glide_processor.lean`.
Histories use `Tie.Glide.runSrc` over the op type of C13 (`setTime t | process x`); held-input statements use `holdSrc`,
`n` consecutive `process(x)` calls on the source.
-/
open F32 Rs
namespace Tie.TransferGlide
open Src.glide_processor

/-- the stored output of the Rust filter (`lpf.y1`) -/
def out (s : GlideProcessor) : ℚ := s.lpf.y1.val

/-- `n` consecutive `process(x)` calls -/
def holdSrc (s : GlideProcessor) (x : F32) : ℕ → Option GlideProcessor
  | 0 => some s
  | n + 1 => match GlideProcessor.process s x with
    | none => none
    | some r => holdSrc r.1 x n

theorem hold_sim (x : F32) (n : ℕ) (s : GlideProcessor) :
    ∃ s', holdSrc s x n = some s' ∧ Tie.Glide.abs s' = ((fun g => (Glide.process g x).1)^[n] (Tie.Glide.abs s)) := by
  induction n generalizing s with
  | zero => exact ⟨s, rfl, rfl⟩
  | succ n ih =>
    have h1 := Tie.Glide.process_tie s x
    cases hp : GlideProcessor.process s x with
    | none => rw [hp] at h1; simp at h1
    | some r =>
      rw [hp] at h1
      simp only [Option.map_some, Option.some.injEq] at h1
      obtain ⟨s', e, a⟩ := ih r.1
      refine ⟨s', by simp only [holdSrc, hp]; exact e, ?_⟩
      rw [a, Function.iterate_succ_apply]
      have : Tie.Glide.abs r.1 = ((Tie.Glide.abs s).process x).1 := by rw [← h1]
      rw [this]

/-- every source state reachable from `new(σ)`, `100 ≤ σ ≤ 48000`, abstracts to the model state reached by the same
history, and is well-formed -/
theorem new_sim (σ : ℚ) (ns : Bool) (lo : 100 ≤ σ) (hi : σ ≤ 48000) (hrep : F32.Rep σ) :
    ∃ s, GlideProcessor.new (.fin σ ns) = some s ∧ Tie.Glide.WF s ∧ C13.CInv (Tie.Glide.abs s) σ ns ∧
      (Tie.Glide.abs s).x1 = zero ∧ (Tie.Glide.abs s).x2 = zero ∧ (Tie.Glide.abs s).y1 = zero ∧
      (Tie.Glide.abs s).y2 = zero := by
  obtain ⟨g, hg, hinv, z⟩ := C13.new_inv σ ns lo hi hrep
  obtain ⟨hmap, hwf⟩ := Tie.Glide.new_tie (.fin σ ns)
  rw [hg] at hmap
  cases hn : GlideProcessor.new (.fin σ ns) with
  | none => rw [hn] at hmap; simp at hmap
  | some s =>
    rw [hn] at hmap
    simp only [Option.map_some, Option.some.injEq] at hmap
    exact ⟨s, rfl, hwf s hn, by rw [hmap]; exact hinv, by rw [hmap]; exact z⟩

/-! ## C13 — range, no ringing, convergence -/

/-- **range**: from `new(σ)`, for every history of `set_time` calls (any f32 argument, at any point) and `process` calls
with finite inputs in `[lo, hi] ∋ 0`, the source runs without a panic and every output lies in `[lo − e, hi + e]`, `e`
the f32 resolution of the filter (`e ≥ 2^-22·M/β`, `β` the smallest smoothing coefficient in effect) -/
theorem c13_range (σ : ℚ) (ns : Bool) (lo' : 100 ≤ σ) (hi' : σ ≤ 48000) (hrep : F32.Rep σ) {lo hi M β e : ℚ}
    (p : C13.RangeOk lo hi M β e) (e0 : 0 ≤ e) (ops : List C13.Op) (hin : C13.inputsIn lo hi ops)
    (s0 : GlideProcessor) (hs0 : GlideProcessor.new (.fin σ ns) = some s0)
    (hα : C13.AlphaGe β (Tie.Glide.abs s0) ops) :
    ∃ s' ys, Tie.Glide.runSrc s0 ops = some (s', ys) ∧
      ∀ y ∈ ys, y.isFin = true ∧ lo - e ≤ y.val ∧ y.val ≤ hi + e := by
  obtain ⟨s, hs, hwf, hinv, z1, z2, z3, z4⟩ := new_sim σ ns lo' hi' hrep
  rw [hs0] at hs; simp only [Option.some.injEq] at hs; subst hs
  have hr : C13.RInv lo hi e (Tie.Glide.abs s0) := by
    rw [C13.RInv, z1, z2, z3, z4]
    exact ⟨rfl, rfl, rfl, rfl, by simp [zero]; linarith [p.lo0], by simp [zero]; linarith [p.hi0]⟩
  obtain ⟨g', ys, hrun, _, _, hall⟩ := C13.range_tight (Tie.Glide.abs s0) σ ns p hinv hr ops hin hα
  have ht := Tie.Glide.run_tie ops s0 hwf
  rw [hrun] at ht
  cases hsrc : Tie.Glide.runSrc s0 ops with
  | none => rw [hsrc] at ht; simp at ht
  | some r =>
    rw [hsrc] at ht
    simp only [Option.map_some, Option.some.injEq, Prod.mk.injEq] at ht
    refine ⟨r.1, r.2, rfl, ?_⟩
    rw [ht.2]; exact hall

/-- **no ringing, convergence**: input held at a finite `x`, coefficients fixed: the stored output moves monotonically
and approaches `x` geometrically down to the resolution `2^-22·M/(1−c)` -/
theorem c13_held (s : GlideProcessor) (σ : ℚ) (ns : Bool) (M : ℚ) (hM : 1 ≤ M) (hM' : M ≤ 2 ^ (58:ℤ))
    (h : C13.CInv (Tie.Glide.abs s) σ ns) (hs : C13.SInv M (Tie.Glide.abs s)) (hy : |out s| ≤ 3 / 2 * M)
    (x : F32) (hx : x.isFin = true) (hxM : |x.val| ≤ M) :
    ∃ y : ℕ → ℚ, (∀ n, ∃ s', holdSrc s x n = some s' ∧ out s' = y n) ∧
      ((y 0 ≤ y 1 → ∀ n, y n ≤ y (n + 1)) ∧ (y 1 ≤ y 0 → ∀ n, y (n + 1) ≤ y n)) ∧
      ∀ n, |y n - x.val| ≤ (-s.lpf.coeffs.a1.val) ^ n * |out s - x.val| + 2 ^ (-22:ℤ) * M / (1 - -s.lpf.coeffs.a1.val) := by
  refine ⟨fun n => ((fun g => (Glide.process g x).1)^[n] (Tie.Glide.abs s)).y1.val, fun n => ?_, ?_, fun n => ?_⟩
  · obtain ⟨s', e, a⟩ := hold_sim x n s
    exact ⟨s', e, congrArg (fun g : _root_.Glide => g.y1.val) a⟩
  · exact C13.held_input_monotone (Tie.Glide.abs s) σ ns M hM hM' h hs x hx hxM
  · exact C13.held_input_converges (Tie.Glide.abs s) σ ns M hM hM' h hs hy x hx hxM n

/-! ## C14 — what the time setting means -/

/-- the dead band: a `set_time(t)` within 0.05 s of the time in effect changes nothing; any other call is honoured,
records `t` as the time in effect and leaves the filter memory alone -/
theorem c14_cache (s : GlideProcessor) (h : Tie.Glide.WF s) (t : F32) :
    (C14.ignored (Tie.Glide.abs s) t = true →
      ∃ s', GlideProcessor.set_time s t = some s' ∧ Tie.Glide.abs s' = Tie.Glide.abs s) ∧
    (C14.ignored (Tie.Glide.abs s) t = false → ∀ s', GlideProcessor.set_time s t = some s' →
      s'.cached_t = t ∧ s'.lpf.x1 = s.lpf.x1 ∧ s'.lpf.x2 = s.lpf.x2 ∧ s'.lpf.y1 = s.lpf.y1 ∧ s'.lpf.y2 = s.lpf.y2) := by
  obtain ⟨hmap, _⟩ := Tie.Glide.set_time_tie s h t
  obtain ⟨c1, c2⟩ := C14.setTime_cache (Tie.Glide.abs s) t
  constructor
  · intro hi
    rw [c1 hi] at hmap
    cases hs : GlideProcessor.set_time s t with
    | none => rw [hs] at hmap; simp at hmap
    | some s' =>
      rw [hs] at hmap
      simp only [Option.map_some, Option.some.injEq] at hmap
      exact ⟨s', rfl, hmap⟩
  · intro hi s' hs
    rw [hs] at hmap
    simp only [Option.map_some] at hmap
    obtain ⟨q1, q2, q3, q4, q5, _⟩ := c2 hi (Tie.Glide.abs s') hmap.symm
    exact ⟨q1, q2, q3, q4, q5⟩

/-- **coverage**: after an honoured `set_time(τ)`, `0 < τ ≤ 10 s`, at least 100 samples per `τ`, and a step to a held `x`:
at most 1/400 of the step (+r) remains after `τ` seconds, between 47 % (−r) and 57.5 % (+r) after `τ/10` -/
theorem c14_coverage (s : GlideProcessor) (hw : Tie.Glide.WF s) (σ : ℚ) (ns : Bool) (M : ℚ) (hM : 1 ≤ M)
    (hM' : M ≤ 2 ^ (58:ℤ)) (h : C13.CInv (Tie.Glide.abs s) σ ns) (hs : C13.SInv M (Tie.Glide.abs s))
    (hy : |out s| ≤ 3 / 2 * M) (τ : ℚ) (nt : Bool) (hτ0 : 0 < τ) (hτ : τ ≤ 10) (hN : 100 ≤ τ * σ)
    (hni : C14.ignored (Tie.Glide.abs s) (.fin τ nt) = false) (x : F32) (hx : x.isFin = true) (hxM : |x.val| ≤ M) :
    ∃ (s1 : GlideProcessor) (y : ℕ → ℚ), GlideProcessor.set_time s (.fin τ nt) = some s1 ∧
      (∀ n, ∃ s', holdSrc s1 x n = some s' ∧ out s' = y n) ∧ y 0 = out s ∧
      let r := 2 ^ (-22:ℤ) * M / (1 - -s1.lpf.coeffs.a1.val)
      (∀ n : ℕ, τ * σ ≤ n → |y n - x.val| ≤ |y 0 - x.val| / 400 + r) ∧
      (∀ m : ℕ, τ * σ / 10 - 1 / 2 ≤ m → |y m - x.val| ≤ 23 / 40 * |y 0 - x.val| + r) ∧
      (∀ m : ℕ, (m:ℚ) ≤ τ * σ / 10 + 1 / 2 → 47 / 100 * |y 0 - x.val| - r ≤ |y m - x.val|) := by
  obtain ⟨g', eg, hcov⟩ := C14.glide_time_coverage (Tie.Glide.abs s) σ ns M hM hM' h hs hy τ nt hτ0 hτ hN hni x hx hxM
  obtain ⟨hmap, _⟩ := Tie.Glide.set_time_tie s hw (.fin τ nt)
  rw [eg] at hmap
  cases hst : GlideProcessor.set_time s (.fin τ nt) with
  | none => rw [hst] at hmap; simp at hmap
  | some s1 =>
    rw [hst] at hmap
    simp only [Option.map_some, Option.some.injEq] at hmap
    subst hmap
    refine ⟨s1, fun n => ((fun g => (Glide.process g x).1)^[n] (Tie.Glide.abs s1)).y1.val, rfl, fun n => ?_, ?_⟩
    · obtain ⟨s', e, a⟩ := hold_sim x n s1
      exact ⟨s', e, congrArg (fun g : _root_.Glide => g.y1.val) a⟩
    · exact hcov

/-- **fastest response**: when the cut-off selected by `t` is `fs/2` (`set_time(0)`, or any time below two samples,
`C14.short_times_equal`) at most 4^-8 of a step (+r) remains after 8 samples -/
theorem c14_fastest (s : GlideProcessor) (hw : Tie.Glide.WF s) (σ : ℚ) (ns : Bool) (M : ℚ) (hM : 1 ≤ M)
    (hM' : M ≤ 2 ^ (58:ℤ)) (h : C13.CInv (Tie.Glide.abs s) σ ns) (hs : C13.SInv M (Tie.Glide.abs s))
    (hy : |out s| ≤ 3 / 2 * M) (t : F32) (hcut : C14.cutoffOf (Tie.Glide.abs s) t = .fin (σ / 2) false)
    (hni : C14.ignored (Tie.Glide.abs s) t = false) (x : F32) (hx : x.isFin = true) (hxM : |x.val| ≤ M) :
    ∃ s1 s8, GlideProcessor.set_time s t = some s1 ∧ holdSrc s1 x 8 = some s8 ∧
      |out s8 - x.val| ≤ |out s - x.val| / 65536 + 2 ^ (-22:ℤ) * M / (1 - -s1.lpf.coeffs.a1.val) := by
  obtain ⟨g', eg, hb⟩ := C14.fastest_settles (Tie.Glide.abs s) σ ns M hM hM' h hs hy t hcut hni x hx hxM
  obtain ⟨hmap, _⟩ := Tie.Glide.set_time_tie s hw t
  rw [eg] at hmap
  cases hst : GlideProcessor.set_time s t with
  | none => rw [hst] at hmap; simp at hmap
  | some s1 =>
    rw [hst] at hmap
    simp only [Option.map_some, Option.some.injEq] at hmap
    subst hmap
    obtain ⟨s8, e8, a8⟩ := hold_sim x 8 s1
    refine ⟨s1, s8, rfl, e8, ?_⟩
    have : out s8 = ((fun g => (Glide.process g x).1)^[8] (Tie.Glide.abs s1)).y1.val := congrArg (fun g : _root_.Glide => g.y1.val) a8
    rw [this]; exact hb

end Tie.TransferGlide
