import SynthVerif.Tie.Glide
import SynthVerif.Props.C13
/-!
# Tie 1d, `glide_processor.rs`: whole histories of `set_time` / `process` calls (the op type of C13 and C14)
-/
open F32 Rs
namespace Tie.Glide
open Src.glide_processor

def runSrc (s : GlideProcessor) : List C13.Op → Option (GlideProcessor × List F32)
  | [] => some (s, [])
  | .setTime t :: ops => match GlideProcessor.set_time s t with
    | none => none
    | some s' => runSrc s' ops
  | .process x :: ops => match GlideProcessor.process s x with
    | none => none
    | some (s', y) => match runSrc s' ops with
      | none => none
      | some (s'', ys) => some (s'', y :: ys)

/-- every history: same outputs, same final state, same panics -/
theorem run_tie (ops : List C13.Op) (s : GlideProcessor) (h : WF s) :
    (runSrc s ops).map (fun r => (abs r.1, r.2)) = C13.run (abs s) ops := by
  induction ops generalizing s with
  | nil => rfl
  | cons o ops ih =>
    cases o with
    | setTime t =>
      obtain ⟨h1, h2⟩ := set_time_tie s h t
      cases hs : GlideProcessor.set_time s t with
      | none => rw [hs] at h1; simp only [Option.map_none] at h1; simp [runSrc, C13.run, hs, ← h1]
      | some s' =>
        rw [hs] at h1; simp only [Option.map_some] at h1
        simp only [runSrc, C13.run, hs, ← h1]
        exact ih s' (h2 s' hs)
    | process x =>
      have h1 := process_tie s x
      cases hp : GlideProcessor.process s x with
      | none => rw [hp] at h1; simp at h1
      | some r =>
        obtain ⟨s', y⟩ := r
        rw [hp] at h1; simp only [Option.map_some, Option.some.injEq] at h1
        have hw := process_wf s x h (s', y) hp
        have := ih s' hw
        have e1 : ((abs s).process x).1 = abs s' := by rw [← h1]
        have e2 : ((abs s).process x).2 = y := by rw [← h1]
        simp only [runSrc, C13.run, hp, e1, e2, ← this]
        cases runSrc s' ops with
        | none => rfl
        | some r2 => rfl

end Tie.Glide
