import SynthVerif.Gen.Dep.biquad
/-!
# Tie 1d for a dependency: the `biquad` functions the glide processor calls, translated from the registry source on this run
(`tools/dep2lean.py` → `Gen/Dep/biquad.lean`), **are** the hand-written entry points of `Src/Deps.lean` that the translated
`glide_processor.rs` is linked against (and through `Tie/Glide.lean` the model C13 and C14 are proved about):
`Coefficients::<f32>::from_params` for the filter type in use, `DirectForm1::<f32>::{new, run, update_coefficients}`, `x.hz()`.
-/
open F32 Rs
namespace Tie.DepBiquad
open Dep.biquad

theorem lit2 : lit (20 / 10) = Deps.two := by decide +kernel
theorem lit0 : lit (0 / 10) = F32.zero := by decide +kernel
theorem lit1 : lit (10 / 10) = F32.one := by decide +kernel

theorem from_params_eq (fs f0 : Deps.Hertz) (q : F32) :
    from_params_single_pole_approx fs f0 q = Deps.from_params .SinglePoleLowPassApprox fs f0 q := by
  unfold from_params_single_pole_approx Deps.from_params
  simp only [lit2, lit0, lit1]

theorem new_eq (c : Deps.Coefficients) : Dep.biquad.new c = Deps.DirectForm1.new c := by
  unfold Dep.biquad.new Deps.DirectForm1.new
  simp only [lit0]

/-- the four state assignments of `run`, in source order, are the simultaneous update of the model -/
theorem run_eq (d : Deps.DirectForm1) (x : F32) : Dep.biquad.run d x = Deps.DirectForm1.run d x := rfl

theorem update_coefficients_eq (d : Deps.DirectForm1) (c : Deps.Coefficients) :
    Dep.biquad.update_coefficients d c = Deps.DirectForm1.update_coefficients d c := rfl

theorem hz_eq (x : F32) : Dep.biquad.hz x = Deps.hz x := by
  unfold Dep.biquad.hz Deps.hz
  simp only [lit0]

end Tie.DepBiquad
