import SynthVerif.Gen.Src.phase_accumulator
import SynthVerif.Gen.Src.utils
import SynthVerif.Model.PhaseAcc
/-!
# Tie 1d: `src/phase_accumulator.rs` and `src/utils.rs`, translated by `tools/rs2lean.py`, refine the hand model

`Gen/Src/phase_accumulator.lean` is regenerated from the Rust source on every run.  The theorems below say that each
translated function, run on a well-formed implementation state `s`, returns exactly what the hand-written model function
(`SynthVerif/Model/PhaseAcc.lean`, the one the property theorems are about) returns on the abstraction `abs s` — for
every state and argument.  `WF` records the one redundancy of the implementation state: `rollover_mask` is a function of
the const generic.
-/
open F32 Rs
namespace Tie.PhaseAcc
open Src.phase_accumulator

abbrev S (T I : Nat) := PhaseAccumulator T I

/-- abstraction: implementation state ↦ model state -/
def abs {T I : Nat} (s : S T I) : PhaseAcc :=
  { totalBits := T, indexBits := I, sr := s.sample_rate_hz, acc := s.accumulator, last := s.last_accumulator,
    inc := s.increment, rolled := s.rolled_over }

/-- well-formed implementation state (the crate instantiates 24 total bits, 10 index bits) -/
structure WF {T I : Nat} (s : S T I) : Prop where
  bits : T < 32
  idx : I ≤ T
  mask : s.rollover_mask = 2 ^ T - 1

/-- the result `r` of a translated `&mut self` function is a well-formed state whose abstraction is `m` -/
def Refines {T I : Nat} (r : Option (S T I)) (m : PhaseAcc) : Prop := ∃ s', r = some s' ∧ WF s' ∧ abs s' = m

theorem two_pow_lt {T : Nat} (h : T < 32) : 2 ^ T < 2 ^ 32 := Nat.pow_lt_pow_right (by omega) h

theorem shl_one {T : Nat} (h : T < 32) : ushl 32 1 T = some (2 ^ T) := by
  have := two_pow_lt h
  simp [ushl, h, Nat.shiftLeft_eq, Nat.mod_eq_of_lt this]

theorem lit_one : lit 1 = F32.one := by decide +kernel
theorem lit_zero : lit 0 = F32.zero := by decide +kernel
theorem neg_lit_one : F32.neg (lit 1) = .fin (-1) false := by decide +kernel
theorem lit_two : lit 2 = .fin 2 false := by decide +kernel
theorem lit_three : lit 3 = .fin 3 false := by decide +kernel
theorem lit_four : lit 4 = .fin 4 false := by decide +kernel
theorem lit_half : lit (1 / 2) = .fin (1 / 2) false := by decide +kernel
theorem neg_one : F32.neg F32.one = .fin (-1) false := by decide +kernel

theorem new_tie {T I : Nat} (hT : T < 32) (hI : I ≤ T) (sr : F32) :
    Refines (PhaseAccumulator.new (TOTAL_NUM_BITS := T) (NUM_INDEX_BITS := I) sr) (PhaseAcc.new T I sr) := by
  have h1 : 1 ≤ 2 ^ T := Nat.one_le_two_pow
  refine ⟨{ sample_rate_hz := sr, rollover_mask := 2 ^ T - 1, accumulator := 0, last_accumulator := 0, increment := 0, rolled_over := false }, ?_, ⟨hT, hI, rfl⟩, rfl⟩
  simp [PhaseAccumulator.new, shl_one hT, usub, h1]

theorem tick_tie {T I : Nat} (s : S T I) (h : WF s) :
    (PhaseAccumulator.tick s).map abs = PhaseAcc.tick (abs s) ∧ ∀ s', PhaseAccumulator.tick s = some s' → WF s' := by
  have hm := h.mask
  unfold PhaseAccumulator.tick PhaseAcc.tick
  by_cases hov : s.accumulator + s.increment < 2 ^ 32
  · have hge : ¬ (abs s).acc + (abs s).inc ≥ 2 ^ 32 := by simp only [abs]; omega
    rw [if_neg hge]
    simp only [uadd, chk, U32.bound, hov, if_true, bind, Option.bind, pure]
    by_cases hr : s.rollover_mask < s.accumulator + s.increment
    · simp only [hr, decide_true, if_true]
      refine ⟨?_, fun s' hs' => ?_⟩
      · rw [hm] at hr
        simp only [Option.map_some, abs, PhaseAcc.mask, hm, Nat.and_two_pow_sub_one_eq_mod, hr, decide_true, Bool.or_true]
      · cases hs'; exact ⟨h.bits, h.idx, hm⟩
    · simp only [hr, decide_false]
      refine ⟨?_, fun s' hs' => ?_⟩
      · rw [hm] at hr
        simp only [abs, PhaseAcc.mask, hm, Nat.and_two_pow_sub_one_eq_mod, hr, decide_false, Bool.or_false]
        rfl
      · cases hs'; exact ⟨h.bits, h.idx, hm⟩
  · have hge : (abs s).acc + (abs s).inc ≥ 2 ^ 32 := by simp only [abs]; omega
    rw [if_pos hge]
    simp [uadd, chk, U32.bound, hov, bind, Option.bind]

theorem set_frequency_tie {T I : Nat} (s : S T I) (h : WF s) (f : F32) :
    Refines (PhaseAccumulator.set_frequency s f) ((abs s).setFrequency f) := by
  refine ⟨{ s with increment := F32.toU32 (F32.div (F32.mul (F32.ofNat (2 ^ T)) f) s.sample_rate_hz) }, ?_, ⟨h.bits, h.idx, h.mask⟩, rfl⟩
  simp [PhaseAccumulator.set_frequency, shl_one h.bits]

theorem set_period_tie {T I : Nat} (s : S T I) (h : WF s) (t : F32) :
    Refines (PhaseAccumulator.set_period s t) ((abs s).setPeriod t) := by
  obtain ⟨s', h1, h2, h3⟩ := set_frequency_tie s h (F32.div (lit 1) t)
  refine ⟨s', ?_, h2, ?_⟩
  · simp [PhaseAccumulator.set_period, h1]
  · rw [h3, lit_one]; rfl

theorem reset_tie {T I : Nat} (s : S T I) (h : WF s) : Refines (PhaseAccumulator.reset s) (abs s).reset :=
  ⟨_, rfl, ⟨h.bits, h.idx, h.mask⟩, rfl⟩

theorem set_phase_eq {T I : Nat} (s : S T I) (p : F32) :
    PhaseAccumulator.set_phase s p = some { s with
      accumulator := F32.toU32 (F32.mul (F32.ofNat s.rollover_mask)
        (F32.fmod (if F32.lt p (lit 0) then F32.mul p (F32.neg (lit 1)) else p) (lit 1))),
      last_accumulator := 0, rolled_over := false } := by
  unfold PhaseAccumulator.set_phase PhaseAccumulator.reset
  by_cases hp : F32.lt p (lit 0) = true <;> simp [hp]

theorem set_phase_tie {T I : Nat} (s : S T I) (h : WF s) (p : F32) :
    Refines (PhaseAccumulator.set_phase s p) ((abs s).setPhase p) := by
  refine ⟨_, set_phase_eq s p, ⟨h.bits, h.idx, h.mask⟩, ?_⟩
  simp only [abs, PhaseAcc.setPhase, PhaseAcc.reset, PhaseAcc.mask, h.mask, lit_one, lit_zero, neg_one]

theorem ramp_tie {T I : Nat} (s : S T I) (h : WF s) : PhaseAccumulator.ramp s = some (abs s).ramp := by
  simp [PhaseAccumulator.ramp, shl_one h.bits, abs, PhaseAcc.ramp]

theorem index_tie {T I : Nat} (s : S T I) (h : WF s) : PhaseAccumulator.index s = some (abs s).index := by
  have : T - I < 32 := by have := h.bits; omega
  simp [PhaseAccumulator.index, usub, h.idx, ushr, this, abs, PhaseAcc.index, Nat.shiftRight_eq_div_pow]

theorem fraction_tie {T I : Nat} (s : S T I) (h : WF s) : PhaseAccumulator.fraction s = some (abs s).fraction := by
  have h3 : T - I < 32 := by have := h.bits; omega
  have h1 : 1 ≤ 2 ^ (T - I) := Nat.one_le_two_pow
  have h2 := two_pow_lt h3
  have h4 : 2 ^ (T - I) - 1 + 1 = 2 ^ (T - I) := by omega
  simp [PhaseAccumulator.fraction, usub, h.idx, shl_one h3, h1, uadd, chk, U32.bound, h4, h2, abs, PhaseAcc.fraction,
    Nat.and_two_pow_sub_one_eq_mod]

theorem rolled_over_tie {T I : Nat} (s : S T I) (h : WF s) :
    ∃ s' b, PhaseAccumulator.rolled_over_fn s = some (s', b) ∧ WF s' ∧ (b, abs s') = (abs s).rolledOver := by
  unfold PhaseAccumulator.rolled_over_fn
  cases hr : s.rolled_over
  · exact ⟨s, false, by simp [hr], h, by simp [PhaseAcc.rolledOver, abs, hr]⟩
  · exact ⟨{ s with rolled_over := false }, true, by simp [hr], ⟨h.bits, h.idx, h.mask⟩, by simp [PhaseAcc.rolledOver, abs, hr]⟩

/-! ## `utils.rs` -/

theorem linear_interp_tie (y0 y1 f : F32) : Src.utils.linear_interp y0 y1 f = some (linearInterp y0 y1 f) := rfl

theorem fabs_tie (v : F32) : Src.utils.fabs v = some (F32.fabs v) := by
  unfold Src.utils.fabs F32.fabs
  rw [lit_zero]
  split <;> rfl

end Tie.PhaseAcc
