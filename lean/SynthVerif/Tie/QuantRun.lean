import SynthVerif.Tie.QuantSearch
/-!
# Tie 1d, `quantizer.rs`: whole call histories of the public API

`Op` is what a caller can do: build notes with `Note::new(n)` for any `u8` and pass them to `allow` / `forbid`, and
convert voltages.  `run_tie`: the translated source and the model produce the same sequence of conversion records and
end in the same state, for every history (including the `forbid(&[])` panic).
-/
open F32 Rs
namespace Tie.Quant
open Src.quantizer

inductive Op
  | allow (ns : List Nat)      -- raw `u8` arguments of `Note::new`
  | forbid (ns : List Nat)
  | convert (v : F32)

/-- `ns.map Note::new` on the translated source -/
def mkNotes (ns : List Nat) : List Note := ns.map fun n => ⟨_root_.Quantizer.noteNew n⟩

theorem mkNotes_src (ns : List Nat) : ns.mapM Note.new = some (mkNotes ns) := by
  induction ns with
  | nil => rfl
  | cons n ns ih => simp [List.mapM_cons, note_new_tie, ih, mkNotes]

theorem mkNotes_ok (ns : List Nat) : ∀ n ∈ mkNotes ns, NoteOk n := by
  intro n hn
  simp only [mkNotes, List.mem_map] at hn
  obtain ⟨m, _, rfl⟩ := hn
  exact note_new_ok m

theorem mkNotes_vals (ns : List Nat) : (mkNotes ns).map (·._0) = ns.map _root_.Quantizer.noteNew := by
  simp [mkNotes, List.map_map, Function.comp_def]

def stepSrc (s : Src.quantizer.Quantizer) : Op → Option (Src.quantizer.Quantizer × Option Src.quantizer.Conversion)
  | .allow ns => do let notes ← ns.mapM Note.new; let s' ← Src.quantizer.Quantizer.allow s notes; pure (s', none)
  | .forbid ns => do let notes ← ns.mapM Note.new; let s' ← Src.quantizer.Quantizer.forbid s notes; pure (s', none)
  | .convert v => do let r ← Src.quantizer.Quantizer.convert s v; pure (r.1, some r.2)

def stepModel (q : _root_.Quantizer) : Op → Option (_root_.Quantizer × Option _root_.Conversion)
  | .allow ns => some (q.allow (ns.map _root_.Quantizer.noteNew), none)
  | .forbid ns => (q.forbid (ns.map _root_.Quantizer.noteNew)).map (·, none)
  | .convert v => some ((q.convert v).1, some (q.convert v).2)

theorem step_tie (s : Src.quantizer.Quantizer) (o : Op) :
    (stepSrc s o).map (fun r => (abs r.1, r.2.map absConv)) = stepModel (abs s) o := by
  cases o with
  | allow ns =>
    have := allow_tie (mkNotes ns) (mkNotes_ok ns) s
    rw [mkNotes_vals] at this
    simp only [stepSrc, stepModel, mkNotes_src, bind, Option.bind_some, pure]
    cases h : Src.quantizer.Quantizer.allow s (mkNotes ns) with
    | none => rw [h] at this; simp at this
    | some s' => rw [h] at this; simp at this; simp [this]
  | forbid ns =>
    have := forbid_tie (mkNotes ns) (mkNotes_ok ns) s
    rw [mkNotes_vals] at this
    simp only [stepSrc, stepModel, mkNotes_src, bind, Option.bind_some, pure]
    cases h : Src.quantizer.Quantizer.forbid s (mkNotes ns) with
    | none => rw [h] at this; simp at this; simp [← this]
    | some s' => rw [h] at this; simp at this; simp [← this]
  | convert v =>
    have := convert_tie search_tie s v
    simp only [stepSrc, stepModel, bind, pure]
    cases h : Src.quantizer.Quantizer.convert s v with
    | none => rw [h] at this; simp at this
    | some r => rw [h] at this; simp at this; simp [← this]

def runSrc (s : Src.quantizer.Quantizer) : List Op → Option (Src.quantizer.Quantizer × List Src.quantizer.Conversion)
  | [] => some (s, [])
  | o :: os => match stepSrc s o with
    | none => none
    | some (s', c) => (runSrc s' os).map fun r => (r.1, c.toList ++ r.2)

def runModel (q : _root_.Quantizer) : List Op → Option (_root_.Quantizer × List _root_.Conversion)
  | [] => some (q, [])
  | o :: os => match stepModel q o with
    | none => none
    | some (q', c) => (runModel q' os).map fun r => (r.1, c.toList ++ r.2)

/-- same end state, same conversion records, same panics — for every history of API calls -/
theorem run_tie (ops : List Op) (s : Src.quantizer.Quantizer) :
    (runSrc s ops).map (fun r => (abs r.1, r.2.map absConv)) = runModel (abs s) ops := by
  induction ops generalizing s with
  | nil => rfl
  | cons o os ih =>
    have h1 := step_tie s o
    cases hs : stepSrc s o with
    | none => rw [hs] at h1; simp only [Option.map_none] at h1; simp [runSrc, runModel, hs, ← h1]
    | some r =>
      obtain ⟨s', c⟩ := r
      rw [hs] at h1; simp only [Option.map_some] at h1
      simp only [runSrc, runModel, hs, ← h1, ← ih s']
      cases runSrc s' os with
      | none => rfl
      | some r2 => cases c <;> simp

theorem new_run_tie (ops : List Op) :
    ((Src.quantizer.Quantizer.new).bind (runSrc · ops)).map (fun r => (abs r.1, r.2.map absConv)) =
      runModel _root_.Quantizer.new ops := by
  have h := new_tie
  cases hn : Src.quantizer.Quantizer.new with
  | none => rw [hn] at h; simp at h
  | some s0 =>
    rw [hn] at h; simp only [Option.map_some, Option.some.injEq] at h
    rw [Option.bind_some, ← h]; exact run_tie ops s0

end Tie.Quant
