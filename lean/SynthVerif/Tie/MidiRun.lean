import SynthVerif.Tie.Midi
import SynthVerif.Model.MidiEv
import SynthVerif.Props.C05
/-!
# Tie 1d, `mono_midi_receiver.rs`: whole histories of the public API (bytes, edge polls, mode changes), and C05 for the
translated source
-/
open F32 Rs
namespace Tie.Midi
open Src.mono_midi_receiver

/-- what a caller can do -/
inductive Ev
  | byte (b : Nat) | pollRising | pollFalling
  | setRetrigger (m : RetriggerMode) | setPriority (p : Src.mono_midi_receiver.NotePriority)

def Ev.toModel : Ev → MidiEv
  | .byte b => .byte b | .pollRising => .pollRising | .pollFalling => .pollFalling
  | .setRetrigger m => .setRetrigger (m == .AllowRetrigger) | .setPriority p => .setPriority (absPrio p)

def stepSrc (s : MonoMidiReceiver) : Ev → Option (MonoMidiReceiver × Option Bool)
  | .byte b => (MonoMidiReceiver.parse s b).map fun s' => (s', none)
  | .pollRising => (MonoMidiReceiver.rising_gate_fn s).map fun r => (r.1, some r.2)
  | .pollFalling => (MonoMidiReceiver.falling_gate_fn s).map fun r => (r.1, some r.2)
  | .setRetrigger m => (MonoMidiReceiver.set_retrigger_mode s m).map fun s' => (s', none)
  | .setPriority p => (MonoMidiReceiver.set_note_priority s p).map fun s' => (s', none)

def runSrc (s : MonoMidiReceiver) : List Ev → Option (MonoMidiReceiver × List Bool)
  | [] => some (s, [])
  | e :: es => match stepSrc s e with
    | none => none
    | some (s', o) => match runSrc s' es with
      | none => none
      | some (s'', os) => some (s'', match o with | some b => b :: os | none => os)

theorem step_tie (s : MonoMidiReceiver) (e : Ev) :
    (stepSrc s e).map (fun r => (abs r.1, r.2)) = some ((abs s).stepEv e.toModel) := by
  cases e with
  | byte b =>
    have h := parse_tie s b
    cases hp : MonoMidiReceiver.parse s b with
    | none => rw [hp] at h; simp at h
    | some s' => rw [hp] at h; simp only [Option.map_some, Option.some.injEq] at h; simp [stepSrc, hp, h, _root_.Midi.stepEv, Ev.toModel]
  | pollRising =>
    have h := rising_tie s
    cases hp : MonoMidiReceiver.rising_gate_fn s with
    | none => rw [hp] at h; simp at h
    | some r =>
      rw [hp] at h; simp only [Option.map_some, Option.some.injEq] at h
      simp [stepSrc, hp, _root_.Midi.stepEv, Ev.toModel, ← h]
  | pollFalling =>
    have h := falling_tie s
    cases hp : MonoMidiReceiver.falling_gate_fn s with
    | none => rw [hp] at h; simp at h
    | some r =>
      rw [hp] at h; simp only [Option.map_some, Option.some.injEq] at h
      simp [stepSrc, hp, _root_.Midi.stepEv, Ev.toModel, ← h]
  | setRetrigger m =>
    have h := set_retrigger_tie s m
    cases hp : MonoMidiReceiver.set_retrigger_mode s m with
    | none => rw [hp] at h; simp at h
    | some s' => rw [hp] at h; simp only [Option.map_some, Option.some.injEq] at h; simp [stepSrc, hp, h, _root_.Midi.stepEv, Ev.toModel]
  | setPriority p =>
    have h := set_priority_tie s p
    cases hp : MonoMidiReceiver.set_note_priority s p with
    | none => rw [hp] at h; simp at h
    | some s' => rw [hp] at h; simp only [Option.map_some, Option.some.injEq] at h; simp [stepSrc, hp, h, _root_.Midi.stepEv, Ev.toModel]

/-- every history of API calls: no panic, same final state, same poll results -/
theorem run_tie (es : List Ev) (s : MonoMidiReceiver) :
    (runSrc s es).map (fun r => (abs r.1, r.2)) = some ((abs s).runEv (es.map Ev.toModel)) := by
  induction es generalizing s with
  | nil => rfl
  | cons e es ih =>
    have h1 := step_tie s e
    cases hs : stepSrc s e with
    | none => rw [hs] at h1; simp at h1
    | some r =>
      obtain ⟨s', o⟩ := r
      rw [hs] at h1; simp only [Option.map_some, Option.some.injEq] at h1
      have h2 := ih s'
      cases hr : runSrc s' es with
      | none => rw [hr] at h2; simp at h2
      | some r2 =>
        obtain ⟨s'', os⟩ := r2
        rw [hr] at h2; simp only [Option.map_some, Option.some.injEq] at h2
        simp only [runSrc, hs, hr, Option.map_some, List.map_cons, _root_.Midi.runEv, ← h1, ← h2]
        cases o <;> rfl

/-- C05 for the translated source: from `MonoMidiReceiver::new(ch)`, for every interleaving of bytes, edge polls and mode
changes, the polls return exactly what the two edge latches of the specification hold. -/
theorem src_polls_are_latches (ch : Nat) (es : List Ev) :
    ∃ s' os, (MonoMidiReceiver.new ch).bind (runSrc · es) = some (s', os) ∧
      os = C05.specPolls (_root_.Midi.new ch) {} (es.map Ev.toModel) := by
  have hn := new_tie ch
  cases hnew : MonoMidiReceiver.new ch with
  | none => rw [hnew] at hn; simp at hn
  | some s0 =>
    rw [hnew] at hn; simp only [Option.map_some, Option.some.injEq] at hn
    have h := run_tie es s0
    cases hr : runSrc s0 es with
    | none => rw [hr] at h; simp at h
    | some r =>
      obtain ⟨s', os⟩ := r
      rw [hr] at h; simp only [Option.map_some, Option.some.injEq] at h
      refine ⟨s', os, by simp [hr], ?_⟩
      have := C05.polls_are_latches ch (es.map Ev.toModel)
      rw [← this, ← hn, ← h]

end Tie.Midi
