import SynthVerif.Src.Prelude
/-! Dependency crates as seen from the translated source (filled in per module). -/
