import SynthVerif.Src.Prelude
import SynthVerif.Model.Ribbon
import SynthVerif.Model.Midi
/-!
# Dependency crates as the translated source sees them   (hand-written; no Mathlib)

The translator (`tools/rs2lean.py`) translates the crate's own source.  Calls into the dependency crates are mapped to the
definitions below, written by hand after the dependencies' source (versions pinned by /repo/Cargo.lock) at the level the
crate uses them.  They are part of the trusted base of tie 1d and are validated, like the whole model, by the
bit-exact correspondence runs (the harness calls the real dependency code).

* `heapless::HistoryBuffer<f32, N>` is `HistBuf` of `Model/Ribbon.lean`; `Iterator::sum::<f32>()` is `Deps.fsum`.
* `midi-convert` / `midi-types`: the byte parser is `parserStep` / `ParserState` / `MidiMsg` of `Model/Midi.lean`; the
  value newtypes (`Channel`, `Note`, `Value7`, `Control`) are their `u8`; `f32::from(Value14)` is `value14ToF32`.
  `heapless::Vec<u8, N>` is a `List` with a capacity check on `push`; `Iterator::max` / `min` are `Deps.iterMax` / `iterMin`.
* `biquad 0.4.2`: `Hertz<f32>`, `ToHertz::hz`, `Coefficients::<f32>::from_params` for the filter type in use,
  `DirectForm1::<f32>` (`new`, `run`, `update_coefficients`).
-/
open F32

instance : Inhabited HistBuf := ⟨HistBuf.new 0⟩

namespace Deps

/-- `Iterator::sum::<f32>()`: folds `+` from the additive identity the standard library uses (`Gen.sumInitBits`, read
from the compiled crate) -/
def fsum (xs : List F32) : F32 := xs.foldl F32.add (F32.ofBits Gen.sumInitBits)

/-- `biquad::Hertz<f32>` -/
structure Hertz where
  v : F32
deriving Inhabited

/-- `x.hz()` = `Hertz::<f32>::from_hz(x).unwrap()`: panics unless `x > 0` -/
def hz (x : F32) : Option Hertz := if F32.lt F32.zero x then some ⟨x⟩ else none

inductive FilterType | SinglePoleLowPassApprox | SinglePoleLowPass | LowPass
deriving DecidableEq, Inhabited

/-- `biquad::Coefficients<f32>` -/
structure Coefficients where
  a1 : F32
  a2 : F32
  b0 : F32
  b1 : F32
  b2 : F32
deriving Inhabited

def two : F32 := .fin 2 false
def pi32 : F32 := F32.ofBits Gen.piBits

/-- `Coefficients::<f32>::from_params(filter, fs, f0, q)`; `none` = `Err(_)` (the crate `unwrap`s it).  Only the filter
type the crate uses is described; any other type is `none`, i.e. nothing is claimed about it. -/
def from_params (filter : FilterType) (fs f0 : Hertz) (q : F32) : Option Coefficients :=
  if F32.lt fs.v (F32.mul two f0.v) then none            -- Err(OutsideNyquist)
  else if F32.lt q F32.zero then none                    -- Err(NegativeQ)
  else
    let omega := F32.div (F32.mul (F32.mul two pi32) f0.v) fs.v
    match filter with
    | .SinglePoleLowPassApprox =>
      let alpha := F32.div omega (F32.add omega F32.one)
      some { a1 := F32.sub alpha F32.one, a2 := F32.zero, b0 := alpha, b1 := F32.zero, b2 := F32.zero }
    | _ => none

/-- `biquad::DirectForm1<f32>` -/
structure DirectForm1 where
  y1 : F32
  y2 : F32
  x1 : F32
  x2 : F32
  coeffs : Coefficients
deriving Inhabited

def DirectForm1.new (c : Coefficients) : DirectForm1 :=
  { y1 := F32.zero, y2 := F32.zero, x1 := F32.zero, x2 := F32.zero, coeffs := c }

def DirectForm1.update_coefficients (d : DirectForm1) (c : Coefficients) : DirectForm1 := { d with coeffs := c }

/-- `run(input)`: `b0*in + b1*x1 + b2*x2 - a1*y1 - a2*y2`, left to right, every product and sum rounded -/
def DirectForm1.run (d : DirectForm1) (x : F32) : DirectForm1 × F32 :=
  let c := d.coeffs
  let out := F32.sub (F32.sub (F32.add (F32.add (F32.mul c.b0 x) (F32.mul c.b1 d.x1)) (F32.mul c.b2 d.x2)) (F32.mul c.a1 d.y1))
    (F32.mul c.a2 d.y2)
  ({ d with x2 := d.x1, x1 := x, y2 := d.y1, y1 := out }, out)

/-- `Iterator::max()` over `u8`s: `None` for an empty iterator -/
def iterMax : List Nat → Option Nat
  | [] => none
  | x :: xs => some (xs.foldl Nat.max x)

/-- `Iterator::min()` -/
def iterMin : List Nat → Option Nat
  | [] => none
  | x :: xs => some (xs.foldl Nat.min x)

end Deps
