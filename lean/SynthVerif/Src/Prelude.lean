import SynthVerif.F32.Basic
import SynthVerif.Gen.Consts
import SynthVerif.Gen.Tables
/-!
# Meaning of the Rust primitives that `tools/rs2lean.py` emits   (no Mathlib)

`Gen/Src*.lean` is the crate's own source text, translated function by function into Lean `do` blocks in the `Option`
monad (`none` = the Rust code panics in a build with overflow checks and debug assertions, which is the build the
correspondence harness runs).  This file fixes what the primitive operations of that text mean:

* unsigned integers are `Nat`; `+ - * / % <<` on them are *checked* per Rust type (`U32.add` …: `none` on overflow /
  underflow / division by zero / shift amount ≥ width);  `& | ^ ! >>` and comparisons are total;
* `as` casts: integer → integer truncates (`% 2^bits`), float → integer truncates toward zero and saturates,
  integer → float rounds to nearest even (`F32.ofNat`);
* `f32` operations are those of `SynthVerif/F32/Basic.lean`, the specification the model uses;
* array indexing is bounds checked.
`usize` is 64 bits wide here, as on the host on which the correspondence runs.
-/
open F32

namespace Rs

@[inline] def chk (bound n : Nat) : Option Nat := if n < bound then some n else none

def U8.bound : Nat := 2 ^ 8
def U16.bound : Nat := 2 ^ 16
def U32.bound : Nat := 2 ^ 32
def Usize.bound : Nat := 2 ^ 64

/-- checked `a + b` on an unsigned type with `bound` values -/
def uadd (bound a b : Nat) : Option Nat := chk bound (a + b)
def usub (a b : Nat) : Option Nat := if b ≤ a then some (a - b) else none
def umul (bound a b : Nat) : Option Nat := chk bound (a * b)
def udiv (a b : Nat) : Option Nat := if b = 0 then none else some (a / b)
def urem (a b : Nat) : Option Nat := if b = 0 then none else some (a % b)
/-- `a << s`: Rust checks the shift amount only; bits shifted out are lost -/
def ushl (bits a s : Nat) : Option Nat := if s < bits then some ((a <<< s) % 2 ^ bits) else none
def ushr (bits a s : Nat) : Option Nat := if s < bits then some (a >>> s) else none
/-- `!a` on an unsigned type of `bits` bits -/
def unot (bits a : Nat) : Nat := (2 ^ bits - 1) ^^^ a
/-- integer → integer `as` -/
def ucast (bits a : Nat) : Nat := a % 2 ^ bits

/-- `x as u8` for a float: truncate, saturate, NaN ↦ 0 -/
def f32ToU (bits : Nat) (x : F32) : Nat :=
  match x with
  | .nan => 0
  | .inf s => if s then 0 else 2 ^ bits - 1
  | .fin q _ => if q < 0 then 0 else if q.floor.toNat ≥ 2 ^ bits then 2 ^ bits - 1 else q.floor.toNat

/-- bounds-checked read of a generated table of binary32 bit patterns -/
def tbl (t : Array Nat) (i : Nat) : Option F32 := if i < t.size then some (ofBits (t.getD i 0)) else none

/-- bounds-checked list index -/
def idx {α} (l : List α) (i : Nat) : Option α := l[i]?

/-- `slice[from..]` -/
def sliceFrom {α} (l : List α) (a : Nat) : Option (List α) := if a ≤ l.length then some (l.drop a) else none

/-- a decimal literal as rustc reads it: correctly rounded to binary32 -/
def lit (q : Rat) : F32 := F32.ofRat q

/-- unary minus on a float literal or value -/
def fneg (x : F32) : F32 := F32.neg x

/-- `heapless::Vec::<T, N>::push(x).ok()`: silently refused at capacity -/
def hvPush {α} (cap : Nat) (l : List α) (x : α) : List α := if l.length < cap then l ++ [x] else l

/-- iterations a translated `while` loop is unrolled to; a loop still running then yields `none` (no statement made) -/
theorem uadd_ok {bound a b : Nat} (h : a + b < bound) : uadd bound a b = some (a + b) := by simp [uadd, chk, h]
theorem umul_ok {bound a b : Nat} (h : a * b < bound) : umul bound a b = some (a * b) := by simp [umul, chk, h]
theorem usub_ok {a b : Nat} (h : b ≤ a) : usub a b = some (a - b) := by simp [usub, h]
theorem udiv_ok {a b : Nat} (h : b ≠ 0) : udiv a b = some (a / b) := by simp [udiv, h]
theorem urem_ok {a b : Nat} (h : b ≠ 0) : urem a b = some (a % b) := by simp [urem, h]

def whileFuel : Nat := 64

/-- nesting depth to which a directly recursive function is unrolled -/
def recFuel : Nat := 8

end Rs
