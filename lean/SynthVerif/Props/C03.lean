import SynthVerif.Props.C01
import SynthVerif.Props.Circle
/-!
# C03 — ADSR output is continuous: no steps, no clicks on gate events

The output of a timed phase is `blend L S = fl(fl(fl(1−L)·S) + L)` (attack, decay) or `fl(L·S)` (release) of the
interpolated table sample `S` at the phase position (`C01.tick_value`).
* `blend_lipschitz`, `release_lipschitz`: the output moves by at most the change of the sample plus three roundings.
* `sample_near_ideal`: the sample is within `2^-24 + 2^-30` of the *ideal* (unrounded) piecewise-linear interpolant of
  the table — it is interpolated, not a 1024-step staircase;
* `ideal_step`: the ideal interpolant moves by at most `k·D/2^14` over `k` counter steps, `D` the kernel-checked bound
  on the height of every table cell (`1024·D_attack = 1.8125`, `1024·D_decay = 4.0752`: the steepest slopes).
* `same_phase_step`: hence two consecutive ticks of the same phase differ by at most
  `slope · inc/2^24 + 5·2^-24 + 2^-28`, for every start level, sustain level, position and increment.
* `gate_on_step`, `gate_off_step`: the first tick after a gate event arriving at any moment starts from the level being
  output: same bound.
* Part 2, `C03Boundary.lean`: `boundary_step` — the tick that rolls over into the next phase (attack → decay,
  decay → sustain, release → rest): same bound.
* Part 3, `C03Sustain.lean`: `sustain_change_step` — a sustain level changed between two ticks of the decay adds at
  most the caller's change to the bound.
-/
namespace C03
open F32 AdsrTab C01

/-- the blend is 1-Lipschitz in the sample up to three roundings -/
theorem blend_lipschitz {L S S' : ℚ} (h0 : 0 ≤ L) (h1 : L ≤ 1) (s0 : 0 ≤ S) (s1 : S ≤ 1) (s0' : 0 ≤ S') (s1' : S' ≤ 1) :
    |blend L S' - blend L S| ≤ |S' - S| + (2 ^ (-23:ℤ) + 2 ^ (-24:ℤ)) := by
  obtain ⟨c0, c1, cL⟩ := coeff_range h0 h1
  unfold blend
  set c := rnd (1 - L) with hc
  have cL' := abs_le.mp cL
  have hsmall : (2:ℚ) ^ (-25:ℤ) ≤ 1 / 2 := by norm_num
  have e : ∀ T : ℚ, 0 ≤ T → T ≤ 1 →
      |rnd (rnd (c * T) + L) - (c * T + L)| ≤ 2 ^ (-24:ℤ) + 2 ^ (-25:ℤ) := by
    intro T t0 t1
    have p0 : 0 ≤ c * T := by positivity
    have p1 : c * T ≤ 1 := by nlinarith
    have e1 : |rnd (c * T) - c * T| ≤ 2 ^ (-25:ℤ) := by
      by_cases hp : c * T = 1
      · rw [hp, rnd_rep rep_one]; simp
      · have := rnd_err (x := c * T) (k := 0) (by norm_num)
          (by rw [abs_of_nonneg p0]; norm_num; exact lt_of_le_of_ne p1 hp)
        simpa using this
    have r0 : 0 ≤ rnd (c * T) := rnd_nonneg p0
    have r1 : rnd (c * T) ≤ c := by
      calc rnd (c * T) ≤ rnd c := rnd_mono (by nlinarith)
        _ = c := by rw [hc]; exact rnd_idem _
    have e2 : |rnd (rnd (c * T) + L) - (rnd (c * T) + L)| ≤ 2 ^ (-24:ℤ) := by
      have hlt : rnd (c * T) + L < 2 := by
        have h2 := cL'.2
        calc rnd (c * T) + L ≤ c + L := by linarith
          _ ≤ 1 + 2 ^ (-25:ℤ) := by linarith
          _ ≤ 1 + 1 / 2 := by linarith
          _ < 2 := by norm_num
      have := rnd_err (x := rnd (c * T) + L) (k := 1) (by norm_num)
        (by rw [abs_of_nonneg (by linarith)]; simpa using hlt)
      simpa using this
    have split : rnd (rnd (c * T) + L) - (c * T + L) =
        (rnd (rnd (c * T) + L) - (rnd (c * T) + L)) + (rnd (c * T) - c * T) := by ring
    rw [split]
    have := abs_add_le (rnd (rnd (c * T) + L) - (rnd (c * T) + L)) (rnd (c * T) - c * T)
    linarith
  have eS := e S s0 s1
  have eS' := e S' s0' s1'
  have hcs : |c * S' - c * S| ≤ |S' - S| := by
    rw [← mul_sub, abs_mul, abs_of_nonneg c0]
    calc c * |S' - S| ≤ 1 * |S' - S| := mul_le_mul_of_nonneg_right c1 (abs_nonneg _)
      _ = |S' - S| := one_mul _
  have split : rnd (rnd (c * S') + L) - rnd (rnd (c * S) + L) =
      (rnd (rnd (c * S') + L) - (c * S' + L)) - (rnd (rnd (c * S) + L) - (c * S + L)) + (c * S' - c * S) := by ring
  rw [split]
  have t1 := abs_add_le ((rnd (rnd (c * S') + L) - (c * S' + L)) - (rnd (rnd (c * S) + L) - (c * S + L))) (c * S' - c * S)
  have t2 := abs_sub (rnd (rnd (c * S') + L) - (c * S' + L)) (rnd (rnd (c * S) + L) - (c * S + L))
  have num : (2:ℚ) ^ (-24:ℤ) + 2 ^ (-25:ℤ) + (2 ^ (-24:ℤ) + 2 ^ (-25:ℤ)) = 2 ^ (-23:ℤ) + 2 ^ (-24:ℤ) := by norm_num
  linarith

/-- the release output is 1-Lipschitz in the sample up to two roundings -/
theorem release_lipschitz {L S S' : ℚ} (h0 : 0 ≤ L) (h1 : L ≤ 1) (s0 : 0 ≤ S) (s1 : S ≤ 1) (s0' : 0 ≤ S') (s1' : S' ≤ 1) :
    |rnd (L * S') - rnd (L * S)| ≤ |S' - S| + 2 ^ (-24:ℤ) := by
  have e : ∀ T : ℚ, 0 ≤ T → T ≤ 1 → |rnd (L * T) - L * T| ≤ 2 ^ (-25:ℤ) := by
    intro T t0 t1
    have p0 : 0 ≤ L * T := by positivity
    have p1 : L * T ≤ 1 := by nlinarith
    by_cases hp : L * T = 1
    · rw [hp, rnd_rep rep_one]; simp
    · have := rnd_err (x := L * T) (k := 0) (by norm_num)
        (by rw [abs_of_nonneg p0]; norm_num; exact lt_of_le_of_ne p1 hp)
      simpa using this
  have eS := e S s0 s1
  have eS' := e S' s0' s1'
  have hcs : |L * S' - L * S| ≤ |S' - S| := by
    rw [← mul_sub, abs_mul, abs_of_nonneg h0]
    calc L * |S' - S| ≤ 1 * |S' - S| := mul_le_mul_of_nonneg_right h1 (abs_nonneg _)
      _ = |S' - S| := one_mul _
  have split : rnd (L * S') - rnd (L * S) = (rnd (L * S') - L * S') - (rnd (L * S) - L * S) + (L * S' - L * S) := by ring
  rw [split]
  have t1 := abs_add_le ((rnd (L * S') - L * S') - (rnd (L * S) - L * S)) (L * S' - L * S)
  have t2 := abs_sub (rnd (L * S') - L * S') (rnd (L * S) - L * S)
  have num : (2:ℚ) ^ (-25:ℤ) + 2 ^ (-25:ℤ) = 2 ^ (-24:ℤ) := by norm_num
  linarith

/-! ### the sample is an interpolated curve, not a staircase -/

/-- next table index, clamped at the end (the ADSR tables do not wrap) -/
def nxt (i : ℕ) : ℕ := min (i + 1) 1023

/-- the ideal (unrounded) interpolant of a table along the phase -/
def ideal (T : ℕ → ℚ) (a : ℕ) : ℚ := idealInterp T nxt a

theorem sampleQ_eq (T : ℕ → ℚ) (a : ℕ) :
    sampleQ T a = interpQ (T (a / 2 ^ 14)) (T (nxt (a / 2 ^ 14))) (((a % 2 ^ 14 : ℕ) : ℚ) / 2 ^ 14) := rfl

/-- the rounded sample is within `2^-24 + 2^-30` of the ideal interpolant, for a table with entries in [0,1] and
cells no higher than `D < 2^-7` -/
theorem sample_near_ideal (T : ℕ → ℚ) (D : ℚ) (hD : D < 2 ^ (-7:ℤ)) (hT : ∀ i, i ≤ 1023 → 0 ≤ T i ∧ T i ≤ 1)
    (hcell : ∀ i, i ≤ 1023 → |T (nxt i) - T i| ≤ D) (a : ℕ) (ha : a < 2 ^ 24) :
    |sampleQ T a - ideal T a| ≤ 2 ^ (-24:ℤ) + 2 ^ (-30:ℤ) := by
  have hi : a / 2 ^ 14 ≤ 1023 := by omega
  obtain ⟨f0, f1⟩ := frac_range a
  obtain ⟨y00, y01⟩ := hT _ hi
  have hh := hcell _ hi
  rw [sampleQ_eq]
  unfold ideal idealInterp interpQ
  set y0 := T (a / 2 ^ 14)
  set y1 := T (nxt (a / 2 ^ 14))
  set f := ((a % 2 ^ 14 : ℕ) : ℚ) / 2 ^ 14
  set d := y1 - y0 with hd
  have e1 : |rnd d - d| ≤ 2 ^ (-32:ℤ) := by
    have := rnd_err (x := d) (k := -7) (by norm_num) (lt_of_le_of_lt hh hD)
    norm_num at this ⊢; exact this
  have hrd : |rnd d| ≤ 2 ^ (-7:ℤ) := abs_rnd_le (le_of_lt (lt_of_le_of_lt hh hD)) (rep_pow2 (by norm_num))
  have hprod : |rnd d * f| ≤ 2 ^ (-7:ℤ) := by
    rw [abs_mul, abs_of_nonneg f0]
    calc |rnd d| * f ≤ 2 ^ (-7:ℤ) * 1 := mul_le_mul hrd f1 f0 (by positivity)
      _ = 2 ^ (-7:ℤ) := by ring
  have e2 : |rnd (rnd d * f) - rnd d * f| ≤ 2 ^ (-31:ℤ) := by
    have := rnd_err (x := rnd d * f) (k := -6) (by norm_num) (lt_of_le_of_lt hprod (by norm_num))
    norm_num at this ⊢; exact this
  have hp2 : |rnd (rnd d * f)| ≤ 2 ^ (-7:ℤ) := abs_rnd_le hprod (rep_pow2 (by norm_num))
  have hsum : |y0 + rnd (rnd d * f)| < 2 ^ (1:ℤ) := by
    have a1 := abs_add_le y0 (rnd (rnd d * f))
    have a2 : |y0| ≤ 1 := by rw [abs_le]; constructor <;> linarith
    have : (2:ℚ) ^ (-7:ℤ) < 1 := by norm_num
    norm_num; linarith
  have e3 : |rnd (y0 + rnd (rnd d * f)) - (y0 + rnd (rnd d * f))| ≤ 2 ^ (-24:ℤ) := by
    have := rnd_err (x := y0 + rnd (rnd d * f)) (k := 1) (by norm_num) hsum
    norm_num at this ⊢; exact this
  have e1' : |(rnd d - d) * f| ≤ 2 ^ (-32:ℤ) := by
    rw [abs_mul, abs_of_nonneg f0]
    calc |rnd d - d| * f ≤ 2 ^ (-32:ℤ) * 1 := mul_le_mul e1 f1 f0 (by positivity)
      _ = 2 ^ (-32:ℤ) := by ring
  have split : rnd (y0 + rnd (rnd d * f)) - (y0 + d * (((a % 2 ^ 14 : ℕ) : ℚ)) / 2 ^ 14) =
      (rnd (y0 + rnd (rnd d * f)) - (y0 + rnd (rnd d * f))) + (rnd (rnd d * f) - rnd d * f) + (rnd d - d) * f := by
    ring
  rw [split]
  have t1 := abs_add_le ((rnd (y0 + rnd (rnd d * f)) - (y0 + rnd (rnd d * f))) + (rnd (rnd d * f) - rnd d * f)) ((rnd d - d) * f)
  have t2 := abs_add_le (rnd (y0 + rnd (rnd d * f)) - (y0 + rnd (rnd d * f))) (rnd (rnd d * f) - rnd d * f)
  have num : (2:ℚ) ^ (-31:ℤ) + 2 ^ (-32:ℤ) ≤ 2 ^ (-30:ℤ) := by norm_num
  linarith

/-- one counter step of the ideal interpolant: exactly one 2^-14-th of the cell height, also across a cell boundary -/
theorem ideal_adjacent (T : ℕ → ℚ) (a : ℕ) (ha : a + 1 < 2 ^ 24) :
    ideal T (a + 1) - ideal T a = (T (nxt (a / 2 ^ 14)) - T (a / 2 ^ 14)) / 2 ^ 14 := by
  unfold ideal idealInterp
  by_cases hb : a % 2 ^ 14 = 2 ^ 14 - 1
  · have h1 : (a + 1) / 2 ^ 14 = nxt (a / 2 ^ 14) := by unfold nxt; omega
    have h2 : (a + 1) % 2 ^ 14 = 0 := by omega
    rw [h1, h2, hb]
    push_cast; ring
  · have h1 : (a + 1) / 2 ^ 14 = a / 2 ^ 14 := by omega
    have h2 : (a + 1) % 2 ^ 14 = a % 2 ^ 14 + 1 := by omega
    rw [h1, h2]
    push_cast; ring

/-- `k` counter steps inside the phase move the ideal interpolant by at most `k · D / 2^14` -/
theorem ideal_step (T : ℕ → ℚ) (D : ℚ) (hcell : ∀ i, i ≤ 1023 → |T (nxt i) - T i| ≤ D) (a k : ℕ)
    (h : a + k < 2 ^ 24) : |ideal T (a + k) - ideal T a| ≤ k * (D / 2 ^ 14) := by
  induction k with
  | zero => simp
  | succ k ih =>
    have ih' := ih (by omega)
    have adj := ideal_adjacent T (a + k) (by omega)
    have hi : (a + k) / 2 ^ 14 ≤ 1023 := by omega
    have hc := hcell _ hi
    have hb : |ideal T (a + k + 1) - ideal T (a + k)| ≤ D / 2 ^ 14 := by
      rw [adj, abs_div, abs_of_pos (by positivity : (0:ℚ) < 2 ^ 14)]
      exact div_le_div_of_nonneg_right hc (by positivity)
    have e : a + (k + 1) = a + k + 1 := by omega
    rw [e]
    have tri := abs_add_le (ideal T (a + k + 1) - ideal T (a + k)) (ideal T (a + k) - ideal T a)
    have : ideal T (a + k + 1) - ideal T a = (ideal T (a + k + 1) - ideal T (a + k)) + (ideal T (a + k) - ideal T a) := by ring
    rw [this]; push_cast; linarith

/-! ### the two generated tables: kernel-checked cell heights -/

def DA : ℚ := 177 / 100000
def DD : ℚ := 3976 / 1000000

def heightOk (D : ℚ) (b0 b1 : ℕ) : Bool := decide (|(ofBits b1).val - (ofBits b0).val| ≤ D)

theorem attack_heights : allPairs (heightOk DA) Gen.attackBitsL = true := by decide +kernel
theorem decay_heights : allPairs (heightOk DD) Gen.decayBitsL = true := by decide +kernel

theorem attack_cell_height (i : ℕ) (hi : i ≤ 1023) : |Aq (nxt i) - Aq i| ≤ DA := by
  unfold nxt
  by_cases h : i < 1023
  · have e : min (i + 1) 1023 = i + 1 := by omega
    rw [e]
    have := allPairs_get (heightOk DA) Gen.attackBitsL attack_heights i (by rw [attack_len]; omega)
    simpa [heightOk, Aq] using this
  · have : i = 1023 := by omega
    subst this; norm_num [DA]

theorem decay_cell_height (i : ℕ) (hi : i ≤ 1023) : |Dq (nxt i) - Dq i| ≤ DD := by
  unfold nxt
  by_cases h : i < 1023
  · have e : min (i + 1) 1023 = i + 1 := by omega
    rw [e]
    have := allPairs_get (heightOk DD) Gen.decayBitsL decay_heights i (by rw [decay_len]; omega)
    simpa [heightOk, Dq] using this
  · have : i = 1023 := by omega
    subst this; norm_num [DD]

/-- the sample of either table moves by at most the slope bound plus two sample roundings over `k` counter steps -/
theorem sample_step (T : ℕ → ℚ) (D : ℚ) (hD : D < 2 ^ (-7:ℤ)) (hT : ∀ i, i ≤ 1023 → 0 ≤ T i ∧ T i ≤ 1)
    (hcell : ∀ i, i ≤ 1023 → |T (nxt i) - T i| ≤ D) (a k : ℕ) (h : a + k < 2 ^ 24) :
    |sampleQ T (a + k) - sampleQ T a| ≤ (1024 * D) * k / 2 ^ 24 + (2 ^ (-23:ℤ) + 2 ^ (-29:ℤ)) := by
  have n1 := sample_near_ideal T D hD hT hcell a (by omega)
  have n2 := sample_near_ideal T D hD hT hcell (a + k) h
  have lip := ideal_step T D hcell a k h
  have split : sampleQ T (a + k) - sampleQ T a =
      (sampleQ T (a + k) - ideal T (a + k)) + (ideal T (a + k) - ideal T a) - (sampleQ T a - ideal T a) := by ring
  rw [split]
  have t1 := abs_sub (sampleQ T (a + k) - ideal T (a + k) + (ideal T (a + k) - ideal T a)) (sampleQ T a - ideal T a)
  have t2 := abs_add_le (sampleQ T (a + k) - ideal T (a + k)) (ideal T (a + k) - ideal T a)
  have e : (k:ℚ) * (D / 2 ^ 14) = (1024 * D) * (k:ℚ) / 2 ^ 24 := by norm_num; ring
  have num : (2:ℚ) ^ (-24:ℤ) + 2 ^ (-30:ℤ) + (2 ^ (-24:ℤ) + 2 ^ (-30:ℤ)) = 2 ^ (-23:ℤ) + 2 ^ (-29:ℤ) := by norm_num
  rw [← e, ← num]
  generalize (2:ℚ) ^ (-24:ℤ) = ε at *
  generalize (2:ℚ) ^ (-30:ℤ) = δ at *
  linarith

/-! ### consecutive outputs -/

theorem DA_small : DA < 2 ^ (-7:ℤ) := by unfold DA; norm_num
theorem DD_small : DD < 2 ^ (-7:ℤ) := by unfold DD; norm_num
theorem slopes : 1024 * DA = 1.81248 ∧ 1024 * DD = 4.071424 := by unfold DA DD; norm_num

theorem attack_T (i : ℕ) (hi : i ≤ 1023) : 0 ≤ Aq i ∧ Aq i ≤ 1 := (attack_entry i hi).2
theorem decay_T (i : ℕ) (hi : i ≤ 1023) : 0 ≤ Dq i ∧ Dq i ≤ 1 := (decay_entry i hi).2

/-- slack of one output step: two sample roundings and three blend roundings -/
def slack : ℚ := (2 ^ (-23:ℤ) + 2 ^ (-29:ℤ)) + (2 ^ (-23:ℤ) + 2 ^ (-24:ℤ))

theorem slack_le : slack ≤ 5 * 2 ^ (-24:ℤ) + 2 ^ (-28:ℤ) := by unfold slack; norm_num

/-- **same phase**: two consecutive ticks of one timed phase, no event in between.  `k` is the number of counter
steps the second tick advanced (`= inc`, the increment it computed from the time in force). -/
theorem same_phase_step (a0 a1 a2 : Adsr) (h0 : AInv a0) (e1 : a0.tick = some a1) (e2 : a1.tick = some a2)
    (ht : a1.state.timed = true) (hs : a2.state = a1.state) :
    |a2.value.val - a1.value.val| ≤
      (if a1.state = .attack then 1024 * DA else 1024 * DD) * ((a2.pa.acc - a1.pa.acc : ℕ) : ℚ) / 2 ^ 24 + slack := by
  obtain ⟨i1, v1⟩ := tick_value a0 a1 h0 e1
  obtain ⟨i2, v2⟩ := tick_value a1 a2 i1 e2
  have sp := tick_same_phase a1 a2 i1 e2 ht hs
  have hk : a1.pa.acc + (a2.pa.acc - a1.pa.acc) = a2.pa.acc := by have := sp.acc; omega
  have hlt : a1.pa.acc + (a2.pa.acc - a1.pa.acc) < 2 ^ 24 := by rw [hk]; exact i2.ok.acc
  set k := a2.pa.acc - a1.pa.acc with hkdef
  obtain ⟨ra0, ra1⟩ := attack_rising.sample_range a1.pa.acc i1.ok.acc
  obtain ⟨ra0', ra1'⟩ := attack_rising.sample_range a2.pa.acc i2.ok.acc
  obtain ⟨rd0, rd1⟩ := decay_falling.sample_range a1.pa.acc i1.ok.acc
  obtain ⟨rd0', rd1'⟩ := decay_falling.sample_range a2.pa.acc i2.ok.acc
  have sA := sample_step Aq DA DA_small attack_T attack_cell_height a1.pa.acc k hlt
  have sD := sample_step Dq DD DD_small decay_T decay_cell_height a1.pa.acc k hlt
  rw [hk] at sA sD
  have hs2 := hs
  unfold slack
  cases hst : a1.state
  · rw [hst] at ht; simp [AdsrState.timed] at ht
  · -- attack
    rw [hst] at hs2
    rw [v1, v2, hs2, hst, if_pos rfl]
    dsimp only
    rw [sp.on]
    have hb := blend_lipschitz i1.on.2.1 i1.on.2.2.1 ra0 ra1 ra0' ra1'
    calc |blend a1.onLevel.val (sampleQ Aq a2.pa.acc) - blend a1.onLevel.val (sampleQ Aq a1.pa.acc)|
        ≤ |sampleQ Aq a2.pa.acc - sampleQ Aq a1.pa.acc| + (2 ^ (-23:ℤ) + 2 ^ (-24:ℤ)) := hb
      _ ≤ (1024 * DA * (k:ℚ) / 2 ^ 24 + (2 ^ (-23:ℤ) + 2 ^ (-29:ℤ))) + (2 ^ (-23:ℤ) + 2 ^ (-24:ℤ)) := by linarith [sA]
      _ = 1024 * DA * (k:ℚ) / 2 ^ 24 + (2 ^ (-23:ℤ) + 2 ^ (-29:ℤ) + (2 ^ (-23:ℤ) + 2 ^ (-24:ℤ))) := by ring
  · -- decay
    rw [hst] at hs2
    rw [v1, v2, hs2, hst, if_neg (by decide)]
    dsimp only
    rw [sp.sus]
    have hb := blend_lipschitz i1.sus.2.1 i1.sus.2.2.1 rd0 rd1 rd0' rd1'
    calc |blend a1.sustain.val (sampleQ Dq a2.pa.acc) - blend a1.sustain.val (sampleQ Dq a1.pa.acc)|
        ≤ |sampleQ Dq a2.pa.acc - sampleQ Dq a1.pa.acc| + (2 ^ (-23:ℤ) + 2 ^ (-24:ℤ)) := hb
      _ ≤ (1024 * DD * (k:ℚ) / 2 ^ 24 + (2 ^ (-23:ℤ) + 2 ^ (-29:ℤ))) + (2 ^ (-23:ℤ) + 2 ^ (-24:ℤ)) := by linarith [sD]
      _ = 1024 * DD * (k:ℚ) / 2 ^ 24 + (2 ^ (-23:ℤ) + 2 ^ (-29:ℤ) + (2 ^ (-23:ℤ) + 2 ^ (-24:ℤ))) := by ring
  · rw [hst] at ht; simp [AdsrState.timed] at ht
  · -- release
    rw [hst] at hs2
    rw [v1, v2, hs2, hst, if_neg (by decide)]
    dsimp only
    rw [sp.off]
    have hb := release_lipschitz i1.off.2.1 i1.off.2.2.1 rd0 rd1 rd0' rd1'
    have hnum : (2:ℚ) ^ (-24:ℤ) ≤ 2 ^ (-23:ℤ) + 2 ^ (-24:ℤ) := by norm_num
    calc |rnd (a1.offLevel.val * sampleQ Dq a2.pa.acc) - rnd (a1.offLevel.val * sampleQ Dq a1.pa.acc)|
        ≤ |sampleQ Dq a2.pa.acc - sampleQ Dq a1.pa.acc| + 2 ^ (-24:ℤ) := hb
      _ ≤ (1024 * DD * (k:ℚ) / 2 ^ 24 + (2 ^ (-23:ℤ) + 2 ^ (-29:ℤ))) + (2 ^ (-23:ℤ) + 2 ^ (-24:ℤ)) := by linarith [sD]
      _ = 1024 * DD * (k:ℚ) / 2 ^ 24 + (2 ^ (-23:ℤ) + 2 ^ (-29:ℤ) + (2 ^ (-23:ℤ) + 2 ^ (-24:ℤ))) := by ring

theorem sampleA_zero : sampleQ Aq 0 = 0 := by
  unfold sampleQ
  simp only [Nat.zero_div, Nat.zero_mod, Nat.cast_zero, zero_div]
  rw [interpQ_zero (attack_rising.rep 0)]
  unfold Aq; rw [attack_first]; rfl

/-- **gate-on at any moment**: the first tick of the new attack starts from the level currently being output -/
theorem gate_on_step (a a2 : Adsr) (h : AInv a) (hne : a.state ≠ .attack) (e : a.gateOn.tick = some a2)
    (hs : a2.state = .attack) :
    |a2.value.val - a.value.val| ≤ (1024 * DA) * (a2.pa.acc : ℚ) / 2 ^ 24 + slack := by
  obtain ⟨g1, g2, g3, g4⟩ := (C02.gate_on a).2 hne
  have hg : AInv a.gateOn := by
    obtain ⟨x, ex, ix⟩ := step_inv a h .gateOn trivial
    simp only [C17.step, Option.some.injEq] at ex; subst ex; exact ix
  obtain ⟨i2, v2⟩ := tick_value a.gateOn a2 hg e
  obtain ⟨f1, _, _, _⟩ := tick_fields a.gateOn a2 e
  rw [v2, hs]; simp only
  rw [f1, g3]
  obtain ⟨r0, r1⟩ := attack_rising.sample_range a2.pa.acc i2.ok.acc
  have hb := blend_lipschitz (S := 0) (S' := sampleQ Aq a2.pa.acc) h.val.2.1 h.val.2.2.1 (le_refl _) (by norm_num) r0 r1
  rw [blend_bottom h.val.2.2.2] at hb
  have ss := sample_step Aq DA DA_small attack_T attack_cell_height 0 a2.pa.acc (by simpa using i2.ok.acc)
  rw [Nat.zero_add, sampleA_zero] at ss
  unfold slack
  calc |blend a.value.val (sampleQ Aq a2.pa.acc) - a.value.val|
      ≤ |sampleQ Aq a2.pa.acc - 0| + (2 ^ (-23:ℤ) + 2 ^ (-24:ℤ)) := hb
    _ ≤ (1024 * DA * (a2.pa.acc:ℚ) / 2 ^ 24 + (2 ^ (-23:ℤ) + 2 ^ (-29:ℤ))) + (2 ^ (-23:ℤ) + 2 ^ (-24:ℤ)) := by linarith [ss]
    _ = 1024 * DA * (a2.pa.acc:ℚ) / 2 ^ 24 + (2 ^ (-23:ℤ) + 2 ^ (-29:ℤ) + (2 ^ (-23:ℤ) + 2 ^ (-24:ℤ))) := by ring

/-- **gate-off at any moment**: the first tick of the release starts from the level currently being output -/
theorem gate_off_step (a a2 : Adsr) (h : AInv a) (hst : a.state = .attack ∨ a.state = .decay ∨ a.state = .sustain)
    (e : a.gateOff.tick = some a2) (hs : a2.state = .release) :
    |a2.value.val - a.value.val| ≤ (1024 * DD) * (a2.pa.acc : ℚ) / 2 ^ 24 + slack := by
  obtain ⟨g1, g2, g3, g4⟩ := (C02.gate_off a).2 hst
  have hg : AInv a.gateOff := by
    obtain ⟨x, ex, ix⟩ := step_inv a h .gateOff trivial
    simp only [C17.step, Option.some.injEq] at ex; subst ex; exact ix
  obtain ⟨i2, v2⟩ := tick_value a.gateOff a2 hg e
  obtain ⟨_, f2, _, _⟩ := tick_fields a.gateOff a2 e
  rw [v2, hs]; simp only
  rw [f2, g3]
  obtain ⟨r0, r1⟩ := decay_falling.sample_range a2.pa.acc i2.ok.acc
  have hb := release_lipschitz (S := 1) (S' := sampleQ Dq a2.pa.acc) h.val.2.1 h.val.2.2.1 (by norm_num) (le_refl _) r0 r1
  rw [mul_one, h.val.2.2.2] at hb
  have ss := sample_step Dq DD DD_small decay_T decay_cell_height 0 a2.pa.acc (by simpa using i2.ok.acc)
  rw [Nat.zero_add, sampleD_zero] at ss
  unfold slack
  have hnum : (2:ℚ) ^ (-24:ℤ) ≤ 2 ^ (-23:ℤ) + 2 ^ (-24:ℤ) := by norm_num
  have hsym : |sampleQ Dq a2.pa.acc - 1| = |sampleQ Dq a2.pa.acc - 1| := rfl
  calc |rnd (a.value.val * sampleQ Dq a2.pa.acc) - a.value.val|
      ≤ |sampleQ Dq a2.pa.acc - 1| + 2 ^ (-24:ℤ) := hb
    _ ≤ (1024 * DD * (a2.pa.acc:ℚ) / 2 ^ 24 + (2 ^ (-23:ℤ) + 2 ^ (-29:ℤ))) + (2 ^ (-23:ℤ) + 2 ^ (-24:ℤ)) := by linarith [ss]
    _ = 1024 * DD * (a2.pa.acc:ℚ) / 2 ^ 24 + (2 ^ (-23:ℤ) + 2 ^ (-29:ℤ) + (2 ^ (-23:ℤ) + 2 ^ (-24:ℤ))) := by ring

end C03
