import SynthVerif.Props.C11
/-!
# C11, many ticks: the phase never drifts

`C11.tick_advance` is the one-tick law.  Over `n` ticks with no call in between the counter is *exactly*
`(start + n · increment) mod 2^24` — the error of the realised frequency is the error of the one increment
(`C11.increment_bounds`: at most one f32 rounding too fast, at most that plus one count too slow) and does not accumulate
beyond `n` times that.
-/
open F32
namespace C11

theorem ticks_advance (n : ℕ) (l l' : Lfo) (h : C10.Ok l)
    (hr : C10.runOps l (List.replicate n .tick) = some l') :
    l'.pa.acc = (l.pa.acc + n * l.pa.inc) % 2 ^ 24 ∧ l'.pa.inc = l.pa.inc := by
  induction n generalizing l with
  | zero =>
    have : some l = some l' := hr
    injection this with this; subst this
    simp only [Nat.zero_mul, Nat.add_zero]
    exact ⟨(Nat.mod_eq_of_lt h.acc).symm, trivial⟩
  | succ n ih =>
    have hr' : (match l.tick with | none => none | some l1 => C10.runOps l1 (List.replicate n .tick)) = some l' := hr
    cases ht : l.tick with
    | none => rw [ht] at hr'; simp at hr'
    | some l1 =>
      rw [ht] at hr'
      obtain ⟨a1, i1⟩ := tick_advance l l1 ht
      rw [h.tb] at a1
      have ok1 : C10.Ok l1 := C10.reachable_ok l h [.tick] l1 (by
        show (match l.tick with | none => none | some l' => C10.runOps l' []) = some l1
        rw [ht]; rfl)
      obtain ⟨a2, i2⟩ := ih l1 ok1 hr'
      refine ⟨?_, by rw [i2, i1]⟩
      rw [a2, a1, i1, Nat.mod_add_mod]
      congr 1
      ring

/-- the accumulated phase advance of `n` ticks, in counts, against the ideal `n · 2^24 · f / fs`: off by at most
`n · (x·2^-24 + 2^-150)` upwards and `n · (x·2^-24 + 2^-150 + 1)` downwards, `x = 2^24·f/fs` — linear in `n` with the
per-tick constants of `increment_bounds`, nothing more -/
theorem drift_bound (l : Lfo) (h : C10.Ok l) (φ σ : ℚ) (nf ns : Bool) (hsr : l.pa.sr = .fin σ ns)
    (hφ0 : 0 ≤ φ) (hφσ : φ ≤ σ) (hσ : 0 < σ) (hσ' : σ ≤ 2 ^ (100:ℤ)) (hrep : Rep φ) (n : ℕ) :
    let inc : ℚ := ((l.setFrequency (.fin φ nf)).pa.inc : ℕ)
    let x : ℚ := 2 ^ 24 * φ / σ
    (n : ℚ) * inc ≤ n * x + n * (x * 2 ^ (-24:ℤ) + 2 ^ (-150:ℤ)) ∧
    n * x - n * (x * 2 ^ (-24:ℤ) + 2 ^ (-150:ℤ) + 1) ≤ n * inc := by
  obtain ⟨b1, b2⟩ := increment_bounds l h φ σ nf ns hsr hφ0 hφσ hσ hσ' hrep
  simp only at b1 b2 ⊢
  have hn : (0:ℚ) ≤ n := by positivity
  constructor <;> nlinarith

end C11
