import SynthVerif.Props.Interp
/-!
Kernel-evaluated facts about the generated attack table (regenerated from the compiled crate on every run):
every cell rises, stays inside [0,1] and its interpolated far end does not pass the next entry.
-/
namespace AdsrTab
open F32

/-- one cell `(T[i], T[i+1])` of a rising table -/
def riseOk (b0 b1 : ℕ) : Bool :=
  (ofBits b0).isFin && (ofBits b1).isFin &&
  decide (0 ≤ (ofBits b0).val) && decide ((ofBits b1).val ≤ 1) &&
  decide (0 ≤ rnd ((ofBits b1).val - (ofBits b0).val)) &&
  decide (interpQ (ofBits b0).val (ofBits b1).val 1 ≤ (ofBits b1).val)

theorem attack_len : Gen.attackBitsL.length = 1024 := by decide +kernel
theorem attack_cells : allPairs riseOk Gen.attackBitsL = true := by decide +kernel
theorem attack_first : ofBits (Gen.attackBitsL.getD 0 0) = zero := by decide +kernel
theorem attack_last : ofBits (Gen.attackBitsL.getD 1023 0) = one := by decide +kernel

end AdsrTab
