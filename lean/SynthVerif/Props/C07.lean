import SynthVerif.Props.QuantLemmas
import SynthVerif.F32.Ops
import Mathlib.Tactic.NormNum
import Mathlib.Tactic.Linarith
/-!
# C07 — Quantizer never outputs a forbidden note

`QInv`: the scale bitfield uses only its 12 low bits and is not empty.  It holds initially and is preserved by
`allow` and `forbid` (`forbid` cannot panic under it, and a `forbid` that would empty the scale leaves the last
note of its argument allowed).  `convert_allowed`: under `QInv`, for **every** input value (any f32, NaN and
infinities included) and any cached previous conversion, the reported note has a pitch class that is allowed at
the time of the call.  `history_allowed`: hence for every history of allow / forbid / convert calls.
-/
namespace C07
open F32 Quantizer

def QInv (q : Quantizer) : Prop := q.allowed < 2 ^ 12 ∧ q.allowed ≠ 0

theorem bit_eq_testBit (a n : Nat) : bit a n = a.testBit n := by
  rw [Bool.eq_iff_iff]
  simp [bit, Nat.shiftRight_eq_div_pow, Nat.testBit_eq_decide_div_mod_eq]

theorem inv_new : QInv Quantizer.new := by unfold QInv; decide

/-- under the invariant some pitch class 0..11 is allowed -/
theorem exists_allowed {q : Quantizer} (h : QInv q) : ∃ n, n < 12 ∧ bit q.allowed n = true := by
  obtain ⟨i, hi⟩ := Nat.exists_testBit_of_ne_zero h.2
  refine ⟨i, ?_, by rw [bit_eq_testBit]; exact hi⟩
  by_contra hge
  have : q.allowed < 2 ^ i := lt_of_lt_of_le h.1 (Nat.pow_le_pow_right (by norm_num) (by omega))
  rw [Nat.testBit_lt_two_pow this] at hi
  exact absurd hi (by decide)

/-! ### scale edits -/

theorem bit_allow_one (a n k : Nat) : bit (a ||| (1 <<< n)) k = (bit a k || decide (n = k)) := by
  simp [bit_eq_testBit, Nat.one_shiftLeft, Nat.testBit_two_pow]

theorem bit_forbid_one (a n k : Nat) (hk : k < 16) :
    bit (a &&& (0xffff ^^^ (1 <<< n))) k = (bit a k && !decide (n = k)) := by
  have e : (0xffff : Nat) = 2 ^ 16 - 1 := rfl
  rw [e]
  simp only [bit_eq_testBit, Nat.one_shiftLeft, Nat.testBit_and, Nat.testBit_xor, Nat.testBit_two_pow,
    Nat.testBit_two_pow_sub_one, hk, decide_true, Bool.true_xor]

theorem allow_lt (q : Quantizer) (ns : List Nat) (hns : ∀ n ∈ ns, n < 12) (h : q.allowed < 2 ^ 12) :
    (q.allow ns).allowed < 2 ^ 12 := by
  simp only [Quantizer.allow]
  induction ns generalizing q with
  | nil => simpa using h
  | cons n ns ih =>
    simp only [List.foldl_cons]
    refine ih { q with allowed := q.allowed ||| (1 <<< n) } (fun x hx => hns x (by simp [hx])) ?_
    apply Nat.or_lt_two_pow h
    rw [Nat.one_shiftLeft]
    exact Nat.pow_lt_pow_right (by norm_num) (hns n (by simp))

/-- what `allow` does: exactly the listed pitch classes are added -/
theorem allow_spec (q : Quantizer) (ns : List Nat) (k : Nat) :
    bit (q.allow ns).allowed k = (bit q.allowed k || decide (k ∈ ns)) := by
  simp only [Quantizer.allow]
  induction ns generalizing q with
  | nil => simp
  | cons n ns ih =>
    simp only [List.foldl_cons, List.mem_cons]
    rw [ih { q with allowed := q.allowed ||| (1 <<< n) }]
    simp only [bit_allow_one]
    have : decide (n = k) = decide (k = n) := by simp [eq_comm]
    rw [this, Bool.or_assoc, Bool.decide_or]

theorem allow_ne_zero (q : Quantizer) (ns : List Nat) (h : q.allowed ≠ 0) : (q.allow ns).allowed ≠ 0 := by
  obtain ⟨i, hi⟩ := Nat.exists_testBit_of_ne_zero h
  have : bit (q.allow ns).allowed i = true := by rw [allow_spec, bit_eq_testBit, hi]; rfl
  intro hz; rw [hz] at this; simp [bit] at this

theorem allow_inv (q : Quantizer) (ns : List Nat) (hns : ∀ n ∈ ns, n < 12) (h : QInv q) : QInv (q.allow ns) :=
  ⟨allow_lt q ns hns h.1, allow_ne_zero q ns h.2⟩

private theorem forbid_fold_le (ns : List Nat) (a : Nat) :
    ns.foldl (fun a n => a &&& (0xffff ^^^ (1 <<< n))) a ≤ a := by
  induction ns generalizing a with
  | nil => simp
  | cons n ns ih => simp only [List.foldl_cons]; exact le_trans (ih _) Nat.and_le_left

/-- what the clearing pass of `forbid` does -/
theorem forbid_fold_spec (ns : List Nat) (a k : Nat) (hk : k < 16) :
    bit (ns.foldl (fun a n => a &&& (0xffff ^^^ (1 <<< n))) a) k = (bit a k && !decide (k ∈ ns)) := by
  induction ns generalizing a with
  | nil => simp
  | cons n ns ih =>
    simp only [List.foldl_cons, List.mem_cons]
    rw [ih, bit_forbid_one _ _ _ hk]
    have : decide (n = k) = decide (k = n) := by simp [eq_comm]
    rw [this, Bool.and_assoc, Bool.decide_or, Bool.not_or]

/-- `forbid` never panics when the scale is non-empty, keeps the invariant, and -- if it would have emptied the
scale -- leaves the last note of its argument allowed -/
theorem forbid_inv (q : Quantizer) (ns : List Nat) (hns : ∀ n ∈ ns, n < 12) (h : QInv q) :
    ∃ q', q.forbid ns = some q' ∧ QInv q' ∧
      ((ns.foldl (fun a n => a &&& (0xffff ^^^ (1 <<< n))) q.allowed = 0) →
        ∃ l, ns.getLast? = some l ∧ bit q'.allowed l = true) := by
  unfold Quantizer.forbid
  dsimp only
  split
  · rename_i hz
    simp only [beq_iff_eq] at hz
    cases hl : ns.getLast? with
    | none =>
      have : ns = [] := by simpa using hl
      subst this
      simp only [List.foldl_nil] at hz
      exact absurd hz h.2
    | some n =>
      have hn : n < 12 := hns n (List.mem_of_getLast? hl)
      refine ⟨_, rfl, ?_, fun _ => ⟨n, rfl, ?_⟩⟩
      · constructor
        · simp only [Quantizer.allow, List.foldl_cons, List.foldl_nil, hz]
          rw [Nat.zero_or, Nat.one_shiftLeft]
          exact Nat.pow_lt_pow_right (by norm_num) hn
        · have : bit (({ q with allowed := ns.foldl (fun a n => a &&& (0xffff ^^^ (1 <<< n))) q.allowed } : Quantizer).allow [n]).allowed n = true := by
            simp [Quantizer.allow, bit_allow_one]
          intro h0; rw [h0] at this; simp [bit] at this
      · simp [Quantizer.allow, bit_allow_one]
  · rename_i hz
    have hz' : ns.foldl (fun a n => a &&& (0xffff ^^^ (1 <<< n))) q.allowed ≠ 0 := by simpa using hz
    exact ⟨_, rfl, ⟨lt_of_le_of_lt (forbid_fold_le ns q.allowed) h.1, hz'⟩, fun h0 => absurd h0 hz'⟩

/-! ### conversions -/

theorem vMax_eq : vMax = .fin 10 false := by decide +kernel
theorem octave_f32 : ofNat Gen.oneOctaveUv = .fin 1000000 false := by decide +kernel

/-- the clamped input is a finite value in [0, 10], for every f32 input -/
theorem clamped_range (v : F32) : ∃ q nz, fmin (fmax v zero) vMax = .fin q nz ∧ 0 ≤ q ∧ q ≤ 10 := by
  rw [vMax_eq]
  cases v with
  | nan => exact ⟨0, false, by simp [fmax, fmin, zero, mixedZeros, lt], le_refl _, by norm_num⟩
  | inf s =>
    cases s
    · exact ⟨10, false, by simp [fmax, fmin, zero, mixedZeros, lt], by norm_num, le_refl _⟩
    · exact ⟨0, false, by simp [fmax, fmin, zero, mixedZeros, lt], le_refl _, by norm_num⟩
  | fin q nz =>
    by_cases h0 : q = 0
    · subst h0
      cases nz
      · exact ⟨0, false, by simp [fmax, fmin, zero, mixedZeros, lt], le_refl _, by norm_num⟩
      · exact ⟨0, false, by simp [fmax, fmin, zero, mixedZeros, lt], le_refl _, by norm_num⟩
    · have hq : (q == 0) = false := by simpa using h0
      by_cases h1 : q < 0
      · exact ⟨0, false, by simp [fmax, fmin, zero, mixedZeros, lt, hq, h1], le_refl _, by norm_num⟩
      · by_cases h2 : (10:ℚ) < q
        · exact ⟨10, false, by simp [fmax, fmin, zero, mixedZeros, lt, hq, h1, h2], by norm_num, le_refl _⟩
        · refine ⟨q, nz, by simp [fmax, fmin, zero, mixedZeros, lt, hq, h1, h2], not_lt.mp h1, not_lt.mp h2⟩

/-- the µV value the search runs on never exceeds 10 V -/
theorem microvolts_le (v : F32) : toMicrovolts (fmin (fmax v zero) vMax) ≤ 10000000 := by
  obtain ⟨q, nz, hq, h0, h10⟩ := clamped_range v
  rw [hq, toMicrovolts, octave_f32, mul_fin]
  have hx : q * 1000000 ≤ 10000000 := by linarith
  have hx0 : 0 ≤ q * 1000000 := by positivity
  have hr : rnd (q * 1000000) ≤ 10000000 := by
    have := rnd_le_of_le hx (by simpa using rep_int (n := 10000000) (by norm_num))
    simpa using this
  have hr0 : 0 ≤ rnd (q * 1000000) := rnd_nonneg hx0
  have hov : |rnd (q * 1000000)| < 2 ^ (128:ℤ) := by
    rw [abs_of_nonneg hr0]; exact lt_of_le_of_lt hr (by norm_num)
  rw [round_def, qabs_eq, pow2_eq, if_neg (not_le.mpr hov)]
  split
  · exact toU32_fin_le 0 _ 10000000 (by norm_num) (by norm_num)
  · exact toU32_fin_le _ _ 10000000 (by exact_mod_cast hr) (by norm_num)

theorem decode (n oct : Nat) (hn : n < 12) (ho : oct ≤ 11) :
    ((n * Gen.halfStepUv + oct * Gen.oneOctaveUv) / Gen.halfStepUv) % 256 % 12 = n := by
  obtain ⟨h1, h2, _⟩ := consts
  rw [h1, h2]
  have e : (n * 83333 + oct * 1000000) / 83333 = n + 12 * oct := by omega
  have e2 : (n + 12 * oct) % 256 = n + 12 * oct := by omega
  have e3 : (n + 12 * oct) % 12 = n := by omega
  rw [e, e2, e3]

/-- the search returns a note whose pitch class is allowed -/
theorem findNearestUv_allowed (allowed vin : Nat) (ha : ∃ n, n < 12 ∧ bit allowed n = true) (hv : vin ≤ 10000000) :
    bit allowed (findNearestUv allowed vin % 12) = true := by
  obtain ⟨h1, h2, h3⟩ := consts
  have ho : vin / Gen.oneOctaveUv ≤ 10 := by rw [h2]; omega
  -- every candidate decodes to an allowed pitch class and is close enough for u32 arithmetic
  have hC : ∀ c ∈ allCands allowed vin, ∃ n oct, n < 12 ∧ oct ≤ 11 ∧ bit allowed n = true ∧
      c = n * Gen.halfStepUv + oct * Gen.oneOctaveUv := by
    intro c hc
    simp only [allCands, List.mem_flatMap] at hc
    obtain ⟨oct, hoct, hc⟩ := hc
    obtain ⟨n, hn, hb, rfl⟩ := mem_octaveCands.mp hc
    obtain ⟨hle, himp⟩ := mem_octavesToSearch hoct
    exact ⟨n, oct, hn, by omega, hb, rfl⟩
  have hne : allCands allowed vin ≠ [] := by
    obtain ⟨n, hn, hb⟩ := ha
    intro hnil
    have : n * Gen.halfStepUv + (vin / Gen.oneOctaveUv) * Gen.oneOctaveUv ∈ allCands allowed vin := by
      simp only [allCands, List.mem_flatMap]
      exact ⟨_, self_mem_octavesToSearch _, mem_octaveCands.mpr ⟨n, hn, hb, rfl⟩⟩
    rw [hnil] at this; simp at this
  have hd : ∀ c ∈ allCands allowed vin, delta vin c < 2 ^ 32 - 1 := by
    intro c hc
    obtain ⟨n, oct, hn, hoct, _, rfl⟩ := hC c hc
    rw [h1, h2]; unfold delta; split <;> omega
  have hmem := scan_result_mem (vin := vin) (allCands allowed vin) hne hd
  obtain ⟨n, oct, hn, hoct, hb, he⟩ := hC _ hmem
  have : findNearestUv allowed vin =
      (((allCands allowed vin).foldl (scanStep vin) {}).result / Gen.halfStepUv) % 256 := rfl
  rw [this, he, decode n oct hn hoct]
  exact hb

/-- **C07, one call.** Whatever the input and whatever was cached, the reported note is allowed now. -/
theorem convert_allowed (q : Quantizer) (h : QInv q) (v : F32) :
    bit q.allowed ((q.convert v).2.note % 12) = true ∧ (q.convert v).1.allowed = q.allowed := by
  unfold Quantizer.convert
  split
  · rename_i hc
    simp only [Bool.and_eq_true] at hc
    have hlt : q.cached.note % 12 < 12 := Nat.mod_lt _ (by norm_num)
    have : noteNew (q.cached.note % 12) = q.cached.note % 12 := by simp [noteNew]; omega
    rw [this, isAllowed_eq] at hc
    exact ⟨hc.1, rfl⟩
  · refine ⟨?_, rfl⟩
    simp only [convertFresh]
    exact findNearestUv_allowed _ _ (exists_allowed h) (microvolts_le v)

/-! ### histories -/

inductive Op
  | allow (ns : List Nat)     -- arguments are `Note`s: already clamped to 0..11 by `Note::new`
  | forbid (ns : List Nat)
  | convert (v : F32)

def Op.wf : Op → Prop
  | .allow ns | .forbid ns => ∀ n ∈ ns, n < 12
  | .convert _ => True

/-- run a history; `none` = panic; collects (scale at the time of the call, reported note) per conversion -/
def run (q : Quantizer) : List Op → Option (Quantizer × List (Nat × Nat))
  | [] => some (q, [])
  | .allow ns :: ops => run (q.allow ns) ops
  | .forbid ns :: ops => match q.forbid ns with
    | none => none
    | some q' => run q' ops
  | .convert v :: ops => match run (q.convert v).1 ops with
    | none => none
    | some (q', rs) => some (q', (q.allowed, (q.convert v).2.note) :: rs)

/-- **C07, all histories.** No history of well-formed scale edits and conversions panics, and every conversion
reports a note whose pitch class is allowed in the scale in force at that call. -/
theorem history_allowed (q : Quantizer) (h : QInv q) (ops : List Op) (hw : ∀ o ∈ ops, o.wf) :
    ∃ q' rs, run q ops = some (q', rs) ∧ QInv q' ∧ ∀ r ∈ rs, bit r.1 (r.2 % 12) = true := by
  induction ops generalizing q with
  | nil => exact ⟨q, [], rfl, h, by simp⟩
  | cons o ops ih =>
    have hw' : ∀ o ∈ ops, o.wf := fun x hx => hw x (by simp [hx])
    have hwo := hw o (by simp)
    cases o with
    | allow ns => exact ih (q.allow ns) (allow_inv q ns hwo h) hw'
    | forbid ns =>
      obtain ⟨q1, hq1, hi1, _⟩ := forbid_inv q ns hwo h
      obtain ⟨q', rs, hr, hi, hall⟩ := ih q1 hi1 hw'
      exact ⟨q', rs, by simp [run, hq1, hr], hi, hall⟩
    | convert v =>
      obtain ⟨hb, ha⟩ := convert_allowed q h v
      have hi1 : QInv (q.convert v).1 := by unfold QInv; rw [ha]; exact h
      obtain ⟨q', rs, hr, hi, hall⟩ := ih _ hi1 hw'
      refine ⟨q', (q.allowed, (q.convert v).2.note) :: rs, by simp [run, hr], hi, ?_⟩
      intro r hr'
      simp only [List.mem_cons] at hr'
      rcases hr' with rfl | hr'
      · exact hb
      · exact hall r hr'

theorem history_from_new (ops : List Op) (hw : ∀ o ∈ ops, o.wf) :
    ∃ q' rs, run Quantizer.new ops = some (q', rs) ∧ ∀ r ∈ rs, bit r.1 (r.2 % 12) = true := by
  obtain ⟨q', rs, h1, _, h3⟩ := history_allowed _ inv_new ops hw
  exact ⟨q', rs, h1, h3⟩

/-- non-vacuity: convert in octave 1, forbid the reported pitch class, convert the same input again -/
example : (run Quantizer.new [.convert (ofBits 0x3f8bf258), .forbid [1], .convert (ofBits 0x3f8bf258)]).map (·.2)
    = some [(0xfff, 13), (0xffd, 14)] := by decide +kernel

end C07
