import Mathlib.Algebra.Order.Ring.Pow
import Mathlib.Tactic.Linarith
import Mathlib.Tactic.Ring
import Mathlib.Tactic.NormNum
import Mathlib.Tactic.FieldSimp
import Mathlib.Tactic.Positivity
/-!
Pure rational arithmetic about compound factors `(1 + a/n)^n`, used by C14 (`C14Coverage.lean`):
monotonicity in `n` (via Bernoulli), second-order Bernoulli, a third-order alternating bound for `(1 − x)^m`, and the
three numeric consequences for the discrete RC lag: what remains of a step after `t` and after `t/10`.
-/
namespace Cov

/-- `(1 + a/n)^n` is non-decreasing in `n` -/
theorem compound_mono (a : ℚ) (ha : 0 ≤ a) (n : ℕ) (hn : 1 ≤ n) :
    (1 + a / n) ^ n ≤ (1 + a / (n + 1 : ℕ)) ^ (n + 1) := by
  have n0 : (0:ℚ) < n := by exact_mod_cast hn
  have n1 : (0:ℚ) < (n + 1 : ℕ) := by positivity
  set u := 1 + a / n with hu
  set v := 1 + a / (n + 1 : ℕ) with hv
  have u0 : 0 < u := by positivity
  have v0 : 0 < v := by positivity
  -- v = u * (1 + d) with d = v/u - 1 ≥ -1
  have hd : v = u * (1 + (v / u - 1)) := by field_simp; ring
  have hb := one_add_mul_le_pow (a := v / u - 1) (by
    have : 0 < v / u := div_pos v0 u0
    linarith) (n + 1)
  -- 1 + (n+1)(v/u − 1) = 1/u
  have key : 1 + ((n + 1 : ℕ) : ℚ) * (v / u - 1) = 1 / u := by
    rw [hu, hv]; push_cast; field_simp; ring
  rw [key] at hb
  have : v ^ (n + 1) = u ^ (n + 1) * (1 + (v / u - 1)) ^ (n + 1) := by
    rw [← mul_pow, ← hd]
  rw [this]
  calc u ^ n = u ^ (n + 1) * (1 / u) := by rw [pow_succ]; field_simp
    _ ≤ u ^ (n + 1) * (1 + (v / u - 1)) ^ (n + 1) := mul_le_mul_of_nonneg_left hb (by positivity)

theorem compound_ge_100 (a : ℚ) (ha : 0 ≤ a) (n : ℕ) (hn : 100 ≤ n) :
    (1 + a / 100) ^ 100 ≤ (1 + a / n) ^ n := by
  induction n, hn using Nat.le_induction with
  | base => norm_num
  | succ n hn ih => exact le_trans ih (compound_mono a ha n (by omega))

/-- second-order Bernoulli -/
theorem bern2 (x : ℚ) (hx : 0 ≤ x) (m : ℕ) : 1 + m * x + m * (m - 1) / 2 * x ^ 2 ≤ (1 + x) ^ m := by
  induction m with
  | zero => simp
  | succ m ih =>
    rw [pow_succ (1 + x)]
    have h1 : (1 + m * x + m * (m - 1) / 2 * x ^ 2) * (1 + x) ≤ (1 + x) ^ m * (1 + x) :=
      mul_le_mul_of_nonneg_right ih (by linarith)
    have h2 : (1 + ((m + 1 : ℕ) : ℚ) * x + ((m + 1 : ℕ) : ℚ) * (((m + 1 : ℕ) : ℚ) - 1) / 2 * x ^ 2) +
        (m : ℚ) * (m - 1) / 2 * x ^ 3 = (1 + m * x + m * (m - 1) / 2 * x ^ 2) * (1 + x) := by
      push_cast; ring
    have h3 : 0 ≤ (m : ℚ) * (m - 1) / 2 * x ^ 3 := by
      rcases Nat.eq_zero_or_pos m with rfl | hm
      · simp
      · have : (1:ℚ) ≤ m := by exact_mod_cast hm
        have : 0 ≤ (m:ℚ) - 1 := by linarith
        positivity
    linarith

/-- third-order alternating bound for `(1 − x)^m` -/
theorem alt3 (x : ℚ) (hx0 : 0 ≤ x) (hx1 : x ≤ 1) (m : ℕ) :
    1 - m * x + m * (m - 1) / 2 * x ^ 2 - m * (m - 1) * (m - 2) / 6 * x ^ 3 ≤ (1 - x) ^ m := by
  induction m with
  | zero => simp
  | succ m ih =>
    rw [pow_succ (1 - x)]
    have h1 : (1 - m * x + m * (m - 1) / 2 * x ^ 2 - m * (m - 1) * (m - 2) / 6 * x ^ 3) * (1 - x) ≤
        (1 - x) ^ m * (1 - x) := mul_le_mul_of_nonneg_right ih (by linarith)
    have h2 : (1 - ((m + 1 : ℕ) : ℚ) * x + ((m + 1 : ℕ) : ℚ) * (((m + 1 : ℕ) : ℚ) - 1) / 2 * x ^ 2 -
          ((m + 1 : ℕ) : ℚ) * (((m + 1 : ℕ) : ℚ) - 1) * (((m + 1 : ℕ) : ℚ) - 2) / 6 * x ^ 3) +
        (m : ℚ) * (m - 1) * (m - 2) / 6 * x ^ 4 =
        (1 - m * x + m * (m - 1) / 2 * x ^ 2 - m * (m - 1) * (m - 2) / 6 * x ^ 3) * (1 - x) := by
      push_cast; ring
    have h3 : 0 ≤ (m : ℚ) * (m - 1) * (m - 2) / 6 * x ^ 4 := by
      have hx4 : 0 ≤ x ^ 4 := by positivity
      have : 0 ≤ (m : ℚ) * (m - 1) * (m - 2) := by
        rcases m with _ | _ | _ | k
        · norm_num
        · norm_num
        · norm_num
        · have : (3:ℚ) ≤ ((k + 1 + 1 + 1 : ℕ) : ℚ) := by push_cast; linarith [(Nat.cast_nonneg k : (0:ℚ) ≤ k)]
          have a1 : 0 ≤ ((k + 1 + 1 + 1 : ℕ) : ℚ) - 1 := by linarith
          have a2 : 0 ≤ ((k + 1 + 1 + 1 : ℕ) : ℚ) - 2 := by linarith
          positivity
      positivity
    linarith

/-- **after `t`**: if the per-sample factor `c` is at most `1/(1 + 6.2/N)` (`N = t·fs ≥ 100` samples per `t`), then
after `n ≥ N` samples less than 1/400 of the step remains -/
theorem resid_t (c N : ℚ) (n : ℕ) (hc0 : 0 ≤ c) (hN : 100 ≤ N) (hc : c * (1 + 31 / 5 / N) ≤ 1) (hn : N ≤ n) :
    c ^ n ≤ 1 / 400 := by
  have N0 : 0 < N := by linarith
  have hn100 : 100 ≤ n := by
    have : (100:ℚ) ≤ n := le_trans hN hn
    exact_mod_cast this
  have n0 : (0:ℚ) < n := by
    have : (100:ℚ) ≤ n := by exact_mod_cast hn100
    linarith
  have hx : 31 / 5 / (n:ℚ) ≤ 31 / 5 / N := by
    apply div_le_div_of_nonneg_left (by norm_num) N0 hn
  have h1 : (1 + 31 / 5 / (n:ℚ)) ^ n ≤ (1 + 31 / 5 / N) ^ n :=
    pow_le_pow_left₀ (by positivity) (by linarith) n
  have h2 := compound_ge_100 (31 / 5) (by norm_num) n hn100
  have h3 : (400:ℚ) ≤ (1 + 31 / 5 / 100) ^ 100 := by norm_num
  have h4 : (400:ℚ) ≤ (1 + 31 / 5 / N) ^ n := le_trans h3 (le_trans h2 h1)
  have h5 : c ^ n * (1 + 31 / 5 / N) ^ n ≤ 1 := by
    rw [← mul_pow]; exact pow_le_one₀ (by positivity) hc
  have cn0 : 0 ≤ c ^ n := by positivity
  have : c ^ n * 400 ≤ 1 := le_trans (mul_le_mul_of_nonneg_left h4 cn0) h5
  linarith

/-- **after `t/10`, upper**: with the same factor bound, after `m ≥ N/10 − 1/2` samples at most 23/40 = 57.5 % of the
step remains (at least 42.5 % is covered) -/
theorem resid_t10_le (c N : ℚ) (m : ℕ) (hc0 : 0 ≤ c) (hN : 100 ≤ N) (hc : c * (1 + 31 / 5 / N) ≤ 1)
    (hm : N / 10 - 1 / 2 ≤ m) : c ^ m ≤ 23 / 40 := by
  have N0 : 0 < N := by linarith
  set x := 31 / 5 / N with hx
  have x0 : 0 ≤ x := by positivity
  have hb := bern2 x x0 m
  -- m·x ≥ 0.62 − 3.1/N ≥ 0.589 ; (m−1)·x ≥ 0.527
  have hinv : 1 / N ≤ 1 / 100 := by
    rw [div_le_div_iff₀ N0 (by norm_num)]; linarith
  have hxN : x = 31 / 5 * (1 / N) := by rw [hx]; ring
  have hxle : x ≤ 31 / 500 := by rw [hxN]; linarith
  have hs : 589 / 1000 ≤ (m:ℚ) * x := by
    have h1 : (N / 10 - 1 / 2) * x ≤ (m:ℚ) * x := mul_le_mul_of_nonneg_right hm x0
    have h2 : (N / 10 - 1 / 2) * x = 31 / 50 - 31 / 10 * (1 / N) := by rw [hx]; field_simp; ring
    linarith
  have ht : 527 / 1000 ≤ ((m:ℚ) - 1) * x := by
    have : ((m:ℚ) - 1) * x = (m:ℚ) * x - x := by ring
    linarith
  have hst : 589 / 1000 * (527 / 1000) ≤ (m:ℚ) * x * (((m:ℚ) - 1) * x) :=
    mul_le_mul hs ht (by norm_num) (by linarith)
  have hq : (m:ℚ) * (m - 1) / 2 * x ^ 2 = (m:ℚ) * x * (((m:ℚ) - 1) * x) / 2 := by ring
  have h4 : (40:ℚ) / 23 ≤ (1 + x) ^ m := by rw [hq] at hb; linarith
  have h5 : c ^ m * (1 + x) ^ m ≤ 1 := by
    rw [← mul_pow]; exact pow_le_one₀ (by positivity) hc
  have cm0 : 0 ≤ c ^ m := by positivity
  have : c ^ m * (40 / 23) ≤ 1 := le_trans (mul_le_mul_of_nonneg_left h4 cm0) h5
  linarith

/-- **after `t/10`, lower**: if the factor is at least `1/(1 + 6.4/N)`, after `m ≤ N/10 + 1/2` samples at least 47 % of
the step remains (at most 53 % is covered) -/
theorem resid_t10_ge (c N : ℚ) (m : ℕ) (hN : 100 ≤ N) (hc : 1 ≤ c * (1 + 32 / 5 / N))
    (hm : (m:ℚ) ≤ N / 10 + 1 / 2) : 47 / 100 ≤ c ^ m := by
  have N0 : 0 < N := by linarith
  set x := 32 / 5 / N with hx
  have hinv : 1 / N ≤ 1 / 100 := by
    rw [div_le_div_iff₀ N0 (by norm_num)]; linarith
  have hxN : x = 32 / 5 * (1 / N) := by rw [hx]; ring
  have x0 : 0 ≤ x := by positivity
  have hxle : x ≤ 8 / 125 := by rw [hxN]; linarith
  -- c ≥ 1/(1+x) ≥ 1 − x
  have hc1 : 1 - x ≤ c := by
    have h1 : (1 - x) * (1 + x) ≤ 1 := by nlinarith
    have h2 : (1 - x) * (1 + x) ≤ c * (1 + x) := le_trans h1 hc
    exact le_of_mul_le_mul_right h2 (by linarith)
  have h1x : 0 ≤ 1 - x := by linarith
  have hpow : (1 - x) ^ m ≤ c ^ m := pow_le_pow_left₀ h1x hc1 m
  have ha := alt3 x x0 (by linarith) m
  -- s = m·x ≤ 0.672
  set s := (m:ℚ) * x with hs
  have s0 : 0 ≤ s := by positivity
  have hsle : s ≤ 84 / 125 := by
    have h1 : s ≤ (N / 10 + 1 / 2) * x := mul_le_mul_of_nonneg_right hm x0
    have h2 : (N / 10 + 1 / 2) * x = 16 / 25 + 16 / 5 * (1 / N) := by rw [hx]; field_simp; ring
    linarith
  have e2 : (m:ℚ) * (m - 1) / 2 * x ^ 2 = (s ^ 2 - s * x) / 2 := by rw [hs]; ring
  have e3 : (m:ℚ) * (m - 1) * (m - 2) / 6 * x ^ 3 = (s ^ 3 - 3 * s ^ 2 * x + 2 * s * x ^ 2) / 6 := by rw [hs]; ring
  rw [e2, e3] at ha
  -- f(s) = 1 − s + s²/2 − s³/6 is decreasing on [0, 0.672]
  have hg : 0 ≤ (84 / 125 - s) * (1 - (s + 84 / 125) / 2 + (s ^ 2 + s * (84 / 125) + (84 / 125) ^ 2) / 6) := by
    apply mul_nonneg (by linarith)
    have : 0 ≤ s ^ 2 + s * (84 / 125) + (84 / 125) ^ 2 := by positivity
    linarith
  have hf : 1 - 84 / 125 + (84 / 125) ^ 2 / 2 - (84 / 125) ^ 3 / 6 ≤ 1 - s + s ^ 2 / 2 - s ^ 3 / 6 := by
    have : (1 - s + s ^ 2 / 2 - s ^ 3 / 6) - (1 - 84 / 125 + (84 / 125) ^ 2 / 2 - (84 / 125) ^ 3 / 6) =
        (84 / 125 - s) * (1 - (s + 84 / 125) / 2 + (s ^ 2 + s * (84 / 125) + (84 / 125) ^ 2) / 6) := by ring
    linarith
  have hsx : s * x ≤ 84 / 125 * (8 / 125) := mul_le_mul hsle hxle x0 (by norm_num)
  have hsx2 : s * x ^ 2 ≤ 84 / 125 * (8 / 125) ^ 2 := by
    have : x ^ 2 ≤ (8 / 125) ^ 2 := pow_le_pow_left₀ x0 hxle 2
    exact mul_le_mul hsle this (by positivity) (by norm_num)
  have hs2x : 0 ≤ s ^ 2 * x := by positivity
  have : (47:ℚ) / 100 ≤ (1 - x) ^ m := by
    have e : 1 - s + (s ^ 2 - s * x) / 2 - (s ^ 3 - 3 * s ^ 2 * x + 2 * s * x ^ 2) / 6 =
        (1 - s + s ^ 2 / 2 - s ^ 3 / 6) - s * x / 2 + s ^ 2 * x / 2 - s * x ^ 2 / 3 := by ring
    rw [e] at ha
    norm_num at hf hsx hsx2
    linarith
  linarith

end Cov
