import SynthVerif.Props.C08
/-!
# C09 — Quantizer hysteresis: stable inside the window, history-free outside it

* `convert_cases`: a conversion either keeps the cached note (exactly when that note's pitch class is still allowed
  and `lo < v < hi`, the cached note's bucket widened by the hysteresis) or is **equal** to `convertFresh` — the
  function a quantizer without history computes (`history_free`: a new quantizer with the same scale).
* `window_bounds`: `lo` and `hi` are within `2^-19` V of `p/12 − 1/120` and `(p+1)/12 + 1/120`
  (one tenth of a semitone on each side of the semitone bucket of note `p`).
* `ramp_monotone`: for a fixed scale, a non-decreasing sequence of inputs in [0, 10] V yields a non-decreasing
  sequence of notes (every cached note is the history-free note of an earlier, smaller-or-equal input; C08).
* `C09Noise.lean`, `noise_stable`: inputs inside the hysteresis band around a chromatic boundary never change the note
  after the first conversion ("noise … causes at most one note change").
-/
namespace C09
open F32 Quantizer

/-- the hysteresis test of `convert` -/
def keeps (q : Quantizer) (v : F32) : Bool :=
  q.isAllowed (noteNew (q.cached.note % 12)) && inWindow q.cached v

theorem convert_cases (q : Quantizer) (v : F32) :
    (keeps q v = true → (q.convert v).2 = { q.cached with fraction := sub v q.cached.stairstep } ∧
        (q.convert v).2.note = q.cached.note) ∧
    (keeps q v = false → (q.convert v).2 = convertFresh q.allowed v) ∧
    (q.convert v).1.cached = (q.convert v).2 ∧ (q.convert v).1.allowed = q.allowed := by
  unfold keeps Quantizer.convert
  refine ⟨fun h => ?_, fun h => ?_, ?_, ?_⟩
  · rw [if_pos h]; exact ⟨rfl, rfl⟩
  · rw [if_neg (by simp [h])]
  · split <;> rfl
  · split <;> rfl

/-! ### a quantizer without history -/

theorem lo_init : sub f32Min hysteresis = f32Min := by decide +kernel
theorem hi_init : add (add f32Min semitoneWidth) hysteresis = f32Min := by decide +kernel
theorem f32Min_eq : f32Min = .fin f32Min.val false := by decide +kernel

/-- the initial cache admits no input: `lo < v < hi` with `lo = hi = f32::MIN` is unsatisfiable -/
theorem init_never_in_window (v : F32) : inWindow Quantizer.new.cached v = false := by
  simp only [inWindow, Quantizer.new, lo_init, hi_init]
  rw [f32Min_eq]
  cases v with
  | nan => simp [lt]
  | inf s => cases s <;> simp [lt]
  | fin a na =>
    simp only [lt, Bool.and_eq_false_iff, decide_eq_false_iff_not]
    by_cases h : f32Min.val < a
    · right; exact not_lt.mpr (le_of_lt h)
    · left; exact h

/-- **history-free**: a quantizer that has never converted anything reports `convertFresh` for every input,
whatever its scale -/
theorem history_free (allowed : Nat) (v : F32) :
    (({ Quantizer.new with allowed := allowed } : Quantizer).convert v).2 = convertFresh allowed v := by
  have hk : keeps { Quantizer.new with allowed := allowed } v = false := by
    unfold keeps
    have := init_never_in_window v
    simp only [Quantizer.new] at this ⊢
    rw [this]; simp
  exact (convert_cases _ v).2.1 hk

/-! ### where the window edges are -/

theorem consts_f32 :
    hysteresis.isFin = true ∧ semitoneWidth.isFin = true ∧ notesPerOctave = .fin 12 false ∧
    |hysteresis.val - 1 / 120| ≤ 2 ^ (-30:ℤ) ∧ |semitoneWidth.val - 1 / 12| ≤ 2 ^ (-28:ℤ) := by decide +kernel

/-- `note / 12` as the conversions compute it -/
theorem stairstep_val (p : ℕ) (hp : p ≤ 255) :
    (div (ofNat p) notesPerOctave).isFin = true ∧ (div (ofNat p) notesPerOctave).val = rnd ((p:ℚ) / 12) := by
  obtain ⟨_, _, h12, _, _⟩ := consts_f32
  obtain ⟨n1, n2⟩ := ofNat_fin p (by omega)
  rw [h12]
  have := val_div (x := ofNat p) (y := .fin 12 false) n1 rfl (by simp)
    (by rw [n2, val_fin, abs_of_nonneg (by positivity)]
        calc (p:ℚ) / 12 ≤ 255 / 12 := by
              apply div_le_div_of_nonneg_right _ (by norm_num); exact_mod_cast hp
          _ ≤ 2 ^ (127:ℤ) := by norm_num)
  rwa [n2, val_fin] at this

private theorem err16 {x : ℚ} (h : |x| < 16) : |rnd x - x| ≤ 2 ^ (-21:ℤ) := by
  have := rnd_err (x := x) (k := 4) (by norm_num) (by norm_num; exact h)
  norm_num at this ⊢; exact this

/-- **window bounds**: for a cached note `p ≤ 131` the hysteresis window is
`(p/12 − 1/120, (p+1)/12 + 1/120)` up to `2^-19` V at either end -/
theorem window_bounds (p : ℕ) (hp : p ≤ 131) :
    let ss := div (ofNat p) notesPerOctave
    let lo := sub ss hysteresis
    let hi := add (add ss semitoneWidth) hysteresis
    lo.isFin = true ∧ hi.isFin = true ∧
    |lo.val - ((p:ℚ) / 12 - 1 / 120)| ≤ 2 ^ (-19:ℤ) ∧ |hi.val - (((p:ℚ) + 1) / 12 + 1 / 120)| ≤ 2 ^ (-19:ℤ) := by
  obtain ⟨hf, wf, h12, he, we⟩ := consts_f32
  obtain ⟨s1, s2⟩ := stairstep_val p (by omega)
  have hp' : (p:ℚ) ≤ 131 := by exact_mod_cast hp
  have p0 : (0:ℚ) ≤ p := by positivity
  have hq : |(p:ℚ) / 12| < 16 := by
    rw [abs_of_nonneg (by positivity), div_lt_iff₀ (by norm_num)]; linarith
  have e0 := abs_le.mp (err16 hq)
  have eh := abs_le.mp he
  have ew := abs_le.mp we
  norm_num at eh ew e0
  set S := rnd ((p:ℚ) / 12) with hS
  have S0 : -1 ≤ S := by linarith [e0.1, show (0:ℚ) ≤ (p:ℚ) / 12 by positivity]
  have S1 : S ≤ 12 := by
    have : (p:ℚ) / 12 ≤ 131 / 12 := div_le_div_of_nonneg_right hp' (by norm_num)
    linarith [e0.2]
  set Hv := hysteresis.val with hHv
  set Wv := semitoneWidth.val with hWv
  -- lo
  have b1 : |S - Hv| < 16 := by rw [abs_lt]; constructor <;> linarith [eh.1, eh.2]
  obtain ⟨l1, l2⟩ := val_sub s1 hf (by rw [s2]; exact le_trans (le_of_lt b1) (by norm_num))
  rw [s2] at l2
  have el := abs_le.mp (err16 b1)
  norm_num at el
  -- hi
  have b2 : |S + Wv| < 16 := by rw [abs_lt]; constructor <;> linarith [ew.1, ew.2]
  obtain ⟨a1, a2⟩ := val_add s1 wf (by rw [s2]; exact le_trans (le_of_lt b2) (by norm_num))
  rw [s2] at a2
  have ea := abs_le.mp (err16 b2)
  norm_num at ea
  have b3 : |rnd (S + Wv) + Hv| < 16 := by
    rw [abs_lt]; constructor <;> linarith [ea.1, ea.2, ew.1, ew.2, eh.1, eh.2]
  obtain ⟨c1, c2⟩ := val_add a1 hf (by rw [a2]; exact le_trans (le_of_lt b3) (by norm_num))
  rw [a2] at c2
  have ec := abs_le.mp (err16 b3)
  norm_num at ec
  refine ⟨l1, c1, ?_, ?_⟩
  · rw [l2, abs_le]; norm_num
    constructor <;> linarith [el.1, el.2, e0.1, e0.2, eh.1, eh.2]
  · rw [c2, abs_le]; norm_num
    constructor <;> linarith [ec.1, ec.2, ea.1, ea.2, e0.1, e0.2, eh.1, eh.2, ew.1, ew.2]

/-! ### non-decreasing inputs give non-decreasing notes -/

/-- convert a list of inputs, collecting the reported notes -/
def notes (q : Quantizer) : List F32 → List Nat
  | [] => []
  | v :: vs => (q.convert v).2.note :: notes (q.convert v).1 vs

/-- a non-decreasing list of finite voltages in [b, 10] -/
def Ramp (b : ℚ) : List F32 → Prop
  | [] => True
  | .fin x _ :: vs => b ≤ x ∧ x ≤ 10 ∧ Ramp x vs
  | _ :: _ => False

/-- every cached note is at most the history-free note of any input from `b` upwards -/
def Below (q : Quantizer) (b : ℚ) : Prop :=
  ∀ (x : ℚ) (s : Bool), b ≤ x → x ≤ 10 → q.cached.note ≤ (convertFresh q.allowed (.fin x s)).note

theorem ramp_monotone_from (q : Quantizer) (b : ℚ) (hb : 0 ≤ b) (ha : ∃ n, n < 12 ∧ bit q.allowed n = true)
    (hq : Below q b) (vs : List F32) (hr : Ramp b vs) :
    List.Pairwise (· ≤ ·) (q.cached.note :: notes q vs) := by
  induction vs generalizing q b with
  | nil => simp [notes]
  | cons v vs ih =>
    cases v with
    | nan => exact absurd hr (by simp [Ramp])
    | inf s => exact absurd hr (by simp [Ramp])
    | fin x s =>
      obtain ⟨hbx, hx10, hrest⟩ := hr
      obtain ⟨ck, cf, cc, cal⟩ := convert_cases q (.fin x s)
      -- the reported note is at least the cached one
      have hge : q.cached.note ≤ (q.convert (.fin x s)).2.note := by
        by_cases hk : keeps q (.fin x s) = true
        · rw [(ck hk).2]
        · have hk' : keeps q (.fin x s) = false := by simpa using hk
          rw [cf hk']; exact hq x s hbx hx10
      -- the new cache is again below every later history-free note
      have hbelow : Below (q.convert (.fin x s)).1 x := by
        intro x' s' hxx hx'10
        rw [cc, cal]
        by_cases hk : keeps q (.fin x s) = true
        · rw [(ck hk).2]; exact hq x' s' (by linarith) hx'10
        · have hk' : keeps q (.fin x s) = false := by simpa using hk
          rw [cf hk']
          exact C08.convertFresh_monotone q.allowed ha x x' s s' (by linarith) hxx hx'10
      have ih' := ih (q.convert (.fin x s)).1 x (by linarith) (by rw [cal]; exact ha) hbelow hrest
      rw [cc] at ih'
      simp only [notes]
      rw [List.pairwise_cons]
      refine ⟨?_, ih'⟩
      intro n hn
      have : (q.convert (.fin x s)).2.note ≤ n := by
        rcases List.mem_cons.mp hn with rfl | hn'
        · exact Nat.le_refl _
        · exact (List.pairwise_cons.mp ih').1 n hn'
      omega

/-- **C09, ramps**: from a quantizer without history, on any scale with an allowed note, a non-decreasing sequence
of inputs in [0, 10] V gives a non-decreasing sequence of notes -/
theorem ramp_monotone (allowed : Nat) (ha : ∃ n, n < 12 ∧ bit allowed n = true) (vs : List F32) (hr : Ramp 0 vs) :
    List.Pairwise (· ≤ ·) (notes { Quantizer.new with allowed := allowed } vs) := by
  have := ramp_monotone_from { Quantizer.new with allowed := allowed } 0 (le_refl _) ha
    (by intro x s _ _; simp [Quantizer.new]) vs hr
  exact (List.pairwise_cons.mp this).2

/-- non-vacuity: a slow ramp across a boundary with hysteresis, chromatic scale -/
example : notes Quantizer.new [ofBits 0x3da8f5c3, ofBits 0x3db851ec, ofBits 0x3dbc6a7f, ofBits 0x3dcccccd] = [0, 0, 1, 1] := by
  decide +kernel

end C09
