import SynthVerif.Props.C10
/-!
# C11 — LFO phase advances at the requested frequency; reset and set_phase position it

* `reset_zero`: after `reset()` the phase counter is 0.
* `setPhase_close`: for finite `p ≥ 0`, the phase after `set_phase(p)` is within `5/2 · 2^-24 < 2^-22` of the
  fractional part of `p`.
* `setPhase_neg`: a negative (representable) `p` gives exactly the result of `-p`: the phase depends only on
  `|p|` modulo 1 and lies in [0, 1) (`C10.setPhase_ok`).
* `tick_advance`: a tick adds the increment modulo 2^24 and nothing else.
* `increment_bounds`: for `0 ≤ f ≤ fs` the increment `inc` satisfies
  `x·(1 − 2^-24) − 2^-100 − 1 < inc ≤ x·(1 + 2^-24) + 2^-100`, `x = 2^24·f/fs`: too much by at most one f32 rounding,
  too little by at most that plus one counter step.
* `setFrequency_keeps_phase`: a frequency change never moves the phase.
-/
namespace C11
open F32

theorem reset_zero (l : Lfo) : l.reset.pa.acc = 0 := by
  simp only [Lfo.reset, PhaseAcc.reset]

theorem setFrequency_keeps_phase (l : Lfo) (f : F32) : (l.setFrequency f).pa.acc = l.pa.acc := by
  simp only [Lfo.setFrequency, PhaseAcc.setFrequency]

/-- a tick adds the increment modulo 2^24 (and panics only if the u32 addition overflows) -/
theorem tick_advance (l l' : Lfo) (h : l.tick = some l') :
    l'.pa.acc = (l.pa.acc + l.pa.inc) % 2 ^ l.pa.totalBits ∧ l'.pa.inc = l.pa.inc := by
  simp only [Lfo.tick, PhaseAcc.tick] at h
  by_cases hov : l.pa.acc + l.pa.inc ≥ 2 ^ 32
  · rw [if_pos hov] at h; simp at h
  · rw [if_neg hov] at h
    simp only [Option.map_some, Option.some.injEq] at h
    subst h; exact ⟨rfl, rfl⟩

/-- fractional part of a non-negative rational -/
def frac (a : ℚ) : ℚ := a - ⌊a⌋

/-- **set_phase(p), p ≥ 0 finite**: the phase counter is within 2.5 counts (2.5·2^-24 < 2^-22 of a cycle) of the
fractional part of p -/
theorem setPhase_close (l : Lfo) (h : C10.Ok l) (a : ℚ) (na : Bool) (ha : 0 ≤ a) :
    let acc := (l.setPhase (.fin a na)).pa.acc
    (acc : ℚ) ≤ 2 ^ 24 * frac a + 1 / 2 ∧ 2 ^ 24 * frac a - 5 / 2 < acc := by
  have hlt : lt (F32.fin a na) zero = false := by
    simp only [lt, zero]; simpa using ha
  show ((l.pa.setPhase (.fin a na)).acc : ℚ) ≤ _ ∧ _ < ((l.pa.setPhase (.fin a na)).acc : ℚ)
  simp only [PhaseAcc.setPhase, PhaseAcc.reset, PhaseAcc.mask, h.tb, hlt, Bool.false_eq_true, ↓reduceIte]
  rw [C10.mask24]
  have hone : one = .fin 1 false := rfl
  rw [hone]
  simp only [fmod]
  have h1 : ((1:ℚ) == 0) = false := by decide
  simp only [h1, Bool.false_eq_true, ↓reduceIte]
  have htr : (truncInt (a / 1) : ℚ) = ⌊a⌋ := by
    have : ¬ a < 0 := not_lt.mpr ha
    simp only [div_one, truncInt, this, ↓reduceIte]; rfl
  have hr : a - (truncInt (a / 1) : ℚ) * 1 = frac a := by rw [htr]; simp [frac]
  have f0 : 0 ≤ frac a := by unfold frac; linarith [Int.floor_le a]
  have f1 : frac a < 1 := by unfold frac; linarith [Int.lt_floor_add_one a]
  rw [hr]
  -- the product M·r and its rounding
  set x : ℚ := 16777215 * frac a with hx
  have hx0 : 0 ≤ x := by positivity
  have hxM : x ≤ 16777215 := by rw [hx]; nlinarith
  have herr : |rnd x - x| ≤ 1 / 2 := by
    have := rnd_err (x := x) (k := 24) (by norm_num) (by rw [abs_of_nonneg hx0]; exact lt_of_le_of_lt hxM (by norm_num))
    norm_num at this; exact this
  have hrn0 : 0 ≤ rnd x := rnd_nonneg hx0
  have hrnM : rnd x ≤ 16777215 := rnd_le_of_le hxM (by simpa using rep_int (n := 16777215) (by norm_num))
  have hov : |rnd x| < 2 ^ (128:ℤ) := by
    rw [abs_of_nonneg hrn0]; exact lt_of_le_of_lt hrnM (by norm_num)
  -- value of toU32 of the rounded product is the floor of rnd x
  have hfl : ∀ (y : F32), y = .fin (frac a) false ∨ (frac a = 0 ∧ ∃ s, y = .fin 0 s) →
      ((toU32 (mul (.fin 16777215 false) y) : ℕ) : ℚ) = ⌊rnd x⌋ := by
    intro y hy
    have hy' : ∃ s, mul (.fin 16777215 false) y = round x s := by
      rcases hy with rfl | ⟨h0, s, rfl⟩
      · exact ⟨_, by rw [mul_fin]⟩
      · exact ⟨_, by rw [mul_fin, hx, h0]⟩
    obtain ⟨s, hs⟩ := hy'
    rw [hs, round_def, qabs_eq, pow2_eq, if_neg (not_le.mpr hov)]
    have hfloor_nonneg : 0 ≤ ⌊rnd x⌋ := Int.floor_nonneg.mpr hrn0
    have hfloor_lt : ⌊rnd x⌋ < 2 ^ 32 := by
      have : ⌊rnd x⌋ ≤ ⌊(16777215:ℚ)⌋ := Int.floor_le_floor hrnM
      have e : ⌊(16777215:ℚ)⌋ = 16777215 := by norm_num
      rw [e] at this; omega
    split
    · rename_i hz
      have hz' : rnd x = 0 := by simpa using hz
      have e0 : (Rat.floor 0) = 0 := by decide
      simp [toU32, hz', e0]
    · have hneg : ¬ rnd x < 0 := not_lt.mpr hrn0
      simp only [toU32, hneg, ↓reduceIte]
      have e : (rnd x).floor = ⌊rnd x⌋ := rfl
      rw [e]
      have hnat : (⌊rnd x⌋.toNat : ℤ) = ⌊rnd x⌋ := Int.toNat_of_nonneg hfloor_nonneg
      have hlt : ¬ (⌊rnd x⌋.toNat ≥ 2 ^ 32) := by omega
      simp only [hlt, ↓reduceIte]
      exact_mod_cast hnat
  have hval : ((toU32 (mul (.fin 16777215 false) (if (frac a == 0) = true then F32.fin 0 ((F32.fin a na).sign) else F32.fin (frac a) false)) : ℕ) : ℚ) = ⌊rnd x⌋ := by
    apply hfl
    by_cases hz : frac a = 0
    · right; refine ⟨hz, ?_⟩; simp [hz]
    · left; simp [hz]
  rw [hval]
  have g1 := Int.floor_le (rnd x)
  have g2 := Int.lt_floor_add_one (rnd x)
  have e1 := abs_le.mp herr
  have hxe : x = 2 ^ 24 * frac a - frac a := by rw [hx]; norm_num; ring
  constructor
  · linarith [e1.2]
  · linarith [e1.1]

/-- **negative p**: the result is exactly that of `-p` — it depends only on `|p|` (modulo 1) -/
theorem setPhase_neg (l : Lfo) (q : ℚ) (nq : Bool) (hq : q < 0) (hrep : Rep q) (hbig : |q| ≤ 2 ^ (127:ℤ)) :
    l.setPhase (.fin q nq) = l.setPhase (.fin (-q) false) := by
  have h1 : lt (F32.fin q nq) zero = true := by simp only [lt, zero]; simpa using hq
  have h2 : lt (F32.fin (-q) false) zero = false := by
    simp only [lt, zero]; simpa using le_of_lt hq
  have hflip : mul (F32.fin q nq) (.fin (-1) false) = .fin (-q) false := by
    rw [mul_fin, round_def]
    have e : q * -1 = -q := by ring
    rw [e, rnd_rep (rep_neg hrep), qabs_eq, pow2_eq]
    have hov : ¬ ((2:ℚ) ^ (128:ℤ) ≤ |-q|) := by
      rw [abs_neg]; exact not_le.mpr (lt_of_le_of_lt hbig (by norm_num))
    have hne : ((-q) == 0) = false := by
      have : -q ≠ 0 := by linarith
      simpa using this
    rw [if_neg hov, hne]; simp
  simp only [Lfo.setPhase, PhaseAcc.setPhase, h1, h2, hflip, ↓reduceIte, Bool.false_eq_true]

/-- **increment bounds**: for a representable frequency `0 ≤ φ ≤ σ` (σ the sample rate), with `x = 2^24·φ/σ` the
ideal number of counts per tick, the stored increment is `⌊rnd x⌋`; it exceeds `x` by at most one f32 rounding and
falls short by at most that plus one count -/
theorem increment_bounds (l : Lfo) (h : C10.Ok l) (φ σ : ℚ) (nf ns : Bool) (hsr : l.pa.sr = .fin σ ns)
    (hφ0 : 0 ≤ φ) (hφσ : φ ≤ σ) (hσ : 0 < σ) (hσ' : σ ≤ 2 ^ (100:ℤ)) (hrep : Rep φ) :
    let inc : ℚ := ((l.setFrequency (.fin φ nf)).pa.inc : ℕ)
    let x : ℚ := 2 ^ 24 * φ / σ
    inc ≤ x * (1 + 2 ^ (-24:ℤ)) + 2 ^ (-150:ℤ) ∧ x * (1 - 2 ^ (-24:ℤ)) - 2 ^ (-150:ℤ) - 1 < inc := by
  show (((l.pa.setFrequency (.fin φ nf)).inc : ℕ) : ℚ) ≤ _ ∧ _ < (((l.pa.setFrequency (.fin φ nf)).inc : ℕ) : ℚ)
  simp only [PhaseAcc.setFrequency, h.tb, hsr, PhaseAcc.pow2_24]
  -- 2^24 · φ is exact
  have hprod : Rep (16777216 * φ) := by
    have := rep_mul_pow2 hrep 24
    have e : φ * 2 ^ 24 = 16777216 * φ := by norm_num; ring
    rwa [e] at this
  have hσ100 : σ ≤ 2 ^ 100 := by simpa using hσ'
  have hpb : |16777216 * φ| ≤ 2 ^ (127:ℤ) := by
    rw [abs_of_nonneg (by positivity)]
    calc 16777216 * φ ≤ 16777216 * 2 ^ 100 := by nlinarith
      _ ≤ 2 ^ (127:ℤ) := by norm_num
  have hm : mul (F32.fin 16777216 false) (F32.fin φ nf) = round (16777216 * φ) ((F32.fin (16777216:ℚ) false).sign != (F32.fin φ nf).sign) := mul_fin _ _ _ _
  obtain ⟨m1, m2⟩ := round_fin (x := 16777216 * φ) ((F32.fin (16777216:ℚ) false).sign != (F32.fin φ nf).sign) (no_overflow hpb)
  rw [rnd_rep hprod] at m2
  rw [hm]
  set P := round (16777216 * φ) ((F32.fin (16777216:ℚ) false).sign != (F32.fin φ nf).sign) with hP
  -- the quotient
  set y : ℚ := 16777216 * φ / σ with hy
  have hy0 : 0 ≤ y := by positivity
  have hy1 : y ≤ 16777216 := by
    rw [hy, div_le_iff₀ hσ]; nlinarith
  have hdiv := val_div (x := P) (y := .fin σ ns) m1 rfl (by simpa using ne_of_gt hσ)
    (by rw [m2, val_fin, abs_of_nonneg hy0]; exact le_trans hy1 (by norm_num))
  rw [m2, val_fin] at hdiv
  obtain ⟨d1, d2⟩ := hdiv
  have hr0 : 0 ≤ rnd y := rnd_nonneg hy0
  have hrep24 : Rep (16777216:ℚ) := by
    have := rep_pow2 (k := 24) (by norm_num); norm_num at this; exact this
  have hr1 : rnd y ≤ 16777216 := rnd_le_of_le hy1 hrep24
  have herr := abs_le.mp (rnd_err_gen y)
  rw [abs_of_nonneg hy0] at herr
  -- the truncating cast
  cases hD : div P (.fin σ ns) with
  | nan => rw [hD] at d1; simp at d1
  | inf s => rw [hD] at d1; simp at d1
  | fin r nz =>
    rw [hD, val_fin] at d2
    have hfl := toU32_floor r nz (by rw [d2]; exact hr0) (by rw [d2]; exact lt_of_le_of_lt hr1 (by norm_num))
    have hq : (((toU32 (F32.fin r nz) : ℕ) : ℤ) : ℚ) = (⌊r⌋ : ℚ) := by exact_mod_cast hfl
    have hq' : ((toU32 (F32.fin r nz) : ℕ) : ℚ) = (⌊r⌋ : ℚ) := by exact_mod_cast hq
    rw [hq', d2]
    have g1 := Int.floor_le (rnd y)
    have g2 := Int.lt_floor_add_one (rnd y)
    have hxy : (2:ℚ) ^ 24 * φ / σ = y := by rw [hy]; norm_num
    rw [hxy]
    obtain ⟨e1, e2⟩ := herr
    generalize (2:ℚ) ^ (-24:ℤ) = ε at *
    generalize (2:ℚ) ^ (-150:ℤ) = δ at *
    constructor
    · have : y * (1 + ε) = y + ε * y := by ring
      rw [this]; linarith
    · have : y * (1 - ε) = y - ε * y := by ring
      rw [this]; linarith

/-- non-vacuity: 1 Hz at 1 kHz is 16777 counts per tick (2^24/1000 = 16777.2) -/
example : ((Lfo.new (ofBits 0x447a0000)).setFrequency one).pa.inc = 16777 := by decide +kernel

end C11
