import SynthVerif.Model.Lfo
import SynthVerif.Model.Adsr
import SynthVerif.F32.Rnd2
/-!
Exactness of the phase-accumulator read-outs (`ramp`, `fraction`) and range of `set_phase`.
-/
namespace PhaseAcc
open F32

theorem pow2_24 : ofNat (2 ^ 24) = .fin 16777216 false := by decide +kernel
theorem pow2_14 : ofNat (2 ^ 14) = .fin 16384 false := by decide +kernel

/-- a quotient `n / 2^k` with `n < 2^24` is computed exactly -/
theorem div_pow2_exact (n : ℕ) (hn : n < 2 ^ 24) (k : ℕ) (hk : k ≤ 149) (d : ℚ) (hd : d = 2 ^ k) :
    (div (ofNat n) (.fin d false)).isFin = true ∧ (div (ofNat n) (.fin d false)).val = (n:ℚ) / 2 ^ k := by
  obtain ⟨h1, h2⟩ := ofNat_fin n hn
  have hd0 : d ≠ 0 := by rw [hd]; positivity
  have hrep : Rep ((n:ℚ) / 2 ^ k) := by
    have := rep_div_pow2 (m := (n:ℤ)) (by rw [abs_of_nonneg (by positivity)]; exact_mod_cast hn) k hk
    simpa using this
  have hle : |(n:ℚ) / d| ≤ 2 ^ (127:ℤ) := by
    rw [hd, abs_of_nonneg (by positivity)]
    calc (n:ℚ) / 2 ^ k ≤ n := div_le_self (by positivity) (one_le_pow₀ (by norm_num))
      _ ≤ 2 ^ 24 := by exact_mod_cast le_of_lt hn
      _ ≤ 2 ^ (127:ℤ) := by norm_num
  have := val_div (x := ofNat n) (y := .fin d false) h1 rfl (by simpa using hd0) (by simpa [h2] using hle)
  subst hd
  rw [h2, val_fin, rnd_rep hrep] at this
  exact this

/-- `ramp()` is exactly `acc / 2^24` -/
theorem ramp_exact (p : PhaseAcc) (htb : p.totalBits = 24) (hacc : p.acc < 2 ^ 24) :
    p.ramp.isFin = true ∧ p.ramp.val = (p.acc : ℚ) / 2 ^ 24 := by
  unfold ramp; rw [htb, pow2_24]
  exact div_pow2_exact p.acc hacc 24 (by norm_num) _ (by norm_num)

/-- `fraction()` is exactly `(acc mod 2^14) / 2^14` -/
theorem fraction_exact (p : PhaseAcc) (htb : p.totalBits = 24) (hib : p.indexBits = 10) :
    p.fraction.isFin = true ∧ p.fraction.val = ((p.acc % 2 ^ 14 : ℕ) : ℚ) / 2 ^ 14 := by
  unfold fraction
  have e : 2 ^ (p.totalBits - p.indexBits) - 1 + 1 = 2 ^ 14 := by rw [htb, hib]; rfl
  simp only [e]
  rw [pow2_14]
  have hlt : p.acc % 2 ^ 14 < 2 ^ 24 := lt_of_lt_of_le (Nat.mod_lt _ (by norm_num)) (by norm_num)
  exact div_pow2_exact _ hlt 14 (by norm_num) _ (by norm_num)

theorem index_lt (p : PhaseAcc) (htb : p.totalBits = 24) (hib : p.indexBits = 10) (hacc : p.acc < 2 ^ 24) :
    p.index < 1024 := by
  unfold index; rw [htb, hib]
  exact Nat.div_lt_of_lt_mul (by norm_num at hacc ⊢; omega)

end PhaseAcc
