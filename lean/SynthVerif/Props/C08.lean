import SynthVerif.Props.ScanSorted
import SynthVerif.Props.C07
import SynthVerif.F32.Rnd2
/-!
# C08 — Quantizer picks the nearest allowed note in every octave

On the quantizer's own integer grid (µV; note `k` sits at `(k mod 12)·83333 + (k/12)·10^6`):
* `Pick L v r` (in `ScanSorted`): `r` is a candidate; if some candidate lies within one half-step of `v`, `r` is
  the lowest such (an allowed note at or less than one semitone below `v` always wins); otherwise `r` is a candidate
  of minimal distance.
* `search_is_pick`: for every scale and every µV input ≤ 10 V the search returns `Pick` over the three searched
  octaves; `local_to_global`: …and that is `Pick` over *all* allowed notes 0..131, because every octave contains an
  allowed note (the rule is the same in every octave).
* `pick_monotone`: `Pick` is monotone in the input: the note never decreases as `v` rises.
* `microvolts_close`: the µV value the search runs on is within 1.5 µV of `10^6·clamp(v, 0, 10)`.
-/
namespace C08
open F32 Quantizer

/-! ### the candidate list is ascending -/

theorem octaveCands_sorted (allowed oct : Nat) : List.Pairwise (· < ·) (octaveCands allowed oct) := by
  unfold octaveCands
  apply List.Pairwise.filterMap _ _ List.pairwise_lt_range
  intro a a' haa b hb b' hb'
  obtain ⟨h1, _, _⟩ := consts
  split at hb <;> split at hb' <;> simp at hb hb'
  subst hb hb'
  rw [h1]; omega

theorem octaveCands_range {allowed oct c : Nat} (h : c ∈ octaveCands allowed oct) :
    oct * Gen.oneOctaveUv ≤ c ∧ c ≤ oct * Gen.oneOctaveUv + 11 * Gen.halfStepUv := by
  obtain ⟨n, hn, _, rfl⟩ := mem_octaveCands.mp h
  obtain ⟨h1, h2, _⟩ := consts
  rw [h1, h2]; omega

theorem octavesToSearch_sorted (o : Nat) : List.Pairwise (· < ·) (octavesToSearch o) := by
  unfold octavesToSearch
  by_cases h1 : 1 ≤ o <;> by_cases h2 : o < Gen.maxOctave <;> simp [h1, h2] <;> omega

theorem allCands_sorted (allowed vin : Nat) : List.Pairwise (· < ·) (allCands allowed vin) := by
  unfold allCands
  rw [List.pairwise_flatMap]
  refine ⟨fun a _ => octaveCands_sorted allowed a, ?_⟩
  apply List.Pairwise.imp _ (octavesToSearch_sorted _)
  intro a b hab x hx y hy
  have r1 := octaveCands_range hx
  have r2 := octaveCands_range hy
  obtain ⟨h1, h2, _⟩ := consts
  rw [h1, h2] at r1 r2
  have : a + 1 ≤ b := hab
  nlinarith

/-! ### the search is `Pick` over the searched octaves -/

theorem search_is_pick (allowed vin : Nat) (ha : ∃ n, n < 12 ∧ bit allowed n = true) (hv : vin ≤ 10000000) :
    Pick (allCands allowed vin) vin ((allCands allowed vin).foldl (scanStep vin) {}).result := by
  obtain ⟨h1, h2, h3⟩ := consts
  apply scan_pick vin _ (allCands_sorted allowed vin)
  · obtain ⟨n, hn, hb⟩ := ha
    intro hnil
    have : n * Gen.halfStepUv + (vin / Gen.oneOctaveUv) * Gen.oneOctaveUv ∈ allCands allowed vin := by
      simp only [allCands, List.mem_flatMap]
      exact ⟨_, self_mem_octavesToSearch _, mem_octaveCands.mpr ⟨n, hn, hb, rfl⟩⟩
    rw [hnil] at this; simp at this
  · intro c hc
    simp only [allCands, List.mem_flatMap] at hc
    obtain ⟨oct, hoct, hc⟩ := hc
    have r := octaveCands_range hc
    obtain ⟨hle, _⟩ := mem_octavesToSearch hoct
    have ho : vin / Gen.oneOctaveUv ≤ 10 := by rw [h2]; omega
    rw [h1, h2] at r
    unfold delta; split <;> omega

/-- the note number reported for a µV input -/
theorem findNearestUv_eq (allowed vin : Nat) :
    findNearestUv allowed vin = (((allCands allowed vin).foldl (scanStep vin) {}).result / Gen.halfStepUv) % 256 := rfl

/-! ### from the three searched octaves to all allowed notes -/

/-- all candidates: every allowed pitch class in every octave 0..10 (notes 0..131) -/
def globalCands (allowed : Nat) : List Nat := (List.range (Gen.maxOctave + 1)).flatMap (octaveCands allowed)

theorem mem_globalCands {allowed c : Nat} :
    c ∈ globalCands allowed ↔ ∃ oct n, oct ≤ Gen.maxOctave ∧ n < 12 ∧ bit allowed n = true ∧
      c = n * Gen.halfStepUv + oct * Gen.oneOctaveUv := by
  simp only [globalCands, List.mem_flatMap, List.mem_range]
  constructor
  · rintro ⟨oct, ho, hc⟩
    obtain ⟨n, hn, hb, rfl⟩ := mem_octaveCands.mp hc
    exact ⟨oct, n, by omega, hn, hb, rfl⟩
  · rintro ⟨oct, n, ho, hn, hb, rfl⟩
    exact ⟨oct, by omega, mem_octaveCands.mpr ⟨n, hn, hb, rfl⟩⟩

theorem allCands_sub_global {allowed vin c : Nat} (hv : vin ≤ 10000000) (h : c ∈ allCands allowed vin) :
    c ∈ globalCands allowed := by
  obtain ⟨h1, h2, h3⟩ := consts
  simp only [allCands, List.mem_flatMap] at h
  obtain ⟨oct, hoct, hc⟩ := h
  obtain ⟨n, hn, hb, rfl⟩ := mem_octaveCands.mp hc
  obtain ⟨hle, himp⟩ := mem_octavesToSearch hoct
  refine mem_globalCands.mpr ⟨oct, n, ?_, hn, hb, rfl⟩
  have ho : vin / Gen.oneOctaveUv ≤ 10 := by rw [h2]; omega
  rw [h3]
  by_cases he : oct = vin / Gen.oneOctaveUv + 1
  · have := himp he; rw [h3] at this; omega
  · omega

/-- **the rule is the same in every octave**: what the search finds in its three octaves is `Pick` over all
allowed notes 0..131 -/
theorem local_to_global (allowed vin r : Nat) (ha : ∃ n, n < 12 ∧ bit allowed n = true) (hv : vin ≤ 10000000)
    (hp : Pick (allCands allowed vin) vin r) : Pick (globalCands allowed) vin r := by
  obtain ⟨h1, h2, h3⟩ := consts
  obtain ⟨hr, hA, hB⟩ := hp
  set o := vin / Gen.oneOctaveUv with ho
  have ho10 : o ≤ 10 := by rw [ho, h2]; omega
  obtain ⟨n0, hn0, hb0⟩ := ha
  -- an allowed note in the input's own octave: distance below one octave
  set c0 := n0 * Gen.halfStepUv + o * Gen.oneOctaveUv with hc0
  have hc0mem : c0 ∈ allCands allowed vin := by
    simp only [allCands, List.mem_flatMap]
    exact ⟨_, self_mem_octavesToSearch _, mem_octaveCands.mpr ⟨n0, hn0, hb0, rfl⟩⟩
  have ho' : o = vin / 1000000 := by rw [ho, h2]
  have hd0 : delta vin c0 < 1000000 := by
    rw [hc0, h1, h2]; unfold delta
    split <;> omega
  -- a global candidate is either searched or at least one octave away
  have far : ∀ c' ∈ globalCands allowed, c' ∈ allCands allowed vin ∨ 1000000 ≤ delta vin c' := by
    intro c' hc'
    obtain ⟨k, n, hk, hn, hb, rfl⟩ := mem_globalCands.mp hc'
    rw [h3] at hk
    by_cases hs : k ∈ octavesToSearch o
    · left
      simp only [allCands, List.mem_flatMap]
      exact ⟨k, hs, mem_octaveCands.mpr ⟨n, hn, hb, rfl⟩⟩
    · right
      have hk' : k + 2 ≤ o ∨ o + 2 ≤ k := by
        simp only [octavesToSearch, h3, List.mem_append, List.mem_singleton, not_or] at hs
        obtain ⟨⟨hs1, hs2⟩, hs3⟩ := hs
        by_cases c1 : 1 ≤ o <;> by_cases c2 : o < 10 <;> simp [c1, c2] at hs1 hs3 <;> omega
      rw [h1, h2]; unfold delta
      split <;> omega
  refine ⟨allCands_sub_global hv hr, ?_, ?_⟩
  · rintro ⟨c, hc, hlt⟩
    have hcl : c ∈ allCands allowed vin := by
      rcases far c hc with h | h
      · exact h
      · rw [h1] at hlt; omega
    obtain ⟨hA1, hA2⟩ := hA ⟨c, hcl, hlt⟩
    refine ⟨hA1, ?_⟩
    intro c' hc' hlt'
    rcases far c' hc' with h | h
    · exact hA2 c' h hlt'
    · rw [h1]; omega
  · intro hall c' hc'
    have hloc := hB (fun c hc => hall c (allCands_sub_global hv hc))
    rcases far c' hc' with h | h
    · exact hloc c' h
    · have := hloc c0 hc0mem
      omega

/-! ### monotonicity -/

/-- **the note never decreases as the input rises** (on any candidate list; at an exact tie between two candidates
`Pick` allows either, so the statement is for `v < v'`; for `v = v'` the search is a function) -/
theorem pick_monotone (L : List Nat) (v v' r r' : Nat) (hv : v < v') (hp : Pick L v r) (hp' : Pick L v' r') :
    r ≤ r' := by
  apply Nat.le_of_not_lt
  intro hlt
  obtain ⟨hr, hA, hB⟩ := hp
  obtain ⟨hr', hA', hB'⟩ := hp'
  by_cases hW : ∃ c ∈ L, delta v c < Gen.halfStepUv
  · obtain ⟨a1, a2⟩ := hA hW
    have a3 := a2 r' hr' hlt
    by_cases hW' : ∃ c ∈ L, delta v' c < Gen.halfStepUv
    · obtain ⟨b1, _⟩ := hA' hW'
      unfold delta at a1 a3 b1
      split at a1 <;> split at a3 <;> split at b1 <;> omega
    · have hall' : ∀ c ∈ L, Gen.halfStepUv ≤ delta v' c := by
        intro c hc
        apply Nat.le_of_not_lt
        intro h; exact hW' ⟨c, hc, h⟩
      have b1 := hB' hall' r hr
      have b2 := hall' r hr
      unfold delta at a1 a3 b1 b2
      split at a1 <;> split at a3 <;> split at b2 <;> (try split at b1) <;> (try split at b1) <;> omega
  · have hall : ∀ c ∈ L, Gen.halfStepUv ≤ delta v c := by
      intro c hc
      apply Nat.le_of_not_lt
      intro h; exact hW ⟨c, hc, h⟩
    have a1 := hB hall r' hr'
    have a2 := hall r' hr'
    by_cases hW' : ∃ c ∈ L, delta v' c < Gen.halfStepUv
    · obtain ⟨b1, _⟩ := hA' hW'
      unfold delta at a1 a2 b1
      split at a2 <;> split at b1 <;> (try split at a1) <;> (try split at a1) <;> omega
    · have hall' : ∀ c ∈ L, Gen.halfStepUv ≤ delta v' c := by
        intro c hc
        apply Nat.le_of_not_lt
        intro h; exact hW' ⟨c, hc, h⟩
      have b1 := hB' hall' r hr
      unfold delta at a1 b1
      (try split at a1) <;> (try split at a1) <;> (try split at b1) <;> (try split at b1) <;> omega

/-- the µV grid value of every candidate decodes to its note number, and larger candidates are larger notes -/
theorem note_of_cand_mono {a b : Nat} (h : a ≤ b) (hb : b ≤ 11000000) :
    (a / Gen.halfStepUv) % 256 ≤ (b / Gen.halfStepUv) % 256 := by
  obtain ⟨h1, _, _⟩ := consts
  rw [h1]; omega

/-- **C08 on the integer grid**: for a fixed scale the reported note is non-decreasing in the µV input -/
theorem findNearestUv_monotone (allowed : Nat) (ha : ∃ n, n < 12 ∧ bit allowed n = true) (v v' : Nat)
    (hvv : v ≤ v') (hv' : v' ≤ 10000000) : findNearestUv allowed v ≤ findNearestUv allowed v' := by
  rcases Nat.lt_or_ge v v' with hlt | hge
  · have p := local_to_global allowed v _ ha (by omega) (search_is_pick allowed v ha (by omega))
    have p' := local_to_global allowed v' _ ha hv' (search_is_pick allowed v' ha hv')
    have hm := pick_monotone _ v v' _ _ hlt p p'
    rw [findNearestUv_eq, findNearestUv_eq]
    apply note_of_cand_mono hm
    obtain ⟨k, n, hk, hn, _, he⟩ := mem_globalCands.mp p'.1
    obtain ⟨h1, h2, h3⟩ := consts
    rw [he, h1, h2]; rw [h3] at hk; omega
  · have : v = v' := by omega
    subst this; exact Nat.le_refl _

/-! ### the float wrapper -/

/-- the µV value of a finite input in [0, 10] V -/
theorem microvolts_val (q : ℚ) (nz : Bool) (h0 : 0 ≤ q) (h10 : q ≤ 10) :
    ((toMicrovolts (.fin q nz) : ℕ) : ℤ) = ⌊rnd (q * 1000000)⌋ := by
  rw [toMicrovolts, C07.octave_f32, mul_fin]
  have hx : q * 1000000 ≤ 10000000 := by linarith
  have hx0 : 0 ≤ q * 1000000 := by positivity
  have hr : rnd (q * 1000000) ≤ 10000000 := by
    have := rnd_le_of_le hx (by simpa using rep_int (n := 10000000) (by norm_num))
    simpa using this
  have hr0 : 0 ≤ rnd (q * 1000000) := rnd_nonneg hx0
  have hov : |rnd (q * 1000000)| < 2 ^ (128:ℤ) := by
    rw [abs_of_nonneg hr0]; exact lt_of_le_of_lt hr (by norm_num)
  rw [round_def, qabs_eq, pow2_eq, if_neg (not_le.mpr hov)]
  split
  · rename_i hz
    have hz' : rnd (q * 1000000) = 0 := by simpa using hz
    rw [hz']
    have := toU32_floor 0 (if (q * 1000000 == 0) = true then ((F32.fin q nz).sign != (F32.fin (1000000:ℚ) false).sign) else decide (q * 1000000 < 0)) (le_refl _) (by norm_num)
    simpa using this
  · exact toU32_floor _ _ hr0 (lt_of_le_of_lt hr (by norm_num))

/-- within 1.5 µV of the real-valued input -/
theorem microvolts_close (q : ℚ) (nz : Bool) (h0 : 0 ≤ q) (h10 : q ≤ 10) :
    q * 1000000 - 3 / 2 < (toMicrovolts (.fin q nz) : ℕ) ∧ ((toMicrovolts (.fin q nz) : ℕ) : ℚ) ≤ q * 1000000 + 1 / 2 := by
  have hv := microvolts_val q nz h0 h10
  have hq : ((toMicrovolts (.fin q nz) : ℕ) : ℚ) = (⌊rnd (q * 1000000)⌋ : ℚ) := by exact_mod_cast hv
  rw [hq]
  have herr : |rnd (q * 1000000) - q * 1000000| ≤ 1 / 2 := by
    have := rnd_err (x := q * 1000000) (k := 24) (by norm_num)
      (by rw [abs_of_nonneg (by positivity)]; exact lt_of_le_of_lt (by linarith : q * 1000000 ≤ 10000000) (by norm_num))
    norm_num at this; exact this
  have e := abs_le.mp herr
  have g1 := Int.floor_le (rnd (q * 1000000))
  have g2 := Int.lt_floor_add_one (rnd (q * 1000000))
  constructor <;> linarith

/-- monotone in the input voltage -/
theorem microvolts_mono (q q' : ℚ) (nz nz' : Bool) (h0 : 0 ≤ q) (hqq : q ≤ q') (h10 : q' ≤ 10) :
    toMicrovolts (.fin q nz) ≤ toMicrovolts (.fin q' nz') := by
  have a := microvolts_val q nz h0 (by linarith)
  have b := microvolts_val q' nz' (by linarith) h10
  have : ⌊rnd (q * 1000000)⌋ ≤ ⌊rnd (q' * 1000000)⌋ :=
    Int.floor_le_floor (rnd_mono (by nlinarith))
  omega

/-- **C08, fresh quantizer**: for every scale with an allowed note, a history-free conversion of a finite input in
[0, 10] V reports a note that never decreases when the input rises -/
theorem convertFresh_monotone (allowed : Nat) (ha : ∃ n, n < 12 ∧ bit allowed n = true)
    (q q' : ℚ) (nz nz' : Bool) (h0 : 0 ≤ q) (hqq : q ≤ q') (h10 : q' ≤ 10) :
    (convertFresh allowed (.fin q nz)).note ≤ (convertFresh allowed (.fin q' nz')).note := by
  have clampId : ∀ (x : ℚ) (s : Bool), 0 ≤ x → x ≤ 10 → ∃ s', fmin (fmax (.fin x s) zero) vMax = .fin x s' := by
    intro x s hx0 hx10
    rw [C07.vMax_eq]
    by_cases hz : x = 0
    · subst hz; cases s <;> exact ⟨false, by simp [fmax, fmin, zero, mixedZeros, lt]⟩
    · have hq : (x == 0) = false := by simpa using hz
      have h1 : ¬ x < 0 := not_lt.mpr hx0
      have h2 : ¬ (10:ℚ) < x := not_lt.mpr hx10
      exact ⟨s, by simp [fmax, fmin, zero, mixedZeros, lt, hq, h1, h2]⟩
  obtain ⟨s1, e1⟩ := clampId q nz h0 (by linarith)
  obtain ⟨s2, e2⟩ := clampId q' nz' (by linarith) h10
  simp only [convertFresh, e1, e2]
  apply findNearestUv_monotone allowed ha _ _ (microvolts_mono q q' s1 s2 h0 hqq h10)
  have := C07.microvolts_le (.fin q' nz')
  rw [e2] at this; exact this

/-- non-vacuity / the case repaired by ordering the octaves: only D♯ allowed, 1.8 V is nearer to 2.25 V (note 27)
than to 1.25 V (note 15) -/
example : findNearestUv 0b000000001000 1800000 = 27 := by decide +kernel
example : Pick (globalCands 0b000000001000) 1800000 (3 * Gen.halfStepUv + 2 * Gen.oneOctaveUv) :=
  local_to_global _ _ _ ⟨3, by decide, by decide⟩ (by decide)
    (by have := search_is_pick 0b000000001000 1800000 ⟨3, by decide, by decide⟩ (by decide)
        have e : ((allCands 0b000000001000 1800000).foldl (scanStep 1800000) {}).result =
          3 * Gen.halfStepUv + 2 * Gen.oneOctaveUv := by decide +kernel
        rwa [e] at this)

end C08
