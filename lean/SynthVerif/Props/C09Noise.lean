import SynthVerif.Props.C19Bounds
/-!
# C09, corollary — noise around a chromatic boundary causes at most one note change

`noise_stable`: chromatic scale, any state reached by a history of calls, a boundary `n/12` V (`1 ≤ n ≤ 119`; the boundary at exactly 10 V is the clamp edge) and any
sequence of inputs inside the hysteresis band `(n/12 − 1/120, n/12 + 1/120)` (shrunk by `2^-18` V for the binary32 rounding
of the window edges): **all reported notes are equal** — whatever note the first conversion lands on (`n − 1` or `n`), no
later input of the sequence changes it.  So relative to the note held before the sequence there is at most one change.
-/
namespace C09
open F32 Quantizer

/-- inputs of the noise band around boundary `n/12` -/
def Band (n : ℕ) : List F32 → Prop
  | [] => True
  | .fin x _ :: vs => (n : ℚ) / 12 - 1 / 120 + 2 ^ (-18:ℤ) < x ∧ x < (n : ℚ) / 12 + 1 / 120 - 2 ^ (-18:ℤ) ∧ Band n vs
  | _ :: _ => False

/-- the state the sequence settles in: chromatic scale, cached note `m ∈ {n−1, n}` with its proper stairstep -/
structure Held (q : Quantizer) (n m : ℕ) : Prop where
  all : q.allowed = 4095
  note : q.cached.note = m
  ss : q.cached.stairstep = div (ofNat m) notesPerOctave
  near : m = n ∨ m + 1 = n

theorem chromatic_allowed (k : ℕ) (hk : k < 12) : ((4095 >>> k) % 2 == 1) = true := by
  have : ∀ k, k < 12 → ((4095 >>> k) % 2 == 1) = true := by decide
  exact this k hk

/-- inside the band, a held note `n − 1` or `n` is kept -/
theorem held_keeps (q : Quantizer) (n m : ℕ) (hn : n ≤ 120) (h : Held q n m) (x : ℚ) (s : Bool)
    (b1 : (n : ℚ) / 12 - 1 / 120 + 2 ^ (-18:ℤ) < x) (b2 : x < (n : ℚ) / 12 + 1 / 120 - 2 ^ (-18:ℤ)) :
    keeps q (.fin x s) = true := by
  have hm : m ≤ 131 := by rcases h.near with r | r <;> omega
  obtain ⟨l1, l2, l3, l4⟩ := window_bounds m hm
  unfold keeps inWindow
  rw [h.ss, h.note]
  dsimp only
  have ha : q.isAllowed (noteNew (m % 12)) = true := by
    unfold Quantizer.isAllowed noteNew
    rw [h.all]
    have : m % 12 ≤ 11 := by omega
    rw [if_pos this]
    exact chromatic_allowed _ (by omega)
  rw [ha, Bool.true_and]
  have e3 := abs_le.mp l3
  have e4 := abs_le.mp l4
  have p18 : (2:ℚ) ^ (-18:ℤ) = 2 * 2 ^ (-19:ℤ) := by norm_num
  rw [p18] at b1 b2
  have t0 : (0:ℚ) < 2 ^ (-19:ℤ) := by positivity
  have w : (sub (div (ofNat m) notesPerOctave) hysteresis).val < x ∧
      x < (add (add (div (ofNat m) notesPerOctave) semitoneWidth) hysteresis).val := by
    generalize (2:ℚ) ^ (-19:ℤ) = t at *
    rcases h.near with r | r
    · subst r; constructor <;> linarith
    · have : (n : ℚ) = (m : ℚ) + 1 := by exact_mod_cast r.symm
      rw [this] at b1 b2
      constructor <;> linarith
  rw [lt_val l1 (isFin_fin _ _), lt_val (isFin_fin _ _) l2]
  simp only [val_fin]
  simp [w.1, w.2]

/-- a kept conversion leaves the held state as it is and reports the held note -/
theorem held_step (q : Quantizer) (n m : ℕ) (hn : n ≤ 120) (h : Held q n m) (x : ℚ) (s : Bool)
    (b1 : (n : ℚ) / 12 - 1 / 120 + 2 ^ (-18:ℤ) < x) (b2 : x < (n : ℚ) / 12 + 1 / 120 - 2 ^ (-18:ℤ)) :
    (q.convert (.fin x s)).2.note = m ∧ Held (q.convert (.fin x s)).1 n m := by
  obtain ⟨ck, _, cc, cal⟩ := convert_cases q (.fin x s)
  obtain ⟨e1, e2⟩ := ck (held_keeps q n m hn h x s b1 b2)
  refine ⟨by rw [e2, h.note], ⟨by rw [cal]; exact h.all, by rw [cc, e2, h.note], by rw [cc, e1]; exact h.ss, h.near⟩⟩

theorem held_all (q : Quantizer) (n m : ℕ) (hn : n ≤ 120) (h : Held q n m) (vs : List F32) (hb : Band n vs) :
    ∀ k ∈ notes q vs, k = m := by
  induction vs generalizing q with
  | nil => simp [notes]
  | cons v vs ih =>
    cases v with
    | nan => exact absurd hb (by simp [Band])
    | inf s => exact absurd hb (by simp [Band])
    | fin x s =>
      obtain ⟨b1, b2, brest⟩ := hb
      obtain ⟨r1, r2⟩ := held_step q n m hn h x s b1 b2
      intro k hk
      simp only [notes, List.mem_cons] at hk
      rcases hk with rfl | hk
      · exact r1
      · exact ih _ r2 brest k hk

/-- **C09, noise corollary.**  Chromatic scale, any reachable state (`C19.CacheOk`), inputs inside the hysteresis band
around the boundary `n/12` V: all reported notes are equal. -/
theorem noise_stable (q : Quantizer) (hall : q.allowed = 4095) (hc : C19.CacheOk q) (n : ℕ) (hn1 : 1 ≤ n) (hn : n ≤ 119)
    (vs : List F32) (hb : Band n vs) : ∃ m, ∀ k ∈ notes q vs, k = m := by
  cases vs with
  | nil => exact ⟨0, by simp [notes]⟩
  | cons v vs =>
    cases v with
    | nan => exact absurd hb (by simp [Band])
    | inf s => exact absurd hb (by simp [Band])
    | fin x s =>
      obtain ⟨b1, b2, brest⟩ := hb
      have ha : ∃ k, k < 12 ∧ bit q.allowed k = true := ⟨0, by norm_num, by rw [hall]; decide⟩
      obtain ⟨ok1, ok2, ok3⟩ := C19.convert_ok q hc ha (.fin x s)
      obtain ⟨ck, cf, cc, cal⟩ := convert_cases q (.fin x s)
      set m := (q.convert (.fin x s)).2.note with hm
      have nq : (1:ℚ) ≤ n := by exact_mod_cast hn1
      have nq2 : (n:ℚ) ≤ 119 := by exact_mod_cast hn
      have p18 : (2:ℚ) ^ (-18:ℤ) = 2 * 2 ^ (-19:ℤ) := by norm_num
      have t0 : (0:ℚ) < 2 ^ (-19:ℤ) := by positivity
      have t1 : (2:ℚ) ^ (-19:ℤ) < 1 / 100000 := by norm_num
      have x0 : 0 ≤ x := by
        have : (0:ℚ) ≤ (n:ℚ) / 12 - 1 / 120 := by
          rw [sub_nonneg, div_le_div_iff₀ (by norm_num) (by norm_num)]; linarith
        have : (0:ℚ) < 2 ^ (-18:ℤ) := by positivity
        linarith
      have x10 : x ≤ 10 := by
        have h119 : (n:ℚ) / 12 ≤ 119 / 12 := div_le_div_of_nonneg_right nq2 (by norm_num)
        have hpos : (0:ℚ) < 2 ^ (-18:ℤ) := by positivity
        generalize (2:ℚ) ^ (-18:ℤ) = t18 at *
        linarith
      -- the first note is n − 1 or n
      have near : m = n ∨ m + 1 = n := by
        have key : (n:ℚ) - 1 - 1 / 2 < (m:ℚ) ∧ (m:ℚ) < (n:ℚ) + 1 / 2 := by
          by_cases hk : keeps q (.fin x s) = true
          · -- kept: the input is inside the window of the (well-formed) cached note
            obtain ⟨e1, e2⟩ := ck hk
            rcases hc with hinit | ⟨hs, hp⟩
            · exfalso
              have := init_never_in_window (.fin x s)
              unfold keeps at hk
              rw [hinit] at hk
              simp [this] at hk
            · obtain ⟨l1, l2, l3, l4⟩ := window_bounds q.cached.note hp
              have hw : inWindow q.cached (.fin x s) = true := by
                unfold keeps at hk
                exact (Bool.and_eq_true_iff.mp hk).2
              unfold inWindow at hw
              rw [hs] at hw
              dsimp only at hw
              rw [lt_val l1 (isFin_fin _ _), lt_val (isFin_fin _ _) l2] at hw
              simp only [val_fin] at hw
              have hw : (sub (div (ofNat q.cached.note) notesPerOctave) hysteresis).val < x ∧
                  x < (add (add (div (ofNat q.cached.note) notesPerOctave) semitoneWidth) hysteresis).val := by
                have h2 := Bool.and_eq_true_iff.mp hw
                exact ⟨of_decide_eq_true h2.1, of_decide_eq_true h2.2⟩
              have e3 := abs_le.mp l3
              have e4 := abs_le.mp l4
              have hmm : (m:ℚ) = (q.cached.note : ℚ) := by exact_mod_cast e2
              rw [hmm]
              rw [p18] at b1 b2
              generalize (2:ℚ) ^ (-19:ℤ) = t at *
              constructor <;> linarith [hw.1, hw.2]
          · have hk' : keeps q (.fin x s) = false := by simpa using hk
            have hfr := cf hk'
            rw [hall] at hfr
            obtain ⟨_, g1, g2⟩ := C19.fresh_chromatic_bucket x s x0 x10
            have hmm : m = (convertFresh 4095 (.fin x s)).note := by rw [← hfr]
            rw [← hmm] at g1 g2
            rw [p18] at b1 b2
            generalize (2:ℚ) ^ (-19:ℤ) = t at *
            constructor <;> linarith
        obtain ⟨k1, k2⟩ := key
        have i1 : (n:ℤ) - 2 < (m:ℤ) := by
          have : ((n:ℤ):ℚ) - 2 < ((m:ℤ):ℚ) := by push_cast; linarith
          exact_mod_cast this
        have i2 : (m:ℤ) < (n:ℤ) + 1 := by
          have : ((m:ℤ):ℚ) < ((n:ℤ):ℚ) + 1 := by push_cast; linarith
          exact_mod_cast this
        omega
      have held : Held (q.convert (.fin x s)).1 n m :=
        ⟨by rw [cal]; exact hall, by rw [cc], by rw [cc]; exact ok1, near⟩
      refine ⟨m, ?_⟩
      intro k hk
      simp only [notes, List.mem_cons] at hk
      rcases hk with rfl | hk
      · rfl
      · exact held_all _ n m (by omega) held vs brest k hk

end C09
