import SynthVerif.Props.C16
/-!
# C16 — the recomputed position *is* the corrected mean of the current run's window

`C16.window_is_current_run` identifies the averaged list; this file states what `poll` then stores: for an in-range
sample that completes (or continues) a full capture, the new position is `corr(mean(w))` with `w` the oldest
`capacity − discard` of the last `capacity` samples of the **current run** — no sample of an earlier press, none of the
`discard` newest — and the press flag is set.
-/
open F32
namespace C16

/-- the pull-up correction as `poll` evaluates it -/
def corr (K a : F32) : F32 := sub a (mul (sub a (mul a a)) K)

/-- the mean as `poll` evaluates it: `Iterator::sum` then one division by the window length -/
def mean (w : List F32) (n : ℕ) : F32 := div (Ribbon.fsum w) (ofNat n)

theorem recomputed_value (r : Ribbon) (all run : List F32) (g : Ghost r all run) (x : F32)
    (hin : lt x r.boundary = true) (hign : r.ignore ≤ min (r.received + 1) r.ignore)
    (hfull : min (r.written + 1) r.buff.cap = r.buff.cap) (hd : r.discard ≤ r.buff.cap) :
    ∃ r', r.poll x = some r' ∧ r'.pressing = true ∧
      r'.current = corr r.errorConst
        (mean ((lastN r.buff.cap (run ++ [x])).take (r.buff.cap - r.discard)) (r.buff.cap - r.discard)) ∧
      r'.boundary = r.boundary ∧ Ghost r' (all ++ [x]) (run ++ [x]) := by
  obtain ⟨hw, hg⟩ := window_is_current_run r all run g x hin hign hfull
  have hcapw : (r.buff.write x).capacity = r.buff.cap := by
    show (r.buff.write x).cap = _
    unfold HistBuf.write; split <;> rfl
  have hnd : ¬ r.buff.cap < r.discard := by omega
  rw [hfull] at hg
  obtain ⟨g1, g2, g3, g4⟩ := hg
  unfold Ribbon.poll
  cases hp : r.pressing <;>
    simp only [hin, hign, ↓reduceIte, hcapw, hfull, beq_self_eq_true, hnd, hp, Bool.not_false, Bool.not_true,
      Bool.false_eq_true] <;>
    rw [hw] <;>
    exact ⟨_, rfl, rfl, rfl, rfl, ⟨g1, g2, g3, g4⟩⟩

end C16
