import SynthVerif.Model.Glide
import SynthVerif.Props.Interp
/-!
The glide filter on finite values: the value recurrence of `DirectForm1::run` for the one-pole coefficient set
(`b1 = b2 = a2 = 0`), and sign/range of the coefficients produced by `set_time`.
-/
namespace Glide
open F32

/-- adding a (signed) zero to a finite value whose value is representable changes nothing in value -/
theorem add_zero_val {x z : F32} (hx : x.isFin = true) (hz : z.isFin = true) (hz0 : z.val = 0)
    (hrep : rnd x.val = x.val) (hb : |x.val| ≤ 2 ^ (127:ℤ)) :
    (add x z).isFin = true ∧ (add x z).val = x.val := by
  have := val_add hx hz (by rw [hz0, add_zero]; exact hb)
  rw [hz0, add_zero, hrep] at this
  exact this

theorem sub_zero_val {x z : F32} (hx : x.isFin = true) (hz : z.isFin = true) (hz0 : z.val = 0)
    (hrep : rnd x.val = x.val) (hb : |x.val| ≤ 2 ^ (127:ℤ)) :
    (sub x z).isFin = true ∧ (sub x z).val = x.val := by
  have := val_sub hx hz (by rw [hz0, sub_zero]; exact hb)
  rw [hz0, sub_zero, hrep] at this
  exact this

/-- a product with an exact zero coefficient is a finite zero -/
theorem mul_zero_val {y : F32} (hy : y.isFin = true) : (mul zero y).isFin = true ∧ (mul zero y).val = 0 := by
  have := val_mul (x := zero) (y := y) rfl hy (by simp [zero])
  simpa [zero, rnd_zero] using this

/-- the state of a one-pole glide filter: only `b0`, `a1` are non-zero -/
structure OnePole (g : Glide) : Prop where
  a2 : g.coeffs.a2 = zero
  b1 : g.coeffs.b1 = zero
  b2 : g.coeffs.b2 = zero
  a1f : g.coeffs.a1.isFin = true
  b0f : g.coeffs.b0.isFin = true

/-- magnitudes small enough that no intermediate of `run` can overflow -/
def Small (B : ℚ) (g : Glide) : Prop :=
  g.x1.isFin = true ∧ g.x2.isFin = true ∧ g.y1.isFin = true ∧ g.y2.isFin = true ∧ |g.y1.val| ≤ B

/-- the rational recurrence computed by `process` for a one-pole coefficient set:
`y' = rnd (rnd (b0·x) − rnd (a1·y))` -/
def stepQ (b0 a1 x y : ℚ) : ℚ := rnd (rnd (b0 * x) - rnd (a1 * y))

theorem process_val (g : Glide) (x : F32) (B : ℚ) (hB : 0 ≤ B) (hB' : B ≤ 2 ^ (60:ℤ)) (h1 : OnePole g) (hs : Small B g)
    (hx : x.isFin = true) (hxB : |x.val| ≤ B)
    (hb0 : |g.coeffs.b0.val| ≤ 1) (ha1 : |g.coeffs.a1.val| ≤ 1) :
    let r := g.process x
    r.2.isFin = true ∧ r.2.val = stepQ g.coeffs.b0.val g.coeffs.a1.val x.val g.y1.val ∧
    r.1.y1 = r.2 ∧ r.1.x1 = x ∧ r.1.x2 = g.x1 ∧ r.1.y2 = g.y1 ∧ r.1.coeffs = g.coeffs ∧
    r.1.cachedT = g.cachedT ∧ r.1.fs = g.fs ∧ r.1.minFc = g.minFc ∧ r.1.maxFc = g.maxFc := by
  obtain ⟨fx1, fx2, fy1, fy2, hy⟩ := hs
  have big : (2:ℚ) ^ (60:ℤ) ≤ 2 ^ (127:ℤ) := by norm_num
  have hBB : B ≤ 2 ^ (127:ℤ) := le_trans hB' big
  -- the two real products
  have pA : |g.coeffs.b0.val * x.val| ≤ B := by
    rw [abs_mul]; calc |g.coeffs.b0.val| * |x.val| ≤ 1 * B := mul_le_mul hb0 hxB (abs_nonneg _) (by norm_num)
      _ = B := one_mul B
  have pE : |g.coeffs.a1.val * g.y1.val| ≤ B := by
    rw [abs_mul]; calc |g.coeffs.a1.val| * |g.y1.val| ≤ 1 * B := mul_le_mul ha1 hy (abs_nonneg _) (by norm_num)
      _ = B := one_mul B
  obtain ⟨A1, A2⟩ := val_mul h1.b0f hx (le_trans pA hBB)
  obtain ⟨E1, E2⟩ := val_mul h1.a1f fy1 (le_trans pE hBB)
  have hrepB : ∀ v : ℚ, |v| ≤ B → |rnd v| ≤ 2 ^ (60:ℤ) := fun v hv =>
    abs_rnd_le (le_trans hv hB') (rep_pow2 (by norm_num))
  have A3 : |(mul g.coeffs.b0 x).val| ≤ 2 ^ (60:ℤ) := by rw [A2]; exact hrepB _ pA
  have E3 : |(mul g.coeffs.a1 g.y1).val| ≤ 2 ^ (60:ℤ) := by rw [E2]; exact hrepB _ pE
  -- zero products
  obtain ⟨Z1, Z1v⟩ := mul_zero_val fx1
  obtain ⟨Z2, Z2v⟩ := mul_zero_val fx2
  obtain ⟨Z3, Z3v⟩ := mul_zero_val fy2
  have Arep : rnd (mul g.coeffs.b0 x).val = (mul g.coeffs.b0 x).val := by rw [A2]; exact rnd_idem _
  obtain ⟨S1, S1v⟩ := add_zero_val A1 Z1 Z1v Arep (le_trans A3 big)
  have S1rep : rnd (add (mul g.coeffs.b0 x) (mul zero g.x1)).val = (add (mul g.coeffs.b0 x) (mul zero g.x1)).val := by
    rw [S1v]; exact Arep
  obtain ⟨S2, S2v⟩ := add_zero_val S1 Z2 Z2v S1rep (by rw [S1v]; exact le_trans A3 big)
  have hdiff : |(add (add (mul g.coeffs.b0 x) (mul zero g.x1)) (mul zero g.x2)).val - (mul g.coeffs.a1 g.y1).val| ≤ 2 ^ (127:ℤ) := by
    rw [S2v, S1v]
    have := abs_sub (mul g.coeffs.b0 x).val (mul g.coeffs.a1 g.y1).val
    have : |(mul g.coeffs.b0 x).val - (mul g.coeffs.a1 g.y1).val| ≤ 2 ^ (60:ℤ) + 2 ^ (60:ℤ) := by linarith
    exact le_trans this (by norm_num)
  obtain ⟨D1, D1v⟩ := val_sub S2 E1 hdiff
  rw [S2v, S1v, A2, E2] at D1v
  have Drep : rnd (sub (add (add (mul g.coeffs.b0 x) (mul zero g.x1)) (mul zero g.x2)) (mul g.coeffs.a1 g.y1)).val =
      (sub (add (add (mul g.coeffs.b0 x) (mul zero g.x1)) (mul zero g.x2)) (mul g.coeffs.a1 g.y1)).val := by
    rw [D1v]; exact rnd_idem _
  have Dbig : |(sub (add (add (mul g.coeffs.b0 x) (mul zero g.x1)) (mul zero g.x2)) (mul g.coeffs.a1 g.y1)).val| ≤ 2 ^ (127:ℤ) := by
    rw [D1v]
    apply abs_rnd_le _ (rep_pow2 (by norm_num))
    have := abs_sub (rnd (g.coeffs.b0.val * x.val)) (rnd (g.coeffs.a1.val * g.y1.val))
    have h1' := hrepB _ pA
    have h2' := hrepB _ pE
    have : |rnd (g.coeffs.b0.val * x.val) - rnd (g.coeffs.a1.val * g.y1.val)| ≤ 2 ^ (60:ℤ) + 2 ^ (60:ℤ) := by linarith
    exact le_trans this (by norm_num)
  obtain ⟨F1, F1v⟩ := sub_zero_val D1 Z3 Z3v Drep Dbig
  simp only [Glide.process, h1.a2, h1.b1, h1.b2]
  refine ⟨F1, ?_, ?_⟩
  · rw [F1v, D1v]; rfl
  · simp

end Glide
