import SynthVerif.Props.MidiLemmas
/-!
# C06 — MIDI byte-stream framing: channel isolation, running status, real-time bytes

`Dec` is a reference decoder written from the MIDI 1.0 framing rules (running status, a status byte aborts a
partial message, system-common/exclusive bytes 0xF0..0xF7 cancel running status, system-exclusive payload is
therefore ignored, system real-time bytes 0xF8..0xFF are transparent).  It only reports the four message kinds
the receiver supports.
* `parser_refines_decoder`: after every byte the modelled `midi-convert` parser and the reference decoder are
  coupled, and the supported message they emit for that byte is the same.
* `receiver_follows_reference`: hence after every byte sequence every observable of the receiver equals the one
  obtained by applying the supported messages of the reference decoding.
* `realtime_transparent`, `other_channel_inert`, `unsupported_inert`: the corollaries named in the property.
* `payload_bounds`: every value handed to the `midi-types` conversions satisfies their debug assertions, so
  `parse` cannot panic on any byte.
-/
namespace C06

/-- the message kinds the receiver acts on -/
def supported : MidiMsg → Bool
  | .noteOff .. | .noteOn .. | .controlChange .. | .pitchBend .. => true
  | _ => false

def keep (o : Option MidiMsg) : Option MidiMsg :=
  match o with
  | some x => if supported x then some x else none
  | none => none

/-- reference decoder state: running status (0 = none) and the data bytes collected so far -/
structure Dec where
  status : Nat := 0
  data : List Nat := []
deriving Repr, DecidableEq

def Dec.step (d : Dec) (b : Nat) : Dec × Option MidiMsg :=
  if b ≥ 0xF8 then (d, none)
  else if b ≥ 0xF0 then ({ status := 0, data := [] }, none)
  else if b ≥ 0x80 then ({ status := b, data := [] }, none)
  else if d.status == 0 then (d, none)
  else
    let kind := d.status / 16
    let ch := d.status % 16
    if kind == 0xC || kind == 0xD then ({ d with data := [] }, none)
    else match d.data with
      | [] => ({ d with data := [b] }, none)
      | x :: _ =>
        ({ d with data := [] },
          if kind == 0x8 then some (.noteOff ch x b)
          else if kind == 0x9 then some (.noteOn ch x b)
          else if kind == 0xB then some (.controlChange ch x b)
          else if kind == 0xE then some (.pitchBend ch b x)
          else none)

/-- coupling between the parser state of `midi-convert` and the reference decoder -/
def Cpl : ParserState → Dec → Prop
  | .idle, d => d.status = 0
  | .quarterFrameRecvd, d | .songPositionRecvd, d | .songPositionLsbRecvd _, d | .songSelectRecvd, d => d.status = 0
  | .noteOffRecvd ch, d => ch < 16 ∧ d = ⟨0x80 + ch, []⟩
  | .noteOffNoteRecvd ch n, d => ch < 16 ∧ d = ⟨0x80 + ch, [n]⟩
  | .noteOnRecvd ch, d => ch < 16 ∧ d = ⟨0x90 + ch, []⟩
  | .noteOnNoteRecvd ch n, d => ch < 16 ∧ d = ⟨0x90 + ch, [n]⟩
  | .keyPressureRecvd ch, d => ch < 16 ∧ d = ⟨0xA0 + ch, []⟩
  | .keyPressureNoteRecvd ch n, d => ch < 16 ∧ d = ⟨0xA0 + ch, [n]⟩
  | .controlChangeRecvd ch, d => ch < 16 ∧ d = ⟨0xB0 + ch, []⟩
  | .controlChangeControlRecvd ch n, d => ch < 16 ∧ d = ⟨0xB0 + ch, [n]⟩
  | .programChangeRecvd ch, d => ch < 16 ∧ d = ⟨0xC0 + ch, []⟩
  | .channelPressureRecvd ch, d => ch < 16 ∧ d = ⟨0xD0 + ch, []⟩
  | .pitchBendRecvd ch, d => ch < 16 ∧ d = ⟨0xE0 + ch, []⟩
  | .pitchBendLsbRecvd ch n, d => ch < 16 ∧ d = ⟨0xE0 + ch, [n]⟩

theorem cpl_init : Cpl .idle {} := rfl

private theorem sys_cases (b : Nat) (h1 : 0xF0 ≤ b) (h2 : b < 256) :
    b = 0xF0 ∨ b = 0xF1 ∨ b = 0xF2 ∨ b = 0xF3 ∨ b = 0xF4 ∨ b = 0xF5 ∨ b = 0xF6 ∨ b = 0xF7 ∨
    b = 0xF8 ∨ b = 0xF9 ∨ b = 0xFA ∨ b = 0xFB ∨ b = 0xFC ∨ b = 0xFD ∨ b = 0xFE ∨ b = 0xFF := by omega

/-- status and system bytes -/
private theorem step_status {st : ParserState} {d : Dec} (h : Cpl st d) (b : Nat) (hb : b < 256) (h80 : 0x80 ≤ b) :
    Cpl (parserStep st b).1 (d.step b).1 ∧ keep (parserStep st b).2 = (d.step b).2 := by
  by_cases hF0 : 0xF0 ≤ b
  · rcases sys_cases b hF0 hb with h | h | h | h | h | h | h | h | h | h | h | h | h | h | h | h <;> subst h <;>
      (refine ⟨?_, ?_⟩ <;> first | exact h | rfl | (simp [parserStep, Dec.step, Cpl]) )
  · have hk : b / 16 = 8 ∨ b / 16 = 9 ∨ b / 16 = 10 ∨ b / 16 = 11 ∨ b / 16 = 12 ∨ b / 16 = 13 ∨ b / 16 = 14 := by omega
    have hm : b % 16 < 16 := Nat.mod_lt _ (by decide)
    have hge : ¬ (b ≥ 0xF8) := by omega
    have hge2 : ¬ (b ≥ 0xF0) := by omega
    have hdec : d.step b = ({ status := b, data := [] }, none) := by
      simp only [Dec.step, hge, hge2, h80, ↓reduceIte]
    have hlt : ¬ (b ≥ 240) := by omega
    rcases hk with hk | hk | hk | hk | hk | hk | hk <;>
      (simp only [parserStep, h80, hlt, hk, hdec, ↓reduceIte, keep, Cpl]
       refine ⟨⟨hm, ?_⟩, trivial⟩
       congr 1; omega)

private theorem nib (c : Nat) (h : c < 16) :
    (0x80 + c) / 16 = 8 ∧ (0x90 + c) / 16 = 9 ∧ (0xA0 + c) / 16 = 10 ∧ (0xB0 + c) / 16 = 11 ∧
    (0xC0 + c) / 16 = 12 ∧ (0xD0 + c) / 16 = 13 ∧ (0xE0 + c) / 16 = 14 ∧
    (0x80 + c) % 16 = c ∧ (0x90 + c) % 16 = c ∧ (0xA0 + c) % 16 = c ∧ (0xB0 + c) % 16 = c ∧
    (0xC0 + c) % 16 = c ∧ (0xD0 + c) % 16 = c ∧ (0xE0 + c) % 16 = c := by omega

/-- data bytes -/
private theorem step_data {st : ParserState} {d : Dec} (h : Cpl st d) (b : Nat) (h80 : b < 0x80) :
    Cpl (parserStep st b).1 (d.step b).1 ∧ keep (parserStep st b).2 = (d.step b).2 := by
  have n1 : ¬ (b ≥ 0x80) := by omega
  have n2 : ¬ (b ≥ 0xF8) := by omega
  have n3 : ¬ (b ≥ 0xF0) := by omega
  cases st <;> simp only [Cpl] at h
  case idle | quarterFrameRecvd | songPositionRecvd | songPositionLsbRecvd | songSelectRecvd =>
    simp [parserStep, Dec.step, n1, n2, n3, h, keep, supported, Cpl]
  all_goals
    obtain ⟨hc, hd⟩ := h
    subst hd
    obtain ⟨e1, e2, e3, e4, e5, e6, e7, m1, m2, m3, m4, m5, m6, m7⟩ := nib _ hc
    simp [parserStep, Dec.step, n1, n2, n3, keep, supported, Cpl, hc, e1, e2, e3, e4, e5, e6, e7,
      m1, m2, m3, m4, m5, m6, m7]

/-- **parser refinement**, one byte -/
theorem parser_refines_decoder {st : ParserState} {d : Dec} (h : Cpl st d) (b : Nat) (hb : b < 256) :
    Cpl (parserStep st b).1 (d.step b).1 ∧ keep (parserStep st b).2 = (d.step b).2 := by
  by_cases h80 : b < 0x80
  · exact step_data h b h80
  · exact step_status h b hb (by omega)

/-- unsupported messages never change the receiver -/
theorem unsupported_inert (m : Midi) (x : MidiMsg) (h : supported x = false) : m.handle x = m := by
  cases x <;> simp_all [supported, Midi.handle]

/-- messages for another channel never change the receiver -/
theorem other_channel_inert (m : Midi) (c a b : Nat) (h : c ≠ m.channel) :
    m.handle (.noteOn c a b) = m ∧ m.handle (.noteOff c a b) = m ∧
    m.handle (.controlChange c a b) = m ∧ m.handle (.pitchBend c a b) = m := by
  have : (c == m.channel) = false := by simp [h]
  simp [Midi.handle, this]

/-- the reference receiver: the reference decoder followed by the receiver's message handling -/
def refParse (p : Midi × Dec) (b : Nat) : Midi × Dec :=
  let (d', msg) := p.2.step b
  (match msg with | some x => p.1.handle x | none => p.1, d')

/-- everything observable through the public getters and the edge polls (the parser state is not) -/
def obs (m : Midi) : Midi := { m with parser := .idle }

private theorem handle_parser (m : Midi) (x : MidiMsg) : (m.handle x).parser = m.parser := by
  cases x <;> simp [Midi.handle] <;> (repeat' split) <;> simp [Midi.noteOn, Midi.noteOff, Midi.controlChange]

private theorem obs_handle (m : Midi) (p : ParserState) (x : MidiMsg) :
    obs ({ m with parser := p }.handle x) = obs (m.handle x) := by
  cases x <;> simp [Midi.handle, obs] <;> (repeat' split) <;> simp [Midi.noteOn, Midi.noteOff, Midi.controlChange,
    Midi.heldAfterOn, Midi.heldAfterOff]

private theorem obs_handle' (m : Midi) (x : MidiMsg) : obs (m.handle x) = obs ((obs m).handle x) := by
  have e : m = { obs m with parser := m.parser } := by cases m; rfl
  have := obs_handle (obs m) m.parser x
  rw [← e] at this
  exact this

private theorem handle_congr_obs {m m' : Midi} (h : obs m = obs m') (x : MidiMsg) : obs (m.handle x) = obs (m'.handle x) := by
  rw [obs_handle' m, obs_handle' m', h]

private theorem parse_step {m : Midi} {r : Midi × Dec} (ho : obs m = obs r.1) (hc : Cpl m.parser r.2)
    (b : Nat) (hb : b < 256) :
    obs (m.parse b) = obs (refParse r b).1 ∧ Cpl (m.parse b).parser (refParse r b).2 := by
  obtain ⟨hc', hk⟩ := parser_refines_decoder hc b hb
  simp only [Midi.parse, refParse]
  rw [← hk]
  cases hp : (parserStep m.parser b).2 with
  | none => simpa [keep, obs, hp] using ⟨by simpa [obs] using ho, hc'⟩
  | some x =>
    by_cases hs : supported x
    · simp only [keep, hs, ↓reduceIte, hp]
      refine ⟨?_, by rw [handle_parser]; exact hc'⟩
      rw [obs_handle]; exact handle_congr_obs ho x
    · have hs' : supported x = false := by simpa using hs
      simp only [keep, hs', Bool.false_eq_true, ↓reduceIte, hp]
      rw [unsupported_inert _ x hs']
      exact ⟨by simpa [obs] using ho, hc'⟩

/-- **C06, main statement.** After every byte sequence (bytes 0..=255) all observables of the receiver equal those
of the reference receiver (MIDI 1.0 decoding, then only the supported messages). -/
theorem receiver_follows_reference (ch : Nat) (bs : List Nat) (hb : ∀ b ∈ bs, b < 256) :
    obs (bs.foldl Midi.parse (Midi.new ch)) = obs (bs.foldl refParse (Midi.new ch, {})).1 := by
  suffices h : ∀ (m : Midi) (r : Midi × Dec), obs m = obs r.1 → Cpl m.parser r.2 →
      obs (bs.foldl Midi.parse m) = obs (bs.foldl refParse r).1 from
    h _ _ rfl (by simp [Midi.new, Cpl])
  induction bs with
  | nil => intro m r ho _; simpa using ho
  | cons b bs ih =>
    intro m r ho hc
    obtain ⟨h1, h2⟩ := parse_step ho hc b (hb b (by simp))
    simp only [List.foldl_cons]
    exact ih (fun x hx => hb x (by simp [hx])) _ _ h1 h2

/-- system real-time bytes are invisible to the reference receiver wherever they are inserted -/
theorem ref_realtime (r : Midi × Dec) (b : Nat) (h : 0xF8 ≤ b) : refParse r b = r := by
  simp [refParse, Dec.step, h]

/-- **real-time transparency**: inserting a system real-time byte anywhere in a stream, even between the bytes of
a message, changes no observable at any later point. -/
theorem realtime_transparent (ch : Nat) (pre post : List Nat) (rt : Nat) (hrt : 0xF8 ≤ rt) (hrt' : rt < 256)
    (h1 : ∀ b ∈ pre, b < 256) (h2 : ∀ b ∈ post, b < 256) :
    obs ((pre ++ rt :: post).foldl Midi.parse (Midi.new ch)) = obs ((pre ++ post).foldl Midi.parse (Midi.new ch)) := by
  rw [receiver_follows_reference ch (pre ++ rt :: post) (by
        intro b hb; simp at hb; rcases hb with hb | hb | hb
        · exact h1 b hb
        · omega
        · exact h2 b hb),
      receiver_follows_reference ch (pre ++ post) (by
        intro b hb; simp at hb; rcases hb with hb | hb
        · exact h1 b hb
        · exact h2 b hb)]
  simp [List.foldl_append, ref_realtime _ rt hrt]

/-- every value the parser passes to a `midi-types` constructor satisfies that constructor's debug assertion
(`<= 127` for data, `<= 15` for channels): `parse` cannot panic -/
def msgBounded : MidiMsg → Prop
  | .noteOff c n v | .noteOn c n v | .keyPressure c n v | .controlChange c n v | .pitchBend c n v => c < 16 ∧ n < 128 ∧ v < 128
  | .programChange c p | .channelPressure c p => c < 16 ∧ p < 128
  | .quarterFrame v | .songSelect v => v < 128
  | .songPosition a b => a < 128 ∧ b < 128
  | _ => True

def stateBounded : ParserState → Prop
  | .noteOnRecvd c | .noteOffRecvd c | .keyPressureRecvd c | .controlChangeRecvd c | .programChangeRecvd c
  | .channelPressureRecvd c | .pitchBendRecvd c => c < 16
  | .noteOnNoteRecvd c n | .noteOffNoteRecvd c n | .keyPressureNoteRecvd c n | .controlChangeControlRecvd c n
  | .pitchBendLsbRecvd c n => c < 16 ∧ n < 128
  | .songPositionLsbRecvd n => n < 128
  | _ => True

theorem payload_bounds (st : ParserState) (h : stateBounded st) (b : Nat) (hb : b < 256) :
    stateBounded (parserStep st b).1 ∧ ∀ x, (parserStep st b).2 = some x → msgBounded x := by
  by_cases h80 : b < 0x80
  · have n1 : ¬ (b ≥ 0x80) := by omega
    cases st <;> simp only [parserStep, n1, ↓reduceIte, stateBounded] at h ⊢ <;>
      (refine ⟨?_, ?_⟩ <;> first | trivial | omega | (intro x hx; cases hx; simp only [msgBounded]; omega) | (intro x hx; cases hx))
  · by_cases hF0 : 0xF0 ≤ b
    · rcases sys_cases b hF0 hb with e | e | e | e | e | e | e | e | e | e | e | e | e | e | e | e <;> subst e <;>
        simp_all [parserStep, stateBounded, msgBounded]
    · have hk : b / 16 = 8 ∨ b / 16 = 9 ∨ b / 16 = 10 ∨ b / 16 = 11 ∨ b / 16 = 12 ∨ b / 16 = 13 ∨ b / 16 = 14 := by omega
      have hm : b % 16 < 16 := Nat.mod_lt _ (by decide)
      have h1 : b ≥ 0x80 := by omega
      have h2 : ¬ b ≥ 240 := by omega
      rcases hk with hk | hk | hk | hk | hk | hk | hk <;>
        (refine ⟨?_, ?_⟩ <;> simp only [parserStep, h1, h2, hk, ↓reduceIte, stateBounded] <;>
          first | exact hm | (intro x hx; cases hx))

/-- non-vacuity / example: running status, a real-time byte inside a message, a foreign-channel message and a
system-exclusive block; the note ends up as 61 with the gate high -/
example : (([0x91, 60, 0xF8, 100, 61, 0xFE, 90, 0x92, 70, 70, 0xF0, 1, 2, 3, 0xF7, 5, 5]).foldl Midi.parse (Midi.new 1)).noteNum = 61 := by
  decide

end C06
