import SynthVerif.Props.C19
/-!
# C19, part 2 — how far the chromatic fraction can leave [0, 1 semitone)

The search grid puts note `m` at `m·83333 + 4·(m/12)` µV (an 83333 µV semitone, octaves at exact volts), the result record
at `fl(m/12)` V.  For the chromatic scale without history:
* `chromatic_pick`: the candidate `r` the search returns satisfies `r − 4 ≤ µ < r + 83333` (`µ` the input in µV), and
  `r ≤ µ` unless the note is a C (the 83337 µV gap below each octave is the only place where the note above wins
  although the input is still below it): this is finding K1;
* `fresh_chromatic_bucket`: for an input `q ∈ [0, 10]` V and the reported note `m`:
  `m/12 − 4.5·10^-6 ≤ q < (m+1)/12 + 1.5·10^-6`;
* `chromatic_fraction_bounds`: the reported fraction lies in `[−6·10^-6, 1/12 + 3·10^-6]` V: the clause "fraction in
  [0, 1) semitone" fails by at most 6 µV, which bounds the region of the recorded finding K1 from outside
  (`known_findings.json` lists what was observed: down to −4.1 µV, within 4.1 µV below a note boundary).
-/
namespace C19
open F32 Quantizer

theorem chromatic_bits : ∀ n, n < 12 → bit 4095 n = true := by decide

/-- candidate of note `m = 12·o + n` -/
theorem cand_mem (o n : ℕ) (ho : o ≤ 10) (hn : n < 12) : n * Gen.halfStepUv + o * Gen.oneOctaveUv ∈ C08.globalCands 4095 := by
  obtain ⟨_, _, h3⟩ := consts
  exact C08.mem_globalCands.mpr ⟨o, n, by rw [h3]; exact ho, hn, chromatic_bits n hn, rfl⟩

/-- **the chromatic pick**: where the input can be relative to the returned candidate -/
theorem chromatic_pick (uv r : ℕ) (huv : uv ≤ 10000000) (hp : Pick (C08.globalCands 4095) uv r) :
    ∃ o n, o ≤ 10 ∧ n < 12 ∧ r = n * 83333 + o * 1000000 ∧ r ≤ uv + 4 ∧ uv < r + 83333 ∧ (n ≠ 0 → r ≤ uv) := by
  obtain ⟨h1, h2, h3⟩ := consts
  obtain ⟨hr, hA, _⟩ := hp
  obtain ⟨o, n, ho, hn, _, he⟩ := C08.mem_globalCands.mp hr
  rw [h1, h2] at he
  rw [h3] at ho
  -- some candidate is within a half step of uv
  have hex : ∃ c ∈ C08.globalCands 4095, delta uv c < Gen.halfStepUv := by
    rw [h1]
    by_cases hseam : 999996 ≤ uv % 1000000
    · -- in the 4 uvV below an octave: the C above
      have ho' : uv / 1000000 + 1 ≤ 10 := by omega
      refine ⟨0 * Gen.halfStepUv + (uv / 1000000 + 1) * Gen.oneOctaveUv, cand_mem _ 0 ho' (by norm_num), ?_⟩
      rw [h1, h2]; unfold delta; split <;> omega
    · have hn0 : min 11 (uv % 1000000 / 83333) < 12 := by omega
      refine ⟨min 11 (uv % 1000000 / 83333) * Gen.halfStepUv + (uv / 1000000) * Gen.oneOctaveUv,
        cand_mem _ _ (by omega) hn0, ?_⟩
      rw [h1, h2]; unfold delta; split <;> omega
  obtain ⟨hd, hlow⟩ := hA hex
  rw [h1] at hd hlow
  have hd' : r < uv + 83333 ∧ uv < r + 83333 := by unfold delta at hd; split at hd <;> omega
  refine ⟨o, n, ho, hn, he, ?_, hd'.2, ?_⟩
  · -- the candidate just below r is at least a half step away
    by_cases hn0 : n = 0
    · by_cases ho0 : o = 0
      · subst hn0 ho0; omega
      · have hm := cand_mem (o - 1) 11 (by omega) (by norm_num)
        have hlt : 11 * Gen.halfStepUv + (o - 1) * Gen.oneOctaveUv < r := by rw [h1, h2, he]; omega
        have := hlow _ hm hlt
        rw [h1, h2] at this
        unfold delta at this; split at this <;> omega
    · have hm := cand_mem o (n - 1) ho (by omega)
      have hlt : (n - 1) * Gen.halfStepUv + o * Gen.oneOctaveUv < r := by rw [h1, h2, he]; omega
      have := hlow _ hm hlt
      rw [h1, h2] at this
      unfold delta at this; split at this <;> omega
  · intro hn0
    have hm := cand_mem o (n - 1) ho (by omega)
    have hlt : (n - 1) * Gen.halfStepUv + o * Gen.oneOctaveUv < r := by rw [h1, h2, he]; omega
    have := hlow _ hm hlt
    rw [h1, h2] at this
    unfold delta at this; split at this <;> omega

/-- the note reported for `uv` microvolts on the chromatic scale, and where `uv` can be relative to it -/
theorem chromatic_note_uv (uv : ℕ) (huv : uv ≤ 10000000) :
    let m := findNearestUv 4095 uv
    m ≤ 131 ∧ 1000000 * (m : ℚ) / 12 - 4 ≤ uv ∧ (uv : ℚ) < 1000000 * ((m : ℚ) + 1) / 12 := by
  intro m
  obtain ⟨h1, h2, h3⟩ := consts
  have ha : ∃ n, n < 12 ∧ bit 4095 n = true := ⟨0, by norm_num, by decide⟩
  have p := C08.local_to_global 4095 uv _ ha huv (C08.search_is_pick 4095 uv ha huv)
  obtain ⟨o, n, ho, hn, he, hlo, hhi, hnz⟩ := chromatic_pick uv _ huv p
  have hm : m = n + 12 * o := by
    show findNearestUv 4095 uv = _
    rw [C08.findNearestUv_eq, he, h1]
    have e : (n * 83333 + o * 1000000) / 83333 = n + 12 * o := by omega
    rw [e]; omega
  set r := ((allCands 4095 uv).foldl (scanStep uv) {}).result with hrdef
  have hrq : (r : ℚ) = 1000000 * ((n : ℚ) + 12 * o) / 12 - (n : ℚ) / 3 := by
    rw [he]; push_cast; ring
  have hnq : (n : ℚ) ≤ 11 := by
    have : n ≤ 11 := by omega
    exact_mod_cast this
  have hn0q : (0 : ℚ) ≤ n := by positivity
  refine ⟨by rw [hm]; omega, ?_, ?_⟩
  · rw [hm]; push_cast
    by_cases hn0 : n = 0
    · have : (r : ℚ) ≤ (uv : ℚ) + 4 := by exact_mod_cast hlo
      rw [hrq, hn0] at this
      rw [hn0]; push_cast at this ⊢; linarith
    · have : (r : ℚ) ≤ (uv : ℚ) := by exact_mod_cast hnz hn0
      rw [hrq] at this
      linarith
  · rw [hm]; push_cast
    have : (uv : ℚ) < (r : ℚ) + 83333 := by exact_mod_cast hhi
    rw [hrq] at this
    linarith

/-- clamping is the identity on [0, 10] (up to the sign of zero) -/
theorem clamp_id (x : ℚ) (s : Bool) (hx0 : 0 ≤ x) (hx10 : x ≤ 10) : ∃ s', fmin (fmax (.fin x s) zero) vMax = .fin x s' := by
  rw [C07.vMax_eq]
  by_cases hz : x = 0
  · subst hz; cases s <;> exact ⟨false, by simp [fmax, fmin, zero, mixedZeros, lt]⟩
  · have hq : (x == 0) = false := by simpa using hz
    have h1 : ¬ x < 0 := not_lt.mpr hx0
    have h2 : ¬ (10:ℚ) < x := not_lt.mpr hx10
    exact ⟨s, by simp [fmax, fmin, zero, mixedZeros, lt, hq, h1, h2]⟩

/-- **where the input lies relative to the reported chromatic note** (history-free conversion, input in [0, 10] V) -/
theorem fresh_chromatic_bucket (q : ℚ) (nz : Bool) (h0 : 0 ≤ q) (h10 : q ≤ 10) :
    let m := (convertFresh 4095 (.fin q nz)).note
    m ≤ 131 ∧ (m : ℚ) / 12 - 45 / 10000000 ≤ q ∧ q < ((m : ℚ) + 1) / 12 + 15 / 10000000 := by
  intro m
  obtain ⟨s', e⟩ := clamp_id q nz h0 h10
  have hm : m = findNearestUv 4095 (toMicrovolts (.fin q s')) := by
    show (convertFresh 4095 (.fin q nz)).note = _
    simp only [convertFresh, e]
  have hle : toMicrovolts (.fin q s') ≤ 10000000 := by
    have := C07.microvolts_le (.fin q nz); rwa [e] at this
  obtain ⟨c1, c2⟩ := C08.microvolts_close q s' h0 h10
  obtain ⟨b1, b2, b3⟩ := chromatic_note_uv _ hle
  rw [← hm] at b1 b2 b3
  refine ⟨b1, ?_, ?_⟩
  · have : 1000000 * (m : ℚ) / 12 - 4 ≤ q * 1000000 + 1 / 2 := le_trans b2 c2
    linarith
  · have : q * 1000000 - 3 / 2 < 1000000 * ((m : ℚ) + 1) / 12 := lt_trans c1 b3
    linarith

private theorem err16' {x : ℚ} (h : |x| < 16) : |rnd x - x| ≤ 2 ^ (-21:ℤ) := by
  have := rnd_err (x := x) (k := 4) (by norm_num) (by norm_num; exact h)
  norm_num at this ⊢; exact this

/-- **C19, chromatic fraction**: a history-free chromatic conversion of an input in [0, 10] V reports a fraction in
`[−6·10^-6, 1/12 + 3·10^-6]` V — at most 6 µV outside the `[0, 1 semitone)` the property asks for (finding K1). -/
theorem chromatic_fraction_bounds (q : ℚ) (nz : Bool) (h0 : 0 ≤ q) (h10 : q ≤ 10) :
    -(6 / 1000000) ≤ (convertFresh 4095 (.fin q nz)).fraction.val ∧
    (convertFresh 4095 (.fin q nz)).fraction.val ≤ 1 / 12 + 3 / 1000000 := by
  obtain ⟨m131, blo, bhi⟩ := fresh_chromatic_bucket q nz h0 h10
  obtain ⟨s', e⟩ := clamp_id q nz h0 h10
  set m := (convertFresh 4095 (.fin q nz)).note with hm
  have hfr : (convertFresh 4095 (.fin q nz)).fraction = sub (.fin q s') (div (ofNat m) notesPerOctave) := by
    rw [hm]; simp only [convertFresh, e]
  obtain ⟨s1, s2⟩ := C09.stairstep_val m (by omega)
  have mq : (m : ℚ) ≤ 131 := by exact_mod_cast m131
  have m0 : (0 : ℚ) ≤ m := by positivity
  have hq16 : |(m : ℚ) / 12| < 16 := by
    rw [abs_of_nonneg (by positivity), div_lt_iff₀ (by norm_num)]; linarith
  have e0 := abs_le.mp (err16' hq16)
  set S := rnd ((m : ℚ) / 12) with hS
  have hd : |q - S| < 16 := by
    rw [abs_lt]
    have : (m : ℚ) / 12 ≤ 11 := by rw [div_le_iff₀ (by norm_num)]; linarith
    have p21 : (2:ℚ) ^ (-21:ℤ) ≤ 1 := by norm_num
    constructor <;> linarith [e0.1, e0.2]
  obtain ⟨f1, f2⟩ := val_sub (x := .fin q s') (y := div (ofNat m) notesPerOctave) rfl s1
    (by rw [val_fin, s2]; exact le_trans (le_of_lt hd) (by norm_num))
  rw [val_fin, s2] at f2
  have e1 := abs_le.mp (err16' hd)
  rw [hfr, f2]
  have e21 : (2:ℚ) ^ (-21:ℤ) ≤ 5 / 10000000 := by norm_num
  generalize (2:ℚ) ^ (-21:ℤ) = t at *
  constructor <;> linarith [e0.1, e0.2, e1.1, e1.2]

/-- non-vacuity and sharpness: the witness of K1 sits inside the bound -/
example : -(6 / 1000000 : ℚ) ≤ (convertFresh 4095 (ofBits 0x3f7fffbd)).fraction.val ∧
    (convertFresh 4095 (ofBits 0x3f7fffbd)).fraction.val < 0 := by decide +kernel

end C19
