import SynthVerif.Props.C12
import Mathlib.Analysis.SpecialFunctions.Trigonometric.Bounds
import Mathlib.Analysis.Real.Pi.Bounds
/-!
# C10, sine closeness — the sine output is within 0.0125 of sin(2π·phase)

* `table_close`: every one of the 1024 binary32 entries of the regenerated sine table is within `4·10^-7` of
  `sin(2π·i/1023)` (the table is `np.sin(np.linspace(0, 2π, 1024))`).  Proof: a 60-bit fixed-point rotation
  `(s, c) ↦ (C·s + S·c, C·c − S·s)` with `C ≈ cos h`, `S ≈ sin h`, `h = 2π/1023`, is run by the kernel next to the table
  (`decide +kernel`: every entry within `4·10^-8` of the rotated value); on the real side the rotation follows
  `(sin ih, cos ih)` with an error that grows only linearly (the rotation does not expand the Euclidean norm), `C, S` being
  enclosed by Mathlib's Taylor bounds for `cos`, `sin` and its 20 digits of `π`.
* `sine_close`: at every phase-counter value the interpolated, rounded sine output is within `0.0093 ≤ 0.0125` of
  `sin(2π·acc/2^24)`: table error + interpolation (`h/2`, sine is 1-Lipschitz) + the stretch between phase and table
  position (`2π/1024`: the table covers the cycle with 1023 intervals, the phase with 1024) + rounding.
-/
namespace C10.Sine
open F32 C12 Real

def Q : ℤ := 2 ^ 60
def Cq : ℤ := 1152899758733803069
def Sq : ℤ := 7081108419911879

/-- one step of the fixed-point rotation (floor division) -/
def rotStep (p : ℤ × ℤ) : ℤ × ℤ := ((Cq * p.1 + Sq * p.2) / Q, (Cq * p.2 - Sq * p.1) / Q)

def rot : ℕ → ℤ × ℤ
  | 0 => (0, Q)
  | n + 1 => rotStep (rot n)

def tolq : ℚ := 4 / 100000000

/-- compare a list of table bit patterns with the rotation started at `p` -/
def chk : List ℕ → ℤ × ℤ → Bool
  | [], _ => true
  | b :: bs, p => decide (|(ofBits b).val - (p.1 : ℚ) / (Q : ℚ)| ≤ tolq) && chk bs (rotStep p)

theorem sine_rot_table : chk Gen.sineBitsL (0, Q) = true := by decide +kernel

theorem chk_get (l : List ℕ) (p : ℤ × ℤ) (h : chk l p = true) (i : ℕ) (hi : i < l.length) :
    |(ofBits (l.getD i 0)).val - ((Nat.iterate rotStep i p).1 : ℚ) / (Q : ℚ)| ≤ tolq := by
  induction l generalizing p i with
  | nil => simp at hi
  | cons b bs ih =>
    simp only [chk, Bool.and_eq_true, decide_eq_true_eq] at h
    cases i with
    | zero => simpa using h.1
    | succ i =>
      have := ih (rotStep p) h.2 i (by simpa using hi)
      simpa [Function.iterate_succ_apply] using this

theorem rot_iter (i : ℕ) : rot i = Nat.iterate rotStep i (0, Q) := by
  induction i with
  | zero => rfl
  | succ i ih => rw [rot, ih, Function.iterate_succ_apply']

/-- kernel-checked: entry `i` of the table is within `4·10^-8` of the fixed-point rotation -/
theorem table_rot (i : ℕ) (hi : i < 1024) : |Tq i - ((rot i).1 : ℚ) / (Q : ℚ)| ≤ tolq := by
  have := chk_get Gen.sineBitsL (0, Q) sine_rot_table i (by rw [C10.sine_len]; exact hi)
  rw [rot_iter]; exact this

/-! ### the real side: the rotation follows (sin ih, cos ih) -/

/-- the table step `h = 2π/1023` -/
noncomputable def h : ℝ := 2 * π / 1023

noncomputable def Cr : ℝ := (Cq : ℝ) / (Q : ℝ)
noncomputable def Sr : ℝ := (Sq : ℝ) / (Q : ℝ)

theorem Q_pos : (0:ℝ) < (Q : ℝ) := by unfold Q; norm_num
theorem CS_norm : Cr ^ 2 + Sr ^ 2 ≤ 1 := by
  unfold Cr Sr Cq Sq Q; norm_num

theorem h_enc : 2 * 3.14159265358979323846 / 1023 < h ∧ h < 2 * 3.14159265358979323847 / 1023 := by
  unfold h
  have h1 := pi_gt_d20
  have h2 := pi_lt_d20
  constructor
  · apply div_lt_div_of_pos_right _ (by norm_num); linarith
  · apply div_lt_div_of_pos_right _ (by norm_num); linarith

/-- `C`, `S` are `cos h`, `sin h` up to `1.5·10^-10` together -/
theorem CS_close : |Cr - cos h| + |Sr - sin h| ≤ 149 / 10 ^ 12 := by
  obtain ⟨l, u⟩ := h_enc
  have h0 : 0 < h := lt_trans (by norm_num) l
  have h1 : |h| ≤ 1 := by rw [abs_of_pos h0]; linarith [lt_trans u (by norm_num : (2 * 3.14159265358979323847 / 1023 : ℝ) < 1)]
  have cb := abs_le.mp (cos_bound h1)
  have sb := abs_le.mp (sin_bound h1)
  rw [abs_of_pos h0] at cb sb
  -- powers of h between the powers of the enclosure
  obtain ⟨a, ha⟩ : ∃ a : ℝ, a = 2 * 3.14159265358979323846 / 1023 := ⟨_, rfl⟩
  obtain ⟨b, hb⟩ : ∃ b : ℝ, b = 2 * 3.14159265358979323847 / 1023 := ⟨_, rfl⟩
  rw [← ha] at l
  rw [← hb] at u
  have a0 : 0 < a := by rw [ha]; norm_num
  have p2l : a ^ 2 ≤ h ^ 2 := pow_le_pow_left₀ a0.le l.le 2
  have p2u : h ^ 2 ≤ b ^ 2 := pow_le_pow_left₀ h0.le u.le 2
  have p3l : a ^ 3 ≤ h ^ 3 := pow_le_pow_left₀ a0.le l.le 3
  have p3u : h ^ 3 ≤ b ^ 3 := pow_le_pow_left₀ h0.le u.le 3
  have p4u : h ^ 4 ≤ b ^ 4 := pow_le_pow_left₀ h0.le u.le 4
  have p5u : h ^ 5 ≤ b ^ 5 := pow_le_pow_left₀ h0.le u.le 5
  have p40 : 0 ≤ h ^ 4 := by positivity
  have p50 : 0 ≤ h ^ 5 := by positivity
  have c1 : Cr - cos h ≤ 148 / 10 ^ 12 := by
    have : Cr ≤ (1 - b ^ 2 / 2 - b ^ 4 * (5 / 96)) + 148 / 10 ^ 12 := by
      unfold Cr Cq Q; rw [hb]; norm_num
    linarith [cb.1]
  have c2 : -(148 / 10 ^ 12) ≤ Cr - cos h := by
    have : (1 - a ^ 2 / 2 + b ^ 4 * (5 / 96)) - 148 / 10 ^ 12 ≤ Cr := by
      unfold Cr Cq Q; rw [ha, hb]; norm_num
    linarith [cb.2]
  have s1 : Sr - sin h ≤ 1 / 10 ^ 12 := by
    have : Sr ≤ (a - b ^ 3 / 6 - b ^ 5 / 100) + 1 / 10 ^ 12 := by
      unfold Sr Sq Q; rw [ha, hb]; norm_num
    linarith [sb.1]
  have s2 : -(1 / 10 ^ 12) ≤ Sr - sin h := by
    have : (b - a ^ 3 / 6 + b ^ 5 / 100) - 1 / 10 ^ 12 ≤ Sr := by
      unfold Sr Sq Q; rw [ha, hb]; norm_num
    linarith [sb.2]
  have A := abs_le.mpr ⟨c2, c1⟩
  have B := abs_le.mpr ⟨s2, s1⟩
  linarith

noncomputable def sR (i : ℕ) : ℝ := ((rot i).1 : ℝ) / (Q : ℝ)
noncomputable def cR (i : ℕ) : ℝ := ((rot i).2 : ℝ) / (Q : ℝ)

/-- floor division by `Q`, as a real statement -/
theorem floor_div (x : ℤ) : ((x / Q : ℤ) : ℝ) / (Q : ℝ) ≤ (x : ℝ) / (Q : ℝ) ^ 2 ∧
    (x : ℝ) / (Q : ℝ) ^ 2 - 1 / (Q : ℝ) < ((x / Q : ℤ) : ℝ) / (Q : ℝ) := by
  have qz : (0:ℤ) < Q := by unfold Q; norm_num
  have h1 : (x / Q) * Q ≤ x := Int.ediv_mul_le x (ne_of_gt qz)
  have h2 : x < (x / Q + 1) * Q := Int.lt_ediv_add_one_mul_self x qz
  have h1' : ((x / Q : ℤ) : ℝ) * (Q : ℝ) ≤ (x : ℝ) := by exact_mod_cast h1
  have h2' : (x : ℝ) < (((x / Q : ℤ) : ℝ) + 1) * (Q : ℝ) := by exact_mod_cast h2
  have qp := Q_pos
  have q2 : (0:ℝ) < (Q : ℝ) ^ 2 := by positivity
  constructor
  · rw [div_le_div_iff₀ qp q2]; nlinarith
  · rw [sub_lt_iff_lt_add, div_lt_iff₀ q2]
    have : (((x / Q : ℤ) : ℝ) / (Q : ℝ) + 1 / (Q : ℝ)) * (Q : ℝ) ^ 2 = (((x / Q : ℤ) : ℝ) + 1) * (Q : ℝ) := by
      field_simp
    rw [this]; exact h2'

/-- one step of the rotation in real terms: exact rotation by `(Cr, Sr)` minus a flooring error below `1/Q` -/
theorem rot_step_real (i : ℕ) :
    ∃ u v : ℝ, 0 ≤ u ∧ u < 1 / (Q : ℝ) ∧ 0 ≤ v ∧ v < 1 / (Q : ℝ) ∧
      sR (i + 1) = Cr * sR i + Sr * cR i - u ∧ cR (i + 1) = Cr * cR i - Sr * sR i - v := by
  have qp := Q_pos
  have qne : (Q : ℝ) ≠ 0 := ne_of_gt qp
  obtain ⟨a1, a2⟩ := floor_div (Cq * (rot i).1 + Sq * (rot i).2)
  obtain ⟨b1, b2⟩ := floor_div (Cq * (rot i).2 - Sq * (rot i).1)
  have es : sR (i + 1) = (((Cq * (rot i).1 + Sq * (rot i).2) / Q : ℤ) : ℝ) / (Q : ℝ) := rfl
  have ec : cR (i + 1) = (((Cq * (rot i).2 - Sq * (rot i).1) / Q : ℤ) : ℝ) / (Q : ℝ) := rfl
  have x1 : ((Cq * (rot i).1 + Sq * (rot i).2 : ℤ) : ℝ) / (Q : ℝ) ^ 2 = Cr * sR i + Sr * cR i := by
    unfold Cr Sr sR cR; push_cast; field_simp
  have x2 : ((Cq * (rot i).2 - Sq * (rot i).1 : ℤ) : ℝ) / (Q : ℝ) ^ 2 = Cr * cR i - Sr * sR i := by
    unfold Cr Sr sR cR; push_cast; field_simp
  rw [x1] at a1 a2; rw [x2] at b1 b2
  refine ⟨Cr * sR i + Sr * cR i - sR (i + 1), Cr * cR i - Sr * sR i - cR (i + 1), ?_, ?_, ?_, ?_, by ring, by ring⟩
  · rw [es]; linarith
  · rw [es]; linarith
  · rw [ec]; linarith
  · rw [ec]; linarith

/-- the rotation error grows at most linearly: `(s_i − sin ih)² + (c_i − cos ih)² ≤ (i·β)²`, `β = 3·10^-10` -/
theorem rot_error (i : ℕ) :
    (sR i - sin (i * h)) ^ 2 + (cR i - cos (i * h)) ^ 2 ≤ ((i : ℝ) * (3 / 10 ^ 10)) ^ 2 := by
  induction i with
  | zero =>
    have z1 : sR 0 = 0 := by unfold sR rot; simp
    have z2 : cR 0 = 1 := by unfold cR rot; exact div_self (ne_of_gt Q_pos)
    simp [z1, z2]
  | succ i ih =>
    obtain ⟨u, v, u0, u1, v0, v1, es, ec⟩ := rot_step_real i
    have hcs := CS_close
    have hQ : 1 / (Q : ℝ) ≤ 1 / 10 ^ 12 := by unfold Q; norm_num
    set a := sR i - sin (i * h) with ha
    set b := cR i - cos (i * h) with hb
    set si := sin (i * h) with hsi
    set ci := cos (i * h) with hci
    have e1 : sin (((i + 1 : ℕ) : ℝ) * h) = si * cos h + ci * sin h := by
      have : ((i + 1 : ℕ) : ℝ) * h = i * h + h := by push_cast; ring
      rw [this, sin_add]
    have e2 : cos (((i + 1 : ℕ) : ℝ) * h) = ci * cos h - si * sin h := by
      have : ((i + 1 : ℕ) : ℝ) * h = i * h + h := by push_cast; ring
      rw [this, cos_add]
    -- the perturbations
    set p := (Cr - cos h) * si + (Sr - sin h) * ci - u with hp
    set q := (Cr - cos h) * ci - (Sr - sin h) * si - v with hq
    have ea : sR (i + 1) - sin (((i + 1 : ℕ) : ℝ) * h) = Cr * a + Sr * b + p := by
      rw [es, e1, hp, ha, hb]; ring
    have eb : cR (i + 1) - cos (((i + 1 : ℕ) : ℝ) * h) = Cr * b - Sr * a + q := by
      rw [ec, e2, hq, ha, hb]; ring
    have s1 : |si| ≤ 1 := abs_sin_le_one _
    have c1 : |ci| ≤ 1 := abs_cos_le_one _
    have hpq : ∀ (m n : ℝ), |m| ≤ 1 → |n| ≤ 1 → ∀ w : ℝ, 0 ≤ w → w < 1 / (Q : ℝ) →
        |(Cr - cos h) * m + (Sr - sin h) * n - w| ≤ 15 / 10 ^ 11 := by
      intro m n hm hn w w0 w1
      have t1 : |(Cr - cos h) * m| ≤ |Cr - cos h| := by
        rw [abs_mul]; exact mul_le_of_le_one_right (abs_nonneg _) hm
      have t2 : |(Sr - sin h) * n| ≤ |Sr - sin h| := by
        rw [abs_mul]; exact mul_le_of_le_one_right (abs_nonneg _) hn
      have t3 := abs_sub ((Cr - cos h) * m + (Sr - sin h) * n) w
      have t4 := abs_add_le ((Cr - cos h) * m) ((Sr - sin h) * n)
      have t5 : |w| ≤ 1 / 10 ^ 12 := by rw [abs_of_nonneg w0]; linarith
      linarith
    have bp : |p| ≤ 15 / 10 ^ 11 := hpq si ci s1 c1 u u0 u1
    have bq : |q| ≤ 15 / 10 ^ 11 := by
      have := hpq ci (-si) c1 (by rwa [abs_neg]) v v0 v1
      have e : (Cr - cos h) * ci + (Sr - sin h) * -si - v = q := by rw [hq]; ring
      rwa [e] at this
    have pq2 : p ^ 2 + q ^ 2 ≤ (3 / 10 ^ 10) ^ 2 := by
      have hp2 : p ^ 2 ≤ (15 / 10 ^ 11) ^ 2 := sq_le_sq' (by linarith [(abs_le.mp bp).1]) (abs_le.mp bp).2
      have hq2 : q ^ 2 ≤ (15 / 10 ^ 11) ^ 2 := sq_le_sq' (by linarith [(abs_le.mp bq).1]) (abs_le.mp bq).2
      have : (2:ℝ) * (15 / 10 ^ 11) ^ 2 ≤ (3 / 10 ^ 10) ^ 2 := by norm_num
      linarith
    -- norms
    set B := (i : ℝ) * (3 / 10 ^ 10) with hB
    have B0 : 0 ≤ B := by positivity
    set β : ℝ := 3 / 10 ^ 10 with hβ
    have β0 : 0 ≤ β := by rw [hβ]; norm_num
    have hn := CS_norm
    have ab2 : a ^ 2 + b ^ 2 ≤ B ^ 2 := ih
    -- rotated vector
    set ra := Cr * a + Sr * b with hra
    set rb := Cr * b - Sr * a with hrb
    have rot2 : ra ^ 2 + rb ^ 2 ≤ B ^ 2 := by
      have : ra ^ 2 + rb ^ 2 = (Cr ^ 2 + Sr ^ 2) * (a ^ 2 + b ^ 2) := by rw [hra, hrb]; ring
      rw [this]
      calc (Cr ^ 2 + Sr ^ 2) * (a ^ 2 + b ^ 2) ≤ 1 * (a ^ 2 + b ^ 2) :=
            mul_le_mul_of_nonneg_right hn (by positivity)
        _ ≤ B ^ 2 := by linarith
    -- Cauchy–Schwarz for the cross term
    have cs : (ra * p + rb * q) ^ 2 ≤ (B * β) ^ 2 := by
      have lag : (ra * p + rb * q) ^ 2 + (ra * q - rb * p) ^ 2 = (ra ^ 2 + rb ^ 2) * (p ^ 2 + q ^ 2) := by ring
      have nn : 0 ≤ (ra * q - rb * p) ^ 2 := sq_nonneg _
      have : (ra ^ 2 + rb ^ 2) * (p ^ 2 + q ^ 2) ≤ B ^ 2 * β ^ 2 :=
        mul_le_mul rot2 pq2 (by positivity) (by positivity)
      have e : (B * β) ^ 2 = B ^ 2 * β ^ 2 := by ring
      rw [e]; linarith
    have cross : ra * p + rb * q ≤ B * β := by
      have := abs_le_of_sq_le_sq' cs (by positivity)
      exact this.2
    have target : ((i + 1 : ℕ) : ℝ) * (3 / 10 ^ 10) = B + β := by rw [hB, hβ]; push_cast; ring
    rw [ea, eb, target]
    have expand : (ra + p) ^ 2 + (rb + q) ^ 2 = (ra ^ 2 + rb ^ 2) + 2 * (ra * p + rb * q) + (p ^ 2 + q ^ 2) := by ring
    have e2' : (B + β) ^ 2 = B ^ 2 + 2 * (B * β) + β ^ 2 := by ring
    rw [expand, e2']
    linarith

/-- **the sine table**: entry `i` is within `4·10^-7` of `sin(2π·i/1023)` -/
theorem table_close (i : ℕ) (hi : i < 1024) : |((Tq i : ℚ) : ℝ) - sin (i * h)| ≤ 4 / 10 ^ 7 := by
  have k := table_rot i hi
  have k' : |((Tq i : ℚ) : ℝ) - sR i| ≤ 4 / 100000000 := by
    have : ((|Tq i - ((rot i).1 : ℚ) / (Q : ℚ)| : ℚ) : ℝ) ≤ ((tolq : ℚ) : ℝ) := by exact_mod_cast k
    rw [Rat.cast_abs] at this
    unfold tolq at this
    push_cast at this
    unfold sR; exact this
  have e := rot_error i
  have i1 : (i : ℝ) ≤ 1023 := by
    have : i ≤ 1023 := by omega
    exact_mod_cast this
  have hs : (sR i - sin (i * h)) ^ 2 ≤ ((i : ℝ) * (3 / 10 ^ 10)) ^ 2 := by
    have : 0 ≤ (cR i - cos (i * h)) ^ 2 := sq_nonneg _
    linarith
  have hb := abs_le_of_sq_le_sq' hs (by positivity)
  have t := abs_sub_le ((Tq i : ℚ) : ℝ) (sR i) (sin (i * h))
  have hb' : |sR i - sin (i * h)| ≤ (i : ℝ) * (3 / 10 ^ 10) := abs_le.mpr hb
  have : (i : ℝ) * (3 / 10 ^ 10) ≤ 1023 * (3 / 10 ^ 10) := mul_le_mul_of_nonneg_right i1 (by norm_num)
  have num : (4:ℝ) / 100000000 + 1023 * (3 / 10 ^ 10) ≤ 4 / 10 ^ 7 := by norm_num
  linarith

theorem h_pos : 0 < h := lt_trans (by norm_num) h_enc.1
theorem h_le : h ≤ 6142 / 1000000 := by have := h_enc.2; norm_num at this ⊢; linarith
theorem sin_full : sin ((1023 : ℕ) * h) = 0 := by
  have : ((1023 : ℕ) : ℝ) * h = 2 * π := by unfold h; push_cast; field_simp
  rw [this, sin_two_pi]

/-- the ideal interpolant of the table is within `0.0092` of the sine of the phase -/
theorem ideal_close (a : ℕ) (ha : a < 2 ^ 24) : |((L a : ℚ) : ℝ) - sin (2 * π * ((a : ℝ) / 2 ^ 24))| ≤ 9208 / 10 ^ 6 := by
  have hi : a / 2 ^ 14 < 1024 := by omega
  have hL0 : ((L a : ℚ) : ℝ) = ((Tq (a / 2 ^ 14) : ℚ) : ℝ) +
      (((Tq (nxt (a / 2 ^ 14)) : ℚ) : ℝ) - ((Tq (a / 2 ^ 14) : ℚ) : ℝ)) * (((a % 2 ^ 14 : ℕ) : ℝ) / 2 ^ 14) := by
    unfold L idealInterp; push_cast; ring
  set i := a / 2 ^ 14 with hidef
  set f : ℝ := ((a % 2 ^ 14 : ℕ) : ℝ) / 2 ^ 14 with hf
  have f0 : 0 ≤ f := by rw [hf]; positivity
  have f1 : f ≤ 1 := by
    rw [hf, div_le_one (by norm_num)]
    have : a % 2 ^ 14 < 2 ^ 14 := Nat.mod_lt _ (by norm_num)
    have : ((a % 2 ^ 14 : ℕ) : ℝ) < 2 ^ 14 := by exact_mod_cast this
    linarith
  have hL : ((L a : ℚ) : ℝ) = ((Tq i : ℚ) : ℝ) + (((Tq (nxt i) : ℚ) : ℝ) - ((Tq i : ℚ) : ℝ)) * f := hL0
  have hph : 2 * π * ((a : ℝ) / 2 ^ 24) = ((i : ℝ) + f) * (2 * π / 1024) := by
    have hsplit := Nat.div_add_mod a (2 ^ 14)
    have : (a : ℝ) = 2 ^ 14 * (i : ℝ) + ((a % 2 ^ 14 : ℕ) : ℝ) := by rw [hidef]; exact_mod_cast hsplit.symm
    rw [this, hf]; field_simp; ring
  rw [hL, hph]
  have hp := h_pos
  have hle := h_le
  have pi3 : π < 3.1416 := pi_lt_d4
  have i0 : (0:ℝ) ≤ i := by positivity
  by_cases hlast : i < 1023
  · have en : nxt i = i + 1 := by unfold nxt; omega
    rw [en]
    have t0 := abs_le.mp (table_close i hi)
    have t1 := abs_le.mp (table_close (i + 1) (by omega))
    -- Lipschitz
    have l0 := abs_le.mp (abs_sin_sub_sin_le ((i : ℝ) * h) (((i : ℝ) + f) * h))
    have l1 := abs_le.mp (abs_sin_sub_sin_le (((i + 1 : ℕ) : ℝ) * h) (((i : ℝ) + f) * h))
    have d0 : |(i : ℝ) * h - ((i : ℝ) + f) * h| = f * h := by
      have : (i : ℝ) * h - ((i : ℝ) + f) * h = -(f * h) := by ring
      rw [this, abs_neg, abs_of_nonneg (by positivity)]
    have d1 : |((i + 1 : ℕ) : ℝ) * h - ((i : ℝ) + f) * h| = (1 - f) * h := by
      have : ((i + 1 : ℕ) : ℝ) * h - ((i : ℝ) + f) * h = (1 - f) * h := by push_cast; ring
      rw [this, abs_of_nonneg (by apply mul_nonneg <;> linarith)]
    rw [d0] at l0; rw [d1] at l1
    -- stretch
    have il : (i : ℝ) ≤ 1022 := by
      have : i ≤ 1022 := by omega
      exact_mod_cast this
    have st := abs_le.mp (abs_sin_sub_sin_le (((i : ℝ) + f) * h) (((i : ℝ) + f) * (2 * π / 1024)))
    have ds : |((i : ℝ) + f) * h - ((i : ℝ) + f) * (2 * π / 1024)| ≤ 2 * π / 1024 := by
      have e : ((i : ℝ) + f) * h - ((i : ℝ) + f) * (2 * π / 1024) = ((i : ℝ) + f) * (2 * π / (1023 * 1024)) := by
        unfold h; field_simp; ring
      rw [e, abs_of_nonneg (by positivity)]
      have : ((i : ℝ) + f) * (2 * π / (1023 * 1024)) ≤ 1023 * (2 * π / (1023 * 1024)) :=
        mul_le_mul_of_nonneg_right (by linarith) (by positivity)
      have e2 : (1023:ℝ) * (2 * π / (1023 * 1024)) = 2 * π / 1024 := by field_simp
      linarith
    have hff : f * (1 - f) ≤ 1 / 4 := by nlinarith [sq_nonneg (f - 1 / 2)]
    have hfh : f * (1 - f) * h ≤ 1 / 4 * h := mul_le_mul_of_nonneg_right hff hp.le
    set g0 := sin ((i : ℝ) * h)
    set g1 := sin (((i + 1 : ℕ) : ℝ) * h)
    set gx := sin (((i : ℝ) + f) * h)
    set T0 := ((Tq i : ℚ) : ℝ)
    set T1 := ((Tq (i + 1) : ℚ) : ℝ)
    have key : T0 + (T1 - T0) * f - gx =
        (1 - f) * (T0 - g0) + f * (T1 - g1) + (1 - f) * (g0 - gx) + f * (g1 - gx) := by ring
    have w0 : 0 ≤ 1 - f := by linarith
    have a1 : (1 - f) * (T0 - g0) ≤ (1 - f) * (4 / 10 ^ 7) := mul_le_mul_of_nonneg_left t0.2 w0
    have a2 : (1 - f) * (-(4 / 10 ^ 7)) ≤ (1 - f) * (T0 - g0) := mul_le_mul_of_nonneg_left t0.1 w0
    have a3 : f * (T1 - g1) ≤ f * (4 / 10 ^ 7) := mul_le_mul_of_nonneg_left t1.2 f0
    have a4 : f * (-(4 / 10 ^ 7)) ≤ f * (T1 - g1) := mul_le_mul_of_nonneg_left t1.1 f0
    have ee1 : (1 - f) * (4 / 10 ^ 7) + f * (4 / 10 ^ 7) = (4:ℝ) / 10 ^ 7 := by ring
    have ee2 : (1 - f) * (-(4 / 10 ^ 7)) + f * (-(4 / 10 ^ 7)) = -((4:ℝ) / 10 ^ 7) := by ring
    have tot : -(4 / 10 ^ 7) ≤ (1 - f) * (T0 - g0) + f * (T1 - g1) ∧ (1 - f) * (T0 - g0) + f * (T1 - g1) ≤ 4 / 10 ^ 7 := by
      constructor <;> linarith
    have c1 : (1 - f) * (g0 - gx) ≤ (1 - f) * (f * h) := mul_le_mul_of_nonneg_left l0.2 w0
    have c2 : (1 - f) * (-(f * h)) ≤ (1 - f) * (g0 - gx) := mul_le_mul_of_nonneg_left l0.1 w0
    have c3 : f * (g1 - gx) ≤ f * ((1 - f) * h) := mul_le_mul_of_nonneg_left l1.2 f0
    have c4 : f * (-((1 - f) * h)) ≤ f * (g1 - gx) := mul_le_mul_of_nonneg_left l1.1 f0
    have ee3 : (1 - f) * (f * h) + f * ((1 - f) * h) = 2 * (f * (1 - f) * h) := by ring
    have ee4 : (1 - f) * (-(f * h)) + f * (-((1 - f) * h)) = -(2 * (f * (1 - f) * h)) := by ring
    have tot2 : -(2 * (f * (1 - f) * h)) ≤ (1 - f) * (g0 - gx) + f * (g1 - gx) ∧
        (1 - f) * (g0 - gx) + f * (g1 - gx) ≤ 2 * (f * (1 - f) * h) := by
      constructor <;> linarith
    have piB : 2 * π / 1024 ≤ 61360 / 10 ^ 7 := by rw [div_le_iff₀ (by norm_num)]; linarith
    have st' : |gx - sin (((i : ℝ) + f) * (2 * π / 1024))| ≤ 61360 / 10 ^ 7 :=
      abs_le.mpr ⟨by linarith [st.1, ds], by linarith [st.2, ds]⟩
    have st'' := abs_le.mp st'
    have split : T0 + (T1 - T0) * f - sin (((i : ℝ) + f) * (2 * π / 1024)) =
        ((1 - f) * (T0 - g0) + f * (T1 - g1)) + ((1 - f) * (g0 - gx) + f * (g1 - gx)) +
        (gx - sin (((i : ℝ) + f) * (2 * π / 1024))) := by ring
    rw [split, abs_le]
    constructor <;> linarith [tot.1, tot.2, tot2.1, tot2.2, st''.1, st''.2]
  · have hi' : i = 1023 := by omega
    have en : nxt i = 0 := by unfold nxt; rw [hi']
    rw [en]
    have t0 := abs_le.mp (table_close i hi)
    have t1 := abs_le.mp (table_close 0 (by norm_num))
    have g1023 : sin ((i : ℝ) * h) = 0 := by rw [hi']; exact sin_full
    have g0 : sin (((0:ℕ) : ℝ) * h) = 0 := by simp
    rw [g1023] at t0; rw [g0] at t1
    -- the true value is within 2π/1024 of sin 2π = 0
    have st := abs_le.mp (abs_sin_sub_sin_le (((i : ℝ) + f) * (2 * π / 1024)) (2 * π))
    rw [sin_two_pi] at st
    have ds : |((i : ℝ) + f) * (2 * π / 1024) - 2 * π| ≤ 2 * π / 1024 := by
      have e : ((i : ℝ) + f) * (2 * π / 1024) - 2 * π = -((1 - f) * (2 * π / 1024)) := by
        rw [hi']; push_cast; ring
      rw [e, abs_neg, abs_of_nonneg (by apply mul_nonneg (by linarith); positivity)]
      have : (1 - f) * (2 * π / 1024) ≤ 1 * (2 * π / 1024) := mul_le_mul_of_nonneg_right (by linarith) (by positivity)
      linarith
    have piB : 2 * π / 1024 ≤ 61360 / 10 ^ 7 := by rw [div_le_iff₀ (by norm_num)]; linarith
    set T0 := ((Tq i : ℚ) : ℝ)
    set T1 := ((Tq 0 : ℚ) : ℝ)
    have w0 : 0 ≤ 1 - f := by linarith
    have a1 : (1 - f) * (T0 - 0) ≤ (1 - f) * (4 / 10 ^ 7) := mul_le_mul_of_nonneg_left t0.2 w0
    have a2 : (1 - f) * (-(4 / 10 ^ 7)) ≤ (1 - f) * (T0 - 0) := mul_le_mul_of_nonneg_left t0.1 w0
    have a3 : f * (T1 - 0) ≤ f * (4 / 10 ^ 7) := mul_le_mul_of_nonneg_left t1.2 f0
    have a4 : f * (-(4 / 10 ^ 7)) ≤ f * (T1 - 0) := mul_le_mul_of_nonneg_left t1.1 f0
    have split : T0 + (T1 - T0) * f - sin (((i : ℝ) + f) * (2 * π / 1024)) =
        (1 - f) * (T0 - 0) + f * (T1 - 0) - (sin (((i : ℝ) + f) * (2 * π / 1024)) - 0) := by ring
    have ee1 : (1 - f) * (4 / 10 ^ 7) + f * (4 / 10 ^ 7) = (4:ℝ) / 10 ^ 7 := by ring
    have ee2 : (1 - f) * (-(4 / 10 ^ 7)) + f * (-(4 / 10 ^ 7)) = -((4:ℝ) / 10 ^ 7) := by ring
    rw [split, abs_le]
    constructor <;> linarith [st.1, st.2]

/-- **C10, sine closeness.**  At every phase the oscillator can reach, the sine output is within `0.0093` of
`sin(2π·phase)` (the property allows two table steps, 0.0125). -/
theorem sine_close (l : Lfo) (hl : C10.Ok l) :
    |(((l.get .sine).val : ℚ) : ℝ) - sin (2 * π * ((l.pa.acc : ℝ) / 2 ^ 24))| ≤ 93 / 10 ^ 4 := by
  have n := sine_near_L l hl
  have n' : |(((l.get .sine).val : ℚ) : ℝ) - ((L l.pa.acc : ℚ) : ℝ)| ≤ 2 ^ (-24:ℤ) + 2 ^ (-30:ℤ) := by
    have : ((|(l.get .sine).val - L l.pa.acc| : ℚ) : ℝ) ≤ (((2:ℚ) ^ (-24:ℤ) + 2 ^ (-30:ℤ) : ℚ) : ℝ) := by exact_mod_cast n
    rw [Rat.cast_abs] at this; push_cast at this; exact this
  have ic := ideal_close l.pa.acc hl.acc
  have t := abs_sub_le (((l.get .sine).val : ℚ) : ℝ) ((L l.pa.acc : ℚ) : ℝ) (sin (2 * π * ((l.pa.acc : ℝ) / 2 ^ 24)))
  have num : (2:ℝ) ^ (-24:ℤ) + 2 ^ (-30:ℤ) + 9208 / 10 ^ 6 ≤ 93 / 10 ^ 4 := by norm_num
  generalize (2:ℝ) ^ (-24:ℤ) + 2 ^ (-30:ℤ) = e at n' num
  linarith

end C10.Sine
