import SynthVerif.Model.MidiEv
/-! Helper lemmas about the held-note list (for C04/C05/C06). -/
namespace Midi

theorem heldLen_pos : 0 < Gen.heldLen := by decide
/-- with a one-slot buffer the `len() == 1` test of `handle_note_on` would no longer mean "the gate was low" -/
theorem heldLen_gt_one : 1 < Gen.heldLen := by decide

theorem heldAfterOn_ne_nil (m : Midi) (n : Nat) : m.heldAfterOn n ≠ [] := by
  have h := heldLen_pos
  unfold heldAfterOn; split
  · simp
  · intro hh; simp_all

theorem heldAfterOn_isEmpty (m : Midi) (n : Nat) : (m.heldAfterOn n).isEmpty = false := by
  have := heldAfterOn_ne_nil m n
  cases h : m.heldAfterOn n <;> simp_all

theorem heldAfterOn_length_one (m : Midi) (n : Nat) :
    ((m.heldAfterOn n).length == 1) = m.held.isEmpty := by
  have h := heldLen_gt_one
  unfold heldAfterOn; split
  · cases hh : m.held <;> simp
  · cases hh : m.held
    · simp_all
    · rename_i x tl
      have : ¬ ((x :: tl).length < Gen.heldLen) := by simpa [hh] using ‹¬ m.held.length < Gen.heldLen›
      have h3 : tl ≠ [] := by
        intro ht; subst ht; simp at this; omega
      cases tl <;> simp_all

end Midi
