import SynthVerif.Props.C11
import SynthVerif.Props.Circle
/-!
# C12 — LFO sine and triangle are continuous, including across the cycle wrap

`k` = number of phase-counter steps between two reads (a tick advances by `inc`, modulo 2^24; `C11.tick_advance`).
* `triangle_step`: |Δtriangle| ≤ 4·k/2^24 — exactly, wrap included (the triangle values are exact, C10).
* `sine_step`: |Δsine| ≤ (1024·D)·k/2^24 + 2^-23 + 2^-30, with `D` the kernel-checked bound on the height of every table
  cell *including the cell that wraps from the last entry back to the first*; `1024·D = 6.295552 ≤ 2π·1.002`
  (`C12Pi.slope_le`), and `2^-23 + 2^-30 < 2·2^-23` = two f32 ulps.  The sine is the rounded image of a continuous
  piecewise-linear interpolant: no staircase, no glitch at the wrap.
-/
namespace C12
open F32

/-! ### triangle -/

/-- the exact triangle wave as a function of the phase counter -/
def tri (a : ℕ) : ℚ :=
  if a < 2 ^ 22 then 4 * ((a:ℚ) / 2 ^ 24) else if a < 3 * 2 ^ 22 then 2 - 4 * ((a:ℚ) / 2 ^ 24) else 4 * ((a:ℚ) / 2 ^ 24) - 4

theorem tri_is_triangle (l : Lfo) (h : C10.Ok l) : (l.get .triangle).val = tri l.pa.acc :=
  (C10.triangle_exact l h).2

theorem tri_adjacent (a : ℕ) (ha : a < 2 ^ 24) : |tri ((a + 1) % 2 ^ 24) - tri a| ≤ 4 / 2 ^ 24 := by
  have h24 : (2:ℚ) ^ 24 = 16777216 := by norm_num
  by_cases hw : a + 1 = 2 ^ 24
  · -- the wrap
    have : (a + 1) % 2 ^ 24 = 0 := by rw [hw]; simp
    rw [this]
    have ha' : a = 2 ^ 24 - 1 := by omega
    subst ha'
    simp only [tri]; norm_num
  · have hlt : a + 1 < 2 ^ 24 := by omega
    rw [Nat.mod_eq_of_lt hlt]
    have hc : ((a + 1 : ℕ) : ℚ) = (a:ℚ) + 1 := by push_cast; ring
    simp only [tri, hc, h24]
    have q0 : (0:ℚ) ≤ a := by positivity
    by_cases c1 : a + 1 < 2 ^ 22
    · have c1' : a < 2 ^ 22 := by omega
      simp only [c1, c1', ↓reduceIte]
      rw [abs_le]; constructor <;> (ring_nf; norm_num)
    · by_cases c1' : a < 2 ^ 22
      · have ha : a = 2 ^ 22 - 1 := by omega
        have c3 : a + 1 < 3 * 2 ^ 22 := by omega
        simp only [c1, c1', c3, ↓reduceIte]
        subst ha; norm_num
      · by_cases c3 : a + 1 < 3 * 2 ^ 22
        · have c3' : a < 3 * 2 ^ 22 := by omega
          simp only [c1, c1', c3, c3', ↓reduceIte]
          rw [abs_le]; constructor <;> (ring_nf; norm_num)
        · by_cases c3' : a < 3 * 2 ^ 22
          · have ha : a = 3 * 2 ^ 22 - 1 := by omega
            simp only [c1, c1', c3, c3', ↓reduceIte]
            subst ha; norm_num
          · simp only [c1, c1', c3, c3', ↓reduceIte]
            rw [abs_le]; constructor <;> (ring_nf; norm_num)

/-- **triangle**: moving the phase counter by `k` steps (wrapping allowed) changes the triangle by at most 4·k/2^24 -/
theorem triangle_step (l l' : Lfo) (h : C10.Ok l) (h' : C10.Ok l') (k : ℕ)
    (hk : l'.pa.acc = (l.pa.acc + k) % 2 ^ 24) :
    |(l'.get .triangle).val - (l.get .triangle).val| ≤ 4 * (k:ℚ) / 2 ^ 24 := by
  rw [tri_is_triangle l h, tri_is_triangle l' h', hk]
  have := circle_lipschitz (2 ^ 24) (by norm_num) tri (4 / 2 ^ 24) tri_adjacent l.pa.acc k h.acc
  calc |tri ((l.pa.acc + k) % 2 ^ 24) - tri l.pa.acc| ≤ k * (4 / 2 ^ 24) := this
    _ = 4 * (k:ℚ) / 2 ^ 24 := by ring

/-! ### sine -/

/-- bound on the height of one table cell: 1024·D = 6.295552 -/
def D : ℚ := 6148 / 1000000

def slopeOk (b0 b1 : ℕ) : Bool := decide (|(ofBits b1).val - (ofBits b0).val| ≤ D)

theorem sine_slopes : allPairs slopeOk Gen.sineBitsL = true := by decide +kernel
theorem sine_wrap_slope : slopeOk (Gen.sineBitsL.getD 1023 0) (Gen.sineBitsL.getD 0 0) = true := by decide +kernel

/-- table entries as rationals -/
def Tq (i : ℕ) : ℚ := (ofBits (Gen.sineBitsL.getD i 0)).val
def nxt (i : ℕ) : ℕ := (i + 1) % 1024

theorem cell_height (i : ℕ) (hi : i < 1024) : |Tq (nxt i) - Tq i| ≤ D := by
  unfold Tq nxt
  by_cases h : i + 1 < 1024
  · rw [Nat.mod_eq_of_lt h]
    have := allPairs_get slopeOk Gen.sineBitsL sine_slopes i (by rw [C10.sine_len]; exact h)
    simpa [slopeOk] using this
  · have : i = 1023 := by omega
    subst this
    simpa [slopeOk] using sine_wrap_slope

/-- the continuous piecewise-linear curve the sine output is sampled from -/
def L (a : ℕ) : ℚ := idealInterp Tq nxt a

theorem L_adjacent (a : ℕ) (ha : a < 2 ^ 24) : |L ((a + 1) % 2 ^ 24) - L a| ≤ D / 2 ^ 14 := by
  have hi : a / 2 ^ 14 < 1024 := by omega
  have hcell := cell_height (a / 2 ^ 14) hi
  have key : L ((a + 1) % 2 ^ 24) - L a = (Tq (nxt (a / 2 ^ 14)) - Tq (a / 2 ^ 14)) / 2 ^ 14 := by
    unfold L idealInterp
    by_cases hb : a % 2 ^ 14 = 2 ^ 14 - 1
    · -- into the next cell (possibly wrapping to cell 0)
      have h1 : ((a + 1) % 2 ^ 24) / 2 ^ 14 = nxt (a / 2 ^ 14) := by unfold nxt; omega
      have h2 : ((a + 1) % 2 ^ 24) % 2 ^ 14 = 0 := by omega
      rw [h1, h2, hb]
      push_cast; ring
    · have h0 : (a + 1) % 2 ^ 24 = a + 1 := by omega
      have h1 : (a + 1) / 2 ^ 14 = a / 2 ^ 14 := by omega
      have h2 : (a + 1) % 2 ^ 14 = a % 2 ^ 14 + 1 := by omega
      rw [h0, h1, h2]
      push_cast; ring
  rw [key, abs_div, abs_of_pos (by positivity : (0:ℚ) < 2 ^ 14)]
  exact div_le_div_of_nonneg_right hcell (by positivity)

/-- the rounded sample is within 2^-24 + 2^-30 of the ideal curve -/
theorem sine_near_L (l : Lfo) (h : C10.Ok l) : |(l.get .sine).val - L l.pa.acc| ≤ 2 ^ (-24:ℤ) + 2 ^ (-30:ℤ) := by
  have hi := PhaseAcc.index_lt l.pa h.tb h.ib h.acc
  have hidx : l.pa.index = l.pa.acc / 2 ^ 14 := by unfold PhaseAcc.index; rw [h.tb, h.ib]
  obtain ⟨f1, f2⟩ := PhaseAcc.fraction_exact l.pa h.tb h.ib
  have hc := C10.sine_cell_ok l.pa.index hi
  simp only [C10.cellOk, Bool.and_eq_true, decide_eq_true_eq] at hc
  obtain ⟨⟨⟨⟨⟨⟨⟨c1, c2⟩, c3⟩, c4⟩, c5⟩, c6⟩, c7⟩, c8⟩ := hc
  have hf0 : 0 ≤ l.pa.fraction.val := by rw [f2]; positivity
  have hf1 : l.pa.fraction.val ≤ 1 := by
    rw [f2, div_le_one (by positivity)]
    have : l.pa.acc % 2 ^ 14 < 2 ^ 14 := Nat.mod_lt _ (by norm_num)
    exact_mod_cast le_of_lt this
  have hh := cell_height l.pa.index hi
  unfold Tq nxt at hh
  simp only [Lfo.get, C10.lfo_bits.2.2, C10.sineAt_eq]
  set y0 := (ofBits (Gen.sineBitsL.getD l.pa.index 0)) with hy0
  set y1 := (ofBits (Gen.sineBitsL.getD ((l.pa.index + 1) % 1024) 0)) with hy1
  obtain ⟨v1, v2⟩ := linearInterp_val (y0 := y0) (y1 := y1) (f := l.pa.fraction) c1 c2 f1
    (by rw [abs_le]; constructor <;> linarith) (by rw [abs_le]; constructor <;> linarith) hf0 hf1
  rw [v2]
  have hL : L l.pa.acc = y0.val + (y1.val - y0.val) * l.pa.fraction.val := by
    unfold L idealInterp Tq nxt
    rw [← hidx, f2]; ring
  rw [hL]
  set f := l.pa.fraction.val
  set d := y1.val - y0.val with hd
  have hD : (D:ℚ) < 2 ^ (-7:ℤ) := by unfold D; norm_num
  -- three roundings
  have e1 : |rnd d - d| ≤ 2 ^ (-32:ℤ) := by
    have := rnd_err (x := d) (k := -7) (by norm_num) (lt_of_le_of_lt hh hD)
    norm_num at this ⊢; exact this
  have hrd : |rnd d| ≤ 2 ^ (-7:ℤ) := abs_rnd_le (le_of_lt (lt_of_le_of_lt hh hD)) (rep_pow2 (by norm_num))
  have hprod : |rnd d * f| ≤ 2 ^ (-7:ℤ) := by
    rw [abs_mul, abs_of_nonneg hf0]
    calc |rnd d| * f ≤ 2 ^ (-7:ℤ) * 1 := mul_le_mul hrd hf1 hf0 (by positivity)
      _ = 2 ^ (-7:ℤ) := by ring
  have e2 : |rnd (rnd d * f) - rnd d * f| ≤ 2 ^ (-31:ℤ) := by
    have := rnd_err (x := rnd d * f) (k := -6) (by norm_num) (lt_of_le_of_lt hprod (by norm_num))
    norm_num at this ⊢; exact this
  have hp2 : |rnd (rnd d * f)| ≤ 2 ^ (-7:ℤ) := abs_rnd_le hprod (rep_pow2 (by norm_num))
  have hsum : |y0.val + rnd (rnd d * f)| < 2 ^ (1:ℤ) := by
    have a1 := abs_add_le y0.val (rnd (rnd d * f))
    have a2 : |y0.val| ≤ 1 := by rw [abs_le]; constructor <;> linarith
    have : (2:ℚ) ^ (-7:ℤ) < 1 := by norm_num
    norm_num; linarith
  have e3 : |rnd (y0.val + rnd (rnd d * f)) - (y0.val + rnd (rnd d * f))| ≤ 2 ^ (-24:ℤ) := by
    have := rnd_err (x := y0.val + rnd (rnd d * f)) (k := 1) (by norm_num) hsum
    norm_num at this ⊢; exact this
  -- combine
  have e1' : |(rnd d - d) * f| ≤ 2 ^ (-32:ℤ) := by
    rw [abs_mul, abs_of_nonneg hf0]
    calc |rnd d - d| * f ≤ 2 ^ (-32:ℤ) * 1 := mul_le_mul e1 hf1 hf0 (by positivity)
      _ = 2 ^ (-32:ℤ) := by ring
  have split : rnd (y0.val + rnd (rnd d * f)) - (y0.val + d * f) =
      (rnd (y0.val + rnd (rnd d * f)) - (y0.val + rnd (rnd d * f))) + (rnd (rnd d * f) - rnd d * f) + (rnd d - d) * f := by ring
  rw [split]
  have t1 := abs_add_le ((rnd (y0.val + rnd (rnd d * f)) - (y0.val + rnd (rnd d * f))) + (rnd (rnd d * f) - rnd d * f)) ((rnd d - d) * f)
  have t2 := abs_add_le (rnd (y0.val + rnd (rnd d * f)) - (y0.val + rnd (rnd d * f))) (rnd (rnd d * f) - rnd d * f)
  have num : (2:ℚ) ^ (-31:ℤ) + 2 ^ (-32:ℤ) ≤ 2 ^ (-30:ℤ) := by norm_num
  linarith

/-- **sine**: moving the phase counter by `k` steps (wrapping allowed) changes the sine by at most
`1024·D·k/2^24` plus two roundings -/
theorem sine_step (l l' : Lfo) (h : C10.Ok l) (h' : C10.Ok l') (k : ℕ)
    (hk : l'.pa.acc = (l.pa.acc + k) % 2 ^ 24) :
    |(l'.get .sine).val - (l.get .sine).val| ≤ (1024 * D) * (k:ℚ) / 2 ^ 24 + (2 ^ (-23:ℤ) + 2 ^ (-29:ℤ)) := by
  have n1 := sine_near_L l h
  have n2 := sine_near_L l' h'
  have lip := circle_lipschitz (2 ^ 24) (by norm_num) L (D / 2 ^ 14) L_adjacent l.pa.acc k h.acc
  rw [← hk] at lip
  have split : (l'.get .sine).val - (l.get .sine).val =
      ((l'.get .sine).val - L l'.pa.acc) + (L l'.pa.acc - L l.pa.acc) - ((l.get .sine).val - L l.pa.acc) := by ring
  rw [split]
  have t1 := abs_sub ((l'.get .sine).val - L l'.pa.acc + (L l'.pa.acc - L l.pa.acc)) ((l.get .sine).val - L l.pa.acc)
  have t2 := abs_add_le ((l'.get .sine).val - L l'.pa.acc) (L l'.pa.acc - L l.pa.acc)
  have e : (k:ℚ) * (D / 2 ^ 14) = (1024 * D) * (k:ℚ) / 2 ^ 24 := by norm_num; ring
  have num : (2:ℚ) ^ (-24:ℤ) + 2 ^ (-30:ℤ) + (2 ^ (-24:ℤ) + 2 ^ (-30:ℤ)) = 2 ^ (-23:ℤ) + 2 ^ (-29:ℤ) := by norm_num
  rw [← e, ← num]
  generalize (2:ℚ) ^ (-24:ℤ) = ε at *
  generalize (2:ℚ) ^ (-30:ℤ) = δ at *
  linarith

/-- the slope constant and the rounding slack in the units of the property text -/
theorem constants : 1024 * D = 6.295552 ∧ (2:ℚ) ^ (-23:ℤ) + 2 ^ (-29:ℤ) ≤ 2 * 2 ^ (-23:ℤ) := by
  unfold D; norm_num

/-- a tick of the oscillator is such a move with `k = inc` -/
theorem tick_moves (l l' : Lfo) (h : C10.Ok l) (ht : l.tick = some l') :
    l'.pa.acc = (l.pa.acc + l.pa.inc) % 2 ^ 24 := by
  have := (C11.tick_advance l l' ht).1
  rwa [h.tb] at this

end C12
