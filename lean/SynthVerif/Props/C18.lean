import SynthVerif.Props.MidiLemmas
import SynthVerif.F32.Ops
import Mathlib.Tactic.NormNum
import Mathlib.Tactic.Linarith
/-!
# C18 — MIDI controllers and pitch bend are scaled and routed as documented

* `routing`: which arm of the controller `match` each documented controller number selects, decided on the
  constants *generated from the compiled crate*; `other_controllers_inert`: every other number changes nothing.
* `cc_*`: the exact state change of every documented controller on the listened channel.
* `value7_*`: `value/127` — 0 ↦ 0.0, 127 ↦ 1.0, strictly increasing (all 128 values, no enumeration).
* `bend_*`: 14-bit pitch bend — 0 ↦ -1.0, 8192 ↦ exactly 0.0, 16383 ↦ +1.0, strictly increasing over all 16384
  values; `bend_lsb_first`: the byte sequence `En lsb msb` is assembled LSB first.
-/
namespace C18
open F32

/-! ### routing -/

theorem routing :
    Midi.ccArm 1 = 0 ∧ Midi.ccArm 7 = 1 ∧ Midi.ccArm 71 = 2 ∧ Midi.ccArm 74 = 3 ∧ Midi.ccArm 5 = 4 ∧
    Midi.ccArm 65 = 5 ∧ Midi.ccArm 64 = 6 ∧ Midi.ccArm 121 = 7 ∧ Midi.ccArm 123 = 8 := by decide

theorem half_scale : Gen.u7HalfScale = 64 := by decide

theorem other_arm (cc : Nat) (h : cc ∉ [1, 7, 71, 74, 5, 65, 64, 121, 123]) : Midi.ccArm cc = 9 := by
  simp only [List.mem_cons, List.not_mem_nil, or_false, not_or] at h
  obtain ⟨h1, h2, h3, h4, h5, h6, h7, h8, h9⟩ := h
  simp [Midi.ccArm, Gen.ccModWheel, Gen.ccVolume, Gen.ccVcfCutoff, Gen.ccVcfResonance, Gen.ccPortamentoTime,
    Gen.ccPortamentoSwitch, Gen.ccSustainSwitch, Gen.ccAllControllersOff, Gen.ccAllNotesOff, *]

/-- no controller number outside the documented nine changes anything -/
theorem other_controllers_inert (m : Midi) (cc v : Nat) (h : cc ∉ [1, 7, 71, 74, 5, 65, 64, 121, 123]) :
    m.controlChange cc v = m := by
  simp [Midi.controlChange, other_arm cc h]

/-- controllers on another channel change nothing -/
theorem other_channel_inert (m : Midi) (c cc v : Nat) (h : c ≠ m.channel) :
    m.handle (.controlChange c cc v) = m := by
  have : (c == m.channel) = false := by simp [h]
  simp [Midi.handle, this]

theorem cc_mod_wheel (m : Midi) (v : Nat) : m.controlChange 1 v = { m with modWheel := value7ToF32 v } := by
  simp [Midi.controlChange, routing.1]
theorem cc_volume (m : Midi) (v : Nat) : m.controlChange 7 v = { m with volume := value7ToF32 v } := by
  simp [Midi.controlChange, routing.2.1]
theorem cc_vcf_cutoff (m : Midi) (v : Nat) : m.controlChange 71 v = { m with vcfCutoff := value7ToF32 v } := by
  simp [Midi.controlChange, routing.2.2.1]
theorem cc_vcf_resonance (m : Midi) (v : Nat) : m.controlChange 74 v = { m with vcfResonance := value7ToF32 v } := by
  simp [Midi.controlChange, routing.2.2.2.1]
theorem cc_portamento_time (m : Midi) (v : Nat) : m.controlChange 5 v = { m with portamentoTime := value7ToF32 v } := by
  simp [Midi.controlChange, routing.2.2.2.2.1]
theorem cc_portamento_switch (m : Midi) (v : Nat) :
    m.controlChange 65 v = { m with portamentoEnabled := decide (64 ≤ v) } := by
  simp [Midi.controlChange, routing.2.2.2.2.2.1, half_scale]
theorem cc_sustain_switch (m : Midi) (v : Nat) :
    m.controlChange 64 v = { m with sustainEnabled := decide (64 ≤ v) } := by
  simp [Midi.controlChange, routing.2.2.2.2.2.2.1, half_scale]
/-- controller 121 restores every controller and the pitch bend to its power-on default and nothing else -/
theorem cc_reset_all (m : Midi) (v : Nat) :
    m.controlChange 121 v =
      { m with pitchBend := zero, modWheel := zero, volume := zero, vcfCutoff := zero, vcfResonance := zero,
               portamentoTime := zero, portamentoEnabled := true, sustainEnabled := true } := by
  simp [Midi.controlChange, routing.2.2.2.2.2.2.2.1]
theorem reset_matches_power_on (ch : Nat) (m : Midi) (v : Nat) :
    let r := m.controlChange 121 v
    let n := Midi.new ch
    r.pitchBend = n.pitchBend ∧ r.modWheel = n.modWheel ∧ r.volume = n.volume ∧ r.vcfCutoff = n.vcfCutoff ∧
    r.vcfResonance = n.vcfResonance ∧ r.portamentoTime = n.portamentoTime ∧
    r.portamentoEnabled = n.portamentoEnabled ∧ r.sustainEnabled = n.sustainEnabled := by
  simp [cc_reset_all, Midi.new]
/-- All-Notes-Off touches no controller -/
theorem cc_all_notes_off_controllers (m : Midi) (v : Nat) :
    let r := m.controlChange 123 v
    r.pitchBend = m.pitchBend ∧ r.modWheel = m.modWheel ∧ r.volume = m.volume ∧ r.vcfCutoff = m.vcfCutoff ∧
    r.vcfResonance = m.vcfResonance ∧ r.portamentoTime = m.portamentoTime ∧
    r.portamentoEnabled = m.portamentoEnabled ∧ r.sustainEnabled = m.sustainEnabled := by
  simp [Midi.controlChange, routing.2.2.2.2.2.2.2.2]

/-! ### value / 127 -/

theorem value7_val (v : Nat) (h : v ≤ 127) :
    (value7ToF32 v).isFin = true ∧ (value7ToF32 v).val = rnd ((v:ℚ) / 127) := by
  obtain ⟨h1, h2⟩ := ofNat_fin v (by omega)
  have hb : |(v:ℚ) / 127| ≤ 2 ^ (127:ℤ) := by
    rw [abs_of_nonneg (by positivity)]
    calc (v:ℚ) / 127 ≤ 1 := by rw [div_le_one (by norm_num)]; exact_mod_cast h
      _ ≤ 2 ^ (127:ℤ) := by norm_num
  have := val_div (x := ofNat v) (y := .fin 127 false) h1 rfl (by simp) (by simpa [h2] using hb)
  simpa [value7ToF32, h2] using this

theorem value7_zero : value7ToF32 0 = zero := by decide +kernel
theorem value7_full : value7ToF32 127 = one := by decide +kernel

private theorem err1 {x : ℚ} (h : |x| ≤ 1) : |rnd x - x| ≤ 2 ^ (-24:ℤ) := by
  have := rnd_err (x := x) (k := 1) (by norm_num) (lt_of_le_of_lt h (by norm_num))
  simpa using this

/-- strictly increasing in the 7-bit value -/
theorem value7_strict (a b : Nat) (hab : a < b) (hb : b ≤ 127) :
    (value7ToF32 a).val < (value7ToF32 b).val := by
  rw [(value7_val a (by omega)).2, (value7_val b hb).2]
  have ha1 : |(a:ℚ) / 127| ≤ 1 := by
    rw [abs_of_nonneg (by positivity), div_le_one (by norm_num)]; exact_mod_cast (by omega : a ≤ 127)
  have hb1 : |(b:ℚ) / 127| ≤ 1 := by
    rw [abs_of_nonneg (by positivity), div_le_one (by norm_num)]; exact_mod_cast hb
  have ea := abs_le.mp (err1 ha1)
  have eb := abs_le.mp (err1 hb1)
  have gap : (a:ℚ) / 127 + 1 / 127 ≤ (b:ℚ) / 127 := by
    rw [← add_div, div_le_div_iff_of_pos_right (by norm_num)]; exact_mod_cast hab
  have : (2:ℚ) ^ (-24:ℤ) = 1 / 16777216 := by norm_num
  rw [this] at ea eb
  linarith [ea.2, eb.1]

/-! ### pitch bend -/

/-- the real-valued scaling of the 14-bit value `u` -/
def bendIdeal (u : ℕ) : ℚ := if 8192 < u then ((u:ℚ) - 8192) / 8191 else ((u:ℚ) - 8192) / 8192

theorem bendIdeal_abs (u : ℕ) (h : u ≤ 16383) : |bendIdeal u| ≤ 1 := by
  unfold bendIdeal
  have hu : (u:ℚ) ≤ 16383 := by exact_mod_cast h
  split
  · rename_i h1
    have : (8192:ℚ) < u := by exact_mod_cast h1
    rw [abs_le]; constructor
    · have : (0:ℚ) ≤ ((u:ℚ) - 8192) / 8191 := by apply div_nonneg <;> linarith
      linarith
    · rw [div_le_one (by norm_num)]; linarith
  · rename_i h1
    have : (u:ℚ) ≤ 8192 := by exact_mod_cast (not_lt.mp h1)
    rw [abs_le]; constructor
    · rw [le_div_iff₀ (by norm_num)]; linarith [show (0:ℚ) ≤ u from by positivity]
    · have : ((u:ℚ) - 8192) / 8192 ≤ 0 := by apply div_nonpos_of_nonpos_of_nonneg <;> linarith
      linarith

theorem bendIdeal_gap (u : ℕ) : bendIdeal u + 1 / 8192 ≤ bendIdeal (u + 1) := by
  unfold bendIdeal
  by_cases h1 : 8192 < u
  · have h2 : 8192 < u + 1 := by omega
    rw [if_pos h1, if_pos h2]
    have : (8192:ℚ) < u := by exact_mod_cast h1
    push_cast
    rw [show ((u:ℚ) + 1 - 8192) / 8191 = ((u:ℚ) - 8192) / 8191 + 1 / 8191 by ring]
    have : (1:ℚ) / 8192 ≤ 1 / 8191 := by norm_num
    linarith
  · by_cases h2 : 8192 < u + 1
    · have hu : u = 8192 := by omega
      subst hu
      rw [if_neg h1, if_pos h2]; norm_num
    · rw [if_neg h1, if_neg h2]; push_cast; ring_nf; exact le_refl _

theorem clamp_unit {x : F32} (hx : x.isFin = true) (h1 : -1 ≤ x.val) (h2 : x.val ≤ 1) :
    clamp x (.fin (-1) false) one = x := by
  cases x <;> simp_all [isFin, val]
  rename_i q nz
  have a : ¬ q < -1 := not_lt.mpr h1
  have b : ¬ (1:ℚ) < q := not_lt.mpr h2
  simp [clamp, lt_fin, one, a, b]

theorem bend_val (msb lsb : Nat) (hm : msb < 128) (hl : lsb < 128) :
    (value14ToF32 msb lsb).isFin = true ∧ (value14ToF32 msb lsb).val = rnd (bendIdeal (msb * 128 + lsb)) := by
  set u := msb * 128 + lsb with hu
  have hu' : u ≤ 16383 := by omega
  have hv : |((u:ℤ) - 8192)| < 2 ^ 24 := by rw [abs_lt]; constructor <;> omega
  obtain ⟨f1, f2⟩ := ofInt_fin ((u:ℤ) - 8192) hv
  have hid := bendIdeal_abs u hu'
  unfold value14ToF32
  simp only [← hu]
  by_cases h1 : 8192 < u
  · have hpos : ((u:ℕ):ℤ) - 8192 > 0 := by omega
    simp only [hpos, ↓reduceIte]
    have e : bendIdeal u = ((u:ℚ) - 8192) / 8191 := by simp [bendIdeal, h1]
    have hq : (((u:ℤ) - 8192 : ℤ) : ℚ) = (u:ℚ) - 8192 := by push_cast; ring
    have d := val_div (x := ofInt ((u:ℤ) - 8192)) (y := .fin 8191 false) f1 rfl (by simp)
      (by rw [f2, val_fin, hq, ← e]; exact le_trans hid (by norm_num))
    rw [f2, val_fin, hq, ← e] at d
    have hb := abs_le.mp (abs_rnd_le hid rep_one)
    rw [clamp_unit d.1 (by rw [d.2]; exact hb.1) (by rw [d.2]; exact hb.2)]
    exact d
  · have hpos : ¬ (((u:ℕ):ℤ) - 8192 > 0) := by omega
    simp only [hpos, ↓reduceIte]
    have e : bendIdeal u = ((u:ℚ) - 8192) / 8192 := by simp [bendIdeal, h1]
    have hq : (((u:ℤ) - 8192 : ℤ) : ℚ) = (u:ℚ) - 8192 := by push_cast; ring
    have d := val_div (x := ofInt ((u:ℤ) - 8192)) (y := .fin 8192 false) f1 rfl (by simp)
      (by rw [f2, val_fin, hq, ← e]; exact le_trans hid (by norm_num))
    rw [f2, val_fin, hq, ← e] at d
    have hb := abs_le.mp (abs_rnd_le hid rep_one)
    rw [clamp_unit d.1 (by rw [d.2]; exact hb.1) (by rw [d.2]; exact hb.2)]
    exact d

/-- the pitch-bend value as a function of the 14-bit number -/
def bend (u : Nat) : F32 := value14ToF32 (u / 128) (u % 128)

theorem bend_min : bend 0 = .fin (-1) false := by decide +kernel
theorem bend_centre : bend 8192 = zero := by decide +kernel
theorem bend_max : bend 16383 = one := by decide +kernel

private theorem bend_val' (u : Nat) (h : u ≤ 16383) : (bend u).val = rnd (bendIdeal u) := by
  have := (bend_val (u / 128) (u % 128) (by omega) (Nat.mod_lt _ (by decide))).2
  rwa [Nat.div_add_mod'] at this

theorem bend_step (u : Nat) (h : u + 1 ≤ 16383) : (bend u).val < (bend (u + 1)).val := by
  rw [bend_val' u (by omega), bend_val' (u + 1) h]
  have ea := abs_le.mp (err1 (bendIdeal_abs u (by omega)))
  have eb := abs_le.mp (err1 (bendIdeal_abs (u + 1) h))
  have gap := bendIdeal_gap u
  have : (2:ℚ) ^ (-24:ℤ) = 1 / 16777216 := by norm_num
  rw [this] at ea eb
  linarith [ea.2, eb.1]

/-- strictly increasing over all 16384 pitch-bend values -/
theorem bend_strict (u w : Nat) (huw : u < w) (hw : w ≤ 16383) : (bend u).val < (bend w).val := by
  induction w with
  | zero => omega
  | succ w ih =>
    rcases Nat.lt_succ_iff_lt_or_eq.mp huw with h | h
    · exact lt_trans (ih h (by omega)) (bend_step w hw)
    · subst h; exact bend_step u hw

/-- `En lsb msb` on the listened channel: assembled LSB first -/
theorem bend_lsb_first (m : Midi) (lsb msb : Nat) (hl : lsb < 128) (hm : msb < 128) (hc : m.channel < 16) :
    (((m.parse (0xE0 + m.channel)).parse lsb).parse msb).pitchBend = bend (msb * 128 + lsb) := by
  have e1 : (0xE0 + m.channel) / 16 = 14 := by omega
  have e2 : (0xE0 + m.channel) % 16 = m.channel := by omega
  have n1 : 0xE0 + m.channel ≥ 0x80 := by omega
  have n2 : ¬ (0xE0 + m.channel ≥ 0xf0) := by omega
  have n3 : ¬ (lsb ≥ 0x80) := by omega
  have n4 : ¬ (msb ≥ 0x80) := by omega
  have d1 : (msb * 128 + lsb) / 128 = msb := by omega
  have d2 : (msb * 128 + lsb) % 128 = lsb := by omega
  simp [Midi.parse, parserStep, n1, n2, n3, n4, e1, e2, Midi.handle, bend, d1, d2]

end C18
