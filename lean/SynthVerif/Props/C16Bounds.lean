import SynthVerif.Props.C16
/-!
# C16, part 2 — the position lies between the corrected minimum and maximum of the averaged samples

For a window of `n` samples in `[lo, hi] ⊆ [0, 1]` (the in-range samples of the current press, `window_is_current_run`):
* `fsum_error`: the binary32 sum is within `n·(2^-24·n + 2^-150)` of the exact sum (each of the `n` additions rounds a
  partial sum of at most `n`);
* `mean_between`: the binary32 mean lies in `[lo − e, hi + e]`, `e = 2^-24·(n + 2)`;
* `correction_near`: the rounded correction `a − (a − a²)·K` is within `2^-22` of the exact one, which is monotone in `a`
  and at most 2-Lipschitz for `0 ≤ K ≤ 1` (pull-up at least the divider resistance);
* `corrected_between`: hence the recomputed position lies in `[g(lo) − 2e − 2^-22, g(hi) + 2e + 2^-22]`, `g` the exact
  correction — "between the corrected minimum and maximum of those samples", with the explicit f32 summation slack;
* `position_mono`: raising any contributing sample never lowers the recomputed position by more than `2^-21`
  (the sum and the mean are exactly monotone, `fsum_mono`; only the four roundings of the correction can lose an ulp).
-/
namespace C16
open F32

/-- exact sum of the sample values -/
def qsum (xs : List F32) : ℚ := (xs.map (·.val)).sum

@[simp] theorem qsum_nil : qsum [] = 0 := rfl
@[simp] theorem qsum_cons (x : F32) (xs : List F32) : qsum (x :: xs) = x.val + qsum xs := by simp [qsum]

/-- error of the running sum: every addition rounds a partial sum of at most `N` -/
theorem fold_error (xs : List F32) (hx : ∀ x ∈ xs, Unit01 x) (a : F32) (A : ℚ) (m N : ℕ) (E : ℚ)
    (ha : a.isFin = true) (ha0 : 0 ≤ a.val) (ham : a.val ≤ m) (hN : m + xs.length ≤ N) (hN24 : N < 2 ^ 24)
    (hE : |a.val - A| ≤ E) :
    |(xs.foldl add a).val - (A + qsum xs)| ≤ E + xs.length * (2 ^ (-24:ℤ) * N + 2 ^ (-150:ℤ)) := by
  induction xs generalizing a A m E with
  | nil => simpa using hE
  | cons x xs ih =>
    obtain ⟨xf, x0, x1⟩ := hx x (by simp)
    have hlen : m + 1 + xs.length ≤ N := by simp at hN; omega
    have hm1 : m + 1 ≤ N := by omega
    have hNq : ((m:ℚ)) + 1 ≤ N := by exact_mod_cast hm1
    have hN24q : (N:ℚ) < 2 ^ 24 := by exact_mod_cast hN24
    have hsum : |a.val + x.val| ≤ 2 ^ (127:ℤ) := by
      rw [abs_of_nonneg (by linarith)]
      calc a.val + x.val ≤ m + 1 := by linarith
        _ ≤ 2 ^ 24 := by linarith
        _ ≤ 2 ^ (127:ℤ) := by norm_num
    obtain ⟨s1, s2⟩ := val_add ha xf hsum
    have hlo : 0 ≤ (add a x).val := by rw [s2]; exact rnd_nonneg (by linarith)
    have hrep : Rep (((m + 1 : ℕ) : ℤ) : ℚ) := rep_int (by
      rw [abs_of_nonneg (by positivity)]
      have : m + 1 < 2 ^ 24 := by omega
      exact_mod_cast this)
    have hup : (add a x).val ≤ ((m + 1 : ℕ) : ℚ) := by
      rw [s2]
      have := rnd_le_of_le (x := a.val + x.val) (r := (((m + 1 : ℕ) : ℤ) : ℚ)) (by push_cast; linarith) hrep
      simpa using this
    -- the rounding error of this addition
    have hr := rnd_err_gen (a.val + x.val)
    have habs : |a.val + x.val| ≤ N := by rw [abs_of_nonneg (by linarith)]; linarith
    have hr' : |rnd (a.val + x.val) - (a.val + x.val)| ≤ 2 ^ (-24:ℤ) * N + 2 ^ (-150:ℤ) := by
      have : (2:ℚ) ^ (-24:ℤ) * |a.val + x.val| ≤ 2 ^ (-24:ℤ) * N := mul_le_mul_of_nonneg_left habs (by positivity)
      linarith
    have hE' : |(add a x).val - (A + x.val)| ≤ E + (2 ^ (-24:ℤ) * N + 2 ^ (-150:ℤ)) := by
      rw [s2]
      have t := abs_add_le (rnd (a.val + x.val) - (a.val + x.val)) (a.val - A)
      have e : rnd (a.val + x.val) - (A + x.val) = (rnd (a.val + x.val) - (a.val + x.val)) + (a.val - A) := by ring
      rw [e]; linarith
    have := ih (fun z hz => hx z (by simp [hz])) (add a x) (A + x.val) (m + 1) (E + (2 ^ (-24:ℤ) * N + 2 ^ (-150:ℤ)))
      s1 hlo hup hlen hE'
    simp only [List.foldl_cons, qsum_cons, List.length_cons]
    have e2 : A + (x.val + qsum xs) = A + x.val + qsum xs := by ring
    rw [e2]
    push_cast
    have e3 : E + ((xs.length : ℚ) + 1) * (2 ^ (-24:ℤ) * N + 2 ^ (-150:ℤ)) =
        E + (2 ^ (-24:ℤ) * N + 2 ^ (-150:ℤ)) + (xs.length : ℚ) * (2 ^ (-24:ℤ) * N + 2 ^ (-150:ℤ)) := by ring
    rw [e3]; exact this

/-- **summation error** of `Iterator::sum::<f32>()` over `n` samples in [0,1] -/
theorem fsum_error (w : List F32) (hw : ∀ x ∈ w, Unit01 x) (hn : w.length < 2 ^ 24) :
    |(Ribbon.fsum w).val - qsum w| ≤ w.length * (2 ^ (-24:ℤ) * w.length + 2 ^ (-150:ℤ)) := by
  unfold Ribbon.fsum
  rw [sumInit]
  have := fold_error w hw (.fin 0 true) 0 0 w.length 0 rfl (by simp) (by simp) (by simp) hn (by simp)
  simpa using this

/-- the exact sum lies between `n·lo` and `n·hi` -/
theorem qsum_between (w : List F32) (lo hi : ℚ) (h : ∀ x ∈ w, lo ≤ x.val ∧ x.val ≤ hi) :
    w.length * lo ≤ qsum w ∧ qsum w ≤ w.length * hi := by
  induction w with
  | nil => simp
  | cons x xs ih =>
    obtain ⟨a, b⟩ := h x (by simp)
    obtain ⟨c, d⟩ := ih (fun z hz => h z (by simp [hz]))
    simp only [qsum_cons, List.length_cons]
    push_cast
    constructor <;> linarith

/-- **the binary32 mean lies between the smallest and the largest sample**, up to the summation error -/
theorem mean_between (w : List F32) (hw : ∀ x ∈ w, Unit01 x) (hn1 : 1 ≤ w.length) (hn : w.length < 2 ^ 24)
    (lo hi : ℚ) (h : ∀ x ∈ w, lo ≤ x.val ∧ x.val ≤ hi) :
    let a := div (Ribbon.fsum w) (ofNat w.length)
    lo - 2 ^ (-24:ℤ) * (w.length + 2) ≤ a.val ∧ a.val ≤ hi + 2 ^ (-24:ℤ) * (w.length + 2) := by
  intro a
  obtain ⟨s1, s2, s3⟩ := fold_bounded w hw (.fin 0 true) 0 rfl (by simp) (by simp) (by simpa using hn)
  obtain ⟨n1, n2⟩ := ofNat_fin w.length hn
  have hnpos : (0:ℚ) < w.length := by exact_mod_cast hn1
  have hfs : Ribbon.fsum w = w.foldl add (.fin 0 true) := by unfold Ribbon.fsum; rw [sumInit]
  simp only [Nat.zero_add] at s3
  have hq1 : (w.foldl add (.fin 0 true)).val / (w.length : ℚ) ≤ 1 := by rw [div_le_one hnpos]; exact s3
  have hq0 : 0 ≤ (w.foldl add (.fin 0 true)).val / (w.length : ℚ) := by positivity
  obtain ⟨d1, d2⟩ := val_div (x := w.foldl add (.fin 0 true)) (y := ofNat w.length) s1 n1 (by rw [n2]; exact ne_of_gt hnpos)
    (by rw [n2, abs_of_nonneg hq0]; exact le_trans hq1 (by norm_num))
  rw [n2] at d2
  have ha : a.val = rnd ((Ribbon.fsum w).val / (w.length : ℚ)) := by show (div (Ribbon.fsum w) (ofNat w.length)).val = _; rw [hfs]; exact d2
  have herr := abs_le.mp (fsum_error w hw hn)
  obtain ⟨b1, b2⟩ := qsum_between w lo hi h
  have hdiv := abs_le.mp (rnd_err_le_one (x := (Ribbon.fsum w).val / (w.length : ℚ)) (by rw [hfs, abs_of_nonneg hq0]; exact hq1))
  have e150 : (2:ℚ) ^ (-150:ℤ) ≤ 2 ^ (-24:ℤ) / 2 := by norm_num
  have ε0 : (0:ℚ) < 2 ^ (-24:ℤ) := by positivity
  have δ0 : (0:ℚ) ≤ 2 ^ (-150:ℤ) := by positivity
  generalize (2:ℚ) ^ (-150:ℤ) = δ at *
  generalize (2:ℚ) ^ (-24:ℤ) = ε at *
  set S := (Ribbon.fsum w).val with hS
  set n : ℚ := (w.length : ℚ) with hnq
  -- S/n within (2^-24 n + 2^-150) of qsum/n ∈ [lo, hi]
  have q1 : lo * n - n * (ε * n + δ) ≤ S := by linarith [herr.1]
  have q2 : S ≤ hi * n + n * (ε * n + δ) := by linarith [herr.2]
  have r1 : lo - (ε * n + δ) ≤ S / n := by
    rw [le_div_iff₀ hnpos]
    have : (lo - (ε * n + δ)) * n = lo * n - n * (ε * n + δ) := by ring
    rw [this]; exact q1
  have r2 : S / n ≤ hi + (ε * n + δ) := by
    rw [div_le_iff₀ hnpos]
    have : (hi + (ε * n + δ)) * n = hi * n + n * (ε * n + δ) := by ring
    rw [this]; exact q2
  rw [ha]
  have e24 : ε * (n + 2) = ε * n + ε + ε := by ring
  rw [e24]
  constructor <;> linarith [hdiv.1, hdiv.2]

/-- the exact pull-up correction -/
def gcorr (K a : ℚ) : ℚ := a - (a - a * a) * K

/-- monotone and at most 2-Lipschitz on [0,1] for `0 ≤ K ≤ 1` -/
theorem gcorr_mono {K x y : ℚ} (K0 : 0 ≤ K) (K1 : K ≤ 1) (x0 : 0 ≤ x) (hxy : x ≤ y) (y1 : y ≤ 1) :
    gcorr K x ≤ gcorr K y ∧ gcorr K y - gcorr K x ≤ 2 * (y - x) := by
  have e : gcorr K y - gcorr K x = (y - x) * (1 - K + K * (x + y)) := by unfold gcorr; ring
  have f0 : 0 ≤ 1 - K + K * (x + y) := by nlinarith
  have f2 : 1 - K + K * (x + y) ≤ 2 := by nlinarith
  have d0 : 0 ≤ y - x := by linarith
  constructor
  · have := mul_nonneg d0 f0; linarith
  · rw [e]; nlinarith

/-- the rounded correction is within `2^-22` of the exact one -/
theorem correction_near (a K : F32) (ha : a.isFin = true) (hK : K.isFin = true) (a0 : 0 ≤ a.val) (a1 : a.val ≤ 1)
    (harep : rnd a.val = a.val) (K0 : 0 ≤ K.val) (K1 : K.val ≤ 1) :
    |(sub a (mul (sub a (mul a a)) K)).val - gcorr K.val a.val| ≤ 2 ^ (-22:ℤ) := by
  have small : ∀ u : ℚ, |u| ≤ 1 → |u| ≤ 2 ^ (127:ℤ) := fun u h => le_trans h (by norm_num)
  have habs : ∀ u : ℚ, 0 ≤ u → u ≤ 1 → |u| ≤ 1 := fun u h0 h1 => by rw [abs_of_nonneg h0]; exact h1
  have sq0 : 0 ≤ a.val * a.val := by positivity
  have sq1 : a.val * a.val ≤ a.val := by nlinarith
  obtain ⟨m1, m2⟩ := val_mul ha ha (small _ (habs _ sq0 (by linarith)))
  have q0 : 0 ≤ (mul a a).val := by rw [m2]; exact rnd_nonneg sq0
  have q1 : (mul a a).val ≤ a.val := by
    calc (mul a a).val = rnd (a.val * a.val) := m2
      _ ≤ rnd a.val := rnd_mono sq1
      _ = a.val := harep
  obtain ⟨s1, s2⟩ := val_sub ha m1 (small _ (habs _ (by linarith) (by linarith)))
  have d0 : 0 ≤ (sub a (mul a a)).val := by rw [s2]; exact rnd_nonneg (by linarith)
  have d1 : (sub a (mul a a)).val ≤ a.val := by
    calc (sub a (mul a a)).val = rnd (a.val - (mul a a).val) := s2
      _ ≤ rnd a.val := rnd_mono (by linarith)
      _ = a.val := harep
  have p0 : 0 ≤ (sub a (mul a a)).val * K.val := by positivity
  have p1 : (sub a (mul a a)).val * K.val ≤ a.val := by nlinarith
  obtain ⟨e1, e2⟩ := val_mul s1 hK (small _ (habs _ p0 (by linarith)))
  have e0 : 0 ≤ (mul (sub a (mul a a)) K).val := by rw [e2]; exact rnd_nonneg p0
  have e1' : (mul (sub a (mul a a)) K).val ≤ a.val := by
    calc (mul (sub a (mul a a)) K).val = rnd ((sub a (mul a a)).val * K.val) := e2
      _ ≤ rnd a.val := rnd_mono p1
      _ = a.val := harep
  obtain ⟨c1, c2⟩ := val_sub ha e1 (small _ (habs _ (by linarith) (by linarith)))
  -- the four rounding errors, each at most 2^-25 (arguments in [0,1])
  have r1 := abs_le.mp (rnd_err_le_one (x := a.val * a.val) (habs _ sq0 (by linarith)))
  have r2 := abs_le.mp (rnd_err_le_one (x := a.val - (mul a a).val) (habs _ (by linarith) (by linarith)))
  have r3 := abs_le.mp (rnd_err_le_one (x := (sub a (mul a a)).val * K.val) (habs _ p0 (by linarith)))
  have r4 := abs_le.mp (rnd_err_le_one (x := a.val - (mul (sub a (mul a a)) K).val) (habs _ (by linarith) (by linarith)))
  rw [← m2] at r1; rw [← s2] at r2; rw [← e2] at r3; rw [← c2] at r4
  obtain ⟨A2, hA2⟩ : ∃ y : ℚ, y = (mul a a).val := ⟨_, rfl⟩
  obtain ⟨Dv, hDv⟩ : ∃ y : ℚ, y = (sub a (mul a a)).val := ⟨_, rfl⟩
  obtain ⟨Ev, hEv⟩ : ∃ y : ℚ, y = (mul (sub a (mul a a)) K).val := ⟨_, rfl⟩
  obtain ⟨Cv, hCv⟩ : ∃ y : ℚ, y = (sub a (mul (sub a (mul a a)) K)).val := ⟨_, rfl⟩
  obtain ⟨k, hk⟩ : ∃ y : ℚ, y = K.val := ⟨_, rfl⟩
  obtain ⟨x, hx⟩ : ∃ y : ℚ, y = a.val := ⟨_, rfl⟩
  rw [← hA2, ← hx] at r1
  rw [← hDv, ← hA2, ← hx] at r2
  rw [← hEv, ← hDv, ← hk] at r3
  rw [← hCv, ← hEv, ← hx] at r4
  rw [← hCv, ← hk, ← hx]
  rw [← hk] at K0 K1
  have e23 : (2:ℚ) ^ (-22:ℤ) = 8 * 2 ^ (-25:ℤ) := by norm_num
  have e24 : (2:ℚ) ^ (-24:ℤ) = 2 * 2 ^ (-25:ℤ) := by norm_num
  rw [e24] at r1 r2 r3 r4
  rw [e23]
  clear e23 e24 small habs m1 m2 s1 s2 e1 e2 c1 c2 q0 q1 d0 d1 p0 p1 e0 e1' sq0 sq1 hA2 hDv hEv hCv hk hx harep ha hK a0 a1
  generalize (2:ℚ) ^ (-25:ℤ) = u at *
  have u0 : 0 ≤ u := by linarith [r1.1, r1.2]
  unfold gcorr
  have split : Cv - (x - (x - x * x) * k) =
      (Cv - (x - Ev)) - (Ev - Dv * k) - k * (Dv - (x - A2)) + k * (A2 - x * x) := by ring
  rw [split, abs_le]
  have t1 : k * (Dv - (x - A2)) ≤ k * (2 * u) := mul_le_mul_of_nonneg_left r2.2 K0
  have t2 : k * (-(2 * u)) ≤ k * (Dv - (x - A2)) := mul_le_mul_of_nonneg_left r2.1 K0
  have t3 : k * (A2 - x * x) ≤ k * (2 * u) := mul_le_mul_of_nonneg_left r1.2 K0
  have t4 : k * (-(2 * u)) ≤ k * (A2 - x * x) := mul_le_mul_of_nonneg_left r1.1 K0
  have ku : k * (2 * u) ≤ 1 * (2 * u) := mul_le_mul_of_nonneg_right K1 (by linarith)
  have ku2 : k * (-(2 * u)) = -(k * (2 * u)) := by ring
  constructor <;> linarith [r3.1, r3.2, r4.1, r4.2]

/-- **between the corrected minimum and maximum.**  Window of `n` samples in `[lo, hi] ⊆ [0, 1]`, correction constant
`0 ≤ K ≤ 1`: the recomputed position lies in `[g(lo) − 2e − 2^-22, g(hi) + 2e + 2^-22]` with `e = 2^-24·(n + 2)`
and `g` the exact correction `a ↦ a − (a − a²)·K`. -/
theorem corrected_between (w : List F32) (hw : ∀ x ∈ w, Unit01 x) (hn1 : 1 ≤ w.length) (hn : w.length < 2 ^ 24)
    (lo hi : ℚ) (lo0 : 0 ≤ lo) (hi1 : hi ≤ 1) (h : ∀ x ∈ w, lo ≤ x.val ∧ x.val ≤ hi)
    (K : F32) (hK : K.isFin = true) (K0 : 0 ≤ K.val) (K1 : K.val ≤ 1) :
    let a := div (Ribbon.fsum w) (ofNat w.length)
    let c := sub a (mul (sub a (mul a a)) K)
    gcorr K.val lo - 2 * (2 ^ (-24:ℤ) * (w.length + 2)) - 2 ^ (-22:ℤ) ≤ c.val ∧
    c.val ≤ gcorr K.val hi + 2 * (2 ^ (-24:ℤ) * (w.length + 2)) + 2 ^ (-22:ℤ) := by
  intro a c
  obtain ⟨a1, a2, a3, a4⟩ := average_range w hw hn1 hn
  obtain ⟨m1, m2⟩ := mean_between w hw hn1 hn lo hi h
  have cn := abs_le.mp (correction_near a K a1 hK a2 a3 a4 K0 K1)
  have hlohi : lo ≤ hi := by
    obtain ⟨x, hx⟩ := List.exists_mem_of_length_pos (by omega : 0 < w.length)
    have := h x hx; linarith
  show gcorr K.val lo - 2 * (2 ^ (-24:ℤ) * (w.length + 2)) - 2 ^ (-22:ℤ) ≤ (sub a (mul (sub a (mul a a)) K)).val ∧
    (sub a (mul (sub a (mul a a)) K)).val ≤ gcorr K.val hi + 2 * (2 ^ (-24:ℤ) * (w.length + 2)) + 2 ^ (-22:ℤ)
  have e0 : (0:ℚ) ≤ 2 ^ (-24:ℤ) * (w.length + 2) := by positivity
  generalize (2:ℚ) ^ (-24:ℤ) * (w.length + 2) = e at *
  generalize (2:ℚ) ^ (-22:ℤ) = t at *
  have m1' : lo - e ≤ a.val := m1
  have m2' : a.val ≤ hi + e := m2
  -- g(a) against g(lo), g(hi)
  have glo : gcorr K.val lo - 2 * e ≤ gcorr K.val a.val := by
    by_cases hc : lo ≤ a.val
    · have := (gcorr_mono K0 K1 lo0 hc a3).1; linarith
    · have hc' : a.val ≤ lo := le_of_lt (not_le.mp hc)
      have := (gcorr_mono K0 K1 a2 hc' (by linarith)).2; linarith
  have ghi : gcorr K.val a.val ≤ gcorr K.val hi + 2 * e := by
    by_cases hc : a.val ≤ hi
    · have := (gcorr_mono K0 K1 a2 hc hi1).1; linarith
    · have hc' : hi ≤ a.val := le_of_lt (not_le.mp hc)
      have := (gcorr_mono K0 K1 (by linarith) hc' a3).2; linarith
  constructor <;> linarith [cn.1, cn.2]

/-- **monotone in every contributing sample, up to the rounding of the correction.**  If every sample of `w'` is at
least the corresponding sample of `w`, the mean does not decrease (exactly) and the recomputed position decreases by at
most `2^-21`. -/
theorem position_mono (w w' : List F32) (hww : List.Forall₂ (fun x y => x.val ≤ y.val) w w')
    (hw : ∀ x ∈ w, Unit01 x) (hw' : ∀ x ∈ w', Unit01 x) (hn1 : 1 ≤ w.length) (hn : w.length < 2 ^ 24)
    (K : F32) (hK : K.isFin = true) (K0 : 0 ≤ K.val) (K1 : K.val ≤ 1) :
    let a := div (Ribbon.fsum w) (ofNat w.length)
    let a' := div (Ribbon.fsum w') (ofNat w'.length)
    a.val ≤ a'.val ∧
    (sub a (mul (sub a (mul a a)) K)).val ≤ (sub a' (mul (sub a' (mul a' a')) K)).val + 2 ^ (-21:ℤ) := by
  intro a a'
  have hlen : w'.length = w.length := (List.Forall₂.length_eq hww).symm
  obtain ⟨p1, p2, p3, p4⟩ := average_range w hw hn1 hn
  obtain ⟨q1, q2, q3, q4⟩ := average_range w' hw' (by omega) (by omega)
  have hs := fsum_mono w w' hww hw hw' hn
  -- the quotient is monotone
  have hmono : a.val ≤ a'.val := by
    obtain ⟨s1, s2, s3⟩ := fold_bounded w hw (.fin 0 true) 0 rfl (by simp) (by simp) (by simpa using hn)
    obtain ⟨s1', s2', s3'⟩ := fold_bounded w' hw' (.fin 0 true) 0 rfl (by simp) (by simp) (by simpa [hlen] using hn)
    obtain ⟨n1, n2⟩ := ofNat_fin w.length hn
    have hnpos : (0:ℚ) < w.length := by exact_mod_cast hn1
    have hfs : Ribbon.fsum w = w.foldl add (.fin 0 true) := by unfold Ribbon.fsum; rw [sumInit]
    have hfs' : Ribbon.fsum w' = w'.foldl add (.fin 0 true) := by unfold Ribbon.fsum; rw [sumInit]
    simp only [Nat.zero_add] at s3 s3'
    have b1 : |(w.foldl add (.fin 0 true)).val / (w.length : ℚ)| ≤ 2 ^ (127:ℤ) := by
      rw [abs_of_nonneg (by positivity)]
      exact le_trans ((div_le_one hnpos).mpr s3) (by norm_num)
    have b2 : |(w'.foldl add (.fin 0 true)).val / (w.length : ℚ)| ≤ 2 ^ (127:ℤ) := by
      rw [abs_of_nonneg (by positivity)]
      have : (w'.foldl add (.fin 0 true)).val ≤ (w.length : ℚ) := by rw [hlen] at s3'; exact s3'
      exact le_trans ((div_le_one hnpos).mpr this) (by norm_num)
    obtain ⟨d1, d2⟩ := val_div (x := w.foldl add (.fin 0 true)) (y := ofNat w.length) s1 n1 (by rw [n2]; exact ne_of_gt hnpos)
      (by rw [n2]; exact b1)
    obtain ⟨d1', d2'⟩ := val_div (x := w'.foldl add (.fin 0 true)) (y := ofNat w.length) s1' n1 (by rw [n2]; exact ne_of_gt hnpos)
      (by rw [n2]; exact b2)
    show (div (Ribbon.fsum w) (ofNat w.length)).val ≤ (div (Ribbon.fsum w') (ofNat w'.length)).val
    rw [hlen, hfs, hfs', d2, d2', n2]
    apply rnd_mono
    apply div_le_div_of_nonneg_right _ hnpos.le
    rw [← hfs, ← hfs']; exact hs
  refine ⟨hmono, ?_⟩
  have c1 := abs_le.mp (correction_near a K p1 hK p2 p3 p4 K0 K1)
  have c2 := abs_le.mp (correction_near a' K q1 hK q2 q3 q4 K0 K1)
  have gm := (gcorr_mono K0 K1 p2 hmono q3).1
  have e21 : (2:ℚ) ^ (-21:ℤ) = 2 * 2 ^ (-22:ℤ) := by norm_num
  rw [e21]
  generalize (2:ℚ) ^ (-22:ℤ) = t at *
  linarith [c1.2, c2.1]

/-- non-vacuity of `corrected_between`: three samples 0.25, 0.5, 0.75, `K = 1/2` -/
example : ∀ x ∈ [ofBits 0x3e800000, ofBits 0x3f000000, ofBits 0x3f400000], (1:ℚ) / 4 ≤ x.val ∧ x.val ≤ 3 / 4 := by
  decide +kernel

end C16
