import SynthVerif.Model.Ribbon
/-!
# C15 — Ribbon: a press is reported only after an uninterrupted capture time

Specification (`Spec`): `run` = length of the current unbroken suffix of in-range samples; a press is reported
exactly while `run ≥ L`, `L = capacity + max ignore 1 - 1` (the whole capture buffer filled after the settling
samples were skipped); `just_pressed` / `just_released` are latches of the two changes of `finger_is_pressing()`.
`refines`: for every capacity ≥ 1, every ignore/discard count with `discard ≤ capacity`, and every history of
samples and edge reads, the controller never panics and `finger_is_pressing()`, `finger_just_pressed()`,
`finger_just_released()` agree with the specification.  In particular in-range samples separated by an
out-of-range sample never add up (`run` restarts from 0), and a press turns false on the first out-of-range sample.
-/
namespace C15
open F32

inductive Ev
  | poll (x : F32)
  | readPressed
  | readReleased

structure Spec where
  run : Nat := 0
  pressing : Bool := false
  jp : Bool := false
  jr : Bool := false
deriving Repr, DecidableEq

/-- one sample: `inRange` says whether it is below the finger-press boundary -/
def Spec.sample (L : Nat) (s : Spec) (inRange : Bool) : Spec :=
  let run := if inRange then s.run + 1 else 0
  let p := inRange && decide (L ≤ run)
  { run := run, pressing := p, jp := s.jp || (!s.pressing && p), jr := s.jr || (s.pressing && !p) }

def Spec.step (L : Nat) (s : Spec) (inRange : F32 → Bool) : Ev → Spec × Option Bool
  | .poll x => (s.sample L (inRange x), none)
  | .readPressed => ({ s with jp := false }, some s.jp)
  | .readReleased => ({ s with jr := false }, some s.jr)

/-- model step; `none` = panic -/
def stepEv (r : Ribbon) : Ev → Option (Ribbon × Option Bool)
  | .poll x => (r.poll x).map fun r' => (r', none)
  | .readPressed => let (b, r') := r.readJustPressed; some (r', some b)
  | .readReleased => let (b, r') := r.readJustReleased; some (r', some b)

/-- run a history: `none` = some call panicked; otherwise the final state and the values the reads returned -/
def run (r : Ribbon) : List Ev → Option (Ribbon × List Bool)
  | [] => some (r, [])
  | e :: es => match stepEv r e with
    | none => none
    | some (r', o) => match run r' es with
      | none => none
      | some (r'', os) => some (r'', match o with | some b => b :: os | none => os)

def specRun (L : Nat) (inRange : F32 → Bool) (s : Spec) : List Ev → Spec × List Bool
  | [] => (s, [])
  | e :: es =>
    let (s', o) := s.step L inRange e
    let (s'', os) := specRun L inRange s' es
    (s'', match o with | some b => b :: os | none => os)

/-- the length of an unbroken run after which a press is reported -/
def pressLen (r : Ribbon) : Nat := r.buff.capacity + max r.ignore 1 - 1

structure Rel (r : Ribbon) (s : Spec) : Prop where
  cap : 1 ≤ r.buff.capacity
  disc : r.discard ≤ r.buff.capacity
  recv : r.received = min s.run r.ignore
  writ : r.written = min (s.run + 1 - max r.ignore 1) r.buff.capacity
  press : r.pressing = s.pressing
  pspec : s.pressing = decide (0 < s.run ∧ pressLen r ≤ s.run)
  jp : r.justPressed = s.jp
  jr : r.justReleased = s.jr

theorem nat_min_eq (a b : Nat) : Nat.min a b = min a b := rfl
theorem nat_max_eq (a b : Nat) : Nat.max a b = max a b := rfl

theorem ring_write_capacity (g : HistBuf) (x : F32) : (g.write x).capacity = g.capacity := by
  unfold HistBuf.write HistBuf.capacity
  split <;> rfl

/-- closed form of an in-range `poll` -/
private theorem poll_in (r : Ribbon) (x : F32) (hin : lt x r.boundary = true) (hd : r.discard ≤ r.buff.capacity) :
    ∃ r', r.poll x = some r' ∧
      r'.received = min (r.received + 1) r.ignore ∧
      r'.written = (if r.ignore ≤ min (r.received + 1) r.ignore then min (r.written + 1) r.buff.capacity else r.written) ∧
      r'.pressing = (r.pressing || (decide (r.ignore ≤ min (r.received + 1) r.ignore) &&
                      decide (min (r.written + 1) r.buff.capacity = r.buff.capacity))) ∧
      r'.justPressed = (r.justPressed || (!r.pressing && (decide (r.ignore ≤ min (r.received + 1) r.ignore) &&
                      decide (min (r.written + 1) r.buff.capacity = r.buff.capacity)))) ∧
      r'.justReleased = r.justReleased ∧ r'.boundary = r.boundary ∧ r'.ignore = r.ignore ∧
      r'.discard = r.discard ∧ r'.buff.capacity = r.buff.capacity := by
  have hwc := ring_write_capacity r.buff x
  unfold Ribbon.poll
  simp only [hin, ↓reduceIte]
  by_cases hign : r.ignore ≤ min (r.received + 1) r.ignore
  · simp only [hign, ↓reduceIte, hwc, decide_true, Bool.true_and]
    by_cases hfull : min (r.written + 1) r.buff.capacity = r.buff.capacity
    · have hb : (min (r.written + 1) r.buff.capacity == r.buff.capacity) = true := by simpa using hfull
      have hnd : ¬ (r.buff.capacity < r.discard) := by omega
      simp only [hb, ↓reduceIte, hnd, hfull, decide_true]
      cases hp : r.pressing <;> simp [hwc]
    · have hb : (min (r.written + 1) r.buff.capacity == r.buff.capacity) = false := by simpa using hfull
      simp only [hb, Bool.false_eq_true, ↓reduceIte, hfull, decide_false]
      simp [hwc]
  · simp only [hign, ↓reduceIte, decide_false, Bool.false_and]
    simp

/-- closed form of an out-of-range `poll` -/
private theorem poll_out (r : Ribbon) (x : F32) (hin : lt x r.boundary = false) :
    ∃ r', r.poll x = some r' ∧ r'.received = 0 ∧ r'.written = 0 ∧ r'.pressing = false ∧
      r'.justPressed = r.justPressed ∧ r'.justReleased = (r.justReleased || r.pressing) ∧
      r'.boundary = r.boundary ∧ r'.ignore = r.ignore ∧ r'.discard = r.discard ∧
      r'.buff.capacity = r.buff.capacity := by
  unfold Ribbon.poll
  simp only [hin, Bool.false_eq_true, ↓reduceIte]
  cases hp : r.pressing <;> simp [hp]

private theorem poll_rel {r : Ribbon} {s : Spec} (h : Rel r s) (x : F32) :
    ∃ r', r.poll x = some r' ∧ Rel r' (s.sample (pressLen r) (lt x r.boundary)) ∧
      r'.boundary = r.boundary ∧ pressLen r' = pressLen r := by
  obtain ⟨hcap, hdisc, hrecv, hwrit, hpress, hpspec, hjp, hjr⟩ := h
  by_cases hin : lt x r.boundary = true
  · obtain ⟨r', hr', e1, e2, e3, e4, e5, e6, e7, e8, e9⟩ := poll_in r x hin hdisc
    refine ⟨r', hr', ?_, e6, by simp [pressLen, e7, e9]⟩
    have hL : pressLen r' = pressLen r := by simp [pressLen, e7, e9]
    simp only [hin, Spec.sample, ↓reduceIte, Bool.true_and]
    -- the arithmetic core: the write counter reaches the capacity exactly when the run reaches `pressLen`
    have key : (r.pressing || (decide (r.ignore ≤ min (r.received + 1) r.ignore) &&
                      decide (min (r.written + 1) r.buff.capacity = r.buff.capacity))) =
               decide (pressLen r ≤ s.run + 1) := by
      rw [hpress, hpspec, hrecv, hwrit]
      unfold pressLen
      rw [Bool.eq_iff_iff]
      simp only [Bool.or_eq_true, Bool.and_eq_true, decide_eq_true_eq]
      omega
    refine ⟨?_, ?_, ?_, ?_, ?_, ?_, ?_, ?_⟩ <;> (try dsimp only)
    · rw [e9]; exact hcap
    · rw [e8, e9]; exact hdisc
    · rw [e1, e7, hrecv]; omega
    · rw [e2, e7, e9, hrecv, hwrit]; split <;> omega
    · rw [e3, key]
    · simp only [decide_eq_decide]; rw [hL]; omega
    · rw [e4, hjp, ← hpress]
      have : (decide (r.ignore ≤ min (r.received + 1) r.ignore) &&
          decide (min (r.written + 1) r.buff.capacity = r.buff.capacity)) =
          (!r.pressing && decide (pressLen r ≤ s.run + 1) || r.pressing && (decide (r.ignore ≤ min (r.received + 1) r.ignore) &&
          decide (min (r.written + 1) r.buff.capacity = r.buff.capacity))) := by
        rw [← key]; cases r.pressing <;> simp
      cases hp : r.pressing <;> simp [hp] at key ⊢ <;> simp [key]
    · rw [e5, hjr, ← hpress]
      have : r.pressing = true → decide (pressLen r ≤ s.run + 1) = true := by
        intro hp; rw [← key, hp]; rfl
      cases hp : r.pressing
      · simp
      · simp [this hp]
  · have hin' : lt x r.boundary = false := by simpa using hin
    obtain ⟨r', hr', e1, e2, e3, e4, e5, e6, e7, e8, e9⟩ := poll_out r x hin'
    refine ⟨r', hr', ?_, e6, by simp [pressLen, e7, e9]⟩
    simp only [hin', Spec.sample, Bool.false_eq_true, ↓reduceIte, Bool.false_and]
    refine ⟨?_, ?_, ?_, ?_, ?_, ?_, ?_, ?_⟩ <;> (try dsimp only)
    · rw [e9]; exact hcap
    · rw [e8, e9]; exact hdisc
    · rw [e1]; simp
    · rw [e2]; omega
    · rw [e3]
    · simp
    · rw [e4, hjp]; simp
    · rw [e5, hjr, hpress]; simp

private theorem step_rel {r : Ribbon} {s : Spec} (h : Rel r s) (e : Ev) :
    ∃ r' o, stepEv r e = some (r', o) ∧ Rel r' (s.step (pressLen r) (fun x => lt x r.boundary) e).1 ∧
      o = (s.step (pressLen r) (fun x => lt x r.boundary) e).2 ∧ r'.boundary = r.boundary ∧ pressLen r' = pressLen r := by
  cases e with
  | poll x =>
    obtain ⟨r', hr', hrel, hb, hL⟩ := poll_rel h x
    exact ⟨r', none, by simp [stepEv, hr'], hrel, rfl, hb, hL⟩
  | readPressed =>
    obtain ⟨hcap, hdisc, hrecv, hwrit, hpress, hpspec, hjp, hjr⟩ := h
    refine ⟨_, _, rfl, ?_, by simp [Spec.step, Ribbon.readJustPressed, hjp], rfl, rfl⟩
    exact ⟨hcap, hdisc, hrecv, hwrit, hpress, hpspec, rfl, hjr⟩
  | readReleased =>
    obtain ⟨hcap, hdisc, hrecv, hwrit, hpress, hpspec, hjp, hjr⟩ := h
    refine ⟨_, _, rfl, ?_, by simp [Spec.step, Ribbon.readJustReleased, hjr], rfl, rfl⟩
    exact ⟨hcap, hdisc, hrecv, hwrit, hpress, hpspec, hjp, rfl⟩

private theorem run_rel {r : Ribbon} {s : Spec} (h : Rel r s) (es : List Ev) :
    ∃ r' os, run r es = some (r', os) ∧
      os = (specRun (pressLen r) (fun x => lt x r.boundary) s es).2 ∧
      Rel r' (specRun (pressLen r) (fun x => lt x r.boundary) s es).1 := by
  induction es generalizing r s with
  | nil => exact ⟨r, [], rfl, rfl, h⟩
  | cons e es ih =>
    obtain ⟨r1, o, h1, hrel, ho, hb, hL⟩ := step_rel h e
    obtain ⟨r2, os, h2, hos, hrel2⟩ := ih hrel
    rw [hb, hL] at hos hrel2
    subst ho
    subst hos
    refine ⟨r2, (specRun (pressLen r) (fun x => lt x r.boundary) s (e :: es)).2, ?_, rfl, ?_⟩
    · simp only [run, h1, h2, specRun]
    · simpa [specRun] using hrel2

/-- a freshly constructed controller satisfies the coupling with the initial specification state -/
theorem rel_new {cap : Nat} {sr sp dr pu : F32} {r : Ribbon} (h : Ribbon.new cap sr sp dr pu = some r)
    (hcap : 1 ≤ cap) (hdisc : r.discard ≤ cap) : Rel r {} := by
  unfold Ribbon.new at h
  split at h
  · simp only [Option.some.injEq] at h
    subst h
    constructor <;> simp_all [HistBuf.new, HistBuf.capacity, pressLen]
    omega
  · simp at h

/-- **C15, main statement.**  For every capacity ≥ 1 whose buffer is at least as long as the finger-lift allowance,
every history of samples and edge reads runs without panic, and every read returns what the run-length
specification says; the final `finger_is_pressing()` is `run ≥ pressLen` for the current unbroken run. -/
theorem refines {cap : Nat} {sr sp dr pu : F32} {r : Ribbon} (h : Ribbon.new cap sr sp dr pu = some r)
    (hcap : 1 ≤ cap) (hdisc : r.discard ≤ cap) (es : List Ev) :
    ∃ r' os, run r es = some (r', os) ∧
      os = (specRun (pressLen r) (fun x => lt x r.boundary) {} es).2 ∧
      r'.pressing = (specRun (pressLen r) (fun x => lt x r.boundary) {} es).1.pressing := by
  obtain ⟨r', os, h1, h2, h3⟩ := run_rel (rel_new h hcap hdisc) es
  exact ⟨r', os, h1, h2, h3.press⟩

/-! ### the specification says what the property text says -/

/-- an out-of-range sample ends the press and restarts the count: earlier samples never add up -/
theorem spec_out_of_range (L : Nat) (s : Spec) : (s.sample L false).run = 0 ∧ (s.sample L false).pressing = false := by
  simp [Spec.sample]

/-- in range: the press is reported exactly when the unbroken run has reached `L` -/
theorem spec_in_range (L : Nat) (s : Spec) :
    (s.sample L true).run = s.run + 1 ∧ (s.sample L true).pressing = decide (L ≤ s.run + 1) := by
  simp [Spec.sample]

/-- the buffer sizes produced by the provided helper always satisfy the hypotheses of `refines` -/
theorem helper_capacity_ok (sr c d : Nat) (hc : Ribbon.sampleRateToCapacity sr = some c)
    (hd : sr * Gen.ribbonRiseUsec / 1000000 = d) : 1 ≤ c ∧ d < c := by
  unfold Ribbon.sampleRateToCapacity at hc
  split at hc
  · simp at hc
  · simp only [Option.some.injEq] at hc
    omega

/-- non-vacuity: capacity 3, ignore 1: the third in-range sample in a row reports the press; a glitch restarts -/
example : (specRun 3 (fun x => lt x one) {} [.poll zero, .poll zero, .poll one, .poll zero, .poll zero, .readPressed,
    .poll zero, .readPressed, .readPressed]).2 = [false, true, false] := by decide

end C15
