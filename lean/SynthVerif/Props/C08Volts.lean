import SynthVerif.Props.C08
/-!
# C08 in volts: the rule of the property text, with its 10 µV of slack made explicit

`C08.search_is_pick` / `local_to_global` say what the search returns on the quantizer's integer µV grid; `microvolts_close` says
the grid value is within 1.5 µV of `10^6·v`.  Composed, for a real-valued input `x = 10^6·v` µV, `0 ≤ v ≤ 10`, and `r` the voltage
(in µV) of the reported note:

* **bucket**: if some allowed note lies clearly within one semitone of `x` (closer than 83333 − 2 µV), the reported note lies
  within one semitone (+2 µV) of `x` and every allowed note below it is at least a semitone (−2 µV) away — the lowest allowed
  note of the bucket wins;
* **nearest**: if every allowed note is clearly more than a semitone away (at least 83333 + 2 µV), the reported note is a nearest
  one up to 3 µV.

Between the two regimes lies a strip of 4 µV around the semitone distance in which either may apply: the "ties within 10 µV may
go either way" of the text (the strip is 4 µV wide, the deviation at most 3 µV).
-/
open F32 Quantizer
namespace C08

theorem delta_cast (a b : ℕ) : ((delta a b : ℕ) : ℚ) = |(a:ℚ) - (b:ℚ)| := by
  unfold delta
  split
  · rename_i h
    have : (a:ℚ) < b := by exact_mod_cast h
    rw [abs_of_neg (by linarith), Nat.cast_sub (le_of_lt h)]; ring
  · rename_i h
    have h' : b ≤ a := Nat.le_of_not_lt h
    have : (b:ℚ) ≤ a := by exact_mod_cast h'
    rw [abs_of_nonneg (by linarith), Nat.cast_sub h']

theorem halfStep_val : (Gen.halfStepUv : ℚ) = 83333 := by
  have := consts.1; rw [this]; norm_num

/-- the two regimes, for any grid value `u` within 3/2 of the real input `x` -/
theorem pick_real (L : List ℕ) (u r : ℕ) (x : ℚ) (hu : |(u:ℚ) - x| ≤ 3 / 2) (hp : Pick L u r) :
    r ∈ L ∧
    ((∃ c ∈ L, |(c:ℚ) - x| < 83333 - 2) →
        |(r:ℚ) - x| < 83333 + 2 ∧ ∀ c ∈ L, c < r → (83333:ℚ) - 2 ≤ |(c:ℚ) - x|) ∧
    ((∀ c ∈ L, (83333:ℚ) + 2 ≤ |(c:ℚ) - x|) → ∀ c ∈ L, |(r:ℚ) - x| ≤ |(c:ℚ) - x| + 3) := by
  obtain ⟨hr, hA, hB⟩ := hp
  have tri : ∀ c : ℕ, |(u:ℚ) - c| ≤ |(c:ℚ) - x| + 3 / 2 ∧ |(c:ℚ) - x| ≤ |(u:ℚ) - c| + 3 / 2 := by
    intro c
    have e1 : (u:ℚ) - c = ((u:ℚ) - x) - ((c:ℚ) - x) := by ring
    have e2 : (c:ℚ) - x = ((u:ℚ) - x) - ((u:ℚ) - c) := by ring
    constructor
    · rw [e1]; calc |((u:ℚ) - x) - ((c:ℚ) - x)| ≤ |(u:ℚ) - x| + |(c:ℚ) - x| := abs_sub _ _
        _ ≤ |(c:ℚ) - x| + 3 / 2 := by linarith
    · rw [e2]; calc |((u:ℚ) - x) - ((u:ℚ) - c)| ≤ |(u:ℚ) - x| + |(u:ℚ) - c| := abs_sub _ _
        _ ≤ |(u:ℚ) - c| + 3 / 2 := by linarith
  have dq : ∀ c : ℕ, ((delta u c : ℕ) : ℚ) = |(u:ℚ) - c| := fun c => delta_cast u c
  refine ⟨hr, ?_, ?_⟩
  · rintro ⟨c, hc, hcx⟩
    have hlt : delta u c < Gen.halfStepUv := by
      have : ((delta u c : ℕ) : ℚ) < (Gen.halfStepUv : ℚ) := by
        rw [dq, halfStep_val]; linarith [(tri c).1]
      exact_mod_cast this
    obtain ⟨a1, a2⟩ := hA ⟨c, hc, hlt⟩
    constructor
    · have : ((delta u r : ℕ) : ℚ) < (Gen.halfStepUv : ℚ) := by exact_mod_cast a1
      rw [dq, halfStep_val] at this
      linarith [(tri r).2]
    · intro c' hc' hlt'
      have : (Gen.halfStepUv : ℚ) ≤ ((delta u c' : ℕ) : ℚ) := by exact_mod_cast a2 c' hc' hlt'
      rw [dq, halfStep_val] at this
      linarith [(tri c').1]
  · intro hall c hc
    have hge : ∀ c' ∈ L, Gen.halfStepUv ≤ delta u c' := by
      intro c' hc'
      have : (Gen.halfStepUv : ℚ) ≤ ((delta u c' : ℕ) : ℚ) := by
        rw [dq, halfStep_val]; linarith [(tri c').2, hall c' hc']
      exact_mod_cast this
    have : ((delta u r : ℕ) : ℚ) ≤ ((delta u c : ℕ) : ℚ) := by exact_mod_cast hB hge c hc
    rw [dq, dq] at this
    linarith [(tri r).2, (tri c).1]

/-- **C08 in volts.**  A history-free conversion of `v ∈ [0, 10]` V under any non-empty scale reports the note `r / 83333`
where `r` (µV) is an allowed note position obeying the two regimes of `pick_real` around `x = 10^6·v`. -/
theorem volts_rule (allowed : ℕ) (ha : ∃ n, n < 12 ∧ bit allowed n = true) (q : ℚ) (nz : Bool) (h0 : 0 ≤ q) (h10 : q ≤ 10) :
    ∃ r : ℕ, (convertFresh allowed (.fin q nz)).note = (r / Gen.halfStepUv) % 256 ∧ r ∈ globalCands allowed ∧
      ((∃ c ∈ globalCands allowed, |(c:ℚ) - q * 1000000| < 83333 - 2) →
        |(r:ℚ) - q * 1000000| < 83333 + 2 ∧ ∀ c ∈ globalCands allowed, c < r → (83333:ℚ) - 2 ≤ |(c:ℚ) - q * 1000000|) ∧
      ((∀ c ∈ globalCands allowed, (83333:ℚ) + 2 ≤ |(c:ℚ) - q * 1000000|) →
        ∀ c ∈ globalCands allowed, |(r:ℚ) - q * 1000000| ≤ |(c:ℚ) - q * 1000000| + 3) := by
  obtain ⟨s', e⟩ := C19Bounds_clamp q nz h0 h10
  have hv : toMicrovolts (.fin q s') ≤ 10000000 := by
    have := C07.microvolts_le (.fin q nz); rw [e] at this; exact this
  have hp := local_to_global allowed _ _ ha hv (search_is_pick allowed _ ha hv)
  obtain ⟨c1, c2⟩ := microvolts_close q s' h0 h10
  have hu : |((toMicrovolts (.fin q s') : ℕ) : ℚ) - q * 1000000| ≤ 3 / 2 := by
    rw [abs_le]; constructor <;> linarith
  obtain ⟨p1, p2, p3⟩ := pick_real _ _ _ _ hu hp
  refine ⟨_, ?_, p1, p2, p3⟩
  simp only [convertFresh, e]
  rfl
where
  C19Bounds_clamp (q : ℚ) (nz : Bool) (h0 : 0 ≤ q) (h10 : q ≤ 10) : ∃ s', fmin (fmax (.fin q nz) zero) vMax = .fin q s' := by
    rw [C07.vMax_eq]
    by_cases hz : q = 0
    · subst hz; cases nz <;> exact ⟨false, by simp [fmax, fmin, zero, mixedZeros, lt]⟩
    · have hq : (q == 0) = false := by simpa using hz
      have h1 : ¬ q < 0 := not_lt.mpr h0
      have h2 : ¬ (10:ℚ) < q := not_lt.mpr h10
      exact ⟨nz, by simp [fmax, fmin, zero, mixedZeros, lt, hq, h1, h2]⟩

end C08
