import SynthVerif.Props.C18
import SynthVerif.Props.C06
/-!
# C18 at the byte level: `Bn cc vv` on the listened channel is `control_change(cc, vv)`

`C18.cc_*` describe `Midi.controlChange`; `C18.bend_lsb_first` ties the pitch-bend bytes to it.  This file does the same for
controller messages: whatever the parser was doing before (a status byte aborts a partial message), the three bytes
`0xB0+channel, cc, v` leave every observable equal to `controlChange cc v` applied to the state before.
-/
open F32
namespace C18

theorem cc_bytes (m : Midi) (cc v : Nat) (hcc : cc < 128) (hv : v < 128) (hc : m.channel < 16) :
    C06.obs (((m.parse (0xB0 + m.channel)).parse cc).parse v) = C06.obs (m.controlChange cc v) := by
  have e1 : (0xB0 + m.channel) / 16 = 11 := by omega
  have e2 : (0xB0 + m.channel) % 16 = m.channel := by omega
  have n1 : 0xB0 + m.channel ≥ 0x80 := by omega
  have n2 : ¬ (0xB0 + m.channel ≥ 0xf0) := by omega
  have n3 : ¬ (cc ≥ 0x80) := by omega
  have n4 : ¬ (v ≥ 0x80) := by omega
  simp [Midi.parse, parserStep, n1, n2, n3, n4, e1, e2, Midi.handle, C06.obs, Midi.controlChange]

/-- the same message on another channel changes no observable -/
theorem cc_bytes_other_channel (m : Midi) (c cc v : Nat) (hc : c < 16) (hne : c ≠ m.channel) (hcc : cc < 128) (hv : v < 128) :
    C06.obs (((m.parse (0xB0 + c)).parse cc).parse v) = C06.obs m := by
  have e1 : (0xB0 + c) / 16 = 11 := by omega
  have e2 : (0xB0 + c) % 16 = c := by omega
  have n1 : 0xB0 + c ≥ 0x80 := by omega
  have n2 : ¬ (0xB0 + c ≥ 0xf0) := by omega
  have n3 : ¬ (cc ≥ 0x80) := by omega
  have n4 : ¬ (v ≥ 0x80) := by omega
  have : (c == m.channel) = false := by simp [hne]
  simp [Midi.parse, parserStep, n1, n2, n3, n4, e1, e2, Midi.handle, C06.obs, this]

end C18
