import SynthVerif.Props.C19Bounds
/-!
# C09, ramps from any state

`ramp_monotone_any`: for a fixed scale, **from any reachable state** (`C19.CacheOk`, in particular with a note held from
earlier conversions), a non-decreasing sequence of inputs in [0, 10] V yields a non-decreasing sequence of notes.
(`C09.ramp_monotone` is the special case of a quantizer without history.)  The argument: after any conversion at `x`, every
later conversion at `x' ≥ x` reports at least the cached note — if the cached note was found by the history-free search this is
the monotonicity of that search (C08); if it was kept by the hysteresis window, `x' ≥ x` can leave the window only through its
upper edge, and above the upper edge of an allowed note `p` the history-free search reports at least `p`.
-/
namespace C09
open F32 Quantizer

theorem cand_note (p : ℕ) (hp : p ≤ 131) : ((p % 12) * 83333 + (p / 12) * 1000000) / 83333 % 256 = p := by
  have h : (p % 12) * 83333 + (p / 12) * 1000000 = p * 83333 + 4 * (p / 12) := by omega
  rw [h]
  have h2 : (p * 83333 + 4 * (p / 12)) / 83333 = p := by omega
  rw [h2]; omega

/-- above the upper window edge of an allowed note `p`, the history-free search reports at least `p` -/
theorem fresh_ge_of_above (allowed p : ℕ) (ha : ∃ n, n < 12 ∧ bit allowed n = true) (hp : p ≤ 131)
    (hbit : bit allowed (p % 12) = true) (x : ℚ) (s : Bool) (x0 : 0 ≤ x) (x10 : x ≤ 10)
    (hx : ((p : ℚ) + 1) / 12 + 1 / 120 - 2 ^ (-19:ℤ) ≤ x) :
    p ≤ (convertFresh allowed (.fin x s)).note := by
  obtain ⟨h1, h2, h3⟩ := consts
  obtain ⟨s', e⟩ := C19.clamp_id x s x0 x10
  have hle : toMicrovolts (.fin x s') ≤ 10000000 := by
    have := C07.microvolts_le (.fin x s); rwa [e] at this
  obtain ⟨c1, _⟩ := C08.microvolts_close x s' x0 x10
  have hnote : (convertFresh allowed (.fin x s)).note = findNearestUv allowed (toMicrovolts (.fin x s')) := by
    simp only [convertFresh, e]
  set uv := toMicrovolts (.fin x s') with huv
  have pk := C08.local_to_global allowed uv _ ha hle (C08.search_is_pick allowed uv ha hle)
  rw [hnote, C08.findNearestUv_eq]
  set r := ((allCands allowed uv).foldl (scanStep uv) {}).result with hr
  -- the candidate of p
  set cp := (p % 12) * Gen.halfStepUv + (p / 12) * Gen.oneOctaveUv with hcp
  have hmem : cp ∈ C08.globalCands allowed :=
    C08.mem_globalCands.mpr ⟨p / 12, p % 12, by rw [h3]; omega, Nat.mod_lt _ (by norm_num), hbit, rfl⟩
  have hcpq : (cp : ℚ) ≤ 1000000 * (p : ℚ) / 12 := by
    have e1 : cp = (p % 12) * 83333 + (p / 12) * 1000000 := by rw [hcp, h1, h2]
    have e2 : p = 12 * (p / 12) + p % 12 := (Nat.div_add_mod p 12).symm
    have : (cp : ℚ) = ((p % 12 : ℕ) : ℚ) * 83333 + ((p / 12 : ℕ) : ℚ) * 1000000 := by rw [e1]; push_cast; ring
    rw [this]
    have e3 : (p : ℚ) = 12 * ((p / 12 : ℕ) : ℚ) + ((p % 12 : ℕ) : ℚ) := by exact_mod_cast e2
    have : (0:ℚ) ≤ ((p % 12 : ℕ) : ℚ) := by positivity
    rw [e3]; linarith
  have hfar : cp + 83333 ≤ uv := by
    have t19 : (2:ℚ) ^ (-19:ℤ) ≤ 1 / 100000 := by norm_num
    have : ((cp + 83333 : ℕ) : ℚ) ≤ (uv : ℚ) := by
      push_cast
      have hxx : 1000000 * (((p : ℚ) + 1) / 12 + 1 / 120 - 2 ^ (-19:ℤ)) ≤ x * 1000000 := by nlinarith
      generalize (2:ℚ) ^ (-19:ℤ) = t at *
      linarith
    exact_mod_cast this
  obtain ⟨hrm, hA, hB⟩ := pk
  have hge : cp ≤ r := by
    by_cases hW : ∃ c ∈ C08.globalCands allowed, delta uv c < Gen.halfStepUv
    · have := (hA hW).1
      rw [h1] at this
      unfold delta at this; split at this <;> omega
    · have hall : ∀ c ∈ C08.globalCands allowed, Gen.halfStepUv ≤ delta uv c := by
        intro c hc
        by_contra hlt
        exact hW ⟨c, hc, not_le.mp hlt⟩
      have := hB hall cp hmem
      unfold delta at this
      split at this <;> split at this <;> omega
  have hr11 : r ≤ 11000000 := by
    obtain ⟨k, n, hk, hn, _, he⟩ := C08.mem_globalCands.mp hrm
    rw [he, h1, h2]; rw [h3] at hk; omega
  have := C08.note_of_cand_mono hge hr11
  have e1 : cp = (p % 12) * 83333 + (p / 12) * 1000000 := by rw [hcp, h1, h2]
  have ecp := cand_note p hp
  rw [h1, e1, ecp] at this
  rw [h1]
  exact this

/-- after any conversion at `x`, every later conversion at `x' ≥ x` reports at least the cached note -/
theorem later_ge (q : Quantizer) (hc : C19.CacheOk q) (ha : ∃ n, n < 12 ∧ bit q.allowed n = true)
    (x : ℚ) (s : Bool) (x0 : 0 ≤ x) (x10 : x ≤ 10) (x' : ℚ) (s' : Bool) (hxx : x ≤ x') (x'10 : x' ≤ 10) :
    (q.convert (.fin x s)).2.note ≤ ((q.convert (.fin x s)).1.convert (.fin x' s')).2.note := by
  obtain ⟨ck, cf, cc, cal⟩ := convert_cases q (.fin x s)
  set q1 := (q.convert (.fin x s)).1 with hq1
  obtain ⟨ck1, cf1, _, _⟩ := convert_cases q1 (.fin x' s')
  by_cases hk1 : keeps q1 (.fin x' s') = true
  · rw [(ck1 hk1).2, cc]
  · have hk1' : keeps q1 (.fin x' s') = false := by simpa using hk1
    rw [cf1 hk1', cal]
    by_cases hk : keeps q (.fin x s) = true
    · -- the first conversion kept the cached note p: x is inside its window, x' left it through the upper edge
      obtain ⟨e1, e2⟩ := ck hk
      rw [e2]
      rcases hc with hinit | ⟨hs, hp⟩
      · exfalso
        have := init_never_in_window (.fin x s)
        unfold keeps at hk
        rw [hinit] at hk
        simp [this] at hk
      · obtain ⟨l1, l2, l3, l4⟩ := window_bounds q.cached.note hp
        have hkk := Bool.and_eq_true_iff.mp (by unfold keeps at hk; exact hk)
        have hall : q.isAllowed (noteNew (q.cached.note % 12)) = true := hkk.1
        have hw : inWindow q.cached (.fin x s) = true := hkk.2
        unfold inWindow at hw
        rw [hs] at hw
        dsimp only at hw
        rw [lt_val l1 (isFin_fin _ _), lt_val (isFin_fin _ _) l2] at hw
        simp only [val_fin] at hw
        have hw2 := Bool.and_eq_true_iff.mp hw
        have hlo : (sub (div (ofNat q.cached.note) notesPerOctave) hysteresis).val < x := of_decide_eq_true hw2.1
        -- in q1 the cache is the same note with the same stairstep, still allowed: so x' is not inside the window
        have hc1 : q1.cached.note = q.cached.note ∧ q1.cached.stairstep = div (ofNat q.cached.note) notesPerOctave := by
          rw [cc, e1]; exact ⟨rfl, hs⟩
        have hnw : inWindow q1.cached (.fin x' s') = false := by
          unfold keeps Quantizer.isAllowed at hk1'
          rw [hc1.1, cal] at hk1'
          have hall' : ((q.allowed >>> noteNew (q.cached.note % 12)) % 2 == 1) = true := hall
          rw [hall', Bool.true_and] at hk1'
          exact hk1'
        unfold inWindow at hnw
        rw [hc1.2] at hnw
        dsimp only at hnw
        rw [lt_val l1 (isFin_fin _ _), lt_val (isFin_fin _ _) l2] at hnw
        simp only [val_fin] at hnw
        have hhi : (add (add (div (ofNat q.cached.note) notesPerOctave) semitoneWidth) hysteresis).val ≤ x' := by
          rcases Bool.and_eq_false_iff.mp hnw with h | h
          · exact absurd (lt_of_lt_of_le hlo hxx) (of_decide_eq_false h)
          · exact not_lt.mp (of_decide_eq_false h)
        have e4 := abs_le.mp l4
        have hbit : bit q.allowed (q.cached.note % 12) = true := by
          have hmod : q.cached.note % 12 ≤ 11 := by omega
          have : noteNew (q.cached.note % 12) = q.cached.note % 12 := by unfold noteNew; rw [if_pos hmod]
          rw [this] at hall
          exact hall
        have x'0 : 0 ≤ x' := le_trans x0 hxx
        exact fresh_ge_of_above q.allowed q.cached.note ha hp hbit x' s' x'0 x'10 (by linarith [e4.1])
    · have hk' : keeps q (.fin x s) = false := by simpa using hk
      rw [cf hk']
      exact C08.convertFresh_monotone q.allowed ha x x' s s' x0 hxx x'10

/-- every conversion at or above `b` reports at least the cached note -/
def Above (q : Quantizer) (b : ℚ) : Prop :=
  ∀ (x : ℚ) (s : Bool), b ≤ x → x ≤ 10 → q.cached.note ≤ (q.convert (.fin x s)).2.note

theorem ramp_from_above (q : Quantizer) (b : ℚ) (hb : 0 ≤ b) (hc : C19.CacheOk q)
    (ha : ∃ n, n < 12 ∧ bit q.allowed n = true) (hq : Above q b) (vs : List F32) (hr : Ramp b vs) :
    List.Pairwise (· ≤ ·) (q.cached.note :: notes q vs) := by
  induction vs generalizing q b with
  | nil => simp [notes]
  | cons v vs ih =>
    cases v with
    | nan => exact absurd hr (by simp [Ramp])
    | inf s => exact absurd hr (by simp [Ramp])
    | fin x s =>
      obtain ⟨hbx, hx10, hrest⟩ := hr
      obtain ⟨_, _, cc, cal⟩ := convert_cases q (.fin x s)
      have x0 : 0 ≤ x := le_trans hb hbx
      have hge : q.cached.note ≤ (q.convert (.fin x s)).2.note := hq x s hbx hx10
      obtain ⟨_, _, ok3⟩ := C19.convert_ok q hc ha (.fin x s)
      have habove : Above (q.convert (.fin x s)).1 x := by
        intro x' s' hxx hx'10
        rw [cc]
        exact later_ge q hc ha x s x0 hx10 x' s' hxx hx'10
      have ih' := ih (q.convert (.fin x s)).1 x x0 ok3 (by rw [cal]; exact ha) habove hrest
      rw [cc] at ih'
      simp only [notes]
      rw [List.pairwise_cons]
      refine ⟨?_, ih'⟩
      intro n hn
      have : (q.convert (.fin x s)).2.note ≤ n := by
        rcases List.mem_cons.mp hn with rfl | hn'
        · exact Nat.le_refl _
        · exact (List.pairwise_cons.mp ih').1 n hn'
      omega

/-- **C09, ramps from any reachable state**: fixed scale with an allowed note, any state whose cache is well formed,
a non-decreasing sequence of inputs in [0, 10] V: the reported notes never decrease -/
theorem ramp_monotone_any (q : Quantizer) (hc : C19.CacheOk q) (ha : ∃ n, n < 12 ∧ bit q.allowed n = true)
    (vs : List F32) (hr : Ramp 0 vs) : List.Pairwise (· ≤ ·) (notes q vs) := by
  cases vs with
  | nil => simp [notes]
  | cons v vs =>
    cases v with
    | nan => exact absurd hr (by simp [Ramp])
    | inf s => exact absurd hr (by simp [Ramp])
    | fin x s =>
      obtain ⟨x0, x10, hrest⟩ := hr
      obtain ⟨_, _, cc, cal⟩ := convert_cases q (.fin x s)
      obtain ⟨_, _, ok3⟩ := C19.convert_ok q hc ha (.fin x s)
      have habove : Above (q.convert (.fin x s)).1 x := by
        intro x' s' hxx hx'10
        rw [cc]
        exact later_ge q hc ha x s x0 x10 x' s' hxx hx'10
      have := ramp_from_above (q.convert (.fin x s)).1 x x0 ok3 (by rw [cal]; exact ha) habove vs hrest
      rw [cc] at this
      simpa [notes] using this

end C09
