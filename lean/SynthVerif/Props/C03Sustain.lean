import SynthVerif.Props.C03Boundary
import SynthVerif.Props.C01Fidelity
/-!
# C03, part 3 — a sustain level changed between two ticks

`sustain_change_step`: two consecutive ticks of the decay phase with a `set_input(Sustain(x))` call in between change the
output by at most the slope bound of `same_phase_step` **plus the change the caller made to the sustain level** (plus the
same rounding slack) — the last clause of the property.  In the sustain phase the output *is* the sustain level
(`C01.sustain_exact`), so there the step equals the caller's change; attack and release do not read the sustain level.
-/
namespace C03
open F32 AdsrTab C01

/-- the blend `fl(fl(fl(1−L)·S) + L)` moves by at most the change of the level `L` (plus rounding) -/
theorem blend_level_lipschitz {L L' S : ℚ} (h0 : 0 ≤ L) (h1 : L ≤ 1) (h0' : 0 ≤ L') (h1' : L' ≤ 1) (s0 : 0 ≤ S) (s1 : S ≤ 1) :
    |blend L' S - blend L S| ≤ |L' - L| + 2 ^ (-22:ℤ) := by
  have n1 := abs_le.mp (C01.Fidelity.blend_near h0 h1 s0 s1)
  have n2 := abs_le.mp (C01.Fidelity.blend_near h0' h1' s0 s1)
  have e : (L' + (1 - L') * S) - (L + (1 - L) * S) = (L' - L) * (1 - S) := by ring
  have hb : |(L' - L) * (1 - S)| ≤ |L' - L| := by
    rw [abs_mul, abs_of_nonneg (by linarith : (0:ℚ) ≤ 1 - S)]
    exact mul_le_of_le_one_right (abs_nonneg _) (by linarith)
  have hb' := abs_le.mp hb
  have e22 : (2:ℚ) ^ (-22:ℤ) = 2 * 2 ^ (-23:ℤ) := by norm_num
  rw [e22]
  generalize (2:ℚ) ^ (-23:ℤ) = u at *
  rw [abs_le]
  constructor <;> linarith

/-- **sustain changed between two ticks of the decay**: slope bound + the caller's change + rounding -/
theorem sustain_change_step (a0 a1 a2 : Adsr) (x : F32) (hx : Rep x.val) (h0 : AInv a0) (e1 : a0.tick = some a1)
    (e2 : (a1.setInput (.sustain (sustainLevel x))).tick = some a2)
    (hd : a1.state = .decay) (hs : a2.state = .decay) :
    |a2.value.val - a1.value.val| ≤
      1024 * DD * ((a2.pa.acc - a1.pa.acc : ℕ) : ℚ) / 2 ^ 24 + |(sustainLevel x).val - a1.sustain.val| +
        (slack + 2 ^ (-22:ℤ)) := by
  obtain ⟨i1, v1⟩ := tick_value a0 a1 h0 e1
  set b := a1.setInput (.sustain (sustainLevel x)) with hb
  have ib : AInv b := ⟨⟨i1.ok.tb, i1.ok.ib, i1.ok.rate, i1.ok.acc, i1.ok.rolled, i1.ok.att, i1.ok.dec, i1.ok.rel⟩,
    sustainLevel_level x hx, i1.on, i1.off, i1.val⟩
  have bst : b.state = .decay := hd
  have bacc : b.pa.acc = a1.pa.acc := rfl
  obtain ⟨i2, v2⟩ := tick_value b a2 ib e2
  have sp := tick_same_phase b a2 ib e2 (by rw [bst]; rfl) (by rw [hs, bst])
  have hk : a1.pa.acc + (a2.pa.acc - a1.pa.acc) = a2.pa.acc := by have := sp.acc; rw [bacc] at this; omega
  have hlt : a1.pa.acc + (a2.pa.acc - a1.pa.acc) < 2 ^ 24 := by rw [hk]; exact i2.ok.acc
  set k := a2.pa.acc - a1.pa.acc with hkdef
  obtain ⟨rd0, rd1⟩ := decay_falling.sample_range a1.pa.acc i1.ok.acc
  obtain ⟨rd0', rd1'⟩ := decay_falling.sample_range a2.pa.acc i2.ok.acc
  have sD := sample_step Dq DD DD_small decay_T decay_cell_height a1.pa.acc k hlt
  rw [hk] at sD
  rw [v1, v2, hs, hd]
  dsimp only
  have hsus : a2.sustain = sustainLevel x := by rw [sp.sus]; rfl
  rw [hsus]
  have lv := sustainLevel_level x hx
  have b1 := blend_lipschitz lv.2.1 lv.2.2.1 rd0 rd1 rd0' rd1'
  have b2 := blend_level_lipschitz i1.sus.2.1 i1.sus.2.2.1 lv.2.1 lv.2.2.1 rd0 rd1
  have t := abs_sub_le (blend (sustainLevel x).val (sampleQ Dq a2.pa.acc)) (blend (sustainLevel x).val (sampleQ Dq a1.pa.acc))
    (blend a1.sustain.val (sampleQ Dq a1.pa.acc))
  unfold slack
  have e : 1024 * DD * (k:ℚ) / 2 ^ 24 + |(sustainLevel x).val - a1.sustain.val| +
      ((2 ^ (-23:ℤ) + 2 ^ (-29:ℤ)) + (2 ^ (-23:ℤ) + 2 ^ (-24:ℤ)) + 2 ^ (-22:ℤ)) =
      (1024 * DD * (k:ℚ) / 2 ^ 24 + (2 ^ (-23:ℤ) + 2 ^ (-29:ℤ)) + (2 ^ (-23:ℤ) + 2 ^ (-24:ℤ))) +
      (|(sustainLevel x).val - a1.sustain.val| + 2 ^ (-22:ℤ)) := by ring
  rw [e]
  generalize (2:ℚ) ^ (-22:ℤ) = t22 at *
  generalize (2:ℚ) ^ (-23:ℤ) = t23 at *
  generalize (2:ℚ) ^ (-24:ℤ) = t24 at *
  generalize (2:ℚ) ^ (-29:ℤ) = t29 at *
  linarith

end C03
