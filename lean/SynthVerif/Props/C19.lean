import SynthVerif.Props.C09
import SynthVerif.Props.Interp
/-!
# C19 — Quantizer result record is self-consistent

* `stairstep_is_note_over_12`: in every history of allow / forbid / convert calls, every reported conversion has
  `stairstep = fl(note / 12)` — on the history-free path by construction, on the hysteresis path because the cache
  always holds a conversion that was produced that way (`CacheOk`).
* `reconstruct`: `fl(stairstep + fl(x − stairstep))` differs from `x` by at most
  `2^-24·(|x − ss| + |x|)·(1 + 2^-24) + 3·2^-150` (two half-ulp roundings), where `x` is the input on the hysteresis
  path and the clamped input on the history-free path.
* `kept_fraction_range`: whenever the hysteresis window kept the previous note `p ≤ 131`, the fraction lies in
  `[−0.1, 1.1]` semitones, up to `2^-17` V.
* `chromatic_fraction_neg_witness` (K1, a recorded finding): a history-free chromatic conversion can report a
  *negative* fraction (`convert(0.999996)` → note 12, fraction −3.99e-6), because the search grid uses a truncated
  83333 µV semitone while the stairstep is `fl(n/12)`; the property's clause "fraction in [0, 1) semitone" is
  therefore false of the code and is not proved — `note_bound` and `fresh_note_le_131` are the parts that hold.
  `C19Bounds.lean` bounds the failure: the chromatic fraction lies in `[−6·10^-6, 1/12 + 3·10^-6]` V
  (`chromatic_fraction_bounds`).
-/
namespace C19
open F32 Quantizer

/-- the cache is the initial record or holds `stairstep = fl(note/12)` with a note in 0..131 -/
def CacheOk (q : Quantizer) : Prop :=
  q.cached = Quantizer.new.cached ∨
  (q.cached.stairstep = div (ofNat q.cached.note) notesPerOctave ∧ q.cached.note ≤ 131)

theorem fresh_note_le_131 (allowed : Nat) (ha : ∃ n, n < 12 ∧ bit allowed n = true) (v : F32) :
    (convertFresh allowed v).note ≤ 131 := by
  obtain ⟨h1, h2, h3⟩ := consts
  have hv := C07.microvolts_le v
  have p := C08.local_to_global allowed _ _ ha hv (C08.search_is_pick allowed _ ha hv)
  obtain ⟨k, n, hk, hn, _, he⟩ := C08.mem_globalCands.mp p.1
  simp only [convertFresh]
  rw [C08.findNearestUv_eq, he, h1, h2]
  rw [h3] at hk
  have e : (n * 83333 + k * 1000000) / 83333 = n + 12 * k := by omega
  have e2 : (n + 12 * k) % 256 = n + 12 * k := by omega
  calc (n * 83333 + k * 1000000) / 83333 % 256 = (n + 12 * k) % 256 := by rw [e]
    _ = n + 12 * k := e2
    _ ≤ 131 := by omega

theorem fresh_stairstep (allowed : Nat) (v : F32) :
    (convertFresh allowed v).stairstep = div (ofNat (convertFresh allowed v).note) notesPerOctave := by
  simp only [convertFresh]

/-- one conversion: the record is well formed and so is the new cache -/
theorem convert_ok (q : Quantizer) (hq : CacheOk q) (ha : ∃ n, n < 12 ∧ bit q.allowed n = true) (v : F32) :
    (q.convert v).2.stairstep = div (ofNat (q.convert v).2.note) notesPerOctave ∧ (q.convert v).2.note ≤ 131 ∧
    CacheOk (q.convert v).1 := by
  obtain ⟨ck, cf, cc, cal⟩ := C09.convert_cases q v
  by_cases hk : C09.keeps q v = true
  · -- kept: the cache cannot be the initial record
    rcases hq with hinit | ⟨hs, hn⟩
    · exfalso
      have := C09.init_never_in_window v
      unfold C09.keeps at hk
      rw [hinit] at hk
      simp [this] at hk
    · obtain ⟨e1, e2⟩ := ck hk
      refine ⟨by rw [e1]; exact hs, by rw [e2]; exact hn, Or.inr ?_⟩
      rw [cc, e1]; exact ⟨hs, hn⟩
  · have hk' : C09.keeps q v = false := by simpa using hk
    have e := cf hk'
    refine ⟨by rw [e]; exact fresh_stairstep _ v, by rw [e]; exact fresh_note_le_131 _ ha v, Or.inr ?_⟩
    rw [cc, e]; exact ⟨fresh_stairstep _ v, fresh_note_le_131 _ ha v⟩

/-- run a history, collecting every reported conversion; `none` = panic -/
def run (q : Quantizer) : List C07.Op → Option (Quantizer × List Conversion)
  | [] => some (q, [])
  | .allow ns :: ops => run (q.allow ns) ops
  | .forbid ns :: ops => match q.forbid ns with
    | none => none
    | some q' => run q' ops
  | .convert v :: ops => match run (q.convert v).1 ops with
    | none => none
    | some (q', rs) => some (q', (q.convert v).2 :: rs)

/-- **C19 (stairstep), all histories** -/
theorem stairstep_is_note_over_12 (q : Quantizer) (hi : C07.QInv q) (hc : CacheOk q) (ops : List C07.Op)
    (hw : ∀ o ∈ ops, o.wf) :
    ∃ q' rs, run q ops = some (q', rs) ∧
      ∀ c ∈ rs, c.stairstep = div (ofNat c.note) notesPerOctave ∧ c.note ≤ 131 := by
  induction ops generalizing q with
  | nil => exact ⟨q, [], rfl, by simp⟩
  | cons o ops ih =>
    have hw' : ∀ o ∈ ops, o.wf := fun x hx => hw x (by simp [hx])
    have hwo := hw o (by simp)
    cases o with
    | allow ns =>
      have hc' : CacheOk (q.allow ns) := hc
      exact ih (q.allow ns) (C07.allow_inv q ns hwo hi) hc' hw'
    | forbid ns =>
      obtain ⟨q1, hq1, hi1, _⟩ := C07.forbid_inv q ns hwo hi
      have hc1 : CacheOk q1 := by
        unfold Quantizer.forbid at hq1
        dsimp only at hq1
        split at hq1
        · split at hq1
          · simp at hq1
          · simp only [Option.some.injEq] at hq1; subst hq1; exact hc
        · simp only [Option.some.injEq] at hq1; subst hq1; exact hc
      obtain ⟨q', rs, hr, hall⟩ := ih q1 hi1 hc1 hw'
      have e : run q (.forbid ns :: ops) = (match q.forbid ns with | none => none | some q' => run q' ops) := rfl
      exact ⟨q', rs, by rw [e, hq1]; exact hr, hall⟩
    | convert v =>
      obtain ⟨h1, h2, h3⟩ := convert_ok q hc (C07.exists_allowed hi) v
      have hi1 : C07.QInv (q.convert v).1 := by
        unfold C07.QInv; rw [(C09.convert_cases q v).2.2.2]; exact hi
      obtain ⟨q', rs, hr, hall⟩ := ih _ hi1 h3 hw'
      have e : run q (.convert v :: ops) = (match run (q.convert v).1 ops with
        | none => none | some (q', rs) => some (q', (q.convert v).2 :: rs)) := rfl
      refine ⟨q', (q.convert v).2 :: rs, by rw [e, hr], ?_⟩
      intro c hcm
      rcases List.mem_cons.mp hcm with rfl | hcm'
      · exact ⟨h1, h2⟩
      · exact hall c hcm'

/-- **reconstruction**: adding the fraction back to the stairstep reproduces `x` up to two roundings -/
theorem reconstruct (x ss : F32) (hx : x.isFin = true) (hs : ss.isFin = true) (bx : |x.val| ≤ 2 ^ (100:ℤ))
    (bs : |ss.val| ≤ 2 ^ (100:ℤ)) :
    let f := sub x ss
    (add ss f).isFin = true ∧
    |(add ss f).val - x.val| ≤ 2 ^ (-24:ℤ) * (|x.val - ss.val| + |x.val|) * (1 + 2 ^ (-24:ℤ)) + 3 * 2 ^ (-150:ℤ) := by
  have big : (2:ℚ) ^ (100:ℤ) + 2 ^ (100:ℤ) ≤ 2 ^ (127:ℤ) := by norm_num
  have hd : |x.val - ss.val| ≤ 2 ^ (127:ℤ) := by
    have := abs_sub x.val ss.val; linarith
  obtain ⟨f1, f2⟩ := val_sub hx hs hd
  have e1 := rnd_err_gen (x.val - ss.val)
  have hfb : |(sub x ss).val| ≤ 2 ^ (102:ℤ) := by
    rw [f2]; apply abs_rnd_le _ (rep_pow2 (by norm_num))
    have := abs_sub x.val ss.val
    have : |x.val - ss.val| ≤ 2 ^ (100:ℤ) + 2 ^ (100:ℤ) := by linarith
    exact le_trans this (by norm_num)
  have hsb : |ss.val + (sub x ss).val| ≤ 2 ^ (127:ℤ) := by
    have := abs_add_le ss.val (sub x ss).val
    have : |ss.val + (sub x ss).val| ≤ 2 ^ (100:ℤ) + 2 ^ (102:ℤ) := by linarith
    exact le_trans this (by norm_num)
  obtain ⟨a1, a2⟩ := val_add hs f1 hsb
  have e2 := rnd_err_gen (ss.val + (sub x ss).val)
  refine ⟨a1, ?_⟩
  rw [a2]
  rw [f2] at e2 ⊢
  set d := x.val - ss.val with hd'
  set ε : ℚ := 2 ^ (-24:ℤ) with hε
  set δ : ℚ := 2 ^ (-150:ℤ) with hδ
  have ε0 : 0 ≤ ε := by positivity
  have δ0 : 0 ≤ δ := by positivity
  have ε1 : ε ≤ 1 := by rw [hε]; norm_num
  -- ss + rnd d = x + (rnd d − d)
  have key : ss.val + rnd d = x.val + (rnd d - d) := by rw [hd']; ring
  have h3 : |ss.val + rnd d| ≤ |x.val| + (ε * |d| + δ) := by
    rw [key]; have := abs_add_le x.val (rnd d - d); linarith
  have split : rnd (ss.val + rnd d) - x.val = (rnd (ss.val + rnd d) - (ss.val + rnd d)) + (rnd d - d) := by
    rw [hd']; ring
  rw [split]
  have t := abs_add_le (rnd (ss.val + rnd d) - (ss.val + rnd d)) (rnd d - d)
  have hd0 : 0 ≤ |d| := abs_nonneg _
  have hx0 : 0 ≤ |x.val| := abs_nonneg _
  have e2' : |rnd (ss.val + rnd d) - (ss.val + rnd d)| ≤ ε * (|x.val| + (ε * |d| + δ)) + δ := by
    have := mul_le_mul_of_nonneg_left h3 ε0
    linarith
  have p0 : ε * δ ≤ δ := by nlinarith
  have p1 : 0 ≤ ε * ε * |x.val| := by positivity
  have target : ε * (|d| + |x.val|) * (1 + ε) + 3 * δ = ε * |d| + ε * |x.val| + ε * ε * |d| + ε * ε * |x.val| + 3 * δ := by ring
  have e2exp : ε * (|x.val| + (ε * |d| + δ)) + δ = ε * |x.val| + ε * ε * |d| + ε * δ + δ := by ring
  rw [target]; rw [e2exp] at e2'
  linarith

/-- **hysteresis path**: if the window of a cached note `p ≤ 131` admitted the (finite) input, the reported
fraction is within [−0.1, 1.1] semitones up to 2^-17 V -/
theorem kept_fraction_range (p : ℕ) (hp : p ≤ 131) (v : F32) (hv : v.isFin = true)
    (hin : inWindow { note := p, stairstep := div (ofNat p) notesPerOctave, fraction := zero } v = true) :
    let frac := sub v (div (ofNat p) notesPerOctave)
    frac.isFin = true ∧ -(1 / 120) - 2 ^ (-17:ℤ) ≤ frac.val ∧ frac.val ≤ 1 / 12 + 1 / 120 + 2 ^ (-17:ℤ) := by
  obtain ⟨l1, h1, lb, hb⟩ := C09.window_bounds p hp
  obtain ⟨s1, s2⟩ := C09.stairstep_val p (by omega)
  simp only [inWindow, Bool.and_eq_true] at hin
  obtain ⟨hlo, hhi⟩ := hin
  rw [lt_val l1 hv] at hlo
  rw [lt_val hv h1] at hhi
  simp only [decide_eq_true_eq] at hlo hhi
  have lb' := abs_le.mp lb
  have hb' := abs_le.mp hb
  have hp' : (p:ℚ) ≤ 131 := by exact_mod_cast hp
  have p0 : (0:ℚ) ≤ p := by positivity
  have hq : |(p:ℚ) / 12| < 16 := by
    rw [abs_of_nonneg (by positivity), div_lt_iff₀ (by norm_num)]; linarith
  have e0 : |rnd ((p:ℚ) / 12) - (p:ℚ) / 12| ≤ 2 ^ (-21:ℤ) := by
    have := rnd_err (x := (p:ℚ) / 12) (k := 4) (by norm_num) (by norm_num; exact hq)
    norm_num at this ⊢; exact this
  have e0' := abs_le.mp e0
  norm_num at lb' hb' e0'
  -- v − ss is small
  have d1 : -(1 / 120) - 3 * (1 / 1048576) < v.val - rnd ((p:ℚ) / 12) := by linarith [lb'.1, lb'.2, e0'.1, e0'.2]
  have d2 : v.val - rnd ((p:ℚ) / 12) < 1 / 12 + 1 / 120 + 3 * (1 / 1048576) := by linarith [hb'.1, hb'.2, e0'.1, e0'.2]
  have dabs : |v.val - rnd ((p:ℚ) / 12)| < 1 := by rw [abs_lt]; constructor <;> linarith
  obtain ⟨f1, f2⟩ := val_sub hv s1 (by rw [s2]; exact le_trans (le_of_lt dabs) (by norm_num))
  rw [s2] at f2
  have ef := abs_le.mp (rnd_err (x := v.val - rnd ((p:ℚ) / 12)) (k := 0) (by norm_num) (by simpa using dabs))
  norm_num at ef
  refine ⟨f1, ?_, ?_⟩ <;> rw [f2] <;> norm_num <;> linarith [ef.1, ef.2]

/-- **K1 (recorded finding)**: a history-free chromatic conversion with a negative fraction -/
theorem chromatic_fraction_neg_witness :
    (Quantizer.new.convert (ofBits 0x3f7fffbd)).2.note = 12 ∧
    lt (Quantizer.new.convert (ofBits 0x3f7fffbd)).2.fraction zero = true := by decide +kernel

end C19
