import SynthVerif.Model.Adsr
import SynthVerif.Model.Quantizer
import SynthVerif.Model.Midi
namespace C20
theorem note_new_clamps (n : Nat) : Quantizer.noteNew n = min n 11 := by
  unfold Quantizer.noteNew; split <;> omega
end C20
