import SynthVerif.Model.Adsr
import SynthVerif.Model.Quantizer
import SynthVerif.Model.Midi
import Mathlib.Tactic.Linarith
/-!
# C20 — Out-of-range parameters are clamped to the nearest legal value

`clampSpec lo hi x`: NaN ↦ `lo`; below `lo` ↦ `lo`; above `hi` ↦ `hi`; otherwise `x` itself.
`timePeriod_spec` / `sustainLevel_spec`: the two `From<f32>` conversions are exactly this function, for *every*
binary32 value (case analysis NaN / ±∞ / finite — all 2^32 bit patterns structurally), with bounds
`[0.001f32, 20]` resp. `[0, 1]` taken from the constants generated from the compiled crate.
Consequences: result always inside the range, in-range values unchanged, idempotence (so an envelope configured
with an out-of-range value is *literally the same state* as one configured with the bound).
`noteNew_clamp`, `channel_clamp`: all `u8` note numbers / channels.
-/
namespace C20
open F32

def clampSpec (lo hi x : F32) : F32 :=
  match x with
  | .nan => lo
  | x => if lt x lo then lo else if lt hi x then hi else x

/-! facts about the generated bounds, evaluated by the kernel -/
theorem minTime_eq : minTime = .fin minTime.val false := by decide +kernel
theorem maxTime_eq : maxTime = .fin 20 false := by decide +kernel
theorem minTime_pos : 0 < minTime.val := by decide +kernel
theorem minTime_lt_max : minTime.val < 20 := by decide +kernel
/-- the lower bound is the binary32 nearest to 0.001 -/
theorem minTime_is_1ms : minTime.val = rnd (1 / 1000) := by decide +kernel

/-- `x.max(lo).min(hi)` for non-zero finite bounds `lo < hi` is the clamp specification -/
theorem max_min_clamp (a b : ℚ) (ha : a ≠ 0) (hb : b ≠ 0) (hab : a < b) (x : F32) :
    fmin (fmax x (.fin a false)) (.fin b false) = clampSpec (.fin a false) (.fin b false) x := by
  have ha' : (a == 0) = false := by simpa using ha
  have hb' : (b == 0) = false := by simpa using hb
  have hba : ¬ b < a := not_lt.mpr (le_of_lt hab)
  cases x with
  | nan => simp [clampSpec, fmax, fmin, mixedZeros, ha', hb', lt, hba]
  | inf s => cases s <;> simp [clampSpec, fmax, fmin, mixedZeros, ha', hb', lt, hab, hba]
  | fin q nz =>
    by_cases h1 : q < a
    · simp [clampSpec, fmax, fmin, mixedZeros, ha', hb', lt, h1, hba]
    · by_cases h2 : b < q
      · simp [clampSpec, fmax, fmin, mixedZeros, ha', hb', lt, h1, h2]
      · simp [clampSpec, fmax, fmin, mixedZeros, ha', hb', lt, h1, h2]

theorem timePeriod_spec (x : F32) : timePeriod x = clampSpec minTime maxTime x := by
  obtain ⟨a, ha⟩ : ∃ a, minTime = .fin a false := ⟨_, minTime_eq⟩
  have hp : 0 < a := by have := minTime_pos; rwa [ha] at this
  have hl : a < 20 := by have := minTime_lt_max; rwa [ha] at this
  unfold timePeriod
  rw [ha, maxTime_eq]
  exact max_min_clamp a 20 (ne_of_gt hp) (by norm_num) hl x

theorem sustainLevel_spec (x : F32) (hx : x ≠ negZero) : sustainLevel x = clampSpec zero one x := by
  cases x with
  | nan => simp [sustainLevel, clampSpec, fmax, fmin, mixedZeros, lt, zero, one]
  | inf s => cases s <;> simp [sustainLevel, clampSpec, fmax, fmin, mixedZeros, lt, zero, one]
  | fin q nz =>
    simp only [sustainLevel, clampSpec, fmax, zero, one, lt, mixedZeros]
    by_cases h0 : q = 0
    · subst h0
      cases nz
      · simp [fmin, mixedZeros, lt]
      · exact absurd rfl hx
    · have : (q == 0) = false := by simpa using h0
      simp only [this, Bool.false_and, Bool.false_eq_true, ↓reduceIte]
      by_cases h1 : q < 0
      · simp [h1, fmin, mixedZeros, lt]
      · by_cases h2 : (1:ℚ) < q
        · simp [h1, h2, fmin, mixedZeros, lt]
        · simp [h1, h2, fmin, mixedZeros, lt, this]

/-- the one value whose bit pattern changes although it is inside the range: `-0.0` becomes `+0.0` -/
theorem sustainLevel_negZero : sustainLevel negZero = zero := by decide +kernel

/-! ### consequences -/

theorem clampSpec_range {lo hi : F32} {a b : ℚ} (hlo : lo = .fin a false) (hhi : hi = .fin b false) (hab : a ≤ b)
    (x : F32) : (clampSpec lo hi x).isFin = true ∧ a ≤ (clampSpec lo hi x).val ∧ (clampSpec lo hi x).val ≤ b := by
  subst hlo hhi
  cases x with
  | nan => simp [clampSpec, hab]
  | inf s => cases s <;> simp [clampSpec, lt, hab]
  | fin q nz =>
    simp only [clampSpec, lt]
    by_cases h1 : q < a
    · simp [h1, hab]
    · by_cases h2 : b < q
      · simp [h1, h2, hab]
      · simp [h1, h2]; exact ⟨not_lt.mp h1, not_lt.mp h2⟩

/-- every f32 becomes a time in [0.001, 20] -/
theorem timePeriod_range (x : F32) :
    (timePeriod x).isFin = true ∧ minTime.val ≤ (timePeriod x).val ∧ (timePeriod x).val ≤ 20 := by
  rw [timePeriod_spec]
  exact clampSpec_range minTime_eq maxTime_eq (le_of_lt minTime_lt_max) x

/-- every f32 becomes a sustain level in [0, 1] -/
theorem sustainLevel_range (x : F32) :
    (sustainLevel x).isFin = true ∧ 0 ≤ (sustainLevel x).val ∧ (sustainLevel x).val ≤ 1 := by
  by_cases hx : x = negZero
  · subst hx; rw [sustainLevel_negZero]; simp [zero]
  · rw [sustainLevel_spec x hx]
    exact clampSpec_range (a := 0) (b := 1) rfl rfl (by norm_num) x

/-- a value already inside the range is unchanged (bit for bit) -/
theorem timePeriod_inside (x : F32) (h1 : le minTime x = true) (h2 : le x maxTime = true) : timePeriod x = x := by
  rw [timePeriod_spec, minTime_eq, maxTime_eq] at *
  cases x with
  | nan => simp [le] at h1
  | inf s => cases s <;> simp_all [le]
  | fin q nz =>
    simp only [le, decide_eq_true_eq] at h1 h2
    simp [clampSpec, lt, not_lt.mpr h1, not_lt.mpr h2]

theorem sustainLevel_inside (x : F32) (hx : x ≠ negZero) (h1 : le zero x = true) (h2 : le x one = true) :
    sustainLevel x = x := by
  rw [sustainLevel_spec x hx]
  cases x with
  | nan => simp [le, zero] at h1
  | inf s => cases s <;> simp_all [le, zero, one]
  | fin q nz =>
    simp only [le, zero, one, decide_eq_true_eq] at h1 h2
    simp [clampSpec, lt, zero, one, not_lt.mpr h1, not_lt.mpr h2]

/-- the nearer bound outside, and a bound for NaN -/
theorem timePeriod_outside (x : F32) :
    (lt x minTime = true → timePeriod x = minTime) ∧ (lt maxTime x = true → timePeriod x = maxTime) ∧
    (x = .nan → timePeriod x = minTime) := by
  rw [timePeriod_spec]
  refine ⟨?_, ?_, ?_⟩
  · intro h; cases x <;> simp_all [clampSpec]
  · intro h
    have hl := minTime_lt_max
    rw [minTime_eq, maxTime_eq] at *
    cases x with
    | nan => simp [lt] at h
    | inf s => cases s <;> simp_all [clampSpec, lt]
    | fin q nz =>
      simp only [lt, decide_eq_true_eq] at h
      simp only [val_fin] at hl
      have : ¬ q < minTime.val := by linarith
      simp [clampSpec, lt, this, h]
  · intro h; subst h; rfl

/-- configuring with any value is the same as configuring with its clamped value: conversion is idempotent,
so "configured with an out-of-range value" and "configured with the bound" are the same envelope state -/
theorem timePeriod_idem (x : F32) : timePeriod (timePeriod x) = timePeriod x := by
  obtain ⟨hf, h1, h2⟩ := timePeriod_range x
  apply timePeriod_inside
  · rw [minTime_eq]; cases h : timePeriod x <;> simp_all [le]
  · rw [maxTime_eq]; cases h : timePeriod x <;> simp_all [le]

theorem sustainLevel_idem (x : F32) : sustainLevel (sustainLevel x) = sustainLevel x := by
  obtain ⟨hf, h1, h2⟩ := sustainLevel_range x
  by_cases hz : sustainLevel x = negZero
  · -- impossible: the result is never -0
    exfalso
    by_cases hx : x = negZero
    · subst hx; rw [sustainLevel_negZero] at hz; exact absurd hz (by decide)
    · rw [sustainLevel_spec x hx] at hz
      cases x with
      | nan => simp [clampSpec, zero, negZero] at hz
      | inf s => cases s <;> simp [clampSpec, lt, zero, one, negZero] at hz
      | fin q nz =>
        simp only [clampSpec, lt, zero, one, negZero] at hz
        by_cases c1 : q < 0
        · simp [c1] at hz
        · by_cases c2 : (1:ℚ) < q
          · simp [c1, c2] at hz
          · simp only [c1, c2, decide_false, Bool.false_eq_true, ↓reduceIte, F32.fin.injEq] at hz
            obtain ⟨rfl, rfl⟩ := hz
            exact hx rfl
  · apply sustainLevel_inside _ hz
    · cases h : sustainLevel x <;> simp_all [le, zero]
    · cases h : sustainLevel x <;> simp_all [le, one]

theorem envelope_same_config (a : Adsr) (x : F32) :
    a.setInput (.attack (timePeriod x)) = a.setInput (.attack (timePeriod (timePeriod x))) ∧
    a.setInput (.sustain (sustainLevel x)) = a.setInput (.sustain (sustainLevel (sustainLevel x))) := by
  rw [timePeriod_idem, sustainLevel_idem]; exact ⟨rfl, rfl⟩

/-- scale note numbers above 11 act as 11 (all `u8` values and beyond) -/
theorem noteNew_clamp (n : Nat) : Quantizer.noteNew n = min n 11 := by
  unfold Quantizer.noteNew; split <;> omega

/-- MIDI channels above 15 act as 15 -/
theorem channel_clamp (c : Nat) : (Midi.new c).channel = min c 15 := rfl

/-- non-vacuity: a few concrete conversions -/
example : timePeriod (ofBits 0x42c80000) = maxTime ∧ timePeriod (ofBits 0) = minTime ∧
    timePeriod (ofBits 0x3f000000) = ofBits 0x3f000000 ∧ sustainLevel (ofBits 0xbf800000) = zero := by decide +kernel

end C20
