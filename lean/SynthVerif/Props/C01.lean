import SynthVerif.Props.AdsrSample
import SynthVerif.Props.C17
/-!
# C01 — ADSR envelope stays in [0,1] and follows the attack/decay/sustain/release shape

`AInv`: `C17.AOk` (geometry, rate, clamped times, counter inside 24 bits) plus: the sustain level, the two latched
levels and the output are finite binary32 values in [0,1].
* `inv_all_histories`: `AInv` holds after every history of gate-on / gate-off / tick / set_input with arbitrary
  binary32 parameter values — in particular **0 ≤ value ≤ 1 always**.
* `calc_value`: the output in each state as a function of the phase position: a blend `fl(fl(c·S) + L)` of the
  interpolated table sample `S` (`AdsrTab.sampleQ`), which is monotone over all 2^24 positions.
* `attack_monotone`, `decay_monotone`, `release_monotone`: between two ticks of the same phase with no event in
  between the output moves the right way, for every start level, sustain level, position and increment.
* `sustain_exact`, `rest_exact`, `decay_starts_at_one`, `release_ends_at_zero`: the exact levels of the property.
Curve fidelity against the documented RC curves (the 0.5 % clause) is proved in `C01Fidelity.lean`
(`C01.Fidelity.fidelity`, over the reals, with Mathlib's bounds on `exp`).
-/
namespace C01
open F32 AdsrTab AdsrL

/-! ### the blend `fl(fl(c·S) + L)`, `c = fl(1 − L)` -/

theorem rnd_one_plus : rnd (1 + 2 ^ (-25:ℤ)) = 1 := by decide +kernel
theorem rnd_one_minus : rnd (1 - 2 ^ (-25:ℤ)) = 1 := by decide +kernel

/-- the coefficient `fl(1 − L)` for a level in [0,1] -/
theorem coeff_range {L : ℚ} (h0 : 0 ≤ L) (h1 : L ≤ 1) :
    0 ≤ rnd (1 - L) ∧ rnd (1 - L) ≤ 1 ∧ |rnd (1 - L) + L - 1| ≤ 2 ^ (-25:ℤ) := by
  refine ⟨rnd_nonneg (by linarith), rnd_le_of_le (by linarith) rep_one, ?_⟩
  by_cases hz : L = 0
  · subst hz; simp [rnd_rep rep_one]
  · have hpos : 0 < L := lt_of_le_of_ne h0 (Ne.symm hz)
    have := rnd_err (x := 1 - L) (k := 0) (by norm_num) (by rw [abs_lt]; constructor <;> norm_num <;> linarith)
    have e : rnd (1 - L) + L - 1 = rnd (1 - L) - (1 - L) := by ring
    rw [e]; simpa using this

/-- `blend L S = fl(fl(fl(1−L)·S) + L)`: the attack and decay outputs -/
def blend (L S : ℚ) : ℚ := rnd (rnd (rnd (1 - L) * S) + L)

theorem blend_range {L S : ℚ} (h0 : 0 ≤ L) (h1 : L ≤ 1) (s0 : 0 ≤ S) (s1 : S ≤ 1) :
    0 ≤ blend L S ∧ blend L S ≤ 1 := by
  obtain ⟨c0, c1, ce⟩ := coeff_range h0 h1
  unfold blend
  set c := rnd (1 - L) with hc
  have p0 : 0 ≤ c * S := by positivity
  have p1 : c * S ≤ c := by nlinarith
  have r0 : 0 ≤ rnd (c * S) := rnd_nonneg p0
  have r1 : rnd (c * S) ≤ c := by
    calc rnd (c * S) ≤ rnd c := rnd_mono p1
      _ = c := by rw [hc]; exact rnd_idem _
  have ce' := abs_le.mp ce
  refine ⟨rnd_nonneg (by linarith), ?_⟩
  calc rnd (rnd (c * S) + L) ≤ rnd (1 + 2 ^ (-25:ℤ)) := rnd_mono (by linarith [ce'.2])
    _ = 1 := rnd_one_plus

/-- the blend never falls below the (binary32) level it blends towards -/
theorem blend_ge {L S : ℚ} (h1 : L ≤ 1) (s0 : 0 ≤ S) (hrep : rnd L = L) : L ≤ blend L S := by
  unfold blend
  have c0 : 0 ≤ rnd (1 - L) := rnd_nonneg (by linarith)
  have r0 : 0 ≤ rnd (rnd (1 - L) * S) := rnd_nonneg (by positivity)
  calc L = rnd L := hrep.symm
    _ ≤ rnd (rnd (rnd (1 - L) * S) + L) := rnd_mono (by linarith)

theorem blend_mono {L S S' : ℚ} (h1 : L ≤ 1) (hS : S ≤ S') : blend L S ≤ blend L S' := by
  unfold blend
  have c0 : 0 ≤ rnd (1 - L) := rnd_nonneg (by linarith)
  apply rnd_mono
  have := rnd_mono (mul_le_mul_of_nonneg_left hS c0)
  linarith

/-- full scale: at sample 1 the blend is exactly 1, whatever the level -/
theorem blend_top {L : ℚ} (h0 : 0 ≤ L) (h1 : L ≤ 1) : blend L 1 = 1 := by
  obtain ⟨c0, c1, ce⟩ := coeff_range h0 h1
  unfold blend
  rw [mul_one, rnd_idem]
  have ce' := abs_le.mp ce
  apply le_antisymm
  · calc rnd (rnd (1 - L) + L) ≤ rnd (1 + 2 ^ (-25:ℤ)) := rnd_mono (by linarith [ce'.2])
      _ = 1 := rnd_one_plus
  · calc (1:ℚ) = rnd (1 - 2 ^ (-25:ℤ)) := rnd_one_minus.symm
      _ ≤ rnd (rnd (1 - L) + L) := rnd_mono (by linarith [ce'.1])

/-- at sample 0 the blend returns the level itself (for a binary32 level) -/
theorem blend_bottom {L : ℚ} (hrep : rnd L = L) : blend L 0 = L := by
  unfold blend; simp [rnd_zero, hrep]

/-! ### the model's table sample is `sampleQ` -/

theorem attackAt_eq (i : ℕ) : attackAt i = ofBits (Gen.attackBitsL.getD i 0) := by simp [attackAt, Gen.attackBits]
theorem decayAt_eq (i : ℕ) : decayAt i = ofBits (Gen.decayBitsL.getD i 0) := by simp [decayAt, Gen.decayBits]

theorem attack_entry (i : ℕ) (hi : i ≤ 1023) :
    (ofBits (Gen.attackBitsL.getD i 0)).isFin = true ∧ 0 ≤ Aq i ∧ Aq i ≤ 1 := by
  have hr := attack_rising
  refine ⟨?_, by have := hr.table_mono 0 i (by omega) hi; linarith [hr.lo],
    by have := hr.table_mono i 1023 hi (le_refl _); linarith [hr.hi]⟩
  by_cases h : i < 1023
  · have := allPairs_get riseOk Gen.attackBitsL attack_cells i (by rw [attack_len]; omega)
    simp only [riseOk, Bool.and_eq_true] at this
    exact this.1.1.1.1.1
  · have : i = 1023 := by omega
    subst this; rw [attack_last]; rfl

theorem decay_entry (i : ℕ) (hi : i ≤ 1023) :
    (ofBits (Gen.decayBitsL.getD i 0)).isFin = true ∧ 0 ≤ Dq i ∧ Dq i ≤ 1 := by
  have hf := decay_falling
  refine ⟨?_, by have := hf.table_anti i 1023 hi (le_refl _); linarith [hf.lo],
    by have := hf.table_anti 0 i (by omega) hi; linarith [hf.hi]⟩
  by_cases h : i < 1023
  · have := allPairs_get fallOk Gen.decayBitsL decay_cells i (by rw [decay_len]; omega)
    simp only [fallOk, Bool.and_eq_true] at this
    exact this.1.1.1.1.1
  · have : i = 1023 := by omega
    subst this; rw [decay_last]; rfl

/-- the interpolated sample the model computes, for either table -/
theorem sample_val (a : Adsr) (h : C17.AOk a) (tbl : ℕ → F32) (bits : List ℕ) (T : ℕ → ℚ)
    (htbl : ∀ i, tbl i = ofBits (bits.getD i 0)) (hT : ∀ i, T i = (ofBits (bits.getD i 0)).val)
    (hent : ∀ i, i ≤ 1023 → (ofBits (bits.getD i 0)).isFin = true ∧ 0 ≤ T i ∧ T i ≤ 1) :
    (a.sample tbl).isFin = true ∧ (a.sample tbl).val = sampleQ T a.pa.acc := by
  have hi := PhaseAcc.index_lt a.pa h.tb h.ib h.acc
  have hidx : a.pa.index = a.pa.acc / 2 ^ 14 := by unfold PhaseAcc.index; rw [h.tb, h.ib]
  obtain ⟨f1, f2⟩ := PhaseAcc.fraction_exact a.pa h.tb h.ib
  obtain ⟨fr0, fr1⟩ := frac_range a.pa.acc
  have hj : min (a.pa.index + 1) 1023 ≤ 1023 := by omega
  obtain ⟨e1, e2, e3⟩ := hent a.pa.index (by omega)
  obtain ⟨g1, g2, g3⟩ := hent (min (a.pa.index + 1) 1023) hj
  unfold Adsr.sample
  simp only [adsr_bits.2.2, htbl]
  have hmin : min (a.pa.index + 1) (1024 - 1) = min (a.pa.index + 1) 1023 := by norm_num
  rw [hmin]
  rw [hT] at e2 e3 g2 g3
  obtain ⟨v1, v2⟩ := linearInterp_val (y0 := ofBits (bits.getD a.pa.index 0))
    (y1 := ofBits (bits.getD (min (a.pa.index + 1) 1023) 0)) (f := a.pa.fraction) e1 g1 f1
    (by rw [abs_le]; constructor <;> linarith) (by rw [abs_le]; constructor <;> linarith)
    (by rw [f2]; exact fr0) (by rw [f2]; exact fr1)
  refine ⟨v1, ?_⟩
  rw [v2, f2]
  unfold sampleQ interpQ
  rw [← hidx, hT, hT]

theorem attack_sample (a : Adsr) (h : C17.AOk a) :
    (a.sample attackAt).isFin = true ∧ (a.sample attackAt).val = sampleQ Aq a.pa.acc :=
  sample_val a h attackAt Gen.attackBitsL Aq attackAt_eq (fun _ => rfl) attack_entry

theorem decay_sample (a : Adsr) (h : C17.AOk a) :
    (a.sample decayAt).isFin = true ∧ (a.sample decayAt).val = sampleQ Dq a.pa.acc :=
  sample_val a h decayAt Gen.decayBitsL Dq decayAt_eq (fun _ => rfl) decay_entry

/-! ### the invariant -/

/-- a level: finite binary32 value in [0,1] -/
def Level (x : F32) : Prop := x.isFin = true ∧ 0 ≤ x.val ∧ x.val ≤ 1 ∧ rnd x.val = x.val

structure AInv (a : Adsr) : Prop where
  ok : C17.AOk a
  sus : Level a.sustain
  on : Level a.onLevel
  off : Level a.offLevel
  val : Level a.value

theorem level_zero : Level zero := ⟨rfl, by simp [zero], by simp [zero], by simp [zero, rnd_zero]⟩
theorem level_one : Level one := ⟨rfl, by simp [one], by simp [one], by simpa [one] using rnd_rep rep_one⟩

/-- the model's blend `coefficient * sample + offset` with `coefficient = 1 − L`, `offset = L` -/
theorem blend_val (L S : F32) (hL : Level L) (hS : S.isFin = true) (s0 : 0 ≤ S.val) (s1 : S.val ≤ 1) :
    (add (mul (sub one L) S) L).isFin = true ∧ (add (mul (sub one L) S) L).val = blend L.val S.val := by
  obtain ⟨l1, l2, l3, _⟩ := hL
  obtain ⟨c0, c1, _⟩ := coeff_range l2 l3
  have small : ∀ u : ℚ, |u| ≤ 2 → |u| ≤ 2 ^ (127:ℤ) := fun u hu => le_trans hu (by norm_num)
  have o1 : one.val = 1 := rfl
  obtain ⟨x1, x2⟩ := val_sub (by rfl : one.isFin = true) l1 (small _ (by rw [o1, abs_le]; constructor <;> linarith))
  rw [o1] at x2
  have p0 : 0 ≤ rnd (1 - L.val) * S.val := by positivity
  have p1 : rnd (1 - L.val) * S.val ≤ 1 := by nlinarith
  obtain ⟨m1, m2⟩ := val_mul x1 hS (small _ (by rw [x2, abs_of_nonneg p0]; linarith))
  rw [x2] at m2
  have r0 : 0 ≤ rnd (rnd (1 - L.val) * S.val) := rnd_nonneg p0
  have r1 : rnd (rnd (1 - L.val) * S.val) ≤ 1 := rnd_le_of_le p1 rep_one
  obtain ⟨a1, a2⟩ := val_add m1 l1 (small _ (by rw [m2, abs_of_nonneg (by linarith)]; linarith))
  rw [m2] at a2
  exact ⟨a1, a2⟩

/-- the release output `fl(fl(off · S) + 0)` -/
theorem release_val (L S : F32) (hL : Level L) (hS : S.isFin = true) (s0 : 0 ≤ S.val) (s1 : S.val ≤ 1) :
    (add (mul L S) zero).isFin = true ∧ (add (mul L S) zero).val = rnd (L.val * S.val) := by
  obtain ⟨l1, l2, l3, _⟩ := hL
  have p0 : 0 ≤ L.val * S.val := by positivity
  have p1 : L.val * S.val ≤ 1 := by nlinarith
  obtain ⟨m1, m2⟩ := val_mul l1 hS (by rw [abs_of_nonneg p0]; exact le_trans p1 (by norm_num))
  have r0 : 0 ≤ rnd (L.val * S.val) := rnd_nonneg p0
  have r1 : rnd (L.val * S.val) ≤ 1 := rnd_le_of_le p1 rep_one
  have z0 : zero.val = 0 := rfl
  obtain ⟨a1, a2⟩ := val_add m1 (by rfl : zero.isFin = true)
    (by rw [m2, z0, add_zero, abs_of_nonneg r0]; exact le_trans r1 (by norm_num))
  rw [m2, z0, add_zero, rnd_idem] at a2
  exact ⟨a1, a2⟩

/-- **`calc_value()` in every state**, as a function of the latched levels and the phase position -/
theorem calc_value (a : Adsr) (h : AInv a) :
    a.calcValue.isFin = true ∧
    a.calcValue.val = (match a.state with
      | .attack => blend a.onLevel.val (sampleQ Aq a.pa.acc)
      | .decay => blend a.sustain.val (sampleQ Dq a.pa.acc)
      | .sustain => a.sustain.val
      | .release => rnd (a.offLevel.val * sampleQ Dq a.pa.acc)
      | .atRest => 0) := by
  obtain ⟨sa1, sa2⟩ := attack_sample a h.ok
  obtain ⟨sd1, sd2⟩ := decay_sample a h.ok
  obtain ⟨ra0, ra1⟩ := attack_rising.sample_range a.pa.acc h.ok.acc
  obtain ⟨rd0, rd1⟩ := decay_falling.sample_range a.pa.acc h.ok.acc
  unfold Adsr.calcValue
  cases hs : a.state <;> simp only
  · -- at rest
    have : add (mul zero zero) zero = zero := by decide +kernel
    rw [this]; exact ⟨rfl, rfl⟩
  · have := blend_val a.onLevel (a.sample attackAt) h.on sa1 (by rw [sa2]; exact ra0) (by rw [sa2]; exact ra1)
    rw [sa2] at this; exact this
  · have := blend_val a.sustain (a.sample decayAt) h.sus sd1 (by rw [sd2]; exact rd0) (by rw [sd2]; exact rd1)
    rw [sd2] at this; exact this
  · -- sustain: 1.0 * s + 0.0
    obtain ⟨s1, s2, s3, s4⟩ := h.sus
    have := release_val one a.sustain level_one s1 s2 s3
    have o1 : one.val = 1 := rfl
    rw [o1, one_mul, s4] at this
    exact this
  · have := release_val a.offLevel (a.sample decayAt) h.off sd1 (by rw [sd2]; exact rd0) (by rw [sd2]; exact rd1)
    rw [sd2] at this; exact this

/-- the output is a level in every state -/
theorem calc_level (a : Adsr) (h : AInv a) : Level a.calcValue := by
  obtain ⟨f, v⟩ := calc_value a h
  obtain ⟨ra0, ra1⟩ := attack_rising.sample_range a.pa.acc h.ok.acc
  obtain ⟨rd0, rd1⟩ := decay_falling.sample_range a.pa.acc h.ok.acc
  refine ⟨f, ?_⟩
  rw [v]
  cases hs : a.state <;> simp only
  · exact ⟨le_refl _, by norm_num, rnd_zero⟩
  · obtain ⟨b0, b1⟩ := blend_range h.on.2.1 h.on.2.2.1 ra0 ra1
    exact ⟨b0, b1, by unfold blend; exact rnd_idem _⟩
  · obtain ⟨b0, b1⟩ := blend_range h.sus.2.1 h.sus.2.2.1 rd0 rd1
    exact ⟨b0, b1, by unfold blend; exact rnd_idem _⟩
  · exact ⟨h.sus.2.1, h.sus.2.2.1, h.sus.2.2.2⟩
  · have p0 : 0 ≤ a.offLevel.val * sampleQ Dq a.pa.acc := mul_nonneg h.off.2.1 rd0
    have p1 : a.offLevel.val * sampleQ Dq a.pa.acc ≤ 1 := by nlinarith [h.off.2.2.1, h.off.2.1]
    exact ⟨rnd_nonneg p0, rnd_le_of_le p1 rep_one, rnd_idem _⟩

/-! ### the invariant holds in every history -/

theorem sustainLevel_level (x : F32) (hx : Rep x.val) : Level (sustainLevel x) := by
  obtain ⟨f, v0, v1⟩ := C20.sustainLevel_range x
  refine ⟨f, v0, v1, ?_⟩
  by_cases hz : x = negZero
  · subst hz; rw [C20.sustainLevel_negZero]; simp [zero, rnd_zero]
  · rw [C20.sustainLevel_spec x hz]
    unfold C20.clampSpec
    split
    · simp [zero, rnd_zero]
    · split
      · simp [zero, rnd_zero]
      · split
        · simpa [one] using rnd_rep rep_one
        · exact rnd_rep hx

theorem new_inv (sr : F32) (h : RateOk sr) : AInv (Adsr.new sr) := by
  refine ⟨C17.new_ok sr h, ?_, level_zero, level_zero, level_zero⟩
  show Level (sustainLevel one)
  have : sustainLevel one = one := by decide +kernel
  rw [this]; exact level_one

/-- `tick` recomputes the output from the (possibly advanced) state and leaves the levels alone -/
theorem tick_fields (a a' : Adsr) (h : a.tick = some a') :
    a'.onLevel = a.onLevel ∧ a'.offLevel = a.offLevel ∧ a'.sustain = a.sustain ∧
    a'.value = ({ a' with value := a.value } : Adsr).calcValue := by
  unfold Adsr.tick at h
  split at h
  · split at h
    · simp at h
    · simp only [Option.some.injEq] at h
      subst h
      dsimp only
      split <;> exact ⟨rfl, rfl, rfl, rfl⟩
  · simp only [Option.some.injEq] at h
    subst h; exact ⟨rfl, rfl, rfl, rfl⟩

theorem tick_inv (a : Adsr) (h : AInv a) : ∃ a', a.tick = some a' ∧ AInv a' := by
  obtain ⟨a', e, ok'⟩ := C17.tick_ok a h.ok
  obtain ⟨f1, f2, f3, f4⟩ := tick_fields a a' e
  refine ⟨a', e, ?_⟩
  -- the state `a'` with the old output still in place satisfies the invariant, so its recomputed output is a level
  have hpre : AInv ({ a' with value := a.value } : Adsr) :=
    ⟨⟨ok'.tb, ok'.ib, ok'.rate, ok'.acc, ok'.rolled, ok'.att, ok'.dec, ok'.rel⟩,
      by show Level a'.sustain; rw [f3]; exact h.sus, by show Level a'.onLevel; rw [f1]; exact h.on,
      by show Level a'.offLevel; rw [f2]; exact h.off, h.val⟩
  exact ⟨ok', by rw [f3]; exact h.sus, by rw [f1]; exact h.on, by rw [f2]; exact h.off, by rw [f4]; exact calc_level _ hpre⟩

theorem step_inv (a : Adsr) (h : AInv a) (o : C17.Op) (hw : C17.opWf o) : ∃ a', C17.step a o = some a' ∧ AInv a' := by
  cases o with
  | tick => exact tick_inv a h
  | gateOn =>
    refine ⟨_, rfl, C17.gateOn_ok a h.ok, ?_, ?_, ?_, ?_⟩ <;> (unfold Adsr.gateOn; split) <;>
      first | exact h.sus | exact h.on | exact h.off | exact h.val
  | gateOff =>
    refine ⟨_, rfl, C17.gateOff_ok a h.ok, ?_, ?_, ?_, ?_⟩ <;> (unfold Adsr.gateOff; split) <;>
      first | exact h.sus | exact h.on | exact h.off | exact h.val
  | setAttack x =>
    obtain ⟨a1, e1, ok1⟩ := C17.step_ok a h.ok (.setAttack x) hw
    simp only [C17.step, Option.some.injEq] at e1; subst e1
    exact ⟨_, rfl, ok1, h.sus, h.on, h.off, h.val⟩
  | setDecay x =>
    obtain ⟨a1, e1, ok1⟩ := C17.step_ok a h.ok (.setDecay x) hw
    simp only [C17.step, Option.some.injEq] at e1; subst e1
    exact ⟨_, rfl, ok1, h.sus, h.on, h.off, h.val⟩
  | setRelease x =>
    obtain ⟨a1, e1, ok1⟩ := C17.step_ok a h.ok (.setRelease x) hw
    simp only [C17.step, Option.some.injEq] at e1; subst e1
    exact ⟨_, rfl, ok1, h.sus, h.on, h.off, h.val⟩
  | setSustain x =>
    obtain ⟨a1, e1, ok1⟩ := C17.step_ok a h.ok (.setSustain x) hw
    simp only [C17.step, Option.some.injEq] at e1; subst e1
    exact ⟨_, rfl, ok1, sustainLevel_level x hw, h.on, h.off, h.val⟩

/-- **C01, range**: for a sample rate in [100 Hz, 192 kHz] and any binary32 parameter values, after every history
of gate-on / gate-off / tick / set_input calls the envelope value is a finite number in [0, 1] -/
theorem inv_all_histories (sr : F32) (hsr : RateOk sr) (ops : List C17.Op) (hw : ∀ o ∈ ops, C17.opWf o) :
    ∃ a', C17.run (Adsr.new sr) ops = some a' ∧ AInv a' ∧ 0 ≤ a'.value.val ∧ a'.value.val ≤ 1 := by
  suffices h : ∀ a, AInv a → ∃ a', C17.run a ops = some a' ∧ AInv a' by
    obtain ⟨a', e, i⟩ := h _ (new_inv sr hsr)
    exact ⟨a', e, i, i.val.2.1, i.val.2.2.1⟩
  induction ops with
  | nil => intro a h; exact ⟨a, rfl, h⟩
  | cons o os ih =>
    intro a h
    obtain ⟨a1, e1, h1⟩ := step_inv a h o (hw o (by simp))
    obtain ⟨a2, e2, h2⟩ := ih (fun x hx => hw x (by simp [hx])) a1 h1
    have : C17.run a (o :: os) = (match C17.step a o with | none => none | some a' => C17.run a' os) := rfl
    exact ⟨a2, by rw [this, e1]; exact e2, h2⟩

/-! ### per-phase monotonicity and the exact levels -/

/-- the output of a state produced by `tick`, in terms of that state -/
theorem tick_value (a a' : Adsr) (h : AInv a) (e : a.tick = some a') :
    AInv a' ∧ a'.value.val = (match a'.state with
      | .attack => blend a'.onLevel.val (sampleQ Aq a'.pa.acc)
      | .decay => blend a'.sustain.val (sampleQ Dq a'.pa.acc)
      | .sustain => a'.sustain.val
      | .release => rnd (a'.offLevel.val * sampleQ Dq a'.pa.acc)
      | .atRest => 0) := by
  obtain ⟨a'', e', inv'⟩ := tick_inv a h
  rw [e] at e'; simp only [Option.some.injEq] at e'; subst e'
  obtain ⟨f1, f2, f3, f4⟩ := tick_fields a a' e
  have hpre : AInv ({ a' with value := a.value } : Adsr) :=
    ⟨⟨inv'.ok.tb, inv'.ok.ib, inv'.ok.rate, inv'.ok.acc, inv'.ok.rolled, inv'.ok.att, inv'.ok.dec, inv'.ok.rel⟩,
      inv'.sus, inv'.on, inv'.off, h.val⟩
  refine ⟨inv', ?_⟩
  rw [f4]; exact (calc_value _ hpre).2

/-- two consecutive ticks, the second of which neither leaves the phase nor is preceded by an event:
the phase position does not move backwards and the levels are the same -/
structure SamePhase (a1 a2 : Adsr) : Prop where
  state : a2.state = a1.state
  acc : a1.pa.acc ≤ a2.pa.acc
  on : a2.onLevel = a1.onLevel
  off : a2.offLevel = a1.offLevel
  sus : a2.sustain = a1.sustain

/-- a tick that stays in its timed phase is such a step -/
theorem tick_same_phase (a a' : Adsr) (h : AInv a) (e : a.tick = some a') (ht : a.state.timed = true)
    (hs : a'.state = a.state) : SamePhase a a' := by
  obtain ⟨f1, f2, f3, _⟩ := tick_fields a a' e
  obtain ⟨i1, i2⟩ := C17.inc_ok a h.ok
  have hacc := h.ok.acc
  obtain ⟨a'', e', _, _, _, hcase⟩ := C02.tick_timed a ht h.ok.rolled (by omega)
  rw [e] at e'; simp only [Option.some.injEq] at e'; subst e'
  refine ⟨hs, ?_, f1, f2, f3⟩
  split at hcase
  · -- rolled over: the state would have advanced
    exfalso
    have := hcase.1
    rw [hs] at this
    cases hst : a.state <;> simp [hst, AdsrState.next, AdsrState.timed] at this ht
  · rw [hcase.2]; omega

/-- **attack: non-decreasing** -/
theorem attack_monotone (a0 a1 a2 : Adsr) (h0 : AInv a0) (e1 : a0.tick = some a1) (e2 : a1.tick = some a2)
    (s1 : a1.state = .attack) (s2 : a2.state = .attack) : a1.value.val ≤ a2.value.val := by
  obtain ⟨i1, v1⟩ := tick_value a0 a1 h0 e1
  obtain ⟨i2, v2⟩ := tick_value a1 a2 i1 e2
  have sp := tick_same_phase a1 a2 i1 e2 (by rw [s1]; rfl) (by rw [s1, s2])
  rw [v1, v2, s1, s2]; simp only
  rw [sp.on]
  exact blend_mono i1.on.2.2.1 (attack_rising.sample_mono _ _ sp.acc i2.ok.acc)

/-- **decay: non-increasing**, and never below the sustain level -/
theorem decay_monotone (a0 a1 a2 : Adsr) (h0 : AInv a0) (e1 : a0.tick = some a1) (e2 : a1.tick = some a2)
    (s1 : a1.state = .decay) (s2 : a2.state = .decay) :
    a2.value.val ≤ a1.value.val ∧ a2.sustain.val ≤ a2.value.val := by
  obtain ⟨i1, v1⟩ := tick_value a0 a1 h0 e1
  obtain ⟨i2, v2⟩ := tick_value a1 a2 i1 e2
  have sp := tick_same_phase a1 a2 i1 e2 (by rw [s1]; rfl) (by rw [s1, s2])
  rw [v1, v2, s1, s2]; simp only
  obtain ⟨rd0, _⟩ := decay_falling.sample_range a2.pa.acc i2.ok.acc
  refine ⟨?_, blend_ge i2.sus.2.2.1 rd0 i2.sus.2.2.2⟩
  rw [sp.sus]
  exact blend_mono i1.sus.2.2.1 (decay_falling.sample_anti _ _ sp.acc i2.ok.acc)

/-- **release: non-increasing** -/
theorem release_monotone (a0 a1 a2 : Adsr) (h0 : AInv a0) (e1 : a0.tick = some a1) (e2 : a1.tick = some a2)
    (s1 : a1.state = .release) (s2 : a2.state = .release) : a2.value.val ≤ a1.value.val := by
  obtain ⟨i1, v1⟩ := tick_value a0 a1 h0 e1
  obtain ⟨i2, v2⟩ := tick_value a1 a2 i1 e2
  have sp := tick_same_phase a1 a2 i1 e2 (by rw [s1]; rfl) (by rw [s1, s2])
  rw [v1, v2, s1, s2]; simp only
  rw [sp.off]
  apply rnd_mono
  exact mul_le_mul_of_nonneg_left (decay_falling.sample_anti _ _ sp.acc i2.ok.acc) i1.off.2.1

/-- **sustain**: exactly the sustain level; **rest**: exactly 0 -/
theorem sustain_exact (a a' : Adsr) (h : AInv a) (e : a.tick = some a') (s : a'.state = .sustain) :
    a'.value.val = a'.sustain.val := by
  obtain ⟨_, v⟩ := tick_value a a' h e
  rw [v, s]

theorem rest_exact (a a' : Adsr) (h : AInv a) (e : a.tick = some a') (s : a'.state = .atRest) :
    a'.value.val = 0 := by
  obtain ⟨_, v⟩ := tick_value a a' h e
  rw [v, s]

theorem sampleD_zero : sampleQ Dq 0 = 1 := by
  unfold sampleQ
  simp only [Nat.zero_div, Nat.zero_mod, Nat.cast_zero, zero_div]
  rw [interpQ_zero (decay_falling.rep 0)]
  unfold Dq; rw [decay_first]; rfl

/-- **the decay starts at exactly 1.0** (the attack therefore tops out at exactly 1.0), for every sustain level -/
theorem decay_starts_at_one (a a' : Adsr) (h : AInv a) (e : a.tick = some a') (s : a'.state = .decay)
    (hacc : a'.pa.acc = 0) : a'.value.val = 1 := by
  obtain ⟨i', v⟩ := tick_value a a' h e
  rw [v, s]; simp only
  rw [hacc, sampleD_zero]
  exact blend_top i'.sus.2.1 i'.sus.2.2.1

/-- in the last table cell of the attack the output is exactly 1.0, from every start level -/
theorem attack_top (a a' : Adsr) (h : AInv a) (e : a.tick = some a') (s : a'.state = .attack)
    (hcell : a'.pa.acc / 2 ^ 14 = 1023) : a'.value.val = 1 := by
  obtain ⟨i', v⟩ := tick_value a a' h e
  rw [v, s]; simp only
  have hs : sampleQ Aq a'.pa.acc = 1 := by
    unfold sampleQ
    rw [hcell]
    have e' : min (1023 + 1) 1023 = 1023 := by norm_num
    rw [e']
    have : Aq 1023 = 1 := by unfold Aq; rw [attack_last]; rfl
    unfold interpQ; rw [this]; simp [rnd_zero, rnd_rep rep_one]
  rw [hs]
  exact blend_top i'.on.2.1 i'.on.2.2.1

/-- every attack value is at most 1, every decay/release value at most the level it started from -/
theorem attack_le_one (a a' : Adsr) (h : AInv a) (e : a.tick = some a') : a'.value.val ≤ 1 :=
  (tick_value a a' h e).1.val.2.2.1

/-- non-vacuity: 1 kHz, attack 3 ms, sustain 0.5: gate-on and four ticks end in decay at exactly 1.0 -/
example : (C17.run (Adsr.new (ofBits 0x447a0000))
    [.setAttack (ofBits 0x3b449ba6), .setSustain (ofBits 0x3f000000), .gateOn, .tick, .tick, .tick, .tick]).map
    (fun a => (a.state.toNat, toBits a.value)) = some (2, 0x3f800000) := by decide +kernel

end C01
