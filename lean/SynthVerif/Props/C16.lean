import SynthVerif.Props.C15
import SynthVerif.Props.Interp
/-!
# C16 — Ribbon position is the average of the current press only

* `window_is_current_run`: whenever the position is recomputed (the buffer holds `capacity` samples written during
  the current unbroken run), the averaged window is `take (capacity − discard)` of the **last `capacity` samples
  written in the current run** — no sample of an earlier press, none of the `discard` newest samples.
* `fsum_mono`: the f32 sum (and hence the average) does not decrease when any contributing sample increases.
* `value_range`: `0 ≤ value() ≤ 1` for samples in [0, 1], a boundary in (0, 1] and a correction constant in [0, 1]
  (pull-up ≥ divider resistance).
* `retained`: a poll that does not recompute the position (out of range, or buffer not yet full) leaves `value()`
  unchanged.
The correction `a − (a − a²)·K` is monotone as a real function for `K ≤ 1`; its f32 evaluation is monotone only up
to an ulp.  `C16Bounds.lean` proves "between the corrected minimum and maximum" and the monotonicity with that explicit
slack (`corrected_between`, `position_mono`).
-/
namespace C16
open F32

/-! ### the f32 sum is monotone in every summand -/

/-- a sample as documented: finite, in [0, 1] -/
def Unit01 (x : F32) : Prop := x.isFin = true ∧ 0 ≤ x.val ∧ x.val ≤ 1

/-- partial sums of samples in [0,1] stay finite and bounded by the number of terms -/
theorem fold_bounded (xs : List F32) (hx : ∀ x ∈ xs, Unit01 x) (a : F32) (m : ℕ) (ha : a.isFin = true)
    (ha0 : 0 ≤ a.val) (ham : a.val ≤ m) (hm : m + xs.length < 2 ^ 24) :
    (xs.foldl add a).isFin = true ∧ 0 ≤ (xs.foldl add a).val ∧ (xs.foldl add a).val ≤ (m + xs.length : ℕ) := by
  induction xs generalizing a m with
  | nil => simpa using ⟨ha, ha0, ham⟩
  | cons x xs ih =>
    obtain ⟨xf, x0, x1⟩ := hx x (by simp)
    have hlen : m + 1 + xs.length < 2 ^ 24 := by simp at hm; omega
    have hm' : ((m:ℚ)) + 1 < 2 ^ 24 := by
      have : m + 1 < 2 ^ 24 := by omega
      exact_mod_cast this
    have hsum : |a.val + x.val| ≤ 2 ^ (127:ℤ) := by
      rw [abs_of_nonneg (by linarith)]
      calc a.val + x.val ≤ m + 1 := by linarith
        _ ≤ 2 ^ 24 := le_of_lt hm'
        _ ≤ 2 ^ (127:ℤ) := by norm_num
    obtain ⟨s1, s2⟩ := val_add ha xf hsum
    have hrep : Rep (((m + 1 : ℕ) : ℤ) : ℚ) := rep_int (by
      rw [abs_of_nonneg (by positivity)]
      have : m + 1 < 2 ^ 24 := by omega
      exact_mod_cast this)
    have hup : (add a x).val ≤ ((m + 1 : ℕ) : ℚ) := by
      rw [s2]
      have := rnd_le_of_le (x := a.val + x.val) (r := (((m + 1 : ℕ) : ℤ) : ℚ)) (by push_cast; linarith) hrep
      simpa using this
    have hlo : 0 ≤ (add a x).val := by rw [s2]; exact rnd_nonneg (by linarith)
    have := ih (fun y hy => hx y (by simp [hy])) (add a x) (m + 1) s1 hlo hup hlen
    simp only [List.foldl_cons, List.length_cons]
    have e : m + 1 + xs.length = m + (xs.length + 1) := by omega
    rw [e] at this
    exact this

/-- **monotone**: raising any of the summands (and/or the start value) never lowers the f32 sum -/
theorem fold_mono (xs ys : List F32) (h : List.Forall₂ (fun x y => x.val ≤ y.val) xs ys)
    (hx : ∀ x ∈ xs, Unit01 x) (hy : ∀ y ∈ ys, Unit01 y) (a b : F32) (m : ℕ)
    (ha : a.isFin = true) (hb : b.isFin = true) (ha0 : 0 ≤ a.val) (hab : a.val ≤ b.val) (hbm : b.val ≤ m)
    (hm : m + xs.length < 2 ^ 24) :
    (xs.foldl add a).val ≤ (ys.foldl add b).val := by
  induction h generalizing a b m with
  | nil => simpa using hab
  | cons hxy hrest ih =>
    rename_i x y xs' ys'
    obtain ⟨xf, x0, x1⟩ := hx x (by simp)
    obtain ⟨yf, y0, y1⟩ := hy y (by simp)
    have hm1 : m + 1 < 2 ^ 24 := by simp at hm; omega
    have hmq : ((m:ℚ)) + 1 < 2 ^ 24 := by exact_mod_cast hm1
    have big : ∀ u w : ℚ, 0 ≤ u → u ≤ m → 0 ≤ w → w ≤ 1 → |u + w| ≤ 2 ^ (127:ℤ) := by
      intro u w hu0 hum hw0 hw1
      rw [abs_of_nonneg (by linarith)]
      calc u + w ≤ m + 1 := by linarith
        _ ≤ 2 ^ 24 := le_of_lt hmq
        _ ≤ 2 ^ (127:ℤ) := by norm_num
    obtain ⟨s1, s2⟩ := val_add ha xf (big _ _ ha0 (by linarith) x0 x1)
    obtain ⟨t1, t2⟩ := val_add hb yf (big _ _ (by linarith) hbm y0 y1)
    have hstep : (add a x).val ≤ (add b y).val := by rw [s2, t2]; exact rnd_mono (by linarith)
    have hrep : Rep (((m + 1 : ℕ) : ℤ) : ℚ) := rep_int (by
      rw [abs_of_nonneg (by positivity)]; exact_mod_cast hm1)
    have hup : (add b y).val ≤ ((m + 1 : ℕ) : ℚ) := by
      rw [t2]
      have := rnd_le_of_le (x := b.val + y.val) (r := (((m + 1 : ℕ) : ℤ) : ℚ)) (by push_cast; linarith) hrep
      simpa using this
    have hlo : 0 ≤ (add a x).val := by rw [s2]; exact rnd_nonneg (by linarith)
    simp only [List.foldl_cons]
    exact ih (fun z hz => hx z (by simp [hz])) (fun z hz => hy z (by simp [hz])) (add a x) (add b y) (m + 1)
      s1 t1 hlo hstep hup (by simp at hm ⊢; omega)

theorem sumInit : ofBits Gen.sumInitBits = .fin 0 true := by decide +kernel

/-- `Iterator::sum` of samples in [0,1] is monotone in every sample -/
theorem fsum_mono (xs ys : List F32) (h : List.Forall₂ (fun x y => x.val ≤ y.val) xs ys)
    (hx : ∀ x ∈ xs, Unit01 x) (hy : ∀ y ∈ ys, Unit01 y) (hn : xs.length < 2 ^ 24) :
    (Ribbon.fsum xs).val ≤ (Ribbon.fsum ys).val := by
  unfold Ribbon.fsum
  rw [sumInit]
  exact fold_mono xs ys h hx hy _ _ 0 rfl rfl (by simp) (by simp) (by simp) (by simpa using hn)

/-! ### the averaged window holds samples of the current press only -/

/-- the last `k` elements of a list -/
def lastN (k : ℕ) (l : List F32) : List F32 := l.drop (l.length - k)

theorem lastN_length (k : ℕ) (l : List F32) : (lastN k l).length = min l.length k := by
  simp [lastN]; omega

theorem lastN_append_of_le (k : ℕ) (pre run : List F32) (h : k ≤ run.length) : lastN k (pre ++ run) = lastN k run := by
  unfold lastN
  rw [List.length_append]
  have e1 : pre.length + run.length - k = pre.length + (run.length - k) := by omega
  rw [e1, List.drop_length_add_append]

/-- writing to the bounded queue keeps "the last `cap` of everything written" -/
theorem write_lastN (b : HistBuf) (w : List F32) (x : F32) (hcap : 1 ≤ b.cap) (h : b.items = lastN b.cap w) :
    (b.write x).items = lastN b.cap (w ++ [x]) ∧ (b.write x).cap = b.cap := by
  have hl := lastN_length b.cap w
  unfold HistBuf.write
  by_cases hlt : b.items.length < b.cap
  · rw [if_pos hlt]
    refine ⟨?_, rfl⟩
    show b.items ++ [x] = lastN b.cap (w ++ [x])
    rw [h] at hlt ⊢
    rw [hl] at hlt
    have hw : w.length < b.cap := by omega
    unfold lastN
    have e1 : w.length - b.cap = 0 := by omega
    have e2 : (w ++ [x]).length - b.cap = 0 := by simp; omega
    rw [e1, e2]; simp
  · rw [if_neg hlt]
    refine ⟨?_, rfl⟩
    show b.items.tail ++ [x] = lastN b.cap (w ++ [x])
    rw [h] at hlt ⊢
    rw [hl] at hlt
    have hw : b.cap ≤ w.length := by omega
    unfold lastN
    have e2 : (w ++ [x]).length - b.cap = (w.length - b.cap) + 1 := by simp; omega
    rw [e2, List.drop_append_of_le_length (by omega), List.tail_drop]

/-- ghost state: `run` = the samples written to the buffer during the current unbroken in-range run,
`all` = everything ever written -/
structure Ghost (r : Ribbon) (all run : List F32) : Prop where
  cap : 1 ≤ r.buff.cap
  items : r.buff.items = lastN r.buff.cap all
  suffix : ∃ pre, all = pre ++ run
  written : r.written = min run.length r.buff.cap

/-- **window identity.**  If an in-range poll recomputes the position (the write counter reaches the capacity), the
list it averages is the oldest `capacity − discard` of the last `capacity` samples written **in the current run**. -/
theorem window_is_current_run (r : Ribbon) (all run : List F32) (g : Ghost r all run) (x : F32)
    (hin : lt x r.boundary = true) (hign : r.ignore ≤ min (r.received + 1) r.ignore)
    (hfull : min (r.written + 1) r.buff.cap = r.buff.cap) :
    ((r.buff.write x).oldestOrdered).take (r.buff.cap - r.discard) =
      (lastN r.buff.cap (run ++ [x])).take (r.buff.cap - r.discard) ∧
    Ghost { r with buff := r.buff.write x, written := min (r.written + 1) r.buff.cap } (all ++ [x]) (run ++ [x]) := by
  obtain ⟨hcap, hitems, ⟨pre, hpre⟩, hwr⟩ := g
  obtain ⟨hw1, hw2⟩ := write_lastN r.buff all x hcap hitems
  have hrunlen : r.buff.cap ≤ (run ++ [x]).length := by
    simp only [List.length_append, List.length_singleton]
    rw [hwr] at hfull; omega
  have heq : lastN r.buff.cap (all ++ [x]) = lastN r.buff.cap (run ++ [x]) := by
    rw [hpre, List.append_assoc]; exact lastN_append_of_le _ _ _ hrunlen
  refine ⟨by show (r.buff.write x).items.take _ = _; rw [hw1, heq], ?_⟩
  refine ⟨by show 1 ≤ (r.buff.write x).cap; rw [hw2]; exact hcap, by show (r.buff.write x).items = lastN (r.buff.write x).cap (all ++ [x]); rw [hw2]; exact hw1,
    ⟨pre, by rw [hpre, List.append_assoc]⟩, ?_⟩
  show min (r.written + 1) r.buff.cap = min (run ++ [x]).length (r.buff.write x).cap
  rw [hw2, hwr]; simp; omega

/-- an out-of-range poll ends the run: the ghost run restarts empty -/
theorem ghost_out (r : Ribbon) (all run : List F32) (g : Ghost r all run) (x : F32) (hin : lt x r.boundary = false) :
    ∃ r', r.poll x = some r' ∧ Ghost r' all [] ∧ r'.current = r.current := by
  unfold Ribbon.poll
  simp only [hin, Bool.false_eq_true, ↓reduceIte]
  refine ⟨_, rfl, ⟨?_, ?_, ⟨all, by simp⟩, ?_⟩, ?_⟩ <;> cases hp : r.pressing <;> simp [g.cap, g.items]

/-! ### range of `value()` -/

/-- the pull-up correction keeps a position in [0,1] inside [0,1] when `0 ≤ K ≤ 1` -/
theorem correction_range (a K : F32) (ha : a.isFin = true) (hK : K.isFin = true) (a0 : 0 ≤ a.val) (a1 : a.val ≤ 1)
    (harep : rnd a.val = a.val) (K0 : 0 ≤ K.val) (K1 : K.val ≤ 1) :
    let c := sub a (mul (sub a (mul a a)) K)
    c.isFin = true ∧ 0 ≤ c.val ∧ c.val ≤ 1 := by
  have small : ∀ u : ℚ, |u| ≤ 1 → |u| ≤ 2 ^ (127:ℤ) := fun u h => le_trans h (by norm_num)
  have habs : ∀ u : ℚ, 0 ≤ u → u ≤ 1 → |u| ≤ 1 := fun u h0 h1 => by rw [abs_of_nonneg h0]; exact h1
  -- a²
  have sq0 : 0 ≤ a.val * a.val := by positivity
  have sq1 : a.val * a.val ≤ a.val := by nlinarith
  obtain ⟨m1, m2⟩ := val_mul ha ha (small _ (habs _ sq0 (by linarith)))
  have q0 : 0 ≤ (mul a a).val := by rw [m2]; exact rnd_nonneg sq0
  have q1 : (mul a a).val ≤ a.val := by
    calc (mul a a).val = rnd (a.val * a.val) := m2
      _ ≤ rnd a.val := rnd_mono sq1
      _ = a.val := harep
  -- a − a²
  obtain ⟨s1, s2⟩ := val_sub ha m1 (small _ (habs _ (by linarith) (by linarith)))
  have d0 : 0 ≤ (sub a (mul a a)).val := by rw [s2]; exact rnd_nonneg (by linarith)
  have d1 : (sub a (mul a a)).val ≤ a.val := by
    calc (sub a (mul a a)).val = rnd (a.val - (mul a a).val) := s2
      _ ≤ rnd a.val := rnd_mono (by linarith)
      _ = a.val := harep
  -- (a − a²)·K
  have p0 : 0 ≤ (sub a (mul a a)).val * K.val := by positivity
  have p1 : (sub a (mul a a)).val * K.val ≤ a.val := by nlinarith
  obtain ⟨e1, e2⟩ := val_mul s1 hK (small _ (habs _ p0 (by linarith)))
  have e0 : 0 ≤ (mul (sub a (mul a a)) K).val := by rw [e2]; exact rnd_nonneg p0
  have e1' : (mul (sub a (mul a a)) K).val ≤ a.val := by
    calc (mul (sub a (mul a a)) K).val = rnd ((sub a (mul a a)).val * K.val) := e2
      _ ≤ rnd a.val := rnd_mono p1
      _ = a.val := harep
  -- a − e
  obtain ⟨c1, c2⟩ := val_sub ha e1 (small _ (habs _ (by linarith) (by linarith)))
  refine ⟨c1, by rw [c2]; exact rnd_nonneg (by linarith), ?_⟩
  rw [c2]; exact rnd_le_of_le (by linarith) rep_one

/-- **`0 ≤ value() ≤ 1`** for a non-negative stored position and a boundary in (0, 1] -/
theorem value_range (r : Ribbon) (hc : r.current.isFin = true) (hb : r.boundary.isFin = true)
    (c0 : 0 ≤ r.current.val) (c1 : r.current.val ≤ 1) (b0 : 2 ^ (-100:ℤ) ≤ r.boundary.val) :
    r.value.isFin = true ∧ 0 ≤ r.value.val ∧ r.value.val ≤ 1 := by
  have bpos : 0 < r.boundary.val := lt_of_lt_of_le (by positivity) b0
  have hq : |r.current.val / r.boundary.val| ≤ 2 ^ (127:ℤ) := by
    rw [abs_of_nonneg (by positivity), div_le_iff₀ bpos]
    calc r.current.val ≤ 1 := c1
      _ = 2 ^ (127:ℤ) * 2 ^ (-127:ℤ) := by norm_num
      _ ≤ 2 ^ (127:ℤ) * r.boundary.val := by
          apply mul_le_mul_of_nonneg_left _ (by positivity)
          exact le_trans (by norm_num) b0
  obtain ⟨d1, d2⟩ := val_div hc hb (ne_of_gt bpos) hq
  have q0 : 0 ≤ (div r.current r.boundary).val := by rw [d2]; exact rnd_nonneg (by positivity)
  unfold Ribbon.value
  cases hd : div r.current r.boundary with
  | nan => rw [hd] at d1; simp at d1
  | inf s => rw [hd] at d1; simp at d1
  | fin q nz =>
    rw [hd, val_fin] at q0
    by_cases hz : q = 0
    · subst hz
      have : ¬ ((1:ℚ) < 0) := by norm_num
      cases nz <;> simp [fmin, mixedZeros, lt, one, this]
    · have hne : (q == 0) = false := by simpa using hz
      by_cases h1 : (1:ℚ) < q
      · simp [fmin, mixedZeros, lt, one, hne, h1]
      · simp only [fmin, mixedZeros, lt, one, hne, Bool.false_and, Bool.false_eq_true, ↓reduceIte, h1, decide_false]
        exact ⟨rfl, q0, not_lt.mp h1⟩

/-- **retention**: a poll that does not recompute the position leaves `value()` untouched -/
theorem retained (r r' : Ribbon) (x : F32) (h : r.poll x = some r') (hno : r'.pressing = false ∨ r'.written < r'.buff.cap) :
    r'.current = r.current ∧ r'.boundary = r.boundary ∧ r'.value = r.value := by
  have key : r'.current = r.current ∧ r'.boundary = r.boundary := by
    unfold Ribbon.poll at h
    by_cases hin : lt x r.boundary = true
    · simp only [hin, ↓reduceIte] at h
      by_cases hign : r.ignore ≤ min (r.received + 1) r.ignore
      · simp only [hign, ↓reduceIte] at h
        by_cases hfull : (min (r.written + 1) (r.buff.write x).capacity == (r.buff.write x).capacity) = true
        · simp only [hfull, ↓reduceIte] at h
          split at h
          · simp at h
          · -- recomputed: then the result is pressing with a full counter, contradicting `hno`
            exfalso
            simp only [Option.some.injEq] at h
            have hw : min (r.written + 1) (r.buff.write x).capacity = (r.buff.write x).capacity := by simpa using hfull
            rcases hno with hp | hlt
            · cases hpr : r.pressing <;> simp [hpr] at h <;> (subst h; simp at hp)
            · cases hpr : r.pressing <;> simp [hpr] at h <;> (subst h; simp [HistBuf.capacity] at hlt hw; omega)
        · simp only [hfull, Bool.false_eq_true, ↓reduceIte, Option.some.injEq] at h
          subst h; exact ⟨rfl, rfl⟩
      · simp only [hign, ↓reduceIte, Option.some.injEq] at h
        subst h; exact ⟨rfl, rfl⟩
    · have hin' : lt x r.boundary = false := by simpa using hin
      simp only [hin', Bool.false_eq_true, ↓reduceIte, Option.some.injEq] at h
      subst h; cases hp : r.pressing <;> simp
  exact ⟨key.1, key.2, by unfold Ribbon.value; rw [key.1, key.2]⟩

/-- the average of a window of samples in [0,1] is a representable value in [0,1] -/
theorem average_range (w : List F32) (hw : ∀ x ∈ w, Unit01 x) (hn1 : 1 ≤ w.length) (hn : w.length < 2 ^ 24) :
    let a := div (Ribbon.fsum w) (ofNat w.length)
    a.isFin = true ∧ 0 ≤ a.val ∧ a.val ≤ 1 ∧ rnd a.val = a.val := by
  obtain ⟨s1, s2, s3⟩ := fold_bounded w hw (.fin 0 true) 0 rfl (by simp) (by simp) (by simpa using hn)
  obtain ⟨n1, n2⟩ := ofNat_fin w.length hn
  have hnpos : (0:ℚ) < w.length := by exact_mod_cast hn1
  have hfs : Ribbon.fsum w = w.foldl add (.fin 0 true) := by unfold Ribbon.fsum; rw [sumInit]
  simp only [Nat.zero_add] at s3
  have hq1 : (w.foldl add (.fin 0 true)).val / (w.length : ℚ) ≤ 1 := by rw [div_le_one hnpos]; exact s3
  have hq0 : 0 ≤ (w.foldl add (.fin 0 true)).val / (w.length : ℚ) := by positivity
  obtain ⟨d1, d2⟩ := val_div (x := w.foldl add (.fin 0 true)) (y := ofNat w.length) s1 n1 (by rw [n2]; exact ne_of_gt hnpos)
    (by rw [n2, abs_of_nonneg hq0]; exact le_trans hq1 (by norm_num))
  rw [n2] at d2
  rw [hfs]
  refine ⟨d1, by rw [d2]; exact rnd_nonneg hq0, by rw [d2]; exact rnd_le_of_le hq1 rep_one, by rw [d2]; exact rnd_idem _⟩

/-- **recomputed position**: average + correction of a window of samples in [0,1] lies in [0,1] whenever the
correction constant does (pull-up resistance at least the divider resistance) -/
theorem recomputed_range (w : List F32) (hw : ∀ x ∈ w, Unit01 x) (hn1 : 1 ≤ w.length) (hn : w.length < 2 ^ 24)
    (K : F32) (hK : K.isFin = true) (K0 : 0 ≤ K.val) (K1 : K.val ≤ 1) :
    let a := div (Ribbon.fsum w) (ofNat w.length)
    let c := sub a (mul (sub a (mul a a)) K)
    c.isFin = true ∧ 0 ≤ c.val ∧ c.val ≤ 1 := by
  obtain ⟨a1, a2, a3, a4⟩ := average_range w hw hn1 hn
  exact correction_range _ K a1 hK a2 a3 a4 K0 K1

/-- non-vacuity: the mean of three samples 0.25, 0.5, 0.75 with K = 0 is exactly 0.5 -/
example : (div (Ribbon.fsum [ofBits 0x3e800000, ofBits 0x3f000000, ofBits 0x3f400000]) (ofNat 3)) = ofBits 0x3f000000 := by
  decide +kernel

end C16
