import SynthVerif.Props.C02
import SynthVerif.Props.C20
import SynthVerif.Props.Interp
/-!
Shared ADSR facts: geometry of the generated constants, bounds on the per-tick increment for clamped times and
sample rates in [100 Hz, 192 kHz], and the parameter part of the envelope invariant.
-/
namespace AdsrL
open F32

theorem adsr_bits : Gen.adsrTotalBits = 24 ∧ Gen.adsrIndexBits = 10 ∧ Gen.adsrLutSize = 1024 := by decide

/-- a time parameter as the `TimePeriod` conversion leaves it: finite, within [0.001f32, 20], representable -/
def TimeOk (t : F32) : Prop := ∃ τ nz, t = .fin τ nz ∧ minTime.val ≤ τ ∧ τ ≤ 20 ∧ Rep τ

/-- a sample rate in the documented range -/
def RateOk (sr : F32) : Prop := ∃ σ ns, sr = .fin σ ns ∧ 100 ≤ σ ∧ σ ≤ 192000

theorem minTime_ge : (1:ℚ) / 1024 ≤ minTime.val := by decide +kernel

/-- `TimePeriod::from` always produces a `TimeOk` value when its argument is a binary32 number -/
theorem timePeriod_ok (x : F32) (hx : Rep x.val) : TimeOk (timePeriod x) := by
  obtain ⟨hf, h1, h2⟩ := C20.timePeriod_range x
  have hrep : Rep (timePeriod x).val := by
    rw [C20.timePeriod_spec]
    unfold C20.clampSpec
    have rmin : Rep minTime.val := by
      have : minTime = ofBits Gen.minTimeBits := rfl
      rw [this]; exact ofBits_rep _
    have rmax : Rep maxTime.val := by rw [C20.maxTime_eq]; simpa using rep_int (n := 20) (by norm_num)
    split
    · exact rmin
    · split
      · exact rmin
      · split
        · exact rmax
        · exact hx
  cases ht : timePeriod x with
  | nan => rw [ht] at hf; simp at hf
  | inf s => rw [ht] at hf; simp at hf
  | fin τ nz =>
    rw [ht, val_fin] at h1 h2 hrep
    exact ⟨τ, nz, rfl, h1, h2, hrep⟩

/-- **increment bounds**: for a clamped time and a sample rate in [100 Hz, 192 kHz] the per-tick increment lies in
[4, 2^28]: a phase always makes progress, and `accumulator + increment` cannot overflow a u32 -/
theorem inc_bounds (p : PhaseAcc) (htb : p.totalBits = 24) (t : F32) (ht : TimeOk t) (hsr : RateOk p.sr) :
    4 ≤ (p.setPeriod t).inc ∧ (p.setPeriod t).inc ≤ 2 ^ 28 := by
  obtain ⟨τ, nz, rfl, t1, t2, trep⟩ := ht
  obtain ⟨σ, ns, hσ, s1, s2⟩ := hsr
  have hm := minTime_ge
  have τ0 : 0 < τ := by linarith
  simp only [PhaseAcc.setPeriod, PhaseAcc.setFrequency, htb, hσ, PhaseAcc.pow2_24]
  -- f = fl(1/τ)
  have hq0 : 0 ≤ 1 / τ := by positivity
  have hq1 : 1 / τ ≤ 1024 := by rw [div_le_iff₀ τ0]; nlinarith
  have hq2 : 3 / 64 ≤ 1 / τ := by rw [le_div_iff₀ τ0]; nlinarith
  have hone : one.val = 1 := rfl
  obtain ⟨f1, f2⟩ := val_div (x := one) (y := .fin τ nz) rfl rfl (by simpa using ne_of_gt τ0)
    (by rw [hone, val_fin, abs_of_nonneg hq0]; exact le_trans hq1 (by norm_num))
  rw [hone, val_fin] at f2
  have flo : 3 / 64 ≤ (div one (.fin τ nz)).val := by
    rw [f2]; exact le_rnd_of_le hq2 (by have := rep_div_pow2 (m := 3) (by norm_num) 6 (by norm_num); norm_num at this; exact this)
  have fhi : (div one (.fin τ nz)).val ≤ 1024 := by
    rw [f2]; exact rnd_le_of_le hq1 (by simpa using rep_int (n := 1024) (by norm_num))
  set f := (div one (.fin τ nz)).val with hf
  -- P = fl(2^24 · f)
  obtain ⟨m1, m2⟩ := val_mul (x := .fin 16777216 false) (y := div one (.fin τ nz)) rfl f1
    (by rw [val_fin, ← hf, abs_of_nonneg (by nlinarith)]
        calc 16777216 * f ≤ 16777216 * 1024 := by nlinarith
          _ ≤ 2 ^ (127:ℤ) := by norm_num)
  rw [val_fin, ← hf] at m2
  have Plo : 786432 ≤ (mul (.fin 16777216 false) (div one (.fin τ nz))).val := by
    rw [m2]; exact le_rnd_of_le (by nlinarith) (by simpa using rep_int (n := 786432) (by norm_num))
  have Phi : (mul (.fin 16777216 false) (div one (.fin τ nz))).val ≤ 17179869184 := by
    rw [m2]; apply rnd_le_of_le (by nlinarith)
    have := rep_pow2 (k := 34) (by norm_num); norm_num at this; exact this
  set P := (mul (.fin 16777216 false) (div one (.fin τ nz))).val with hP
  -- Q = fl(P / σ)
  have σ0 : 0 < σ := by linarith
  have Q0 : 0 ≤ P / σ := by apply div_nonneg <;> linarith
  have Qlo : 4 ≤ P / σ := by rw [le_div_iff₀ σ0]; nlinarith
  have Qhi : P / σ ≤ 268435456 := by rw [div_le_iff₀ σ0]; nlinarith
  obtain ⟨d1, d2⟩ := val_div m1 (isFin_fin σ ns) (by simpa using ne_of_gt σ0)
    (by rw [← hP, val_fin, abs_of_nonneg Q0]; exact le_trans Qhi (by norm_num))
  rw [← hP, val_fin] at d2
  have Rlo : 4 ≤ rnd (P / σ) := le_rnd_of_le Qlo (by simpa using rep_int (n := 4) (by norm_num))
  have Rhi : rnd (P / σ) ≤ 268435456 := by
    apply rnd_le_of_le Qhi
    have := rep_pow2 (k := 28) (by norm_num); norm_num at this; exact this
  cases hD : div (mul (.fin 16777216 false) (div one (.fin τ nz))) (.fin σ ns) with
  | nan => rw [hD] at d1; simp at d1
  | inf s => rw [hD] at d1; simp at d1
  | fin r rz =>
    rw [hD, val_fin] at d2
    have hfl := toU32_floor r rz (by rw [d2]; linarith) (by rw [d2]; exact lt_of_le_of_lt Rhi (by norm_num))
    have g1 : (4:ℤ) ≤ ⌊r⌋ := by rw [d2]; exact Int.le_floor.mpr (by exact_mod_cast Rlo)
    have g2 : ⌊r⌋ ≤ 268435456 := by
      rw [d2]
      have : ⌊rnd (P / σ)⌋ ≤ ⌊(268435456:ℚ)⌋ := Int.floor_le_floor Rhi
      simpa using this
    constructor <;> omega

end AdsrL
