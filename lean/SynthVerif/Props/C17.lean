import SynthVerif.Props.AdsrLemmas
import SynthVerif.Props.C11
import SynthVerif.Props.C13
import SynthVerif.Props.C15
import SynthVerif.Props.C06
import SynthVerif.Props.C07
/-!
# C17 — No operation panics, overflows or hangs for any in-range argument

In the models every place where the Rust code can panic in a debug build (u32 `+`/`*`/`-` overflow, slice index,
`unwrap`, debug assertions of dependencies) returns `none`; "no panic" is "the model step returns `some`".
* ADSR: `adsr_ok` — `AOk` (geometry, sample rate in [100 Hz, 192 kHz], clamped times, counter inside 24 bits) is
  an invariant of every operation and no `tick` panics; `phase_ends` — a timed phase ends after at most 2^22 ticks
  (every tick adds at least 4 counts), so every gate-on reaches sustain and every release reaches rest.
* LFO: `lfo_tick_ok` — for `0 ≤ f ≤ fs` no `tick` overflows; the counter stays inside 24 bits (`C10.reachable_ok`).
* Glide: `C13.bounded_partial`, `C13.new_inv`, `C13.setTime_inv` — any `set_time` argument, finite inputs.
* Quantizer: `C07.history_from_new` — any input value, any well-formed scale edit.
* Ribbon: `ribbon_new_ok` + `C15.refines` — helper-sized buffers never underflow `capacity − discard`.
* MIDI: `parse` is a total function and `C06.payload_bounds` shows every dependency assertion is met.
-/
namespace C17
open F32 AdsrL

/-! ### ADSR -/

structure AOk (a : Adsr) : Prop where
  tb : a.pa.totalBits = 24
  ib : a.pa.indexBits = 10
  rate : RateOk a.pa.sr
  acc : a.pa.acc < 2 ^ 24
  rolled : a.pa.rolled = false
  att : TimeOk a.attackTime
  dec : TimeOk a.decayTime
  rel : TimeOk a.releaseTime

theorem minTime_ok : TimeOk minTime := by
  have h := C20.minTime_eq
  refine ⟨minTime.val, false, h, le_refl _, le_of_lt C20.minTime_lt_max, ?_⟩
  have : minTime = ofBits Gen.minTimeBits := rfl
  rw [this]; exact ofBits_rep _

theorem timePeriod_minTime : timePeriod minTime = minTime := by decide +kernel

theorem new_ok (sr : F32) (h : RateOk sr) : AOk (Adsr.new sr) := by
  refine ⟨adsr_bits.1, adsr_bits.2.1, h, by simp [Adsr.new, PhaseAcc.new], rfl, ?_, ?_, ?_⟩ <;>
    (show TimeOk (timePeriod minTime); rw [timePeriod_minTime]; exact minTime_ok)

theorem period_ok (a : Adsr) (h : AOk a) : TimeOk a.period := by
  unfold Adsr.period
  cases a.state <;> simp only <;> first | exact h.att | exact h.dec | exact h.rel | exact minTime_ok

theorem inc_ok (a : Adsr) (h : AOk a) : 4 ≤ C02.incOf a ∧ C02.incOf a ≤ 2 ^ 28 :=
  inc_bounds a.pa h.tb a.period (period_ok a h) h.rate

/-- **no panic**: `tick` always returns, and keeps the invariant -/
theorem tick_ok (a : Adsr) (h : AOk a) : ∃ a', a.tick = some a' ∧ AOk a' := by
  by_cases ht : a.state.timed = true
  · obtain ⟨i1, i2⟩ := inc_ok a h
    have hacc := h.acc
    obtain ⟨a', e, r', _, tb', hcase⟩ := C02.tick_timed a ht h.rolled (by omega)
    refine ⟨a', e, ?_⟩
    have hfields : a'.pa.sr = a.pa.sr ∧ a'.attackTime = a.attackTime ∧ a'.decayTime = a.decayTime ∧
        a'.releaseTime = a.releaseTime ∧ a'.pa.indexBits = a.pa.indexBits := by
      have ht' := C02.pa_tick (a.pa.setPeriod a.period) (by show a.pa.acc + C02.incOf a < 2 ^ 32; omega)
      unfold Adsr.tick at e
      rw [if_pos ht, ht'] at e
      simp only [Option.some.injEq] at e
      subst e
      dsimp only
      split <;> exact ⟨rfl, rfl, rfl, rfl, rfl⟩
    obtain ⟨f1, f2, f3, f4, f5⟩ := hfields
    refine ⟨by rw [tb']; exact h.tb, by rw [f5]; exact h.ib, by rw [f1]; exact h.rate, ?_, r', by rw [f2]; exact h.att,
      by rw [f3]; exact h.dec, by rw [f4]; exact h.rel⟩
    rw [h.tb] at hcase
    split at hcase
    · rw [hcase.2]; norm_num
    · rw [hcase.2]; omega
  · have ht' : a.state.timed = false := by simpa using ht
    refine ⟨{ a with value := a.calcValue }, by simp [Adsr.tick, ht'], ?_⟩
    exact ⟨h.tb, h.ib, h.rate, h.acc, h.rolled, h.att, h.dec, h.rel⟩

theorem gateOn_ok (a : Adsr) (h : AOk a) : AOk a.gateOn := by
  unfold Adsr.gateOn
  split
  · exact h
  · exact ⟨h.tb, h.ib, h.rate, by simp [PhaseAcc.reset], by simp [PhaseAcc.reset], h.att, h.dec, h.rel⟩

theorem gateOff_ok (a : Adsr) (h : AOk a) : AOk a.gateOff := by
  unfold Adsr.gateOff
  split
  · exact h
  · exact h
  · exact ⟨h.tb, h.ib, h.rate, by simp [PhaseAcc.reset], by simp [PhaseAcc.reset], h.att, h.dec, h.rel⟩

/-- parameter changes as the public API allows them: the value goes through `TimePeriod::from` / `SustainLevel::from` -/
inductive Op
  | gateOn | gateOff | tick
  | setAttack (x : F32) | setDecay (x : F32) | setRelease (x : F32) | setSustain (x : F32)

def step (a : Adsr) : Op → Option Adsr
  | .gateOn => some a.gateOn
  | .gateOff => some a.gateOff
  | .tick => a.tick
  | .setAttack x => some (a.setInput (.attack (timePeriod x)))
  | .setDecay x => some (a.setInput (.decay (timePeriod x)))
  | .setRelease x => some (a.setInput (.release (timePeriod x)))
  | .setSustain x => some (a.setInput (.sustain (sustainLevel x)))

def run (a : Adsr) : List Op → Option Adsr
  | [] => some a
  | o :: os => match step a o with
    | none => none
    | some a' => run a' os

def opWf : Op → Prop
  | .setAttack x | .setDecay x | .setRelease x | .setSustain x => Rep x.val
  | _ => True

theorem step_ok (a : Adsr) (h : AOk a) (o : Op) (hw : opWf o) : ∃ a', step a o = some a' ∧ AOk a' := by
  cases o with
  | gateOn => exact ⟨_, rfl, gateOn_ok a h⟩
  | gateOff => exact ⟨_, rfl, gateOff_ok a h⟩
  | tick => exact tick_ok a h
  | setAttack x => exact ⟨_, rfl, ⟨h.tb, h.ib, h.rate, h.acc, h.rolled, timePeriod_ok x hw, h.dec, h.rel⟩⟩
  | setDecay x => exact ⟨_, rfl, ⟨h.tb, h.ib, h.rate, h.acc, h.rolled, h.att, timePeriod_ok x hw, h.rel⟩⟩
  | setRelease x => exact ⟨_, rfl, ⟨h.tb, h.ib, h.rate, h.acc, h.rolled, h.att, h.dec, timePeriod_ok x hw⟩⟩
  | setSustain x => exact ⟨_, rfl, ⟨h.tb, h.ib, h.rate, h.acc, h.rolled, h.att, h.dec, h.rel⟩⟩

/-- **ADSR, all histories**: for a sample rate in [100 Hz, 192 kHz] and *any* binary32 parameter values, no
sequence of gate-on / gate-off / tick / set_input calls panics or overflows -/
theorem adsr_ok (sr : F32) (hsr : RateOk sr) (ops : List Op) (hw : ∀ o ∈ ops, opWf o) :
    ∃ a', run (Adsr.new sr) ops = some a' ∧ AOk a' := by
  suffices h : ∀ a, AOk a → ∃ a', run a ops = some a' ∧ AOk a' from h _ (new_ok sr hsr)
  induction ops with
  | nil => intro a h; exact ⟨a, rfl, h⟩
  | cons o os ih =>
    intro a h
    obtain ⟨a1, e1, h1⟩ := step_ok a h o (hw o (by simp))
    obtain ⟨a2, e2, h2⟩ := ih (fun x hx => hw x (by simp [hx])) a1 h1
    have : run a (o :: os) = (match step a o with | none => none | some a' => run a' os) := rfl
    exact ⟨a2, by rw [this, e1]; exact e2, h2⟩

/-- one tick of a timed phase either ends it or moves the counter forward by at least 4 -/
theorem tick_progress (a : Adsr) (h : AOk a) (ht : a.state.timed = true) :
    ∃ a', a.tick = some a' ∧ AOk a' ∧
      (a'.state = a.state.next ∨ (a'.state = a.state ∧ a.pa.acc + 4 ≤ a'.pa.acc)) := by
  obtain ⟨i1, i2⟩ := inc_ok a h
  have hacc := h.acc
  obtain ⟨a', e, _, _, _, hcase⟩ := C02.tick_timed a ht h.rolled (by omega)
  obtain ⟨a'', e', ok⟩ := tick_ok a h
  rw [e] at e'; simp only [Option.some.injEq] at e'; subst e'
  refine ⟨a', e, ok, ?_⟩
  split at hcase
  · left; exact hcase.1
  · right; exact ⟨hcase.1, by rw [hcase.2]; omega⟩

/-- iterate `tick` -/
def tickN (a : Adsr) : ℕ → Option Adsr
  | 0 => some a
  | n + 1 => match a.tick with
    | none => none
    | some a' => tickN a' n

/-- **liveness**: a timed phase ends after at most `k` ticks whenever `2^24 − acc ≤ 4k`; in particular within
2^22 ticks from any position -/
theorem phase_ends (k : ℕ) (a : Adsr) (h : AOk a) (ht : a.state.timed = true) (hk : 2 ^ 24 - a.pa.acc ≤ 4 * k) :
    ∃ n a', n ≤ k ∧ 1 ≤ n ∧ tickN a n = some a' ∧ AOk a' ∧ a'.state = a.state.next := by
  induction k generalizing a with
  | zero => have := h.acc; omega
  | succ k ih =>
    obtain ⟨a1, e1, ok1, hcase⟩ := tick_progress a h ht
    rcases hcase with hnext | ⟨hsame, hadv⟩
    · exact ⟨1, a1, by omega, le_refl _, by simp [tickN, e1], ok1, hnext⟩
    · have hacc1 := ok1.acc
      obtain ⟨n, a2, hn, hn1, e2, ok2, hs2⟩ := ih a1 ok1 (by rw [hsame]; exact ht) (by omega)
      refine ⟨n + 1, a2, by omega, by omega, ?_, ok2, by rw [hs2, hsame]⟩
      simp [tickN, e1, e2]

/-- every envelope started by a gate-on reaches sustain within 2^23 ticks; every release reaches rest within 2^22 -/
theorem reaches_sustain (a : Adsr) (h : AOk a) (hs : a.state = .attack) :
    ∃ n a', n ≤ 2 ^ 23 ∧ tickN a n = some a' ∧ a'.state = .sustain := by
  obtain ⟨n1, a1, hn1, _, e1, ok1, s1⟩ := phase_ends (2 ^ 22) a h (by rw [hs]; rfl) (by have := h.acc; omega)
  rw [hs] at s1
  obtain ⟨n2, a2, hn2, _, e2, ok2, s2⟩ := phase_ends (2 ^ 22) a1 ok1 (by rw [s1]; rfl) (by have := ok1.acc; omega)
  rw [s1] at s2
  refine ⟨n1 + n2, a2, by omega, ?_, s2⟩
  -- tickN composes
  have comp : ∀ (m : ℕ) (x y : Adsr), tickN x m = some y → ∀ k z, tickN y k = some z → tickN x (m + k) = some z := by
    intro m
    induction m with
    | zero => intro x y hxy k z hyz; simp only [tickN, Option.some.injEq] at hxy; subst hxy; simpa using hyz
    | succ m ihm =>
      intro x y hxy k z hyz
      have : m + 1 + k = (m + k) + 1 := by omega
      rw [this]
      simp only [tickN] at hxy ⊢
      cases hx : x.tick with
      | none => rw [hx] at hxy; simp at hxy
      | some x' => rw [hx] at hxy; exact ihm x' y hxy k z hyz
  exact comp n1 a a1 e1 n2 a2 e2

theorem reaches_rest (a : Adsr) (h : AOk a) (hs : a.state = .release) :
    ∃ n a', n ≤ 2 ^ 22 ∧ tickN a n = some a' ∧ a'.state = .atRest := by
  obtain ⟨n1, a1, hn1, _, e1, _, s1⟩ := phase_ends (2 ^ 22) a h (by rw [hs]; rfl) (by have := h.acc; omega)
  rw [hs] at s1
  exact ⟨n1, a1, hn1, e1, s1⟩

/-! ### LFO -/

/-- a tick cannot overflow while the increment stays below 2^31 (it is at most 2^24·(1+2^-24)+1 for `f ≤ fs`) -/
theorem lfo_tick_ok (l : Lfo) (h : C10.Ok l) (hinc : l.pa.inc < 2 ^ 31) : ∃ l', l.tick = some l' ∧ C10.Ok l' := by
  have hacc := h.acc
  have hov : ¬ (l.pa.acc + l.pa.inc ≥ 2 ^ 32) := by omega
  cases ht : l.tick with
  | none => simp only [Lfo.tick, PhaseAcc.tick, if_neg hov, Option.map_some] at ht; simp at ht
  | some l1 =>
    refine ⟨l1, rfl, ?_⟩
    simp only [Lfo.tick, PhaseAcc.tick, if_neg hov, Option.map_some, Option.some.injEq] at ht
    subst ht
    refine ⟨h.tb, h.ib, ?_⟩
    show (l.pa.acc + l.pa.inc) % 2 ^ l.pa.totalBits < 2 ^ 24
    rw [h.tb]; exact Nat.mod_lt _ (by norm_num)

/-- for every representable frequency in `[0, fs]` the increment is below 2^31, so ticking never panics -/
theorem lfo_freq_ok (l : Lfo) (h : C10.Ok l) (φ σ : ℚ) (nf ns : Bool) (hsr : l.pa.sr = .fin σ ns)
    (hφ0 : 0 ≤ φ) (hφσ : φ ≤ σ) (hσ : 0 < σ) (hσ' : σ ≤ 2 ^ (100:ℤ)) (hrep : Rep φ) :
    (l.setFrequency (.fin φ nf)).pa.inc < 2 ^ 31 := by
  obtain ⟨hi, _⟩ := C11.increment_bounds l h φ σ nf ns hsr hφ0 hφσ hσ hσ' hrep
  have hx : (2:ℚ) ^ 24 * φ / σ ≤ 2 ^ 24 := by
    rw [div_le_iff₀ hσ]; nlinarith
  have : (((l.setFrequency (.fin φ nf)).pa.inc : ℕ) : ℚ) < 2 ^ 31 := by
    have e1 : (2:ℚ) ^ (-24:ℤ) ≤ 1 := by norm_num
    have e2 : (2:ℚ) ^ (-150:ℤ) ≤ 1 := by norm_num
    have x0 : (0:ℚ) ≤ 2 ^ 24 * φ / σ := by positivity
    calc (((l.setFrequency (.fin φ nf)).pa.inc : ℕ) : ℚ) ≤ 2 ^ 24 * φ / σ * (1 + 2 ^ (-24:ℤ)) + 2 ^ (-150:ℤ) := hi
      _ ≤ 2 ^ 24 * 2 + 1 := by nlinarith
      _ < 2 ^ 31 := by norm_num
  exact_mod_cast this

/-! ### Ribbon -/

theorem toU32_ofNat (n : ℕ) (h : n < 2 ^ 24) : toU32 (ofNat n) = n := by
  obtain ⟨f1, f2⟩ := ofNat_fin n h
  cases hn : ofNat n with
  | nan => rw [hn] at f1; simp at f1
  | inf s => rw [hn] at f1; simp at f1
  | fin r rz =>
    rw [hn, val_fin] at f2
    have := toU32_floor r rz (by rw [f2]; positivity) (by rw [f2]; exact_mod_cast lt_trans h (by norm_num))
    rw [f2] at this
    have e : ⌊(n:ℚ)⌋ = n := by simp
    rw [e] at this
    rw [f2]
    exact_mod_cast this

/-- **helper-sized buffers**: for an integer sample rate up to 192 kHz, constructing the controller with the capacity
given by `sample_rate_to_capacity` never panics and leaves `discard < capacity` — the hypothesis under which
`C15.refines` shows that no `poll` panics -/
theorem ribbon_new_ok (n : ℕ) (hn : n ≤ 192000) (sp dr pu : F32) :
    ∃ c r, Ribbon.sampleRateToCapacity n = some c ∧ Ribbon.new c (ofNat n) sp dr pu = some r ∧
      1 ≤ c ∧ r.discard < c ∧ r.buff.capacity = c := by
  have hu := toU32_ofNat n (by omega)
  have c1 : Gen.ribbonFallUsec = 1000 ∧ Gen.ribbonRiseUsec = 2000 ∧ Gen.ribbonMinCaptureUsec = 15000 := by decide
  obtain ⟨k1, k2, k3⟩ := c1
  have hcap : Ribbon.sampleRateToCapacity n = some (n * 15000 / 1000000 + n * 2000 / 1000000 + 1) := by
    unfold Ribbon.sampleRateToCapacity
    rw [k2, k3]
    have : ¬ (n * 15000 ≥ 2 ^ 32 ∨ n * 2000 ≥ 2 ^ 32) := by omega
    rw [if_neg this]
  have hs1 : Ribbon.usecToSamples (ofNat n) Gen.ribbonFallUsec = some (n * 1000 / 1000000) := by
    unfold Ribbon.usecToSamples; rw [hu, k1]
    have : ¬ (n * 1000 ≥ 2 ^ 32) := by omega
    simp only [if_neg this]
  have hs2 : Ribbon.usecToSamples (ofNat n) Gen.ribbonRiseUsec = some (n * 2000 / 1000000) := by
    unfold Ribbon.usecToSamples; rw [hu, k2]
    have : ¬ (n * 2000 ≥ 2 ^ 32) := by omega
    simp only [if_neg this]
  refine ⟨_, _, hcap, by unfold Ribbon.new; rw [hs1, hs2], by omega, ?_, rfl⟩
  show n * 2000 / 1000000 < n * 15000 / 1000000 + n * 2000 / 1000000 + 1
  omega

/-- non-vacuity: the two sample rates at which the envelope used to hang before the roll-over repair -/
example : (run (Adsr.new (ofBits 0x42c80000)) [.setAttack (ofBits 0x3c23d70a), .gateOn, .tick, .tick, .tick]).map (·.state)
    = some .sustain := by decide +kernel

end C17
